/-
  C18 — replace() applies exactly the requested nested changes and nothing else.
  Theorems about `SpVerif.Model.Replace` (mirrors replace.py — including repairs 4cae786, bb5a5f4 — and utils.unflatten / unflatten_split).
-/
import SpVerif.Model.Replace
namespace SpVerif.C18
open SpVerif SpVerif.Replace

/-! ### small facts about the dict primitives and `str.split` -/

theorem dget_ddel_ne (d : Dict) (k k' : Str) (h : k' ≠ k) : dget (ddel d k') k = dget d k := by
  induction d with
  | nil => rfl
  | cons kv r ih =>
    obtain ⟨a, b⟩ := kv
    simp only [ddel]
    by_cases h1 : a = k'
    · subst h1; simp [dget, h]
    · simp only [h1, if_false, dget, ih]

theorem splitOnChar_ne_nil (sep : Char) (s : Str) : splitOnChar sep s ≠ [] := by
  induction s with
  | nil => simp [splitOnChar]
  | cons c cs ih =>
    simp only [splitOnChar]
    split
    · simp
    · split <;> simp

/-- a key without the separator is a single component -/
theorem splitOnChar_noSep (sep : Char) (s : Str) (h : sep ∉ s) : splitOnChar sep s = [s] := by
  induction s with
  | nil => rfl
  | cons c cs ih =>
    have hc : c ≠ sep := fun e => h (by simp [e])
    have hcs : sep ∉ cs := fun e => h (by simp [e])
    simp [splitOnChar, hc, ih hcs]

theorem splitOnChar_append_sep (sep : Char) (s t : Str) (h : sep ∉ s) :
    splitOnChar sep (s ++ sep :: t) = s :: splitOnChar sep t := by
  induction s with
  | nil => simp [splitOnChar]
  | cons c cs ih =>
    have hc : c ≠ sep := fun e => h (by simp [e])
    have hcs : sep ∉ cs := fun e => h (by simp [e])
    simp only [List.cons_append, splitOnChar, hc, if_false]
    rw [ih hcs]

/-- `".".join(p).split(".") == p` when no component contains the separator -/
theorem splitOnChar_join (sep : Char) (p : List Str) (hne : p ≠ []) (h : ∀ s ∈ p, sep ∉ s) :
    splitOnChar sep (joinWith sep p) = p := by
  induction p with
  | nil => exact absurd rfl hne
  | cons s rest ih =>
    cases rest with
    | nil => simpa [joinWith] using splitOnChar_noSep sep s (h s (by simp))
    | cons q rest' =>
      have ih' := ih (by simp) (fun x hx => h x (by simp [hx]))
      simp only [joinWith]
      rw [splitOnChar_append_sep sep s _ (h s (by simp)), ih']

/-! ### the dotted form and the nested form of one edit -/

/-- a path as the dotted key `"a.b.c"` -/
def joinDot (p : List Str) : Str := joinWith '.' p

/-- the nested form `{"a": {"b": {"c": v}}}` of one edit -/
def nestOf : List Str → Val → Dict
  | [], _ => []
  | [k], v => [(k, v)]
  | k :: k2 :: rest, v => [(k, .dict (nestOf (k2 :: rest) v))]

/-- no component contains a dot (so it is a field name, not a dotted key) -/
def DotFree (p : List Str) : Prop := ∀ s ∈ p, '.' ∉ s

theorem setPath_nil_eq (p : List Str) (v : Val) (hne : p ≠ []) : setPath [] p v = .ok (nestOf p v) := by
  induction p with
  | nil => exact absurd rfl hne
  | cons k rest ih =>
    cases rest with
    | nil => rfl
    | cons k2 rest' =>
      simp only [setPath, dget, ih (by simp), nestOf, dset]

/-- **dotted → nested**: `unflatten_split({"a.b.c": v}) == {"a": {"b": {"c": v}}}` for any depth -/
theorem unflatten_dotted (p : List Str) (v : Val) (hne : p ≠ []) (hd : DotFree p) :
    unflattenSplit [(joinDot p, v)] = .ok (nestOf p v) := by
  simp only [unflattenSplit, List.map, splitDot, joinDot, splitOnChar_join '.' p hne hd, unflattenFrom,
    setPath_nil_eq p v hne]

/-- the nested form of one edit is left alone by `unflatten_split` -/
theorem unflatten_nested (p : List Str) (v : Val) (hne : p ≠ []) (hd : DotFree p) :
    unflattenSplit (nestOf p v) = .ok (nestOf p v) := by
  cases p with
  | nil => exact absurd rfl hne
  | cons k rest =>
    have hk : splitOnChar '.' k = [k] := splitOnChar_noSep '.' k (hd k (by simp))
    cases rest with
    | nil => simp [nestOf, unflattenSplit, splitDot, hk, unflattenFrom, setPath, dset]
    | cons k2 r => simp [nestOf, unflattenSplit, splitDot, hk, unflattenFrom, setPath, dset]

/-- **dotted form = nested form** (replace.py docstring: `{"a.b": 1}` instead of `{"a": {"b": 1}}`), any depth,
    any object, whatever the outcome (result or error). -/
theorem c18_forms_dotted_nested (obj : Val) (p : List Str) (v : Val) (hne : p ≠ []) (hd : DotFree p) :
    replaceKw obj [(joinDot p, v)] = replaceKw obj (nestOf p v) := by
  cases obj <;> simp only [replaceKw, unflatten_dotted p v hne hd, unflatten_nested p v hne hd]

example : DotFree ["m".toList, "ol".toList, "v".toList] := by
  intro s hs; simp at hs; rcases hs with h | h | h <;> subst h <;> decide

/-- **keyword form = positional-dict form** -/
theorem c18_forms_kw_dict (obj : Val) (cd : Dict) (hr : hasReserved cd = false) :
    replaceTop obj (some cd) [] = replaceTop obj Option.none cd := by
  cases cd with
  | nil => simp [replaceTop, hasReserved]
  | cons c cs => simp only [replaceTop, hr]; simp [hasReserved]

example : hasReserved [("a".toList, Val.int 1)] = false := by decide

/-! ### one level of `replace`: what happens to each field -/

/-- `fields(obj)` lookup by name (first match, as `getattr` would see it) -/
def getFld : List Fld → Str → Option Fld
  | [], _ => Option.none
  | .mk n i v d :: rest, k => if n = k then some (.mk n i v d) else getFld rest k

theorem getField_eq (fs : List Fld) (k : Str) : getField fs k = (getFld fs k).map Fld.val := by
  induction fs with
  | nil => rfl
  | cons f rest ih =>
    obtain ⟨n, i, v, d⟩ := f
    simp only [getField, getFld]
    split <;> simp [ih, Fld.val]

/-- the new value `v'` of field `f`, given the entry `c` of the unflattened change set under its name:
    untouched when there is none; otherwise the field must be an init field and the value is the
    entry itself — except that a dict entry on a dataclass-valued field is applied recursively. -/
def FieldStep (f : Fld) (c : Option Val) (v' : Val) : Prop :=
  match c with
  | Option.none => v' = f.val
  | some x => f.init = true ∧
      match f.val, x with
      | .inst cl sub, .dict fc => replaceKw (.inst cl sub) fc = .ok v'
      | _, _ => v' = x

theorem replaceFields_spec (fs : List Fld) : ∀ (ch : Dict) (fs' : List Fld) (lo : Dict),
    replaceFields fs ch = .ok (fs', lo) → ∀ k f, getFld fs k = some f →
      ∃ v', getFld fs' k = some (.mk f.name f.init v' f.dflt) ∧ FieldStep f (dget ch k) v' := by
  induction fs with
  | nil => intro ch fs' lo _ k f hf; simp [getFld] at hf
  | cons f0 rest ih =>
    obtain ⟨n, i, v, d⟩ := f0
    intro ch fs' lo h k f hf
    simp only [getFld] at hf
    rw [replaceFields] at h
    cases hg : dget ch n with
    | none =>
      rw [hg] at h
      simp only at h
      cases hr : replaceFields rest ch with
      | error e => rw [hr] at h; simp at h
      | ok pr =>
        obtain ⟨r, lo'⟩ := pr
        rw [hr] at h
        simp only [Except.ok.injEq, Prod.mk.injEq] at h
        obtain ⟨h1, _⟩ := h
        subst h1
        by_cases hk : n = k
        · subst hk
          simp only [if_true, Option.some.injEq] at hf
          subst hf
          exact ⟨v, by simp [getFld, Fld.name, Fld.init, Fld.dflt], by simp [FieldStep, hg, Fld.val]⟩
        · simp only [hk, if_false] at hf
          obtain ⟨v', h1, h2⟩ := ih ch r lo' hr k f hf
          exact ⟨v', by simp [getFld, Fld.name, hk, h1], h2⟩
    | some x =>
      rw [hg] at h
      simp only at h
      cases i with
      | false => simp at h
      | true =>
        simp only [Bool.not_true, Bool.false_eq_true, if_false] at h
        -- both remaining branches continue with `ddel ch n`
        have key : ∀ (vn : Val) (r : List Fld) (lo' : Dict), replaceFields rest (ddel ch n) = .ok (r, lo') →
            fs' = .mk n true vn d :: r → FieldStep (.mk n true v d) (some x) vn →
            ∃ v', getFld fs' k = some (.mk f.name f.init v' f.dflt) ∧ FieldStep f (dget ch k) v' := by
          intro vn r lo' hr hfs hstep
          subst hfs
          by_cases hk : n = k
          · subst hk
            simp only [if_true, Option.some.injEq] at hf
            subst hf
            exact ⟨vn, by simp [getFld, Fld.name, Fld.init, Fld.dflt], by rw [hg]; exact hstep⟩
          · simp only [hk, if_false] at hf
            obtain ⟨v', h1, h2⟩ := ih (ddel ch n) r lo' hr k f hf
            rw [dget_ddel_ne ch k n hk] at h2
            exact ⟨v', by simp [getFld, Fld.name, hk, h1], h2⟩
        split at h
        · rename_i c sub fc
          cases hrk : replaceKw (.inst c sub) fc with
          | error e => rw [hrk] at h; simp at h
          | ok vn =>
            rw [hrk] at h
            simp only at h
            cases hr : replaceFields rest (ddel ch n) with
            | error e => rw [hr] at h; simp at h
            | ok pr =>
              obtain ⟨r, lo'⟩ := pr
              rw [hr] at h
              simp only [Except.ok.injEq, Prod.mk.injEq] at h
              exact key vn r lo' hr h.1.symm (by simp [FieldStep, Fld.init, Fld.val, hrk])
        · rename_i hno
          cases hr : replaceFields rest (ddel ch n) with
          | error e => rw [hr] at h; simp at h
          | ok pr =>
            obtain ⟨r, lo'⟩ := pr
            rw [hr] at h
            simp only [Except.ok.injEq, Prod.mk.injEq] at h
            refine key x r lo' hr h.1.symm ?_
            simp only [FieldStep, Fld.init, Fld.val, true_and]

theorem replaceKw_inv (cls : Str) (fs : List Fld) (ch : Dict) (r : Val)
    (h : replaceKw (.inst cls fs) ch = .ok r) :
    ∃ n fs', unflattenSplit ch = .ok n ∧ replaceFields fs n = .ok (fs', []) ∧ r = .inst cls (rebuild fs') := by
  rw [replaceKw] at h
  cases hu : unflattenSplit ch with
  | error e => rw [hu] at h; simp at h
  | ok n =>
    rw [hu] at h
    simp only at h
    cases hr : replaceFields fs n with
    | error e => rw [hr] at h; simp at h
    | ok pr =>
      obtain ⟨fs', lo⟩ := pr
      rw [hr] at h
      cases lo with
      | nil => simp only [Except.ok.injEq] at h; exact ⟨n, fs', rfl, hr, h.symm⟩
      | cons a b => simp at h

theorem getFld_rebuild_init (fs : List Fld) (k n : Str) (v d : Val)
    (h : getFld fs k = some (.mk n true v d)) : getFld (rebuild fs) k = some (.mk n true v d) := by
  induction fs with
  | nil => simp [getFld] at h
  | cons f rest ih =>
    obtain ⟨n0, i0, v0, d0⟩ := f
    simp only [getFld] at h
    by_cases hk : n0 = k
    · simp only [hk, if_true, Option.some.injEq, Fld.mk.injEq] at h
      obtain ⟨h1, h2, h3, h4⟩ := h
      subst h1 h2 h3 h4
      simp [rebuild, getFld, hk]
    · simp only [hk, if_false] at h
      have := ih h
      simp only [rebuild] at this ⊢
      cases i0 <;> simp [getFld, hk, this]

theorem getPath_cons_inst (cls : Str) (fs : List Fld) (k : Str) (rest : List Str) :
    getPath (.inst cls fs) (k :: rest) = (getFld fs k).bind (fun f => getPath f.val rest) := by
  simp only [getPath, getField_eq]
  cases getFld fs k <;> simp

theorem getPath_nonInst (obj : Val) (k : Str) (rest : List Str) (old : Val)
    (h : getPath obj (k :: rest) = some old) : ∃ cls fs, obj = .inst cls fs := by
  cases obj with
  | inst c fs => exact ⟨c, fs, rfl⟩
  | _ => simp [getPath] at h

/-! ### the meaning of a change set, and the addressed-leaf / frame theorems -/

/-- the value a change set assigns to the path `p`: keys are split on dots and merged at every level
    (that is `unflatten_split`, applied again at each level by the recursion at replace.py:101). -/
def leafAt : Dict → List Str → Option Val
  | _, [] => Option.none
  | ch, [k] => match unflattenSplit ch with
    | .ok n => dget n k
    | .error _ => Option.none
  | ch, k :: k2 :: rest => match unflattenSplit ch with
    | .ok n => match dget n k with
      | some (.dict fc) => leafAt fc (k2 :: rest)
      | _ => Option.none
    | .error _ => Option.none

/-- the dotted key `"a.b.c"` assigns `v` to the path `[a, b, c]` -/
theorem leafAt_dotted (p : List Str) (v : Val) (hne : p ≠ []) (hd : DotFree p) :
    leafAt [(joinDot p, v)] p = some v := by
  have h0 := unflatten_dotted p v hne hd
  generalize [(joinDot p, v)] = ch at h0
  induction p generalizing ch with
  | nil => exact absurd rfl hne
  | cons k rest ih =>
    cases rest with
    | nil => simp [leafAt, h0, nestOf, dget]
    | cons k2 r =>
      have hd' : DotFree (k2 :: r) := fun s hs => hd s (by simp [List.mem_cons] at hs ⊢; right; exact hs)
      simp only [leafAt, h0, nestOf, dget, if_true]
      exact ih (by simp) hd' _ (unflatten_nested (k2 :: r) v (by simp) hd')

/-- a dict placed on a dataclass-valued field is the *nested form* (applied recursively), not a leaf value -/
def storedAsIs (old v : Val) : Bool :=
  match old, v with
  | .inst _ _, .dict _ => false
  | _, _ => true

/-- **Addressed leaves — full statement**: whenever `replace` succeeds, every path the change set
    assigns a (non-dict) value to holds that value in the result. -/
def AddressedFull : Prop :=
  ∀ (obj : Val) (ch : Dict) (r : Val) (p : List Str) (v : Val),
    replaceKw obj ch = .ok r → leafAt ch p = some v → (∀ d, v ≠ .dict d) → getPath r p = some v

/-- **Addressed leaves (partial: D19 excluded).** If `replace` succeeds, every path `p` the change set
    assigns `v` to — in dotted, nested or mixed form, at any depth — holds `v` in the result, provided
    the path exists in the original object (`getPath obj p = some old`: it runs through dataclass
    instances only; this is the named exclusion of D19). -/
theorem c18_addressed_partial (p : List Str) : ∀ (obj : Val) (ch : Dict) (r v old : Val),
    replaceKw obj ch = .ok r → leafAt ch p = some v → getPath obj p = some old → storedAsIs old v = true →
    getPath r p = some v := by
  induction p with
  | nil => intro obj ch r v old _ hl; simp [leafAt] at hl
  | cons k rest ih =>
    intro obj ch r v old h hl hp hs
    obtain ⟨cls, fs, rfl⟩ := getPath_nonInst obj k rest old hp
    obtain ⟨n, fs', hu, hr, rfl⟩ := replaceKw_inv cls fs ch r h
    rw [getPath_cons_inst] at hp ⊢
    cases hf : getFld fs k with
    | none => rw [hf] at hp; simp at hp
    | some f =>
      rw [hf] at hp
      simp only [Option.bind_some] at hp
      obtain ⟨v', hget, hstep⟩ := replaceFields_spec fs n fs' [] hr k f hf
      cases rest with
      | nil =>
        simp only [leafAt, hu] at hl
        simp only [getPath, Option.some.injEq] at hp
        rw [hl] at hstep
        simp only [FieldStep] at hstep
        obtain ⟨hi, hm⟩ := hstep
        rw [hi] at hget
        rw [getFld_rebuild_init fs' k _ _ _ hget]
        simp only [Option.bind_some, Fld.val, getPath, Option.some.injEq]
        rw [hp] at hm
        split at hm
        · simp [storedAsIs] at hs
        · exact hm
      | cons k2 r2 =>
        simp only [leafAt, hu] at hl
        cases hd : dget n k with
        | none => rw [hd] at hl; simp at hl
        | some x =>
          rw [hd] at hl
          cases x with
          | dict fc =>
            simp only at hl
            rw [hd] at hstep
            simp only [FieldStep] at hstep
            obtain ⟨hi, hm⟩ := hstep
            rw [hi] at hget
            rw [getFld_rebuild_init fs' k _ _ _ hget]
            simp only [Option.bind_some, Fld.val]
            obtain ⟨c2, sub, hsub⟩ := getPath_nonInst f.val k2 r2 old hp
            rw [hsub] at hm
            simp only at hm
            rw [← hsub] at hm
            exact ih f.val fc v' v old hm hl hp hs
          | _ => simp at hl

example : storedAsIs (.int 1) (.dict []) = true := rfl

/-- the documented dotted form: `replace(obj, {"a.b.c": v})` sets `obj.a.b.c` to `v` (any depth) -/
theorem c18_addressed_dotted (obj r v old : Val) (p : List Str) (hne : p ≠ []) (hd : DotFree p)
    (h : replaceKw obj [(joinDot p, v)] = .ok r) (hp : getPath obj p = some old)
    (hs : storedAsIs old v = true) : getPath r p = some v :=
  c18_addressed_partial p obj _ r v old h (leafAt_dotted p v hne hd) hp hs

/-- **D19 witness**: `m.ol is None`, change `{"ol.v": 3}`: `replace` returns normally and `ol` holds the raw
    dict `{'v': 3}`; the addressed leaf `ol.v` does not exist in the result. -/
theorem c18_addressed_witness : ¬ AddressedFull := by
  intro h
  have := h (.inst ['M'] [.mk ['o', 'l'] true .none .none, .mk ['z'] true (.int 1) .none])
    [(['o', 'l', '.', 'v'], .int 3)]
    (.inst ['M'] [.mk ['o', 'l'] true (.dict [(['v'], .int 3)]) .none, .mk ['z'] true (.int 1) .none])
    [['o', 'l'], ['v']] (.int 3) rfl rfl (by intro d hd; cases hd)
  simp [getPath, getField] at this

/-- paths no change reaches: at some level the (unflattened) change set has no entry for the next component -/
def untouched : Dict → List Str → Bool
  | _, [] => false
  | ch, k :: rest => match unflattenSplit ch with
    | .ok n => match dget n k with
      | Option.none => true
      | some (.dict fc) => untouched fc rest
      | some _ => false
    | .error _ => false

/-- every field on the path is an `init` field (`dataclasses.replace` re-creates `init=False` fields) -/
def initPath : List Str → Val → Bool
  | [], _ => true
  | k :: rest, .inst _ fs => match getFld fs k with
    | some f => f.init && initPath rest f.val
    | Option.none => false
  | _ :: _, _ => false

/-- **Frame.** Every leaf (indeed every subtree) that no change addresses is, in the result, exactly
    what it was in `obj` — at any depth, for change sets in any mixture of forms. -/
theorem c18_frame (p : List Str) : ∀ (obj : Val) (ch : Dict) (r old : Val),
    replaceKw obj ch = .ok r → untouched ch p = true → getPath obj p = some old → initPath p obj = true →
    getPath r p = some old := by
  induction p with
  | nil => intro obj ch r old _ hu; simp [untouched] at hu
  | cons k rest ih =>
    intro obj ch r old h hun hp hin
    obtain ⟨cls, fs, rfl⟩ := getPath_nonInst obj k rest old hp
    obtain ⟨n, fs', hu, hr, rfl⟩ := replaceKw_inv cls fs ch r h
    rw [getPath_cons_inst] at hp ⊢
    cases hf : getFld fs k with
    | none => rw [hf] at hp; simp at hp
    | some f =>
      rw [hf] at hp
      simp only [Option.bind_some] at hp
      simp only [initPath, hf, Bool.and_eq_true] at hin
      obtain ⟨v', hget, hstep⟩ := replaceFields_spec fs n fs' [] hr k f hf
      rw [hin.1] at hget
      rw [getFld_rebuild_init fs' k _ _ _ hget]
      simp only [Option.bind_some, Fld.val]
      simp only [untouched, hu] at hun
      cases hd : dget n k with
      | none =>
        rw [hd] at hstep
        simp only [FieldStep] at hstep
        rw [hstep]; exact hp
      | some x =>
        rw [hd] at hun hstep
        cases x with
        | dict fc =>
          simp only at hun
          cases rest with
          | nil => simp [untouched] at hun
          | cons k2 r2 =>
            obtain ⟨c2, sub, hsub⟩ := getPath_nonInst f.val k2 r2 old hp
            simp only [FieldStep] at hstep
            obtain ⟨_, hm⟩ := hstep
            rw [hsub] at hm
            simp only at hm
            rw [← hsub] at hm
            exact ih f.val fc v' old hm hun hp hin.2
        | _ => simp at hun

example : untouched [(['a', '.', 'b'], .int 1)] [['a'], ['c']] = true := rfl
example : untouched [(['a', '.', 'b'], .int 1)] [['z']] = true := rfl
example : initPath [['a']] (.inst ['C'] [.mk ['a'] true (.int 0) .none]) = true := rfl

/-! ### empty change set, result class, errors -/

theorem replaceFields_nil (fs : List Fld) : replaceFields fs [] = .ok (fs, []) := by
  induction fs with
  | nil => rfl
  | cons f rest ih => obtain ⟨n, i, v, d⟩ := f; rw [replaceFields]; simp [dget, ih]

/-- `init=False` fields hold their class default (true of every instance built by its constructor) -/
def AtDefault (fs : List Fld) : Prop := ∀ f ∈ fs, f.init = false → f.val = f.dflt

theorem rebuild_atDefault (fs : List Fld) (h : AtDefault fs) : rebuild fs = fs := by
  induction fs with
  | nil => rfl
  | cons f rest ih =>
    obtain ⟨n, i, v, d⟩ := f
    have hr := ih (fun g hg => h g (by simp [hg]))
    simp only [rebuild, List.map_cons] at hr ⊢
    rw [hr]
    cases i with
    | true => simp
    | false =>
      have := h (.mk n false v d) (by simp) rfl
      simp only [Fld.val, Fld.dflt] at this
      simp [this]

/-- **Empty change set = identity** (positional `{}`, `None`, or no keywords). -/
theorem c18_empty (cls : Str) (fs : List Fld) (cd : Option Dict) (hcd : cd = Option.none ∨ cd = some [])
    (h : AtDefault fs) : replaceTop (.inst cls fs) cd [] = .ok (.inst cls fs) := by
  have : replaceKw (.inst cls fs) [] = .ok (.inst cls fs) := by
    rw [replaceKw]
    simp [unflattenSplit, unflattenFrom, replaceFields_nil, rebuild_atDefault fs h]
  rcases hcd with rfl | rfl <;> simp [replaceTop, hasReserved, this]

example : AtDefault [.mk ['a'] true (.int 0) .none, .mk ['n'] false (.int 7) (.int 7)] := by
  intro f hf hi
  simp at hf
  rcases hf with rfl | rfl
  · simp [Fld.init] at hi
  · rfl

theorem replaceFields_cons_inv (n : Str) (i : Bool) (v d : Val) (rest : List Fld) (ch : Dict)
    (fs' : List Fld) (lo : Dict) (h : replaceFields (.mk n i v d :: rest) ch = .ok (fs', lo)) :
    ∃ vn r ch', replaceFields rest ch' = .ok (r, lo) ∧ fs' = .mk n i vn d :: r ∧
      ((ch' = ch ∧ dget ch n = Option.none ∧ vn = v) ∨ (ch' = ddel ch n ∧ i = true ∧ ∃ x, dget ch n = some x)) := by
  rw [replaceFields] at h
  cases hg : dget ch n with
  | none =>
    rw [hg] at h
    simp only at h
    cases hr : replaceFields rest ch with
    | error e => rw [hr] at h; simp at h
    | ok pr =>
      obtain ⟨r, lo'⟩ := pr
      rw [hr] at h
      simp only [Except.ok.injEq, Prod.mk.injEq] at h
      obtain ⟨h1, h2⟩ := h
      subst h1 h2
      exact ⟨v, r, ch, hr, rfl, Or.inl ⟨rfl, rfl, rfl⟩⟩
  | some x =>
    rw [hg] at h
    simp only at h
    cases i with
    | false => simp at h
    | true =>
      simp only [Bool.not_true, Bool.false_eq_true, if_false] at h
      split at h
      · rename_i c sub fc
        cases hrk : replaceKw (.inst c sub) fc with
        | error e => rw [hrk] at h; simp at h
        | ok vn =>
          rw [hrk] at h
          simp only at h
          cases hr : replaceFields rest (ddel ch n) with
          | error e => rw [hr] at h; simp at h
          | ok pr =>
            obtain ⟨r, lo'⟩ := pr
            rw [hr] at h
            simp only [Except.ok.injEq, Prod.mk.injEq] at h
            obtain ⟨h1, h2⟩ := h
            subst h1 h2
            exact ⟨vn, r, _, hr, rfl, Or.inr ⟨rfl, rfl, _, rfl⟩⟩
      · cases hr : replaceFields rest (ddel ch n) with
        | error e => rw [hr] at h; simp at h
        | ok pr =>
          obtain ⟨r, lo'⟩ := pr
          rw [hr] at h
          simp only [Except.ok.injEq, Prod.mk.injEq] at h
          obtain ⟨h1, h2⟩ := h
          subst h1 h2
          exact ⟨x, r, _, hr, rfl, Or.inr ⟨rfl, rfl, _, rfl⟩⟩

/-- field names, `init` flags and defaults, in declaration order -/
def skel (fs : List Fld) : List (Str × Bool) := fs.map (fun f => (f.name, f.init))

theorem replaceFields_skel (fs : List Fld) : ∀ (ch : Dict) (fs' : List Fld) (lo : Dict),
    replaceFields fs ch = .ok (fs', lo) → skel fs' = skel fs := by
  induction fs with
  | nil => intro ch fs' lo h; simp [replaceFields] at h; simp [h.1]
  | cons f rest ih =>
    obtain ⟨n, i, v, d⟩ := f
    intro ch fs' lo h
    obtain ⟨vn, r, ch', hr, rfl, _⟩ := replaceFields_cons_inv n i v d rest ch fs' lo h
    have := ih ch' r lo hr
    simp only [skel, List.map_cons, Fld.name, Fld.init] at this ⊢
    rw [this]

theorem rebuild_skel (fs : List Fld) : skel (rebuild fs) = skel fs := by
  induction fs with
  | nil => rfl
  | cons f rest ih =>
    obtain ⟨n, i, v, d⟩ := f
    simp only [skel, rebuild, List.map_cons] at ih ⊢
    rw [ih]
    cases i <;> simp [Fld.name, Fld.init]

/-- **Same type**: the result is an instance of the same class with the same fields in the same order. -/
theorem c18_same_class (cls : Str) (fs : List Fld) (ch : Dict) (r : Val)
    (h : replaceKw (.inst cls fs) ch = .ok r) : ∃ fs'', r = .inst cls fs'' ∧ skel fs'' = skel fs := by
  obtain ⟨n, fs', _, hr, rfl⟩ := replaceKw_inv cls fs ch r h
  exact ⟨rebuild fs', rfl, by rw [rebuild_skel, replaceFields_skel fs n fs' [] hr]⟩

/-- keys that name no field stay in the leftover dict (replace.py:108) -/
theorem replaceFields_leftover (fs : List Fld) : ∀ (ch : Dict) (fs' : List Fld) (lo : Dict) (k : Str),
    replaceFields fs ch = .ok (fs', lo) → getFld fs k = Option.none → dget lo k = dget ch k := by
  induction fs with
  | nil => intro ch fs' lo k h _; simp [replaceFields] at h; simp [h.2]
  | cons f rest ih =>
    obtain ⟨n, i, v, d⟩ := f
    intro ch fs' lo k h hk
    simp only [getFld] at hk
    by_cases hnk : n = k
    · simp [hnk] at hk
    · simp only [hnk, if_false] at hk
      obtain ⟨vn, r, ch', hr, _, hc⟩ := replaceFields_cons_inv n i v d rest ch fs' lo h
      rw [ih ch' r lo k hr hk]
      rcases hc with ⟨rfl, _⟩ | ⟨rfl, _⟩
      · rfl
      · exact dget_ddel_ne ch k n hnk

/-- **A change to an `init=False` field raises** (it is never ignored), whatever else the change set contains. -/
theorem c18_noninit_raises (cls : Str) (fs : List Fld) (ch n : Dict) (k : Str) (f : Fld) (x : Val)
    (hu : unflattenSplit ch = .ok n) (hf : getFld fs k = some f) (hi : f.init = false)
    (hk : dget n k = some x) : ∀ r, replaceKw (.inst cls fs) ch ≠ .ok r := by
  intro r h
  obtain ⟨n', fs', hu', hr, _⟩ := replaceKw_inv cls fs ch r h
  rw [hu] at hu'
  cases hu'
  obtain ⟨v', _, hstep⟩ := replaceFields_spec fs n fs' [] hr k f hf
  rw [hk] at hstep
  simp only [FieldStep] at hstep
  rw [hi] at hstep
  simp at hstep

/-- **A change to an unknown field raises** (it is never ignored). -/
theorem c18_unknown_raises (cls : Str) (fs : List Fld) (ch n : Dict) (k : Str) (x : Val)
    (hu : unflattenSplit ch = .ok n) (hf : getFld fs k = Option.none)
    (hk : dget n k = some x) : ∀ r, replaceKw (.inst cls fs) ch ≠ .ok r := by
  intro r h
  obtain ⟨n', fs', hu', hr, _⟩ := replaceKw_inv cls fs ch r h
  rw [hu] at hu'
  cases hu'
  have := replaceFields_leftover fs n fs' [] k hr hf
  rw [hk] at this
  simp [dget] at this

example : unflattenSplit [(['q', '.', 'a'], Val.int 1)] = .ok [(['q'], .dict [(['a'], .int 1)])] := rfl

/-- an error below propagates: if the nested change set of a dataclass-valued field is rejected, so is the whole -/
theorem c18_nested_error_propagates (cls : Str) (fs : List Fld) (ch n fc : Dict) (k : Str) (f : Fld)
    (c : Str) (sub : List Fld)
    (hu : unflattenSplit ch = .ok n) (hf : getFld fs k = some f) (hv : f.val = .inst c sub)
    (hk : dget n k = some (.dict fc)) (hbad : ∀ r', replaceKw (.inst c sub) fc ≠ .ok r') :
    ∀ r, replaceKw (.inst cls fs) ch ≠ .ok r := by
  intro r h
  obtain ⟨n', fs', hu', hr, _⟩ := replaceKw_inv cls fs ch r h
  rw [hu] at hu'
  cases hu'
  obtain ⟨v', _, hstep⟩ := replaceFields_spec fs n fs' [] hr k f hf
  rw [hk] at hstep
  simp only [FieldStep, hv] at hstep
  exact hbad v' hstep.2

/-! ### reference: `dataclasses.replace` level by level -/

theorem replaceFields_single (fs : List Fld) : ∀ (k : Str) (x : Val) (fs' : List Fld) (lo : Dict) (f : Fld),
    replaceFields fs [(k, x)] = .ok (fs', lo) → getFld fs k = some f →
    ∃ v', getFld fs' k = some (.mk f.name f.init v' f.dflt) ∧ setField fs k v' = some fs' ∧ lo = [] := by
  induction fs with
  | nil => intro k x fs' lo f _ hf; simp [getFld] at hf
  | cons f0 rest ih =>
    obtain ⟨n0, i, v0, d⟩ := f0
    intro k x fs' lo f h hf
    obtain ⟨vn, r, ch', hr, rfl, hc⟩ := replaceFields_cons_inv n0 i v0 d rest _ fs' lo h
    simp only [getFld] at hf
    by_cases hnk : n0 = k
    · subst hnk
      simp only [if_true, Option.some.injEq] at hf
      subst hf
      rcases hc with ⟨_, hg, _⟩ | ⟨rfl, rfl, _⟩
      · simp [dget] at hg
      · simp only [ddel, if_true, replaceFields_nil, Except.ok.injEq, Prod.mk.injEq] at hr
        obtain ⟨rfl, rfl⟩ := hr
        exact ⟨vn, by simp [getFld, Fld.name, Fld.init, Fld.dflt], by simp [setField], rfl⟩
    · simp only [hnk, if_false] at hf
      rcases hc with ⟨rfl, _, rfl⟩ | ⟨_, _, x', hx⟩
      · obtain ⟨v', h1, h2, h3⟩ := ih k x r lo f hr hf
        exact ⟨v', by simp [getFld, hnk, h1], by simp [setField, hnk, h2], h3⟩
      · have : k ≠ n0 := fun e => hnk e.symm
        simp [dget, this] at hx

/-- **Reference.** One edit, in nested form and at any depth, gives exactly
    `dataclasses.replace(obj, a=dataclasses.replace(obj.a, b=…))` applied level by level (D19 excluded:
    the path must exist in `obj`). With `c18_forms_dotted_nested` the same holds for the dotted form. -/
theorem c18_reference_single (p : List Str) : ∀ (obj r old v : Val), p ≠ [] → DotFree p →
    replaceKw obj (nestOf p v) = .ok r → getPath obj p = some old → storedAsIs old v = true →
    refEdit obj p v = some r := by
  induction p with
  | nil => intro obj r old v hne; exact absurd rfl hne
  | cons k rest ih =>
    intro obj r old v _ hd h hp hs
    obtain ⟨cls, fs, rfl⟩ := getPath_nonInst obj k rest old hp
    obtain ⟨n, fs', hu, hr, rfl⟩ := replaceKw_inv cls fs _ r h
    rw [unflatten_nested (k :: rest) v (by simp) hd] at hu
    cases hu
    rw [getPath_cons_inst] at hp
    cases hf : getFld fs k with
    | none => rw [hf] at hp; simp at hp
    | some f =>
      rw [hf] at hp
      simp only [Option.bind_some] at hp
      cases rest with
      | nil =>
        simp only [nestOf] at hr
        obtain ⟨v', hget, hset, _⟩ := replaceFields_single fs k v fs' [] f hr hf
        obtain ⟨v'', hget', hstep⟩ := replaceFields_spec fs _ fs' [] hr k f hf
        rw [hget] at hget'
        simp only [Option.some.injEq, Fld.mk.injEq, true_and, and_true] at hget'
        subst hget'
        simp only [dget, if_true, FieldStep] at hstep
        simp only [getPath, Option.some.injEq] at hp
        rw [hp] at hstep
        have hv : v' = v := by
          obtain ⟨_, hm⟩ := hstep
          split at hm
          · simp [storedAsIs] at hs
          · exact hm
        subst hv
        simp [refEdit, hset]
      | cons k2 r2 =>
        simp only [nestOf] at hr
        obtain ⟨v', hget, hset, _⟩ := replaceFields_single fs k _ fs' [] f hr hf
        obtain ⟨v'', hget', hstep⟩ := replaceFields_spec fs _ fs' [] hr k f hf
        rw [hget] at hget'
        simp only [Option.some.injEq, Fld.mk.injEq, true_and, and_true] at hget'
        subst hget'
        simp only [dget, if_true, FieldStep] at hstep
        obtain ⟨c2, sub, hsub⟩ := getPath_nonInst f.val k2 r2 old hp
        obtain ⟨_, hm⟩ := hstep
        rw [hsub] at hm
        simp only at hm
        rw [← hsub] at hm
        have hd' : DotFree (k2 :: r2) := fun s hs' => hd s (by simp only [List.mem_cons] at hs' ⊢; right; exact hs')
        have := ih f.val v' old v (by simp) hd' hm hp hs
        simp [refEdit, getField_eq, hf, this, hset]

example : refEdit (.inst ['T'] [.mk ['m'] true (.inst ['M'] [.mk ['v'] true (.int 0) .none]) .none]) [['m'], ['v']] (.int 3)
    = some (.inst ['T'] [.mk ['m'] true (.inst ['M'] [.mk ['v'] true (.int 3) .none]) .none]) := rfl

/-! ### replace_subgroups -/

theorem unflattenSel_single (k : Str) (x : Val) (hk : '.' ∉ k) : unflattenSel [(k, x)] = [(k, x)] := by
  have hs : splitDot k = [k] := splitOnChar_noSep '.' k hk
  simp [unflattenSel, selTops, selStep, hs, dset]

theorem sgFields_nil_sel (tbl : SgTable) (recur : Val → Dict → Out Val) (cls : Str) (fs : List Fld)
    (hi : ∀ f ∈ fs, f.init = true) : sgFields tbl recur cls fs [] = .ok fs := by
  induction fs with
  | nil => rfl
  | cons f rest ih =>
    obtain ⟨n, i, v, d⟩ := f
    have h0 : i = true := hi (.mk n i v d) (by simp)
    subst h0
    simp [sgFields, dget, ih (fun g hg => hi g (by simp [hg]))]

theorem rebuild_allInit (fs : List Fld) (hi : ∀ f ∈ fs, f.init = true) : rebuild fs = fs :=
  rebuild_atDefault fs (fun f hf h => by rw [hi f hf] at h; cases h)

theorem setField_allInit (fs : List Fld) (k : Str) (x : Val) (fs' : List Fld) (hi : ∀ f ∈ fs, f.init = true)
    (h : setField fs k x = some fs') : ∀ f ∈ fs', f.init = true := by
  induction fs generalizing fs' with
  | nil => simp [setField] at h
  | cons f0 rest ih =>
    obtain ⟨n0, i, v0, d0⟩ := f0
    have h0 : i = true := hi (.mk n0 i v0 d0) (by simp)
    subst h0
    simp only [setField] at h
    by_cases hnk : n0 = k
    · simp only [hnk, if_true, Option.some.injEq] at h
      subst h
      intro f hf
      simp only [List.mem_cons] at hf
      rcases hf with rfl | hf
      · rfl
      · exact hi f (by simp [hf])
    · simp only [hnk, if_false, Option.map_eq_some_iff] at h
      obtain ⟨r, hr, rfl⟩ := h
      intro f hf
      simp only [List.mem_cons] at hf
      rcases hf with rfl | hf
      · rfl
      · exact ih r (fun g hg => hi g (by simp [hg])) hr f hf

/-! `selLeft`: the selection keys that name no field (replace.py:193, repair bba27c4) -/

theorem selLeft_nil (fs : List Fld) : selLeft fs [] = [] := by
  induction fs with
  | nil => rfl
  | cons f rest ih => obtain ⟨n, i, v, d⟩ := f; simp [selLeft, ddel, ih]

theorem selLeft_single (fs : List Fld) (k : Str) (s : Val) (f : Fld) (hf : getFld fs k = some f) :
    selLeft fs [(k, s)] = [] := by
  induction fs with
  | nil => simp [getFld] at hf
  | cons f0 rest ih =>
    obtain ⟨n0, i, v0, d0⟩ := f0
    simp only [getFld] at hf
    by_cases hnk : n0 = k
    · subst hnk; simp [selLeft, ddel, selLeft_nil]
    · simp only [hnk, if_false] at hf
      have hkn : k ≠ n0 := fun e => hnk e.symm
      simp [selLeft, ddel, hkn, ih hf]

theorem selLeft_keeps_unknown (fs : List Fld) : ∀ (sel : Dict) (k : Str), getFld fs k = Option.none →
    dget (selLeft fs sel) k = dget sel k := by
  induction fs with
  | nil => intro sel k _; rfl
  | cons f0 rest ih =>
    obtain ⟨n0, i, v0, d0⟩ := f0
    intro sel k hk
    simp only [getFld] at hk
    by_cases hnk : n0 = k
    · simp [hnk] at hk
    · simp only [hnk, if_false] at hk
      simp only [selLeft]
      rw [ih _ k hk, dget_ddel_ne sel k n0 hnk]

theorem selLeft_single_isEmpty (fs : List Fld) (a : Str) (s1 s2 : Val) :
    (selLeft fs [(a, s1)]).isEmpty = (selLeft fs [(a, s2)]).isEmpty := by
  induction fs with
  | nil => rfl
  | cons f0 rest ih =>
    obtain ⟨n0, i, v0, d0⟩ := f0
    by_cases han : a = n0
    · subst han; simp [selLeft, ddel, selLeft_nil]
    · simp [selLeft, ddel, han, ih]

theorem pickMember_noChild (m : SgMeta) (cur vos : Val) : pickMember m cur vos false = pickOther m cur vos := by
  simp [pickMember, descends]

/-- repair 452ee05: with child selections and no own value, the current instance is kept — for EVERY kind of field -/
theorem pickMember_descend (m : SgMeta) (c : Str) (fs : List Fld) :
    pickMember m (.inst c fs) .none true = .ok (.inst c fs) := by
  simp [pickMember, descends]

/-- an empty selection returns `obj` itself -/
theorem c18_subgroups_empty (tbl : SgTable) (fuel : Nat) (obj : Val) : replaceSg tbl fuel obj [] = .ok obj := by
  cases fuel <;> rfl

/-! #### nested selections: frame and sibling theorems (after repair bb5a5f4) -/

theorem dget_none_ddel (d : Dict) (k n : Str) (h : dget d k = Option.none) : dget (ddel d n) k = Option.none := by
  induction d with
  | nil => rfl
  | cons kv r ih =>
    obtain ⟨a, b⟩ := kv
    simp only [dget] at h
    by_cases hak : a = k
    · simp [hak] at h
    · simp only [hak, if_false] at h
      simp only [ddel]
      by_cases han : a = n
      · simp [han, h]
      · simp [han, dget, hak, ih h]

/-- one iteration of the field loop of `replace_subgroups` -/
theorem sgFields_cons_inv (tbl : SgTable) (recur : Val → Dict → Out Val) (cls n : Str) (i : Bool) (v d : Val)
    (rest : List Fld) (sel : Dict) (fs' : List Fld)
    (h : sgFields tbl recur cls (.mk n i v d :: rest) sel = .ok fs') :
    i = true ∧ ∃ nv r sel', sgFields tbl recur cls rest sel' = .ok r ∧ fs' = .mk n true nv d :: r ∧
      ((sel' = sel ∧ dget sel n = Option.none ∧ nv = v) ∨
       (sel' = ddel sel n ∧ ∃ s, dget sel n = some s ∧ (sgMeta tbl cls n).hasDc = true ∧
          ∃ fv, pickMember (sgMeta tbl cls n) v (selSplit s).1 (!(selSplit s).2.isEmpty) = .ok fv ∧
            ((selSplit s).2.isEmpty = true ∧ nv = fv ∨ (selSplit s).2.isEmpty = false ∧ recur fv (selSplit s).2 = .ok nv))) := by
  rw [sgFields] at h
  cases i with
  | false => simp at h
  | true =>
    refine ⟨rfl, ?_⟩
    simp only [Bool.not_true, Bool.false_eq_true, if_false] at h
    cases hg : dget sel n with
    | none =>
      rw [hg] at h
      simp only at h
      cases hr : sgFields tbl recur cls rest sel with
      | error e => rw [hr] at h; simp at h
      | ok r =>
        rw [hr] at h
        simp only [Except.ok.injEq] at h
        exact ⟨v, r, sel, hr, h.symm, Or.inl ⟨rfl, rfl, rfl⟩⟩
    | some s =>
      rw [hg] at h
      simp only at h
      cases hdc : (sgMeta tbl cls n).hasDc with
      | false => rw [hdc] at h; simp at h
      | true =>
        rw [hdc] at h
        simp only [Bool.not_true, Bool.false_eq_true, if_false] at h
        cases hp : pickMember (sgMeta tbl cls n) v (selSplit s).1 (!(selSplit s).2.isEmpty) with
        | error e => rw [hp] at h; simp at h
        | ok fv =>
          rw [hp] at h
          simp only at h
          cases hemp : (selSplit s).2.isEmpty with
          | true =>
            rw [hemp] at h
            simp only [if_true] at h
            cases hr : sgFields tbl recur cls rest (ddel sel n) with
            | error e => rw [hr] at h; simp at h
            | ok r =>
              rw [hr] at h
              simp only [Except.ok.injEq] at h
              exact ⟨fv, r, _, hr, h.symm, Or.inr ⟨rfl, s, rfl, rfl, fv, hp, Or.inl ⟨hemp, rfl⟩⟩⟩
          | false =>
            rw [hemp] at h
            simp only [Bool.false_eq_true, if_false] at h
            cases hrec : recur fv (selSplit s).2 with
            | error e => rw [hrec] at h; simp at h
            | ok nv =>
              rw [hrec] at h
              simp only at h
              cases hr : sgFields tbl recur cls rest (ddel sel n) with
              | error e => rw [hr] at h; simp at h
              | ok r =>
                rw [hr] at h
                simp only [Except.ok.injEq] at h
                exact ⟨nv, r, _, hr, h.symm, Or.inr ⟨rfl, s, rfl, rfl, fv, hp, Or.inr ⟨hemp, hrec⟩⟩⟩

/-- a field whose name is not selected is left exactly as it was -/
theorem sgFields_frame (tbl : SgTable) (recur : Val → Dict → Out Val) (cls : Str) (fs : List Fld) :
    ∀ (sel : Dict) (fs' : List Fld) (k : Str), sgFields tbl recur cls fs sel = .ok fs' →
      dget sel k = Option.none → getFld fs' k = getFld fs k := by
  induction fs with
  | nil => intro sel fs' k h _; simp [sgFields] at h; simp [h]
  | cons f rest ih =>
    obtain ⟨n, i, v, d⟩ := f
    intro sel fs' k h hk
    obtain ⟨rfl, nv, r, sel', hr, rfl, hc⟩ := sgFields_cons_inv tbl recur cls n i v d rest sel fs' h
    rcases hc with ⟨rfl, _, rfl⟩ | ⟨rfl, s, hs, _⟩
    · simp only [getFld]; rw [ih _ r k hr hk]
    · have hnk : n ≠ k := by intro e; subst e; rw [hk] at hs; cases hs
      simp only [getFld, hnk, if_false]
      exact ih _ r k hr (dget_none_ddel sel k n hk)

/-- `replace_subgroups` only ever succeeds on classes without `init=False` fields (replace.py:129) -/
theorem sgFields_allInit (tbl : SgTable) (recur : Val → Dict → Out Val) (cls : Str) (fs : List Fld) :
    ∀ (sel : Dict) (fs' : List Fld), sgFields tbl recur cls fs sel = .ok fs' → ∀ f ∈ fs', f.init = true := by
  induction fs with
  | nil => intro sel fs' h; simp [sgFields] at h; subst h; intro f hf; cases hf
  | cons f rest ih =>
    obtain ⟨n, i, v, d⟩ := f
    intro sel fs' h
    obtain ⟨rfl, nv, r, sel', hr, rfl, _⟩ := sgFields_cons_inv tbl recur cls n i v d rest sel fs' h
    intro g hg
    simp only [List.mem_cons] at hg
    rcases hg with rfl | hg
    · rfl
    · exact ih sel' r hr g hg

/-- what happens to the (first) field named `k` when it is selected -/
theorem sgFields_spec (tbl : SgTable) (recur : Val → Dict → Out Val) (cls : Str) (fs : List Fld) :
    ∀ (sel : Dict) (fs' : List Fld) (k : Str) (f : Fld) (s : Val), sgFields tbl recur cls fs sel = .ok fs' →
      getFld fs k = some f → dget sel k = some s →
      ∃ nv fv, getFld fs' k = some (.mk f.name true nv f.dflt) ∧
        pickMember (sgMeta tbl cls k) f.val (selSplit s).1 (!(selSplit s).2.isEmpty) = .ok fv ∧
        ((selSplit s).2.isEmpty = true ∧ nv = fv ∨ (selSplit s).2.isEmpty = false ∧ recur fv (selSplit s).2 = .ok nv) := by
  induction fs with
  | nil => intro sel fs' k f s _ hf; simp [getFld] at hf
  | cons f0 rest ih =>
    obtain ⟨n, i, v, d⟩ := f0
    intro sel fs' k f s h hf hs
    obtain ⟨rfl, nv, r, sel', hr, rfl, hc⟩ := sgFields_cons_inv tbl recur cls n i v d rest sel fs' h
    simp only [getFld] at hf
    by_cases hnk : n = k
    · subst hnk
      simp only [if_true, Option.some.injEq] at hf
      subst hf
      rcases hc with ⟨_, hn, _⟩ | ⟨_, s', hs', _, fv, hp, hrec⟩
      · rw [hn] at hs; cases hs
      · rw [hs] at hs'
        cases hs'
        exact ⟨nv, fv, by simp [getFld, Fld.name, Fld.dflt], hp, hrec⟩
    · simp only [hnk, if_false] at hf
      have hsel' : dget sel' k = some s := by
        rcases hc with ⟨rfl, _, _⟩ | ⟨rfl, _⟩
        · exact hs
        · rw [dget_ddel_ne sel k n hnk]; exact hs
      obtain ⟨nv', fv, h1, h2, h3⟩ := ih sel' r k f s hr hf hsel'
      exact ⟨nv', fv, by simp [getFld, hnk, h1], h2, h3⟩

theorem replaceSg_inv (tbl : SgTable) (fuel : Nat) (obj : Val) (s : Str × Val) (sel : Dict) (r : Val)
    (h : replaceSg tbl fuel obj (s :: sel) = .ok r) :
    ∃ fuel' cls fs fs', fuel = fuel' + 1 ∧ obj = .inst cls fs ∧
      sgFields tbl (replaceSg tbl fuel') cls fs (unflattenSel (s :: sel)) = .ok fs' ∧ r = .inst cls fs' ∧
      (selLeft fs (unflattenSel (s :: sel))).isEmpty = true := by
  cases fuel with
  | zero => simp [replaceSg] at h
  | succ fuel' =>
    cases obj with
    | inst cls fs =>
      simp only [replaceSg] at h
      cases hf : sgFields tbl (replaceSg tbl fuel') cls fs (unflattenSel (s :: sel)) with
      | error e => rw [hf] at h; simp at h
      | ok fs' =>
        rw [hf] at h
        simp only at h
        cases hl : (selLeft fs (unflattenSel (s :: sel))).isEmpty with
        | false => rw [hl] at h; simp at h
        | true =>
          rw [hl] at h
          simp only [if_true, Except.ok.injEq] at h
          rw [rebuild_allInit fs' (sgFields_allInit tbl _ cls fs _ fs' hf)] at h
          exact ⟨fuel', cls, fs, fs', rfl, rfl, hf, h.symm, hl⟩
    | _ => simp [replaceSg] at h

/-- **Frame for replace_subgroups.** Every member that no selection names (after the dotted keys have been
    grouped by their first component) is, in the result, exactly what it was — for selections in any form. -/
theorem c18_subgroups_frame (tbl : SgTable) (fuel : Nat) (obj r : Val) (sel : Dict) (k : Str)
    (h : replaceSg tbl fuel obj sel = .ok r) (hk : dget (unflattenSel sel) k = Option.none) :
    getPath r [k] = getPath obj [k] := by
  cases sel with
  | nil => rw [c18_subgroups_empty] at h; cases h; rfl
  | cons s sel' =>
    obtain ⟨fuel', cls, fs, fs', rfl, rfl, hf, rfl, _⟩ := replaceSg_inv tbl fuel obj s sel' r h
    simp only [getPath_cons_inst]
    rw [sgFields_frame tbl _ cls fs _ fs' k hf hk]

theorem unflattenSel_dotted2 (a b : Str) (x : Val) (ha : '.' ∉ a) (hb : '.' ∉ b) :
    unflattenSel [(joinDot [a, b], x)] = [(a, .dict [(b, x)])] := by
  have hs : splitDot (joinDot [a, b]) = [a, b] :=
    splitOnChar_join '.' [a, b] (by simp) (by intro s hs; simp at hs; rcases hs with rfl | rfl <;> assumption)
  simp [unflattenSel, selTops, selStep, hs, dset, dget, joinWith]

/-- **Nested selections keep every sibling** (full statement; it was refuted before repair bb5a5f4).
    Selecting only the member `a.b` below the dataclass-valued field `a` — in dotted form — leaves every
    other member `a.sib` of the current `obj.a` exactly as it was. -/
theorem c18_subgroups_siblings_kept (tbl : SgTable) (fuel : Nat) (obj r x : Val) (a b sib : Str)
    (c2 : Str) (fs2 : List Fld)
    (ha : '.' ∉ a) (hb : '.' ∉ b) (hbk : b ≠ keyword) (hsib : sib ≠ b)
    (hcur : getPath obj [a] = some (.inst c2 fs2))
    (h : replaceSg tbl fuel obj [(joinDot [a, b], x)] = .ok r) :
    getPath r [a, sib] = getPath obj [a, sib] := by
  obtain ⟨fuel', cls, fs, fs', rfl, rfl, hf, rfl, _⟩ := replaceSg_inv tbl fuel obj _ [] r h
  rw [unflattenSel_dotted2 a b x ha hb] at hf
  simp only [getPath_cons_inst] at hcur ⊢
  cases hfa : getFld fs a with
  | none => rw [hfa] at hcur; simp at hcur
  | some f =>
    rw [hfa] at hcur
    simp only [Option.bind_some, getPath, Option.some.injEq] at hcur
    obtain ⟨nv, fv, hget, hpick, hrec⟩ := sgFields_spec tbl _ cls fs _ fs' a f (.dict [(b, x)]) hf hfa (by simp [dget])
    rw [hget]
    simp only [Option.bind_some, Fld.val]
    have hkb : keyword ≠ b := fun e => hbk e.symm
    have hval : (selSplit (.dict [(b, x)])).1 = .none := by simp [selSplit, dget, hbk]
    have hchild : (selSplit (.dict [(b, x)])).2 = [(b, x)] := by simp [selSplit, ddel, hbk]
    rw [hval] at hpick
    rw [hchild] at hrec
    simp only [List.isEmpty_cons, Bool.false_eq_true, false_and, true_and, false_or] at hrec
    -- the member picked for `a` is the current instance (replace.py:157), whatever the kind of the field
    rw [hcur, hchild] at hpick
    have hfv : fv = .inst c2 fs2 := by
      simp only [List.isEmpty_cons, Bool.not_false, pickMember_descend, Except.ok.injEq] at hpick
      exact hpick.symm
    subst hfv
    cases fuel' with
    | zero => simp [replaceSg] at hrec
    | succ f2 =>
      obtain ⟨f3, c3, fs3, fs3', _, hobj, hf3, rfl, _⟩ := replaceSg_inv tbl (f2 + 1) _ _ [] nv hrec
      cases hobj
      rw [unflattenSel_single b x hb] at hf3
      have hfr := sgFields_frame tbl _ _ _ _ fs3' sib hf3 (by simp [dget, hsib.symm])
      show getPath _ [sib] = getPath f.val [sib]
      rw [hcur]
      simp only [getPath_cons_inst, hfr]

/-! #### order of the entries of a flat selection

`_unflatten_selection_dict` (and `unflattenSel`, which mirrors it with insertion-ordered association
lists) is order-*sensitive* only in the insertion order of the dict it builds: a parent entry that comes
after its dotted children ends up *behind* them in the sub-dict (`{'b': x, '__key__': y}` instead of
`{'__key__': y, 'b': x}`).  `replace_subgroups` looks entries up by name, so the outcome does not depend on
that order. -/

theorem unflattenSel_child_parent (a b : Str) (x y : Val) (ha : '.' ∉ a) (hb : '.' ∉ b) (hbk : b ≠ keyword) :
    unflattenSel [(joinDot [a, b], x), (a, y)] = [(a, .dict [(b, x), (keyword, y)])] := by
  have hs : splitDot (joinDot [a, b]) = [a, b] :=
    splitOnChar_join '.' [a, b] (by simp) (by intro s hs; simp at hs; rcases hs with rfl | rfl <;> assumption)
  have hsa : splitDot a = [a] := splitOnChar_noSep '.' a ha
  simp [unflattenSel, selTops, selStep, hs, hsa, dset, dget, joinWith, hbk]

theorem unflattenSel_parent_child (a b : Str) (x y : Val) (ha : '.' ∉ a) (hb : '.' ∉ b) (hbk : b ≠ keyword) :
    unflattenSel [(a, y), (joinDot [a, b], x)] = [(a, .dict [(keyword, y), (b, x)])] := by
  have hs : splitDot (joinDot [a, b]) = [a, b] :=
    splitOnChar_join '.' [a, b] (by simp) (by intro s hs; simp at hs; rcases hs with rfl | rfl <;> assumption)
  have hsa : splitDot a = [a] := splitOnChar_noSep '.' a ha
  have hkb : keyword ≠ b := fun e => hbk e.symm
  simp [unflattenSel, selTops, selStep, hs, hsa, dset, dget, joinWith, hkb]

/-- the field loop sees a selection entry only through `(value_of_selection, child_selections)` -/
theorem sgFields_congr_selSplit (tbl : SgTable) (recur : Val → Dict → Out Val) (cls a : Str) (s1 s2 : Val)
    (h : selSplit s1 = selSplit s2) (fs : List Fld) :
    sgFields tbl recur cls fs [(a, s1)] = sgFields tbl recur cls fs [(a, s2)] := by
  induction fs with
  | nil => rfl
  | cons f rest ih =>
    obtain ⟨n, i, v, d⟩ := f
    by_cases han : a = n
    · subst han
      simp only [sgFields, dget, if_true, ddel, h]
    · simp only [sgFields, dget, han, if_false, ih]

/-- **The order of a parent entry and its dotted child entry does not matter**:
    `replace_subgroups(obj, {"a.b": x, "a": y})` = `replace_subgroups(obj, {"a": y, "a.b": x})`, whatever the outcome. -/
theorem c18_subgroups_entry_order (tbl : SgTable) (fuel : Nat) (obj x y : Val) (a b : Str)
    (ha : '.' ∉ a) (hb : '.' ∉ b) (hbk : b ≠ keyword) :
    replaceSg tbl fuel obj [(joinDot [a, b], x), (a, y)] = replaceSg tbl fuel obj [(a, y), (joinDot [a, b], x)] := by
  have hkb : keyword ≠ b := fun e => hbk e.symm
  have hsp : selSplit (.dict [(b, x), (keyword, y)]) = selSplit (.dict [(keyword, y), (b, x)]) := by
    simp [selSplit, dget, ddel, hbk, hkb]
  cases fuel with
  | zero => rfl
  | succ f =>
    cases obj with
    | inst cls fs =>
      simp only [replaceSg, unflattenSel_child_parent a b x y ha hb hbk, unflattenSel_parent_child a b x y ha hb hbk,
        sgFields_congr_selSplit tbl _ cls a _ _ hsp fs,
        selLeft_single_isEmpty fs a (.dict [(b, x), (keyword, y)]) (.dict [(keyword, y), (b, x)])]
    | _ => rfl

example : ('.' ∉ ['m']) ∧ ('.' ∉ ['a', 'c', 't']) ∧ (['a', 'c', 't'] ≠ keyword) := by decide

/-- hypotheses of `c18_subgroups_siblings_kept`, and the input that refuted the statement before the repair:
    `c.n = AB(s=A(5), k=9)`, selection `{"n.s": "b"}` now keeps `n.k == 9`. -/
example :
    let A5 : Val := .inst ['A'] [.mk ['a'] true (.int 5) .none]
    let B0 : Val := .inst ['B'] [.mk ['b'] true (.str ['x']) .none]
    let AB0 : Val := .inst ['A', 'B'] [.mk ['s'] true (.inst ['A'] [.mk ['a'] true (.int 0) .none]) .none,
                                       .mk ['k'] true (.int 0) .none]
    let obj : Val := .inst ['C'] [.mk ['n'] true (.inst ['A', 'B'] [.mk ['s'] true A5 .none, .mk ['k'] true (.int 9) .none]) .none]
    let tbl : SgTable := [((['C'], ['n']), { hasDc := true, isOpt := false, sg := Option.none, fac := some AB0 }),
                          ((['A', 'B'], ['s']), { hasDc := true, isOpt := false, sg := some [(['b'], B0)], fac := Option.none })]
    replaceSg tbl 3 obj [(joinDot [['n'], ['s']], .str ['b'])] =
      .ok (.inst ['C'] [.mk ['n'] true (.inst ['A', 'B'] [.mk ['s'] true B0 .none, .mk ['k'] true (.int 9) .none]) .none]) := rfl

/-- **Nested fields may be named like `replace`'s own parameters** (full; the model had to report these as
    unmodelled before repair 4cae786): `replace(p, {"m.obj": v})` sets `p.m.obj`. -/
theorem c18_reserved_names_addressed (obj r v old : Val) (m : Str) (hm : '.' ∉ m)
    (h : replaceKw obj [(joinDot [m, "obj".toList], v)] = .ok r)
    (hp : getPath obj [m, "obj".toList] = some old) (hs : storedAsIs old v = true) :
    getPath r [m, "obj".toList] = some v :=
  c18_addressed_dotted obj r v old _ (by simp)
    (by intro s hs'; simp at hs'; rcases hs' with rfl | rfl; exact hm; decide) h hp hs

example : replaceKw (.inst ['P'] [.mk ['m'] true (.inst ['R'] [.mk ['o', 'b', 'j'] true (.int 1) .none,
                                                                  .mk ['v'] true (.int 2) .none]) .none])
    [(['m', '.', 'o', 'b', 'j'], .int 5), (['m', '.', 'v'], .int 6)] =
    .ok (.inst ['P'] [.mk ['m'] true (.inst ['R'] [.mk ['o', 'b', 'j'] true (.int 5) .none,
                                                      .mk ['v'] true (.int 6) .none]) .none]) := rfl
example : reservedKey ['o', 'b', 'j'] = true := by decide

/-! ### non-vacuity: concrete inputs satisfying the hypotheses of the theorems above -/

def exObj : Val := .inst ['T'] [.mk ['m'] true (.inst ['M'] [.mk ['v'] true (.int 0) .none,
                                                               .mk ['w'] true (.str ['w']) .none,
                                                               .mk ['n'] false (.int 7) (.int 7)]) .none,
                                .mk ['z'] true (.int 3) .none]
def exRes : Val := .inst ['T'] [.mk ['m'] true (.inst ['M'] [.mk ['v'] true (.int 3) .none,
                                                               .mk ['w'] true (.str ['w']) .none,
                                                               .mk ['n'] false (.int 7) (.int 7)]) .none,
                                .mk ['z'] true (.int 4) .none]
def exCh : Dict := [(['m', '.', 'v'], .int 3), (['z'], .int 4)]

/-- hypotheses of `c18_addressed_partial` / `c18_frame` on a depth-2 instance with a mixed change set -/
example : replaceKw exObj exCh = .ok exRes ∧ leafAt exCh [['m'], ['v']] = some (.int 3) ∧
    getPath exObj [['m'], ['v']] = some (.int 0) ∧ storedAsIs (.int 0) (.int 3) = true ∧
    untouched exCh [['m'], ['w']] = true ∧ initPath [['m'], ['w']] exObj = true := ⟨rfl, rfl, rfl, rfl, rfl, rfl⟩

/-- hypotheses of `c18_noninit_raises` (nested, via `c18_nested_error_propagates`) and `c18_unknown_raises` -/
example : unflattenSplit [(['n'], Val.int 1)] = .ok [(['n'], .int 1)] ∧
    getFld [Fld.mk ['v'] true (.int 0) .none, .mk ['n'] false (.int 7) (.int 7)] ['n'] = some (.mk ['n'] false (.int 7) (.int 7)) :=
  ⟨rfl, rfl⟩
example : (∃ e, replaceKw exObj [(['m', '.', 'n'], .int 1)] = .error (.raise e)) ∧
    (∃ e, replaceKw exObj [(['q', 'q'], .int 1)] = .error (.raise e)) := ⟨⟨_, rfl⟩, ⟨_, rfl⟩⟩

/-- hypotheses of `c18_subgroups_select` -/
example : (sgMeta [((['C'], ['s']), { hasDc := true, isOpt := false, sg := some [(['b'], Val.int 1)], fac := Option.none })]
    ['C'] ['s']).sg = some [(['b'], Val.int 1)] := rfl

/-! ## Round 2 (model at repairs abc6969 / 452ee05 / bba27c4)

### replace_subgroups: any kind of selection value, nested form, depth 2, pass-through parents, unknown keys -/

/-- the loop applied to ONE selection entry `k ↦ s`: if the member picked for `k` is `fv` and the child
    selections (if any) turn it into `nv`, the result is `dataclasses.replace(obj, k=nv)` on the field list. -/
theorem sgFields_single_gen (tbl : SgTable) (recur : Val → Dict → Out Val) (cls : Str) (fs : List Fld)
    (k : Str) (s nv fv : Val) (f : Fld)
    (hi : ∀ f ∈ fs, f.init = true) (hf : getFld fs k = some f)
    (hdc : (sgMeta tbl cls k).hasDc = true)
    (hp : pickMember (sgMeta tbl cls k) f.val (selSplit s).1 (!(selSplit s).2.isEmpty) = .ok fv)
    (hrec : ((selSplit s).2.isEmpty = true ∧ nv = fv) ∨
            ((selSplit s).2.isEmpty = false ∧ recur fv (selSplit s).2 = .ok nv)) :
    ∃ fs', sgFields tbl recur cls fs [(k, s)] = .ok fs' ∧ setField fs k nv = some fs' := by
  induction fs with
  | nil => simp [getFld] at hf
  | cons f0 rest ih =>
    obtain ⟨n0, i, v0, d0⟩ := f0
    have h0 : i = true := hi (.mk n0 i v0 d0) (by simp)
    subst h0
    have hrest : ∀ g ∈ rest, g.init = true := fun g hg => hi g (by simp [hg])
    simp only [getFld] at hf
    by_cases hnk : n0 = k
    · subst hnk
      simp only [if_true, Option.some.injEq] at hf
      subst hf
      simp only [Fld.val] at hp
      refine ⟨.mk n0 true nv d0 :: rest, ?_, by simp [setField]⟩
      have hsel : dget [(n0, s)] n0 = some s := by simp [dget]
      have hdel : ddel [(n0, s)] n0 = [] := by simp [ddel]
      rw [sgFields]
      rcases hrec with ⟨he, rfl⟩ | ⟨he, hr⟩
      · rw [he] at hp
        simp only [Bool.not_true] at hp
        simp only [hsel, hdc, he, Bool.not_true, hp, hdel, sgFields_nil_sel tbl recur cls rest hrest]
        simp
      · rw [he] at hp
        simp only [Bool.not_false] at hp
        simp only [hsel, hdc, he, Bool.not_false, hp, hr, hdel, sgFields_nil_sel tbl recur cls rest hrest]
        simp
    · simp only [hnk, if_false] at hf
      obtain ⟨fs', h1, h2⟩ := ih hrest hf
      have hkn : k ≠ n0 := fun e => hnk e.symm
      exact ⟨.mk n0 true v0 d0 :: fs', by simp [sgFields, dget, hkn, h1], by simp [setField, hnk, h2]⟩

/-- one top-level selection entry, whatever its form: the call succeeds and equals `dataclasses.replace(obj, k=nv)` -/
theorem replaceSg_single_gen (tbl : SgTable) (fuel : Nat) (cls : Str) (fs : List Fld)
    (k : Str) (s nv fv : Val) (f : Fld) (hk : '.' ∉ k)
    (hi : ∀ f ∈ fs, f.init = true) (hf : getFld fs k = some f)
    (hdc : (sgMeta tbl cls k).hasDc = true)
    (hp : pickMember (sgMeta tbl cls k) f.val (selSplit s).1 (!(selSplit s).2.isEmpty) = .ok fv)
    (hrec : ((selSplit s).2.isEmpty = true ∧ nv = fv) ∨
            ((selSplit s).2.isEmpty = false ∧ replaceSg tbl fuel fv (selSplit s).2 = .ok nv)) :
    ∃ r, replaceSg tbl (fuel + 1) (.inst cls fs) [(k, s)] = .ok r ∧ refEdit (.inst cls fs) [k] nv = some r := by
  obtain ⟨fs', h1, h2⟩ := sgFields_single_gen tbl (replaceSg tbl fuel) cls fs k s nv fv f hi hf hdc hp hrec
  refine ⟨.inst cls fs', ?_, ?_⟩
  · simp only [replaceSg, unflattenSel_single k _ hk, h1, selLeft_single fs k s f hf, List.isEmpty_nil, if_true]
    rw [rebuild_allInit fs' (setField_allInit fs k nv fs' hi h2)]
  · simp only [refEdit, h2, Option.map_some]
    rw [rebuild_allInit fs' (setField_allInit fs k nv fs' hi h2)]

/-- **replace_subgroups swaps exactly the selected member** (one-level selection by subgroup key): the result is
    `dataclasses.replace(obj, k=<the alternative registered under key>)` — nothing else changes. -/
theorem c18_subgroups_select (tbl : SgTable) (fuel : Nat) (cls : Str) (fs : List Fld)
    (k key : Str) (alts : Dict) (alt : Val) (f : Fld) (hk : '.' ∉ k)
    (hi : ∀ f ∈ fs, f.init = true) (hf : getFld fs k = some f)
    (hdc : (sgMeta tbl cls k).hasDc = true) (hsg : (sgMeta tbl cls k).sg = some alts)
    (halt : dget alts key = some alt) :
    ∃ r, replaceSg tbl (fuel + 1) (.inst cls fs) [(k, .str key)] = .ok r ∧
         refEdit (.inst cls fs) [k] alt = some r := by
  have hne : alts ≠ [] := by intro e; subst e; simp [dget] at halt
  obtain ⟨a, as, rfl⟩ := List.exists_cons_of_ne_nil hne
  refine replaceSg_single_gen tbl fuel cls fs k (.str key) alt alt f hk hi hf hdc ?_ (Or.inl ⟨rfl, rfl⟩)
  show pickMember _ f.val (.str key) (!([] : Dict).isEmpty) = .ok alt
  simp only [List.isEmpty_nil, Bool.not_true, pickMember_noChild, pickOther, hsg, halt]

/-- **selection by dataclass type**: the member becomes `T()` — `dataclasses.replace(obj, k=T())`, nothing else changes -/
theorem c18_subgroups_select_type (tbl : SgTable) (fuel : Nat) (cls : Str) (fs : List Fld)
    (k c : Str) (mk : Val) (f : Fld) (hk : '.' ∉ k)
    (hi : ∀ f ∈ fs, f.init = true) (hf : getFld fs k = some f) (hdc : (sgMeta tbl cls k).hasDc = true) :
    ∃ r, replaceSg tbl (fuel + 1) (.inst cls fs) [(k, .type c mk)] = .ok r ∧
         refEdit (.inst cls fs) [k] mk = some r :=
  replaceSg_single_gen tbl fuel cls fs k (.type c mk) mk mk f hk hi hf hdc
    (by show pickMember _ f.val (.type c mk) (!([] : Dict).isEmpty) = .ok mk
        simp only [List.isEmpty_nil, Bool.not_true, pickMember_noChild, pickOther]) (Or.inl ⟨rfl, rfl⟩)

/-- **selection by dataclass instance**: the member becomes (a copy of) that instance -/
theorem c18_subgroups_select_inst (tbl : SgTable) (fuel : Nat) (cls : Str) (fs : List Fld)
    (k c : Str) (ifs : List Fld) (f : Fld) (hk : '.' ∉ k)
    (hi : ∀ f ∈ fs, f.init = true) (hf : getFld fs k = some f) (hdc : (sgMeta tbl cls k).hasDc = true) :
    ∃ r, replaceSg tbl (fuel + 1) (.inst cls fs) [(k, .inst c ifs)] = .ok r ∧
         refEdit (.inst cls fs) [k] (.inst c ifs) = some r :=
  replaceSg_single_gen tbl fuel cls fs k (.inst c ifs) (.inst c ifs) (.inst c ifs) f hk hi hf hdc
    (by show pickMember _ f.val (.inst c ifs) (!([] : Dict).isEmpty) = .ok (.inst c ifs)
        simp only [List.isEmpty_nil, Bool.not_true, pickMember_noChild, pickOther]) (Or.inl ⟨rfl, rfl⟩)

/-- **nested form = flat form** for a selected parent with one child: `{"a": {"__key__": y, "b": x}}` is a fixed
    point of `_unflatten_selection_dict`, and by `unflattenSel_parent_child` it is what `{"a": y, "a.b": x}` becomes. -/
theorem unflattenSel_nested_form (a b : Str) (x y : Val) (ha : '.' ∉ a) :
    unflattenSel [(a, .dict [(keyword, y), (b, x)])] = [(a, .dict [(keyword, y), (b, x)])] :=
  unflattenSel_single a _ ha

theorem c18_subgroups_nested_eq_flat (tbl : SgTable) (fuel : Nat) (obj x y : Val) (a b : Str)
    (ha : '.' ∉ a) (hb : '.' ∉ b) (hbk : b ≠ keyword) :
    replaceSg tbl fuel obj [(a, .dict [(keyword, y), (b, x)])] = replaceSg tbl fuel obj [(a, y), (joinDot [a, b], x)] := by
  cases fuel with
  | zero => rfl
  | succ f =>
    cases obj with
    | inst cls fs =>
      simp only [replaceSg, unflattenSel_nested_form a b x y ha, unflattenSel_parent_child a b x y ha hb hbk]
    | _ => rfl

/-- **Pass-through selections (full, every kind of parent — after repair 452ee05).**  When only a member *below*
    the dataclass-valued field `a` is selected (plain, Optional, Union or subgroups field alike) and the selection
    succeeds on the current `obj.a`, it succeeds on `obj` and is `dataclasses.replace(obj, a=<obj.a with the
    selection applied>)`. -/
theorem c18_subgroups_passthrough (tbl : SgTable) (fuel : Nat) (cls : Str) (fs : List Fld) (a b : Str)
    (x r2 : Val) (c2 : Str) (fs2 : List Fld) (f : Fld)
    (ha : '.' ∉ a) (hb : '.' ∉ b) (hbk : b ≠ keyword) (hi : ∀ g ∈ fs, g.init = true)
    (hf : getFld fs a = some f) (hv : f.val = .inst c2 fs2)
    (hdc : (sgMeta tbl cls a).hasDc = true)
    (h2 : replaceSg tbl (fuel + 1) (.inst c2 fs2) [(b, x)] = .ok r2) :
    ∃ r, replaceSg tbl (fuel + 2) (.inst cls fs) [(joinDot [a, b], x)] = .ok r ∧
         refEdit (.inst cls fs) [a] r2 = some r := by
  have hval : (selSplit (.dict [(b, x)])).1 = .none := by simp [selSplit, dget, hbk]
  have hchild : (selSplit (.dict [(b, x)])).2 = [(b, x)] := by simp [selSplit, ddel, hbk]
  obtain ⟨fs', h1, hset⟩ := sgFields_single_gen tbl (replaceSg tbl (fuel + 1)) cls fs a (.dict [(b, x)]) r2 (.inst c2 fs2) f
    hi hf hdc (by rw [hval, hchild, hv]; simp only [List.isEmpty_cons, Bool.not_false, pickMember_descend])
    (Or.inr ⟨by rw [hchild]; rfl, by rw [hchild]; exact h2⟩)
  refine ⟨.inst cls fs', ?_, ?_⟩
  · simp only [replaceSg, unflattenSel_dotted2 a b x ha hb, h1, selLeft_single fs a _ f hf, List.isEmpty_nil, if_true]
    rw [rebuild_allInit fs' (setField_allInit fs a r2 fs' hi hset)]
  · simp only [refEdit, hset, Option.map_some]
    rw [rebuild_allInit fs' (setField_allInit fs a r2 fs' hi hset)]

/-- regression (former witness of C18-subgroups-passthrough-opt-sg): `c.n : Optional[AB]` holds `AB(s=…, k=9)`;
    `{"n.s": "b"}` now succeeds and keeps `n.k == 9` -/
example :
    let B0 : Val := .inst ['B'] [.mk ['b'] true (.str ['x']) .none]
    let tbl : SgTable := [((['C'], ['n']), { hasDc := true, isOpt := true, sg := Option.none, fac := Option.none }),
                          ((['A', 'B'], ['s']), { hasDc := true, isOpt := false, sg := some [(['b'], B0)], fac := Option.none })]
    replaceSg tbl 3 (.inst ['C'] [.mk ['n'] true (.inst ['A', 'B'] [.mk ['s'] true (.int 0) .none, .mk ['k'] true (.int 9) .none]) .none])
      [(joinDot [['n'], ['s']], .str ['b'])] =
      .ok (.inst ['C'] [.mk ['n'] true (.inst ['A', 'B'] [.mk ['s'] true B0 .none, .mk ['k'] true (.int 9) .none]) .none]) := rfl

/-- **The SELECTED member at depth 2**: selecting `a.b` by subgroup key below a dataclass-valued field `a` (of any
    kind) succeeds and is `dataclasses.replace(obj, a=dataclasses.replace(obj.a, b=<alternative>))` — level by level. -/
theorem c18_subgroups_nested_selected (tbl : SgTable) (fuel : Nat) (cls : Str) (fs : List Fld) (a b key : Str)
    (alts : Dict) (alt : Val) (c2 : Str) (fs2 : List Fld) (f f2 : Fld)
    (ha : '.' ∉ a) (hb : '.' ∉ b) (hbk : b ≠ keyword) (hi : ∀ g ∈ fs, g.init = true) (hi2 : ∀ g ∈ fs2, g.init = true)
    (hf : getFld fs a = some f) (hv : f.val = .inst c2 fs2) (hf2 : getFld fs2 b = some f2)
    (hdc : (sgMeta tbl cls a).hasDc = true)
    (hdc2 : (sgMeta tbl c2 b).hasDc = true) (hsg : (sgMeta tbl c2 b).sg = some alts) (halt : dget alts key = some alt) :
    ∃ r, replaceSg tbl (fuel + 2) (.inst cls fs) [(joinDot [a, b], .str key)] = .ok r ∧
         refEdit (.inst cls fs) [a, b] alt = some r := by
  obtain ⟨r2, h2, href2⟩ := c18_subgroups_select tbl fuel c2 fs2 b key alts alt f2 hb hi2 hf2 hdc2 hsg halt
  obtain ⟨r, h1, href⟩ := c18_subgroups_passthrough tbl fuel cls fs a b (.str key) r2 c2 fs2 f ha hb hbk hi hf hv hdc h2
  refine ⟨r, h1, ?_⟩
  have hgf : getField fs a = some (.inst c2 fs2) := by rw [getField_eq, hf]; simp [hv]
  rw [refEdit, hgf]
  simp only
  rw [href2]
  simp only
  rw [refEdit] at href
  exact href

/-- what `dataclasses.replace` level by level writes can be read back -/
theorem getField_setField (fs fs' : List Fld) (k : Str) (x : Val) (h : setField fs k x = some fs') :
    getField (rebuild fs') k = some x := by
  induction fs generalizing fs' with
  | nil => simp [setField] at h
  | cons f0 rest ih =>
    obtain ⟨n0, i, v0, d0⟩ := f0
    simp only [setField] at h
    by_cases hnk : n0 = k
    · simp only [hnk, if_true] at h
      cases i with
      | false => simp at h
      | true => simp only [if_true, Option.some.injEq] at h; subst h; simp [rebuild, getField, hnk]
    · simp only [hnk, if_false, Option.map_eq_some_iff] at h
      obtain ⟨r, hr, rfl⟩ := h
      have := ih r hr
      simp only [rebuild, List.map_cons] at this ⊢
      cases i <;> simp [getField, hnk, this]

theorem getPath_refEdit (p : List Str) : ∀ (obj v r : Val), refEdit obj p v = some r → getPath r p = some v := by
  induction p with
  | nil => intro obj v r h; cases obj <;> simp [refEdit] at h
  | cons k rest ih =>
    intro obj v r h
    cases obj with
    | inst c fs =>
      cases rest with
      | nil =>
        simp only [refEdit, Option.map_eq_some_iff] at h
        obtain ⟨fs', hs, rfl⟩ := h
        simp [getPath, getField_setField fs fs' k v hs]
      | cons k2 r2 =>
        simp only [refEdit] at h
        cases hg : getField fs k with
        | none => rw [hg] at h; simp at h
        | some sub =>
          rw [hg] at h
          simp only at h
          cases hr : refEdit sub (k2 :: r2) v with
          | none => rw [hr] at h; simp at h
          | some sub' =>
            rw [hr] at h
            simp only [Option.map_eq_some_iff] at h
            obtain ⟨fs', hs, rfl⟩ := h
            simp only [getPath, getField_setField fs fs' k sub' hs]
            exact ih sub v sub' hr
    | _ => simp [refEdit] at h

/-- corollary: after a depth-2 selection the member `a.b` IS the chosen alternative -/
theorem c18_subgroups_nested_selected_leaf (tbl : SgTable) (fuel : Nat) (cls : Str) (fs : List Fld) (a b key : Str)
    (alts : Dict) (alt : Val) (c2 : Str) (fs2 : List Fld) (f f2 : Fld)
    (ha : '.' ∉ a) (hb : '.' ∉ b) (hbk : b ≠ keyword) (hi : ∀ g ∈ fs, g.init = true) (hi2 : ∀ g ∈ fs2, g.init = true)
    (hf : getFld fs a = some f) (hv : f.val = .inst c2 fs2) (hf2 : getFld fs2 b = some f2)
    (hdc : (sgMeta tbl cls a).hasDc = true)
    (hdc2 : (sgMeta tbl c2 b).hasDc = true) (hsg : (sgMeta tbl c2 b).sg = some alts) (halt : dget alts key = some alt) :
    ∃ r, replaceSg tbl (fuel + 2) (.inst cls fs) [(joinDot [a, b], .str key)] = .ok r ∧ getPath r [a, b] = some alt := by
  obtain ⟨r, h1, h2⟩ := c18_subgroups_nested_selected tbl fuel cls fs a b key alts alt c2 fs2 f f2 ha hb hbk hi hi2 hf hv hf2
    hdc hdc2 hsg halt
  exact ⟨r, h1, getPath_refEdit [a, b] _ alt r h2⟩

/-- **Unknown selection keys raise** (full — after repair bba27c4): a key of the (grouped) selection dict that names
    no field of `obj` means the call never returns normally, whatever else is selected. -/
theorem c18_subgroups_unknown_raises (tbl : SgTable) (fuel : Nat) (cls : Str) (fs : List Fld) (sel : Dict)
    (k : Str) (x : Val) (hk : dget (unflattenSel sel) k = some x) (hf : getFld fs k = Option.none) :
    ∀ r, replaceSg tbl fuel (.inst cls fs) sel ≠ .ok r := by
  intro r h
  cases sel with
  | nil => simp [unflattenSel, dget] at hk
  | cons s sel' =>
    obtain ⟨fuel', cls', fs', fs'', _, hobj, _, _, hl⟩ := replaceSg_inv tbl fuel _ s sel' r h
    cases hobj
    have := selLeft_keeps_unknown fs (unflattenSel (s :: sel')) k hf
    rw [hk] at this
    cases hsl : selLeft fs (unflattenSel (s :: sel')) with
    | nil => rw [hsl] at this; simp [dget] at this
    | cons a b => rw [hsl] at hl; simp at hl

/-- the one-key form stated in round 2 as `SubgroupsUnknownRaisesFull` -/
theorem c18_subgroups_unknown_raises_single (tbl : SgTable) (fuel : Nat) (cls : Str) (fs : List Fld) (k : Str) (x : Val)
    (hk : '.' ∉ k) (hf : getFld fs k = Option.none) : ∀ r, replaceSg tbl fuel (.inst cls fs) [(k, x)] ≠ .ok r :=
  c18_subgroups_unknown_raises tbl fuel cls fs [(k, x)] k x (by rw [unflattenSel_single k x hk]; simp [dget]) hf

/-- regression (former witness of C18-subgroups-unknown-ignored): `{"zz": "b"}` now raises TypeError -/
example : replaceSg [] 1 (.inst ['C'] [.mk ['z'] true (.int 3) .none]) [(['z', 'z'], .str ['b'])] =
    .error (.raise .typeError) := rfl

/-- pass-through, total form: the call succeeds AND every sibling of the replaced member is kept
    (`c18_subgroups_siblings_kept` with its success hypothesis discharged, for every kind of parent). -/
theorem c18_subgroups_passthrough_keeps_siblings (tbl : SgTable) (fuel : Nat) (cls : Str) (fs : List Fld) (a b : Str)
    (x r2 : Val) (c2 : Str) (fs2 : List Fld) (f : Fld)
    (ha : '.' ∉ a) (hb : '.' ∉ b) (hbk : b ≠ keyword) (hi : ∀ g ∈ fs, g.init = true)
    (hf : getFld fs a = some f) (hv : f.val = .inst c2 fs2)
    (hdc : (sgMeta tbl cls a).hasDc = true)
    (h2 : replaceSg tbl (fuel + 1) (.inst c2 fs2) [(b, x)] = .ok r2) :
    ∃ r, replaceSg tbl (fuel + 2) (.inst cls fs) [(joinDot [a, b], x)] = .ok r ∧
      ∀ sib, sib ≠ b → getPath r [a, sib] = getPath (.inst cls fs) [a, sib] := by
  obtain ⟨r, h1, _⟩ := c18_subgroups_passthrough tbl fuel cls fs a b x r2 c2 fs2 f ha hb hbk hi hf hv hdc h2
  refine ⟨r, h1, fun sib hs => ?_⟩
  have hcur : getPath (.inst cls fs) [a] = some (.inst c2 fs2) := by
    rw [getPath_cons_inst, hf]; simp [getPath, hv]
  exact c18_subgroups_siblings_kept tbl (fuel + 2) _ r x a b sib c2 fs2 ha hb hbk hs hcur h1

/-! ### replace: a valid edit DOES return (success), and the reference as an equivalence -/

/-- the field loop on a single-entry change set `{k: x}` succeeds when `k` is an init field and the value step
    (store `x`, or recurse when `x` is a dict on a dataclass-valued field) succeeds -/
theorem replaceFields_single_ok (fs : List Fld) (k : Str) (x v' : Val) (f : Fld)
    (hf : getFld fs k = some f) (hinit : f.init = true)
    (hstep : match f.val, x with
      | .inst cl sub, .dict fc => replaceKw (.inst cl sub) fc = .ok v'
      | _, _ => v' = x) :
    ∃ fs', replaceFields fs [(k, x)] = .ok (fs', []) ∧ setField fs k v' = some fs' := by
  induction fs with
  | nil => simp [getFld] at hf
  | cons f0 rest ih =>
    obtain ⟨n0, i, v0, d0⟩ := f0
    simp only [getFld] at hf
    by_cases hnk : n0 = k
    · subst hnk
      simp only [if_true, Option.some.injEq] at hf
      subst hf
      simp only [Fld.init] at hinit
      subst hinit
      simp only [Fld.val] at hstep
      refine ⟨.mk n0 true v' d0 :: rest, ?_, by simp [setField]⟩
      have hsel : dget [(n0, x)] n0 = some x := by simp [dget]
      have hdel : ddel [(n0, x)] n0 = [] := by simp [ddel]
      rw [replaceFields]
      simp only [hsel, Bool.not_true, Bool.false_eq_true, if_false, hdel, replaceFields_nil]
      split
      · rename_i c sub fc
        simp only at hstep
        rw [hstep]
      · rename_i hno
        split at hstep
        · exact (hno _ _ _ rfl rfl).elim
        · rw [hstep]
    · simp only [hnk, if_false] at hf
      obtain ⟨fs', h1, h2⟩ := ih hf
      have hkn : k ≠ n0 := fun e => hnk e.symm
      refine ⟨.mk n0 i v0 d0 :: fs', ?_, by simp [setField, hnk, h2]⟩
      rw [replaceFields]
      simp [dget, hkn, h1]

/-- **Success.** One edit in nested form whose path exists in `obj` and runs through init fields DOES return
    (the property's "returns a new object"; with `c18_forms_dotted_nested` also in dotted form). -/
theorem c18_succeeds_single (p : List Str) : ∀ (obj old v : Val), p ≠ [] → DotFree p →
    getPath obj p = some old → initPath p obj = true → storedAsIs old v = true →
    ∃ r, replaceKw obj (nestOf p v) = .ok r := by
  induction p with
  | nil => intro obj old v hne; exact absurd rfl hne
  | cons k rest ih =>
    intro obj old v _ hd hp hin hs
    obtain ⟨cls, fs, rfl⟩ := getPath_nonInst obj k rest old hp
    rw [getPath_cons_inst] at hp
    cases hf : getFld fs k with
    | none => rw [hf] at hp; simp at hp
    | some f =>
      rw [hf] at hp
      simp only [Option.bind_some] at hp
      simp only [initPath, hf, Bool.and_eq_true] at hin
      have hu := unflatten_nested (k :: rest) v (by simp) hd
      cases rest with
      | nil =>
        simp only [getPath, Option.some.injEq] at hp
        obtain ⟨fs', h1, _⟩ := replaceFields_single_ok fs k v v f hf hin.1 (by
          rw [hp]
          split
          · simp [storedAsIs] at hs
          · rfl)
        refine ⟨.inst cls (rebuild fs'), ?_⟩
        rw [replaceKw, hu]
        simp only [nestOf, h1]
      | cons k2 r2 =>
        obtain ⟨c2, sub, hsub⟩ := getPath_nonInst f.val k2 r2 old hp
        have hd' : DotFree (k2 :: r2) := fun s hs' => hd s (by simp only [List.mem_cons] at hs' ⊢; right; exact hs')
        obtain ⟨r', hr'⟩ := ih f.val old v (by simp) hd' hp hin.2 hs
        obtain ⟨fs', h1, _⟩ := replaceFields_single_ok fs k (.dict (nestOf (k2 :: r2) v)) r' f hf hin.1 (by
          rw [hsub]
          simp only
          rw [← hsub]; exact hr')
        refine ⟨.inst cls (rebuild fs'), ?_⟩
        rw [replaceKw, hu]
        simp only [nestOf, h1]

/-- **Reference as an equivalence**: for a valid single edit, `replace` returns `r` exactly when
    `dataclasses.replace` applied level by level gives `r`. -/
theorem c18_reference_iff (p : List Str) (obj old v r : Val) (hne : p ≠ []) (hd : DotFree p)
    (hp : getPath obj p = some old) (hin : initPath p obj = true) (hs : storedAsIs old v = true) :
    replaceKw obj (nestOf p v) = .ok r ↔ refEdit obj p v = some r := by
  constructor
  · intro h; exact c18_reference_single p obj r old v hne hd h hp hs
  · intro h
    obtain ⟨r', hr'⟩ := c18_succeeds_single p obj old v hne hd hp hin hs
    have := c18_reference_single p obj r' old v hne hd hr' hp hs
    rw [h] at this
    cases this
    exact hr'

/-- all hypotheses of `c18_reference_single` / `c18_succeeds_single` / `c18_reference_iff` together, depth 2 -/
example : DotFree [['m'], ['v']] ∧ getPath exObj [['m'], ['v']] = some (.int 0) ∧ initPath [['m'], ['v']] exObj = true ∧
    storedAsIs (.int 0) (.int 3) = true ∧
    (∃ r, replaceKw exObj (nestOf [['m'], ['v']] (.int 3)) = .ok r ∧ refEdit exObj [['m'], ['v']] (.int 3) = some r) :=
  ⟨by intro s hs; simp at hs; rcases hs with rfl | rfl <;> decide, rfl, rfl, rfl, ⟨_, rfl, rfl⟩⟩

/-! ### errors at any depth -/

/-- the change set addresses, along the path `p` (through dataclass instances and nested dict entries), a field
    that is `init=False` or does not exist -/
def badAt : List Str → Val → Dict → Bool
  | [], _, _ => false
  | k :: rest, .inst _ fs, ch =>
    match unflattenSplit ch with
    | .ok n =>
      match dget n k with
      | Option.none => false
      | some x =>
        match getFld fs k with
        | Option.none => true                                   -- unknown field
        | some f =>
          if !f.init then true                                  -- init=False field (also at an intermediate position)
          else match f.val, x with
            | .inst c sub, .dict fc => badAt rest (.inst c sub) fc
            | _, _ => false
    | .error _ => false
  | _ :: _, _, _ => false

/-- **Errors at any depth**: a change to an `init=False` or unknown field, however deep and in whatever form,
    never returns normally (it is never ignored). -/
theorem c18_bad_path_raises (p : List Str) : ∀ (obj : Val) (ch : Dict), badAt p obj ch = true →
    ∀ r, replaceKw obj ch ≠ .ok r := by
  induction p with
  | nil => intro obj ch h; simp [badAt] at h
  | cons k rest ih =>
    intro obj ch h
    cases obj with
    | inst cls fs =>
      simp only [badAt] at h
      cases hu : unflattenSplit ch with
      | error e => rw [hu] at h; simp at h
      | ok n =>
        rw [hu] at h
        simp only at h
        cases hk : dget n k with
        | none => rw [hk] at h; simp at h
        | some x =>
          rw [hk] at h
          simp only at h
          cases hf : getFld fs k with
          | none => exact c18_unknown_raises cls fs ch n k x hu hf hk
          | some f =>
            rw [hf] at h
            simp only at h
            cases hi : f.init with
            | false => exact c18_noninit_raises cls fs ch n k f x hu hf hi hk
            | true =>
              rw [hi] at h
              simp only [Bool.not_true, Bool.false_eq_true, if_false] at h
              split at h
              · rename_i cl sub fc hv
                exact c18_nested_error_propagates cls fs ch n fc k f cl sub hu hf hv hk (ih (.inst cl sub) fc h)
              · simp at h
    | _ => simp [badAt] at h

example : badAt [['m'], ['n']] exObj [(['m', '.', 'n'], .int 1)] = true := rfl
example : badAt [['m'], ['q']] exObj [(['m'], .dict [(['q'], .int 1)])] = true := rfl

/-! ### several edits: the forms are interchangeable per subtree, in any mixture -/

/-- first component of a path (the top-level field an edit belongs to) -/
def headOf (p : List Str) : Str := p.headD []

/-- the top-level entry of the nested form of one edit -/
def entryOf (e : List Str × Val) : Str × Val :=
  match e.1 with
  | [] => ([], e.2)
  | [k] => (k, e.2)
  | k :: k2 :: rest => (k, .dict (nestOf (k2 :: rest) e.2))

/-- one edit written in the dotted (`true`) or in the nested (`false`) form -/
def renderOne (dotted : Bool) (e : List Str × Val) : Str × Val :=
  if dotted then (joinDot e.1, e.2) else entryOf e

theorem entryOf_fst (e : List Str × Val) (hne : e.1 ≠ []) : (entryOf e).1 = headOf e.1 := by
  obtain ⟨p, v⟩ := e
  cases p with
  | nil => exact absurd rfl hne
  | cons k rest => cases rest <;> rfl

theorem dset_append_of_none (d : Dict) (k : Str) (x : Val) (h : dget d k = Option.none) :
    dset d k x = d ++ [(k, x)] := by
  induction d with
  | nil => rfl
  | cons kv r ih =>
    obtain ⟨a, b⟩ := kv
    simp only [dget] at h
    by_cases hak : a = k
    · simp [hak] at h
    · simp only [hak, if_false] at h
      simp [dset, hak, ih h]

theorem dget_append_single_ne (d : Dict) (k k' : Str) (x : Val) (h : k ≠ k') :
    dget (d ++ [(k, x)]) k' = dget d k' := by
  induction d with
  | nil => simp [dget, h]
  | cons kv r ih => obtain ⟨a, b⟩ := kv; simp only [List.cons_append, dget, ih]

/-- writing an edit whose top-level field is not yet in the accumulator appends its nested entry -/
theorem setPath_fresh (acc : Dict) (p : List Str) (v : Val) (hne : p ≠ [])
    (h : dget acc (headOf p) = Option.none) : setPath acc p v = .ok (acc ++ [entryOf (p, v)]) := by
  cases p with
  | nil => exact absurd rfl hne
  | cons k rest =>
    simp only [headOf, List.headD_cons] at h
    cases rest with
    | nil => simp [setPath, entryOf, dset_append_of_none acc k v h]
    | cons k2 r =>
      simp only [setPath, h, setPath_nil_eq (k2 :: r) v (by simp), entryOf]
      rw [dset_append_of_none acc k _ h]

theorem setPath_renderOne (acc : Dict) (b : Bool) (e : List Str × Val) (hne : e.1 ≠ []) (hd : DotFree e.1)
    (h : dget acc (headOf e.1) = Option.none) :
    setPath acc (splitDot (renderOne b e).1) (renderOne b e).2 = .ok (acc ++ [entryOf e]) := by
  cases b with
  | true =>
    simp only [renderOne, if_true, splitDot, joinDot, splitOnChar_join '.' e.1 hne hd]
    exact setPath_fresh acc e.1 e.2 hne h
  | false =>
    have hk : splitDot (entryOf e).1 = [(entryOf e).1] := by
      rw [entryOf_fst e hne]
      obtain ⟨p, v⟩ := e
      cases p with
      | nil => exact absurd rfl hne
      | cons k rest => exact splitOnChar_noSep '.' k (hd k (by simp))
    simp only [renderOne, Bool.false_eq_true, if_false, hk, setPath]
    rw [entryOf_fst e hne, dset_append_of_none acc _ _ h, ← entryOf_fst e hne]

/-- **`unflatten_split` of a change set with one form per top-level field** (any mixture of dotted and nested
    entries, in the given order) is the list of nested entries — whatever form each edit was written in. -/
theorem unflattenFrom_render (es : List (List Str × Val)) : ∀ (cs : List Bool) (acc : Dict),
    cs.length = es.length → (∀ e ∈ es, e.1 ≠ [] ∧ DotFree e.1) → (es.map (fun e => headOf e.1)).Nodup →
    (∀ e ∈ es, dget acc (headOf e.1) = Option.none) →
    unflattenFrom acc ((List.zipWith renderOne cs es).map (fun kv => (splitDot kv.1, kv.2))) = .ok (acc ++ es.map entryOf) := by
  induction es with
  | nil => intro cs acc hl _ _ _; cases cs <;> simp [unflattenFrom] at *
  | cons e es' ih =>
    intro cs acc hl hok hnd hacc
    cases cs with
    | nil => simp at hl
    | cons c cs' =>
      obtain ⟨hne, hd⟩ := hok e (by simp)
      simp only [List.zipWith_cons_cons, List.map_cons, unflattenFrom,
        setPath_renderOne acc c e hne hd (hacc e (by simp))]
      simp only [List.map_cons, List.nodup_cons, List.mem_map, not_exists, not_and] at hnd
      have := ih cs' (acc ++ [entryOf e]) (by simpa using hl) (fun x hx => hok x (by simp [hx])) hnd.2
        (fun x hx => by
          have hxe : (entryOf e).1 ≠ headOf x.1 := by rw [entryOf_fst e hne]; exact fun heq => hnd.1 x hx heq.symm
          show dget (acc ++ [((entryOf e).1, (entryOf e).2)]) (headOf x.1) = Option.none
          rw [dget_append_single_ne acc _ _ _ hxe]
          exact hacc x (by simp [hx]))
      rw [this]
      simp

/-- a well-formed list of edits: non-empty dot-free paths with pairwise distinct top-level fields -/
def EditsOk (es : List (List Str × Val)) : Prop :=
  (∀ e ∈ es, e.1 ≠ [] ∧ DotFree e.1) ∧ (es.map (fun e => headOf e.1)).Nodup

theorem unflattenSplit_render (es : List (List Str × Val)) (cs : List Bool) (hl : cs.length = es.length)
    (hes : EditsOk es) : unflattenSplit (List.zipWith renderOne cs es) = .ok (es.map entryOf) := by
  have := unflattenFrom_render es cs [] hl hes.1 hes.2 (fun _ _ => rfl)
  simpa [unflattenSplit] using this

/-- **The forms are interchangeable for change sets with several edits**: for edits with pairwise distinct
    top-level fields, writing each one in the dotted or in the nested form — in any mixture — gives the same
    `replace` outcome (result or error). -/
theorem c18_forms_multi (obj : Val) (es : List (List Str × Val)) (cs1 cs2 : List Bool)
    (h1 : cs1.length = es.length) (h2 : cs2.length = es.length) (hes : EditsOk es) :
    replaceKw obj (List.zipWith renderOne cs1 es) = replaceKw obj (List.zipWith renderOne cs2 es) := by
  cases obj <;> simp only [replaceKw, unflattenSplit_render es cs1 h1 hes, unflattenSplit_render es cs2 h2 hes]

theorem leafAt_of_unflat (p : List Str) : ∀ (v : Val) (ch : Dict), p ≠ [] → DotFree p →
    unflattenSplit ch = .ok (nestOf p v) → leafAt ch p = some v := by
  induction p with
  | nil => intro v ch hne; exact absurd rfl hne
  | cons k rest ih =>
    intro v ch _ hd h0
    cases rest with
    | nil => simp [leafAt, h0, nestOf, dget]
    | cons k2 r =>
      have hd' : DotFree (k2 :: r) := fun s hs => hd s (by simp [List.mem_cons] at hs ⊢; right; exact hs)
      simp only [leafAt, h0, nestOf, dget, if_true]
      exact ih v _ (by simp) hd' (unflatten_nested (k2 :: r) v (by simp) hd')

theorem dget_map_entryOf (es : List (List Str × Val)) (e : List Str × Val)
    (hne : ∀ x ∈ es, x.1 ≠ []) (hnd : (es.map (fun x => headOf x.1)).Nodup) (he : e ∈ es) :
    dget (es.map entryOf) (headOf e.1) = some (entryOf e).2 := by
  induction es with
  | nil => cases he
  | cons e0 es' ih =>
    simp only [List.map_cons, List.nodup_cons, List.mem_map, not_exists, not_and] at hnd
    simp only [List.mem_cons] at he
    have h0 : (entryOf e0).1 = headOf e0.1 := entryOf_fst e0 (hne e0 (by simp))
    show dget (((entryOf e0).1, (entryOf e0).2) :: es'.map entryOf) (headOf e.1) = _
    rcases he with rfl | he
    · simp [dget, h0]
    · have hne0 : (entryOf e0).1 ≠ headOf e.1 := by rw [h0]; exact fun heq => hnd.1 e he heq.symm
      simp only [dget, hne0, if_false]
      exact ih (fun x hx => hne x (by simp [hx])) hnd.2 he

/-- **`leafAt` on written change sets**: in a change set with one form per top-level field, every edit `(p, v)`
    — written dotted or nested, wherever it stands — is assigned its value: `leafAt ch p = some v`.  (This ties
    `leafAt`, hence `c18_addressed_partial`, to the syntax of multi-key change sets.) -/
theorem leafAt_render (es : List (List Str × Val)) (cs : List Bool) (hl : cs.length = es.length)
    (hes : EditsOk es) (e : List Str × Val) (he : e ∈ es) :
    leafAt (List.zipWith renderOne cs es) e.1 = some e.2 := by
  have hu := unflattenSplit_render es cs hl hes
  have hg := dget_map_entryOf es e (fun x hx => (hes.1 x hx).1) hes.2 he
  obtain ⟨hne, hd⟩ := hes.1 e he
  obtain ⟨p, v⟩ := e
  cases p with
  | nil => exact absurd rfl hne
  | cons k rest =>
    cases rest with
    | nil => simpa [leafAt, hu, headOf, entryOf] using hg
    | cons k2 r =>
      have hd' : DotFree (k2 :: r) := fun s hs => hd s (by simp [List.mem_cons] at hs ⊢; right; exact hs)
      simp only [headOf, List.headD_cons, entryOf] at hg
      simp only [leafAt, hu, hg]
      exact leafAt_of_unflat (k2 :: r) v _ (by simp) hd' (unflatten_nested (k2 :: r) v (by simp) hd')

/-- corollary: **every addressed leaf of a multi-edit change set**, in any mixture of forms, holds its new value
    (D19 exclusion as in `c18_addressed_partial`) -/
theorem c18_addressed_multi (obj r old : Val) (es : List (List Str × Val)) (cs : List Bool)
    (hl : cs.length = es.length) (hes : EditsOk es) (e : List Str × Val) (he : e ∈ es)
    (h : replaceKw obj (List.zipWith renderOne cs es) = .ok r) (hp : getPath obj e.1 = some old)
    (hs : storedAsIs old e.2 = true) : getPath r e.1 = some e.2 :=
  c18_addressed_partial e.1 obj _ r e.2 old h (leafAt_render es cs hl hes e he) hp hs

/-- the top-level lookup of such a change set does not depend on the forms chosen -/
theorem leafAt_render_head (es : List (List Str × Val)) (cs : List Bool) (hl : cs.length = es.length)
    (hes : EditsOk es) (k : Str) :
    (match unflattenSplit (List.zipWith renderOne cs es) with | .ok n => dget n k | .error _ => Option.none) =
      dget (es.map entryOf) k := by
  rw [unflattenSplit_render es cs hl hes]

example : EditsOk [([['m'], ['v']], Val.int 3), ([['z']], Val.int 4)] := by
  refine ⟨?_, by decide⟩
  intro e he
  simp at he
  rcases he with rfl | rfl
  · exact ⟨by simp, by intro s hs; simp at hs; rcases hs with rfl | rfl <;> decide⟩
  · exact ⟨by simp, by intro s hs; simp at hs; subst hs; decide⟩

example : List.zipWith renderOne [true, false] [([['m'], ['v']], Val.int 3), ([['z']], Val.int 4)] =
    [(['m', '.', 'v'], .int 3), (['z'], .int 4)] := by rfl
example : List.zipWith renderOne [false, false] [([['m'], ['v']], Val.int 3), ([['z']], Val.int 4)] =
    [(['m'], .dict [(['v'], .int 3)]), (['z'], .int 4)] := by rfl

end SpVerif.C18
