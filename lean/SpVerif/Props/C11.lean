/-
  C11 — ALWAYS_MERGE distributes one shared option over all merged destinations.
  Theorems about `SpVerif.Model.Merge` (mirrors conflicts.py:317-354, dataclass_wrapper.py:422-445,
  field_wrapper.py:168-229, 354-458, 711-821, utils.py:617-723).  Every statement holds for all
  `n ≥ 2` (no upper bound) and for token lists of any length.
-/
import SpVerif.Model.Merge
namespace SpVerif.C11
open SpVerif SpVerif.Merge

/-! ### `mapE` (first failure wins) -/

theorem mapE_replicate {α β : Type} (f : α → Res β) (a : α) (b : β) (h : f a = .ok b) (n : Nat) :
    mapE f (List.replicate n a) = .ok (List.replicate n b) := by
  induction n with
  | zero => rfl
  | succ k ih => simp [List.replicate_succ, mapE, h, ih]

theorem mapE_replicate_error {α β : Type} (f : α → Res β) (a : α) (e : Err) (h : f a = .error e)
    (n : Nat) (hn : 0 < n) : mapE f (List.replicate n a) = .error e := by
  cases n with
  | zero => omega
  | succ k => simp [List.replicate_succ, mapE, h]

theorem mapE_length {α β : Type} (f : α → Res β) (l : List α) (r : List β) (h : mapE f l = .ok r) :
    r.length = l.length := by
  induction l generalizing r with
  | nil => simp [mapE] at h; subst h; rfl
  | cons a as ih =>
    simp only [mapE] at h
    cases hfa : f a with
    | error e => rw [hfa] at h; cases h
    | ok b =>
      rw [hfa] at h
      cases hr : mapE f as with
      | error e => rw [hr] at h; cases h
      | ok bs =>
        rw [hr] at h
        simp only [Except.ok.injEq] at h
        subst h
        simp [ih bs hr]

/-- position-wise reading of a successful `mapE` -/
theorem mapE_getElem {α β : Type} (f : α → Res β) (l : List α) (r : List β) (h : mapE f l = .ok r)
    (i : Nat) (hi : i < l.length) (hi' : i < r.length) : f l[i] = .ok r[i] := by
  induction l generalizing r i with
  | nil => simp at hi
  | cons a as ih =>
    simp only [mapE] at h
    cases hfa : f a with
    | error e => rw [hfa] at h; cases h
    | ok b =>
      rw [hfa] at h
      cases hr : mapE f as with
      | error e => rw [hr] at h; cases h
      | ok bs =>
        rw [hr] at h
        simp only [Except.ok.injEq] at h
        subst h
        cases i with
        | zero => simpa using hfa
        | succ j =>
          simp only [List.getElem_cons_succ]
          exact ih bs hr j (by simpa using hi) (by simpa using hi')

theorem mapE_mem {α β : Type} (f : α → Res β) (l : List α) (r : List β) (h : mapE f l = .ok r)
    (b : β) (hb : b ∈ r) : ∃ a ∈ l, f a = .ok b := by
  obtain ⟨i, hi, rfl⟩ := List.getElem_of_mem hb
  have hl := mapE_length f l r h
  exact ⟨l[i]'(by omega), List.getElem_mem _, mapE_getElem f l r h i (by omega) hi⟩

theorem mapE_id {α : Type} (f : α → Res α) (l : List α) (h : ∀ a ∈ l, f a = .ok a) :
    mapE f l = .ok l := by
  induction l with
  | nil => rfl
  | cons a as ih =>
    simp [mapE, h a (by simp), ih (fun x hx => h x (by simp [hx]))]

/-! ### `duplicate_if_needed` -/

theorem shortcut_none_of_length (fty : FieldTy) (n : Nat) (vs : List Val) (h : vs.length ≠ 1) :
    shortcut fty n vs = none := by
  unfold shortcut
  split
  · split
    · simp at h
    · rfl
  · rfl

theorem shortcut_none_of_container (fty : FieldTy) (n : Nat) (vs : List Val)
    (hc : fty.isContainer = true) : shortcut fty n vs = none := by
  unfold shortcut
  have : (!fty.isTuple && !fty.isList) = false := by
    simp only [FieldTy.isContainer] at hc
    cases h1 : fty.isTuple <;> cases h2 : fty.isList <;> simp_all
  simp [this]

theorem shortcut_none_of_flat (fty : FieldTy) (n : Nat) (v : Val) (h0 : v.nesting = 0) :
    shortcut fty n [v] = none := by
  unfold shortcut
  have : nestingLevel [v] = 1 := by simp [nestingLevel, h0]
  simp [this]

/-- with exactly `n ≥ 2` parsed values nothing is duplicated or re-grouped, whatever the field type -/
theorem duplicate_n (fty : FieldTy) (n : Nat) (vs : List Val) (hn : 2 ≤ n) (hl : vs.length = n) :
    duplicate fty n vs = .ok vs := by
  unfold duplicate
  rw [shortcut_none_of_length fty n vs (by omega)]
  simp [hl]

/-- one parsed value that is not a container itself (or any value, for a list/tuple field) is handed
    to every destination -/
theorem duplicate_one (fty : FieldTy) (n : Nat) (v : Val) (hn : 2 ≤ n)
    (hv : fty.isContainer = false → v.nesting = 0) :
    duplicate fty n [v] = .ok (List.replicate n v) := by
  unfold duplicate
  have hs : shortcut fty n [v] = none := by
    cases hc : fty.isContainer with
    | true => exact shortcut_none_of_container fty n [v] hc
    | false => exact shortcut_none_of_flat fty n v (hv hc)
  rw [hs]
  have : ¬ (1 = n) := by omega
  simp [this]

/-- any other number of parsed values is an `InconsistentArgumentError` -/
theorem duplicate_other (fty : FieldTy) (n : Nat) (vs : List Val) (h1 : vs.length ≠ 1)
    (hn : vs.length ≠ n) : duplicate fty n vs = .error (.raise .inconsistentArgumentError) := by
  unfold duplicate
  rw [shortcut_none_of_length fty n vs h1]
  simp only [hn, ↓reduceIte]
  split
  · simp at h1
  · rfl

/-! ### what the `type=` callable of a scalar field returns -/

theorem parseScalarTok_sc (t : ItemTy) (tok : Tok) (v : Val) (h : parseScalarTok t tok = .ok v) :
    v.nesting = 0 := by
  unfold parseScalarTok at h
  split at h
  · split at h
    · simp only [Except.ok.injEq] at h; subst h; rfl
    · cases h
  · split at h
    · simp only [Except.ok.injEq] at h; subst h; rfl
    · cases h
    · cases h

theorem parseTok_scalar_nesting (fty : FieldTy) (tok : Tok) (v : Val) (h : parseTok fty tok = .ok v)
    (hc : fty.isContainer = false) : v.nesting = 0 := by
  cases fty with
  | scalar t => exact parseScalarTok_sc t tok v h
  | list t => simp [FieldTy.isContainer, FieldTy.isList] at hc
  | tuple ts => simp [FieldTy.isContainer, FieldTy.isList, FieldTy.isTuple] at hc
  | vtuple t => simp [FieldTy.isContainer, FieldTy.isList, FieldTy.isTuple] at hc

/-! ### the option is given: one value, n values, any other number -/

/-- **n values**: with exactly `n` tokens the i-th destination (registration order = position in
    `destinations`) receives the post-processed parse of the i-th token — for every field type. -/
theorem c11_n (fty : FieldTy) (n : Nat) (src : DefaultSrc) (toks : List Tok) (vs : List Val)
    (d : Option (List Val)) (hn : 2 ≤ n) (hk : toks.length = n)
    (hsetup : setupDefault fty n src = .ok d)
    (hparse : mapE (parseTok fty) toks = .ok vs) :
    runField fty n src (some toks) = mapE (postprocess fty) vs := by
  have hl : vs.length = n := by rw [mapE_length _ _ _ hparse, hk]
  have hne : toks.isEmpty = false := by
    cases toks with
    | nil => simp at hk; omega
    | cons a as => rfl
  simp only [runField, hsetup, argparseValues, hne, Bool.and_false, Bool.false_eq_true, ↓reduceIte,
    hparse, distribute, duplicate_n fty n vs hn hl]
  rw [List.take_of_length_le (by omega)]

/-- position-wise form of `c11_n` -/
theorem c11_n_index (fty : FieldTy) (n : Nat) (src : DefaultSrc) (toks : List Tok) (out : List Val)
    (d : Option (List Val)) (hn : 2 ≤ n) (hk : toks.length = n)
    (hsetup : setupDefault fty n src = .ok d)
    (hrun : runField fty n src (some toks) = .ok out) :
    out.length = n ∧ ∀ i (hi : i < toks.length) (ho : i < out.length),
      ∃ v, parseTok fty toks[i] = .ok v ∧ postprocess fty v = .ok out[i] := by
  have hne : toks.isEmpty = false := by
    cases toks with
    | nil => simp at hk; omega
    | cons a as => rfl
  cases hparse : mapE (parseTok fty) toks with
  | error e =>
    simp [runField, hsetup, argparseValues, hne, hparse] at hrun
  | ok vs =>
    rw [c11_n fty n src toks vs d hn hk hsetup hparse] at hrun
    have hl1 := mapE_length _ _ _ hparse
    have hl2 := mapE_length _ _ _ hrun
    refine ⟨by omega, ?_⟩
    intro i hi ho
    exact ⟨vs[i]'(by omega), mapE_getElem _ _ _ hparse i hi (by omega),
      mapE_getElem _ _ _ hrun i (by omega) ho⟩

/-- **one value**: a single token is parsed once and every destination receives that value -/
theorem c11_one (fty : FieldTy) (n : Nat) (src : DefaultSrc) (tok : Tok) (v v' : Val)
    (d : Option (List Val)) (hn : 2 ≤ n)
    (hsetup : setupDefault fty n src = .ok d)
    (hparse : parseTok fty tok = .ok v) (hpost : postprocess fty v = .ok v') :
    runField fty n src (some [tok]) = .ok (List.replicate n v') := by
  have hdup := duplicate_one fty n v hn (parseTok_scalar_nesting fty tok v hparse)
  simp only [runField, hsetup, argparseValues, List.isEmpty_cons, Bool.and_false, Bool.false_eq_true,
    ↓reduceIte, mapE, hparse, distribute, hdup]
  rw [List.take_of_length_le (by simp)]
  exact mapE_replicate _ _ _ hpost n

/-- **any other number of values** (including the option given with no value at all, when the
    field has a default) raises `InconsistentArgumentError` — for every field type -/
theorem c11_other (fty : FieldTy) (n : Nat) (src : DefaultSrc) (toks : List Tok) (vs : List Val)
    (d : Option (List Val)) (h1 : toks.length ≠ 1) (hk : toks.length ≠ n)
    (hreq : ¬ (isRequired src = true ∧ toks = []))
    (hsetup : setupDefault fty n src = .ok d)
    (hparse : mapE (parseTok fty) toks = .ok vs) :
    runField fty n src (some toks) = .error (.raise .inconsistentArgumentError) := by
  have hl := mapE_length _ _ _ hparse
  have hg : (isRequired src && toks.isEmpty) = false := by
    cases hr : isRequired src <;> cases toks <;> simp_all
  simp only [runField, hsetup, argparseValues, hg, Bool.false_eq_true, ↓reduceIte, hparse, distribute,
    duplicate_other fty n vs (by omega) (by omega)]

/-- a required field (no default) given without a value is rejected by argparse (`nargs='+'`) -/
theorem c11_zero_required (fty : FieldTy) (n : Nat) :
    runField fty n (.field none) (some []) = .error (.exit2 .nargs) := by
  simp [runField, setupDefault, rawDefault, argparseValues, isRequired]

/-! ### the option is absent -/

/-- a scalar default of the field's own type (for an enum field: a member) -/
def WellTypedScalar (t : ItemTy) (s : Scalar) : Prop :=
  ∀ ms, t = .enum ms → ∃ nm, s = .enum nm ∧ nm ∈ ms

/-- what `argDefault` does to one entry (enum members are handed to argparse by name) -/
def argDefault1 (fty : FieldTy) (v : Val) : Val :=
  match fty, v with
  | .scalar (.enum _), .sc (.enum nm) => .sc (.str nm)
  | _, v => v

theorem argDefault1_id (fty : FieldTy) (h : ∀ ms, fty ≠ .scalar (.enum ms)) (v : Val) :
    argDefault1 fty v = v := by
  unfold argDefault1
  split
  · rename_i ms _; exact absurd rfl (h ms)
  · rfl

theorem argDefault_eq_map (fty : FieldTy) (p : List Val) : argDefault fty p = p.map (argDefault1 fty) := by
  cases fty with
  | scalar t =>
    cases t with
    | enum ms =>
      simp only [argDefault]
      apply List.map_congr_left
      intro v _
      cases v with
      | sc s => cases s <;> rfl
      | list l => rfl
      | tuple l => rfl
    | int =>
      have hid : ∀ v, argDefault1 (.scalar .int) v = v := argDefault1_id _ (by intro ms h; cases h)
      simp only [argDefault]; rw [List.map_congr_left (g := id) (fun v _ => hid v)]; simp
    | float =>
      have hid : ∀ v, argDefault1 (.scalar .float) v = v := argDefault1_id _ (by intro ms h; cases h)
      simp only [argDefault]; rw [List.map_congr_left (g := id) (fun v _ => hid v)]; simp
    | str =>
      have hid : ∀ v, argDefault1 (.scalar .str) v = v := argDefault1_id _ (by intro ms h; cases h)
      simp only [argDefault]; rw [List.map_congr_left (g := id) (fun v _ => hid v)]; simp
    | bool =>
      have hid : ∀ v, argDefault1 (.scalar .bool) v = v := argDefault1_id _ (by intro ms h; cases h)
      simp only [argDefault]; rw [List.map_congr_left (g := id) (fun v _ => hid v)]; simp
  | list t =>
    have hid : ∀ v, argDefault1 (.list t) v = v := argDefault1_id _ (by intro ms h; cases h)
    simp only [argDefault]; rw [List.map_congr_left (g := id) (fun v _ => hid v)]; simp
  | tuple ts =>
    have hid : ∀ v, argDefault1 (.tuple ts) v = v := argDefault1_id _ (by intro ms h; cases h)
    simp only [argDefault]; rw [List.map_congr_left (g := id) (fun v _ => hid v)]; simp
  | vtuple t =>
    have hid : ∀ v, argDefault1 (.vtuple t) v = v := argDefault1_id _ (by intro ms h; cases h)
    simp only [argDefault]; rw [List.map_congr_left (g := id) (fun v _ => hid v)]; simp

/-- a default VALUE OF THE FIELD'S OWN TYPE: handing it to argparse (enum by name) and
    post-processing what comes back reproduces it. Holds for every well-typed scalar
    (`stable_scalar`) and every list / tuple of the field's container kind, of ANY length
    (`stable_container`). -/
def StableDefault (fty : FieldTy) (v : Val) : Prop := postprocess fty (argDefault1 fty v) = .ok v

instance (fty : FieldTy) (v : Val) : Decidable (StableDefault fty v) := by
  unfold StableDefault; exact inferInstance

theorem stable_scalar (t : ItemTy) (s : Scalar) (h : WellTypedScalar t s) :
    StableDefault (.scalar t) (.sc s) := by
  unfold StableDefault
  cases t with
  | enum ms =>
    obtain ⟨nm, rfl, hnm⟩ := h ms rfl
    simp [argDefault1, postprocess, hnm]
  | int => cases s <;> rfl
  | float => cases s <;> rfl
  | str => cases s <;> rfl
  | bool => cases s <;> rfl

theorem post_mkContainer (fty : FieldTy) (l : List Scalar) (hc : fty.isContainer = true) :
    postprocess fty (mkContainer fty l) = .ok (mkContainer fty l) := by
  cases fty with
  | scalar t => simp [FieldTy.isContainer, FieldTy.isList, FieldTy.isTuple] at hc
  | list t => simp [mkContainer, FieldTy.isTuple, postprocess]
  | tuple ts => simp [mkContainer, FieldTy.isTuple, postprocess]
  | vtuple t => simp [mkContainer, FieldTy.isTuple, postprocess]

theorem stable_container (fty : FieldTy) (l : List Scalar) (hc : fty.isContainer = true) :
    StableDefault fty (mkContainer fty l) := by
  unfold StableDefault
  have : argDefault1 fty (mkContainer fty l) = mkContainer fty l := by
    cases fty with
    | scalar t => simp [FieldTy.isContainer, FieldTy.isList, FieldTy.isTuple] at hc
    | list t => rfl
    | tuple ts => rfl
    | vtuple t => rfl
  rw [this]
  exact post_mkContainer fty l hc

theorem mapE_map_id {α : Type} (f : α → Res α) (g : α → α) (l : List α)
    (h : ∀ a ∈ l, f (g a) = .ok a) : mapE f (l.map g) = .ok l := by
  induction l with
  | nil => rfl
  | cons a as ih =>
    simp [mapE, h a (by simp), ih (fun x hx => h x (by simp [hx]))]

/-- n packaged defaults are handed out position by position -/
theorem distribute_defaults (fty : FieldTy) (n : Nat) (ds : List Val) (hn : 2 ≤ n)
    (hl : ds.length = n) : distribute fty n ds = mapE (postprocess fty) ds := by
  simp only [distribute, duplicate_n fty n ds hn hl]
  rw [List.take_of_length_le (by omega)]

/-- **absent, the field has a default** — every field type (scalar, list, tuple), any default of
    the field's type (a list or tuple of ANY length, also length n), any n ≥ 2: every destination
    gets the dataclass default, whole. -/
theorem c11_absent (fty : FieldTy) (v : Val) (n : Nat) (hn : 2 ≤ n) (h : StableDefault fty v) :
    runField fty n (.field (some v)) none = .ok (List.replicate n v) := by
  have hpack : setupDefault fty n (.field (some v))
      = .ok (some (argDefault fty (List.replicate n v))) := by
    simp [setupDefault, rawDefault, defaultPack]
  simp only [runField, hpack]
  rw [argDefault_eq_map, distribute_defaults _ _ _ hn (by simp), List.map_replicate]
  exact mapE_replicate _ _ _ h n

/-- scalar instance of `c11_absent` -/
theorem c11_absent_scalar (t : ItemTy) (s : Scalar) (n : Nat) (hn : 2 ≤ n) (h : WellTypedScalar t s) :
    runField (.scalar t) n (.field (some (.sc s))) none = .ok (List.replicate n (.sc s)) :=
  c11_absent _ _ n hn (stable_scalar t s h)

/-- list / tuple instance of `c11_absent`: the default container is never taken apart, whatever
    its length (the former D12 case `l.length = n` included) -/
theorem c11_absent_container (fty : FieldTy) (l : List Scalar) (n : Nat) (hn : 2 ≤ n)
    (hc : fty.isContainer = true) :
    runField fty n (.field (some (mkContainer fty l))) none
      = .ok (List.replicate n (mkContainer fty l)) :=
  c11_absent _ _ n hn (stable_container fty l hc)

/-- **absent, per-destination default instances** (`add_arguments(..., default=inst)` at every
    destination, or nested members with default instances): destination `i` gets the attribute of
    ITS default instance — every field type -/
theorem c11_absent_parents (fty : FieldTy) (ds : List Val) (n : Nat) (hn : 2 ≤ n)
    (hl : ds.length = n) (h : ∀ v ∈ ds, StableDefault fty v) :
    runField fty n (.parents ds) none = .ok ds := by
  have hraw : rawDefault (.parents ds) = some (ds, true) := by
    match ds, hl with
    | [], hl => simp at hl; omega
    | [a], hl => simp at hl; omega
    | a :: b :: r, _ => rfl
  have hne : (DefaultSrc.parents ds = DefaultSrc.parents []) = False := by
    simp only [DefaultSrc.parents.injEq, eq_iff_iff, iff_false]
    intro he; subst he; simp at hl; omega
  have hpack : setupDefault fty n (.parents ds) = .ok (some (argDefault fty ds)) := by
    simp [setupDefault, hne, hraw, defaultPack, hl]
  simp only [runField, hpack]
  rw [argDefault_eq_map, distribute_defaults _ _ _ hn (by simp [hl])]
  exact mapE_map_id _ _ _ h

/-- **absent, no default**: argparse rejects the command line (the option is required) -/
theorem c11_absent_required (fty : FieldTy) (n : Nat) :
    runField fty n (.field none) none = .error (.exit2 .required) := by
  simp [runField, setupDefault, rawDefault]

/-! ### list / tuple fields: every token is one whole container -/

theorem fallbackParse_container (fty : FieldTy) (tok : Tok) (v : Val)
    (h : fallbackParse fty tok = .ok v) : ∃ l, v = mkContainer fty l := by
  unfold fallbackParse at h
  split at h
  · simp only [Except.ok.injEq] at h; exact ⟨_, h.symm⟩
  · cases h

/-- EVERY token parses to a whole container of the field's kind -/
theorem parseContainerTok_container (fty : FieldTy) (tok : Tok) (v : Val)
    (h : parseContainerTok fty tok = .ok v) : ∃ l, v = mkContainer fty l := by
  unfold parseContainerTok at h
  cases tok with
  | bare w =>
    simp only at h
    split at h
    · cases h
    · exact fallbackParse_container fty _ v h
    · split at h
      · cases h
      · cases h
      · exact fallbackParse_container fty _ v h
      · simp only [Except.ok.injEq] at h; exact ⟨_, h.symm⟩
  | spaced ws => exact fallbackParse_container fty _ v h
  | comma ws =>
    simp only at h
    split at h
    · cases h
    · cases h
    · exact fallbackParse_container fty _ v h
    · split at h
      · cases h
      · cases h
      · exact fallbackParse_container fty _ v h
      · simp only [Except.ok.injEq] at h; exact ⟨_, h.symm⟩
  | bracket sq ws =>
    simp only at h
    split at h
    · cases h
    · cases h
    · exact fallbackParse_container fty _ v h
    · split at h
      · cases h
      · cases h
      · exact fallbackParse_container fty _ v h
      · simp only [Except.ok.injEq] at h; exact ⟨_, h.symm⟩

theorem parseTok_container (fty : FieldTy) (hc : fty.isContainer = true) (tok : Tok) (v : Val)
    (h : parseTok fty tok = .ok v) : ∃ l, v = mkContainer fty l := by
  cases fty with
  | scalar t => simp [FieldTy.isContainer, FieldTy.isList, FieldTy.isTuple] at hc
  | list t => exact parseContainerTok_container _ tok v h
  | tuple ts => exact parseContainerTok_container _ tok v h
  | vtuple t => exact parseContainerTok_container _ tok v h

/-- **a bare item is a one-element container**: a token that is one Python-literal word (`4`,
    `1.5`, `True`) which the item parser accepts gives `[item]` / `(item,)` -/
theorem c11_bare_item_singleton (fty : FieldTy) (w : Str) (l : Lit) (s : Scalar)
    (hw : classify w = .lit l) (hconv : convLit fty.itemTy l = .ok (some s)) :
    parseContainerTok fty (.bare w) = .ok (mkContainer fty [s]) := by
  simp [parseContainerTok, hw, hconv]

/-- **whole containers**: every destination of a list / tuple field receives a whole container
    of the field's kind — with n tokens the i-th token's container, with one token that token's
    container (`c11_n`, `c11_one`), never an element of it. Any n, any number and shape of tokens. -/
theorem c11_whole_containers (fty : FieldTy) (n : Nat) (src : DefaultSrc) (toks : List Tok)
    (out : List Val) (hc : fty.isContainer = true)
    (hrun : runField fty n src (some toks) = .ok out) :
    ∀ v ∈ out, ∃ l, v = mkContainer fty l := by
  cases hsetup : setupDefault fty n src with
  | error e => simp [runField, hsetup] at hrun
  | ok d =>
    cases hargs : argparseValues fty (isRequired src) toks with
    | error e => simp [runField, hsetup, hargs] at hrun
    | ok vs =>
      simp only [runField, hsetup, hargs, distribute] at hrun
      have hparse : mapE (parseTok fty) toks = .ok vs := by
        unfold argparseValues at hargs
        split at hargs
        · cases hargs
        · exact hargs
      have hvs : ∀ v ∈ vs, ∃ l, v = mkContainer fty l := by
        intro v hv
        obtain ⟨tok, _, hp⟩ := mapE_mem _ _ _ hparse v hv
        exact parseTok_container fty hc tok v hp
      cases hdup : duplicate fty n vs with
      | error e => simp [hdup] at hrun
      | ok ws =>
        simp only [hdup] at hrun
        have hws : ∀ v ∈ ws, ∃ l, v = mkContainer fty l := by
          unfold duplicate at hdup
          rw [shortcut_none_of_container fty n vs hc] at hdup
          simp only at hdup
          split at hdup
          · simp only [Except.ok.injEq] at hdup; subst hdup; exact hvs
          · split at hdup
            · rename_i v0
              simp only [Except.ok.injEq] at hdup; subst hdup
              intro v hv
              have := (List.mem_replicate.mp hv).2
              subst this
              exact hvs _ (by simp)
            · cases hdup
        intro v hv
        obtain ⟨w, hw, hp⟩ := mapE_mem _ _ _ hrun v hv
        obtain ⟨l, rfl⟩ := hws w (List.mem_of_mem_take hw)
        rw [post_mkContainer fty l hc] at hp
        simp only [Except.ok.injEq] at hp
        exact ⟨l, hp.symm⟩

/-- the same for the absent option: the destinations receive whole default containers -/
theorem c11_whole_containers_absent (fty : FieldTy) (l : List Scalar) (n : Nat) (hn : 2 ≤ n)
    (hc : fty.isContainer = true) (out : List Val)
    (hrun : runField fty n (.field (some (mkContainer fty l))) none = .ok out) :
    ∀ v ∈ out, v = mkContainer fty l := by
  rw [c11_absent_container fty l n hn hc] at hrun
  simp only [Except.ok.injEq] at hrun
  subst hrun
  intro v hv
  exact (List.mem_replicate.mp hv).2

/-! ### the whole-parse model used by the correspondence check reduces to `runField` -/

def wrap1 : Res (List Val) → Res (List (List Val))
  | .ok x => .ok [x]
  | .error e => .error e

/-- one field, option given once: `runCase` (set-up, argparse, required check, distribution) is `runField` -/
theorem runCase_single_given (fty : FieldTy) (n : Nat) (src : DefaultSrc) (toks : List Tok) :
    runCase n [⟨fty, src⟩] [(0, toks)] = wrap1 (runField fty n src (some toks)) := by
  unfold runCase runField
  simp only [setupAll]
  cases hs : setupDefault fty n src with
  | error e => rfl
  | ok d =>
    simp only [argparseAll, List.getElem?_cons_zero]
    cases ha : argparseValues fty (isRequired src) toks with
    | error e => rfl
    | ok vs =>
      simp only [storedAll, lookupLast, ↓reduceIte, distributeAll]
      cases distribute fty n vs <;> rfl

/-- one field, option absent -/
theorem runCase_single_absent (fty : FieldTy) (n : Nat) (src : DefaultSrc) :
    runCase n [⟨fty, src⟩] [] = wrap1 (runField fty n src none) := by
  unfold runCase runField
  simp only [setupAll]
  cases hs : setupDefault fty n src with
  | error e => rfl
  | ok d =>
    simp only [argparseAll]
    cases d with
    | none => rfl
    | some dv =>
      simp only [storedAll, lookupLast, distributeAll]
      cases distribute fty n dv <;> rfl

/-! ### registration order of the merged destinations (`DataclassWrapper.merge`) -/

theorem appendNew_nodup (acc ds : List Str) (h : (acc ++ ds).Nodup) : appendNew acc ds = acc ++ ds := by
  induction ds generalizing acc with
  | nil => simp [appendNew]
  | cons d r ih =>
    have hd : d ∉ acc := by
      intro hm
      have := List.nodup_append.mp h
      exact this.2.2 d hm d (by simp) rfl
    simp only [appendNew, hd, ↓reduceIte]
    have : (acc ++ [d] ++ r).Nodup := by simpa using h
    rw [ih (acc ++ [d]) this]
    simp

/-- a wrapper without nested members, registered at destination `d`, carrying default instances `f` -/
def leafW (d : Str) (f : List Nat) : DW := .mk [d] f []

theorem extendDefaults_assoc (root : Bool) (f r rest : List Nat) :
    extendDefaults root (extendDefaults root f r) rest = extendDefaults root f (r ++ rest) := by
  unfold extendDefaults
  cases root <;> cases f <;> simp

theorem mergeAll_leaves (root : Bool) (acc : List Str) (f : List Nat) (regs : List (Str × List Nat))
    (h : (acc ++ regs.map (·.1)).Nodup) :
    mergeAll root (.mk acc f []) (regs.map (fun r => leafW r.1 r.2))
      = .mk (acc ++ regs.map (·.1)) (extendDefaults root f (regs.map (·.2)).flatten) [] := by
  induction regs generalizing acc f with
  | nil => cases root <;> cases f <;> simp [mergeAll, extendDefaults]
  | cons r rs ih =>
    have hd : r.1 ∉ acc := by
      intro hm
      have := List.nodup_append.mp h
      exact this.2.2 r.1 hm r.1 (by simp) rfl
    have h' : ((acc ++ [r.1]) ++ rs.map (·.1)).Nodup := by simpa using h
    have := ih (acc ++ [r.1]) (extendDefaults root f r.2) h'
    simp only [mergeAll, List.map_cons, List.foldl_cons] at this ⊢
    simp only [leafW, DW.merge, appendNew, hd, ↓reduceIte, mergeChildren]
    simp only [leafW] at this
    rw [this, extendDefaults_assoc]
    simp

/-- **registration order**: the same class registered at n pairwise different destinations
    `d₀ … d_{n-1}` (any n) is merged into ONE wrapper whose destinations are exactly
    `d₀ … d_{n-1}` in registration order; the default instances follow in the same order
    (for directly registered classes only if the FIRST registration has one: otherwise the code
    drops them all — see `extendDefaults`). -/
theorem c11_registration_order (root : Bool) (d0 : Str) (f0 : List Nat) (regs : List (Str × List Nat))
    (h : (d0 :: regs.map (·.1)).Nodup) :
    (mergeAll root (leafW d0 f0) (regs.map (fun r => leafW r.1 r.2))).dests = d0 :: regs.map (·.1)
    ∧ (mergeAll root (leafW d0 f0) (regs.map (fun r => leafW r.1 r.2))).defaults
        = extendDefaults root f0 (regs.map (·.2)).flatten := by
  have := mergeAll_leaves root [d0] f0 regs (by simpa using h)
  simp only [leafW] at this ⊢
  rw [this]
  exact ⟨rfl, rfl⟩

/-- every registration carries a default instance: none is lost, the order is kept -/
theorem c11_registration_order_defaults (root : Bool) (d0 : Str) (i0 : Nat) (regs : List (Str × List Nat))
    (h : (d0 :: regs.map (·.1)).Nodup) :
    (mergeAll root (leafW d0 [i0]) (regs.map (fun r => leafW r.1 r.2))).defaults
        = i0 :: (regs.map (·.2)).flatten := by
  rw [(c11_registration_order root d0 [i0] regs h).2]
  cases root <;> simp [extendDefaults]

/-! ### non-vacuity: the hypotheses are satisfiable by non-trivial inputs -/

-- c11_n: three destinations, three different int tokens
example : runField (.scalar .int) 3 (.field (some (.sc (.int 1))))
    (some [.bare "5".toList, .bare "-6".toList, .bare "7".toList])
    = .ok [.sc (.int 5), .sc (.int (-6)), .sc (.int 7)] := by decide
-- c11_n for a list field: whole containers in three different token shapes
example : runField (.list .int) 3 (.field (some (.list [.int 1, .int 2, .int 3])))
    (some [.bracket true ["4".toList, "5".toList], .spaced ["6".toList, "7".toList], .comma ["8".toList, "9".toList]])
    = .ok [.list [.int 4, .int 5], .list [.int 6, .int 7], .list [.int 8, .int 9]] := by decide
-- c11_one: an enum field (parsed by name, choices checked, converted in postprocess)
example : runField (.scalar (.enum ["RED".toList, "BLUE".toList])) 4 (.field (some (.sc (.enum "RED".toList))))
    (some [.bare "BLUE".toList]) = .ok (List.replicate 4 (.sc (.enum "BLUE".toList))) := by decide
-- c11_other: two values for three destinations
example : runField (.scalar .bool) 3 (.field (some (.sc (.bool false))))
    (some [.bare "true".toList, .bare "no".toList]) = .error (.raise .inconsistentArgumentError) := by decide
-- c11_other: the option given with no value although the field has a default
example : runField (.scalar .bool) 2 (.field (some (.sc (.bool false)))) (some [])
    = .error (.raise .inconsistentArgumentError) := by decide
-- c11_absent: a well-typed enum default
example : WellTypedScalar (.enum ["RED".toList, "BLUE".toList]) (.enum "BLUE".toList) := by
  intro ms h; cases h; exact ⟨_, rfl, by simp⟩
example : runField (.scalar .str) 5 (.field (some (.sc (.str "x".toList)))) none
    = .ok (List.replicate 5 (.sc (.str "x".toList))) := by decide
example : StableDefault (.list .int) (.list [.int 1, .int 2]) := by decide
-- c11_absent_parents: three sibling members / registrations with different default instances
example : runField (.scalar .int) 3 (.parents [.sc (.int 1), .sc (.int 5), .sc (.int 1)]) none
    = .ok [.sc (.int 1), .sc (.int 5), .sc (.int 1)] := by decide
example : runField (.list .int) 2 (.parents [.list [.int 1, .int 2], .list [.int 3]]) none
    = .ok [.list [.int 1, .int 2], .list [.int 3]] := by decide
-- default instances at only some destinations: the packaging assertion of the code fails
example : runField (.scalar .int) 3 (.parents [.sc (.int 1), .sc (.int 5)]) none
    = .error (.raise .assertionError) := by decide
-- regression (former D12, repaired by 8cfbe97): a list default of length n is NOT split
example : runField (.list .int) 2 (.field (some (.list [.int 1, .int 2]))) none
    = .ok [.list [.int 1, .int 2], .list [.int 1, .int 2]] := by decide
example : runField (.tuple [.int, .int]) 2 (.field (some (.tuple [.int 3, .int 4]))) none
    = .ok [.tuple [.int 3, .int 4], .tuple [.int 3, .int 4]] := by decide
-- regression (former D13, repaired by 30c2aa6): bare items are one-element containers
example : runField (.list .int) 2 (.field none) (some [.bare "4".toList])
    = .ok [.list [.int 4], .list [.int 4]] := by decide
example : runField (.list .int) 2 (.field none) (some [.bare "4".toList, .bare "5".toList])
    = .ok [.list [.int 4], .list [.int 5]] := by decide
example : runField (.tuple [.int, .int]) 2 (.field none) (some [.bare "3".toList, .bare "4".toList])
    = .ok [.tuple [.int 3], .tuple [.int 4]] := by decide
-- c11_whole_containers: mixed token shapes
example : runField (.list .str) 2 (.field none) (some [.bare "abc".toList, .spaced ["a".toList, "b".toList]])
    = .ok [.list [.str "abc".toList], .list [.str "a".toList, .str "b".toList]] := by decide
-- c11_registration_order: three registrations
example : (mergeAll true (leafW "a".toList []) ([("b".toList, []), ("c".toList, [])].map (fun r => leafW r.1 r.2))).dests
    = ["a".toList, "b".toList, "c".toList] := by decide
-- nested members merged pair-wise (P{m:C} at two destinations, the P wrappers merge first)
example : DW.merge true (.mk ["a".toList] [] [leafW "a.m".toList [0]]) (.mk ["b".toList] [] [leafW "b.m".toList [1]])
    = .mk ["a".toList, "b".toList] [] [.mk ["a.m".toList, "b.m".toList] [0, 1] []] := by
  simp [DW.merge, mergeChildren, leafW, appendNew, extendDefaults]

end SpVerif.C11
