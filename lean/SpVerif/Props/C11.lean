/-
  C11 — ALWAYS_MERGE distributes one shared option over all merged destinations.
  Theorems about `SpVerif.Model.Merge` (mirrors conflicts.py:317-354, dataclass_wrapper.py:422-445,
  field_wrapper.py:168-229, 354-458, 711-821, utils.py:617-723).  Every statement holds for all
  `n ≥ 2` (no upper bound) and for token lists of any length.
-/
import SpVerif.Model.Merge
namespace SpVerif.C11
open SpVerif SpVerif.Merge

/-! ### `mapE` (first failure wins) -/

theorem mapE_replicate {α β : Type} (f : α → Res β) (a : α) (b : β) (h : f a = .ok b) (n : Nat) :
    mapE f (List.replicate n a) = .ok (List.replicate n b) := by
  induction n with
  | zero => rfl
  | succ k ih => simp [List.replicate_succ, mapE, h, ih]

theorem mapE_replicate_error {α β : Type} (f : α → Res β) (a : α) (e : Err) (h : f a = .error e)
    (n : Nat) (hn : 0 < n) : mapE f (List.replicate n a) = .error e := by
  cases n with
  | zero => omega
  | succ k => simp [List.replicate_succ, mapE, h]

theorem mapE_length {α β : Type} (f : α → Res β) (l : List α) (r : List β) (h : mapE f l = .ok r) :
    r.length = l.length := by
  induction l generalizing r with
  | nil => simp [mapE] at h; subst h; rfl
  | cons a as ih =>
    simp only [mapE] at h
    cases hfa : f a with
    | error e => rw [hfa] at h; cases h
    | ok b =>
      rw [hfa] at h
      cases hr : mapE f as with
      | error e => rw [hr] at h; cases h
      | ok bs =>
        rw [hr] at h
        simp only [Except.ok.injEq] at h
        subst h
        simp [ih bs hr]

/-- position-wise reading of a successful `mapE` -/
theorem mapE_getElem {α β : Type} (f : α → Res β) (l : List α) (r : List β) (h : mapE f l = .ok r)
    (i : Nat) (hi : i < l.length) (hi' : i < r.length) : f l[i] = .ok r[i] := by
  induction l generalizing r i with
  | nil => simp at hi
  | cons a as ih =>
    simp only [mapE] at h
    cases hfa : f a with
    | error e => rw [hfa] at h; cases h
    | ok b =>
      rw [hfa] at h
      cases hr : mapE f as with
      | error e => rw [hr] at h; cases h
      | ok bs =>
        rw [hr] at h
        simp only [Except.ok.injEq] at h
        subst h
        cases i with
        | zero => simpa using hfa
        | succ j =>
          simp only [List.getElem_cons_succ]
          exact ih bs hr j (by simpa using hi) (by simpa using hi')

theorem mapE_mem {α β : Type} (f : α → Res β) (l : List α) (r : List β) (h : mapE f l = .ok r)
    (b : β) (hb : b ∈ r) : ∃ a ∈ l, f a = .ok b := by
  obtain ⟨i, hi, rfl⟩ := List.getElem_of_mem hb
  have hl := mapE_length f l r h
  exact ⟨l[i]'(by omega), List.getElem_mem _, mapE_getElem f l r h i (by omega) hi⟩

theorem mapE_id {α : Type} (f : α → Res α) (l : List α) (h : ∀ a ∈ l, f a = .ok a) :
    mapE f l = .ok l := by
  induction l with
  | nil => rfl
  | cons a as ih =>
    simp [mapE, h a (by simp), ih (fun x hx => h x (by simp [hx]))]

/-! ### `duplicate_if_needed` -/

theorem shortcut_none_of_length (fty : FieldTy) (n : Nat) (vs : List Val) (h : vs.length ≠ 1) :
    shortcut fty n vs = none := by
  unfold shortcut
  split
  · split
    · simp at h
    · rfl
  · rfl

theorem shortcut_none_of_container (fty : FieldTy) (n : Nat) (vs : List Val)
    (hc : fty.isContainer = true) : shortcut fty n vs = none := by
  unfold shortcut
  have : (!fty.isTuple && !fty.isList) = false := by
    simp only [FieldTy.isContainer] at hc
    cases h1 : fty.isTuple <;> cases h2 : fty.isList <;> simp_all
  simp [this]

theorem shortcut_none_of_flat (fty : FieldTy) (n : Nat) (v : Val) (h0 : v.nesting = 0) :
    shortcut fty n [v] = none := by
  unfold shortcut
  have : nestingLevel [v] = 1 := by simp [nestingLevel, h0]
  simp [this]

/-- with exactly `n ≥ 2` parsed values nothing is duplicated or re-grouped, whatever the field type -/
theorem duplicate_n (fty : FieldTy) (n : Nat) (vs : List Val) (hn : 2 ≤ n) (hl : vs.length = n) :
    duplicate fty n vs = .ok vs := by
  unfold duplicate
  rw [shortcut_none_of_length fty n vs (by omega)]
  simp [hl]

/-- one parsed value that is not a container itself (or any value, for a list/tuple field) is handed
    to every destination -/
theorem duplicate_one (fty : FieldTy) (n : Nat) (v : Val) (hn : 2 ≤ n)
    (hv : fty.isContainer = false → v.nesting = 0) :
    duplicate fty n [v] = .ok (List.replicate n v) := by
  unfold duplicate
  have hs : shortcut fty n [v] = none := by
    cases hc : fty.isContainer with
    | true => exact shortcut_none_of_container fty n [v] hc
    | false => exact shortcut_none_of_flat fty n v (hv hc)
  rw [hs]
  have : ¬ (1 = n) := by omega
  simp [this]

/-- any other number of parsed values is an `InconsistentArgumentError` -/
theorem duplicate_other (fty : FieldTy) (n : Nat) (vs : List Val) (h1 : vs.length ≠ 1)
    (hn : vs.length ≠ n) : duplicate fty n vs = .error (.raise .inconsistentArgumentError) := by
  unfold duplicate
  rw [shortcut_none_of_length fty n vs h1]
  simp only [hn, ↓reduceIte]
  split
  · simp at h1
  · rfl

/-! ### what the `type=` callable of a scalar field returns -/

theorem parseScalarTok_sc (t : ItemTy) (tok : Tok) (v : Val) (h : parseScalarTok t tok = .ok v) :
    v.nesting = 0 := by
  unfold parseScalarTok at h
  split at h
  · split at h
    · simp only [Except.ok.injEq] at h; subst h; rfl
    · cases h
  · split at h
    · simp only [Except.ok.injEq] at h; subst h; rfl
    · cases h
    · cases h

theorem parseTok_scalar_nesting (fty : FieldTy) (tok : Tok) (v : Val) (h : parseTok fty tok = .ok v)
    (hc : fty.isContainer = false) : v.nesting = 0 := by
  cases fty with
  | scalar t => exact parseScalarTok_sc t tok v h
  | list t => simp [FieldTy.isContainer, FieldTy.isList] at hc
  | tuple ts => simp [FieldTy.isContainer, FieldTy.isList, FieldTy.isTuple] at hc
  | vtuple t => simp [FieldTy.isContainer, FieldTy.isList, FieldTy.isTuple] at hc

/-! ### the option is given: one value, n values, any other number -/

/-- **n values**: with exactly `n` tokens the i-th destination (registration order = position in
    `destinations`) receives the post-processed parse of the i-th token — for every field type. -/
theorem c11_n (fty : FieldTy) (n : Nat) (src : DefaultSrc) (toks : List Tok) (vs : List Val)
    (d : Option (List Val)) (hn : 2 ≤ n) (hk : toks.length = n)
    (hsetup : setupDefault fty n src = .ok d)
    (hparse : mapE (parseTok fty) toks = .ok vs) :
    runField fty n src (some toks) = mapE (postprocess fty) vs := by
  have hl : vs.length = n := by rw [mapE_length _ _ _ hparse, hk]
  have hne : toks.isEmpty = false := by
    cases toks with
    | nil => simp at hk; omega
    | cons a as => rfl
  simp only [runField, hsetup, argparseValues, hne, Bool.and_false, Bool.false_eq_true, ↓reduceIte,
    hparse, distribute, duplicate_n fty n vs hn hl]
  rw [List.take_of_length_le (by omega)]

/-- position-wise form of `c11_n` -/
theorem c11_n_index (fty : FieldTy) (n : Nat) (src : DefaultSrc) (toks : List Tok) (out : List Val)
    (d : Option (List Val)) (hn : 2 ≤ n) (hk : toks.length = n)
    (hsetup : setupDefault fty n src = .ok d)
    (hrun : runField fty n src (some toks) = .ok out) :
    out.length = n ∧ ∀ i (hi : i < toks.length) (ho : i < out.length),
      ∃ v, parseTok fty toks[i] = .ok v ∧ postprocess fty v = .ok out[i] := by
  have hne : toks.isEmpty = false := by
    cases toks with
    | nil => simp at hk; omega
    | cons a as => rfl
  cases hparse : mapE (parseTok fty) toks with
  | error e =>
    simp [runField, hsetup, argparseValues, hne, hparse] at hrun
  | ok vs =>
    rw [c11_n fty n src toks vs d hn hk hsetup hparse] at hrun
    have hl1 := mapE_length _ _ _ hparse
    have hl2 := mapE_length _ _ _ hrun
    refine ⟨by omega, ?_⟩
    intro i hi ho
    exact ⟨vs[i]'(by omega), mapE_getElem _ _ _ hparse i hi (by omega),
      mapE_getElem _ _ _ hrun i (by omega) ho⟩

/-- **one value**: a single token is parsed once and every destination receives that value -/
theorem c11_one (fty : FieldTy) (n : Nat) (src : DefaultSrc) (tok : Tok) (v v' : Val)
    (d : Option (List Val)) (hn : 2 ≤ n)
    (hsetup : setupDefault fty n src = .ok d)
    (hparse : parseTok fty tok = .ok v) (hpost : postprocess fty v = .ok v') :
    runField fty n src (some [tok]) = .ok (List.replicate n v') := by
  have hdup := duplicate_one fty n v hn (parseTok_scalar_nesting fty tok v hparse)
  simp only [runField, hsetup, argparseValues, List.isEmpty_cons, Bool.and_false, Bool.false_eq_true,
    ↓reduceIte, mapE, hparse, distribute, hdup]
  rw [List.take_of_length_le (by simp)]
  exact mapE_replicate _ _ _ hpost n

/-- **any other number of values** (including the option given with no value at all, when the
    field has a default) raises `InconsistentArgumentError` — for every field type -/
theorem c11_other (fty : FieldTy) (n : Nat) (src : DefaultSrc) (toks : List Tok) (vs : List Val)
    (d : Option (List Val)) (h1 : toks.length ≠ 1) (hk : toks.length ≠ n)
    (hreq : ¬ (isRequired src = true ∧ toks = []))
    (hsetup : setupDefault fty n src = .ok d)
    (hparse : mapE (parseTok fty) toks = .ok vs) :
    runField fty n src (some toks) = .error (.raise .inconsistentArgumentError) := by
  have hl := mapE_length _ _ _ hparse
  have hg : (isRequired src && toks.isEmpty) = false := by
    cases hr : isRequired src <;> cases toks <;> simp_all
  simp only [runField, hsetup, argparseValues, hg, Bool.false_eq_true, ↓reduceIte, hparse, distribute,
    duplicate_other fty n vs (by omega) (by omega)]

/-- a required field (no default) given without a value is rejected by argparse (`nargs='+'`) -/
theorem c11_zero_required (fty : FieldTy) (n : Nat) :
    runField fty n (.field none) (some []) = .error (.exit2 .nargs) := by
  simp [runField, setupDefault, rawDefault, argparseValues, isRequired]

/-! ### the option is absent -/

/-- a scalar default of the field's own type (for an enum field: a member) -/
def WellTypedScalar (t : ItemTy) (s : Scalar) : Prop :=
  ∀ ms, t = .enum ms → ∃ nm, s = .enum nm ∧ nm ∈ ms

theorem post_argDefault_scalar (t : ItemTy) (s : Scalar) (h : WellTypedScalar t s) :
    ∀ v ∈ argDefault (.scalar t) [Val.sc s], postprocess (.scalar t) v = .ok (.sc s) := by
  intro v hv
  cases t with
  | enum ms =>
    obtain ⟨nm, rfl, hnm⟩ := h ms rfl
    simp [argDefault] at hv
    subst hv
    simp [postprocess, hnm]
  | int => simp [argDefault] at hv; subst hv; rfl
  | float => simp [argDefault] at hv; subst hv; rfl
  | str => simp [argDefault] at hv; subst hv; rfl
  | bool => simp [argDefault] at hv; subst hv; rfl

/-- the packaged default of a scalar field, distributed: one value per destination, each the
    post-processing of the corresponding `argDefault` entry -/
theorem distribute_defaults (fty : FieldTy) (n : Nat) (ds : List Val) (hn : 2 ≤ n)
    (hl : ds.length = n) : distribute fty n ds = mapE (postprocess fty) ds := by
  simp only [distribute, duplicate_n fty n ds hn hl]
  rw [List.take_of_length_le (by omega)]

/-- **absent, scalar field with a default**: every destination gets the dataclass default -/
theorem c11_absent (t : ItemTy) (s : Scalar) (n : Nat) (hn : 2 ≤ n) (h : WellTypedScalar t s) :
    runField (.scalar t) n (.field (some (.sc s))) none = .ok (List.replicate n (.sc s)) := by
  have hpack : setupDefault (.scalar t) n (.field (some (.sc s)))
      = .ok (some (argDefault (.scalar t) (List.replicate n (.sc s)))) := by
    simp [setupDefault, rawDefault, defaultPack, FieldTy.isContainer, FieldTy.isList, FieldTy.isTuple,
      Raw.isPyList]
  have harg : argDefault (.scalar t) (List.replicate n (Val.sc s))
      = List.replicate n (match t, s with | .enum _, .enum nm => Val.sc (.str nm) | _, s => Val.sc s) := by
    cases t <;> cases s <;> simp [argDefault]
  simp only [runField, hpack]
  rw [harg, distribute_defaults _ _ _ hn (by simp)]
  apply mapE_replicate
  cases t with
  | enum ms =>
    obtain ⟨nm, rfl, hnm⟩ := h ms rfl
    simp [postprocess, hnm]
  | int => cases s <;> rfl
  | float => cases s <;> rfl
  | str => cases s <;> rfl
  | bool => cases s <;> rfl

/-- **absent, per-destination defaults** (nested members with default instances): destination `i`
    gets the attribute of ITS default instance -/
theorem c11_absent_parents (t : ItemTy) (ds : List Val) (n : Nat) (hn : 2 ≤ n) (hl : ds.length = n)
    (h : ∀ v ∈ ds, ∃ s, v = .sc s ∧ WellTypedScalar t s) :
    runField (.scalar t) n (.parents ds) none = .ok ds := by
  have hraw : rawDefault (.parents ds) = some (.many ds) := by
    match ds, hl with
    | [], hl => simp at hl; omega
    | [a], hl => simp at hl; omega
    | a :: b :: r, _ => rfl
  have hpack : setupDefault (.scalar t) n (.parents ds) = .ok (some (argDefault (.scalar t) ds)) := by
    simp [setupDefault, hraw, defaultPack, FieldTy.isContainer, FieldTy.isList, FieldTy.isTuple,
      Raw.isPyList, Raw.items, hl]
  have hlen : (argDefault (.scalar t) ds).length = n := by
    cases t <;> simp [argDefault, hl]
  simp only [runField, hpack]
  rw [distribute_defaults _ _ _ hn hlen]
  -- entry-wise: argDefault then postprocess is the identity on well-typed scalars
  clear hpack hraw hlen hl
  induction ds with
  | nil => cases t <;> rfl
  | cons a as ih =>
    obtain ⟨s, rfl, hs⟩ := h a (by simp)
    have ih' := ih (fun v hv => h v (by simp [hv]))
    cases t with
    | enum ms =>
      obtain ⟨nm, rfl, hnm⟩ := hs ms rfl
      simp only [argDefault, List.map_cons] at ih' ⊢
      simp [mapE, postprocess, hnm, ih']
    | int => simp only [argDefault] at ih' ⊢; simp [mapE, postprocess, ih']
    | float => simp only [argDefault] at ih' ⊢; simp [mapE, postprocess, ih']
    | str => simp only [argDefault] at ih' ⊢; simp [mapE, postprocess, ih']
    | bool => simp only [argDefault] at ih' ⊢; simp [mapE, postprocess, ih']

/-- **absent, no default**: argparse rejects the command line (the option is required) -/
theorem c11_absent_required (fty : FieldTy) (n : Nat) :
    runField fty n (.field none) none = .error (.exit2 .required) := by
  simp [runField, setupDefault, rawDefault]

/-! ### list / tuple fields: whole containers -/

/-- D12: the field-level default is a Python list whose length equals the number of destinations -/
def D12 (fty : FieldTy) (n : Nat) (l : List Scalar) : Prop := fty.isList = true ∧ l.length = n

instance (fty : FieldTy) (n : Nat) (l : List Scalar) : Decidable (D12 fty n l) := by
  unfold D12; exact inferInstance

theorem post_mkContainer (fty : FieldTy) (l : List Scalar) (hc : fty.isContainer = true) :
    postprocess fty (mkContainer fty l) = .ok (mkContainer fty l) := by
  cases fty with
  | scalar t => simp [FieldTy.isContainer, FieldTy.isList, FieldTy.isTuple] at hc
  | list t => simp [mkContainer, FieldTy.isTuple, postprocess]
  | tuple ts => simp [mkContainer, FieldTy.isTuple, postprocess]
  | vtuple t => simp [mkContainer, FieldTy.isTuple, postprocess]

theorem argDefault_container (fty : FieldTy) (hc : fty.isContainer = true) (p : List Val) :
    argDefault fty p = p := by
  cases fty with
  | scalar t => simp [FieldTy.isContainer, FieldTy.isList, FieldTy.isTuple] at hc
  | list t => rfl
  | tuple ts => rfl
  | vtuple t => rfl

/-- the full statement for container defaults … -/
def AbsentWhole : Prop :=
  ∀ (fty : FieldTy) (n : Nat) (l : List Scalar), fty.isContainer = true → 2 ≤ n →
    runField fty n (.field (some (mkContainer fty l))) none
      = .ok (List.replicate n (mkContainer fty l))

/-- … is refuted by D12: n = 2, `l: List[int] = [1, 2]` gives the destinations `1` and `2` -/
theorem c11_absent_witness : ¬ AbsentWhole := by
  intro h
  have := h (.list .int) 2 [.int 1, .int 2] rfl (by omega)
  revert this
  decide

/-- the D12 outcome itself: destination i receives ELEMENT i of the default list -/
theorem c11_d12_witness :
    runField (.list .int) 2 (.field (some (.list [.int 1, .int 2]))) none
      = .ok [.sc (.int 1), .sc (.int 2)] := by decide

/-- **absent, container field (partial)**: unless the default is a list of length n (D12), every
    destination gets the whole default container -/
theorem c11_absent_container_partial (fty : FieldTy) (n : Nat) (l : List Scalar)
    (hc : fty.isContainer = true) (hn : 2 ≤ n) (hex : ¬ D12 fty n l) :
    runField fty n (.field (some (mkContainer fty l))) none
      = .ok (List.replicate n (mkContainer fty l)) := by
  have hpack : defaultPack fty n (.one (mkContainer fty l)) = .ok (List.replicate n (mkContainer fty l)) := by
    unfold defaultPack
    simp only [hc, ↓reduceIte]
    by_cases hlen : l.length = n
    · have hnl : fty.isList = false := by
        cases hli : fty.isList with
        | false => rfl
        | true => exact absurd ⟨hli, hlen⟩ hex
      have htu : fty.isTuple = true := by
        simp only [FieldTy.isContainer, hnl, Bool.false_or] at hc; exact hc
      simp [mkContainer, htu, Raw.len, Raw.isPyList, hlen]
    · cases htu : fty.isTuple <;> simp [mkContainer, htu, Raw.len, hlen]
  simp only [runField, setupDefault, rawDefault, hpack, argDefault_container fty hc]
  rw [distribute_defaults _ _ _ hn (by simp)]
  exact mapE_replicate _ _ _ (post_mkContainer fty l hc) n

/-- **absent, container field, per-destination defaults**: nested members with default instances
    are not affected by D12 — destination i gets the container of its own default instance -/
theorem c11_absent_container_parents (fty : FieldTy) (n : Nat) (ds : List Val)
    (hc : fty.isContainer = true) (hn : 2 ≤ n) (hl : ds.length = n)
    (h : ∀ v ∈ ds, ∃ l, v = mkContainer fty l) :
    runField fty n (.parents ds) none = .ok ds := by
  have hraw : rawDefault (.parents ds) = some (.many ds) := by
    match ds, hl with
    | [], hl => simp at hl; omega
    | [a], hl => simp at hl; omega
    | a :: b :: r, _ => rfl
  have hpack : defaultPack fty n (.many ds) = .ok ds := by
    simp [defaultPack, hc, Raw.len, hl, Raw.isPyList, Raw.items]
  simp only [runField, setupDefault, hraw, hpack, argDefault_container fty hc]
  rw [distribute_defaults _ _ _ hn hl]
  apply mapE_id
  intro v hv
  obtain ⟨l, rfl⟩ := h v hv
  exact post_mkContainer fty l hc

/-- a token that is one bare Python-literal word (D13: `4`, `1.5`, `True`) -/
def bareLiteral : Tok → Bool
  | .bare w => match classify w with
    | .lit _ => true
    | _ => false
  | _ => false

def BareLiteral (tok : Tok) : Prop := bareLiteral tok = true

instance (tok : Tok) : Decidable (BareLiteral tok) := by unfold BareLiteral; exact inferInstance

theorem fallbackParse_container (fty : FieldTy) (tok : Tok) (v : Val)
    (h : fallbackParse fty tok = .ok v) : ∃ l, v = mkContainer fty l := by
  unfold fallbackParse at h
  split at h
  · simp only [Except.ok.injEq] at h; exact ⟨_, h.symm⟩
  · cases h

/-- every token except a bare literal word parses to a whole container of the field's kind -/
theorem parseContainerTok_container (fty : FieldTy) (tok : Tok) (v : Val)
    (hb : ¬ BareLiteral tok) (h : parseContainerTok fty tok = .ok v) : ∃ l, v = mkContainer fty l := by
  unfold parseContainerTok at h
  cases tok with
  | bare w =>
    simp only at h
    split at h
    · cases h
    · exact fallbackParse_container fty _ v h
    · rename_i l hl
      exact absurd (by simp [BareLiteral, bareLiteral, hl]) hb
  | spaced ws => exact fallbackParse_container fty _ v h
  | comma ws =>
    simp only at h
    split at h
    · cases h
    · cases h
    · exact fallbackParse_container fty _ v h
    · split at h
      · cases h
      · cases h
      · exact fallbackParse_container fty _ v h
      · simp only [Except.ok.injEq] at h; exact ⟨_, h.symm⟩
  | bracket sq ws =>
    simp only at h
    split at h
    · cases h
    · cases h
    · exact fallbackParse_container fty _ v h
    · split at h
      · cases h
      · cases h
      · exact fallbackParse_container fty _ v h
      · simp only [Except.ok.injEq] at h; exact ⟨_, h.symm⟩

theorem parseTok_container (fty : FieldTy) (hc : fty.isContainer = true) (tok : Tok) (v : Val)
    (hb : ¬ BareLiteral tok) (h : parseTok fty tok = .ok v) : ∃ l, v = mkContainer fty l := by
  cases fty with
  | scalar t => simp [FieldTy.isContainer, FieldTy.isList, FieldTy.isTuple] at hc
  | list t => exact parseContainerTok_container _ tok v hb h
  | tuple ts => exact parseContainerTok_container _ tok v hb h
  | vtuple t => exact parseContainerTok_container _ tok v hb h

/-- the full statement: list / tuple fields are distributed as whole containers … -/
def WholeContainers : Prop :=
  ∀ (fty : FieldTy) (n : Nat) (src : DefaultSrc) (toks : List Tok) (out : List Val),
    fty.isContainer = true → 2 ≤ n → runField fty n src (some toks) = .ok out →
    ∀ v ∈ out, ∃ l, v = mkContainer fty l

/-- … is refuted by D13: `--l 4 5` with n = 2 is split element-wise -/
theorem c11_whole_containers_witness : ¬ WholeContainers := by
  intro h
  have := h (.list .int) 2 (.field none) [.bare "4".toList, .bare "5".toList]
    [.sc (.int 4), .sc (.int 5)] rfl (by omega) (by decide) (.sc (.int 4)) (by simp)
  obtain ⟨l, hl⟩ := this
  simp [mkContainer, FieldTy.isTuple] at hl

/-- the D13 outcomes themselves: a single token `4` yields the bare `4` at every destination;
    for a tuple field the bare item makes `postprocess` raise TypeError -/
theorem c11_d13_witness :
    runField (.list .int) 2 (.field none) (some [.bare "4".toList]) = .ok [.sc (.int 4), .sc (.int 4)]
    ∧ runField (.list .int) 2 (.field none) (some [.bare "4".toList, .bare "5".toList])
        = .ok [.sc (.int 4), .sc (.int 5)]
    ∧ runField (.tuple [.int, .int]) 2 (.field none) (some [.bare "3".toList, .bare "4".toList])
        = .error (.raise .typeError) := by decide

/-- **whole containers (partial)**: when no token is a bare Python-literal word (D13), every
    destination of a list / tuple field receives a whole container of the field's kind: with n
    tokens the i-th token's container, with one token that token's container (see `c11_n`,
    `c11_one`), never an element of it. Any n ≥ 2, any number and shape of tokens. -/
theorem c11_whole_containers_partial (fty : FieldTy) (n : Nat) (src : DefaultSrc) (toks : List Tok)
    (out : List Val) (hc : fty.isContainer = true)
    (hex : ∀ tok ∈ toks, ¬ BareLiteral tok)
    (hrun : runField fty n src (some toks) = .ok out) :
    ∀ v ∈ out, ∃ l, v = mkContainer fty l := by
  -- unfold the run
  cases hsetup : setupDefault fty n src with
  | error e => simp [runField, hsetup] at hrun
  | ok d =>
    cases hargs : argparseValues fty (isRequired src) toks with
    | error e => simp [runField, hsetup, hargs] at hrun
    | ok vs =>
      simp only [runField, hsetup, hargs, distribute] at hrun
      have hparse : mapE (parseTok fty) toks = .ok vs := by
        unfold argparseValues at hargs
        split at hargs
        · cases hargs
        · exact hargs
      -- every parsed value is a whole container
      have hvs : ∀ v ∈ vs, ∃ l, v = mkContainer fty l := by
        intro v hv
        obtain ⟨tok, htok, hp⟩ := mapE_mem _ _ _ hparse v hv
        exact parseTok_container fty hc tok v (hex tok htok) hp
      -- duplicate keeps them whole
      cases hdup : duplicate fty n vs with
      | error e => simp [hdup] at hrun
      | ok ws =>
        simp only [hdup] at hrun
        have hws : ∀ v ∈ ws, ∃ l, v = mkContainer fty l := by
          unfold duplicate at hdup
          rw [shortcut_none_of_container fty n vs hc] at hdup
          simp only at hdup
          split at hdup
          · simp only [Except.ok.injEq] at hdup; subst hdup; exact hvs
          · split at hdup
            · rename_i v0
              simp only [Except.ok.injEq] at hdup; subst hdup
              intro v hv
              have := (List.mem_replicate.mp hv).2
              subst this
              exact hvs _ (by simp)
            · cases hdup
        intro v hv
        obtain ⟨w, hw, hp⟩ := mapE_mem _ _ _ hrun v hv
        obtain ⟨l, rfl⟩ := hws w (List.mem_of_mem_take hw)
        rw [post_mkContainer fty l hc] at hp
        simp only [Except.ok.injEq] at hp
        exact ⟨l, hp.symm⟩

/-! ### the whole-parse model used by the correspondence check reduces to `runField` -/

def wrap1 : Res (List Val) → Res (List (List Val))
  | .ok x => .ok [x]
  | .error e => .error e

/-- one field, option given once: `runCase` (set-up, argparse, required check, distribution) is `runField` -/
theorem runCase_single_given (fty : FieldTy) (n : Nat) (src : DefaultSrc) (toks : List Tok) :
    runCase n [⟨fty, src⟩] [(0, toks)] = wrap1 (runField fty n src (some toks)) := by
  unfold runCase runField
  simp only [setupAll]
  cases hs : setupDefault fty n src with
  | error e => rfl
  | ok d =>
    simp only [argparseAll, List.getElem?_cons_zero]
    cases ha : argparseValues fty (isRequired src) toks with
    | error e => rfl
    | ok vs =>
      simp only [storedAll, lookupLast, ↓reduceIte, distributeAll]
      cases distribute fty n vs <;> rfl

/-- one field, option absent -/
theorem runCase_single_absent (fty : FieldTy) (n : Nat) (src : DefaultSrc) :
    runCase n [⟨fty, src⟩] [] = wrap1 (runField fty n src none) := by
  unfold runCase runField
  simp only [setupAll]
  cases hs : setupDefault fty n src with
  | error e => rfl
  | ok d =>
    simp only [argparseAll]
    cases d with
    | none => rfl
    | some dv =>
      simp only [storedAll, lookupLast, distributeAll]
      cases distribute fty n dv <;> rfl

/-! ### registration order of the merged destinations (`DataclassWrapper.merge`) -/

theorem appendNew_nodup (acc ds : List Str) (h : (acc ++ ds).Nodup) : appendNew acc ds = acc ++ ds := by
  induction ds generalizing acc with
  | nil => simp [appendNew]
  | cons d r ih =>
    have hd : d ∉ acc := by
      intro hm
      have := List.nodup_append.mp h
      exact this.2.2 d hm d (by simp) rfl
    simp only [appendNew, hd, ↓reduceIte]
    have : (acc ++ [d] ++ r).Nodup := by simpa using h
    rw [ih (acc ++ [d]) this]
    simp

/-- a wrapper without nested members, registered at destination `d`, carrying default instances `f` -/
def leafW (d : Str) (f : List Nat) : DW := .mk [d] f []

theorem mergeAll_leaves (acc : List Str) (f : List Nat) (regs : List (Str × List Nat))
    (h : (acc ++ regs.map (·.1)).Nodup) :
    mergeAll (.mk acc f []) (regs.map (fun r => leafW r.1 r.2))
      = .mk (acc ++ regs.map (·.1)) (f ++ (regs.map (·.2)).flatten) [] := by
  induction regs generalizing acc f with
  | nil => simp [mergeAll]
  | cons r rs ih =>
    have hd : r.1 ∉ acc := by
      intro hm
      have := List.nodup_append.mp h
      exact this.2.2 r.1 hm r.1 (by simp) rfl
    have h' : ((acc ++ [r.1]) ++ rs.map (·.1)).Nodup := by simpa using h
    have := ih (acc ++ [r.1]) (f ++ r.2) h'
    simp only [mergeAll, List.map_cons, List.foldl_cons] at this ⊢
    simp only [leafW, DW.merge, appendNew, hd, ↓reduceIte, mergeChildren]
    simp only [leafW] at this
    rw [this]
    simp

/-- **registration order**: the same class registered at n pairwise different destinations
    `d₀ … d_{n-1}` (any n) is merged into ONE wrapper whose destinations are exactly
    `d₀ … d_{n-1}` in registration order, with the default instances in the same order. -/
theorem c11_registration_order (d0 : Str) (f0 : List Nat) (regs : List (Str × List Nat))
    (h : (d0 :: regs.map (·.1)).Nodup) :
    (mergeAll (leafW d0 f0) (regs.map (fun r => leafW r.1 r.2))).dests = d0 :: regs.map (·.1)
    ∧ (mergeAll (leafW d0 f0) (regs.map (fun r => leafW r.1 r.2))).defaults
        = f0 ++ (regs.map (·.2)).flatten := by
  have := mergeAll_leaves [d0] f0 regs (by simpa using h)
  simp only [leafW] at this ⊢
  rw [this]
  exact ⟨rfl, rfl⟩

/-! ### non-vacuity: the hypotheses are satisfiable by non-trivial inputs -/

-- c11_n: three destinations, three different int tokens
example : runField (.scalar .int) 3 (.field (some (.sc (.int 1))))
    (some [.bare "5".toList, .bare "-6".toList, .bare "7".toList])
    = .ok [.sc (.int 5), .sc (.int (-6)), .sc (.int 7)] := by decide
-- c11_n for a list field: whole containers in three different token shapes
example : runField (.list .int) 3 (.field (some (.list [.int 1, .int 2, .int 3])))
    (some [.bracket true ["4".toList, "5".toList], .spaced ["6".toList, "7".toList], .comma ["8".toList, "9".toList]])
    = .ok [.list [.int 4, .int 5], .list [.int 6, .int 7], .list [.int 8, .int 9]] := by decide
-- c11_one: an enum field (parsed by name, choices checked, converted in postprocess)
example : runField (.scalar (.enum ["RED".toList, "BLUE".toList])) 4 (.field (some (.sc (.enum "RED".toList))))
    (some [.bare "BLUE".toList]) = .ok (List.replicate 4 (.sc (.enum "BLUE".toList))) := by decide
-- c11_other: two values for three destinations
example : runField (.scalar .bool) 3 (.field (some (.sc (.bool false))))
    (some [.bare "true".toList, .bare "no".toList]) = .error (.raise .inconsistentArgumentError) := by decide
-- c11_other: the option given with no value although the field has a default
example : runField (.scalar .bool) 2 (.field (some (.sc (.bool false)))) (some [])
    = .error (.raise .inconsistentArgumentError) := by decide
-- c11_absent: a well-typed enum default
example : WellTypedScalar (.enum ["RED".toList, "BLUE".toList]) (.enum "BLUE".toList) := by
  intro ms h; cases h; exact ⟨_, rfl, by simp⟩
example : runField (.scalar .str) 5 (.field (some (.sc (.str "x".toList)))) none
    = .ok (List.replicate 5 (.sc (.str "x".toList))) := by decide
-- c11_absent_parents: three sibling members with different default instances
example : runField (.scalar .int) 3 (.parents [.sc (.int 1), .sc (.int 5), .sc (.int 1)]) none
    = .ok [.sc (.int 1), .sc (.int 5), .sc (.int 1)] := by decide
-- c11_absent_container_partial: the exclusion leaves real cases (length ≠ n; tuple of length n)
example : ¬ D12 (.list .int) 2 [.int 1, .int 2, .int 3] := by decide
example : ¬ D12 (.tuple [.int, .int]) 2 [.int 3, .int 4] := by decide
example : runField (.tuple [.int, .int]) 2 (.field (some (.tuple [.int 3, .int 4]))) none
    = .ok [.tuple [.int 3, .int 4], .tuple [.int 3, .int 4]] := by decide
-- c11_absent_container_parents: a list default of length n on nested members is NOT split
example : runField (.list .int) 2 (.parents [.list [.int 1, .int 2], .list [.int 1, .int 2]]) none
    = .ok [.list [.int 1, .int 2], .list [.int 1, .int 2]] := by decide
-- c11_whole_containers_partial: tokens that are not bare literals (a bare word for a str list is fine)
example : ∀ tok ∈ [Tok.bare "abc".toList, .spaced ["a".toList, "b".toList]], ¬ BareLiteral tok := by decide
example : runField (.list .str) 2 (.field none) (some [.bare "abc".toList, .spaced ["a".toList, "b".toList]])
    = .ok [.list [.str "abc".toList], .list [.str "a".toList, .str "b".toList]] := by decide
-- c11_registration_order: three registrations
example : (mergeAll (leafW "a".toList []) ([("b".toList, []), ("c".toList, [])].map (fun r => leafW r.1 r.2))).dests
    = ["a".toList, "b".toList, "c".toList] := by decide
-- nested members merged pair-wise (P{m:C} at two destinations, the P wrappers merge first)
example : DW.merge (.mk ["a".toList] [] [leafW "a.m".toList [0]]) (.mk ["b".toList] [] [leafW "b.m".toList [1]])
    = .mk ["a".toList, "b".toList] [] [.mk ["a.m".toList, "b.m".toList] [0, 1] []] := by
  simp [DW.merge, mergeChildren, leafW, appendNew]

end SpVerif.C11
