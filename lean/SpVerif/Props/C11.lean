/-
  C11 — ALWAYS_MERGE distributes one shared option over all merged destinations.
  Theorems about `SpVerif.Model.Merge` (mirrors conflicts.py:317-354, dataclass_wrapper.py:422-445,
  field_wrapper.py:168-229, 354-458, 711-821, utils.py:617-723).  Every statement holds for all
  `n ≥ 2` (no upper bound) and for token lists of any length.
-/
import SpVerif.Model.Merge
namespace SpVerif.C11
open SpVerif SpVerif.Merge

/-! ### `mapE` (first failure wins) -/

theorem mapE_replicate {α β : Type} (f : α → Res β) (a : α) (b : β) (h : f a = .ok b) (n : Nat) :
    mapE f (List.replicate n a) = .ok (List.replicate n b) := by
  induction n with
  | zero => rfl
  | succ k ih => simp [List.replicate_succ, mapE, h, ih]

theorem mapE_replicate_error {α β : Type} (f : α → Res β) (a : α) (e : Err) (h : f a = .error e)
    (n : Nat) (hn : 0 < n) : mapE f (List.replicate n a) = .error e := by
  cases n with
  | zero => omega
  | succ k => simp [List.replicate_succ, mapE, h]

theorem mapE_length {α β : Type} (f : α → Res β) (l : List α) (r : List β) (h : mapE f l = .ok r) :
    r.length = l.length := by
  induction l generalizing r with
  | nil => simp [mapE] at h; subst h; rfl
  | cons a as ih =>
    simp only [mapE] at h
    cases hfa : f a with
    | error e => rw [hfa] at h; cases h
    | ok b =>
      rw [hfa] at h
      cases hr : mapE f as with
      | error e => rw [hr] at h; cases h
      | ok bs =>
        rw [hr] at h
        simp only [Except.ok.injEq] at h
        subst h
        simp [ih bs hr]

/-- position-wise reading of a successful `mapE` -/
theorem mapE_getElem {α β : Type} (f : α → Res β) (l : List α) (r : List β) (h : mapE f l = .ok r)
    (i : Nat) (hi : i < l.length) (hi' : i < r.length) : f l[i] = .ok r[i] := by
  induction l generalizing r i with
  | nil => simp at hi
  | cons a as ih =>
    simp only [mapE] at h
    cases hfa : f a with
    | error e => rw [hfa] at h; cases h
    | ok b =>
      rw [hfa] at h
      cases hr : mapE f as with
      | error e => rw [hr] at h; cases h
      | ok bs =>
        rw [hr] at h
        simp only [Except.ok.injEq] at h
        subst h
        cases i with
        | zero => simpa using hfa
        | succ j =>
          simp only [List.getElem_cons_succ]
          exact ih bs hr j (by simpa using hi) (by simpa using hi')

theorem mapE_mem {α β : Type} (f : α → Res β) (l : List α) (r : List β) (h : mapE f l = .ok r)
    (b : β) (hb : b ∈ r) : ∃ a ∈ l, f a = .ok b := by
  obtain ⟨i, hi, rfl⟩ := List.getElem_of_mem hb
  have hl := mapE_length f l r h
  exact ⟨l[i]'(by omega), List.getElem_mem _, mapE_getElem f l r h i (by omega) hi⟩

theorem mapE_id {α : Type} (f : α → Res α) (l : List α) (h : ∀ a ∈ l, f a = .ok a) :
    mapE f l = .ok l := by
  induction l with
  | nil => rfl
  | cons a as ih =>
    simp [mapE, h a (by simp), ih (fun x hx => h x (by simp [hx]))]

/-! ### `duplicate_if_needed` -/

theorem shortcut_none_of_length (fty : FieldTy) (n : Nat) (vs : List Val) (h : vs.length ≠ 1) :
    shortcut fty n vs = none := by
  unfold shortcut
  split
  · split
    · simp at h
    · rfl
  · rfl

theorem shortcut_none_of_container (fty : FieldTy) (n : Nat) (vs : List Val)
    (hc : fty.isContainer = true) : shortcut fty n vs = none := by
  unfold shortcut
  have : (!fty.isTuple && !fty.isList) = false := by
    simp only [FieldTy.isContainer] at hc
    cases h1 : fty.isTuple <;> cases h2 : fty.isList <;> simp_all
  simp [this]

theorem shortcut_none_of_flat (fty : FieldTy) (n : Nat) (v : Val) (h0 : v.nesting = 0) :
    shortcut fty n [v] = none := by
  unfold shortcut
  have : nestingLevel [v] = 1 := by simp [nestingLevel, h0]
  simp [this]

/-- with exactly `n ≥ 2` parsed values nothing is duplicated or re-grouped, whatever the field type -/
theorem duplicate_n (fty : FieldTy) (n : Nat) (vs : List Val) (hn : 2 ≤ n) (hl : vs.length = n) :
    duplicate fty n vs = .ok vs := by
  unfold duplicate
  rw [shortcut_none_of_length fty n vs (by omega)]
  simp [hl]

/-- one parsed value that is not a container itself (or any value, for a list/tuple field) is handed
    to every destination -/
theorem duplicate_one (fty : FieldTy) (n : Nat) (v : Val) (hn : 2 ≤ n)
    (hv : fty.isContainer = false → v.nesting = 0) :
    duplicate fty n [v] = .ok (List.replicate n v) := by
  unfold duplicate
  have hs : shortcut fty n [v] = none := by
    cases hc : fty.isContainer with
    | true => exact shortcut_none_of_container fty n [v] hc
    | false => exact shortcut_none_of_flat fty n v (hv hc)
  rw [hs]
  have : ¬ (1 = n) := by omega
  simp [this]

/-- any other number of parsed values is an `InconsistentArgumentError` -/
theorem duplicate_other (fty : FieldTy) (n : Nat) (vs : List Val) (h1 : vs.length ≠ 1)
    (hn : vs.length ≠ n) : duplicate fty n vs = .error (.raise .inconsistentArgumentError) := by
  unfold duplicate
  rw [shortcut_none_of_length fty n vs h1]
  simp only [hn, ↓reduceIte]
  split
  · simp at h1
  · rfl

/-! ### what the `type=` callable of a scalar field returns -/

theorem parseScalarTok_sc (t : ItemTy) (tok : Tok) (v : Val) (h : parseScalarTok t tok = .ok v) :
    v.nesting = 0 := by
  unfold parseScalarTok at h
  split at h
  · split at h
    · simp only [Except.ok.injEq] at h; subst h; rfl
    · cases h
  · split at h
    · simp only [Except.ok.injEq] at h; subst h; rfl
    · cases h
    · cases h

theorem parseTok_scalar_nesting (fty : FieldTy) (tok : Tok) (v : Val) (h : parseTok fty tok = .ok v)
    (hc : fty.isContainer = false) : v.nesting = 0 := by
  cases fty with
  | scalar t => exact parseScalarTok_sc t tok v h
  | list t => simp [FieldTy.isContainer, FieldTy.isList] at hc
  | tuple ts => simp [FieldTy.isContainer, FieldTy.isList, FieldTy.isTuple] at hc
  | vtuple t => simp [FieldTy.isContainer, FieldTy.isList, FieldTy.isTuple] at hc

/-! ### the option is given: one value, n values, any other number -/

/-- **n values**: with exactly `n` tokens the i-th destination (registration order = position in
    `destinations`) receives the post-processed parse of the i-th token — for every field type. -/
theorem c11_n (fty : FieldTy) (n : Nat) (src : DefaultSrc) (toks : List Tok) (vs : List Val)
    (d : Option (List Val)) (hn : 2 ≤ n) (hk : toks.length = n)
    (hsetup : setupDefault fty n src = .ok d)
    (hparse : mapE (parseTok fty) toks = .ok vs) :
    runField fty n src (some toks) = mapE (postprocess fty) vs := by
  have hl : vs.length = n := by rw [mapE_length _ _ _ hparse, hk]
  have hne : toks.isEmpty = false := by
    cases toks with
    | nil => simp at hk; omega
    | cons a as => rfl
  simp only [runField, hsetup, argparseValues, hne, Bool.and_false, Bool.false_eq_true, ↓reduceIte,
    hparse, distribute, duplicate_n fty n vs hn hl]
  rw [List.take_of_length_le (by omega)]

/-- position-wise form of `c11_n` -/
theorem c11_n_index (fty : FieldTy) (n : Nat) (src : DefaultSrc) (toks : List Tok) (out : List Val)
    (d : Option (List Val)) (hn : 2 ≤ n) (hk : toks.length = n)
    (hsetup : setupDefault fty n src = .ok d)
    (hrun : runField fty n src (some toks) = .ok out) :
    out.length = n ∧ ∀ i (hi : i < toks.length) (ho : i < out.length),
      ∃ v, parseTok fty toks[i] = .ok v ∧ postprocess fty v = .ok out[i] := by
  have hne : toks.isEmpty = false := by
    cases toks with
    | nil => simp at hk; omega
    | cons a as => rfl
  cases hparse : mapE (parseTok fty) toks with
  | error e =>
    simp [runField, hsetup, argparseValues, hne, hparse] at hrun
  | ok vs =>
    rw [c11_n fty n src toks vs d hn hk hsetup hparse] at hrun
    have hl1 := mapE_length _ _ _ hparse
    have hl2 := mapE_length _ _ _ hrun
    refine ⟨by omega, ?_⟩
    intro i hi ho
    exact ⟨vs[i]'(by omega), mapE_getElem _ _ _ hparse i hi (by omega),
      mapE_getElem _ _ _ hrun i (by omega) ho⟩

/-- **one value**: a single token is parsed once and every destination receives that value -/
theorem c11_one (fty : FieldTy) (n : Nat) (src : DefaultSrc) (tok : Tok) (v v' : Val)
    (d : Option (List Val)) (hn : 2 ≤ n)
    (hsetup : setupDefault fty n src = .ok d)
    (hparse : parseTok fty tok = .ok v) (hpost : postprocess fty v = .ok v') :
    runField fty n src (some [tok]) = .ok (List.replicate n v') := by
  have hdup := duplicate_one fty n v hn (parseTok_scalar_nesting fty tok v hparse)
  simp only [runField, hsetup, argparseValues, List.isEmpty_cons, Bool.and_false, Bool.false_eq_true,
    ↓reduceIte, mapE, hparse, distribute, hdup]
  rw [List.take_of_length_le (by simp)]
  exact mapE_replicate _ _ _ hpost n

/-- **any other number of values** (including the option given with no value at all, when the
    field has a default) raises `InconsistentArgumentError` — for every field type -/
theorem c11_other (fty : FieldTy) (n : Nat) (src : DefaultSrc) (toks : List Tok) (vs : List Val)
    (d : Option (List Val)) (h1 : toks.length ≠ 1) (hk : toks.length ≠ n)
    (hreq : ¬ (isRequired src = true ∧ toks = []))
    (hsetup : setupDefault fty n src = .ok d)
    (hparse : mapE (parseTok fty) toks = .ok vs) :
    runField fty n src (some toks) = .error (.raise .inconsistentArgumentError) := by
  have hl := mapE_length _ _ _ hparse
  have hg : (isRequired src && toks.isEmpty) = false := by
    cases hr : isRequired src <;> cases toks <;> simp_all
  simp only [runField, hsetup, argparseValues, hg, Bool.false_eq_true, ↓reduceIte, hparse, distribute,
    duplicate_other fty n vs (by omega) (by omega)]

/-- a required field (no default) given without a value is rejected by argparse (`nargs='+'`) -/
theorem c11_zero_required (fty : FieldTy) (n : Nat) :
    runField fty n (.field none) (some []) = .error (.exit2 .nargs) := by
  simp [runField, setupDefault, rawDefault, argparseValues, isRequired]

/-! ### the option is absent -/

/-- a scalar default of the field's own type.  Only enum fields are constrained (a member): for the
    other scalar types `argDefault`/`postprocess` are the identity on EVERY value, so the theorems
    below hold there even for an ill-typed default (an int field with a str default gets that str
    everywhere — which is also what the code does). -/
def WellTypedScalar (t : ItemTy) (s : Scalar) : Prop :=
  ∀ ms, t = .enum ms → ∃ nm, s = .enum nm ∧ nm ∈ ms

/-- what `argDefault` does to one entry (enum members are handed to argparse by name) -/
def argDefault1 (fty : FieldTy) (v : Val) : Val :=
  match fty, v with
  | .scalar (.enum _), .sc (.enum nm) => .sc (.str nm)
  | _, v => v

theorem argDefault1_id (fty : FieldTy) (h : ∀ ms, fty ≠ .scalar (.enum ms)) (v : Val) :
    argDefault1 fty v = v := by
  unfold argDefault1
  split
  · rename_i ms _; exact absurd rfl (h ms)
  · rfl

theorem argDefault_eq_map (fty : FieldTy) (p : List Val) : argDefault fty p = p.map (argDefault1 fty) := by
  cases fty with
  | scalar t =>
    cases t with
    | enum ms =>
      simp only [argDefault]
      apply List.map_congr_left
      intro v _
      cases v with
      | sc s => cases s <;> rfl
      | list l => rfl
      | tuple l => rfl
    | int =>
      have hid : ∀ v, argDefault1 (.scalar .int) v = v := argDefault1_id _ (by intro ms h; cases h)
      simp only [argDefault]; rw [List.map_congr_left (g := id) (fun v _ => hid v)]; simp
    | float =>
      have hid : ∀ v, argDefault1 (.scalar .float) v = v := argDefault1_id _ (by intro ms h; cases h)
      simp only [argDefault]; rw [List.map_congr_left (g := id) (fun v _ => hid v)]; simp
    | str =>
      have hid : ∀ v, argDefault1 (.scalar .str) v = v := argDefault1_id _ (by intro ms h; cases h)
      simp only [argDefault]; rw [List.map_congr_left (g := id) (fun v _ => hid v)]; simp
    | bool =>
      have hid : ∀ v, argDefault1 (.scalar .bool) v = v := argDefault1_id _ (by intro ms h; cases h)
      simp only [argDefault]; rw [List.map_congr_left (g := id) (fun v _ => hid v)]; simp
  | list t =>
    have hid : ∀ v, argDefault1 (.list t) v = v := argDefault1_id _ (by intro ms h; cases h)
    simp only [argDefault]; rw [List.map_congr_left (g := id) (fun v _ => hid v)]; simp
  | tuple ts =>
    have hid : ∀ v, argDefault1 (.tuple ts) v = v := argDefault1_id _ (by intro ms h; cases h)
    simp only [argDefault]; rw [List.map_congr_left (g := id) (fun v _ => hid v)]; simp
  | vtuple t =>
    have hid : ∀ v, argDefault1 (.vtuple t) v = v := argDefault1_id _ (by intro ms h; cases h)
    simp only [argDefault]; rw [List.map_congr_left (g := id) (fun v _ => hid v)]; simp

/-- a default VALUE OF THE FIELD'S OWN TYPE: handing it to argparse (enum by name) and
    post-processing what comes back reproduces it. Holds for every well-typed scalar
    (`stable_scalar`) and every list / tuple of the field's container kind, of ANY length
    (`stable_container`). -/
def StableDefault (fty : FieldTy) (v : Val) : Prop := postprocess fty (argDefault1 fty v) = .ok v

instance (fty : FieldTy) (v : Val) : Decidable (StableDefault fty v) := by
  unfold StableDefault; exact inferInstance

theorem stable_scalar (t : ItemTy) (s : Scalar) (h : WellTypedScalar t s) :
    StableDefault (.scalar t) (.sc s) := by
  unfold StableDefault
  cases t with
  | enum ms =>
    obtain ⟨nm, rfl, hnm⟩ := h ms rfl
    simp [argDefault1, postprocess, hnm]
  | int => cases s <;> rfl
  | float => cases s <;> rfl
  | str => cases s <;> rfl
  | bool => cases s <;> rfl

theorem post_mkContainer (fty : FieldTy) (l : List Scalar) (hc : fty.isContainer = true) :
    postprocess fty (mkContainer fty l) = .ok (mkContainer fty l) := by
  cases fty with
  | scalar t => simp [FieldTy.isContainer, FieldTy.isList, FieldTy.isTuple] at hc
  | list t => simp [mkContainer, FieldTy.isTuple, postprocess]
  | tuple ts => simp [mkContainer, FieldTy.isTuple, postprocess]
  | vtuple t => simp [mkContainer, FieldTy.isTuple, postprocess]

theorem stable_container (fty : FieldTy) (l : List Scalar) (hc : fty.isContainer = true) :
    StableDefault fty (mkContainer fty l) := by
  unfold StableDefault
  have : argDefault1 fty (mkContainer fty l) = mkContainer fty l := by
    cases fty with
    | scalar t => simp [FieldTy.isContainer, FieldTy.isList, FieldTy.isTuple] at hc
    | list t => rfl
    | tuple ts => rfl
    | vtuple t => rfl
  rw [this]
  exact post_mkContainer fty l hc

theorem mapE_map_id {α : Type} (f : α → Res α) (g : α → α) (l : List α)
    (h : ∀ a ∈ l, f (g a) = .ok a) : mapE f (l.map g) = .ok l := by
  induction l with
  | nil => rfl
  | cons a as ih =>
    simp [mapE, h a (by simp), ih (fun x hx => h x (by simp [hx]))]

/-- n packaged defaults are handed out position by position -/
theorem distribute_defaults (fty : FieldTy) (n : Nat) (ds : List Val) (hn : 2 ≤ n)
    (hl : ds.length = n) : distribute fty n ds = mapE (postprocess fty) ds := by
  simp only [distribute, duplicate_n fty n ds hn hl]
  rw [List.take_of_length_le (by omega)]

/-- **absent, the field has a default** — every field type (scalar, list, tuple), any default of
    the field's type (a list or tuple of ANY length, also length n), any n ≥ 2: every destination
    gets the dataclass default, whole. -/
theorem c11_absent (fty : FieldTy) (v : Val) (n : Nat) (hn : 2 ≤ n) (h : StableDefault fty v) :
    runField fty n (.field (some v)) none = .ok (List.replicate n v) := by
  have hpack : setupDefault fty n (.field (some v))
      = .ok (some (argDefault fty (List.replicate n v))) := by
    simp [setupDefault, rawDefault, defaultPack]
  simp only [runField, hpack]
  rw [argDefault_eq_map, distribute_defaults _ _ _ hn (by simp), List.map_replicate]
  exact mapE_replicate _ _ _ h n

/-- scalar instance of `c11_absent` -/
theorem c11_absent_scalar (t : ItemTy) (s : Scalar) (n : Nat) (hn : 2 ≤ n) (h : WellTypedScalar t s) :
    runField (.scalar t) n (.field (some (.sc s))) none = .ok (List.replicate n (.sc s)) :=
  c11_absent _ _ n hn (stable_scalar t s h)

/-- list / tuple instance of `c11_absent`: the default container is never taken apart, whatever
    its length (the former D12 case `l.length = n` included) -/
theorem c11_absent_container (fty : FieldTy) (l : List Scalar) (n : Nat) (hn : 2 ≤ n)
    (hc : fty.isContainer = true) :
    runField fty n (.field (some (mkContainer fty l))) none
      = .ok (List.replicate n (mkContainer fty l)) :=
  c11_absent _ _ n hn (stable_container fty l hc)

/-- **absent, per-destination default instances** (`add_arguments(..., default=inst)` at every
    destination, or nested members with default instances): destination `i` gets the attribute of
    ITS default instance — every field type -/
theorem c11_absent_parents (fty : FieldTy) (ds : List Val) (n : Nat) (hn : 2 ≤ n)
    (hl : ds.length = n) (h : ∀ v ∈ ds, StableDefault fty v) :
    runField fty n (.parents ds) none = .ok ds := by
  have hraw : rawDefault (.parents ds) = some (ds, true) := by
    match ds, hl with
    | [], hl => simp at hl; omega
    | [a], hl => simp at hl; omega
    | a :: b :: r, _ => rfl
  have hne : (DefaultSrc.parents ds = DefaultSrc.parents []) = False := by
    simp only [DefaultSrc.parents.injEq, eq_iff_iff, iff_false]
    intro he; subst he; simp at hl; omega
  have hpack : setupDefault fty n (.parents ds) = .ok (some (argDefault fty ds)) := by
    simp [setupDefault, hne, hraw, defaultPack, hl]
  simp only [runField, hpack]
  rw [argDefault_eq_map, distribute_defaults _ _ _ hn (by simp [hl])]
  exact mapE_map_id _ _ _ h

/-- **absent, no default**: argparse rejects the command line (the option is required) -/
theorem c11_absent_required (fty : FieldTy) (n : Nat) :
    runField fty n (.field none) none = .error (.exit2 .required) := by
  simp [runField, setupDefault, rawDefault]

/-! ### list / tuple fields: every token is one whole container -/

theorem fallbackParse_container (fty : FieldTy) (tok : Tok) (v : Val)
    (h : fallbackParse fty tok = .ok v) : ∃ l, v = mkContainer fty l := by
  unfold fallbackParse at h
  split at h
  · simp only [Except.ok.injEq] at h; exact ⟨_, h.symm⟩
  · cases h

/-- EVERY token parses to a whole container of the field's kind -/
theorem parseContainerTok_container (fty : FieldTy) (tok : Tok) (v : Val)
    (h : parseContainerTok fty tok = .ok v) : ∃ l, v = mkContainer fty l := by
  unfold parseContainerTok at h
  cases tok with
  | bare w =>
    simp only at h
    split at h
    · cases h
    · exact fallbackParse_container fty _ v h
    · split at h
      · cases h
      · cases h
      · exact fallbackParse_container fty _ v h
      · simp only [Except.ok.injEq] at h; exact ⟨_, h.symm⟩
  | spaced ws => exact fallbackParse_container fty _ v h
  | comma ws =>
    simp only at h
    split at h
    · cases h
    · cases h
    · exact fallbackParse_container fty _ v h
    · split at h
      · cases h
      · cases h
      · exact fallbackParse_container fty _ v h
      · simp only [Except.ok.injEq] at h; exact ⟨_, h.symm⟩
  | bracket sq ws =>
    simp only at h
    split at h
    · cases h
    · cases h
    · exact fallbackParse_container fty _ v h
    · split at h
      · cases h
      · cases h
      · exact fallbackParse_container fty _ v h
      · simp only [Except.ok.injEq] at h; exact ⟨_, h.symm⟩

theorem parseTok_container (fty : FieldTy) (hc : fty.isContainer = true) (tok : Tok) (v : Val)
    (h : parseTok fty tok = .ok v) : ∃ l, v = mkContainer fty l := by
  cases fty with
  | scalar t => simp [FieldTy.isContainer, FieldTy.isList, FieldTy.isTuple] at hc
  | list t => exact parseContainerTok_container _ tok v h
  | tuple ts => exact parseContainerTok_container _ tok v h
  | vtuple t => exact parseContainerTok_container _ tok v h

/-- **a bare item is a one-element container**: a token that is one Python-literal word (`4`,
    `1.5`, `True`) which the item parser accepts gives `[item]` / `(item,)` -/
theorem c11_bare_item_singleton (fty : FieldTy) (w : Str) (l : Lit) (s : Scalar)
    (hw : classify w = .lit l) (hconv : convLit fty.itemTy l = .ok (some s)) :
    parseContainerTok fty (.bare w) = .ok (mkContainer fty [s]) := by
  simp [parseContainerTok, hw, hconv]

/-- **whole containers**: every destination of a list / tuple field receives a whole container
    of the field's kind.  (This statement alone speaks about the KIND of what arrives; WHICH
    container arrives is `c11_n` / `c11_one` + `duplicate_n` / `shortcut_none_of_container` — the
    parsed values are handed on unchanged — and `c11_absent_container` for the absent option; the
    items are values of the item type by `parseContainerTok_typed`.)  In detail: every destination receives a whole container
    of the field's kind — with n tokens the i-th token's container, with one token that token's
    container (`c11_n`, `c11_one`), never an element of it. Any n, any number and shape of tokens. -/
theorem c11_whole_containers (fty : FieldTy) (n : Nat) (src : DefaultSrc) (toks : List Tok)
    (out : List Val) (hc : fty.isContainer = true)
    (hrun : runField fty n src (some toks) = .ok out) :
    ∀ v ∈ out, ∃ l, v = mkContainer fty l := by
  cases hsetup : setupDefault fty n src with
  | error e => simp [runField, hsetup] at hrun
  | ok d =>
    cases hargs : argparseValues fty (isRequired src) toks with
    | error e => simp [runField, hsetup, hargs] at hrun
    | ok vs =>
      simp only [runField, hsetup, hargs, distribute] at hrun
      have hparse : mapE (parseTok fty) toks = .ok vs := by
        unfold argparseValues at hargs
        split at hargs
        · cases hargs
        · exact hargs
      have hvs : ∀ v ∈ vs, ∃ l, v = mkContainer fty l := by
        intro v hv
        obtain ⟨tok, _, hp⟩ := mapE_mem _ _ _ hparse v hv
        exact parseTok_container fty hc tok v hp
      cases hdup : duplicate fty n vs with
      | error e => simp [hdup] at hrun
      | ok ws =>
        simp only [hdup] at hrun
        have hws : ∀ v ∈ ws, ∃ l, v = mkContainer fty l := by
          unfold duplicate at hdup
          rw [shortcut_none_of_container fty n vs hc] at hdup
          simp only at hdup
          split at hdup
          · simp only [Except.ok.injEq] at hdup; subst hdup; exact hvs
          · split at hdup
            · rename_i v0
              simp only [Except.ok.injEq] at hdup; subst hdup
              intro v hv
              have := (List.mem_replicate.mp hv).2
              subst this
              exact hvs _ (by simp)
            · cases hdup
        intro v hv
        obtain ⟨w, hw, hp⟩ := mapE_mem _ _ _ hrun v hv
        obtain ⟨l, rfl⟩ := hws w (List.mem_of_mem_take hw)
        rw [post_mkContainer fty l hc] at hp
        simp only [Except.ok.injEq] at hp
        exact ⟨l, hp.symm⟩

/-- the same for the absent option: the destinations receive whole default containers -/
theorem c11_whole_containers_absent (fty : FieldTy) (l : List Scalar) (n : Nat) (hn : 2 ≤ n)
    (hc : fty.isContainer = true) (out : List Val)
    (hrun : runField fty n (.field (some (mkContainer fty l))) none = .ok out) :
    ∀ v ∈ out, v = mkContainer fty l := by
  rw [c11_absent_container fty l n hn hc] at hrun
  simp only [Except.ok.injEq] at hrun
  subst hrun
  intro v hv
  exact (List.mem_replicate.mp hv).2

/-! ### lengths: a successful run yields exactly one value per destination -/

theorem elems_length (v : Val) : v.elems.length = v.len := by
  cases v <;> simp [Val.elems, Val.len]

theorem shortcut_some_length (fty : FieldTy) (n : Nat) (vs r : List Val)
    (h : shortcut fty n vs = some r) : r.length = n := by
  unfold shortcut at h
  split at h
  · split at h
    · rename_i v
      split at h
      · rename_i hc
        simp only [Option.some.injEq] at h
        subst h
        simp only [Bool.and_eq_true, decide_eq_true_eq] at hc
        rw [elems_length]; exact hc.2
      · cases h
    · cases h
  · cases h

/-- whatever `duplicate_if_needed` returns has exactly n entries, so the `zip` with the
    destinations (`take n` in the model) never drops or misses a destination -/
theorem duplicate_length (fty : FieldTy) (n : Nat) (vs ws : List Val)
    (h : duplicate fty n vs = .ok ws) : ws.length = n := by
  unfold duplicate at h
  cases hs : shortcut fty n vs with
  | some r =>
    rw [hs] at h
    simp only [Except.ok.injEq] at h
    subst h
    exact shortcut_some_length fty n vs r hs
  | none =>
    rw [hs] at h
    simp only at h
    split at h
    · rename_i hl
      simp only [Except.ok.injEq] at h; subst h; exact hl
    · split at h
      · simp only [Except.ok.injEq] at h; subst h; simp
      · cases h

theorem distribute_length (fty : FieldTy) (n : Nat) (vs out : List Val)
    (h : distribute fty n vs = .ok out) : out.length = n := by
  unfold distribute at h
  cases hd : duplicate fty n vs with
  | error e => rw [hd] at h; cases h
  | ok ws =>
    rw [hd] at h
    have hl := duplicate_length fty n vs ws hd
    have := mapE_length _ _ _ h
    rw [this, List.length_take, hl]; simp

/-- **one value per destination**: every successful run — option given or absent, any field
    type, any n — returns exactly n values -/
theorem runField_length (fty : FieldTy) (n : Nat) (src : DefaultSrc) (arg : Option (List Tok))
    (out : List Val) (h : runField fty n src arg = .ok out) : out.length = n := by
  unfold runField at h
  cases hs : setupDefault fty n src with
  | error e => rw [hs] at h; cases h
  | ok d =>
    rw [hs] at h
    cases arg with
    | some toks =>
      simp only at h
      cases ha : argparseValues fty (isRequired src) toks with
      | error e => rw [ha] at h; cases h
      | ok vs => rw [ha] at h; exact distribute_length fty n vs out h
    | none =>
      simp only at h
      cases d with
      | none => cases h
      | some dv => exact distribute_length fty n dv out h

/-! ### valid tokens: the run SUCCEEDS -/

/-- whatever the `type=` callable of the field accepts, `postprocess` accepts too -/
theorem post_of_parse (fty : FieldTy) (tok : Tok) (v : Val) (h : parseTok fty tok = .ok v) :
    ∃ v', postprocess fty v = .ok v' := by
  cases fty with
  | scalar t =>
    cases t with
    | enum ms =>
      simp only [parseTok, parseScalarTok] at h
      split at h
      · rename_i hm
        simp only [Except.ok.injEq] at h; subst h
        exact ⟨.sc (.enum tok.render), by simp [postprocess, hm]⟩
      · cases h
    | int => exact ⟨v, rfl⟩
    | float => exact ⟨v, rfl⟩
    | str => exact ⟨v, rfl⟩
    | bool => exact ⟨v, rfl⟩
  | list t =>
    obtain ⟨l, rfl⟩ := parseTok_container (.list t) rfl tok v h
    exact ⟨_, post_mkContainer _ l rfl⟩
  | tuple ts =>
    obtain ⟨l, rfl⟩ := parseTok_container (.tuple ts) rfl tok v h
    exact ⟨_, post_mkContainer _ l rfl⟩
  | vtuple t =>
    obtain ⟨l, rfl⟩ := parseTok_container (.vtuple t) rfl tok v h
    exact ⟨_, post_mkContainer _ l rfl⟩

theorem mapE_total {α β : Type} (f : α → Res β) (l : List α) (h : ∀ a ∈ l, ∃ b, f a = .ok b) :
    ∃ r, mapE f l = .ok r := by
  induction l with
  | nil => exact ⟨[], rfl⟩
  | cons a as ih =>
    obtain ⟨b, hb⟩ := h a (by simp)
    obtain ⟨r, hr⟩ := ih (fun x hx => h x (by simp [hx]))
    exact ⟨b :: r, by simp [mapE, hb, hr]⟩

/-- **one value, success**: a single token that `type=` accepts reaches every destination — no
    assumption about `postprocess` -/
theorem c11_one_ok (fty : FieldTy) (n : Nat) (src : DefaultSrc) (tok : Tok) (v : Val)
    (d : Option (List Val)) (hn : 2 ≤ n) (hsetup : setupDefault fty n src = .ok d)
    (hparse : parseTok fty tok = .ok v) :
    ∃ v', postprocess fty v = .ok v' ∧ runField fty n src (some [tok]) = .ok (List.replicate n v') := by
  obtain ⟨v', hv'⟩ := post_of_parse fty tok v hparse
  exact ⟨v', hv', c11_one fty n src tok v v' d hn hsetup hparse hv'⟩

/-- **n values, success**: n tokens that `type=` accepts give a result with n entries, the
    i-th being the i-th token's value (`c11_n_index`) -/
theorem c11_n_ok (fty : FieldTy) (n : Nat) (src : DefaultSrc) (toks : List Tok)
    (d : Option (List Val)) (hn : 2 ≤ n) (hk : toks.length = n)
    (hsetup : setupDefault fty n src = .ok d)
    (hvalid : ∀ tok ∈ toks, ∃ v, parseTok fty tok = .ok v) :
    ∃ out, runField fty n src (some toks) = .ok out ∧ out.length = n := by
  obtain ⟨vs, hvs⟩ := mapE_total _ toks hvalid
  rw [c11_n fty n src toks vs d hn hk hsetup hvs]
  have hpost : ∀ v ∈ vs, ∃ v', postprocess fty v = .ok v' := by
    intro v hv
    obtain ⟨tok, _, hp⟩ := mapE_mem _ _ _ hvs v hv
    exact post_of_parse fty tok v hp
  obtain ⟨out, hout⟩ := mapE_total _ vs hpost
  refine ⟨out, hout, ?_⟩
  rw [mapE_length _ _ _ hout, mapE_length _ _ _ hvs, hk]

/-! ### what a token denotes (closed forms for the word classes that need no lexical assumption) -/

/-- a member NAME given to an enum field yields that member at every destination -/
theorem c11_one_enum (ms : List Str) (w : Str) (n : Nat) (src : DefaultSrc) (d : Option (List Val))
    (hn : 2 ≤ n) (hsetup : setupDefault (.scalar (.enum ms)) n src = .ok d) (hw : w ∈ ms) :
    runField (.scalar (.enum ms)) n src (some [.bare w]) = .ok (List.replicate n (.sc (.enum w))) := by
  apply c11_one _ n src _ (.sc (.str w)) _ d hn hsetup
  · simp [parseTok, parseScalarTok, Tok.render, hw]
  · simp [postprocess, hw]

/-- a word that is no member name is rejected by argparse (`choices=`), whatever else is given -/
theorem c11_enum_not_member (ms : List Str) (w : Str) (n : Nat) (src : DefaultSrc)
    (d : Option (List Val)) (hsetup : setupDefault (.scalar (.enum ms)) n src = .ok d) (hw : w ∉ ms) :
    runField (.scalar (.enum ms)) n src (some [.bare w]) = .error (.exit2 .choice) := by
  simp [runField, hsetup, argparseValues, mapE, parseTok, parseScalarTok, Tok.render, hw]

/-- a word of the boolean vocabulary (C12: `str2bool`) yields that boolean at every destination -/
theorem c11_one_bool (w : Str) (b : Bool) (n : Nat) (src : DefaultSrc) (d : Option (List Val))
    (hn : 2 ≤ n) (hsetup : setupDefault (.scalar .bool) n src = .ok d) (hw : str2bool w = some b) :
    runField (.scalar .bool) n src (some [.bare w]) = .ok (List.replicate n (.sc (.bool b))) := by
  apply c11_one _ n src _ (.sc (.bool b)) _ d hn hsetup
  · simp [parseTok, parseScalarTok, Tok.render, convStr, hw]
  · rfl

/-- any string given to a str field is that string at every destination -/
theorem c11_one_str (w : Str) (n : Nat) (src : DefaultSrc) (d : Option (List Val))
    (hn : 2 ≤ n) (hsetup : setupDefault (.scalar .str) n src = .ok d) :
    runField (.scalar .str) n src (some [.bare w]) = .ok (List.replicate n (.sc (.str w))) := by
  apply c11_one _ n src _ (.sc (.str w)) _ d hn hsetup
  · simp [parseTok, parseScalarTok, Tok.render, convStr]
  · rfl

theorem litWords_alpha (ws : List Str) (h : ∀ w ∈ ws, classify w = .alpha) :
    litWords ws = .ok (if ws.isEmpty then some [] else none) := by
  induction ws with
  | nil => rfl
  | cons w r ih =>
    have hr := ih (fun x hx => h x (by simp [hx]))
    simp only [litWords, h w (by simp), hr]
    cases r <;> simp

/-- **one container, three spellings**: for identifier-like words (member names, boolean words,
    plain strings) `[a,b]`, `a,b` and the quoted `"a b"` denote the same container: the items
    converted by the item parser, in order -/
theorem parseContainerTok_alpha (fty : FieldTy) (ws : List Str) (ss : List Scalar) (hne : ws ≠ [])
    (halpha : ∀ w ∈ ws, classify w = .alpha) (hconv : convStrs fty.itemTy ws = .ok ss) :
    parseContainerTok fty (.bracket true ws) = .ok (mkContainer fty ss)
    ∧ parseContainerTok fty (.comma ws) = .ok (mkContainer fty ss)
    ∧ parseContainerTok fty (.spaced ws) = .ok (mkContainer fty ss) := by
  have hlit := litWords_alpha ws halpha
  have he : ws.isEmpty = false := by cases ws <;> simp_all
  simp only [he, Bool.false_eq_true, ↓reduceIte] at hlit
  have hfb : ∀ tok : Tok, tok.fallbackWords = ws → fallbackParse fty tok = .ok (mkContainer fty ss) := by
    intro tok ht; simp [fallbackParse, ht, hconv]
  refine ⟨?_, ?_, ?_⟩
  · simp only [parseContainerTok, hlit]
    apply hfb
    cases ws with
    | nil => exact absurd rfl hne
    | cons a r => rfl
  · simp only [parseContainerTok, hlit]
    exact hfb _ rfl
  · simp only [parseContainerTok]
    exact hfb _ rfl

/-! ### items are parsed by the container's item parser — and only the FIRST item type is used -/

/-- the scalar is a value of the item type (for an enum: a member) -/
def hasTy : ItemTy → Scalar → Bool
  | .int, .int _ => true
  | .float, .float _ => true
  | .str, .str _ => true
  | .bool, .bool _ => true
  | .enum ms, .enum nm => decide (nm ∈ ms)
  | _, _ => false

theorem convStr_hasTy (t : ItemTy) (w : Str) (s : Scalar) (h : convStr t w = .ok s) : hasTy t s = true := by
  cases t with
  | str => simp only [convStr, Conv.ok.injEq] at h; subst h; rfl
  | bool =>
    simp only [convStr] at h
    split at h
    · simp only [Conv.ok.injEq] at h; subst h; rfl
    · cases h
  | enum ms =>
    simp only [convStr] at h
    split at h
    · rename_i hm; simp only [Conv.ok.injEq] at h; subst h; simp [hasTy, hm]
    · cases h
  | int =>
    simp only [convStr] at h
    split at h
    · simp only [Conv.ok.injEq] at h; subst h; rfl
    · cases h
    · cases h
    · split at h <;> cases h
  | float =>
    simp only [convStr] at h
    split at h
    · split at h
      · simp only [Conv.ok.injEq] at h; subst h; rfl
      · cases h
    · simp only [Conv.ok.injEq] at h; subst h; rfl
    · cases h
    · cases h
    · split at h <;> cases h

theorem convLit_hasTy (t : ItemTy) (l : Lit) (s : Scalar) (h : convLit t l = .ok (some s)) :
    hasTy t s = true := by
  cases t <;> cases l <;> simp only [convLit] at h
  all_goals first
    | (simp only [Conv.ok.injEq, Option.some.injEq] at h; subst h; rfl)
    | (split at h
       · simp only [Conv.ok.injEq, Option.some.injEq] at h; subst h; rfl
       · cases h)
    | cases h
    | (simp at h)

theorem convStrs_hasTy (t : ItemTy) (ws : List Str) (ss : List Scalar) (h : convStrs t ws = .ok ss) :
    ∀ s ∈ ss, hasTy t s = true := by
  induction ws generalizing ss with
  | nil => simp only [convStrs, Except.ok.injEq] at h; subst h; simp
  | cons w r ih =>
    simp only [convStrs] at h
    cases hc : convStr t w with
    | unmodelled => rw [hc] at h; cases h
    | fail e => rw [hc] at h; cases h
    | ok s0 =>
      rw [hc] at h
      cases hr : convStrs t r with
      | error e => rw [hr] at h; cases h
      | ok rs =>
        rw [hr] at h
        simp only [Except.ok.injEq] at h; subst h
        intro s hs
        rcases List.mem_cons.mp hs with h1 | h1
        · subst h1; exact convStr_hasTy t w _ hc
        · exact ih rs hr s h1

theorem convLits_hasTy (t : ItemTy) (ls : List Lit) (ss : List Scalar)
    (h : convLits t ls = .ok (some ss)) : ∀ s ∈ ss, hasTy t s = true := by
  induction ls generalizing ss with
  | nil => simp only [convLits, Conv.ok.injEq, Option.some.injEq] at h; subst h; simp
  | cons l r ih =>
    simp only [convLits] at h
    cases hc : convLit t l with
    | unmodelled => rw [hc] at h; cases h
    | fail e => rw [hc] at h; cases h
    | ok o =>
      rw [hc] at h
      cases o with
      | none =>
        simp only at h
        split at h <;> cases h
      | some s0 =>
        simp only at h
        cases hr : convLits t r with
        | unmodelled => rw [hr] at h; cases h
        | fail e => rw [hr] at h; cases h
        | ok o2 =>
          rw [hr] at h
          cases o2 with
          | none => cases h
          | some rs =>
            simp only [Conv.ok.injEq, Option.some.injEq] at h; subst h
            intro s hs
            rcases List.mem_cons.mp hs with h1 | h1
            · subst h1; exact convLit_hasTy t l _ hc
            · exact ih rs hr s h1

theorem fallbackParse_typed (fty : FieldTy) (tok : Tok) (v : Val) (h : fallbackParse fty tok = .ok v) :
    ∃ l, v = mkContainer fty l ∧ ∀ s ∈ l, hasTy fty.itemTy s = true := by
  unfold fallbackParse at h
  split at h
  · rename_i ss hss
    simp only [Except.ok.injEq] at h
    exact ⟨ss, h.symm, convStrs_hasTy _ _ _ hss⟩
  · cases h

/-- **every item of every parsed container is a value of the container's item type** (the type
    of a `List[T]` / `Tuple[T, ...]`, the FIRST type of a `Tuple[T1, T2, …]`), whatever the token
    shape: an int field never receives a str item, an enum field only members, … -/
theorem parseContainerTok_typed (fty : FieldTy) (tok : Tok) (v : Val)
    (h : parseContainerTok fty tok = .ok v) :
    ∃ l, v = mkContainer fty l ∧ ∀ s ∈ l, hasTy fty.itemTy s = true := by
  unfold parseContainerTok at h
  cases tok with
  | bare w =>
    simp only at h
    split at h
    · cases h
    · exact fallbackParse_typed fty _ v h
    · split at h
      · cases h
      · cases h
      · exact fallbackParse_typed fty _ v h
      · rename_i s0 hs0
        simp only [Except.ok.injEq] at h
        refine ⟨[s0], h.symm, ?_⟩
        intro s hs; simp only [List.mem_singleton] at hs; subst hs
        exact convLit_hasTy _ _ _ hs0
  | spaced ws => exact fallbackParse_typed fty _ v h
  | comma ws =>
    simp only at h
    split at h
    · cases h
    · cases h
    · exact fallbackParse_typed fty _ v h
    · split at h
      · cases h
      · cases h
      · exact fallbackParse_typed fty _ v h
      · rename_i ss hss
        simp only [Except.ok.injEq] at h
        exact ⟨ss, h.symm, convLits_hasTy _ _ _ hss⟩
  | bracket sq ws =>
    simp only at h
    split at h
    · cases h
    · cases h
    · exact fallbackParse_typed fty _ v h
    · split at h
      · cases h
      · cases h
      · exact fallbackParse_typed fty _ v h
      · rename_i ss hss
        simp only [Except.ok.injEq] at h
        exact ⟨ss, h.symm, convLits_hasTy _ _ _ hss⟩

theorem mkContainer_inj (fty : FieldTy) (l l' : List Scalar) (h : mkContainer fty l = mkContainer fty l') :
    l = l' := by
  unfold mkContainer at h
  split at h <;> simpa using h

/-- the annotated type of position i -/
def itemTyAt : FieldTy → Nat → Option ItemTy
  | .list t, _ => some t
  | .vtuple t, _ => some t
  | .tuple ts, i => ts[i]?
  | .scalar _, _ => none

/-- the full statement: the item at position i is a value of the type annotated for position i … -/
def PositionTyped : Prop :=
  ∀ (fty : FieldTy) (tok : Tok) (l : List Scalar), fty.isContainer = true →
    parseContainerTok fty tok = .ok (mkContainer fty l) →
    ∀ (i : Nat) (hi : i < l.length) (t : ItemTy), itemTyAt fty i = some t → hasTy t l[i] = true

/-- … is refuted by a heterogeneous tuple (open finding C11-hetero-tuple): `Tuple[str,int]`
    given `[b,2]` yields `('b', '2')` — a str where an int is annotated -/
theorem c11_hetero_tuple_witness : ¬ PositionTyped := by
  intro h
  have := h (.tuple [.str, .int]) (.bracket true ["b".toList, "2".toList])
    [.str "b".toList, .str "2".toList] rfl (by decide) 1 (by simp) .int rfl
  simp [hasTy] at this

/-- the other face of the same defect: `Tuple[int,str]` rejects its own values (every position is
    parsed by `int`): `[2,b]`, `2 b` and `2,b` are argparse errors -/
theorem c11_hetero_tuple_reject_witness :
    parseContainerTok (.tuple [.int, .str]) (.bracket true ["2".toList, "b".toList]) = .error (.exit2 .type)
    ∧ parseContainerTok (.tuple [.int, .str]) (.spaced ["2".toList, "b".toList]) = .error (.exit2 .type)
    ∧ parseContainerTok (.tuple [.int, .str]) (.comma ["2".toList, "b".toList]) = .error (.exit2 .type) := by
  decide

/-- named exclusion: every annotated position has the first position's type -/
def homogeneous : FieldTy → Bool
  | .tuple (t :: ts) => ts.all (fun x => decide (x = t))
  | _ => true

theorem itemTyAt_homogeneous (fty : FieldTy) (hh : homogeneous fty = true) (i : Nat) (t : ItemTy)
    (h : itemTyAt fty i = some t) : t = fty.itemTy := by
  cases fty with
  | scalar t0 => simp [itemTyAt] at h
  | list t0 => simp only [itemTyAt, Option.some.injEq] at h; exact h.symm
  | vtuple t0 => simp only [itemTyAt, Option.some.injEq] at h; exact h.symm
  | tuple ts =>
    cases ts with
    | nil => simp [itemTyAt] at h
    | cons t0 r =>
      cases i with
      | zero => simp only [itemTyAt, List.getElem?_cons_zero, Option.some.injEq] at h; exact h.symm
      | succ j =>
        simp only [itemTyAt, List.getElem?_cons_succ] at h
        have hm : t ∈ r := List.mem_of_getElem? h
        simp only [homogeneous, List.all_eq_true, decide_eq_true_eq] at hh
        exact hh t hm

/-- **position-typed (partial)**: for `List[T]`, `Tuple[T, ...]` and tuples whose positions all
    have the same type, every position holds a value of its annotated type -/
theorem c11_position_typed_partial (fty : FieldTy) (tok : Tok) (l : List Scalar)
    (hh : homogeneous fty = true)
    (h : parseContainerTok fty tok = .ok (mkContainer fty l))
    (i : Nat) (hi : i < l.length) (t : ItemTy) (ht : itemTyAt fty i = some t) :
    hasTy t l[i] = true := by
  obtain ⟨l', hl', htyped⟩ := parseContainerTok_typed fty tok _ h
  have := mkContainer_inj fty l l' hl'
  subst this
  rw [itemTyAt_homogeneous fty hh i t ht]
  exact htyped _ (List.getElem_mem hi)

/-! ### the whole-parse model used by the correspondence check reduces to `runField` -/

def wrap1 : Res (List Val) → Res (List (List Val))
  | .ok x => .ok [x]
  | .error e => .error e

/-- one field, option given once: `runCase` (set-up, argparse, required check, distribution) is `runField` -/
theorem runCase_single_given (fty : FieldTy) (n : Nat) (src : DefaultSrc) (toks : List Tok) :
    runCase n [⟨fty, src⟩] [(0, toks)] = wrap1 (runField fty n src (some toks)) := by
  unfold runCase runField
  simp only [setupAll]
  cases hs : setupDefault fty n src with
  | error e => rfl
  | ok d =>
    simp only [argparseAll, List.getElem?_cons_zero]
    cases ha : argparseValues fty (isRequired src) toks with
    | error e => rfl
    | ok vs =>
      simp only [storedAll, lookupLast, ↓reduceIte, distributeAll]
      cases distribute fty n vs <;> rfl

/-- one field, option absent -/
theorem runCase_single_absent (fty : FieldTy) (n : Nat) (src : DefaultSrc) :
    runCase n [⟨fty, src⟩] [] = wrap1 (runField fty n src none) := by
  unfold runCase runField
  simp only [setupAll]
  cases hs : setupDefault fty n src with
  | error e => rfl
  | ok d =>
    simp only [argparseAll]
    cases d with
    | none => rfl
    | some dv =>
      simp only [storedAll, lookupLast, distributeAll]
      cases distribute fty n dv <;> rfl

/-! ### several fields of one class: the phases of a whole parse do not mix the fields up -/

theorem runField_given_ok (fty : FieldTy) (n : Nat) (src : DefaultSrc) (toks : List Tok) (out : List Val)
    (h : runField fty n src (some toks) = .ok out) :
    ∃ d vs, setupDefault fty n src = .ok d ∧ argparseValues fty (isRequired src) toks = .ok vs
      ∧ distribute fty n vs = .ok out := by
  unfold runField at h
  cases hs : setupDefault fty n src with
  | error e => rw [hs] at h; cases h
  | ok d =>
    rw [hs] at h
    simp only at h
    cases ha : argparseValues fty (isRequired src) toks with
    | error e => rw [ha] at h; cases h
    | ok vs => rw [ha] at h; exact ⟨d, vs, rfl, rfl, h⟩

theorem runField_absent_ok (fty : FieldTy) (n : Nat) (src : DefaultSrc) (out : List Val)
    (h : runField fty n src none = .ok out) :
    ∃ dv, setupDefault fty n src = .ok (some dv) ∧ distribute fty n dv = .ok out := by
  unfold runField at h
  cases hs : setupDefault fty n src with
  | error e => rw [hs] at h; cases h
  | ok d =>
    rw [hs] at h
    cases d with
    | none => cases h
    | some dv => exact ⟨dv, rfl, h⟩

/-- **two fields, both given** (either order on the command line): each field's destinations get
    exactly what the field alone would give them -/
theorem runCase_two_given (n : Nat) (f0 f1 : FieldCase) (t0 t1 : List Tok) (o0 o1 : List Val)
    (h0 : runField f0.fty n f0.src (some t0) = .ok o0)
    (h1 : runField f1.fty n f1.src (some t1) = .ok o1) :
    runCase n [f0, f1] [(0, t0), (1, t1)] = .ok [o0, o1]
    ∧ runCase n [f0, f1] [(1, t1), (0, t0)] = .ok [o0, o1] := by
  obtain ⟨d0, vs0, hs0, ha0, hd0⟩ := runField_given_ok _ _ _ _ _ h0
  obtain ⟨d1, vs1, hs1, ha1, hd1⟩ := runField_given_ok _ _ _ _ _ h1
  constructor <;>
    simp [runCase, setupAll, hs0, hs1, argparseAll, ha0, ha1, storedAll, lookupLast, distributeAll, hd0, hd1]

/-- **two fields, one absent**: the absent field's destinations get its defaults, the other's
    get the values — in either declaration position -/
theorem runCase_two_one_absent (n : Nat) (f0 f1 : FieldCase) (t : List Tok) (o0 o1 : List Val) :
    (runField f0.fty n f0.src (some t) = .ok o0 → runField f1.fty n f1.src none = .ok o1 →
      runCase n [f0, f1] [(0, t)] = .ok [o0, o1])
    ∧ (runField f0.fty n f0.src none = .ok o0 → runField f1.fty n f1.src (some t) = .ok o1 →
      runCase n [f0, f1] [(1, t)] = .ok [o0, o1]) := by
  constructor
  · intro h0 h1
    obtain ⟨d0, vs0, hs0, ha0, hd0⟩ := runField_given_ok _ _ _ _ _ h0
    obtain ⟨dv1, hs1, hd1⟩ := runField_absent_ok _ _ _ _ h1
    simp [runCase, setupAll, hs0, hs1, argparseAll, ha0, storedAll, lookupLast, distributeAll, hd0, hd1]
  · intro h0 h1
    obtain ⟨dv0, hs0, hd0⟩ := runField_absent_ok _ _ _ _ h0
    obtain ⟨d1, vs1, hs1, ha1, hd1⟩ := runField_given_ok _ _ _ _ _ h1
    simp [runCase, setupAll, hs0, hs1, argparseAll, ha1, storedAll, lookupLast, distributeAll, hd0, hd1]

/-- **an option given twice**: argparse's `store` keeps the LAST occurrence (the earlier one must
    still be acceptable to `type=`) -/
theorem runCase_last_wins (fty : FieldTy) (n : Nat) (src : DefaultSrc) (t0 t1 : List Tok) (vs0 : List Val)
    (h0 : argparseValues fty (isRequired src) t0 = .ok vs0) :
    runCase n [⟨fty, src⟩] [(0, t0), (0, t1)] = wrap1 (runField fty n src (some t1)) := by
  unfold runCase runField
  simp only [setupAll]
  cases hs : setupDefault fty n src with
  | error e => rfl
  | ok d =>
    simp only [argparseAll, List.getElem?_cons_zero, h0]
    cases ha : argparseValues fty (isRequired src) t1 with
    | error e => rfl
    | ok vs =>
      simp only [storedAll, lookupLast, ↓reduceIte, distributeAll]
      cases distribute fty n vs <;> rfl

/-! ### registration order of the merged destinations (`DataclassWrapper.merge`) -/

theorem appendNew_nodup (acc ds : List Str) (h : (acc ++ ds).Nodup) : appendNew acc ds = acc ++ ds := by
  induction ds generalizing acc with
  | nil => simp [appendNew]
  | cons d r ih =>
    have hd : d ∉ acc := by
      intro hm
      have := List.nodup_append.mp h
      exact this.2.2 d hm d (by simp) rfl
    simp only [appendNew, hd, ↓reduceIte]
    have : (acc ++ [d] ++ r).Nodup := by simpa using h
    rw [ih (acc ++ [d]) this]
    simp

/-- a wrapper without nested members, registered at destination `d`, carrying default instances `f` -/
def leafW (d : Str) (f : List Nat) : DW := .mk [d] f []

theorem extendDefaults_assoc (root : Bool) (f r rest : List Nat) :
    extendDefaults root (extendDefaults root f r) rest = extendDefaults root f (r ++ rest) := by
  unfold extendDefaults
  cases root <;> cases f <;> simp

theorem mergeAll_leaves (root : Bool) (acc : List Str) (f : List Nat) (regs : List (Str × List Nat))
    (h : (acc ++ regs.map (·.1)).Nodup) :
    mergeAll root (.mk acc f []) (regs.map (fun r => leafW r.1 r.2))
      = .mk (acc ++ regs.map (·.1)) (extendDefaults root f (regs.map (·.2)).flatten) [] := by
  induction regs generalizing acc f with
  | nil => cases root <;> cases f <;> simp [mergeAll, extendDefaults]
  | cons r rs ih =>
    have hd : r.1 ∉ acc := by
      intro hm
      have := List.nodup_append.mp h
      exact this.2.2 r.1 hm r.1 (by simp) rfl
    have h' : ((acc ++ [r.1]) ++ rs.map (·.1)).Nodup := by simpa using h
    have := ih (acc ++ [r.1]) (extendDefaults root f r.2) h'
    simp only [mergeAll, List.map_cons, List.foldl_cons] at this ⊢
    simp only [leafW, DW.merge, appendNew, hd, ↓reduceIte, mergeChildren]
    simp only [leafW] at this
    rw [this, extendDefaults_assoc]
    simp

/-- **registration order**: the same class registered at n pairwise different destinations
    `d₀ … d_{n-1}` (any n) is merged into ONE wrapper whose destinations are exactly
    `d₀ … d_{n-1}` in registration order; the default instances follow in the same order
    (for directly registered classes only if the FIRST registration has one: otherwise the code
    drops them all — see `extendDefaults`). -/
theorem c11_registration_order (root : Bool) (d0 : Str) (f0 : List Nat) (regs : List (Str × List Nat))
    (h : (d0 :: regs.map (·.1)).Nodup) :
    (mergeAll root (leafW d0 f0) (regs.map (fun r => leafW r.1 r.2))).dests = d0 :: regs.map (·.1)
    ∧ (mergeAll root (leafW d0 f0) (regs.map (fun r => leafW r.1 r.2))).defaults
        = extendDefaults root f0 (regs.map (·.2)).flatten := by
  have := mergeAll_leaves root [d0] f0 regs (by simpa using h)
  simp only [leafW] at this ⊢
  rw [this]
  exact ⟨rfl, rfl⟩

/-- every registration carries a default instance: none is lost, the order is kept -/
theorem c11_registration_order_defaults (root : Bool) (d0 : Str) (i0 : Nat) (regs : List (Str × List Nat))
    (h : (d0 :: regs.map (·.1)).Nodup) :
    (mergeAll root (leafW d0 [i0]) (regs.map (fun r => leafW r.1 r.2))).defaults
        = i0 :: (regs.map (·.2)).flatten := by
  rw [(c11_registration_order root d0 [i0] regs h).2]
  cases root <;> simp [extendDefaults]

/-! ### nested members: the enclosing wrappers merge first, their children pairwise -/

/-- a registered class `P{m: C}` at destination `p`: one child wrapper at `c` with default instances `g` -/
def parentW (p c : Str) (g : List Nat) : DW := .mk [p] [] [leafW c g]

theorem mergeAll_one_child (root : Bool) (accP accC : List Str) (f : List Nat)
    (regs : List (Str × Str × List Nat))
    (hP : (accP ++ regs.map (·.1)).Nodup) (hC : (accC ++ regs.map (·.2.1)).Nodup) :
    mergeAll root (.mk accP [] [.mk accC f []]) (regs.map (fun r => parentW r.1 r.2.1 r.2.2))
      = .mk (accP ++ regs.map (·.1)) []
          [.mk (accC ++ regs.map (·.2.1)) (f ++ (regs.map (·.2.2)).flatten) []] := by
  induction regs generalizing accP accC f with
  | nil => simp [mergeAll]
  | cons r rs ih =>
    have hdP : r.1 ∉ accP := by
      intro hm
      exact (List.nodup_append.mp hP).2.2 r.1 hm r.1 (by simp) rfl
    have hdC : r.2.1 ∉ accC := by
      intro hm
      exact (List.nodup_append.mp hC).2.2 r.2.1 hm r.2.1 (by simp) rfl
    have hP' : ((accP ++ [r.1]) ++ rs.map (·.1)).Nodup := by simpa using hP
    have hC' : ((accC ++ [r.2.1]) ++ rs.map (·.2.1)).Nodup := by simpa using hC
    have := ih (accP ++ [r.1]) (accC ++ [r.2.1]) (f ++ r.2.2) hP' hC'
    simp only [mergeAll, List.map_cons, List.foldl_cons] at this ⊢
    have hstep : DW.merge root (.mk accP [] [.mk accC f []]) (parentW r.1 r.2.1 r.2.2)
        = .mk (accP ++ [r.1]) [] [.mk (accC ++ [r.2.1]) (f ++ r.2.2) []] := by
      cases root <;>
        simp [parentW, leafW, DW.merge, mergeChildren, appendNew, hdP, hdC, extendDefaults]
    rw [hstep, this]
    simp

/-- **registration order, nested members**: `P{m: C}` registered at `p₀ … p_{n-1}` (P wrappers
    merged first, e.g. because P has a field of its own): the merged C wrapper has the member
    destinations `p₀.m … p_{n-1}.m` and their default instances in registration order — any n -/
theorem c11_registration_order_nested (root : Bool) (p0 c0 : Str) (g0 : List Nat)
    (regs : List (Str × Str × List Nat))
    (hP : (p0 :: regs.map (·.1)).Nodup) (hC : (c0 :: regs.map (·.2.1)).Nodup) :
    mergeAll root (parentW p0 c0 g0) (regs.map (fun r => parentW r.1 r.2.1 r.2.2))
      = .mk (p0 :: regs.map (·.1)) []
          [.mk (c0 :: regs.map (·.2.1)) (g0 ++ (regs.map (·.2.2)).flatten) []] := by
  have := mergeAll_one_child root [p0] [c0] g0 regs (by simpa using hP) (by simpa using hC)
  simpa [parentW, leafW] using this

/-- which destination holds which value: `zip(self.destinations, values)` -/
def assign (dests : List Str) (out : List Val) : List (Str × Val) := dests.zip out

/-- **n values, by destination name**: the same class registered at `d₀ … d_{n-1}` and an option
    given n tokens: the i-th REGISTERED destination is paired with the post-processed parse of the
    i-th token (part A's order + part B's positions) -/
theorem c11_n_assigned (root : Bool) (fty : FieldTy) (src : DefaultSrc) (d0 : Str)
    (regs : List (Str × List Nat)) (toks : List Tok) (out : List Val) (d : Option (List Val))
    (hnd : (d0 :: regs.map (·.1)).Nodup) (hn : 2 ≤ regs.length + 1) (hk : toks.length = regs.length + 1)
    (hsetup : setupDefault fty (regs.length + 1) src = .ok d)
    (hrun : runField fty (regs.length + 1) src (some toks) = .ok out)
    (i : Nat) (hi : i < regs.length + 1) :
    ∃ v, parseTok fty (toks[i]'(by omega)) = .ok v
      ∧ postprocess fty v = .ok (out[i]'(by
          rw [(c11_n_index fty _ src toks out d hn hk hsetup hrun).1]; exact hi))
      ∧ (assign (mergeAll root (leafW d0 []) (regs.map (fun r => leafW r.1 r.2))).dests out)[i]?
          = some ((d0 :: regs.map (·.1))[i]'(by simpa using hi),
                  out[i]'(by rw [(c11_n_index fty _ src toks out d hn hk hsetup hrun).1]; exact hi)) := by
  obtain ⟨hlen, hidx⟩ := c11_n_index fty _ src toks out d hn hk hsetup hrun
  obtain ⟨v, hv, hp⟩ := hidx i (by omega) (by omega)
  refine ⟨v, hv, hp, ?_⟩
  rw [(c11_registration_order root d0 [] regs hnd).1]
  simp only [assign]
  rw [List.getElem?_eq_getElem (by simp [hlen]; omega)]
  simp

/-! ### open findings: witnesses -/

/-- the full statement "merging keeps every default instance, in order" … -/
def DefaultsKept : Prop :=
  ∀ (root : Bool) (d0 : Str) (f0 : List Nat) (regs : List (Str × List Nat)),
    (d0 :: regs.map (·.1)).Nodup →
    (mergeAll root (leafW d0 f0) (regs.map (fun r => leafW r.1 r.2))).defaults
      = f0 ++ (regs.map (·.2)).flatten

/-- … is refuted for directly registered classes (open finding C11-partial-default-instances):
    `add_arguments(C, "d0")`, `add_arguments(C, "d1", default=inst)` — d1's instance is dropped -/
theorem c11_partial_defaults_witness : ¬ DefaultsKept := by
  intro h
  have := h true "d0".toList [] [("d1".toList, [1])] (by decide)
  revert this
  decide

/-- the other two faces of C11-partial-default-instances: an instance at d0 only is handed to
    EVERY destination (d1 silently gets d0's value 10 instead of the class default), and instances
    at 2 of 3 destinations make set-up fail with the packaging AssertionError -/
theorem c11_partial_defaults_outcomes_witness :
    runField (.scalar .int) 2 (.parents [.sc (.int 10)]) none = .ok [.sc (.int 10), .sc (.int 10)]
    ∧ runField (.scalar .int) 3 (.parents [.sc (.int 1), .sc (.int 5)]) none
        = .error (.raise .assertionError) := by decide

/-- when every registration (or none) carries an instance nothing is lost
    (`c11_registration_order_defaults`, `c11_absent_parents`); nested wrappers never lose any -/
theorem c11_defaults_kept_partial (root : Bool) (d0 : Str) (f0 : List Nat) (regs : List (Str × List Nat))
    (hnd : (d0 :: regs.map (·.1)).Nodup) (hex : root = false ∨ f0 ≠ []) :
    (mergeAll root (leafW d0 f0) (regs.map (fun r => leafW r.1 r.2))).defaults
      = f0 ++ (regs.map (·.2)).flatten := by
  rw [(c11_registration_order root d0 f0 regs hnd).2]
  unfold extendDefaults
  rcases hex with h | h
  · subst h; simp
  · cases f0 with
    | nil => exact absurd rfl h
    | cons a r => simp

/-- the full statement "the merged member destinations follow the registrations: d0.m0, d0.m1,
    d1.m0, d1.m1" for `S{m0, m1: C}` at d0, d1 … -/
def SiblingsRegistrationMajor : Prop :=
  ∀ (sRootsMergeFirst : Bool),
    (let s0 : DW := .mk ["d0".toList] [] [leafW "d0.m0".toList [], leafW "d0.m1".toList []]
     let s1 : DW := .mk ["d1".toList] [] [leafW "d1.m0".toList [], leafW "d1.m1".toList []]
     let cs : List DW := if sRootsMergeFirst then (DW.merge true s0 s1).children
                         else s0.children ++ s1.children
     (mergeAll false (cs.headD (leafW [] [])) cs.tail).dests)
      = ["d0.m0".toList, "d0.m1".toList, "d1.m0".toList, "d1.m1".toList]

/-- … is refuted when S has a field of its own (open finding C11-order-depends-on-own-field): the
    S wrappers clash first and are merged first, their children pairwise, and the destinations
    become member-major d0.m0, d1.m0, d0.m1, d1.m1 — so `--fa 1 2 3 4` gives d1.m0 the 2nd value -/
theorem c11_order_own_field_witness : ¬ SiblingsRegistrationMajor := by
  intro h
  have := h true
  revert this
  decide

/-- without an own field on S (the member wrappers clash directly) the order IS registration-major -/
theorem c11_order_without_own_field :
    (mergeAll false (leafW "d0.m0".toList [])
      [leafW "d0.m1".toList [], leafW "d1.m0".toList [], leafW "d1.m1".toList []]).dests
      = ["d0.m0".toList, "d0.m1".toList, "d1.m0".toList, "d1.m1".toList] := by decide

/-! ### non-vacuity: the hypotheses are satisfiable by non-trivial inputs -/

-- c11_n: three destinations, three different int tokens
example : runField (.scalar .int) 3 (.field (some (.sc (.int 1))))
    (some [.bare "5".toList, .bare "-6".toList, .bare "7".toList])
    = .ok [.sc (.int 5), .sc (.int (-6)), .sc (.int 7)] := by decide
-- c11_n for a list field: whole containers in three different token shapes
example : runField (.list .int) 3 (.field (some (.list [.int 1, .int 2, .int 3])))
    (some [.bracket true ["4".toList, "5".toList], .spaced ["6".toList, "7".toList], .comma ["8".toList, "9".toList]])
    = .ok [.list [.int 4, .int 5], .list [.int 6, .int 7], .list [.int 8, .int 9]] := by decide
-- c11_one: an enum field (parsed by name, choices checked, converted in postprocess)
example : runField (.scalar (.enum ["RED".toList, "BLUE".toList])) 4 (.field (some (.sc (.enum "RED".toList))))
    (some [.bare "BLUE".toList]) = .ok (List.replicate 4 (.sc (.enum "BLUE".toList))) := by decide
-- c11_other: two values for three destinations
example : runField (.scalar .bool) 3 (.field (some (.sc (.bool false))))
    (some [.bare "true".toList, .bare "no".toList]) = .error (.raise .inconsistentArgumentError) := by decide
-- c11_other: the option given with no value although the field has a default
example : runField (.scalar .bool) 2 (.field (some (.sc (.bool false)))) (some [])
    = .error (.raise .inconsistentArgumentError) := by decide
-- c11_absent: a well-typed enum default
example : WellTypedScalar (.enum ["RED".toList, "BLUE".toList]) (.enum "BLUE".toList) := by
  intro ms h; cases h; exact ⟨_, rfl, by simp⟩
example : runField (.scalar .str) 5 (.field (some (.sc (.str "x".toList)))) none
    = .ok (List.replicate 5 (.sc (.str "x".toList))) := by decide
example : StableDefault (.list .int) (.list [.int 1, .int 2]) := by decide
-- c11_absent_parents: three sibling members / registrations with different default instances
example : runField (.scalar .int) 3 (.parents [.sc (.int 1), .sc (.int 5), .sc (.int 1)]) none
    = .ok [.sc (.int 1), .sc (.int 5), .sc (.int 1)] := by decide
example : runField (.list .int) 2 (.parents [.list [.int 1, .int 2], .list [.int 3]]) none
    = .ok [.list [.int 1, .int 2], .list [.int 3]] := by decide
-- regression (former D12, repaired by 8cfbe97): a list default of length n is NOT split
example : runField (.list .int) 2 (.field (some (.list [.int 1, .int 2]))) none
    = .ok [.list [.int 1, .int 2], .list [.int 1, .int 2]] := by decide
example : runField (.tuple [.int, .int]) 2 (.field (some (.tuple [.int 3, .int 4]))) none
    = .ok [.tuple [.int 3, .int 4], .tuple [.int 3, .int 4]] := by decide
-- regression (former D13, repaired by 30c2aa6): bare items are one-element containers
example : runField (.list .int) 2 (.field none) (some [.bare "4".toList])
    = .ok [.list [.int 4], .list [.int 4]] := by decide
example : runField (.list .int) 2 (.field none) (some [.bare "4".toList, .bare "5".toList])
    = .ok [.list [.int 4], .list [.int 5]] := by decide
example : runField (.tuple [.int, .int]) 2 (.field none) (some [.bare "3".toList, .bare "4".toList])
    = .ok [.tuple [.int 3], .tuple [.int 4]] := by decide
-- c11_whole_containers: mixed token shapes
example : runField (.list .str) 2 (.field none) (some [.bare "abc".toList, .spaced ["a".toList, "b".toList]])
    = .ok [.list [.str "abc".toList], .list [.str "a".toList, .str "b".toList]] := by decide
-- runField_length / c11_n_ok: hypotheses satisfiable (three valid tokens of different shapes)
example : ∀ tok ∈ [Tok.bare "4".toList, .spaced ["5".toList, "6".toList], .bracket true []],
    ∃ v, parseTok (.list .int) tok = .ok v := by
  intro tok h
  simp only [List.mem_cons, List.not_mem_nil, or_false] at h
  rcases h with rfl | rfl | rfl
  · exact ⟨.list [.int 4], by decide⟩
  · exact ⟨.list [.int 5, .int 6], by decide⟩
  · exact ⟨.list [], by decide⟩
-- c11_one_enum / c11_one_bool / c11_enum_not_member
example : runField (.scalar (.enum ["LOW".toList, "MID".toList])) 3 (.field none) (some [.bare "MID".toList])
    = .ok (List.replicate 3 (.sc (.enum "MID".toList))) := by decide
example : runField (.scalar .bool) 2 (.field none) (some [.bare "Yes".toList])
    = .ok [.sc (.bool true), .sc (.bool true)] := by decide
example : runField (.scalar (.enum ["LOW".toList])) 2 (.field none) (some [.bare "low".toList])
    = .error (.exit2 .choice) := by decide
-- parseContainerTok_alpha: hypotheses satisfiable (enum member names)
example : (∀ w ∈ ["RED".toList, "BLUE".toList], classify w = .alpha)
    ∧ convStrs (.enum ["RED".toList, "BLUE".toList]) ["RED".toList, "BLUE".toList]
        = .ok [.enum "RED".toList, .enum "BLUE".toList] := by decide
-- c11_position_typed_partial: the exclusion leaves the homogeneous tuples, lists and Tuple[T, ...]
example : homogeneous (.tuple [.int, .int, .int]) = true ∧ homogeneous (.list .str) = true
    ∧ homogeneous (.tuple [.int, .str]) = false := by decide
-- runCase_two_given / runCase_two_one_absent / runCase_last_wins
example : runCase 2 [⟨.scalar .int, .field (some (.sc (.int 1)))⟩, ⟨.list .str, .field none⟩]
    [(1, [.bare "a".toList, .spaced ["b".toList, "c".toList]]), (0, [.bare "7".toList])]
    = .ok [[.sc (.int 7), .sc (.int 7)], [.list [.str "a".toList], .list [.str "b".toList, .str "c".toList]]] := by decide
example : runCase 2 [⟨.scalar .int, .field none⟩] [(0, [.bare "1".toList]), (0, [.bare "2".toList, .bare "3".toList])]
    = .ok [[.sc (.int 2), .sc (.int 3)]] := by decide
-- c11_registration_order_nested: P{m: C} at three destinations
example : mergeAll true (parentW "a".toList "a.m".toList [0])
    [parentW "b".toList "b.m".toList [1], parentW "c".toList "c.m".toList [2]]
    = .mk ["a".toList, "b".toList, "c".toList] []
        [.mk ["a.m".toList, "b.m".toList, "c.m".toList] [0, 1, 2] []] := by
  simp [mergeAll, parentW, leafW, DW.merge, mergeChildren, appendNew, extendDefaults]
-- c11_n_assigned: destination names paired with values
example : assign (mergeAll true (leafW "d0".toList []) [leafW "d1".toList [], leafW "d2".toList []]).dests
    [.sc (.int 5), .sc (.int 6), .sc (.int 7)]
    = [("d0".toList, .sc (.int 5)), ("d1".toList, .sc (.int 6)), ("d2".toList, .sc (.int 7))] := by decide
-- c11_defaults_kept_partial: the exclusion leaves every registration pattern whose first one has an instance
example : (true = false ∨ ([0] : List Nat) ≠ []) := by decide
-- c11_registration_order: three registrations
example : (mergeAll true (leafW "a".toList []) ([("b".toList, []), ("c".toList, [])].map (fun r => leafW r.1 r.2))).dests
    = ["a".toList, "b".toList, "c".toList] := by decide
-- nested members merged pair-wise (P{m:C} at two destinations, the P wrappers merge first)
example : DW.merge true (.mk ["a".toList] [] [leafW "a.m".toList [0]]) (.mk ["b".toList] [] [leafW "b.m".toList [1]])
    = .mk ["a".toList, "b".toList] [] [.mk ["a.m".toList, "b.m".toList] [0, 1] []] := by
  simp [DW.merge, mergeChildren, leafW, appendNew, extendDefaults]

end SpVerif.C11
