/-
  C04 — Invalid command lines are rejected with a non-zero exit; results are well-typed.

  Theorems about `Model/Engine` (argparse's optional-argument engine as simple-parsing uses it),
  quantified over EVERY argv and every action table, plus the rejection lemmas for each mutation
  class of the property's quantifier.

  Sections 1-6: round 1 (status, rejection on rendered command lines, engine-stage soundness, no
  traceback, counters).  Sections 7-11: round 2 — every outcome accounted for (dead escape hatches,
  status 0 needs a help token, rejected = status 2), rejection theorems over ARBITRARY command lines
  through the one-step characterisation of the loop (`Lemmas/C04Step`), the lexer's verdict derived
  from the spelling, conformance to the ANNOTATION through the whole flat pipeline
  (`c04_conforms_flat`), no traceback incl. `postprocess` (`c04_no_traceback_pipeline`).
-/
import SpVerif.Lemmas.Engine
import SpVerif.Lemmas.C04Step
import SpVerif.Model.Fields
namespace SpVerif.C04
open SpVerif SpVerif.Loop

/-! ### 1. the only exit statuses are 2 (error path) and 0 (an explicit help request) -/

/-- an outcome that is not a rejection with a wrong status -/
def GoodErr (tbl : List Act) : EOut → Prop
  | .exit c k => c = 2 ∨ (c = 0 ∧ k = .help ∧ ∃ a ∈ tbl, a.kind = .help)
  | .ok _ _ _ => False
  | _ => True

theorem getValue_err (tbl : List Act) (fenv : FEnv) (act : Act) (i : Nat) (cs : List Nat) (s : Str) (e : EOut)
    (h : getValue fenv act i cs s = .error e) : GoodErr tbl e := by
  unfold getValue at h
  simp only at h
  split at h
  · cases h; simp [GoodErr]
  · cases h; simp [GoodErr]
  · cases h; simp [GoodErr]
  · split at h
    · split at h
      · split at h
        · cases h
        · cases h; simp [GoodErr]
      · cases h; simp [GoodErr]
    · cases h

theorem getValuesList_err (tbl : List Act) (fenv : FEnv) (act : Act) (i : Nat) (cs : List Nat) (toks : List Str)
    (e : EOut) (h : getValuesList fenv act i cs toks = .error e) : GoodErr tbl e := by
  induction toks generalizing cs with
  | nil => simp [getValuesList] at h
  | cons t ts ih =>
    simp only [getValuesList] at h
    cases h1 : getValue fenv act i cs t with
    | error e1 => rw [h1] at h; cases h; exact getValue_err tbl fenv act i cs t e h1
    | ok p =>
      obtain ⟨v, c1⟩ := p
      rw [h1] at h
      simp only at h
      cases h2 : getValuesList fenv act i c1 ts with
      | error e2 => rw [h2] at h; cases h; exact ih c1 h2
      | ok q => rw [h2] at h; cases h

theorem map_error {α β ε : Type} (f : α → β) (x : Except ε α) (e : ε)
    (h : Except.map f x = .error e) : x = .error e := by
  cases x with
  | error e' => simpa [Except.map] using h
  | ok v => simp [Except.map] at h

theorem getValues_err (tbl : List Act) (fenv : FEnv) (act : Act) (i : Nat) (cs : List Nat) (toks : List Str)
    (e : EOut) (h : getValues fenv act i cs toks = .error e) : GoodErr tbl e := by
  unfold getValues at h
  split at h
  · cases h
  · exact getValue_err tbl _ _ _ _ _ _ (map_error _ _ _ h)
  · exact getValue_err tbl _ _ _ _ _ _ (map_error _ _ _ h)
  · exact getValuesList_err tbl _ _ _ _ _ _ (map_error _ _ _ h)

/-- a failed `take_action` is an argparse error (status 2), a help request (status 0, and then the
    table really has a help action), or an exception/unmodelled outcome — never another status -/
theorem takeAction_err (fenv : FEnv) (tbl : List Act) (st : St) (i : Nat) (o : Str)
    (args : List Str) (e : EOut) (h : takeAction fenv tbl st i o args = .error e) : GoodErr tbl e := by
  unfold takeAction at h
  cases hact : tbl[i]? with
  | none => rw [hact] at h; cases h; simp [GoodErr]
  | some act =>
    rw [hact] at h
    simp only at h
    cases hk : act.kind with
    | help =>
      rw [hk] at h; cases h
      exact Or.inr ⟨rfl, rfl, act, List.mem_of_getElem? hact, hk⟩
    | store =>
      rw [hk] at h
      simp only at h
      cases h1 : getValues fenv act i st.counters args with
      | error e1 => rw [h1] at h; cases h; exact getValues_err tbl _ _ _ _ _ _ h1
      | ok p => rw [h1] at h; cases h
    | boolOpt negs =>
      rw [hk] at h
      simp only at h
      cases h1 : getValues fenv act i st.counters args with
      | error e1 => rw [h1] at h; cases h; exact getValues_err tbl _ _ _ _ _ _ h1
      | ok p =>
        obtain ⟨v, cs⟩ := p
        rw [h1] at h
        simp only at h
        split at h
        · cases h
        · split at h
          · cases h; simp [GoodErr]
          · cases h
        · cases h; simp [GoodErr]

theorem consume_err (fenv : FEnv) (tbl : List Act) (fuel : Nat) (st : St) (l : List (Str × Tok))
    (e : EOut) (h : consume fenv tbl fuel st l = .error e) : GoodErr tbl e := by
  induction fuel generalizing st l with
  | zero =>
    cases l with
    | nil => simp [consume] at h
    | cons p ps => simp only [consume] at h; cases h; simp [GoodErr]
  | succ n ih =>
    cases l with
    | nil => simp [consume] at h
    | cons p ps =>
      obtain ⟨a, t⟩ := p
      cases t with
      | A => simp only [consume] at h; exact ih _ _ h
      | dd => simp only [consume] at h; exact ih _ _ h
      | O act o ex =>
        cases act with
        | none => simp only [consume] at h; exact ih _ _ h
        | some i =>
          cases ex with
          | some x =>
            simp only [consume] at h
            split at h
            · cases h; simp [GoodErr]
            · split at h
              · split at h
                · cases h; simp [GoodErr]
                · cases h; simp [GoodErr]
              · split at h
                · split at h
                  · cases ht : takeAction fenv tbl st i o [x] with
                    | error e1 => rw [ht] at h; cases h; exact takeAction_err _ _ _ _ _ _ _ ht
                    | ok st' => rw [ht] at h; exact ih _ _ h
                  · cases h; simp [GoodErr]
                · cases ht : takeAction fenv tbl st i o [x] with
                  | error e1 => rw [ht] at h; cases h; exact takeAction_err _ _ _ _ _ _ _ ht
                  | ok st' => rw [ht] at h; exact ih _ _ h
          | none =>
            simp only [consume] at h
            cases hact : tbl[i]? with
            | none => rw [hact] at h; cases h; simp [GoodErr]
            | some act =>
              rw [hact] at h
              simp only at h
              by_cases hk : act.kind = .help
              · simp only [hk, ↓reduceIte] at h
                cases h
                exact Or.inr ⟨rfl, rfl, act, List.mem_of_getElem? hact, hk⟩
              · simp only [hk, ↓reduceIte] at h
                split at h
                · cases h; simp [GoodErr]
                · rename_i k _
                  cases ht : takeAction fenv tbl st i o ((ps.take k).map (·.1)) with
                  | error e1 => rw [ht] at h; cases h; exact takeAction_err _ _ _ _ _ _ _ ht
                  | ok st' => rw [ht] at h; exact ih _ _ h

theorem finish_err (fenv : FEnv) (tbl : List Act) (st : St) (l : List (Act × Nat)) (e : EOut)
    (h : finish fenv tbl st l = .error e) : GoodErr tbl e := by
  induction l generalizing st with
  | nil => simp [finish] at h
  | cons p ps ih =>
    obtain ⟨a, i⟩ := p
    rw [finish] at h
    split at h
    · exact ih _ h
    · split at h
      · cases h; simp [GoodErr]
      · split at h
        · split at h
          · split at h
            · exact ih _ h
            · cases h; simp [GoodErr]
            · cases h; simp [GoodErr]
            · cases h; simp [GoodErr]
          · exact ih _ h
        · exact ih _ h

/-- **C04 (status).** For EVERY action table and EVERY argv, the engine either returns a
    namespace, or exits with status 2, or exits with status 0 for a help request — there is no
    other exit status and no "message but status 0" path. (True after the repair of the negative
    flag defect; before it `--noflag=true` exited 0.) -/
theorem c04_status (fenv : FEnv) (tbl : List Act) (cs : List Nat) (argv : List Str) (c : Nat)
    (k : ExitKind) (h : runStrict fenv tbl cs argv = .exit c k) :
    c = 2 ∨ (c = 0 ∧ k = .help ∧ ∃ a ∈ tbl, a.kind = .help) := by
  have hrun : ∀ e, run fenv tbl cs argv = e → GoodErr tbl e ∨ ∃ ns ex cs', e = .ok ns ex cs' := by
    intro e he
    unfold run at he
    dsimp only at he
    split at he
    · subst he; left; simp [GoodErr]
    · split at he
      · rename_i e1 hc; subst he; left; exact consume_err _ _ _ _ _ _ hc
      · split at he
        · rename_i e1 hf; subst he; left; exact finish_err _ _ _ _ _ hf
        · subst he; right; exact ⟨_, _, _, rfl⟩
  unfold runStrict at h
  split at h
  · cases h
  · cases h; left; rfl
  · rename_i e hne1 hne2
    rcases hrun _ rfl with hg | ⟨ns, ex, cs', hok⟩
    · rw [h] at hg; exact hg
    · rw [h] at hok; cases hok

def demoTbl : List Act :=
  [ helpAct,
    { opts := ["--n".toList], dest := "c.n".toList, kind := .store, nargs := .one, conv := .base .int,
      choices := none, required := true, default := some (.sc .none) },
    { opts := ["--l".toList], dest := "c.l".toList, kind := .store, nargs := .num 2, conv := .base .str,
      choices := some ["a".toList, "b".toList], required := false, default := some (.list []) } ]

/-! ### 2. mutation classes of the quantifier: each one is rejected, wherever it occurs -/

/-- `take_action` never touches the leftovers -/
theorem takeAction_extras (fenv : FEnv) (tbl : List Act) (st st' : St) (i : Nat) (o : Str)
    (args : List Str) (h : takeAction fenv tbl st i o args = .ok st') : st'.extras = st.extras := by
  unfold takeAction at h
  cases hact : tbl[i]? with
  | none => rw [hact] at h; cases h
  | some act =>
    rw [hact] at h
    simp only at h
    cases hk : act.kind with
    | help => rw [hk] at h; cases h
    | store =>
      rw [hk] at h
      simp only at h
      cases h1 : getValues fenv act i st.counters args with
      | error e1 => rw [h1] at h; cases h
      | ok p => rw [h1] at h; cases h; rfl
    | boolOpt negs =>
      rw [hk] at h
      simp only at h
      cases h1 : getValues fenv act i st.counters args with
      | error e1 => rw [h1] at h; cases h
      | ok p =>
        obtain ⟨v, cs⟩ := p
        rw [h1] at h
        dsimp only at h
        split at h
        · cases h; rfl
        · split at h
          · cases h
          · cases h; rfl
        · cases h

theorem matchCount_le (n : NArgs) (l : List Tok) (k : Nat) (h : matchCount n l = some k) :
    k ≤ countA l := by
  unfold matchCount at h
  cases n <;> simp at h <;> omega

theorem drop_keeps_unknown (ps : List (Str × Tok)) (k : Nat) (hk : k ≤ countA (ps.map (·.2)))
    (p : Str × Tok) (hp : p ∈ ps) (o : Str) (e : Option Str) (hpe : p.2 = Tok.O none o e) :
    p ∈ ps.drop k := by
  induction ps generalizing k with
  | nil => cases hp
  | cons q qs ih =>
    cases k with
    | zero => simpa using hp
    | succ k' =>
      obtain ⟨qa, qt⟩ := q
      cases qt with
      | A =>
        simp only [List.map_cons, countA] at hk
        rcases List.mem_cons.mp hp with hp | hp
        · subst hp; cases hpe
        · simp only [List.drop_succ_cons]
          exact ih k' (by omega) hp
      | dd => simp [countA] at hk
      | O _ _ _ => simp [countA] at hk

/-- tokens that are not consumed by an option end up among the leftovers, and leftovers never
    disappear: if the remaining input still holds a token the lexer could not attach to any action
    (`O none …`), a successful run of the loop ends with a non-empty leftover list. -/
theorem consume_unknown (fenv : FEnv) (tbl : List Act) (fuel : Nat) (st st' : St)
    (l : List (Str × Tok))
    (hu : (∃ p ∈ l, ∃ o e, p.2 = Tok.O none o e) ∨ st.extras ≠ [])
    (h : consume fenv tbl fuel st l = .ok st') : st'.extras ≠ [] := by
  induction fuel generalizing st l with
  | zero =>
    cases l with
    | nil =>
      simp only [consume, Except.ok.injEq] at h; subst h
      rcases hu with ⟨p, hp, _⟩ | hu
      · cases hp
      · exact hu
    | cons p ps => simp [consume] at h
  | succ n ih =>
    cases l with
    | nil =>
      simp only [consume, Except.ok.injEq] at h; subst h
      rcases hu with ⟨p, hp, _⟩ | hu
      · cases hp
      · exact hu
    | cons p ps =>
      obtain ⟨a, t⟩ := p
      have hrest : ∀ st2 : St, st2.extras ≠ [] → (∃ p ∈ ps, ∃ o e, p.2 = Tok.O none o e) ∨ st2.extras ≠ [] :=
        fun _ h2 => Or.inr h2
      cases t with
      | A => simp only [consume] at h; exact ih _ _ (Or.inr (by simp)) h
      | dd => simp only [consume] at h; exact ih _ _ (Or.inr (by simp)) h
      | O act o ex =>
        cases act with
        | none => simp only [consume] at h; exact ih _ _ (Or.inr (by simp)) h
        | some i =>
          -- an attached option: the unknown token is further right (or leftovers already exist)
          have hu' : (∃ p ∈ ps, ∃ o e, p.2 = Tok.O none o e) ∨ st.extras ≠ [] := by
            rcases hu with ⟨p, hp, o', e', hpe⟩ | hu
            · rcases List.mem_cons.mp hp with hp | hp
              · subst hp; cases hpe
              · exact Or.inl ⟨p, hp, o', e', hpe⟩
            · exact Or.inr hu
          cases ex with
          | some x =>
            simp only [consume] at h
            split at h
            · cases h
            · split at h
              · split at h <;> cases h
              · have step : ∀ st2, takeAction fenv tbl st i o [x] = .ok st2 →
                    consume fenv tbl n st2 ps = .ok st' → st'.extras ≠ [] := by
                  intro st2 ht hc
                  refine ih st2 ps ?_ hc
                  rcases hu' with hl | hr
                  · exact Or.inl hl
                  · exact Or.inr (by rw [takeAction_extras _ _ _ _ _ _ _ ht]; exact hr)
                split at h
                · split at h
                  · cases ht : takeAction fenv tbl st i o [x] with
                    | error e1 => rw [ht] at h; cases h
                    | ok st2 => rw [ht] at h; exact step st2 ht h
                  · cases h
                · cases ht : takeAction fenv tbl st i o [x] with
                  | error e1 => rw [ht] at h; cases h
                  | ok st2 => rw [ht] at h; exact step st2 ht h
          | none =>
            simp only [consume] at h
            cases hact : tbl[i]? with
            | none => rw [hact] at h; cases h
            | some act =>
              rw [hact] at h
              simp only at h
              by_cases hkind : act.kind = .help
              · simp only [hkind, ↓reduceIte] at h; cases h
              · simp only [hkind, ↓reduceIte] at h
                cases hm : matchCount act.nargs (ps.map (·.2)) with
                | none => rw [hm] at h; cases h
                | some k =>
                  rw [hm] at h
                  simp only at h
                  cases ht : takeAction fenv tbl st i o ((ps.take k).map (·.1)) with
                  | error e1 => rw [ht] at h; cases h
                  | ok st2 =>
                    rw [ht] at h
                    refine ih st2 (ps.drop k) ?_ h
                    rcases hu' with ⟨p, hp, o', e', hpe⟩ | hr
                    · exact Or.inl ⟨p, drop_keeps_unknown ps k (matchCount_le _ _ _ hm) p hp o' e' hpe, o', e', hpe⟩
                    · exact Or.inr (by rw [takeAction_extras _ _ _ _ _ _ _ ht]; exact hr)

theorem finish_extras (fenv : FEnv) (tbl : List Act) (st st' : St) (l : List (Act × Nat))
    (h : finish fenv tbl st l = .ok st') : st'.extras = st.extras ∧ st'.seen = st.seen := by
  induction l generalizing st with
  | nil => simp only [finish, Except.ok.injEq] at h; subst h; exact ⟨rfl, rfl⟩
  | cons p ps ih =>
    obtain ⟨a, i⟩ := p
    rw [finish] at h
    split at h
    · exact ih _ h
    · split at h
      · cases h
      · split at h
        · split at h
          · split at h
            · have := ih _ h; exact this
            · cases h
            · cases h
            · cases h
          · exact ih _ h
        · exact ih _ h

/-- **C04 (unknown option).** If anywhere on the command line there is a token the lexer can attach
    to no action (a dash-led token that is neither an option string, nor `opt=value`, nor an
    abbreviation of one, nor a negative number), `parse_args` does not succeed. -/
theorem c04_unknown_rejected (fenv : FEnv) (tbl : List Act) (cs : List Nat) (argv : List Str)
    (toks : List Tok) (hlex : lexAll tbl argv = .ok toks)
    (hu : ∃ p ∈ argv.zip toks, ∃ o e, p.2 = Tok.O none o e)
    (ns : List (Str × Val)) (ex : List Str) (cs' : List Nat) :
    runStrict fenv tbl cs argv ≠ .ok ns ex cs' := by
  intro h
  unfold runStrict at h
  cases hr : run fenv tbl cs argv with
  | ok ns2 ex2 cs2 =>
    rw [hr] at h
    cases ex2 with
    | cons x xs => simp at h
    | nil =>
      unfold run at hr
      rw [hlex] at hr
      dsimp only at hr
      cases hc : consume fenv tbl (argv.length + 1)
          { ns := initNs tbl, extras := [], seen := [], counters := cs } (argv.zip toks) with
      | error e =>
        rw [hc] at hr; dsimp only at hr; subst hr
        exact consume_err _ _ _ _ _ _ hc
      | ok st =>
        rw [hc] at hr
        dsimp only at hr
        have hne := consume_unknown fenv tbl _ _ st _ (Or.inl hu) hc
        cases hf : finish fenv tbl st tbl.zipIdx with
        | error e =>
          rw [hf] at hr; dsimp only at hr; subst hr
          exact finish_err _ _ _ _ _ hf
        | ok st2 =>
          rw [hf] at hr
          dsimp only at hr
          have := (finish_extras fenv tbl st st2 _ hf).1
          simp only [EOut.ok.injEq] at hr
          rw [← hr.2.1, this] at hne
          exact hne rfl
  | exit c k => rw [hr] at h; simp at h
  | raise e => rw [hr] at h; simp at h
  | unmodelled w => rw [hr] at h; simp at h

/-! #### missing required option -/

theorem finish_required (fenv : FEnv) (tbl : List Act) (st : St) (l : List (Act × Nat))
    (a : Act) (i : Nat) (hmem : (a, i) ∈ l) (hreq : a.required = true)
    (hns : st.seen.contains i = false) : ∃ e, finish fenv tbl st l = .error e := by
  induction l generalizing st with
  | nil => cases hmem
  | cons p ps ih =>
    obtain ⟨b, j⟩ := p
    rw [finish]
    rcases List.mem_cons.mp hmem with hp | hp
    · cases hp
      simp only [hns, Bool.false_eq_true, ↓reduceIte, hreq]
      exact ⟨_, rfl⟩
    · split
      · exact ih st hp hns
      · split
        · exact ⟨_, rfl⟩
        · split
          · split
            · split
              · exact ih _ hp hns
              · exact ⟨_, rfl⟩
              · exact ⟨_, rfl⟩
              · exact ⟨_, rfl⟩
            · exact ih st hp hns
          · exact ih st hp hns

theorem takeAction_seen (fenv : FEnv) (tbl : List Act) (st st' : St) (i : Nat) (o : Str)
    (args : List Str) (h : takeAction fenv tbl st i o args = .ok st') : st'.seen = i :: st.seen := by
  unfold takeAction at h
  cases hact : tbl[i]? with
  | none => rw [hact] at h; cases h
  | some act =>
    rw [hact] at h
    simp only at h
    cases hk : act.kind with
    | help => rw [hk] at h; cases h
    | store =>
      rw [hk] at h
      simp only at h
      cases h1 : getValues fenv act i st.counters args with
      | error e1 => rw [h1] at h; cases h
      | ok p => rw [h1] at h; cases h; rfl
    | boolOpt negs =>
      rw [hk] at h
      simp only at h
      cases h1 : getValues fenv act i st.counters args with
      | error e1 => rw [h1] at h; cases h
      | ok p =>
        obtain ⟨v, cs⟩ := p
        rw [h1] at h
        dsimp only at h
        split at h
        · cases h; rfl
        · split at h
          · cases h
          · cases h; rfl
        · cases h

theorem applySegs_seen (fenv : FEnv) (tbl : List Act) (st st' : St) (segs : List Seg)
    (h : applySegs fenv tbl st segs = .ok st') (j : Nat) (hj : st'.seen.contains j = true) :
    st.seen.contains j = true ∨ j ∈ segs.map (·.idx) := by
  induction segs generalizing st with
  | nil => simp only [applySegs, Except.ok.injEq] at h; subst h; exact Or.inl hj
  | cons s ss ih =>
    simp only [applySegs] at h
    cases ht : takeAction fenv tbl st s.idx s.opt s.toks with
    | error e => rw [ht] at h; cases h
    | ok st2 =>
      rw [ht] at h
      rcases ih st2 h with h1 | h1
      · rw [takeAction_seen _ _ _ _ _ _ _ ht] at h1
        simp only [List.contains_cons, Bool.or_eq_true, beq_iff_eq] at h1
        rcases h1 with h1 | h1
        · right; simp [h1]
        · left; exact h1
      · right; simp only [List.map_cons, List.mem_cons]; exact Or.inr h1

theorem render_len (segs : List Seg) : segs.length ≤ (render segs).length := by
  induction segs with
  | nil => simp
  | cons s ss ih =>
    simp only [render, List.flatMap_cons, renderSeg, List.length_append, List.length_cons] at ih ⊢
    omega

/-- **C04 (missing required option).** A command line of option segments that never mentions a
    required action is not accepted — whatever else is on it. -/
theorem c04_missing_required (fenv : FEnv) (tbl : List Act) (cs : List Nat) (segs : List Seg)
    (hlex : ∀ s ∈ segs, LexOk tbl s) (hcons : ∀ s ∈ segs, ConsumeOk tbl s)
    (a : Act) (i : Nat) (hmem : (a, i) ∈ tbl.zipIdx) (hreq : a.required = true)
    (hno : i ∉ segs.map (·.idx))
    (ns : List (Str × Val)) (ex : List Str) (cs' : List Nat) :
    runStrict fenv tbl cs (render segs) ≠ .ok ns ex cs' := by
  intro h
  unfold runStrict at h
  cases hr : run fenv tbl cs (render segs) with
  | ok ns2 ex2 cs2 =>
    unfold run at hr
    rw [lexAll_render tbl segs hlex] at hr
    dsimp only at hr
    have hcr := consume_render fenv tbl segs ((render segs).length + 1)
      { ns := initNs tbl, extras := [], seen := [], counters := cs }
      (by have := render_len segs; omega) hcons
    rw [hcr] at hr
    cases ha : applySegs fenv tbl { ns := initNs tbl, extras := [], seen := [], counters := cs } segs with
    | error e =>
      rw [ha] at hr; dsimp only at hr
      have := consume_err fenv tbl ((render segs).length + 1)
        { ns := initNs tbl, extras := [], seen := [], counters := cs }
        ((render segs).zip (renderToks segs)) e
      rw [hcr] at this
      have hg := this ha
      rw [hr] at hg
      exact hg
    | ok st =>
      rw [ha] at hr; dsimp only at hr
      have hseen : st.seen.contains i = false := by
        cases hb : st.seen.contains i with
        | false => rfl
        | true =>
          rcases applySegs_seen fenv tbl _ st segs ha i hb with h1 | h1
          · simp at h1
          · exact absurd h1 hno
      obtain ⟨e, he⟩ := finish_required fenv tbl st tbl.zipIdx a i hmem hreq hseen
      rw [he] at hr
      dsimp only at hr
      have hg := finish_err fenv tbl st tbl.zipIdx e he
      rw [hr] at hg
      exact hg
  | exit c k => rw [hr] at h; simp at h
  | raise e => rw [hr] at h; simp at h
  | unmodelled w => rw [hr] at h; simp at h

/-! #### ill-typed token / value outside the choices -/

/-- a token that the action's `type=`/`choices=` never lets through, whatever the closure state -/
def NeverConverts (fenv : FEnv) (act : Act) (i : Nat) (t : Str) : Prop :=
  ∀ cs, ∃ e, getValue fenv act i cs t = .error e

theorem getValuesList_bad (fenv : FEnv) (act : Act) (i : Nat) (cs : List Nat) (toks : List Str)
    (t : Str) (ht : t ∈ toks) (hbad : NeverConverts fenv act i t) :
    ∃ e, getValuesList fenv act i cs toks = .error e := by
  induction toks generalizing cs with
  | nil => cases ht
  | cons x xs ih =>
    simp only [getValuesList]
    cases hx : getValue fenv act i cs x with
    | error e => exact ⟨e, rfl⟩
    | ok p =>
      obtain ⟨v, c1⟩ := p
      simp only
      rcases List.mem_cons.mp ht with h | h
      · subst h
        obtain ⟨e, he⟩ := hbad cs
        rw [he] at hx; cases hx
      · obtain ⟨e, he⟩ := ih c1 h
        rw [he]; exact ⟨e, rfl⟩

theorem getValues_bad (fenv : FEnv) (act : Act) (i : Nat) (cs : List Nat) (toks : List Str)
    (t : Str) (ht : t ∈ toks) (hbad : NeverConverts fenv act i t) :
    ∃ e, getValues fenv act i cs toks = .error e := by
  obtain ⟨e, he⟩ := getValuesList_bad fenv act i cs toks t ht hbad
  rw [getValues_ok_iff, he]
  exact ⟨e, rfl⟩

theorem takeAction_bad (fenv : FEnv) (tbl : List Act) (st : St) (i : Nat) (o : Str)
    (args : List Str) (act : Act) (hact : tbl[i]? = some act) (t : Str) (ht : t ∈ args)
    (hbad : NeverConverts fenv act i t) : ∃ e, takeAction fenv tbl st i o args = .error e := by
  unfold takeAction
  rw [hact]
  simp only
  cases hk : act.kind with
  | help => exact ⟨_, rfl⟩
  | store =>
    simp only
    obtain ⟨e, he⟩ := getValues_bad fenv act i st.counters args t ht hbad
    rw [he]; exact ⟨e, rfl⟩
  | boolOpt negs =>
    simp only
    obtain ⟨e, he⟩ := getValues_bad fenv act i st.counters args t ht hbad
    rw [he]; exact ⟨e, rfl⟩

theorem applySegs_bad (fenv : FEnv) (tbl : List Act) (st : St) (segs : List Seg) (s : Seg)
    (hs : s ∈ segs) (act : Act) (hact : tbl[s.idx]? = some act) (t : Str) (ht : t ∈ s.toks)
    (hbad : NeverConverts fenv act s.idx t) : ∃ e, applySegs fenv tbl st segs = .error e := by
  induction segs generalizing st with
  | nil => cases hs
  | cons x xs ih =>
    simp only [applySegs]
    cases hx : takeAction fenv tbl st x.idx x.opt x.toks with
    | error e => exact ⟨e, rfl⟩
    | ok st2 =>
      simp only
      rcases List.mem_cons.mp hs with h | h
      · subst h
        obtain ⟨e, he⟩ := takeAction_bad fenv tbl st s.idx s.opt s.toks act hact t ht hbad
        rw [he] at hx; cases hx
      · exact ih st2 h

/-- **C04 (ill-typed token / out-of-set value).** If some value token of some segment can never
    pass its action's `type=` conversion and `choices=` check, the command line is not accepted —
    not coerced, not truncated, not defaulted — wherever that token stands. -/
theorem c04_bad_token_rejected (fenv : FEnv) (tbl : List Act) (cs : List Nat) (segs : List Seg)
    (hlex : ∀ s ∈ segs, LexOk tbl s) (hcons : ∀ s ∈ segs, ConsumeOk tbl s)
    (s : Seg) (hs : s ∈ segs) (act : Act) (hact : tbl[s.idx]? = some act) (t : Str)
    (ht : t ∈ s.toks) (hbad : NeverConverts fenv act s.idx t)
    (ns : List (Str × Val)) (ex : List Str) (cs' : List Nat) :
    runStrict fenv tbl cs (render segs) ≠ .ok ns ex cs' := by
  intro h
  unfold runStrict at h
  cases hr : run fenv tbl cs (render segs) with
  | ok ns2 ex2 cs2 =>
    unfold run at hr
    rw [lexAll_render tbl segs hlex] at hr
    dsimp only at hr
    have hcr := consume_render fenv tbl segs ((render segs).length + 1)
      { ns := initNs tbl, extras := [], seen := [], counters := cs }
      (by have := render_len segs; omega) hcons
    obtain ⟨e, he⟩ := applySegs_bad fenv tbl
      { ns := initNs tbl, extras := [], seen := [], counters := cs } segs s hs act hact t ht hbad
    have hg := consume_err fenv tbl ((render segs).length + 1) _ _ e (by rw [hcr]; exact he)
    rw [hcr, he] at hr
    dsimp only at hr
    rw [hr] at hg
    exact hg
  | exit c k => rw [hr] at h; simp at h
  | raise e => rw [hr] at h; simp at h
  | unmodelled w => rw [hr] at h; simp at h

/-- instances of `NeverConverts`: a token `int()` rejects; a value outside `choices` -/
theorem never_int (fenv : FEnv) (act : Act) (i : Nat) (t : Str) (hconv : act.conv = .base .int)
    (hbad : parseInt t = .typeErr) : NeverConverts fenv act i t := by
  intro cs
  unfold getValue
  simp only [hconv, Conv.apply, BConv.apply, hbad]
  exact ⟨_, rfl⟩

theorem never_choice (fenv : FEnv) (act : Act) (i : Nat) (t : Str) (hconv : act.conv = .base .str)
    (ch : List Str) (hch : act.choices = some ch) (hnot : ch.contains t = false) :
    NeverConverts fenv act i t := by
  intro cs
  unfold getValue
  simp only [hconv, Conv.apply, BConv.apply, hch, hnot]
  exact ⟨_, rfl⟩

/-! #### wrong arity for a fixed-length tuple -/

/-- too few tokens before the next option (or the end): `expected N arguments`, status 2 -/
theorem c04_arity_short (fenv : FEnv) (tbl : List Act) (fuel : Nat) (st : St) (a o : Str)
    (i m : Nat) (act : Act) (rest : List (Str × Tok)) (hact : tbl[i]? = some act)
    (hk : act.kind ≠ .help) (hn : act.nargs = .num m) (hshort : countA (rest.map (·.2)) < m) :
    consume fenv tbl (fuel + 1) st ((a, Tok.O (some i) o none) :: rest) = .error (.exit 2 .nargs) := by
  simp only [consume, hact, hk, ↓reduceIte, hn, matchCount]
  have : ¬ (countA (rest.map (·.2)) ≥ m) := by omega
  simp [this]

/-- too many tokens: exactly N are taken, the next one is a leftover, and leftovers are rejected -/
theorem c04_arity_long_take (m : Nat) (following : List Tok) (h : countA following ≥ m) :
    matchCount (.num m) following = some m := by
  simp [matchCount, h]

theorem c04_leftover_rejected (fenv : FEnv) (tbl : List Act) (fuel : Nat) (st st' : St) (a : Str)
    (rest : List (Str × Tok)) (h : consume fenv tbl (fuel + 1) st ((a, Tok.A) :: rest) = .ok st') :
    st'.extras ≠ [] := by
  simp only [consume] at h
  exact consume_unknown fenv tbl fuel _ st' rest (Or.inr (by simp)) h

/-! ### 3. type soundness: whatever is stored came out of the action's own `type=` callable -/

/-- `s` is something the action's conversion can produce (and its `choices` accept) -/
def InRange (fenv : FEnv) (act : Act) (s : Scalar) : Prop :=
  ∃ k t, act.conv.apply fenv k t = .ok s ∧
    (∀ ch, act.choices = some ch → ∃ u, s = .str u ∧ ch.contains u = true)

/-- the lengths `_get_values` can produce as a LIST for each `nargs` shape (`nargs=None` and a
    bare / single-valued `'?'` never give a list) -/
def ListArity : NArgs → Nat → Prop
  | .star, _ => True
  | .plus, k => 1 ≤ k
  | .num m, k => k = m
  | _, _ => False

/-- admissible stored values of an action: `None` only for a bare `nargs='?'` option, a single
    converted item only for `nargs=None` / `'?'`, a list of converted items only for `'*'`, `'+'`
    and `N` — and then with exactly `N` items -/
def ValOk (fenv : FEnv) (act : Act) (v : Val) : Prop :=
  match act.kind with
  | .boolOpt _ => ∃ b, v = .sc (.bool b)
  | _ => (v = .sc .none ∧ act.nargs = .opt) ∨
         (∃ s, v = .sc s ∧ InRange fenv act s ∧ (act.nargs = .one ∨ act.nargs = .opt)) ∨
         (∃ l, v = .list l ∧ (∀ s ∈ l, InRange fenv act s) ∧ ListArity act.nargs l.length)

/-- every namespace entry is either an action's declared default or an admissible stored value -/
def NsOk (fenv : FEnv) (tbl : List Act) (ns : List (Str × Val)) : Prop :=
  ∀ p ∈ ns, ∃ a ∈ tbl, a.dest = p.1 ∧
    (a.default = some p.2 ∨ ValOk fenv a p.2 ∨
      -- a string default that argparse ran through `type=` at the end of the parse
      ∃ s k v, a.default = some (.sc (.str s)) ∧ a.conv.apply fenv k s = .ok v ∧ p.2 = .sc v)

theorem mem_setKey (ns : List (Str × Val)) (k : Str) (v : Val) (p : Str × Val)
    (h : p ∈ setKey ns k v) : p = (k, v) ∨ p ∈ ns := by
  unfold setKey at h
  split at h
  · simp only [List.mem_map] at h
    obtain ⟨q, hq, rfl⟩ := h
    split
    · left; rfl
    · right; exact hq
  · simp only [List.mem_append, List.mem_singleton] at h
    rcases h with h | h
    · right; exact h
    · left; exact h

theorem getValue_range (fenv : FEnv) (act : Act) (i : Nat) (cs cs' : List Nat) (t : Str)
    (s : Scalar) (h : getValue fenv act i cs t = .ok (s, cs')) : InRange fenv act s := by
  unfold getValue at h
  simp only at h
  split at h
  · cases h
  · cases h
  · cases h
  · rename_i v hv
    split at h
    · rename_i ch hch
      split at h
      · rename_i u
        split at h
        · rename_i hin
          simp only [Except.ok.injEq, Prod.mk.injEq] at h
          obtain ⟨rfl, _⟩ := h
          refine ⟨_, t, hv, ?_⟩
          intro ch' hch'
          rw [hch] at hch'
          cases hch'
          exact ⟨u, rfl, hin⟩
        · cases h
      · cases h
    · rename_i hnone
      simp only [Except.ok.injEq, Prod.mk.injEq] at h
      obtain ⟨rfl, _⟩ := h
      exact ⟨_, t, hv, by intro ch hch; rw [hnone] at hch; cases hch⟩

theorem getValuesList_range (fenv : FEnv) (act : Act) (i : Nat) (cs cs' : List Nat)
    (toks : List Str) (vs : List Scalar) (h : getValuesList fenv act i cs toks = .ok (vs, cs')) :
    ∀ s ∈ vs, InRange fenv act s := by
  induction toks generalizing cs cs' vs with
  | nil => simp only [getValuesList, Except.ok.injEq, Prod.mk.injEq] at h; rw [← h.1]; simp
  | cons t ts ih =>
    simp only [getValuesList] at h
    cases h1 : getValue fenv act i cs t with
    | error e => rw [h1] at h; cases h
    | ok p =>
      obtain ⟨v, c1⟩ := p
      rw [h1] at h
      simp only at h
      cases h2 : getValuesList fenv act i c1 ts with
      | error e => rw [h2] at h; cases h
      | ok q =>
        obtain ⟨vs2, c2⟩ := q
        rw [h2] at h
        simp only [Except.ok.injEq, Prod.mk.injEq] at h
        rw [← h.1]
        intro s hs
        rcases List.mem_cons.mp hs with hs | hs
        · subst hs; exact getValue_range fenv act i cs c1 t _ h1
        · exact ih c1 c2 vs2 h2 s hs

theorem segVal_cases (n : NArgs) (vs : List Scalar) :
    segVal n vs = .sc .none ∨ (∃ v ∈ vs, segVal n vs = .sc v) ∨ segVal n vs = .list vs := by
  unfold segVal
  split
  · left; rfl
  · right; left; exact ⟨_, by simp, rfl⟩
  · right; left; exact ⟨_, by simp, rfl⟩
  · right; right; rfl

/-- the packaged value, given that the number of items fits `nargs` -/
theorem segVal_arity (n : NArgs) (vs : List Scalar) (h : arityOk n vs.length) :
    (segVal n vs = .sc .none ∧ n = .opt) ∨
    (∃ v, vs = [v] ∧ segVal n vs = .sc v ∧ (n = .one ∨ n = .opt)) ∨
    (segVal n vs = .list vs ∧ ListArity n vs.length) := by
  cases n with
  | one =>
    simp only [arityOk] at h
    match vs, h with
    | [v], _ => right; left; exact ⟨v, rfl, rfl, Or.inl rfl⟩
  | opt =>
    simp only [arityOk] at h
    match vs, h with
    | [], _ => left; exact ⟨rfl, rfl⟩
    | [v], _ => right; left; exact ⟨v, rfl, rfl, Or.inr rfl⟩
  | star =>
    right; right
    match vs with
    | [] => exact ⟨rfl, trivial⟩
    | [v] => exact ⟨rfl, trivial⟩
    | _ :: _ :: _ => exact ⟨rfl, trivial⟩
  | plus =>
    right; right
    match vs, h with
    | [v], _ => exact ⟨rfl, by simp [ListArity]⟩
    | _ :: _ :: _, _ => exact ⟨rfl, by simp [ListArity]⟩
  | num m =>
    right; right
    match vs with
    | [] => exact ⟨rfl, h⟩
    | [v] => exact ⟨rfl, h⟩
    | _ :: _ :: _ => exact ⟨rfl, h⟩

theorem getValues_ok (fenv : FEnv) (act : Act) (i : Nat) (cs cs' : List Nat) (toks : List Str)
    (v : Val) (har : arityOk act.nargs toks.length)
    (h : getValues fenv act i cs toks = .ok (v, cs')) :
    (v = .sc .none ∧ act.nargs = .opt) ∨
      (∃ s, v = .sc s ∧ InRange fenv act s ∧ (act.nargs = .one ∨ act.nargs = .opt)) ∨
      (∃ l, v = .list l ∧ (∀ s ∈ l, InRange fenv act s) ∧ ListArity act.nargs l.length) := by
  rw [getValues_ok_iff] at h
  cases h1 : getValuesList fenv act i cs toks with
  | error e => rw [h1] at h; cases h
  | ok p =>
    obtain ⟨vs, c1⟩ := p
    rw [h1] at h
    simp only [Except.ok.injEq, Prod.mk.injEq] at h
    have hr := getValuesList_range fenv act i cs c1 toks vs h1
    have hl := getValuesList_length fenv act i cs c1 toks vs h1
    rw [← h.1]
    rcases segVal_arity act.nargs vs (by rw [hl]; exact har) with ⟨h0, hn⟩ | ⟨v', hv', h0, hn⟩ | ⟨h0, hn⟩
    · left; exact ⟨h0, hn⟩
    · right; left; exact ⟨v', h0, hr v' (by rw [hv']; simp), hn⟩
    · right; right; exact ⟨vs, h0, hr, hn⟩

theorem nsOk_setKey (fenv : FEnv) (tbl : List Act) (ns : List (Str × Val)) (act : Act)
    (hmem : act ∈ tbl) (v : Val) (hv : ValOk fenv act v) (h : NsOk fenv tbl ns) :
    NsOk fenv tbl (setKey ns act.dest v) := by
  intro p hp
  rcases mem_setKey ns act.dest v p hp with rfl | hp
  · exact ⟨act, hmem, rfl, Or.inr (Or.inl hv)⟩
  · exact h p hp

theorem takeAction_nsOk (fenv : FEnv) (tbl : List Act) (st st' : St) (i : Nat) (o : Str)
    (args : List Str) (h : takeAction fenv tbl st i o args = .ok st') (hns : NsOk fenv tbl st.ns)
    (hargs : ∀ act, tbl[i]? = some act → arityOk act.nargs args.length) :
    NsOk fenv tbl st'.ns := by
  unfold takeAction at h
  cases hact : tbl[i]? with
  | none => rw [hact] at h; cases h
  | some act =>
    have har := hargs act hact
    have hmem : act ∈ tbl := List.mem_of_getElem? hact
    rw [hact] at h
    simp only at h
    cases hk : act.kind with
    | help => rw [hk] at h; cases h
    | store =>
      rw [hk] at h
      simp only at h
      cases h1 : getValues fenv act i st.counters args with
      | error e1 => rw [h1] at h; cases h
      | ok p =>
        obtain ⟨v, cs⟩ := p
        rw [h1] at h
        simp only [Except.ok.injEq] at h
        subst h
        refine nsOk_setKey fenv tbl st.ns act hmem v ?_ hns
        simp only [ValOk, hk]
        exact getValues_ok fenv act i st.counters cs args v har h1
    | boolOpt negs =>
      rw [hk] at h
      simp only at h
      cases h1 : getValues fenv act i st.counters args with
      | error e1 => rw [h1] at h; cases h
      | ok p =>
        obtain ⟨v, cs⟩ := p
        rw [h1] at h
        dsimp only at h
        split at h
        · simp only [Except.ok.injEq] at h; subst h
          exact nsOk_setKey fenv tbl st.ns act hmem _ (by simp only [ValOk, hk]; exact ⟨_, rfl⟩) hns
        · split at h
          · cases h
          · simp only [Except.ok.injEq] at h; subst h
            exact nsOk_setKey fenv tbl st.ns act hmem _ (by simp only [ValOk, hk]; exact ⟨_, rfl⟩) hns
        · cases h

theorem consume_nsOk (fenv : FEnv) (tbl : List Act) (fuel : Nat) (st st' : St)
    (l : List (Str × Tok)) (h : consume fenv tbl fuel st l = .ok st') (hns : NsOk fenv tbl st.ns) :
    NsOk fenv tbl st'.ns :=
  consume_inv fenv tbl l (fun s => NsOk fenv tbl s.ns)
    (by
      intro s p rest s2 r2 _ hs hst
      rcases hst.cases' with h1 | ⟨i, o, ex, ac, args, _, hact, _, har, htk⟩
      · subst h1; exact hs
      · exact takeAction_nsOk fenv tbl s s2 i o args htk hs
          (by intro a2 h2; rw [hact] at h2; cases h2; exact har))
    fuel st st' l (fun _ hp => hp) h hns

theorem initNs_nsOk (fenv : FEnv) (tbl : List Act) : NsOk fenv tbl (initNs tbl) := by
  unfold initNs
  have : ∀ (l : List Act) (ns : List (Str × Val)), (∀ a ∈ l, a ∈ tbl) → NsOk fenv tbl ns →
      NsOk fenv tbl (l.foldl (fun ns a => match a.default with
        | some d => if ns.any (fun p => p.1 = a.dest) then ns else ns ++ [(a.dest, d)]
        | none => ns) ns) := by
    intro l
    induction l with
    | nil => intro ns _ h; exact h
    | cons a as ih =>
      intro ns hsub h
      simp only [List.foldl_cons]
      apply ih _ (fun x hx => hsub x (by simp [hx]))
      cases hd : a.default with
      | none => exact h
      | some d =>
        simp only
        split
        · exact h
        · intro p hp
          simp only [List.mem_append, List.mem_singleton] at hp
          rcases hp with hp | rfl
          · exact h p hp
          · exact ⟨a, hsub a (by simp), rfl, Or.inl hd⟩
  exact this tbl [] (fun _ h => h) (by intro p hp; cases hp)

theorem finish_nsOk (fenv : FEnv) (tbl : List Act) (st st' : St) (l : List (Act × Nat))
    (hl : ∀ p ∈ l, p.1 ∈ tbl) (h : finish fenv tbl st l = .ok st') (hns : NsOk fenv tbl st.ns) :
    NsOk fenv tbl st'.ns := by
  induction l generalizing st with
  | nil => simp only [finish, Except.ok.injEq] at h; subst h; exact hns
  | cons p ps ih =>
    obtain ⟨a, i⟩ := p
    have hl' : ∀ q ∈ ps, q.1 ∈ tbl := fun q hq => hl q (by simp [hq])
    have ha : a ∈ tbl := hl (a, i) (by simp)
    rw [finish] at h
    split at h
    · exact ih _ hl' h hns
    · split at h
      · cases h
      · split at h
        · rename_i s hdef
          split at h
          · split at h
            · rename_i v hv
              refine ih _ hl' h ?_
              intro p hp
              rcases mem_setKey st.ns a.dest (.sc v) p hp with rfl | hp
              · exact ⟨a, ha, rfl, Or.inr (Or.inr ⟨s, _, v, hdef, hv, rfl⟩)⟩
              · exact hns p hp
            · cases h
            · cases h
            · cases h
          · exact ih _ hl' h hns
        · exact ih _ hl' h hns

/-- **C04 (well-typed results).** For EVERY argv: whenever the engine returns a namespace, each
    entry is (i) the declared default of an action with that destination, or (ii) a value produced
    by that action's own `type=` callable and accepted by its `choices` (a scalar, `None` for a bare
    `nargs='?'` option, or a list of such scalars; a bool for a boolean flag), or (iii) a string
    default run through `type=`. No raw, unconverted or partially converted token is ever stored. -/
theorem c04_sound (fenv : FEnv) (tbl : List Act) (cs : List Nat) (argv : List Str)
    (ns : List (Str × Val)) (ex : List Str) (cs' : List Nat)
    (h : run fenv tbl cs argv = .ok ns ex cs') : NsOk fenv tbl ns := by
  unfold run at h
  cases hlex : lexAll tbl argv with
  | error e => rw [hlex] at h; cases h
  | ok toks =>
    rw [hlex] at h
    dsimp only at h
    cases hc : consume fenv tbl (argv.length + 1)
        { ns := initNs tbl, extras := [], seen := [], counters := cs } (argv.zip toks) with
    | error e =>
      rw [hc] at h; dsimp only at h
      have := consume_err _ _ _ _ _ _ hc
      rw [h] at this; exact absurd this (by simp [GoodErr])
    | ok st =>
      rw [hc] at h; dsimp only at h
      have h1 := consume_nsOk fenv tbl _ _ st _ hc (initNs_nsOk fenv tbl)
      cases hf : finish fenv tbl st tbl.zipIdx with
      | error e =>
        rw [hf] at h; dsimp only at h
        have := finish_err _ _ _ _ _ hf
        rw [h] at this; exact absurd this (by simp [GoodErr])
      | ok st2 =>
        rw [hf] at h; dsimp only at h
        simp only [EOut.ok.injEq] at h
        rw [← h.1]
        exact finish_nsOk fenv tbl st st2 tbl.zipIdx
          (fun p hp => List.fst_mem_of_mem_zipIdx hp) hf h1

/-- what the converters can produce, per base type: an `int` option only ever yields ints, … -/
theorem conv_int_range (fenv : FEnv) (s : Str) (v : Scalar) (h : BConv.apply fenv .int s = .ok v) :
    ∃ i, v = .int i := by
  simp only [BConv.apply, parseInt] at h
  split at h
  · cases h
  · split at h <;> (split at h <;> first | (cases h; exact ⟨_, rfl⟩) | cases h)

theorem conv_bool_range (fenv : FEnv) (s : Str) (v : Scalar) (h : BConv.apply fenv .bool s = .ok v) :
    ∃ b, v = .bool b := by
  simp only [BConv.apply] at h
  split at h
  · cases h; exact ⟨_, rfl⟩
  · cases h

theorem conv_float_range (fenv : FEnv) (s : Str) (v : Scalar) (h : BConv.apply fenv .float s = .ok v) :
    ∃ r, v = .float r := by
  simp only [BConv.apply] at h
  split at h
  · cases h; exact ⟨_, rfl⟩
  · cases h
  · cases h

theorem conv_enum_range (fenv : FEnv) (cls : Str) (ms : List Str) (s : Str) (v : Scalar)
    (h : BConv.apply fenv (.enumName cls ms) s = .ok v) : ∃ m, v = .enum cls m ∧ m ∈ ms := by
  simp only [BConv.apply] at h
  split at h
  · rename_i hm; cases h; exact ⟨s, rfl, by simpa using hm⟩
  · cases h

/-! ### 4. never a traceback (full since the repair of the `parse_tuple` counter, fix b1a5942) -/

/-- the unrestricted statement over arbitrary tables … -/
def NoTraceback : Prop :=
  ∀ (fenv : FEnv) (tbl : List Act) (argv : List Str) (e : Str),
    runStrict fenv tbl (tbl.map (fun _ => 0)) argv ≠ .raise e

def tupTbl : List Act :=
  [ { opts := ["--t".toList], dest := "c.t".toList, kind := .store, nargs := .num 2,
      conv := .tupleCounter [.int, .str], choices := none, required := false,
      default := some (.sc .none) } ]

/-- regression (finding C04-hetero-tuple-option-twice, repaired by b1a5942): `--t 1 a --t 2 b` on
    a `Tuple[int, str]` field raised IndexError from the closure counter; now the last occurrence
    wins and the counter is back at a multiple of the arity -/
example : runStrict [] tupTbl (tupTbl.map (fun _ => 0))
      ["--t".toList, "1".toList, "a".toList, "--t".toList, "2".toList, "b".toList]
    = .ok [("c.t".toList, .list [.int 2, .str "b".toList])] [] [4] := by decide

/-- the well-formedness every table built by simple-parsing has: a `parse_tuple` closure is over
    at least one item type (`parse_tuple(())` substitutes `(Any, ...)`), and boolean actions are the
    ones simple-parsing builds (`nargs='?'`, `type=str2bool`) -/
structure NoRaiseTbl (tbl : List Act) : Prop where
  stateless : ∀ a ∈ tbl, ∀ cs, a.conv = .tupleCounter cs → cs ≠ []
  boolwf : ∀ a ∈ tbl, ∀ negs, a.kind = .boolOpt negs → a.nargs = .opt ∧ a.conv = .base .bool

/-- the only way the model can raise from a converter: a closure over no item type at all — which
    the unrestricted statement does not exclude -/
theorem c04_no_traceback_illformed_witness : ¬ NoTraceback := by
  intro h
  exact h [] [ { opts := ["--t".toList], dest := "c.t".toList, kind := .store, nargs := .num 1,
                 conv := .tupleCounter [], choices := none, required := false,
                 default := some (.sc .none) } ] ["--t".toList, "1".toList]
    "IndexError".toList (by decide)

def NoRaise : EOut → Prop
  | .raise _ => False
  | _ => True

theorem bconv_noraise (fenv : FEnv) (b : BConv) (s : Str) (x : Str) : b.apply fenv s ≠ .raise x := by
  cases b <;> simp only [BConv.apply, parseInt, parsePath]
  · split
    · simp
    · split <;> (split <;> simp)
  · split <;> simp
  · simp
  · split <;> simp
  · split
    · simp
    · split <;> simp
  · simp
  · split <;> simp

theorem union_noraise (fenv : FEnv) (cs : List BConv) (s : Str) (x : Str) :
    unionApply fenv cs s ≠ .raise x := by
  induction cs with
  | nil => simp [unionApply]
  | cons c cs ih =>
    simp only [unionApply]
    split
    · simp
    · simp
    · exact ih

theorem conv_noraise (fenv : FEnv) (c : Conv) (k : Nat) (s : Str) (x : Str)
    (h : ∀ cs, c = .tupleCounter cs → cs ≠ []) : c.apply fenv k s ≠ .raise x := by
  cases c with
  | base b => exact bconv_noraise fenv b s x
  | union cs => exact union_noraise fenv cs s x
  | tupleCounter cs =>
    have hne := h cs rfl
    have hlt : k % cs.length < cs.length := Nat.mod_lt _ (List.length_pos_iff.mpr hne)
    simp only [Conv.apply, List.getElem?_eq_getElem hlt]
    exact bconv_noraise fenv _ s x

theorem getValue_noraise (fenv : FEnv) (act : Act) (i : Nat) (cs : List Nat) (s : Str) (e : EOut)
    (hs : ∀ c, act.conv = .tupleCounter c → c ≠ []) (h : getValue fenv act i cs s = .error e) : NoRaise e := by
  unfold getValue at h
  simp only at h
  split at h
  · cases h; simp [NoRaise]
  · rename_i x hx; exact absurd hx (conv_noraise fenv act.conv _ s x hs)
  · cases h; simp [NoRaise]
  · split at h
    · split at h
      · split at h
        · cases h
        · cases h; simp [NoRaise]
      · cases h; simp [NoRaise]
    · cases h

theorem getValuesList_noraise (fenv : FEnv) (act : Act) (i : Nat) (cs : List Nat) (toks : List Str)
    (e : EOut) (hs : ∀ c, act.conv = .tupleCounter c → c ≠ [])
    (h : getValuesList fenv act i cs toks = .error e) : NoRaise e := by
  induction toks generalizing cs with
  | nil => simp [getValuesList] at h
  | cons t ts ih =>
    simp only [getValuesList] at h
    cases h1 : getValue fenv act i cs t with
    | error e1 => rw [h1] at h; cases h; exact getValue_noraise fenv act i cs t e hs h1
    | ok p =>
      obtain ⟨v, c1⟩ := p
      rw [h1] at h
      simp only at h
      cases h2 : getValuesList fenv act i c1 ts with
      | error e2 => rw [h2] at h; cases h; exact ih c1 h2
      | ok q => rw [h2] at h; cases h

theorem getValues_noraise (fenv : FEnv) (act : Act) (i : Nat) (cs : List Nat) (toks : List Str)
    (e : EOut) (hs : ∀ c, act.conv = .tupleCounter c → c ≠ [])
    (h : getValues fenv act i cs toks = .error e) : NoRaise e := by
  rw [getValues_ok_iff] at h
  cases h1 : getValuesList fenv act i cs toks with
  | error e1 => rw [h1] at h; cases h; exact getValuesList_noraise fenv act i cs toks e hs h1
  | ok p => rw [h1] at h; cases h

theorem str2bool_conv_range (fenv : FEnv) (k : Nat) (t : Str) (s : Scalar)
    (h : (Conv.base BConv.bool).apply fenv k t = .ok s) : ∃ b, s = .bool b := by
  simp only [Conv.apply, BConv.apply] at h
  split at h
  · cases h; exact ⟨_, rfl⟩
  · cases h

theorem takeAction_noraise (fenv : FEnv) (tbl : List Act) (hw : NoRaiseTbl tbl) (st : St) (i : Nat)
    (o : Str) (args : List Str) (e : EOut)
    (hlen : ∀ act, tbl[i]? = some act → act.nargs = .opt → args.length ≤ 1)
    (h : takeAction fenv tbl st i o args = .error e) : NoRaise e := by
  unfold takeAction at h
  cases hact : tbl[i]? with
  | none => rw [hact] at h; cases h; simp [NoRaise]
  | some act =>
    have hmem : act ∈ tbl := List.mem_of_getElem? hact
    have hs := hw.stateless act hmem
    rw [hact] at h
    simp only at h
    cases hk : act.kind with
    | help => rw [hk] at h; cases h; simp [NoRaise]
    | store =>
      rw [hk] at h
      simp only at h
      cases h1 : getValues fenv act i st.counters args with
      | error e1 => rw [h1] at h; cases h; exact getValues_noraise fenv act i _ args e hs h1
      | ok p => rw [h1] at h; cases h
    | boolOpt negs =>
      obtain ⟨hn, hc⟩ := hw.boolwf act hmem negs hk
      rw [hk] at h
      simp only at h
      cases h1 : getValues fenv act i st.counters args with
      | error e1 => rw [h1] at h; cases h; exact getValues_noraise fenv act i _ args e hs h1
      | ok p =>
        obtain ⟨v, cs⟩ := p
        rw [h1] at h
        dsimp only at h
        -- with nargs='?' and type=str2bool the value is None or a bool: the ValueError branch is dead
        rw [getValues_ok_iff] at h1
        cases h2 : getValuesList fenv act i st.counters args with
        | error e2 => rw [h2] at h1; cases h1
        | ok q =>
          obtain ⟨vs, c2⟩ := q
          rw [h2] at h1
          simp only [Except.ok.injEq, Prod.mk.injEq] at h1
          have hr := getValuesList_range fenv act i _ c2 args vs h2
          obtain ⟨hv, _⟩ := h1
          rw [hn] at hv
          match vs, hv, hr with
          | [], hv, _ =>
            simp only [segVal] at hv; subst hv
            simp only at h; cases h
          | [x], hv, hr =>
            simp only [segVal] at hv; subst hv
            obtain ⟨k, t, hkt, _⟩ := hr x (by simp)
            rw [hc] at hkt
            obtain ⟨b, rfl⟩ := str2bool_conv_range fenv k t x hkt
            simp only at h
            split at h
            · cases h; simp [NoRaise]
            · cases h
          | x :: y :: zs, _, _ =>
            have h3 := getValuesList_length fenv act i _ c2 args (x :: y :: zs) h2
            have h4 := hlen act hact hn
            simp only [List.length_cons] at h3
            omega

theorem consume_noraise (fenv : FEnv) (tbl : List Act) (hw : NoRaiseTbl tbl) (fuel : Nat) (st : St)
    (l : List (Str × Tok)) (e : EOut) (h : consume fenv tbl fuel st l = .error e) : NoRaise e := by
  induction fuel generalizing st l with
  | zero =>
    cases l with
    | nil => simp [consume] at h
    | cons p ps => simp only [consume] at h; cases h; simp [NoRaise]
  | succ n ih =>
    cases l with
    | nil => simp [consume] at h
    | cons p ps =>
      obtain ⟨a, t⟩ := p
      cases t with
      | A => simp only [consume] at h; exact ih _ _ h
      | dd => simp only [consume] at h; exact ih _ _ h
      | O act o ex =>
        cases act with
        | none => simp only [consume] at h; exact ih _ _ h
        | some i =>
          cases ex with
          | some x =>
            simp only [consume] at h
            split at h
            · cases h; simp [NoRaise]
            · split at h
              · split at h <;> (cases h; simp [NoRaise])
              · have one : ∀ act, tbl[i]? = some act → act.nargs = .opt → [x].length ≤ 1 := by
                  intros; simp
                split at h
                · split at h
                  · cases ht : takeAction fenv tbl st i o [x] with
                    | error e1 => rw [ht] at h; cases h; exact takeAction_noraise _ _ hw _ _ _ _ _ one ht
                    | ok st' => rw [ht] at h; exact ih _ _ h
                  · cases h; simp [NoRaise]
                · cases ht : takeAction fenv tbl st i o [x] with
                  | error e1 => rw [ht] at h; cases h; exact takeAction_noraise _ _ hw _ _ _ _ _ one ht
                  | ok st' => rw [ht] at h; exact ih _ _ h
          | none =>
            simp only [consume] at h
            cases hact : tbl[i]? with
            | none => rw [hact] at h; cases h; simp [NoRaise]
            | some act =>
              rw [hact] at h
              simp only at h
              by_cases hkind : act.kind = .help
              · simp only [hkind, ↓reduceIte] at h; cases h; simp [NoRaise]
              · simp only [hkind, ↓reduceIte] at h
                cases hm : matchCount act.nargs (ps.map (·.2)) with
                | none => rw [hm] at h; cases h; simp [NoRaise]
                | some k =>
                  rw [hm] at h
                  simp only at h
                  cases ht : takeAction fenv tbl st i o ((ps.take k).map (·.1)) with
                  | error e1 =>
                    rw [ht] at h; cases h
                    refine takeAction_noraise _ _ hw _ _ _ _ _ ?_ ht
                    intro act' hact' hn
                    rw [hact] at hact'; cases hact'
                    rw [hn] at hm
                    simp only [matchCount, Option.some.injEq] at hm
                    simp only [List.length_map, List.length_take]
                    omega
                  | ok st' => rw [ht] at h; exact ih _ _ h

theorem finish_noraise (fenv : FEnv) (tbl : List Act) (hw : NoRaiseTbl tbl) (st : St)
    (l : List (Act × Nat)) (hl : ∀ p ∈ l, p.1 ∈ tbl) (e : EOut)
    (h : finish fenv tbl st l = .error e) : NoRaise e := by
  induction l generalizing st with
  | nil => simp [finish] at h
  | cons p ps ih =>
    obtain ⟨a, i⟩ := p
    have hl' : ∀ q ∈ ps, q.1 ∈ tbl := fun q hq => hl q (by simp [hq])
    have ha : a ∈ tbl := hl (a, i) (by simp)
    rw [finish] at h
    split at h
    · exact ih _ hl' h
    · split at h
      · cases h; simp [NoRaise]
      · split at h
        · split at h
          · split at h
            · exact ih _ hl' h
            · cases h; simp [NoRaise]
            · rename_i x hx
              exact absurd hx (conv_noraise fenv a.conv _ _ x (hw.stateless a ha))
            · cases h; simp [NoRaise]
          · exact ih _ hl' h
        · exact ih _ hl' h

/-- **C04 (no traceback), partial.** Excluding only tables with a heterogeneous-tuple closure, the
    engine never lets an exception escape: for EVERY argv the outcome is a namespace, an exit, or
    "outside the modelled fragment". -/
theorem c04_no_traceback_partial (fenv : FEnv) (tbl : List Act) (hw : NoRaiseTbl tbl)
    (cs : List Nat) (argv : List Str) (x : Str) : runStrict fenv tbl cs argv ≠ .raise x := by
  intro h
  have hrun : run fenv tbl cs argv ≠ .raise x := by
    intro hr
    unfold run at hr
    cases hlex : lexAll tbl argv with
    | error e => rw [hlex] at hr; cases hr
    | ok toks =>
      rw [hlex] at hr
      dsimp only at hr
      cases hc : consume fenv tbl (argv.length + 1)
          { ns := initNs tbl, extras := [], seen := [], counters := cs } (argv.zip toks) with
      | error e =>
        rw [hc] at hr; dsimp only at hr
        have := consume_noraise fenv tbl hw _ _ _ e hc
        rw [hr] at this; exact this
      | ok st =>
        rw [hc] at hr; dsimp only at hr
        cases hf : finish fenv tbl st tbl.zipIdx with
        | error e =>
          rw [hf] at hr; dsimp only at hr
          have := finish_noraise fenv tbl hw st _ (fun p hp => List.fst_mem_of_mem_zipIdx hp) e hf
          rw [hr] at this; exact this
        | ok st2 => rw [hf] at hr; cases hr
  unfold runStrict at h
  split at h
  · cases h
  · cases h
  · rename_i e _ _
    exact hrun h

/-- non-vacuity: `--zzz` is an unknown token for a table with `--n` and `--l`; the demo table
    satisfies `NoRaiseTbl`; a missing required `--n` is rejected by the model -/
example : lexAll demoTbl ["--n".toList, "1".toList, "--zzz".toList] =
    .ok [.O (some 1) "--n".toList none, .A, .O none "--zzz".toList none] := by rfl

example : NoRaiseTbl demoTbl :=
  ⟨by intro a ha cs; simp [demoTbl, helpAct] at ha; rcases ha with h | h | h <;> subst h <;> simp,
   by intro a ha negs hk; simp [demoTbl, helpAct] at ha; rcases ha with h | h | h <;> subst h <;> simp at hk⟩

example : runStrict [] demoTbl [0, 0, 0] ["--l".toList, "a".toList, "b".toList] = .exit 2 .required := by
  decide

/-! ### 5. the well-formedness hypothesis of "never a traceback" is met by every table
    simple-parsing builds for a flat dataclass (so the theorem is unconditional there) -/

theorem tupleConv_wf (items : List ITy) (c : Conv) (h : tupleConv items = some c) :
    ∀ cs, c = .tupleCounter cs → cs ≠ [] := by
  intro cs hc
  subst hc
  unfold tupleConv at h
  cases items with
  | nil => simp at h
  | cons t rest =>
    simp only at h
    split at h
    · cases t <;> simp [convOfItem] at h
    · split at h
      · rename_i hlen
        simp only [Option.some.injEq, Conv.tupleCounter.injEq] at h
        intro hnil
        rw [h, hnil] at hlen
        simp at hlen
      · cases h

theorem containerConv_wf (item : ITy) (c : Conv) (h : containerConv item = some c) :
    ∀ cs, c ≠ .tupleCounter cs := by
  intro cs hc
  subst hc
  cases item with
  | base b => cases b <;> simp [containerConv] at h
  | union alts => simp [containerConv] at h

theorem convOfItem_wf (t : ITy) : ∀ cs, convOfItem t ≠ .tupleCounter cs := by
  intro cs; cases t <;> simp [convOfItem]

theorem argOptions_wf (f : FieldSpec) (ao : ArgOpts) (h : argOptions f = some ao) :
    (∀ cs, ao.conv = .tupleCounter cs → cs ≠ []) ∧
      (ao.isBool = true → ao.nargs = .opt ∧ ao.conv = .base .bool) := by
  obtain ⟨name, ⟨inner, opt⟩, d, als⟩ := f
  unfold argOptions at h
  simp only at h
  cases inner with
  | literal vals =>
    cases opt
    · simp only at h
      cases hm : vals.mapM literalName with
      | none => simp [hm] at h
      | some names => simp only [hm, Option.map_some, Option.some.injEq] at h; subst h; simp
    · simp at h
  | sc t =>
    have hw := convOfItem_wf t
    cases opt <;> simp only [Bool.true_or, Bool.false_or, ↓reduceIte] at h
    · split at h
      · simp only [Option.some.injEq] at h; subst h; exact ⟨fun cs hcs => absurd hcs (hw cs), by simp⟩
      · cases t with
        | union alts => simp only [Option.some.injEq] at h; subst h; simp
        | base b =>
          cases b <;> simp only [Option.some.injEq] at h <;> subst h <;> simp [bconvOf]
    · simp only [Option.some.injEq] at h; subst h; exact ⟨fun cs hcs => absurd hcs (hw cs), by simp⟩
  | list item =>
    cases hc : containerConv item with
    | none => cases opt <;> simp [hc] at h
    | some c =>
      have hw := containerConv_wf item c hc
      cases opt <;> simp only [hc, Option.map_some, Bool.true_or, Bool.false_or, ↓reduceIte] at h
      · split at h <;> (simp only [Option.some.injEq] at h; subst h; exact ⟨fun cs hcs => absurd hcs (hw cs), by simp⟩)
      · simp only [Option.some.injEq] at h; subst h; exact ⟨fun cs hcs => absurd hcs (hw cs), by simp⟩
  | tuple items =>
    cases hc : tupleConv items with
    | none => cases opt <;> simp [hc] at h
    | some c =>
      have hw := tupleConv_wf items c hc
      cases opt <;> simp only [hc, Option.map_some, Bool.true_or, Bool.false_or, ↓reduceIte] at h
      · split at h <;> (simp only [Option.some.injEq] at h; subst h; exact ⟨hw, by simp⟩)
      · simp only [Option.some.injEq] at h; subst h; exact ⟨hw, by simp⟩
  | vtuple item =>
    have hw := convOfItem_wf item
    cases opt <;> simp only [Bool.true_or, Bool.false_or, ↓reduceIte] at h
    · split at h <;> (simp only [Option.some.injEq] at h; subst h; exact ⟨fun cs hcs => absurd hcs (hw cs), by simp⟩)
    · simp only [Option.some.injEq] at h; subst h; exact ⟨fun cs hcs => absurd hcs (hw cs), by simp⟩

theorem mapM_mem {α β : Type} (g : α → Option β) : ∀ (l : List α) (as : List β), l.mapM g = some as →
    ∀ a ∈ as, ∃ x ∈ l, g x = some a
  | [], as, h, a, ha => by simp at h; subst h; simp at ha
  | x :: xs, as, h, a, ha => by
    rw [List.mapM_cons] at h
    cases hx : g x with
    | none => simp [hx] at h
    | some b =>
      cases hr : xs.mapM g with
      | none => simp [hx, hr] at h
      | some bs =>
        simp only [hx, hr, Option.pure_def, Option.bind_eq_bind, Option.bind_some, Option.some.injEq] at h
        subst h
        rcases List.mem_cons.mp ha with rfl | hm
        · exact ⟨x, by simp, hx⟩
        · obtain ⟨y, hy, hg⟩ := mapM_mem g xs bs hr a hm
          exact ⟨y, by simp [hy], hg⟩

/-- every table simple-parsing builds for a flat dataclass is well-formed in the sense of
    `NoRaiseTbl`: tuple closures are over at least one item type, boolean actions are
    `nargs='?'` with `type=str2bool` -/
theorem tableOf_noRaiseTbl (cfg : Cfg) (dest : Str) (fs : List FieldSpec) (tbl : List Act)
    (h : tableOf cfg dest fs = some tbl) : NoRaiseTbl tbl := by
  unfold tableOf at h
  cases hm : fs.mapM (fieldAct cfg dest) with
  | none => simp [hm] at h
  | some acts =>
    simp only [hm, Option.map_some, Option.some.injEq] at h
    subst h
    have key : ∀ a ∈ helpAct :: acts, (∀ cs, a.conv = .tupleCounter cs → cs ≠ []) ∧
        (∀ negs, a.kind = .boolOpt negs → a.nargs = .opt ∧ a.conv = .base .bool) := by
      intro a ha
      rcases List.mem_cons.mp ha with rfl | hm'
      · exact ⟨by intro cs hc; simp [helpAct] at hc, by intro negs hk; simp [helpAct] at hk⟩
      · obtain ⟨f, _, hf⟩ := mapM_mem _ fs acts hm a hm'
        unfold fieldAct at hf
        cases hao : argOptions f with
        | none => simp [hao] at hf
        | some ao =>
          obtain ⟨h1, h2⟩ := argOptions_wf f ao hao
          simp only [hao, Option.map_some, Option.some.injEq] at hf
          subst hf
          refine ⟨h1, ?_⟩
          intro negs hk
          cases hb : ao.isBool with
          | false => simp [hb] at hk
          | true => exact h2 hb
    exact ⟨fun a ha => (key a ha).1, fun a ha => (key a ha).2⟩

/-- **C04 (never a traceback), for every flat dataclass**: whatever the fields (of the modelled
    annotation grammar), whatever the argv and the closure state, parsing ends in a result or an
    argparse exit — no exception escapes the engine. -/
theorem c04_no_traceback_flat (fenv : FEnv) (cfg : Cfg) (dest : Str) (fs : List FieldSpec)
    (tbl : List Act) (h : tableOf cfg dest fs = some tbl) (cs : List Nat) (argv : List Str) (x : Str) :
    runStrict fenv tbl cs argv ≠ .raise x :=
  c04_no_traceback_partial fenv tbl (tableOf_noRaiseTbl cfg dest fs tbl h) cs argv x
/-! ### 6. the `parse_tuple` closure counters stay aligned across accepted command lines -/

def tc (act : Act) : Nat := match act.conv with | .tupleCounter _ => 1 | _ => 0

theorem getValue_counters (fenv : FEnv) (act : Act) (i : Nat) (cs cs' : List Nat) (t : Str) (v : Scalar)
    (hi : i < cs.length) (h : getValue fenv act i cs t = .ok (v, cs')) :
    cs'.length = cs.length ∧ cs'.getD i 0 = cs.getD i 0 + tc act ∧ ∀ j, j ≠ i → cs'.getD j 0 = cs.getD j 0 := by
  unfold getValue at h
  simp only at h
  have key : ∀ c', c' = (match act.conv, act.conv.apply fenv (cs.getD i 0) t with
      | .tupleCounter _, .ok _ => bump cs i
      | _, _ => cs) → (∃ x, act.conv.apply fenv (cs.getD i 0) t = .ok x) →
      c'.length = cs.length ∧ c'.getD i 0 = cs.getD i 0 + tc act ∧ ∀ j, j ≠ i → c'.getD j 0 = cs.getD j 0 := by
    intro c' hc' ⟨x, hx⟩
    subst hc'
    unfold tc
    cases hconv : act.conv with
    | base b => simp
    | union l => simp
    | tupleCounter bs =>
      rw [hconv] at hx
      simp only [hx]
      exact ⟨bump_length cs i, bump_getD cs i hi, fun j hj => bump_getD_ne cs i j hj⟩
  split at h
  · cases h
  · cases h
  · cases h
  · rename_i x hx
    split at h
    · split at h
      · split at h
        · simp only [Except.ok.injEq, Prod.mk.injEq] at h
          exact key cs' h.2.symm ⟨_, hx⟩
        · cases h
      · cases h
    · simp only [Except.ok.injEq, Prod.mk.injEq] at h
      exact key cs' h.2.symm ⟨_, hx⟩

theorem getValuesList_counters (fenv : FEnv) (act : Act) (i : Nat) :
    ∀ (toks : List Str) (cs cs' : List Nat) (vs : List Scalar), i < cs.length →
      getValuesList fenv act i cs toks = .ok (vs, cs') →
      cs'.length = cs.length ∧ cs'.getD i 0 = cs.getD i 0 + toks.length * tc act ∧
        ∀ j, j ≠ i → cs'.getD j 0 = cs.getD j 0 := by
  intro toks
  induction toks with
  | nil =>
    intro cs cs' vs _ h
    simp only [getValuesList, Except.ok.injEq, Prod.mk.injEq] at h
    rw [← h.2]; simp
  | cons t ts ih =>
    intro cs cs' vs hi h
    simp only [getValuesList] at h
    cases h1 : getValue fenv act i cs t with
    | error e => rw [h1] at h; cases h
    | ok p =>
      obtain ⟨v, c1⟩ := p
      rw [h1] at h
      simp only at h
      cases h2 : getValuesList fenv act i c1 ts with
      | error e => rw [h2] at h; cases h
      | ok q =>
        obtain ⟨vs2, c2⟩ := q
        rw [h2] at h
        simp only [Except.ok.injEq, Prod.mk.injEq] at h
        obtain ⟨_, rfl⟩ := h
        obtain ⟨hl1, hi1, hj1⟩ := getValue_counters fenv act i cs c1 t v hi h1
        obtain ⟨hl2, hi2, hj2⟩ := ih c1 c2 vs2 (by rw [hl1]; exact hi) h2
        refine ⟨by rw [hl2, hl1], ?_, fun j hj => by rw [hj2 j hj, hj1 j hj]⟩
        rw [hi2, hi1, List.length_cons, Nat.add_mul]
        omega

theorem getValues_counters (fenv : FEnv) (act : Act) (i : Nat) (toks : List Str) (cs cs' : List Nat)
    (v : Val) (hi : i < cs.length) (h : getValues fenv act i cs toks = .ok (v, cs')) :
    cs'.length = cs.length ∧ cs'.getD i 0 = cs.getD i 0 + toks.length * tc act ∧
      ∀ j, j ≠ i → cs'.getD j 0 = cs.getD j 0 := by
  rw [getValues_ok_iff] at h
  cases h1 : getValuesList fenv act i cs toks with
  | error e => rw [h1] at h; cases h
  | ok p =>
    obtain ⟨vs, c1⟩ := p
    rw [h1] at h
    simp only [Except.ok.injEq, Prod.mk.injEq] at h
    rw [← h.2]
    exact getValuesList_counters fenv act i toks cs c1 vs hi h1

/-- the counters of all fixed-arity `parse_tuple` closures are multiples of their arity -/
def Aligned (tbl : List Act) (cs : List Nat) : Prop :=
  cs.length = tbl.length ∧
    ∀ i act bs, tbl[i]? = some act → act.conv = .tupleCounter bs → act.nargs = .num bs.length →
      cs.getD i 0 % bs.length = 0

theorem takeAction_counters (fenv : FEnv) (tbl : List Act) (st st' : St) (i : Nat) (o : Str)
    (args : List Str) (act : Act) (hact : tbl[i]? = some act) (hi : i < st.counters.length)
    (h : takeAction fenv tbl st i o args = .ok st') :
    st'.counters.length = st.counters.length ∧
      st'.counters.getD i 0 = st.counters.getD i 0 + args.length * tc act ∧
      ∀ j, j ≠ i → st'.counters.getD j 0 = st.counters.getD j 0 := by
  unfold takeAction at h
  rw [hact] at h
  simp only at h
  cases hk : act.kind with
  | help => rw [hk] at h; cases h
  | store =>
    rw [hk] at h
    simp only at h
    cases h1 : getValues fenv act i st.counters args with
    | error e1 => rw [h1] at h; cases h
    | ok p =>
      obtain ⟨v, cs⟩ := p
      rw [h1] at h
      simp only [Except.ok.injEq] at h
      subst h
      exact getValues_counters fenv act i args st.counters cs v hi h1
  | boolOpt negs =>
    rw [hk] at h
    simp only at h
    cases h1 : getValues fenv act i st.counters args with
    | error e1 => rw [h1] at h; cases h
    | ok p =>
      obtain ⟨v, cs⟩ := p
      rw [h1] at h
      have := getValues_counters fenv act i args st.counters cs v hi h1
      dsimp only at h
      split at h
      · simp only [Except.ok.injEq] at h; subst h; exact this
      · split at h
        · cases h
        · simp only [Except.ok.injEq] at h; subst h; exact this
      · cases h

theorem takeAction_aligned (fenv : FEnv) (tbl : List Act) (st st' : St) (i : Nat) (o : Str)
    (args : List Str) (hal : Aligned tbl st.counters)
    (hargs : ∀ act m, tbl[i]? = some act → act.nargs = .num m → args.length = m)
    (h : takeAction fenv tbl st i o args = .ok st') : Aligned tbl st'.counters := by
  cases hact : tbl[i]? with
  | none => unfold takeAction at h; rw [hact] at h; cases h
  | some act =>
    have hi : i < st.counters.length := by
      rw [hal.1]
      exact (List.getElem?_eq_some_iff.mp hact).1
    obtain ⟨hl, hii, hjj⟩ := takeAction_counters fenv tbl st st' i o args act hact hi h
    refine ⟨by rw [hl, hal.1], ?_⟩
    intro j actj bs hj hconv hn
    by_cases hji : j = i
    · subst hji
      rw [hact] at hj
      cases hj
      rw [hii]
      have htc : tc act = 1 := by unfold tc; rw [hconv]
      rw [htc, Nat.mul_one, hargs act bs.length hact hn, Nat.add_mod_right]
      exact hal.2 j act bs hact hconv hn
    · rw [hjj j hji]
      exact hal.2 j actj bs hj hconv hn

theorem countA_le_length (l : List Tok) : countA l ≤ l.length := by
  induction l with
  | nil => simp [countA]
  | cons t ts ih => cases t <;> simp [countA] <;> omega

theorem matchCount_num (m : Nat) (f : List Tok) (k : Nat) (h : matchCount (.num m) f = some k) :
    k = m ∧ m ≤ f.length := by
  unfold matchCount at h
  simp only at h
  split at h
  · rename_i hge
    simp only [Option.some.injEq] at h
    exact ⟨h.symm, Nat.le_trans hge (countA_le_length f)⟩
  · cases h

theorem consume_aligned (fenv : FEnv) (tbl : List Act) (fuel : Nat) (st st' : St)
    (l : List (Str × Tok)) (h : consume fenv tbl fuel st l = .ok st') (hal : Aligned tbl st.counters) :
    Aligned tbl st'.counters := by
  induction fuel generalizing st l with
  | zero =>
    cases l with
    | nil => simp only [consume, Except.ok.injEq] at h; subst h; exact hal
    | cons p ps => simp [consume] at h
  | succ n ih =>
    cases l with
    | nil => simp only [consume, Except.ok.injEq] at h; subst h; exact hal
    | cons p ps =>
      obtain ⟨a, t⟩ := p
      cases t with
      | A => simp only [consume] at h; exact ih _ _ h hal
      | dd => simp only [consume] at h; exact ih _ _ h hal
      | O act o ex =>
        cases act with
        | none => simp only [consume] at h; exact ih _ _ h hal
        | some i =>
          cases ex with
          | some x =>
            simp only [consume] at h
            cases hact : tbl[i]? with
            | none => rw [hact] at h; cases h
            | some act =>
              rw [hact] at h
              simp only at h
              split at h
              · split at h <;> cases h
              · cases hn : act.nargs with
                | num m =>
                  rw [hn] at h
                  simp only at h
                  split at h
                  · rename_i hm1
                    cases ht : takeAction fenv tbl st i o [x] with
                    | error e1 => rw [ht] at h; cases h
                    | ok st2 =>
                      rw [ht] at h
                      refine ih _ _ h (takeAction_aligned fenv tbl st st2 i o [x] hal ?_ ht)
                      intro act' m' ha' hn'
                      rw [hact] at ha'; cases ha'
                      rw [hn] at hn'; cases hn'
                      simp [hm1]
                  · cases h
                | one =>
                  rw [hn] at h
                  simp only at h
                  cases ht : takeAction fenv tbl st i o [x] with
                  | error e1 => rw [ht] at h; cases h
                  | ok st2 =>
                    rw [ht] at h
                    refine ih _ _ h (takeAction_aligned fenv tbl st st2 i o [x] hal ?_ ht)
                    intro act' m' ha' hn'
                    rw [hact] at ha'; cases ha'
                    rw [hn] at hn'; cases hn'
                | opt =>
                  rw [hn] at h
                  simp only at h
                  cases ht : takeAction fenv tbl st i o [x] with
                  | error e1 => rw [ht] at h; cases h
                  | ok st2 =>
                    rw [ht] at h
                    refine ih _ _ h (takeAction_aligned fenv tbl st st2 i o [x] hal ?_ ht)
                    intro act' m' ha' hn'
                    rw [hact] at ha'; cases ha'
                    rw [hn] at hn'; cases hn'
                | star =>
                  rw [hn] at h
                  simp only at h
                  cases ht : takeAction fenv tbl st i o [x] with
                  | error e1 => rw [ht] at h; cases h
                  | ok st2 =>
                    rw [ht] at h
                    refine ih _ _ h (takeAction_aligned fenv tbl st st2 i o [x] hal ?_ ht)
                    intro act' m' ha' hn'
                    rw [hact] at ha'; cases ha'
                    rw [hn] at hn'; cases hn'
                | plus =>
                  rw [hn] at h
                  simp only at h
                  cases ht : takeAction fenv tbl st i o [x] with
                  | error e1 => rw [ht] at h; cases h
                  | ok st2 =>
                    rw [ht] at h
                    refine ih _ _ h (takeAction_aligned fenv tbl st st2 i o [x] hal ?_ ht)
                    intro act' m' ha' hn'
                    rw [hact] at ha'; cases ha'
                    rw [hn] at hn'; cases hn'
          | none =>
            simp only [consume] at h
            cases hact : tbl[i]? with
            | none => rw [hact] at h; cases h
            | some act =>
              rw [hact] at h
              simp only at h
              by_cases hkind : act.kind = .help
              · simp only [hkind, ↓reduceIte] at h; cases h
              · simp only [hkind, ↓reduceIte] at h
                cases hm : matchCount act.nargs (ps.map (·.2)) with
                | none => rw [hm] at h; cases h
                | some k =>
                  rw [hm] at h
                  simp only at h
                  cases ht : takeAction fenv tbl st i o ((ps.take k).map (·.1)) with
                  | error e1 => rw [ht] at h; cases h
                  | ok st2 =>
                    rw [ht] at h
                    refine ih _ _ h (takeAction_aligned fenv tbl st st2 i o _ hal ?_ ht)
                    intro act' m' ha' hn'
                    rw [hact] at ha'; cases ha'
                    rw [hn'] at hm
                    obtain ⟨hk, hle⟩ := matchCount_num m' _ k hm
                    simp only [List.length_map, List.length_take] at hle ⊢
                    omega

theorem finish_counters (fenv : FEnv) (tbl : List Act) (st st' : St) (l : List (Act × Nat))
    (h : finish fenv tbl st l = .ok st') : st'.counters = st.counters := by
  induction l generalizing st with
  | nil => simp only [finish, Except.ok.injEq] at h; subst h; rfl
  | cons p ps ih =>
    obtain ⟨a, i⟩ := p
    rw [finish] at h
    split at h
    · exact ih _ h
    · split at h
      · cases h
      · split at h
        · split at h
          · split at h
            · have := ih _ h; exact this
            · cases h
            · cases h
            · cases h
          · exact ih _ h
        · exact ih _ h

/-- **the `parse_tuple` closures stay aligned across parses**: if before a parse every fixed-arity
    tuple closure's call counter is a multiple of its arity (true for a new parser: all 0), then it
    is so again after ANY accepted command line — however many times the tuple options occur. So
    the next parse on the same parser starts every tuple at its first item type (with
    `C02.c02_tuple_occurrence`: it converts exactly as a fresh parser would). Rejected command lines
    reset the counter in the real code (fix b1a5942); the model's exits carry no state. -/
theorem c04_counters_aligned (fenv : FEnv) (tbl : List Act) (cs : List Nat) (argv : List Str)
    (ns : List (Str × Val)) (ex : List Str) (cs' : List Nat)
    (hal : Aligned tbl cs) (h : run fenv tbl cs argv = .ok ns ex cs') : Aligned tbl cs' := by
  unfold run at h
  cases hlex : lexAll tbl argv with
  | error e => rw [hlex] at h; cases h
  | ok toks =>
    rw [hlex] at h
    dsimp only at h
    cases hc : consume fenv tbl (argv.length + 1)
        { ns := initNs tbl, extras := [], seen := [], counters := cs } (argv.zip toks) with
    | error e =>
      rw [hc] at h; dsimp only at h
      have := consume_err _ _ _ _ _ _ hc
      rw [h] at this; exact absurd this (by simp [GoodErr])
    | ok st =>
      rw [hc] at h; dsimp only at h
      have h1 := consume_aligned fenv tbl _ _ st _ hc hal
      cases hf : finish fenv tbl st tbl.zipIdx with
      | error e =>
        rw [hf] at h; dsimp only at h
        have := finish_err _ _ _ _ _ hf
        rw [h] at this; exact absurd this (by simp [GoodErr])
      | ok st2 =>
        rw [hf] at h; dsimp only at h
        simp only [EOut.ok.injEq] at h
        rw [← h.2.2, finish_counters fenv tbl st st2 _ hf]
        exact h1

example : Aligned tupTbl [0] := ⟨rfl, by
  intro i act bs h hc hn
  match i, h with
  | 0, h =>
    simp only [tupTbl, List.getElem?_cons_zero, Option.some.injEq] at h
    subst h
    simp only [Conv.tupleCounter.injEq] at hc
    subst hc
    rfl
  | _ + 1, h => simp [tupTbl] at h⟩

/-! ### 7. every outcome accounted for: the model's escape hatches are dead code -/

theorem lookup_mem {β : Type} (l : List (Str × β)) (k : Str) (v : β) (h : l.lookup k = some v) :
    (k, v) ∈ l := by
  induction l with
  | nil => simp [List.lookup] at h
  | cons p ps ih =>
    obtain ⟨a, b⟩ := p
    simp only [List.lookup] at h
    split at h
    · rename_i heq
      simp only [Option.some.injEq] at h
      subst h
      have : k = a := by simpa using heq
      subst this
      simp
    · exact List.mem_cons_of_mem _ (ih h)

/-- an entry of `_option_string_actions` is an option string of the action with that index -/
theorem mem_optTable_idx (tbl : List Act) (o : Str) (i : Nat) (h : (o, i) ∈ optTable tbl) :
    ∃ act, tbl[i]? = some act ∧ o ∈ act.opts := by
  unfold optTable at h
  rw [List.mem_flatMap] at h
  obtain ⟨⟨a, j⟩, haj, hp⟩ := h
  rw [List.mem_map] at hp
  obtain ⟨o', ho', heq⟩ := hp
  simp only [Prod.mk.injEq] at heq
  obtain ⟨rfl, rfl⟩ := heq
  exact ⟨a, List.mem_zipIdx_iff_getElem?.mp haj, ho'⟩

theorem optionTuples_mem (ot : List (Str × Nat)) (arg : Str) (x : Nat × Str × Option Str)
    (h : x ∈ optionTuples ot arg) : (x.2.1, x.1) ∈ ot := by
  unfold optionTuples at h
  split at h
  · simp only [List.mem_map, List.mem_filter] at h
    obtain ⟨p, ⟨hp, _⟩, rfl⟩ := h
    exact hp
  · simp only [List.mem_filterMap] at h
    obtain ⟨p, hp, hx⟩ := h
    split at hx
    · simp only [Option.some.injEq] at hx; subst hx; exact hp
    · split at hx
      · simp only [Option.some.injEq] at hx; subst hx; exact hp
      · cases hx
  · cases h

/-- **the lexer only attaches tokens to real actions**: an owned option token carries an option
    string of the action it names -/
theorem classify_O_sound (tbl : List Act) (arg : Str) (i : Nat) (o : Str) (ex : Option Str)
    (h : classify tbl arg = .ok (.O (some i) o ex)) : (o, i) ∈ optTable tbl := by
  unfold classify at h
  simp only at h
  split at h
  · cases h
  · split at h
    · cases h
    · split at h
      · rename_i j hl
        simp only [Except.ok.injEq, Tok.O.injEq, Option.some.injEq] at h
        obtain ⟨rfl, rfl, _⟩ := h
        exact lookup_mem _ _ _ hl
      · split at h
        · cases h
        · split at h
          · rename_i t ht
            simp only [Except.ok.injEq] at h
            subst h
            split at ht
            · split at ht
              · rename_i j hl
                simp only [Option.some.injEq, Tok.O.injEq] at ht
                obtain ⟨rfl, rfl, _⟩ := ht
                exact lookup_mem _ _ _ hl
              · cases ht
            · cases ht
          · split at h
            · cases h
            · rename_i j o' e' hot
              simp only [Except.ok.injEq, Tok.O.injEq, Option.some.injEq] at h
              obtain ⟨rfl, rfl, _⟩ := h
              have := optionTuples_mem (optTable tbl) _ (j, o', e') (by rw [hot]; simp)
              exact this
            · split at h
              · cases h
              · split at h <;> cases h

theorem lexAll_O_sound (tbl : List Act) : ∀ (argv : List Str) (toks : List Tok),
    lexAll tbl argv = .ok toks → ∀ i o ex, Tok.O (some i) o ex ∈ toks → (o, i) ∈ optTable tbl := by
  intro argv
  induction argv with
  | nil => intro toks h; simp only [lexAll, Except.ok.injEq] at h; subst h; simp
  | cons a rest ih =>
    intro toks h i o ex hm
    simp only [lexAll] at h
    split at h
    · simp only [Except.ok.injEq] at h
      subst h
      simp at hm
    · cases hc : classify tbl a with
      | error e => rw [hc] at h; cases h
      | ok t =>
        rw [hc] at h
        simp only at h
        cases hr : lexAll tbl rest with
        | error e => rw [hr] at h; cases h
        | ok ts =>
          rw [hr] at h
          simp only [Except.ok.injEq] at h
          subst h
          rcases List.mem_cons.mp hm with hm | hm
          · subst hm; exact classify_O_sound tbl a i o ex hc
          · exact ih ts hr i o ex hm

/-- (`lexAll_idx`) every owned option token names an index inside the table -/
theorem lexAll_idx (tbl : List Act) (argv : List Str) (toks : List Tok)
    (h : lexAll tbl argv = .ok toks) (i : Nat) (o : Str) (ex : Option Str)
    (hm : Tok.O (some i) o ex ∈ toks) : ∃ act, tbl[i]? = some act ∧ o ∈ act.opts :=
  mem_optTable_idx tbl o i (lexAll_O_sound tbl argv toks h i o ex hm)


/-- failures of a `type=` / `choices=` check -/
def ConvErr (e : EOut) : Prop :=
  e = .exit 2 .type ∨ e = .exit 2 .choice ∨ (∃ x, e = .raise x) ∨
    e = .unmodelled "type conversion outside the modelled fragment"

theorem getValue_err_cases (fenv : FEnv) (act : Act) (i : Nat) (cs : List Nat) (s : Str) (e : EOut)
    (h : getValue fenv act i cs s = .error e) : ConvErr e := by
  unfold getValue at h
  simp only at h
  split at h
  · cases h; exact Or.inl rfl
  · cases h; exact Or.inr (Or.inr (Or.inl ⟨_, rfl⟩))
  · cases h; exact Or.inr (Or.inr (Or.inr rfl))
  · split at h
    · split at h
      · split at h
        · cases h
        · cases h; exact Or.inr (Or.inl rfl)
      · cases h; exact Or.inr (Or.inl rfl)
    · cases h

theorem getValuesList_err_cases (fenv : FEnv) (act : Act) (i : Nat) (cs : List Nat)
    (toks : List Str) (e : EOut) (h : getValuesList fenv act i cs toks = .error e) : ConvErr e := by
  induction toks generalizing cs with
  | nil => simp [getValuesList] at h
  | cons t ts ih =>
    simp only [getValuesList] at h
    cases h1 : getValue fenv act i cs t with
    | error e1 => rw [h1] at h; cases h; exact getValue_err_cases fenv act i cs t e h1
    | ok p =>
      obtain ⟨v, c1⟩ := p
      rw [h1] at h
      simp only at h
      cases h2 : getValuesList fenv act i c1 ts with
      | error e2 => rw [h2] at h; cases h; exact ih c1 h2
      | ok q => rw [h2] at h; cases h

theorem getValues_err_cases (fenv : FEnv) (act : Act) (i : Nat) (cs : List Nat) (toks : List Str)
    (e : EOut) (h : getValues fenv act i cs toks = .error e) : ConvErr e := by
  rw [getValues_ok_iff] at h
  cases h1 : getValuesList fenv act i cs toks with
  | error e1 => rw [h1] at h; cases h; exact getValuesList_err_cases fenv act i cs toks e h1
  | ok p => rw [h1] at h; cases h

/-- a failed `take_action` of a non-help action: a conversion failure, the negative-flag error, or
    the (for well-formed tables dead) ValueError of `BooleanOptionalAction` -/
theorem takeAction_err_cases (fenv : FEnv) (tbl : List Act) (st : St) (i : Nat) (o : Str)
    (args : List Str) (e : EOut) (act : Act) (hact : tbl[i]? = some act) (hk : act.kind ≠ .help)
    (h : takeAction fenv tbl st i o args = .error e) : ConvErr e ∨ e = .exit 2 .negflag := by
  unfold takeAction at h
  rw [hact] at h
  simp only at h
  cases hkind : act.kind with
  | help => exact absurd hkind hk
  | store =>
    rw [hkind] at h
    simp only at h
    cases h1 : getValues fenv act i st.counters args with
    | error e1 => rw [h1] at h; cases h; exact Or.inl (getValues_err_cases _ _ _ _ _ _ h1)
    | ok p => rw [h1] at h; cases h
  | boolOpt negs =>
    rw [hkind] at h
    simp only at h
    cases h1 : getValues fenv act i st.counters args with
    | error e1 => rw [h1] at h; cases h; exact Or.inl (getValues_err_cases _ _ _ _ _ _ h1)
    | ok p =>
      obtain ⟨v, cs⟩ := p
      rw [h1] at h
      simp only at h
      split at h
      · cases h
      · split at h
        · cases h; exact Or.inr rfl
        · cases h
      · cases h; exact Or.inl (Or.inr (Or.inr (Or.inl ⟨_, rfl⟩)))

theorem finish_err_cases (fenv : FEnv) (tbl : List Act) (st : St) (l : List (Act × Nat)) (e : EOut)
    (h : finish fenv tbl st l = .error e) :
    e = .exit 2 .required ∨ e = .exit 2 .type ∨ (∃ x, e = .raise x) ∨
      e = .unmodelled "default conversion" := by
  induction l generalizing st with
  | nil => simp [finish] at h
  | cons p ps ih =>
    obtain ⟨a, i⟩ := p
    rw [finish] at h
    split at h
    · exact ih _ h
    · split at h
      · cases h; exact Or.inl rfl
      · split at h
        · split at h
          · split at h
            · exact ih _ h
            · cases h; exact Or.inr (Or.inl rfl)
            · cases h; exact Or.inr (Or.inr (Or.inl ⟨_, rfl⟩))
            · cases h; exact Or.inr (Or.inr (Or.inr rfl))
          · exact ih _ h
        · exact ih _ h

/-- the reasons for which the model may answer "outside the modelled fragment" -/
def ConversionWhy (w : String) : Prop :=
  w = "type conversion outside the modelled fragment" ∨ w = "default conversion" ∨
    w = "single-dash cluster"

/-- where a failure of `run` (not strict) comes from -/
theorem run_err_cases (fenv : FEnv) (tbl : List Act) (cs : List Nat) (argv : List Str) :
    (∃ ns ex cs', run fenv tbl cs argv = .ok ns ex cs') ∨
    run fenv tbl cs argv = .exit 2 .ambiguous ∨
    (∃ e, run fenv tbl cs argv = e ∧
      (e = .exit 2 .required ∨ e = .exit 2 .type ∨ (∃ x, e = .raise x) ∨
        e = .unmodelled "default conversion")) ∨
    (∃ toks a i o ex act, lexAll tbl argv = .ok toks ∧ (a, Tok.O (some i) o ex) ∈ argv.zip toks ∧
      tbl[i]? = some act ∧
      ((act.kind = .help ∧ (run fenv tbl cs argv = .exit 0 .help ∨
          run fenv tbl cs argv = .exit 2 .explicit ∨
          run fenv tbl cs argv = .unmodelled "single-dash cluster")) ∨
       (act.kind ≠ .help ∧ (run fenv tbl cs argv = .exit 2 .nargs ∨
          ConvErr (run fenv tbl cs argv) ∨ run fenv tbl cs argv = .exit 2 .negflag)))) := by
  unfold run
  cases hlex : lexAll tbl argv with
  | error e => right; left; rfl
  | ok toks =>
    dsimp only
    cases hc : consume fenv tbl (argv.length + 1)
        { ns := initNs tbl, extras := [], seen := [], counters := cs } (argv.zip toks) with
    | error e =>
      dsimp only
      right; right; right
      have hlen : (argv.zip toks).length ≤ argv.length + 1 := by
        simp only [List.length_zip]; omega
      obtain ⟨a, i, o, ex, hm, herr⟩ := consume_err_trace fenv tbl _ _ _ e hlen hc
      obtain ⟨act, hact, _⟩ := lexAll_idx tbl argv toks hlex i o ex (List.of_mem_zip hm).2
      refine ⟨toks, a, i, o, ex, act, rfl, hm, hact, ?_⟩
      rcases herr with ⟨hnone, _⟩ | ⟨act', hact', hcase⟩
      · rw [hact] at hnone; cases hnone
      · rw [hact] at hact'; cases hact'
        rcases hcase with ⟨hk, he⟩ | ⟨hk, he⟩
        · exact Or.inl ⟨hk, he⟩
        · right
          refine ⟨hk, ?_⟩
          rcases he with he | ⟨st1, args, ht⟩
          · exact Or.inl he
          · rcases takeAction_err_cases fenv tbl st1 i o args e act hact hk ht with h1 | h1
            · exact Or.inr (Or.inl h1)
            · exact Or.inr (Or.inr h1)
    | ok st =>
      dsimp only
      cases hf : finish fenv tbl st tbl.zipIdx with
      | error e =>
        dsimp only
        right; right; left
        exact ⟨e, rfl, finish_err_cases fenv tbl st _ e hf⟩
      | ok st2 => left; exact ⟨_, _, _, rfl⟩

theorem runStrict_eq_run_of_not_ok (fenv : FEnv) (tbl : List Act) (cs : List Nat) (argv : List Str)
    (h : ∀ ns ex cs', run fenv tbl cs argv ≠ .ok ns ex cs') :
    runStrict fenv tbl cs argv = run fenv tbl cs argv := by
  unfold runStrict
  split
  · rename_i heq; exact absurd heq (h _ _ _)
  · rename_i heq; exact absurd heq (h _ _ _)
  · rfl

/-- **C04 (no silent escape hatch).** Whenever the model answers "outside the modelled fragment"
    for a command line, the reason is a `type=` conversion outside the fragment (non-ASCII digits,
    a float token missing from the table, a path needing normalisation) — of a value or of a string
    default — or a single-dash cluster on the help option.  The `fuel` bound of the loop and the
    `bad action index` branches are unreachable: the loop always has enough fuel and the lexer only
    emits indices of real actions. -/
theorem c04_unmodelled_reasons (fenv : FEnv) (tbl : List Act) (cs : List Nat) (argv : List Str)
    (w : String) (h : runStrict fenv tbl cs argv = .unmodelled w) : ConversionWhy w := by
  have hrun : run fenv tbl cs argv = .unmodelled w := by
    unfold runStrict at h
    split at h
    · cases h
    · cases h
    · exact h
  rcases run_err_cases fenv tbl cs argv with ⟨ns, ex, cs', hok⟩ | hamb | ⟨e, he, hcase⟩ | ⟨toks, a, i, o, ex, act, _, _, _, hcase⟩
  · rw [hok] at hrun; cases hrun
  · rw [hamb] at hrun; cases hrun
  · rw [hrun] at he; subst he
    rcases hcase with h1 | h1 | ⟨x, h1⟩ | h1
    · cases h1
    · cases h1
    · cases h1
    · cases h1; exact Or.inr (Or.inl rfl)
  · rw [hrun] at hcase
    rcases hcase with ⟨_, h1 | h1 | h1⟩ | ⟨_, h1 | h1 | h1⟩
    · cases h1
    · cases h1
    · cases h1; exact Or.inr (Or.inr rfl)
    · cases h1
    · rcases h1 with h1 | h1 | ⟨x, h1⟩ | h1
      · cases h1
      · cases h1
      · cases h1
      · cases h1; exact Or.inl rfl
    · cases h1

/-- **C04 (status 0 needs a help token).** The engine exits with status 0 only if the lexer found a
    token owned by a help action on the command line (`-h`, `--help` or an abbreviation of it). -/
theorem c04_exit0_needs_help_token (fenv : FEnv) (tbl : List Act) (cs : List Nat) (argv : List Str)
    (k : ExitKind) (h : runStrict fenv tbl cs argv = .exit 0 k) :
    ∃ toks a i o ex act, lexAll tbl argv = .ok toks ∧ (a, Tok.O (some i) o ex) ∈ argv.zip toks ∧
      tbl[i]? = some act ∧ act.kind = .help := by
  have hrun : run fenv tbl cs argv = .exit 0 k := by
    unfold runStrict at h
    split at h
    · cases h
    · cases h
    · exact h
  rcases run_err_cases fenv tbl cs argv with ⟨ns, ex, cs', hok⟩ | hamb | ⟨e, he, hcase⟩ | ⟨toks, a, i, o, ex, act, hlex, hm, hact, hcase⟩
  · rw [hok] at hrun; cases hrun
  · rw [hamb] at hrun; cases hrun
  · rw [hrun] at he; subst he
    rcases hcase with h1 | h1 | ⟨x, h1⟩ | h1 <;> cases h1
  · rw [hrun] at hcase
    rcases hcase with ⟨hk, _⟩ | ⟨_, h1 | h1 | h1⟩
    · exact ⟨toks, a, i, o, ex, act, hlex, hm, hact, hk⟩
    · cases h1
    · rcases h1 with h1 | h1 | ⟨x, h1⟩ | h1 <;> cases h1
    · cases h1

/-- no token of the command line is owned by a help action -/
def NoHelpToken (tbl : List Act) (argv : List Str) : Prop :=
  ∀ toks i o ex act, lexAll tbl argv = .ok toks → Tok.O (some i) o ex ∈ toks →
    tbl[i]? = some act → act.kind ≠ .help

/-- **C04 (rejected means status 2).** On a well-formed table (every table simple-parsing builds,
    `tableOf_noRaiseTbl`) and a command line without help token, "not accepted" IS "exit status 2"
    — up to type conversions outside the modelled fragment. Composes with every rejection theorem
    (`c04_unknown_rejected`, `c04_missing_required_any`, `c04_negflag_*`, `c04_arity_*`,
    `c04_bad_value_*`), which conclude `≠ .ok`. -/
theorem c04_rejection_is_status2 (fenv : FEnv) (tbl : List Act) (hw : NoRaiseTbl tbl)
    (cs : List Nat) (argv : List Str) (hnh : NoHelpToken tbl argv)
    (hrej : ∀ ns ex cs', runStrict fenv tbl cs argv ≠ .ok ns ex cs') :
    (∃ k, runStrict fenv tbl cs argv = .exit 2 k) ∨
      ∃ w, runStrict fenv tbl cs argv = .unmodelled w ∧ ConversionWhy w := by
  cases hr : runStrict fenv tbl cs argv with
  | ok ns ex cs' => exact absurd hr (hrej ns ex cs')
  | exit c k =>
    rcases c04_status fenv tbl cs argv c k hr with h2 | ⟨h0, _, _⟩
    · subst h2; exact Or.inl ⟨k, rfl⟩
    · subst h0
      obtain ⟨toks, a, i, o, ex, act, hlex, hm, hact, hk⟩ := c04_exit0_needs_help_token fenv tbl cs argv k hr
      exact absurd hk (hnh toks i o ex act hlex (List.of_mem_zip hm).2 hact)
  | raise x => exact absurd hr (c04_no_traceback_partial fenv tbl hw cs argv x)
  | unmodelled w => exact Or.inr ⟨w, rfl, c04_unmodelled_reasons fenv tbl cs argv w hr⟩

/-! ### 8. rejection wherever the offending token stands — statements over ARBITRARY command lines
    (no canonical shape, no `render`): the loop reaches every owned option token (`consume_reaches`) -/

/-- what an accepted strict parse went through -/
theorem runStrict_ok_consume (fenv : FEnv) (tbl : List Act) (cs : List Nat) (argv : List Str)
    (ns : List (Str × Val)) (ex : List Str) (cs' : List Nat)
    (h : runStrict fenv tbl cs argv = .ok ns ex cs') :
    ∃ toks st st2, lexAll tbl argv = .ok toks ∧
      consume fenv tbl (argv.length + 1)
        { ns := initNs tbl, extras := [], seen := [], counters := cs } (argv.zip toks) = .ok st ∧
      finish fenv tbl st tbl.zipIdx = .ok st2 ∧ st.extras = [] ∧
      ns = st2.ns ∧ cs' = st2.counters := by
  unfold runStrict at h
  cases hr : run fenv tbl cs argv with
  | ok ns2 ex2 cs2 =>
    rw [hr] at h
    cases ex2 with
    | cons x xs => simp at h
    | nil =>
      simp only [EOut.ok.injEq] at h
      obtain ⟨rfl, _, rfl⟩ := h
      unfold run at hr
      cases hlex : lexAll tbl argv with
      | error e => rw [hlex] at hr; cases hr
      | ok toks =>
        rw [hlex] at hr
        dsimp only at hr
        cases hc : consume fenv tbl (argv.length + 1)
            { ns := initNs tbl, extras := [], seen := [], counters := cs } (argv.zip toks) with
        | error e =>
          rw [hc] at hr; dsimp only at hr
          have := consume_err _ _ _ _ _ _ hc
          rw [hr] at this; exact absurd this (by simp [GoodErr])
        | ok st =>
          rw [hc] at hr; dsimp only at hr
          cases hf : finish fenv tbl st tbl.zipIdx with
          | error e =>
            rw [hf] at hr; dsimp only at hr
            have := finish_err _ _ _ _ _ hf
            rw [hr] at this; exact absurd this (by simp [GoodErr])
          | ok st2 =>
            rw [hf] at hr; dsimp only at hr
            simp only [EOut.ok.injEq] at hr
            obtain ⟨h1, h2, h3⟩ := hr
            refine ⟨toks, st, st2, rfl, hc, hf, ?_, h1.symm, h3.symm⟩
            rw [← (finish_extras fenv tbl st st2 _ hf).1]
            exact h2
  | exit c k => rw [hr] at h; simp at h
  | raise e => rw [hr] at h; simp at h
  | unmodelled w => rw [hr] at h; simp at h

/-- (`consume_seen`) an action is marked as seen only because one of its option tokens is on the
    command line -/
theorem consume_seen (fenv : FEnv) (tbl : List Act) (fuel : Nat) (st st' : St)
    (l : List (Str × Tok)) (h : consume fenv tbl fuel st l = .ok st') (j : Nat) (hj : j ∈ st'.seen) :
    j ∈ st.seen ∨ ∃ a o ex, (a, Tok.O (some j) o ex) ∈ l := by
  have key := consume_inv fenv tbl l
    (fun s => ∀ j, j ∈ s.seen → j ∈ st.seen ∨ ∃ a o ex, (a, Tok.O (some j) o ex) ∈ l)
    (by
      intro s p rest s2 rest2 hp hs hstep j hj
      obtain ⟨a, t⟩ := p
      cases hsk : t.isSkip with
      | true =>
        obtain ⟨h1, _⟩ := hstep.inv_skip hsk
        subst h1
        exact hs j hj
      | false =>
        obtain ⟨i, o, ex, rfl⟩ := Tok.isSkip_false hsk
        have hseen : s2.seen = i :: s.seen := by
          cases ex with
          | some e =>
            obtain ⟨_, _, _, _, ht, _⟩ := hstep.inv_some
            exact takeAction_seen _ _ _ _ _ _ _ ht
          | none =>
            obtain ⟨_, _, _, _, _, ht, _⟩ := hstep.inv_none
            exact takeAction_seen _ _ _ _ _ _ _ ht
        rw [hseen] at hj
        rcases List.mem_cons.mp hj with rfl | hj
        · exact Or.inr ⟨a, o, ex, hp⟩
        · exact hs j hj)
    fuel st st' l (fun _ hp => hp) h (fun j hj => Or.inl hj)
  exact key j hj

/-- **C04 (missing required option), for EVERY command line.** If no token of the command line is
    lexed as an option string of a required action — whatever else the command line contains, in
    whatever order, abbreviated or not, with `--` or without — `parse_args` does not accept it. -/
theorem c04_missing_required_any (fenv : FEnv) (tbl : List Act) (cs : List Nat) (argv : List Str)
    (a : Act) (i : Nat) (hmem : (a, i) ∈ tbl.zipIdx) (hreq : a.required = true)
    (hno : ∀ toks o e, lexAll tbl argv = .ok toks → Tok.O (some i) o e ∉ toks)
    (ns : List (Str × Val)) (ex : List Str) (cs' : List Nat) :
    runStrict fenv tbl cs argv ≠ .ok ns ex cs' := by
  intro h
  obtain ⟨toks, st, st2, hlex, hc, hf, _, _, _⟩ := runStrict_ok_consume fenv tbl cs argv ns ex cs' h
  have hseen : st.seen.contains i = false := by
    cases hb : st.seen.contains i with
    | false => rfl
    | true =>
      have hi : i ∈ st.seen := by simpa using hb
      rcases consume_seen fenv tbl _ _ st _ hc i hi with h1 | ⟨a', o, e, hm⟩
      · simp at h1
      · exact absurd (List.of_mem_zip hm).2 (hno toks o e hlex)
  obtain ⟨e, he⟩ := finish_required fenv tbl st tbl.zipIdx a i hmem hreq hseen
  rw [he] at hf
  cases hf

/-- non-vacuity: `--l a b` never mentions the required `--n` of `demoTbl` -/
example : ∀ ns ex cs', runStrict [] demoTbl [0, 0, 0] ["--l".toList, "a".toList, "b".toList] ≠ .ok ns ex cs' :=
  c04_missing_required_any [] demoTbl [0, 0, 0] _ (demoTbl[1]'(by decide)) 1 (by decide) rfl
    (by intro toks o e hlex; have : toks = [.O (some 2) "--l".toList none, .A, .A] := by
          have h2 : lexAll demoTbl ["--l".toList, "a".toList, "b".toList] =
            .ok [.O (some 2) "--l".toList none, .A, .A] := by rfl
          rw [h2] at hlex; cases hlex; rfl
        subst this; simp)

/-- the loop arrives at every owned option token of an accepted command line -/
theorem accepted_reaches (fenv : FEnv) (tbl : List Act) (cs : List Nat) (argv : List Str)
    (ns : List (Str × Val)) (ex : List Str) (cs' : List Nat)
    (h : runStrict fenv tbl cs argv = .ok ns ex cs') (P : St → Prop)
    (hP : ∀ st p rest st2 rest2, P st → Step fenv tbl st p rest st2 rest2 → P st2)
    (hP0 : P { ns := initNs tbl, extras := [], seen := [], counters := cs })
    (toks : List Tok) (hlex : lexAll tbl argv = .ok toks)
    (pre : List (Str × Tok)) (x : Str × Tok) (post : List (Str × Tok)) (hx : x.2 ≠ .A)
    (hz : argv.zip toks = pre ++ x :: post) :
    ∃ st1 st2 rest2 fuel st', P st1 ∧ Step fenv tbl st1 x post st2 rest2 ∧
      consume fenv tbl fuel st2 rest2 = .ok st' ∧ st'.extras = [] := by
  obtain ⟨toks', st, st2, hlex', hc, _, hex, _, _⟩ := runStrict_ok_consume fenv tbl cs argv ns ex cs' h
  rw [hlex] at hlex'; cases hlex'
  rw [hz] at hc
  obtain ⟨fuel1, st1, hp1, hc1⟩ := consume_reaches fenv tbl P hP _ _ st pre x post hx hc hP0
  obtain ⟨s2, r2, hstep, hc2⟩ := consume_ok_step fenv tbl fuel1 st1 st x post hc1
  exact ⟨st1, s2, r2, fuel1, st, hp1, hstep, hc2, hex⟩

/-! #### a value on a negative flag -/

/-- (`takeAction_negflag`) `BooleanOptionalAction.__call__` with a negative option string and a
    value: an error with status 2 — the value is not a boolean word (type error), or it is and the
    negative-flag rule refuses it -/
theorem takeAction_negflag (fenv : FEnv) (tbl : List Act) (st : St) (i : Nat) (o x : Str)
    (act : Act) (negs : List Str) (hact : tbl[i]? = some act) (hk : act.kind = .boolOpt negs)
    (hn : act.nargs = .opt) (hc : act.conv = .base .bool) (ho : negs.contains o = true) :
    ∃ k, takeAction fenv tbl st i o [x] = .error (.exit 2 k) := by
  unfold takeAction
  rw [hact]
  simp only [hk]
  unfold getValues
  rw [hn]
  simp only
  unfold getValue
  simp only [hc, Conv.apply, BConv.apply]
  cases hb : str2bool x with
  | none => exact ⟨.type, rfl⟩
  | some b =>
    simp only
    cases hch : act.choices with
    | some ch => exact ⟨.choice, rfl⟩
    | none => simp only [Except.map, ho, ↓reduceIte]; exact ⟨.negflag, rfl⟩

/-- **C04 (value on a negative flag, `--noflag=x`), for EVERY command line.** If anywhere on the
    command line a token is lexed as a negative option string of a boolean action with an explicit
    `=value`, the command line is not accepted. -/
theorem c04_negflag_eq_rejected (fenv : FEnv) (tbl : List Act) (hw : NoRaiseTbl tbl)
    (cs : List Nat) (argv : List Str) (toks : List Tok) (hlex : lexAll tbl argv = .ok toks)
    (a : Str) (i : Nat) (o x : Str) (act : Act) (negs : List Str)
    (hm : (a, Tok.O (some i) o (some x)) ∈ argv.zip toks)
    (hact : tbl[i]? = some act) (hk : act.kind = .boolOpt negs) (ho : negs.contains o = true)
    (ns : List (Str × Val)) (ex : List Str) (cs' : List Nat) :
    runStrict fenv tbl cs argv ≠ .ok ns ex cs' := by
  intro h
  obtain ⟨pre, post, hz⟩ := List.append_of_mem hm
  obtain ⟨st1, st2, rest2, fuel, st', _, hstep, _, _⟩ :=
    accepted_reaches fenv tbl cs argv ns ex cs' h (fun _ => True) (fun _ _ _ _ _ _ _ => trivial)
      trivial toks hlex pre _ post (by simp) hz
  obtain ⟨act', hact', _, _, ht, _⟩ := hstep.inv_some
  obtain ⟨hn, hc⟩ := hw.boolwf act (List.mem_of_getElem? hact) negs hk
  obtain ⟨k, hk2⟩ := takeAction_negflag fenv tbl st1 i o x act negs hact hk hn hc ho
  rw [hk2] at ht
  cases ht

/-- **C04 (value on a negative flag, `--noflag x`), for EVERY command line.** A negative option
    string of a boolean action directly followed by an argument token: not accepted. -/
theorem c04_negflag_space_rejected (fenv : FEnv) (tbl : List Act) (hw : NoRaiseTbl tbl)
    (cs : List Nat) (argv : List Str) (toks : List Tok) (hlex : lexAll tbl argv = .ok toks)
    (pre post : List (Str × Tok)) (a : Str) (i : Nat) (o x : Str) (act : Act) (negs : List Str)
    (hz : argv.zip toks = pre ++ (a, Tok.O (some i) o none) :: (x, Tok.A) :: post)
    (hact : tbl[i]? = some act) (hk : act.kind = .boolOpt negs) (ho : negs.contains o = true)
    (ns : List (Str × Val)) (ex : List Str) (cs' : List Nat) :
    runStrict fenv tbl cs argv ≠ .ok ns ex cs' := by
  intro h
  obtain ⟨st1, st2, rest2, fuel, st', _, hstep, _, _⟩ :=
    accepted_reaches fenv tbl cs argv ns ex cs' h (fun _ => True) (fun _ _ _ _ _ _ _ => trivial)
      trivial toks hlex pre _ ((x, Tok.A) :: post) (by simp) hz
  obtain ⟨act', k, hact', _, hmc, ht, _⟩ := hstep.inv_none
  rw [hact] at hact'; cases hact'
  obtain ⟨hn, hc⟩ := hw.boolwf act (List.mem_of_getElem? hact) negs hk
  rw [hn] at hmc
  have hk1 : k = 1 := by
    simp only [matchCount, List.map_cons, countA, Option.some.injEq] at hmc
    omega
  subst hk1
  simp only [List.take_succ_cons, List.take_zero, List.map_cons, List.map_nil] at ht
  obtain ⟨k2, hk2⟩ := takeAction_negflag fenv tbl st1 i o x act negs hact hk hn hc ho
  rw [hk2] at ht
  cases ht

/-! #### wrong arity for a fixed-length tuple -/

/-- the value tokens of one option occurrence, as (argument string, token) pairs -/
def argToks (vals : List Str) : List (Str × Tok) := vals.map (fun v => (v, Tok.A))

/-- the input after the value tokens does not continue with another argument token -/
def Stops (post : List (Str × Tok)) : Prop := ∀ p ps, post = p :: ps → p.2 ≠ .A

theorem countA_argToks (vals : List Str) (post : List (Str × Tok)) (hs : Stops post) :
    countA ((argToks vals ++ post).map (·.2)) = vals.length := by
  induction vals with
  | nil =>
    simp only [argToks, List.map_nil, List.nil_append, List.length_nil]
    cases post with
    | nil => rfl
    | cons p ps =>
      have := hs p ps rfl
      obtain ⟨a, t⟩ := p
      cases t with
      | A => exact absurd rfl this
      | dd => rfl
      | O _ _ _ => rfl
  | cons v vs ih =>
    simp only [argToks, List.map_cons, List.cons_append, countA, List.length_cons] at ih ⊢
    rw [ih]

theorem countA_argToks_ge (vals : List Str) (post : List (Str × Tok)) :
    vals.length ≤ countA ((argToks vals ++ post).map (·.2)) := by
  induction vals with
  | nil => exact Nat.zero_le _
  | cons v vs ih =>
    simp only [argToks, List.map_cons, List.cons_append, countA, List.length_cons] at ih ⊢
    omega

/-- **C04 (arity −), for EVERY command line.** An option of a fixed-arity action (`nargs = m`:
    every `Tuple[t1, …, tm]` field) followed by fewer than `m` argument tokens before the next
    option / `--` / the end: not accepted, whatever precedes and follows. -/
theorem c04_arity_short_rejected (fenv : FEnv) (tbl : List Act) (cs : List Nat) (argv : List Str)
    (toks : List Tok) (hlex : lexAll tbl argv = .ok toks)
    (pre post : List (Str × Tok)) (a : Str) (i : Nat) (o : Str) (vals : List Str) (act : Act) (m : Nat)
    (hz : argv.zip toks = pre ++ (a, Tok.O (some i) o none) :: (argToks vals ++ post))
    (hs : Stops post) (hact : tbl[i]? = some act) (hn : act.nargs = .num m) (hlt : vals.length < m)
    (ns : List (Str × Val)) (ex : List Str) (cs' : List Nat) :
    runStrict fenv tbl cs argv ≠ .ok ns ex cs' := by
  intro h
  obtain ⟨st1, st2, rest2, fuel, st', _, hstep, _, _⟩ :=
    accepted_reaches fenv tbl cs argv ns ex cs' h (fun _ => True) (fun _ _ _ _ _ _ _ => trivial)
      trivial toks hlex pre _ _ (by simp) hz
  obtain ⟨act', k, hact', _, hmc, _, _⟩ := hstep.inv_none
  rw [hact] at hact'; cases hact'
  rw [hn] at hmc
  simp only [matchCount, countA_argToks vals post hs] at hmc
  split at hmc
  · omega
  · cases hmc

/-- **C04 (arity +), for EVERY command line.** An option of a fixed-arity action followed by more
    than `m` argument tokens: exactly `m` are taken, the next one is a leftover, and `parse_args`
    rejects leftovers — the surplus is neither absorbed nor silently dropped. -/
theorem c04_arity_long_rejected (fenv : FEnv) (tbl : List Act) (cs : List Nat) (argv : List Str)
    (toks : List Tok) (hlex : lexAll tbl argv = .ok toks)
    (pre post : List (Str × Tok)) (a : Str) (i : Nat) (o : Str) (vals : List Str) (act : Act) (m : Nat)
    (hz : argv.zip toks = pre ++ (a, Tok.O (some i) o none) :: (argToks vals ++ post))
    (hact : tbl[i]? = some act) (hn : act.nargs = .num m) (hgt : m < vals.length)
    (ns : List (Str × Val)) (ex : List Str) (cs' : List Nat) :
    runStrict fenv tbl cs argv ≠ .ok ns ex cs' := by
  intro h
  obtain ⟨st1, st2, rest2, fuel, st', _, hstep, hc2, hex⟩ :=
    accepted_reaches fenv tbl cs argv ns ex cs' h (fun _ => True) (fun _ _ _ _ _ _ _ => trivial)
      trivial toks hlex pre _ _ (by simp) hz
  obtain ⟨act', k, hact', _, hmc, _, hr2⟩ := hstep.inv_none
  rw [hact] at hact'; cases hact'
  rw [hn] at hmc
  obtain ⟨hkm, _⟩ := matchCount_num m _ k hmc
  subst hkm
  -- what is left starts with the (k+1)-th value token
  have hdrop : rest2 = (argToks (vals.drop k)) ++ post := by
    rw [hr2, List.drop_append_of_le_length (by simp [argToks]; omega)]
    simp [argToks, List.map_drop]
  obtain ⟨v, vs, hv⟩ : ∃ v vs, vals.drop k = v :: vs := by
    cases hd : vals.drop k with
    | nil => simp only [List.drop_eq_nil_iff] at hd; omega
    | cons v vs => exact ⟨v, vs, rfl⟩
  rw [hdrop, hv] at hc2
  cases fuel with
  | zero => simp [argToks, consume] at hc2
  | succ f =>
    exact c04_leftover_rejected fenv tbl f st2 st' v _ (by simpa [argToks] using hc2) hex

/-- **C04 (arity, `--tup=x` form), for EVERY command line.** An explicit `=value` on an option of
    a fixed-arity action with `m ≠ 1`: not accepted. -/
theorem c04_arity_eq_rejected (fenv : FEnv) (tbl : List Act) (cs : List Nat) (argv : List Str)
    (toks : List Tok) (hlex : lexAll tbl argv = .ok toks)
    (a : Str) (i : Nat) (o x : Str) (act : Act) (m : Nat)
    (hm : (a, Tok.O (some i) o (some x)) ∈ argv.zip toks)
    (hact : tbl[i]? = some act) (hn : act.nargs = .num m) (hne : m ≠ 1)
    (ns : List (Str × Val)) (ex : List Str) (cs' : List Nat) :
    runStrict fenv tbl cs argv ≠ .ok ns ex cs' := by
  intro h
  obtain ⟨pre, post, hz⟩ := List.append_of_mem hm
  obtain ⟨st1, st2, rest2, fuel, st', _, hstep, _, _⟩ :=
    accepted_reaches fenv tbl cs argv ns ex cs' h (fun _ => True) (fun _ _ _ _ _ _ _ => trivial)
      trivial toks hlex pre _ post (by simp) hz
  obtain ⟨act', hact', _, har, _, _⟩ := hstep.inv_some
  rw [hact] at hact'; cases hact'
  rw [hn] at har
  simp only [arityOk] at har
  exact hne har.symm

/-! #### a token that fails `type=` / `choices=` -/

/-- the `j`-th argument token after an option is among those `_match_argument` hands to the action -/
def InTake : NArgs → Nat → Prop
  | .one, j => j = 0
  | .opt, j => j = 0
  | .num m, j => j < m
  | _, _ => True

theorem matchCount_covers (n : NArgs) (vals : List Str) (post : List (Str × Tok)) (k j : Nat)
    (hj : j < vals.length) (hin : InTake n j)
    (h : matchCount n ((argToks vals ++ post).map (·.2)) = some k) : j < k := by
  have hge := countA_argToks_ge vals post
  unfold matchCount at h
  cases n with
  | one =>
    simp only at h
    split at h
    · simp only [Option.some.injEq] at h; simp only [InTake] at hin; omega
    · cases h
  | opt => simp only [Option.some.injEq] at h; simp only [InTake] at hin; omega
  | star => simp only [Option.some.injEq] at h; omega
  | plus =>
    simp only at h
    split at h
    · simp only [Option.some.injEq] at h; omega
    · cases h
  | num m =>
    simp only at h
    split at h
    · simp only [Option.some.injEq] at h; simp only [InTake] at hin; omega
    · cases h

theorem take_argToks_get (vals : List Str) (post : List (Str × Tok)) (k j : Nat) (t : Str)
    (hjk : j < k) (ht : vals[j]? = some t) :
    (((argToks vals ++ post).take k).map (·.1))[j]? = some t := by
  have hj : j < vals.length := (List.getElem?_eq_some_iff.mp ht).1
  rw [List.getElem?_map, List.getElem?_take_of_lt hjk,
    List.getElem?_append_left (by simpa [argToks] using hj)]
  simp [argToks, ht]

/-- **C04 (ill-typed token / value outside the choices), for EVERY command line.** If the `j`-th
    argument token after an option is one the action's `type=` / `choices=` never lets through and
    is among the tokens the action takes, the command line is not accepted — not coerced, not
    truncated before it, not defaulted. -/
theorem c04_bad_value_rejected (fenv : FEnv) (tbl : List Act) (cs : List Nat) (argv : List Str)
    (toks : List Tok) (hlex : lexAll tbl argv = .ok toks)
    (pre post : List (Str × Tok)) (a : Str) (i : Nat) (o : Str) (vals : List Str) (act : Act)
    (hz : argv.zip toks = pre ++ (a, Tok.O (some i) o none) :: (argToks vals ++ post))
    (hact : tbl[i]? = some act) (j : Nat) (t : Str) (ht : vals[j]? = some t)
    (hin : InTake act.nargs j) (hbad : NeverConverts fenv act i t)
    (ns : List (Str × Val)) (ex : List Str) (cs' : List Nat) :
    runStrict fenv tbl cs argv ≠ .ok ns ex cs' := by
  intro h
  obtain ⟨st1, st2, rest2, fuel, st', _, hstep, _, _⟩ :=
    accepted_reaches fenv tbl cs argv ns ex cs' h (fun _ => True) (fun _ _ _ _ _ _ _ => trivial)
      trivial toks hlex pre _ _ (by simp) hz
  obtain ⟨act', k, hact', _, hmc, htake, _⟩ := hstep.inv_none
  rw [hact] at hact'; cases hact'
  have hj : j < vals.length := (List.getElem?_eq_some_iff.mp ht).1
  have hjk := matchCount_covers act.nargs vals post k j hj hin hmc
  have hmem : t ∈ ((argToks vals ++ post).take k).map (·.1) :=
    List.mem_of_getElem? (take_argToks_get vals post k j t hjk ht)
  obtain ⟨e, he⟩ := takeAction_bad fenv tbl st1 i o _ act hact t hmem hbad
  rw [he] at htake
  cases htake

/-- the same for the `--opt=value` spelling -/
theorem c04_bad_value_eq_rejected (fenv : FEnv) (tbl : List Act) (cs : List Nat) (argv : List Str)
    (toks : List Tok) (hlex : lexAll tbl argv = .ok toks)
    (a : Str) (i : Nat) (o x : Str) (act : Act)
    (hm : (a, Tok.O (some i) o (some x)) ∈ argv.zip toks)
    (hact : tbl[i]? = some act) (hbad : NeverConverts fenv act i x)
    (ns : List (Str × Val)) (ex : List Str) (cs' : List Nat) :
    runStrict fenv tbl cs argv ≠ .ok ns ex cs' := by
  intro h
  obtain ⟨pre, post, hz⟩ := List.append_of_mem hm
  obtain ⟨st1, st2, rest2, fuel, st', _, hstep, _, _⟩ :=
    accepted_reaches fenv tbl cs argv ns ex cs' h (fun _ => True) (fun _ _ _ _ _ _ _ => trivial)
      trivial toks hlex pre _ post (by simp) hz
  obtain ⟨act', hact', _, _, htake, _⟩ := hstep.inv_some
  obtain ⟨e, he⟩ := takeAction_bad fenv tbl st1 i o [x] act hact x (by simp) hbad
  rw [he] at htake
  cases htake

/-- more instances of `NeverConverts`: a non-boolean word for `str2bool`, a non-member for
    `parse_enum`, a token every member of a Union rejects -/
theorem never_bool (fenv : FEnv) (act : Act) (i : Nat) (t : Str) (hconv : act.conv = .base .bool)
    (hbad : str2bool t = none) : NeverConverts fenv act i t := by
  intro cs
  unfold getValue
  simp only [hconv, Conv.apply, BConv.apply, hbad]
  exact ⟨_, rfl⟩

theorem never_enum (fenv : FEnv) (act : Act) (i : Nat) (t : Str) (cls : Str) (ms : List Str)
    (hconv : act.conv = .base (.enumName cls ms)) (hbad : ms.contains t = false) :
    NeverConverts fenv act i t := by
  intro cs
  unfold getValue
  simp only [hconv, Conv.apply, BConv.apply, hbad]
  exact ⟨_, rfl⟩

theorem never_union (fenv : FEnv) (act : Act) (i : Nat) (t : Str) (bs : List BConv)
    (hconv : act.conv = .union bs) (hbad : unionApply fenv bs t = .typeErr) :
    NeverConverts fenv act i t := by
  intro cs
  unfold getValue
  simp only [hconv, Conv.apply, hbad]
  exact ⟨_, rfl⟩

/-! #### heterogeneous tuples: the item type is chosen by POSITION -/

/-- converting a list of tokens with a `parse_tuple` closure fails as soon as the token at position
    `j` is not accepted by the item type the counter selects for that position -/
theorem getValuesList_bad_at (fenv : FEnv) (act : Act) (i : Nat) (bs : List BConv)
    (hconv : act.conv = .tupleCounter bs) :
    ∀ (toks : List Str) (cs : List Nat) (j : Nat) (t : Str), i < cs.length → toks[j]? = some t →
      (∀ b, bs[(cs.getD i 0 + j) % bs.length]? = some b → ∀ v, b.apply fenv t ≠ .ok v) →
      ∃ e, getValuesList fenv act i cs toks = .error e := by
  intro toks
  induction toks with
  | nil => intro cs j t _ ht; simp at ht
  | cons x xs ih =>
    intro cs j t hi ht hbad
    simp only [getValuesList]
    cases hx : getValue fenv act i cs x with
    | error e => exact ⟨e, rfl⟩
    | ok p =>
      obtain ⟨v, c1⟩ := p
      simp only
      cases j with
      | zero =>
        simp only [List.getElem?_cons_zero, Option.some.injEq] at ht
        subst ht
        exfalso
        unfold getValue at hx
        simp only [hconv, Conv.apply, Nat.add_zero] at hx hbad
        cases hb : bs[cs.getD i 0 % bs.length]? with
        | none => rw [hb] at hx; simp at hx
        | some b =>
          rw [hb] at hx
          simp only at hx
          have hb' := hbad b hb
          cases hap : b.apply fenv x with
          | ok w => exact hb' w hap
          | typeErr => rw [hap] at hx; simp at hx
          | raise e => rw [hap] at hx; simp at hx
          | unmodelled => rw [hap] at hx; simp at hx
      | succ j' =>
        simp only [List.getElem?_cons_succ] at ht
        obtain ⟨hl, hci, _⟩ := getValue_counters fenv act i cs c1 x v hi hx
        have htc : tc act = 1 := by unfold tc; rw [hconv]
        obtain ⟨e, he⟩ := ih c1 j' t (by rw [hl]; exact hi) ht (by
          intro b hb
          apply hbad b
          rw [hci, htc] at hb
          have : cs.getD i 0 + 1 + j' = cs.getD i 0 + (j' + 1) := by omega
          rw [this] at hb
          exact hb)
        rw [he]
        exact ⟨e, rfl⟩

/-- **C04 (ill-typed item of a heterogeneous tuple), for EVERY command line.** For a
    `Tuple[t0, …, tn-1]` action (a `parse_tuple` closure over `bs`, `nargs = n`) on a parser whose
    closure counters are aligned (true for a new parser, and again after every accepted parse:
    `c04_counters_aligned`): if the token at position `j` of an occurrence is not accepted by ITS
    item type `bs[j]` — even if another position's type would accept it — the command line is not
    accepted. -/
theorem c04_hetero_bad_rejected (fenv : FEnv) (tbl : List Act) (cs : List Nat) (argv : List Str)
    (hal : Aligned tbl cs)
    (toks : List Tok) (hlex : lexAll tbl argv = .ok toks)
    (pre post : List (Str × Tok)) (a : Str) (i : Nat) (o : Str) (vals : List Str) (act : Act)
    (bs : List BConv)
    (hz : argv.zip toks = pre ++ (a, Tok.O (some i) o none) :: (argToks vals ++ post))
    (hact : tbl[i]? = some act) (hconv : act.conv = .tupleCounter bs)
    (hn : act.nargs = .num bs.length) (j : Nat) (t : Str) (b : BConv)
    (ht : vals[j]? = some t) (hb : bs[j]? = some b) (hbad : ∀ v, b.apply fenv t ≠ .ok v)
    (ns : List (Str × Val)) (ex : List Str) (cs' : List Nat) :
    runStrict fenv tbl cs argv ≠ .ok ns ex cs' := by
  intro h
  obtain ⟨st1, st2, rest2, fuel, st', hal1, hstep, _, _⟩ :=
    accepted_reaches fenv tbl cs argv ns ex cs' h (fun s => Aligned tbl s.counters)
      (by
        intro s p rest s2 r2 hs hst
        obtain ⟨a', t'⟩ := p
        cases hsk : t'.isSkip with
        | true => obtain ⟨h1, _⟩ := hst.inv_skip hsk; subst h1; exact hs
        | false =>
          obtain ⟨i', o', ex', rfl⟩ := Tok.isSkip_false hsk
          cases ex' with
          | some e' =>
            obtain ⟨act', hact', _, har, htk, _⟩ := hst.inv_some
            refine takeAction_aligned fenv tbl s s2 i' o' [e'] hs ?_ htk
            intro a2 m2 ha2 hn2
            rw [hact'] at ha2; cases ha2
            rw [hn2] at har
            simpa [arityOk] using har
          | none =>
            obtain ⟨act', k', hact', _, hmc', htk, _⟩ := hst.inv_none
            refine takeAction_aligned fenv tbl s s2 i' o' _ hs ?_ htk
            intro a2 m2 ha2 hn2
            rw [hact'] at ha2; cases ha2
            rw [hn2] at hmc'
            obtain ⟨hk, hle⟩ := matchCount_num m2 _ k' hmc'
            simp only [List.length_map, List.length_take] at hle ⊢
            omega)
      hal toks hlex pre _ _ (by simp) hz
  obtain ⟨act', k, hact', _, hmc, htake, _⟩ := hstep.inv_none
  rw [hact] at hact'; cases hact'
  have hjn : j < bs.length := (List.getElem?_eq_some_iff.mp hb).1
  have hj : j < vals.length := (List.getElem?_eq_some_iff.mp ht).1
  have hjk := matchCount_covers act.nargs vals post k j hj (by rw [hn]; exact hjn) hmc
  have hget := take_argToks_get vals post k j t hjk ht
  have hi : i < st1.counters.length := by
    rw [hal1.1]; exact (List.getElem?_eq_some_iff.mp hact).1
  have h0 := hal1.2 i act bs hact hconv hn
  obtain ⟨e, he⟩ := getValuesList_bad_at fenv act i bs hconv _ st1.counters j t hi hget (by
    intro b' hb' v
    have : (st1.counters.getD i 0 + j) % bs.length = j := by
      rw [Nat.add_mod, h0, Nat.zero_add, Nat.mod_mod, Nat.mod_eq_of_lt hjn]
    rw [this, hb] at hb'
    cases hb'
    exact hbad v)
  -- so `take_action` fails
  unfold takeAction at htake
  rw [hact] at htake
  simp only at htake
  have hgv : ∃ e', getValues fenv act i st1.counters
      (((argToks vals ++ post).take k).map (·.1)) = .error e' := by
    rw [getValues_ok_iff, he]; exact ⟨e, rfl⟩
  obtain ⟨e', he'⟩ := hgv
  cases hk : act.kind with
  | help => rw [hk] at htake; cases htake
  | store => rw [hk] at htake; simp only [he'] at htake; cases htake
  | boolOpt negs => rw [hk] at htake; simp only [he'] at htake; cases htake

/-! ### 9. the lexer's verdict DERIVED from the spelling of the command line -/

theorem lexAll_cons_inv (tbl : List Act) (a : Str) (rest : List Str) (toks : List Tok)
    (ha : a ≠ ['-', '-']) (h : lexAll tbl (a :: rest) = .ok toks) :
    ∃ t ts, toks = t :: ts ∧ classify tbl a = .ok t ∧ lexAll tbl rest = .ok ts := by
  simp only [lexAll, ha, ↓reduceIte] at h
  cases hc : classify tbl a with
  | error e => rw [hc] at h; cases h
  | ok t =>
    rw [hc] at h
    simp only at h
    cases hr : lexAll tbl rest with
    | error e => rw [hr] at h; cases h
    | ok ts =>
      rw [hr] at h
      simp only [Except.ok.injEq] at h
      exact ⟨t, ts, h.symm, rfl, rfl⟩

theorem lexAll_append_inv (tbl : List Act) (pre rest : List Str) (toks : List Tok)
    (hdd : ∀ x ∈ pre, x ≠ ['-', '-']) (h : lexAll tbl (pre ++ rest) = .ok toks) :
    ∃ t1 t2, toks = t1 ++ t2 ∧ t1.length = pre.length ∧ lexAll tbl rest = .ok t2 := by
  induction pre generalizing toks with
  | nil => exact ⟨[], toks, rfl, rfl, h⟩
  | cons x xs ih =>
    obtain ⟨t, ts, rfl, _, hr⟩ := lexAll_cons_inv tbl x (xs ++ rest) toks (hdd x (by simp)) h
    obtain ⟨t1, t2, rfl, hl, h2⟩ := ih ts (fun y hy => hdd y (by simp [hy])) hr
    exact ⟨t :: t1, t2, rfl, by simp [hl], h2⟩

theorem lexAll_vals_inv (tbl : List Act) (vals post : List Str) (toks : List Tok)
    (hn : ∀ v ∈ vals, NoDash v) (h : lexAll tbl (vals ++ post) = .ok toks) :
    ∃ tpost, toks = vals.map (fun _ => Tok.A) ++ tpost ∧ lexAll tbl post = .ok tpost := by
  induction vals generalizing toks with
  | nil => exact ⟨toks, rfl, h⟩
  | cons v vs ih =>
    have hv := hn v (by simp)
    obtain ⟨t, ts, rfl, hc, hr⟩ := lexAll_cons_inv tbl v (vs ++ post) toks (nodash_ne_dd v hv) h
    rw [classify_nodash tbl v hv] at hc
    cases hc
    obtain ⟨tpost, rfl, h2⟩ := ih ts (fun y hy => hn y (by simp [hy])) hr
    exact ⟨tpost, rfl, h2⟩

theorem classify_exact (tbl : List Act) (o : Str) (i : Nat) (r : Str) (hr : o = '-' :: r)
    (hl : (optTable tbl).lookup o = some i) : classify tbl o = .ok (.O (some i) o none) := by
  unfold classify
  rw [hr]
  simp only [ne_eq, not_true_eq_false, ↓reduceIte]
  rw [← hr, hl]

/-- an occurrence `o v₁ … vₖ` of an exact option string with dash-free value tokens, anywhere on
    the command line before a literal `--` -/
structure SegAt (tbl : List Act) (argv pre : List Str) (o : Str) (i : Nat) (vals post : List Str) :
    Prop where
  eq : argv = pre ++ o :: (vals ++ post)
  nodd : ∀ x ∈ pre, x ≠ ['-', '-']
  lookup : (optTable tbl).lookup o = some i
  optdash : ∃ r, o = '-' :: r
  notdd : o ≠ ['-', '-']
  nodash : ∀ v ∈ vals, NoDash v

theorem zip_argToks (vals : List Str) : vals.zip (vals.map (fun _ => Tok.A)) = argToks vals := by
  induction vals with
  | nil => rfl
  | cons v vs ih => simp only [argToks] at ih; simp [argToks, ih]

/-- how such an occurrence is lexed, whatever surrounds it -/
theorem SegAt.zip {tbl : List Act} {argv pre : List Str} {o : Str} {i : Nat} {vals post : List Str}
    (h : SegAt tbl argv pre o i vals post) (toks : List Tok) (hlex : lexAll tbl argv = .ok toks) :
    ∃ t1 tpost, argv.zip toks =
        pre.zip t1 ++ (o, Tok.O (some i) o none) :: (argToks vals ++ post.zip tpost) ∧
      lexAll tbl post = .ok tpost := by
  rw [h.eq] at hlex
  obtain ⟨t1, t2, rfl, hl1, h2⟩ := lexAll_append_inv tbl pre _ toks h.nodd hlex
  obtain ⟨t, ts, rfl, hc, h3⟩ := lexAll_cons_inv tbl o _ t2 h.notdd h2
  obtain ⟨r, hr⟩ := h.optdash
  rw [classify_exact tbl o i r hr h.lookup] at hc
  cases hc
  obtain ⟨tpost, rfl, h4⟩ := lexAll_vals_inv tbl vals post ts h.nodash h3
  refine ⟨t1, tpost, ?_, h4⟩
  rw [h.eq, List.zip_append hl1.symm, List.zip_cons_cons,
    List.zip_append (by simp), zip_argToks]

/-- the command line continues (if at all) with `--` or an exact option string -/
def PostStops (tbl : List Act) (post : List Str) : Prop :=
  ∀ p ps, post = p :: ps → p = ['-', '-'] ∨ ((∃ r, p = '-' :: r) ∧ ∃ j, (optTable tbl).lookup p = some j)

theorem stops_of_postStops (tbl : List Act) (post : List Str) (tpost : List Tok)
    (hp : PostStops tbl post) (hlex : lexAll tbl post = .ok tpost) : Stops (post.zip tpost) := by
  intro q qs hq
  cases post with
  | nil => simp at hq
  | cons p ps =>
    rcases hp p ps rfl with hdd | ⟨⟨r, hr⟩, j, hj⟩
    · subst hdd
      simp only [lexAll, ↓reduceIte, Except.ok.injEq] at hlex
      subst hlex
      simp only [List.zip_cons_cons, List.cons.injEq] at hq
      rw [← hq.1]
      simp
    · by_cases hdd : p = ['-', '-']
      · subst hdd
        simp only [lexAll, ↓reduceIte, Except.ok.injEq] at hlex
        subst hlex
        simp only [List.zip_cons_cons, List.cons.injEq] at hq
        rw [← hq.1]
        simp
      · obtain ⟨t, ts, rfl, hc, _⟩ := lexAll_cons_inv tbl p ps tpost hdd hlex
        rw [classify_exact tbl p j r hr hj] at hc
        cases hc
        simp only [List.zip_cons_cons, List.cons.injEq] at hq
        rw [← hq.1]
        simp

theorem not_ok_of_lex_error (fenv : FEnv) (tbl : List Act) (cs : List Nat) (argv : List Str)
    (e : Unit) (h : lexAll tbl argv = .error e) (ns : List (Str × Val)) (ex : List Str) (cs' : List Nat) :
    runStrict fenv tbl cs argv ≠ .ok ns ex cs' := by
  unfold runStrict run
  rw [h]
  simp

/-- **arity −, stated on the spelling**: `… --tup v₁ … vₖ [--next …]` with `k < m` dash-free
    values for an action with `nargs = m` is never accepted -/
theorem c04_arity_short_argv (fenv : FEnv) (tbl : List Act) (cs : List Nat)
    (argv pre : List Str) (o : Str) (i : Nat) (vals post : List Str)
    (hseg : SegAt tbl argv pre o i vals post) (hpost : PostStops tbl post)
    (act : Act) (m : Nat) (hact : tbl[i]? = some act) (hn : act.nargs = .num m)
    (hlt : vals.length < m) (ns : List (Str × Val)) (ex : List Str) (cs' : List Nat) :
    runStrict fenv tbl cs argv ≠ .ok ns ex cs' := by
  cases hlex : lexAll tbl argv with
  | error e => exact not_ok_of_lex_error fenv tbl cs argv e hlex ns ex cs'
  | ok toks =>
    obtain ⟨t1, tpost, hz, hp⟩ := hseg.zip toks hlex
    exact c04_arity_short_rejected fenv tbl cs argv toks hlex _ _ o i o vals act m hz
      (stops_of_postStops tbl post tpost hpost hp) hact hn hlt ns ex cs'

/-- **arity +, stated on the spelling** -/
theorem c04_arity_long_argv (fenv : FEnv) (tbl : List Act) (cs : List Nat)
    (argv pre : List Str) (o : Str) (i : Nat) (vals post : List Str)
    (hseg : SegAt tbl argv pre o i vals post)
    (act : Act) (m : Nat) (hact : tbl[i]? = some act) (hn : act.nargs = .num m)
    (hgt : m < vals.length) (ns : List (Str × Val)) (ex : List Str) (cs' : List Nat) :
    runStrict fenv tbl cs argv ≠ .ok ns ex cs' := by
  cases hlex : lexAll tbl argv with
  | error e => exact not_ok_of_lex_error fenv tbl cs argv e hlex ns ex cs'
  | ok toks =>
    obtain ⟨t1, tpost, hz, _⟩ := hseg.zip toks hlex
    exact c04_arity_long_rejected fenv tbl cs argv toks hlex _ _ o i o vals act m hz hact hn hgt
      ns ex cs'

/-- **ill-typed token / out-of-set value, stated on the spelling** -/
theorem c04_bad_value_argv (fenv : FEnv) (tbl : List Act) (cs : List Nat)
    (argv pre : List Str) (o : Str) (i : Nat) (vals post : List Str)
    (hseg : SegAt tbl argv pre o i vals post)
    (act : Act) (hact : tbl[i]? = some act) (j : Nat) (t : Str) (ht : vals[j]? = some t)
    (hin : InTake act.nargs j) (hbad : NeverConverts fenv act i t)
    (ns : List (Str × Val)) (ex : List Str) (cs' : List Nat) :
    runStrict fenv tbl cs argv ≠ .ok ns ex cs' := by
  cases hlex : lexAll tbl argv with
  | error e => exact not_ok_of_lex_error fenv tbl cs argv e hlex ns ex cs'
  | ok toks =>
    obtain ⟨t1, tpost, hz, _⟩ := hseg.zip toks hlex
    exact c04_bad_value_rejected fenv tbl cs argv toks hlex _ _ o i o vals act hz hact j t ht hin
      hbad ns ex cs'

/-- **heterogeneous tuple, stated on the spelling** -/
theorem c04_hetero_bad_argv (fenv : FEnv) (tbl : List Act) (cs : List Nat) (hal : Aligned tbl cs)
    (argv pre : List Str) (o : Str) (i : Nat) (vals post : List Str)
    (hseg : SegAt tbl argv pre o i vals post)
    (act : Act) (bs : List BConv) (hact : tbl[i]? = some act) (hconv : act.conv = .tupleCounter bs)
    (hn : act.nargs = .num bs.length) (j : Nat) (t : Str) (b : BConv)
    (ht : vals[j]? = some t) (hb : bs[j]? = some b) (hbad : ∀ v, b.apply fenv t ≠ .ok v)
    (ns : List (Str × Val)) (ex : List Str) (cs' : List Nat) :
    runStrict fenv tbl cs argv ≠ .ok ns ex cs' := by
  cases hlex : lexAll tbl argv with
  | error e => exact not_ok_of_lex_error fenv tbl cs argv e hlex ns ex cs'
  | ok toks =>
    obtain ⟨t1, tpost, hz, _⟩ := hseg.zip toks hlex
    exact c04_hetero_bad_rejected fenv tbl cs argv hal toks hlex _ _ o i o vals act bs hz hact hconv
      hn j t b ht hb hbad ns ex cs'

/-- **value on a negative flag, `--noflag x`, stated on the spelling** -/
theorem c04_negflag_space_argv (fenv : FEnv) (tbl : List Act) (hw : NoRaiseTbl tbl) (cs : List Nat)
    (argv pre : List Str) (o : Str) (i : Nat) (x : Str) (vals post : List Str)
    (hseg : SegAt tbl argv pre o i (x :: vals) post)
    (act : Act) (negs : List Str) (hact : tbl[i]? = some act) (hk : act.kind = .boolOpt negs)
    (ho : negs.contains o = true) (ns : List (Str × Val)) (ex : List Str) (cs' : List Nat) :
    runStrict fenv tbl cs argv ≠ .ok ns ex cs' := by
  cases hlex : lexAll tbl argv with
  | error e => exact not_ok_of_lex_error fenv tbl cs argv e hlex ns ex cs'
  | ok toks =>
    obtain ⟨t1, tpost, hz, _⟩ := hseg.zip toks hlex
    exact c04_negflag_space_rejected fenv tbl hw cs argv toks hlex (pre.zip t1)
      (argToks vals ++ post.zip tpost) o i o x act negs (by rw [hz]; simp [argToks]) hact hk ho ns ex cs'

/-! #### `--opt=value` -/

theorem splitEq_append (o x : Str) (h : ∀ c ∈ o, c ≠ '=') : splitEq (o ++ '=' :: x) = some (o, x) := by
  induction o with
  | nil => simp [splitEq]
  | cons c cs ih =>
    have hc : c ≠ '=' := h c (by simp)
    simp only [List.cons_append, splitEq, hc, ↓reduceIte, ih (fun d hd => h d (by simp [hd]))]

/-- `opt=value` with `opt` an exact option string (and the whole token not itself one) is lexed as
    that option with the explicit argument -/
theorem classify_eq (tbl : List Act) (o x : Str) (i : Nat) (r : Str) (hr : o = '-' :: r)
    (hne : ∀ c ∈ o, c ≠ '=') (hl : (optTable tbl).lookup o = some i)
    (hnl : (optTable tbl).lookup (o ++ '=' :: x) = none) :
    classify tbl (o ++ '=' :: x) = .ok (.O (some i) o (some x)) := by
  unfold classify
  have hcons : o ++ '=' :: x = '-' :: (r ++ '=' :: x) := by rw [hr]; rfl
  have hlen : (o ++ '=' :: x).length ≠ 1 := by
    rw [hr]; simp
  rw [hcons]
  simp only [ne_eq, not_true_eq_false, ↓reduceIte]
  rw [← hcons, hnl]
  simp only [hlen, ↓reduceIte, splitEq_append o x hne, hl]

theorem lexAll_mem' (tbl : List Act) (pre post : List Str) (a : Str) (t : Tok)
    (hdd : ∀ x ∈ pre, x ≠ ['-', '-']) (ha : a ≠ ['-', '-']) (hc : classify tbl a = .ok t)
    (toks : List Tok) (hlex : lexAll tbl (pre ++ a :: post) = .ok toks) :
    (a, t) ∈ (pre ++ a :: post).zip toks := by
  obtain ⟨t1, t2, rfl, hl1, h2⟩ := lexAll_append_inv tbl pre _ toks hdd hlex
  obtain ⟨t', ts, rfl, hc', _⟩ := lexAll_cons_inv tbl a post t2 ha h2
  rw [hc] at hc'
  cases hc'
  rw [List.zip_append hl1.symm]
  simp

/-- **value on a negative flag, `--noflag=x`, stated on the spelling** -/
theorem c04_negflag_eq_argv (fenv : FEnv) (tbl : List Act) (hw : NoRaiseTbl tbl) (cs : List Nat)
    (pre post : List Str) (o x : Str) (i : Nat) (r : Str) (hdd : ∀ y ∈ pre, y ≠ ['-', '-'])
    (hr : o = '-' :: r) (hne : ∀ c ∈ o, c ≠ '=') (hl : (optTable tbl).lookup o = some i)
    (hnl : (optTable tbl).lookup (o ++ '=' :: x) = none)
    (act : Act) (negs : List Str) (hact : tbl[i]? = some act) (hk : act.kind = .boolOpt negs)
    (ho : negs.contains o = true) (ns : List (Str × Val)) (ex : List Str) (cs' : List Nat) :
    runStrict fenv tbl cs (pre ++ (o ++ '=' :: x) :: post) ≠ .ok ns ex cs' := by
  cases hlex : lexAll tbl (pre ++ (o ++ '=' :: x) :: post) with
  | error e => exact not_ok_of_lex_error fenv tbl cs _ e hlex ns ex cs'
  | ok toks =>
    have hndd : o ++ '=' :: x ≠ ['-', '-'] := by
      rw [hr]
      intro hh
      have h1 : (r ++ '=' :: x) = ['-'] := by simpa using hh
      have : '=' ∈ (['-'] : List Char) := by rw [← h1]; simp
      simp at this
    have hm := lexAll_mem' tbl pre post _ _ hdd hndd (classify_eq tbl o x i r hr hne hl hnl) toks hlex
    exact c04_negflag_eq_rejected fenv tbl hw cs _ toks hlex _ i o x act negs hm hact hk ho ns ex cs'

/-! #### unknown long option (the lexer's verdict derived — re-proved here because `Props/C10`
    imports this file) -/

theorem splitOnChar_head_cons' (sep c : Char) (cs : Str) (h : c ≠ sep) :
    ∃ p ps, splitOnChar sep (c :: cs) = (c :: p) :: ps := by
  simp only [splitOnChar, h, ↓reduceIte]
  cases hs : splitOnChar sep cs with
  | nil => exact ⟨[], [], rfl⟩
  | cons p ps => exact ⟨p, ps, rfl⟩

theorem looksNegNumber_dd' (r : Str) : looksNegNumber ('-' :: '-' :: r) = false := by
  obtain ⟨p, ps, hp⟩ := splitOnChar_head_cons' '.' '-' r (by decide)
  simp only [looksNegNumber, hp]
  have h1 : allDigits ('-' :: r) = false := by
    simp [allDigits, isDigit]
  rw [h1]
  cases ps with
  | nil => simp
  | cons b rest =>
    cases rest with
    | nil => simp [allDigits, isDigit]
    | cons _ _ => simp

theorem startsWith_self' (s : Str) : startsWith s s = true := by
  induction s with
  | nil => rfl
  | cons c cs ih => simp [startsWith, ih]

theorem lookup_none_of_forall' {β : Type} (l : List (Str × β)) (k : Str) (h : ∀ p ∈ l, p.1 ≠ k) :
    l.lookup k = none := by
  induction l with
  | nil => rfl
  | cons p ps ih =>
    obtain ⟨a, b⟩ := p
    have hne : a ≠ k := h (a, b) (by simp)
    have : (k == a) = false := by simpa using fun hh => hne hh.symm
    simp only [List.lookup, this]
    exact ih (fun q hq => h q (by simp [hq]))

/-- (`classify_unknown'`) a long spelling that is no option string, no abbreviation of one, carries
    no `=` and no blank is lexed as an option no action owns -/
theorem classify_unknown' (tbl : List Act) (r : Str)
    (heq : splitEq ('-' :: '-' :: r) = none)
    (hsp : (('-' :: '-' :: r).contains ' ') = false)
    (hpre : ∀ a ∈ tbl, ∀ o ∈ a.opts, startsWith o ('-' :: '-' :: r) = false) :
    classify tbl ('-' :: '-' :: r) = .ok (.O none ('-' :: '-' :: r) none) := by
  have hpre' : ∀ p ∈ optTable tbl, startsWith p.1 ('-' :: '-' :: r) = false := by
    intro p hp
    obtain ⟨act, hact, ho⟩ := mem_optTable_idx tbl p.1 p.2 hp
    exact hpre act (List.mem_of_getElem? hact) p.1 ho
  have hl : (optTable tbl).lookup ('-' :: '-' :: r) = none := by
    apply lookup_none_of_forall'
    intro p hp hh
    have := hpre' p hp
    rw [hh, startsWith_self'] at this
    cases this
  have hot : optionTuples (optTable tbl) ('-' :: '-' :: r) = [] := by
    simp only [optionTuples, heq]
    rw [List.map_eq_nil_iff, List.filter_eq_nil_iff]
    intro p hp
    simp [hpre' p hp]
  unfold classify
  simp only [hl, heq, hot, looksNegNumber_dd', hsp]
  simp

/-- **C04 (unknown option), stated on the spelling.** A command line that carries, before any
    literal `--`, a long spelling `--r` (no `=`, no blank) that is not a prefix of — in particular
    not equal to — any option string of any action is never accepted: not with any other tokens
    around it, not with any closure state. (The lexer's verdict `O none` is derived here, not
    assumed as in `c04_unknown_rejected`.) -/
theorem c04_unknown_long_rejected (fenv : FEnv) (tbl : List Act) (cs : List Nat)
    (pre post : List Str) (r : Str) (hr : r ≠ [])
    (hdd : ∀ x ∈ pre, x ≠ ['-', '-'])
    (heq : splitEq ('-' :: '-' :: r) = none)
    (hsp : (('-' :: '-' :: r).contains ' ') = false)
    (hpre : ∀ a ∈ tbl, ∀ o ∈ a.opts, startsWith o ('-' :: '-' :: r) = false)
    (ns : List (Str × Val)) (ex : List Str) (cs' : List Nat) :
    runStrict fenv tbl cs (pre ++ ('-' :: '-' :: r) :: post) ≠ .ok ns ex cs' := by
  have hc := classify_unknown' tbl r heq hsp hpre
  have hne : ('-' :: '-' :: r) ≠ ['-', '-'] := by
    intro h; apply hr; simpa using h
  cases hlex : lexAll tbl (pre ++ ('-' :: '-' :: r) :: post) with
  | error e => exact not_ok_of_lex_error fenv tbl cs _ e hlex ns ex cs'
  | ok toks =>
    have hm := lexAll_mem' tbl pre post _ _ hdd hne hc toks hlex
    exact c04_unknown_rejected fenv tbl cs _ toks hlex ⟨_, hm, _, _, rfl⟩ ns ex cs'

/-! ### 10. well-typed against the ANNOTATION, not against the action's own `type=` -/

/-- a scalar value conforms to a base type (`Any` accepts everything) -/
def BConforms : BTy → Scalar → Prop
  | .int, .int _ => True
  | .float, .float _ => True
  | .str, .str _ => True
  | .bool, .bool _ => True
  | .path, .path _ => True
  | .any, _ => True
  | .enum c ms, .enum c' m => c' = c ∧ m ∈ ms
  | _, _ => False

def IConforms : ITy → Scalar → Prop
  | .base b, s => BConforms b s
  | .union alts, s => ∃ b ∈ alts, BConforms b s

/-- position-wise conformance with equal lengths (`Tuple[t1, …, tn]`) -/
def TupleConforms : List ITy → List Scalar → Prop
  | [], [] => True
  | t :: ts, s :: ss => IConforms t s ∧ TupleConforms ts ss
  | _, _ => False

/-- a value conforms to a non-optional annotation: item-wise for `List[T]` / `Tuple[T, ...]`,
    POSITION-wise and with the exact length for `Tuple[t1, …, tn]`, one of the values for `Literal` -/
def NConforms : NTy → Val → Prop
  | .sc t, .sc s => IConforms t s
  | .literal vals, .sc s => s ∈ vals
  | .list item, .list l => ∀ s ∈ l, IConforms item s
  | .tuple items, .tuple l => TupleConforms items l
  | .vtuple item, .tuple l => ∀ s ∈ l, IConforms item s
  | _, _ => False

/-- **conformance of a field value to the field's annotation** -/
def Conforms (t : FTy) (v : Val) : Prop :=
  (t.optional = true ∧ v = .sc .none) ∨ NConforms t.inner v

theorem bconv_conforms (fenv : FEnv) (b : BTy) (s : Str) (v : Scalar)
    (h : (bconvOf b).apply fenv s = .ok v) : BConforms b v := by
  cases b with
  | int => obtain ⟨i, rfl⟩ := conv_int_range fenv s v h; simp [BConforms]
  | float => obtain ⟨r, rfl⟩ := conv_float_range fenv s v h; simp [BConforms]
  | str => simp only [bconvOf, BConv.apply, ConvOut.ok.injEq] at h; subst h; simp [BConforms]
  | bool => obtain ⟨b, rfl⟩ := conv_bool_range fenv s v h; simp [BConforms]
  | path =>
    simp only [bconvOf, BConv.apply, parsePath] at h
    split at h
    · cases h; simp [BConforms]
    · split at h
      · cases h; simp [BConforms]
      · cases h
  | any => cases v <;> simp [BConforms]
  | «enum» cls ms =>
    obtain ⟨m, rfl, hm⟩ := conv_enum_range fenv cls ms s v h
    simp [BConforms, hm]

theorem union_conforms (fenv : FEnv) (alts : List BTy) (s : Str) (v : Scalar)
    (h : unionApply fenv (alts.map bconvOf) s = .ok v) : ∃ b ∈ alts, BConforms b v := by
  induction alts with
  | nil => simp [unionApply] at h
  | cons b bs ih =>
    simp only [List.map_cons, unionApply] at h
    split at h
    · rename_i w hw
      simp only [ConvOut.ok.injEq] at h
      subst h
      exact ⟨b, by simp, bconv_conforms fenv b s _ hw⟩
    · cases h
    · obtain ⟨b', hb', hc⟩ := ih h
      exact ⟨b', by simp [hb'], hc⟩

theorem convOfItem_conforms (fenv : FEnv) (t : ITy) (k : Nat) (s : Str) (v : Scalar)
    (h : (convOfItem t).apply fenv k s = .ok v) : IConforms t v := by
  cases t with
  | base b => exact bconv_conforms fenv b s v h
  | union alts => exact union_conforms fenv alts s v h

theorem containerConv_conforms (fenv : FEnv) (item : ITy) (c : Conv) (hc : containerConv item = some c)
    (k : Nat) (s : Str) (v : Scalar) (h : c.apply fenv k s = .ok v) : IConforms item v := by
  cases item with
  | union alts =>
    simp only [containerConv, Option.some.injEq] at hc
    subst hc
    exact union_conforms fenv alts s v h
  | base b =>
    cases b with
    | any =>
      simp only [containerConv, Option.some.injEq] at hc
      subst hc
      simp only [IConforms]
      cases v <;> simp [BConforms]
    | int => simp only [containerConv, Option.some.injEq] at hc; subst hc; exact bconv_conforms fenv _ s v h
    | float => simp only [containerConv, Option.some.injEq] at hc; subst hc; exact bconv_conforms fenv _ s v h
    | str => simp only [containerConv, Option.some.injEq] at hc; subst hc; exact bconv_conforms fenv _ s v h
    | bool => simp only [containerConv, Option.some.injEq] at hc; subst hc; exact bconv_conforms fenv _ s v h
    | path => simp only [containerConv, Option.some.injEq] at hc; subst hc; exact bconv_conforms fenv _ s v h
    | «enum» cls ms =>
      simp only [containerConv, Option.some.injEq] at hc; subst hc; exact bconv_conforms fenv _ s v h

theorem tupleConforms_of_get :
    ∀ (l1 : List ITy) (l2 : List Scalar), l1.length = l2.length →
      (∀ (j : Nat) a b, l1[j]? = some a → l2[j]? = some b → IConforms a b) → TupleConforms l1 l2
  | [], [], _, _ => trivial
  | [], _ :: _, h, _ => by simp at h
  | _ :: _, [], h, _ => by simp at h
  | a :: as, b :: bs, h, hr =>
    ⟨hr 0 a b rfl rfl,
      tupleConforms_of_get as bs (by simpa using h) (fun j x y hx hy => hr (j + 1) x y hx hy)⟩

theorem filterMap_full {α β : Type} (f : α → Option β) :
    ∀ (l : List α), (l.filterMap f).length = l.length →
      ∀ (j : Nat) a, l[j]? = some a → ∃ b, f a = some b ∧ (l.filterMap f)[j]? = some b
  | [], _, j, a, h => by simp at h
  | x :: xs, hl, j, a, h => by
    have hle := List.length_filterMap_le f xs
    cases hx : f x with
    | none =>
      rw [List.filterMap_cons_none hx] at hl
      simp only [List.length_cons] at hl
      omega
    | some y =>
      rw [List.filterMap_cons_some hx] at hl ⊢
      cases j with
      | zero =>
        simp only [List.getElem?_cons_zero, Option.some.injEq] at h
        subst h
        exact ⟨y, hx, rfl⟩
      | succ j' =>
        simp only [List.getElem?_cons_succ] at h ⊢
        exact filterMap_full f xs (by simpa using hl) j' a h

theorem allEq_get (t : ITy) (rest : List ITy) (h : allEq (t :: rest) = true) (j : Nat) (it : ITy)
    (hj : (t :: rest)[j]? = some it) : it = t := by
  cases j with
  | zero => simp only [List.getElem?_cons_zero, Option.some.injEq] at hj; exact hj.symm
  | succ j' =>
    simp only [List.getElem?_cons_succ] at hj
    simp only [allEq, List.all_eq_true, decide_eq_true_eq] at h
    exact h it (List.mem_of_getElem? hj)

/-- items converted by the `type=` of a fixed tuple, at aligned positions, conform position-wise -/
theorem tupleConv_conforms (fenv : FEnv) (items : List ITy) (c : Conv) (hc : tupleConv items = some c)
    (l : List Scalar) (hlen : l.length = items.length) (k0 : Nat)
    (hk0 : ∀ bs, c = .tupleCounter bs → k0 % bs.length = 0)
    (hpos : ∀ j s, l[j]? = some s → ∃ t, c.apply fenv (k0 + j * (match c with | .tupleCounter _ => 1 | _ => 0)) t = .ok s) :
    TupleConforms items l := by
  apply tupleConforms_of_get items l hlen.symm
  intro j it s hit hs
  obtain ⟨t, ht⟩ := hpos j s hs
  unfold tupleConv at hc
  cases items with
  | nil => simp at hit
  | cons t0 rest =>
    simp only at hc
    split at hc
    · rename_i hall
      simp only [Option.some.injEq] at hc
      subst hc
      have := allEq_get t0 rest hall j it hit
      subst this
      exact convOfItem_conforms fenv it _ t s ht
    · split at hc
      · rename_i hfull
        simp only [Option.some.injEq] at hc
        subst hc
        simp only [Nat.mul_one] at ht
        obtain ⟨b, hb, hget⟩ := filterMap_full _ (t0 :: rest) hfull j it hit
        have hjn : j < (t0 :: rest).length := (List.getElem?_eq_some_iff.mp hit).1
        have hidx0 : ∀ n, n = (t0 :: rest).length → k0 % n = 0 → (k0 + j) % n = j := by
          intro n hn h0
          rw [hn] at h0 ⊢
          rw [Nat.add_mod, h0, Nat.zero_add, Nat.mod_mod, Nat.mod_eq_of_lt hjn]
        have hidx := hidx0 _ hfull (hk0 _ rfl)
        simp only [Conv.apply, hidx, hget] at ht
        cases it with
        | union alts => simp at hb
        | base bt =>
          simp only [Option.some.injEq] at hb
          subst hb
          exact bconv_conforms fenv bt t s ht
      · cases hc

/-! #### the position-aware soundness invariant of the engine -/

/-- the items of a stored LIST value were converted at consecutive closure positions starting at a
    `k0` that is a multiple of the arity for a fixed heterogeneous tuple -/
def PosOk (fenv : FEnv) (act : Act) (v : Val) : Prop :=
  ∀ l, v = .list l → ∃ k0,
    (∀ bs, act.conv = .tupleCounter bs → act.nargs = .num bs.length → k0 % bs.length = 0) ∧
    ∀ j s, l[j]? = some s → ∃ t, act.conv.apply fenv (k0 + j * tc act) t = .ok s

/-- `NsOk` with positions -/
def NsOkP (fenv : FEnv) (tbl : List Act) (ns : List (Str × Val)) : Prop :=
  ∀ p ∈ ns, ∃ a ∈ tbl, a.dest = p.1 ∧
    (a.default = some p.2 ∨ (ValOk fenv a p.2 ∧ PosOk fenv a p.2) ∨
      ∃ s k v, a.default = some (.sc (.str s)) ∧ a.conv.apply fenv k s = .ok v ∧ p.2 = .sc v)

theorem NsOkP.toNsOk {fenv : FEnv} {tbl : List Act} {ns : List (Str × Val)} (h : NsOkP fenv tbl ns) :
    NsOk fenv tbl ns := by
  intro p hp
  obtain ⟨a, ha, hd, hc⟩ := h p hp
  refine ⟨a, ha, hd, ?_⟩
  rcases hc with h1 | ⟨h1, _⟩ | h1
  · exact Or.inl h1
  · exact Or.inr (Or.inl h1)
  · exact Or.inr (Or.inr h1)

theorem getValue_at (fenv : FEnv) (act : Act) (i : Nat) (cs cs' : List Nat) (t : Str) (s : Scalar)
    (h : getValue fenv act i cs t = .ok (s, cs')) : act.conv.apply fenv (cs.getD i 0) t = .ok s := by
  unfold getValue at h
  simp only at h
  split at h
  · cases h
  · cases h
  · cases h
  · rename_i v hv
    split at h
    · split at h
      · split at h
        · simp only [Except.ok.injEq, Prod.mk.injEq] at h; rw [← h.1]; exact hv
        · cases h
      · cases h
    · simp only [Except.ok.injEq, Prod.mk.injEq] at h; rw [← h.1]; exact hv

theorem getValuesList_pos (fenv : FEnv) (act : Act) (i : Nat) :
    ∀ (toks : List Str) (cs cs' : List Nat) (vs : List Scalar), i < cs.length →
      getValuesList fenv act i cs toks = .ok (vs, cs') →
      ∀ j s, vs[j]? = some s → ∃ t, act.conv.apply fenv (cs.getD i 0 + j * tc act) t = .ok s := by
  intro toks
  induction toks with
  | nil =>
    intro cs cs' vs _ h j s hs
    simp only [getValuesList, Except.ok.injEq, Prod.mk.injEq] at h
    rw [← h.1] at hs
    simp at hs
  | cons t ts ih =>
    intro cs cs' vs hi h j s hs
    simp only [getValuesList] at h
    cases h1 : getValue fenv act i cs t with
    | error e => rw [h1] at h; cases h
    | ok p =>
      obtain ⟨v, c1⟩ := p
      rw [h1] at h
      simp only at h
      cases h2 : getValuesList fenv act i c1 ts with
      | error e => rw [h2] at h; cases h
      | ok q =>
        obtain ⟨vs2, c2⟩ := q
        rw [h2] at h
        simp only [Except.ok.injEq, Prod.mk.injEq] at h
        obtain ⟨rfl, _⟩ := h
        cases j with
        | zero =>
          simp only [List.getElem?_cons_zero, Option.some.injEq] at hs
          subst hs
          exact ⟨t, by simpa using getValue_at fenv act i cs c1 t v h1⟩
        | succ j' =>
          simp only [List.getElem?_cons_succ] at hs
          obtain ⟨hl1, hi1, _⟩ := getValue_counters fenv act i cs c1 t v hi h1
          obtain ⟨t', ht'⟩ := ih c1 c2 vs2 (by rw [hl1]; exact hi) h2 j' s hs
          refine ⟨t', ?_⟩
          rw [hi1] at ht'
          have : cs.getD i 0 + tc act + j' * tc act = cs.getD i 0 + (j' + 1) * tc act := by
            rw [Nat.succ_mul]; omega
          rw [this] at ht'
          exact ht'

theorem segVal_list (n : NArgs) (vs l : List Scalar) (h : segVal n vs = .list l) : l = vs := by
  unfold segVal at h
  split at h
  · cases h
  · cases h
  · cases h
  · simp only [Val.list.injEq] at h; exact h.symm

theorem getValues_pos (fenv : FEnv) (act : Act) (i : Nat) (cs cs' : List Nat) (toks : List Str)
    (v : Val) (hi : i < cs.length) (h : getValues fenv act i cs toks = .ok (v, cs')) :
    ∀ l, v = .list l → ∀ j s, l[j]? = some s →
      ∃ t, act.conv.apply fenv (cs.getD i 0 + j * tc act) t = .ok s := by
  rw [getValues_ok_iff] at h
  cases h1 : getValuesList fenv act i cs toks with
  | error e => rw [h1] at h; cases h
  | ok p =>
    obtain ⟨vs, c1⟩ := p
    rw [h1] at h
    simp only [Except.ok.injEq, Prod.mk.injEq] at h
    intro l hl j s hs
    rw [← h.1] at hl
    have := segVal_list _ _ _ hl
    subst this
    exact getValuesList_pos fenv act i toks cs c1 l hi h1 j s hs

theorem nsOkP_setKey (fenv : FEnv) (tbl : List Act) (ns : List (Str × Val)) (act : Act)
    (hmem : act ∈ tbl) (v : Val) (hv : ValOk fenv act v) (hp : PosOk fenv act v)
    (h : NsOkP fenv tbl ns) : NsOkP fenv tbl (setKey ns act.dest v) := by
  intro p hp'
  rcases mem_setKey ns act.dest v p hp' with rfl | hp'
  · exact ⟨act, hmem, rfl, Or.inr (Or.inl ⟨hv, hp⟩)⟩
  · exact h p hp'

theorem takeAction_nsOkP (fenv : FEnv) (tbl : List Act) (st st' : St) (i : Nat) (o : Str)
    (args : List Str) (h : takeAction fenv tbl st i o args = .ok st') (hns : NsOkP fenv tbl st.ns)
    (hal : Aligned tbl st.counters)
    (hargs : ∀ act, tbl[i]? = some act → arityOk act.nargs args.length) :
    NsOkP fenv tbl st'.ns := by
  unfold takeAction at h
  cases hact : tbl[i]? with
  | none => rw [hact] at h; cases h
  | some act =>
    have har := hargs act hact
    have hmem : act ∈ tbl := List.mem_of_getElem? hact
    have hi : i < st.counters.length := by
      rw [hal.1]; exact (List.getElem?_eq_some_iff.mp hact).1
    rw [hact] at h
    simp only at h
    cases hk : act.kind with
    | help => rw [hk] at h; cases h
    | store =>
      rw [hk] at h
      simp only at h
      cases h1 : getValues fenv act i st.counters args with
      | error e1 => rw [h1] at h; cases h
      | ok p =>
        obtain ⟨v, cs⟩ := p
        rw [h1] at h
        simp only [Except.ok.injEq] at h
        subst h
        refine nsOkP_setKey fenv tbl st.ns act hmem v ?_ ?_ hns
        · simp only [ValOk, hk]
          exact getValues_ok fenv act i st.counters cs args v har h1
        · intro l hl
          exact ⟨st.counters.getD i 0, fun bs hc hn => hal.2 i act bs hact hc hn,
            getValues_pos fenv act i st.counters cs args v hi h1 l hl⟩
    | boolOpt negs =>
      rw [hk] at h
      simp only at h
      cases h1 : getValues fenv act i st.counters args with
      | error e1 => rw [h1] at h; cases h
      | ok p =>
        obtain ⟨v, cs⟩ := p
        rw [h1] at h
        dsimp only at h
        split at h
        · simp only [Except.ok.injEq] at h; subst h
          exact nsOkP_setKey fenv tbl st.ns act hmem _ (by simp only [ValOk, hk]; exact ⟨_, rfl⟩)
            (by intro l hl; cases hl) hns
        · split at h
          · cases h
          · simp only [Except.ok.injEq] at h; subst h
            exact nsOkP_setKey fenv tbl st.ns act hmem _ (by simp only [ValOk, hk]; exact ⟨_, rfl⟩)
              (by intro l hl; cases hl) hns
        · cases h

theorem arity_num {tbl : List Act} {i : Nat} {ac : Act} {args : List Str} (hact : tbl[i]? = some ac)
    (har : arityOk ac.nargs args.length) :
    ∀ act m, tbl[i]? = some act → act.nargs = .num m → args.length = m := by
  intro act m ha hn
  rw [hact] at ha; cases ha
  rw [hn] at har
  exact har

theorem consume_nsOkP (fenv : FEnv) (tbl : List Act) (fuel : Nat) (st st' : St)
    (l : List (Str × Tok)) (h : consume fenv tbl fuel st l = .ok st')
    (hns : NsOkP fenv tbl st.ns) (hal : Aligned tbl st.counters) :
    NsOkP fenv tbl st'.ns ∧ Aligned tbl st'.counters :=
  consume_inv fenv tbl l (fun s => NsOkP fenv tbl s.ns ∧ Aligned tbl s.counters)
    (by
      intro s p rest s2 r2 _ hs hst
      rcases hst.cases' with h1 | ⟨i, o, ex, ac, args, _, hact, _, har, htk⟩
      · subst h1; exact hs
      · exact ⟨takeAction_nsOkP fenv tbl s s2 i o args htk hs.1 hs.2
            (by intro a2 h2; rw [hact] at h2; cases h2; exact har),
          takeAction_aligned fenv tbl s s2 i o args hs.2 (arity_num hact har) htk⟩)
    fuel st st' l (fun _ hp => hp) h ⟨hns, hal⟩

theorem initNs_nsOkP (fenv : FEnv) (tbl : List Act) : NsOkP fenv tbl (initNs tbl) := by
  unfold initNs
  have : ∀ (l : List Act) (ns : List (Str × Val)), (∀ a ∈ l, a ∈ tbl) → NsOkP fenv tbl ns →
      NsOkP fenv tbl (l.foldl (fun ns a => match a.default with
        | some d => if ns.any (fun p => p.1 = a.dest) then ns else ns ++ [(a.dest, d)]
        | none => ns) ns) := by
    intro l
    induction l with
    | nil => intro ns _ h; exact h
    | cons a as ih =>
      intro ns hsub h
      simp only [List.foldl_cons]
      apply ih _ (fun x hx => hsub x (by simp [hx]))
      cases hd : a.default with
      | none => exact h
      | some d =>
        simp only
        split
        · exact h
        · intro p hp
          simp only [List.mem_append, List.mem_singleton] at hp
          rcases hp with hp | rfl
          · exact h p hp
          · exact ⟨a, hsub a (by simp), rfl, Or.inl hd⟩
  exact this tbl [] (fun _ h => h) (by intro p hp; cases hp)

theorem finish_nsOkP (fenv : FEnv) (tbl : List Act) (st st' : St) (l : List (Act × Nat))
    (hl : ∀ p ∈ l, p.1 ∈ tbl) (h : finish fenv tbl st l = .ok st') (hns : NsOkP fenv tbl st.ns) :
    NsOkP fenv tbl st'.ns := by
  induction l generalizing st with
  | nil => simp only [finish, Except.ok.injEq] at h; subst h; exact hns
  | cons p ps ih =>
    obtain ⟨a, i⟩ := p
    have hl' : ∀ q ∈ ps, q.1 ∈ tbl := fun q hq => hl q (by simp [hq])
    have ha : a ∈ tbl := hl (a, i) (by simp)
    rw [finish] at h
    split at h
    · exact ih _ hl' h hns
    · split at h
      · cases h
      · split at h
        · rename_i s hdef
          split at h
          · split at h
            · rename_i v hv
              refine ih _ hl' h ?_
              intro p hp
              rcases mem_setKey st.ns a.dest (.sc v) p hp with rfl | hp
              · exact ⟨a, ha, rfl, Or.inr (Or.inr ⟨s, _, v, hdef, hv, rfl⟩)⟩
              · exact hns p hp
            · cases h
            · cases h
            · cases h
          · exact ih _ hl' h hns
        · exact ih _ hl' h hns

/-- **C04 (well-typed results, with positions).** On a parser whose `parse_tuple` counters are
    aligned (a new parser; any parser after accepted parses): every stored list was converted item
    by item at consecutive closure positions starting at a multiple of the tuple's arity — so item
    `j` of a `Tuple[t0, …]` value was produced by the parser of `tj`, not of some other position. -/
theorem c04_sound_positions (fenv : FEnv) (tbl : List Act) (cs : List Nat) (argv : List Str)
    (ns : List (Str × Val)) (ex : List Str) (cs' : List Nat) (hal : Aligned tbl cs)
    (h : run fenv tbl cs argv = .ok ns ex cs') : NsOkP fenv tbl ns := by
  unfold run at h
  cases hlex : lexAll tbl argv with
  | error e => rw [hlex] at h; cases h
  | ok toks =>
    rw [hlex] at h
    dsimp only at h
    cases hc : consume fenv tbl (argv.length + 1)
        { ns := initNs tbl, extras := [], seen := [], counters := cs } (argv.zip toks) with
    | error e =>
      rw [hc] at h; dsimp only at h
      have := consume_err _ _ _ _ _ _ hc
      rw [h] at this; exact absurd this (by simp [GoodErr])
    | ok st =>
      rw [hc] at h; dsimp only at h
      have h1 := (consume_nsOkP fenv tbl _ _ st _ hc (initNs_nsOkP fenv tbl) hal).1
      cases hf : finish fenv tbl st tbl.zipIdx with
      | error e =>
        rw [hf] at h; dsimp only at h
        have := finish_err _ _ _ _ _ hf
        rw [h] at this; exact absurd this (by simp [GoodErr])
      | ok st2 =>
        rw [hf] at h; dsimp only at h
        simp only [EOut.ok.injEq] at h
        rw [← h.1]
        exact finish_nsOkP fenv tbl st st2 tbl.zipIdx
          (fun p hp => List.fst_mem_of_mem_zipIdx hp) hf h1

/-! #### what `get_arg_options` hands to argparse, per annotation (the action's SHAPE) -/

structure AO (ao : ArgOpts) (n : NArgs) (c : Conv) (ch : Option (List Str)) (b : Bool) (d : Val) :
    Prop where
  nargs : ao.nargs = n
  conv : ao.conv = c
  choices : ao.choices = ch
  isBool : ao.isBool = b
  default : ao.default = d

/-- an Enum default is handed to argparse by NAME (field_wrapper.py:353-361) -/
def enumDefault : Val → Val
  | .sc (.enum _ n) => .sc (.str n)
  | v => v

/-- the branch of `get_arg_options` a field goes through, with everything the action gets -/
inductive ShapeOf (f : FieldSpec) (ao : ArgOpts) : Prop
  | literal (vals : List Scalar) (names : List Str) : f.ty.optional = false →
      f.ty.inner = .literal vals → vals.mapM literalName = some names →
      AO ao .one (.base .str) (some names) false (defaultVal f.default) → ShapeOf f ao
  | tuple (items : List ITy) (c : Conv) : f.ty.inner = .tuple items → tupleConv items = some c →
      AO ao (.num items.length) c none false (defaultVal f.default) → ShapeOf f ao
  | vtuple (item : ITy) : f.ty.inner = .vtuple item →
      AO ao .star (convOfItem item) none false (defaultVal f.default) → ShapeOf f ao
  | list (item : ITy) (c : Conv) : f.ty.inner = .list item → containerConv item = some c →
      AO ao .star c none false (defaultVal f.default) → ShapeOf f ao
  | optScalar (t : ITy) : (f.ty.optional = true ∨ f.default = .value (.sc .none)) →
      f.ty.inner = .sc t → AO ao .opt (convOfItem t) none false (defaultVal f.default) → ShapeOf f ao
  | union (alts : List BTy) : f.ty.optional = false → f.ty.inner = .sc (.union alts) →
      AO ao .one (.union (alts.map bconvOf)) none false (defaultVal f.default) → ShapeOf f ao
  | enum (cls : Str) (ms : List Str) : f.ty.optional = false →
      f.ty.inner = .sc (.base (.enum cls ms)) →
      AO ao .one (.base .str) (some ms) false (enumDefault (defaultVal f.default)) → ShapeOf f ao
  | bool : f.ty.optional = false → f.ty.inner = .sc (.base .bool) →
      AO ao .opt (.base .bool) none true (defaultVal f.default) → ShapeOf f ao
  | plain (b : BTy) : f.ty.optional = false → f.ty.inner = .sc (.base b) →
      (∀ c m, b ≠ .enum c m) → AO ao .one (.base (bconvOf b)) none false (defaultVal f.default) → ShapeOf f ao

theorem enumDefault_eq (v : Val) :
    (match v with | .sc (.enum _ n) => Val.sc (.str n) | w => w) = enumDefault v := by
  unfold enumDefault
  split <;> rfl

theorem argOptions_shape (f : FieldSpec) (ao : ArgOpts) (h : argOptions f = some ao) : ShapeOf f ao := by
  obtain ⟨name, ⟨inner, opt⟩, d, als⟩ := f
  unfold argOptions at h
  simp only at h
  cases inner with
  | literal vals =>
    cases opt
    · simp only at h
      cases hm : vals.mapM literalName with
      | none => simp [hm] at h
      | some names =>
        simp only [hm, Option.map_some, Option.some.injEq] at h
        subst h
        exact .literal vals names rfl rfl hm ⟨rfl, rfl, rfl, rfl, rfl⟩
    · simp at h
  | sc t =>
    cases opt <;> simp only [Bool.true_or, Bool.false_or, ↓reduceIte] at h
    · split at h
      · rename_i hnone
        simp only [Option.some.injEq] at h; subst h
        exact .optScalar t (Or.inr (by simpa using hnone)) rfl ⟨rfl, rfl, rfl, rfl, rfl⟩
      · cases t with
        | union alts =>
          simp only [Option.some.injEq] at h; subst h
          exact .union alts rfl rfl ⟨rfl, rfl, rfl, rfl, rfl⟩
        | base b =>
          cases b with
          | «enum» cls ms =>
            simp only [Option.some.injEq] at h; subst h
            exact .enum cls ms rfl rfl ⟨rfl, rfl, rfl, rfl, enumDefault_eq _⟩
          | bool =>
            simp only [Option.some.injEq] at h; subst h
            exact .bool rfl rfl ⟨rfl, rfl, rfl, rfl, rfl⟩
          | int => simp only [Option.some.injEq] at h; subst h; exact .plain _ rfl rfl (by intro c m hh; cases hh) ⟨rfl, rfl, rfl, rfl, rfl⟩
          | float => simp only [Option.some.injEq] at h; subst h; exact .plain _ rfl rfl (by intro c m hh; cases hh) ⟨rfl, rfl, rfl, rfl, rfl⟩
          | str => simp only [Option.some.injEq] at h; subst h; exact .plain _ rfl rfl (by intro c m hh; cases hh) ⟨rfl, rfl, rfl, rfl, rfl⟩
          | path => simp only [Option.some.injEq] at h; subst h; exact .plain _ rfl rfl (by intro c m hh; cases hh) ⟨rfl, rfl, rfl, rfl, rfl⟩
          | any => simp only [Option.some.injEq] at h; subst h; exact .plain _ rfl rfl (by intro c m hh; cases hh) ⟨rfl, rfl, rfl, rfl, rfl⟩
    · simp only [Option.some.injEq] at h; subst h
      exact .optScalar t (Or.inl rfl) rfl ⟨rfl, rfl, rfl, rfl, rfl⟩
  | list item =>
    cases hc : containerConv item with
    | none => cases opt <;> simp [hc] at h
    | some c =>
      cases opt <;> simp only [hc, Option.map_some, Bool.true_or, Bool.false_or, ↓reduceIte] at h
      · split at h <;>
          (simp only [Option.some.injEq] at h; subst h; exact .list item c rfl hc ⟨rfl, rfl, rfl, rfl, rfl⟩)
      · simp only [Option.some.injEq] at h; subst h; exact .list item c rfl hc ⟨rfl, rfl, rfl, rfl, rfl⟩
  | tuple items =>
    cases hc : tupleConv items with
    | none => cases opt <;> simp [hc] at h
    | some c =>
      cases opt <;> simp only [hc, Option.map_some, Bool.true_or, Bool.false_or, ↓reduceIte] at h
      · split at h <;>
          (simp only [Option.some.injEq] at h; subst h; exact .tuple items c rfl hc ⟨rfl, rfl, rfl, rfl, rfl⟩)
      · simp only [Option.some.injEq] at h; subst h; exact .tuple items c rfl hc ⟨rfl, rfl, rfl, rfl, rfl⟩
  | vtuple item =>
    cases opt <;> simp only [Bool.true_or, Bool.false_or, ↓reduceIte] at h
    · split at h <;>
        (simp only [Option.some.injEq] at h; subst h; exact .vtuple item rfl ⟨rfl, rfl, rfl, rfl, rfl⟩)
    · simp only [Option.some.injEq] at h; subst h; exact .vtuple item rfl ⟨rfl, rfl, rfl, rfl, rfl⟩

/-! #### from the engine's invariant to the annotation -/

theorem valOk_store_scalar (fenv : FEnv) (a : Act) (raw : Val) (hk : a.kind = .store)
    (hn : a.nargs = .one ∨ a.nargs = .opt) (h : ValOk fenv a raw) :
    (raw = .sc .none ∧ a.nargs = .opt) ∨ ∃ s, raw = .sc s ∧ InRange fenv a s := by
  simp only [ValOk, hk] at h
  rcases h with ⟨h1, h2⟩ | ⟨s, h1, h2, _⟩ | ⟨l, _, _, h3⟩
  · exact Or.inl ⟨h1, h2⟩
  · exact Or.inr ⟨s, h1, h2⟩
  · rcases hn with hn | hn <;> (rw [hn] at h3; simp [ListArity] at h3)

theorem valOk_store_list (fenv : FEnv) (a : Act) (raw : Val) (hk : a.kind = .store)
    (hn : a.nargs = .star ∨ ∃ m, a.nargs = .num m) (h : ValOk fenv a raw) :
    ∃ l, raw = .list l ∧ (∀ s ∈ l, InRange fenv a s) ∧ ListArity a.nargs l.length := by
  simp only [ValOk, hk] at h
  rcases h with ⟨_, h2⟩ | ⟨s, _, _, h2⟩ | ⟨l, h1, h2, h3⟩
  · rcases hn with hn | ⟨m, hn⟩ <;> (rw [hn] at h2; cases h2)
  · rcases hn with hn | ⟨m, hn⟩ <;> (rw [hn] at h2; rcases h2 with h2 | h2 <;> cases h2)
  · exact ⟨l, h1, h2, h3⟩

/-- `postprocess` leaves a conforming scalar of a non-optional scalar field alone -/
theorem postprocess_sc_id (f : FieldSpec) (t : ITy) (s : Scalar) (hopt : f.ty.optional = false)
    (hin : f.ty.inner = .sc t) (hc : IConforms t s) : postprocess f (.sc s) = .ok (.sc s) := by
  unfold postprocess
  rw [hopt, hin]
  cases t with
  | union alts => rfl
  | base b =>
    cases b with
    | «enum» cls ms => cases s <;> simp [IConforms, BConforms] at hc ⊢
    | path => cases s <;> simp [IConforms, BConforms] at hc ⊢
    | int => rfl
    | float => rfl
    | str => rfl
    | bool => rfl
    | any => rfl

theorem tupleConv_counter_len (items : List ITy) (bs : List BConv)
    (h : tupleConv items = some (.tupleCounter bs)) : bs.length = items.length := by
  unfold tupleConv at h
  cases items with
  | nil => simp at h
  | cons t rest =>
    simp only at h
    split at h
    · cases t <;> simp [convOfItem] at h
    · split at h
      · rename_i hlen
        simp only [Option.some.injEq, Conv.tupleCounter.injEq] at h
        rw [← h]; exact hlen
      · cases h

theorem listToTuple_list (l : List Scalar) : listToTuple (.list l) = .tuple l := rfl
theorem tupleToList_list (l : List Scalar) : tupleToList (.list l) = .list l := rfl

/-- **the core step**: a value the engine stored for a field's action (`ValOk` + positions), once
    post-processed, conforms to the field's ANNOTATION — or is the `None` a bare option stores for a
    non-Optional field declared with `= None` -/
theorem conforms_of_shape (fenv : FEnv) (f : FieldSpec) (ao : ArgOpts) (hs : ShapeOf f ao) (a : Act)
    (negs : List Str)
    (hkind : a.kind = if ao.isBool then .boolOpt negs else .store) (hn : a.nargs = ao.nargs)
    (hc : a.conv = ao.conv) (hch : a.choices = ao.choices)
    (raw v : Val) (hv : ValOk fenv a raw) (hp : PosOk fenv a raw)
    (hpost : postprocess f raw = .ok v) : Conforms f.ty v ∨ raw = defaultVal f.default := by
  cases hs with
  | literal vals names hopt hin hm hao =>
    have hk : a.kind = .store := by rw [hkind, hao.isBool]; rfl
    rw [hao.nargs] at hn
    rw [hao.conv] at hc
    rw [hao.choices] at hch
    rcases valOk_store_scalar fenv a raw hk (Or.inl hn) hv with ⟨_, h2⟩ | ⟨s, rfl, k, t, hap, hcho⟩
    · rw [hn] at h2; cases h2
    · obtain ⟨u, rfl, hu⟩ := hcho names hch
      left; right
      unfold postprocess at hpost
      rw [hopt, hin] at hpost
      simp only at hpost
      split at hpost
      · rename_i w hw
        simp only [PostOut.ok.injEq] at hpost
        subst hpost
        rw [hin]
        have := List.mem_of_find?_eq_some hw
        simp only [NConforms]
        exact List.mem_reverse.mp this
      · cases hpost
  | tuple items c hin htc hao =>
    have hk : a.kind = .store := by rw [hkind, hao.isBool]; rfl
    rw [hao.nargs] at hn
    rw [hao.conv] at hc
    obtain ⟨l, rfl, _, hlen⟩ := valOk_store_list fenv a _ hk (Or.inr ⟨_, hn⟩) hv
    rw [hn] at hlen
    simp only [ListArity] at hlen
    obtain ⟨k0, hk0, hpos⟩ := hp l rfl
    have hconf : TupleConforms items l := by
      apply tupleConv_conforms fenv items c htc l hlen k0
      · intro bs hbs
        apply hk0 bs (by rw [hc, hbs])
        rw [hn, tupleConv_counter_len items bs (by rw [htc, hbs])]
      · intro j s hjs
        obtain ⟨t, ht⟩ := hpos j s hjs
        refine ⟨t, ?_⟩
        unfold tc at ht
        rw [hc] at ht
        exact ht
    left; right
    have hv' : v = .tuple l := by
      unfold postprocess at hpost
      rw [hin] at hpost
      cases hopt : f.ty.optional <;> rw [hopt] at hpost <;>
        simp only [listToTuple_list, PostOut.ok.injEq] at hpost <;> exact hpost.symm
    subst hv'
    rw [hin]
    exact hconf
  | vtuple item hin hao =>
    have hk : a.kind = .store := by rw [hkind, hao.isBool]; rfl
    rw [hao.nargs] at hn
    rw [hao.conv] at hc
    obtain ⟨l, rfl, hr, _⟩ := valOk_store_list fenv a _ hk (Or.inl hn) hv
    left; right
    have hv' : v = .tuple l := by
      unfold postprocess at hpost
      rw [hin] at hpost
      cases hopt : f.ty.optional <;> rw [hopt] at hpost <;>
        simp only [listToTuple_list, PostOut.ok.injEq] at hpost <;> exact hpost.symm
    subst hv'
    rw [hin]
    intro s hs
    obtain ⟨k, t, hap, _⟩ := hr s hs
    rw [hc] at hap
    exact convOfItem_conforms fenv item k t s hap
  | list item c hin hcc hao =>
    have hk : a.kind = .store := by rw [hkind, hao.isBool]; rfl
    rw [hao.nargs] at hn
    rw [hao.conv] at hc
    obtain ⟨l, rfl, hr, _⟩ := valOk_store_list fenv a _ hk (Or.inl hn) hv
    left; right
    have hv' : v = .list l := by
      unfold postprocess at hpost
      rw [hin] at hpost
      cases hopt : f.ty.optional <;> rw [hopt] at hpost <;>
        simp only [tupleToList_list, PostOut.ok.injEq] at hpost <;> exact hpost.symm
    subst hv'
    rw [hin]
    intro s hs
    obtain ⟨k, t, hap, _⟩ := hr s hs
    rw [hc] at hap
    exact containerConv_conforms fenv item c hcc k t s hap
  | optScalar t hor hin hao =>
    have hk : a.kind = .store := by rw [hkind, hao.isBool]; rfl
    rw [hao.nargs] at hn
    rw [hao.conv] at hc
    rcases valOk_store_scalar fenv a raw hk (Or.inr hn) hv with ⟨rfl, _⟩ | ⟨s, rfl, k, tk, hap, _⟩
    · cases hopt : f.ty.optional with
      | true =>
        left; left
        refine ⟨hopt, ?_⟩
        unfold postprocess at hpost
        rw [hopt, hin] at hpost
        simp only [PostOut.ok.injEq] at hpost
        exact hpost.symm
      | false =>
        right
        rcases hor with h1 | h1
        · rw [hopt] at h1; cases h1
        · rw [h1]; rfl
    · rw [hc] at hap
      have hcs := convOfItem_conforms fenv t k tk s hap
      cases hopt : f.ty.optional with
      | true =>
        left; right
        unfold postprocess at hpost
        rw [hopt, hin] at hpost
        simp only [PostOut.ok.injEq] at hpost
        subst hpost
        rw [hin]; exact hcs
      | false =>
        left; right
        rw [postprocess_sc_id f t s hopt hin hcs] at hpost
        simp only [PostOut.ok.injEq] at hpost
        subst hpost
        rw [hin]; exact hcs
  | union alts hopt hin hao =>
    have hk : a.kind = .store := by rw [hkind, hao.isBool]; rfl
    rw [hao.nargs] at hn
    rw [hao.conv] at hc
    rcases valOk_store_scalar fenv a raw hk (Or.inl hn) hv with ⟨_, h2⟩ | ⟨s, rfl, k, tk, hap, _⟩
    · rw [hn] at h2; cases h2
    · rw [hc] at hap
      have hcs : IConforms (.union alts) s := union_conforms fenv alts tk s hap
      left; right
      rw [postprocess_sc_id f _ s hopt hin hcs] at hpost
      simp only [PostOut.ok.injEq] at hpost
      subst hpost
      rw [hin]; exact hcs
  | «enum» cls ms hopt hin hao =>
    have hk : a.kind = .store := by rw [hkind, hao.isBool]; rfl
    rw [hao.nargs] at hn
    rw [hao.choices] at hch
    rcases valOk_store_scalar fenv a raw hk (Or.inl hn) hv with ⟨_, h2⟩ | ⟨s, rfl, k, tk, _, hcho⟩
    · rw [hn] at h2; cases h2
    · obtain ⟨u, rfl, hu⟩ := hcho ms hch
      left; right
      unfold postprocess at hpost
      rw [hopt, hin] at hpost
      simp only [hu, ↓reduceIte, PostOut.ok.injEq] at hpost
      subst hpost
      rw [hin]
      simp only [NConforms, IConforms, BConforms, true_and]
      simpa using hu
  | bool hopt hin hao =>
    rw [hao.isBool] at hkind
    simp only [↓reduceIte] at hkind
    simp only [ValOk, hkind] at hv
    obtain ⟨b, rfl⟩ := hv
    left; right
    unfold postprocess at hpost
    rw [hopt, hin] at hpost
    simp only [PostOut.ok.injEq] at hpost
    subst hpost
    rw [hin]
    simp [NConforms, IConforms, BConforms]
  | plain b hopt hin _ hao =>
    have hk : a.kind = .store := by rw [hkind, hao.isBool]; rfl
    rw [hao.nargs] at hn
    rw [hao.conv] at hc
    rcases valOk_store_scalar fenv a raw hk (Or.inl hn) hv with ⟨_, h2⟩ | ⟨s, rfl, k, tk, hap, _⟩
    · rw [hn] at h2; cases h2
    · rw [hc] at hap
      have hcs : IConforms (.base b) s := bconv_conforms fenv b tk s hap
      left; right
      rw [postprocess_sc_id f _ s hopt hin hcs] at hpost
      simp only [PostOut.ok.injEq] at hpost
      subst hpost
      rw [hin]; exact hcs

/-! #### the whole flat pipeline: table construction → engine → `postprocess` -/

/-- what a field gets when its value comes from its declared default: the default as handed to
    argparse (an Enum member by name), possibly run through `type=` by argparse if it is a string,
    then post-processed -/
def FromDefault (fenv : FEnv) (f : FieldSpec) (v : Val) : Prop :=
  ∃ raw, postprocess f raw = .ok v ∧
    (raw = defaultVal f.default ∨ ∃ ao, argOptions f = some ao ∧
      (raw = ao.default ∨ ∃ s k w, ao.default = .sc (.str s) ∧ ao.conv.apply fenv k s = .ok w ∧
        raw = .sc w))

/-- field by field: the right name, and a value that conforms to the annotation or comes from the
    field's own default -/
def FieldsOk (fenv : FEnv) : List FieldSpec → List (Str × Val) → Prop
  | [], [] => True
  | f :: fs, p :: ps =>
    p.1 = f.name ∧ (Conforms f.ty p.2 ∨ FromDefault fenv f p.2) ∧ FieldsOk fenv fs ps
  | _, _ => False

/-- where the raw namespace value of a field can come from -/
def RawCases (fenv : FEnv) (f : FieldSpec) (raw : Val) : Prop :=
  raw = defaultVal f.default ∨ ∃ ao a negs, argOptions f = some ao ∧
    a.kind = (if ao.isBool then .boolOpt negs else .store) ∧ a.nargs = ao.nargs ∧
    a.conv = ao.conv ∧ a.choices = ao.choices ∧
    (raw = ao.default ∨ (ValOk fenv a raw ∧ PosOk fenv a raw) ∨
      ∃ s k w, ao.default = .sc (.str s) ∧ ao.conv.apply fenv k s = .ok w ∧ raw = .sc w)

theorem fieldAct_inv (cfg : Cfg) (dest : Str) (f : FieldSpec) (a : Act)
    (h : fieldAct cfg dest f = some a) :
    ∃ ao negs, argOptions f = some ao ∧ a.dest = dest ++ '.' :: f.name ∧
      a.kind = (if ao.isBool then .boolOpt negs else .store) ∧ a.nargs = ao.nargs ∧
      a.conv = ao.conv ∧ a.choices = ao.choices ∧ a.default = some ao.default := by
  unfold fieldAct at h
  cases hao : argOptions f with
  | none => simp [hao] at h
  | some ao =>
    simp only [hao, Option.map_some, Option.some.injEq] at h
    subst h
    exact ⟨ao, _, rfl, rfl, rfl, rfl, rfl, rfl, rfl⟩

theorem tableOf_mem (cfg : Cfg) (dest : Str) (fs : List FieldSpec) (tbl : List Act)
    (h : tableOf cfg dest fs = some tbl) (a : Act) (ha : a ∈ tbl) :
    a = helpAct ∨ ∃ f ∈ fs, fieldAct cfg dest f = some a := by
  unfold tableOf at h
  cases hm : fs.mapM (fieldAct cfg dest) with
  | none => simp [hm] at h
  | some acts =>
    simp only [hm, Option.map_some, Option.some.injEq] at h
    subst h
    rcases List.mem_cons.mp ha with rfl | ha'
    · exact Or.inl rfl
    · exact Or.inr (mapM_mem _ fs acts hm a ha')

theorem nodup_map_inj {α β : Type} (g : α → β) : ∀ (l : List α), (l.map g).Nodup →
    ∀ x ∈ l, ∀ y ∈ l, g x = g y → x = y
  | [], _, x, hx, _, _, _ => by cases hx
  | a :: as, hnd, x, hx, y, hy, hg => by
    rw [List.map_cons, List.nodup_cons] at hnd
    rcases List.mem_cons.mp hx with rfl | hx' <;> rcases List.mem_cons.mp hy with rfl | hy'
    · rfl
    · exact absurd (List.mem_map.mpr ⟨y, hy', hg.symm⟩) hnd.1
    · exact absurd (List.mem_map.mpr ⟨x, hx', hg⟩) hnd.1
    · exact nodup_map_inj g as hnd.2 x hx' y hy' hg

theorem aligned_zeros (tbl : List Act) : Aligned tbl (tbl.map (fun _ => 0)) := by
  refine ⟨by simp, ?_⟩
  intro i act bs _ _ _
  have : (tbl.map (fun _ => 0)).getD i 0 = 0 := by
    rw [List.getD_eq_getElem?_getD, List.getElem?_map]
    cases tbl[i]? <;> rfl
  rw [this]
  exact Nat.zero_mod _

theorem runStrict_ok_run (fenv : FEnv) (tbl : List Act) (cs : List Nat) (argv : List Str)
    (ns : List (Str × Val)) (ex : List Str) (cs' : List Nat)
    (h : runStrict fenv tbl cs argv = .ok ns ex cs') : run fenv tbl cs argv = .ok ns ex cs' := by
  unfold runStrict at h
  split at h
  · rename_i heq; rw [heq]; exact h
  · cases h
  · exact h

/-- the namespace value of every field of a flat dataclass, after any accepted parse -/
theorem field_raw_cases (fenv : FEnv) (cfg : Cfg) (dest : Str) (fs : List FieldSpec) (tbl : List Act)
    (htbl : tableOf cfg dest fs = some tbl) (hnd : (fs.map (·.name)).Nodup)
    (ns : List (Str × Val)) (hns : NsOkP fenv tbl ns) (f : FieldSpec) (hf : f ∈ fs) :
    RawCases fenv f ((ns.lookup (dest ++ '.' :: f.name)).getD (defaultVal f.default)) := by
  cases hl : ns.lookup (dest ++ '.' :: f.name) with
  | none => exact Or.inl rfl
  | some raw =>
    simp only [Option.getD_some]
    obtain ⟨a, ha, hd, hcase⟩ := hns _ (lookup_mem ns _ raw hl)
    simp only at hd hcase
    rcases tableOf_mem cfg dest fs tbl htbl a ha with rfl | ⟨f', hf', hfa⟩
    · exfalso
      have : '.' ∈ helpAct.dest := by rw [hd]; simp
      simp [helpAct] at this
    · obtain ⟨ao, negs, hao, hdest, hk, hn, hc, hch, hdef⟩ := fieldAct_inv cfg dest f' a hfa
      have hname : f'.name = f.name := by
        rw [hdest] at hd
        have := List.append_cancel_left hd
        simpa using this
      have := nodup_map_inj (·.name) fs hnd f' hf' f hf hname
      subst this
      refine Or.inr ⟨ao, a, negs, hao, hk, hn, hc, hch, ?_⟩
      rcases hcase with h1 | h1 | ⟨s, k, w, h1, h2, h3⟩
      · rw [hdef] at h1
        simp only [Option.some.injEq] at h1
        exact Or.inl h1.symm
      · exact Or.inr (Or.inl h1)
      · rw [hdef] at h1
        simp only [Option.some.injEq] at h1
        rw [hc] at h2
        exact Or.inr (Or.inr ⟨s, k, w, h1, h2, h3⟩)

theorem rawCases_conforms (fenv : FEnv) (f : FieldSpec) (raw v : Val) (hr : RawCases fenv f raw)
    (hpost : postprocess f raw = .ok v) : Conforms f.ty v ∨ FromDefault fenv f v := by
  rcases hr with h0 | ⟨ao, a, negs, hao, hk, hn, hc, hch, h1 | ⟨hv, hp⟩ | ⟨s, k, w, h1, h2, h3⟩⟩
  · exact Or.inr ⟨raw, hpost, Or.inl h0⟩
  · exact Or.inr ⟨raw, hpost, Or.inr ⟨ao, hao, Or.inl h1⟩⟩
  · rcases conforms_of_shape fenv f ao (argOptions_shape f ao hao) a negs hk hn hc hch raw v hv hp hpost
      with h | h
    · exact Or.inl h
    · exact Or.inr ⟨raw, hpost, Or.inl h⟩
  · exact Or.inr ⟨raw, hpost, Or.inr ⟨ao, hao, Or.inr ⟨s, k, w, h1, h2, h3⟩⟩⟩

theorem postAll_fieldsOk (fenv : FEnv) (dest : Str) (ns : List (Str × Val)) :
    ∀ (fs : List FieldSpec) (fields : List (Str × Val)), postAll dest ns fs = .ok fields →
      (∀ f ∈ fs, RawCases fenv f ((ns.lookup (dest ++ '.' :: f.name)).getD (defaultVal f.default))) →
      FieldsOk fenv fs fields := by
  intro fs
  induction fs with
  | nil =>
    intro fields h _
    simp only [postAll, Except.ok.injEq] at h
    subst h
    trivial
  | cons f rest ih =>
    intro fields h hall
    simp only [postAll] at h
    cases hp : postprocess f ((ns.lookup (dest ++ '.' :: f.name)).getD (defaultVal f.default)) with
    | raise e => rw [hp] at h; cases h
    | ok v =>
      rw [hp] at h
      simp only at h
      cases hr : postAll dest ns rest with
      | error e => rw [hr] at h; cases h
      | ok more =>
        rw [hr] at h
        simp only [Except.ok.injEq] at h
        subst h
        exact ⟨rfl, rawCases_conforms fenv f _ v (hall f (by simp)) hp,
          ih more hr (fun g hg => hall g (by simp [hg]))⟩

/-- **C04 (well-typed results), the whole flat pipeline.** For every dataclass of the modelled
    annotation grammar with distinct field names, every naming configuration and EVERY command
    line: if `parse_args` returns an instance, then field by field the value either conforms to the
    field's ANNOTATION — `Optional` admits `None`; `List[T]` / `Tuple[T, ...]` item-wise;
    `Tuple[t1, …, tn]` with exactly `n` items, item `j` conforming to `tj` (the alignment of the
    `parse_tuple` counter is proved, not assumed); `Literal` one of the values; `Enum` a member;
    `Union` one of the members — or it is the field's own declared default (possibly run through
    `type=` by argparse). No raw token, no truncated or padded tuple, no `None` for a non-Optional
    field that was given a value. -/
theorem c04_conforms_flat (fenv : FEnv) (cfg : Cfg) (dest : Str) (fs : List FieldSpec)
    (argv : List Str) (fields : List (Str × Val)) (hnd : (fs.map (·.name)).Nodup)
    (h : parseFlat fenv cfg dest fs argv = .ok fields) : FieldsOk fenv fs fields := by
  unfold parseFlat at h
  cases htbl : tableOf cfg dest fs with
  | none => rw [htbl] at h; cases h
  | some tbl =>
    rw [htbl] at h
    simp only at h
    cases hr : runStrict fenv tbl (tbl.map (fun _ => 0)) argv with
    | ok ns ex cs' =>
      rw [hr] at h
      simp only at h
      cases hp : postAll dest ns fs with
      | error e => rw [hp] at h; cases h
      | ok r =>
        rw [hp] at h
        simp only [POut.ok.injEq] at h
        subst h
        have hns := c04_sound_positions fenv tbl _ argv ns ex cs' (aligned_zeros tbl)
          (runStrict_ok_run fenv tbl _ argv ns ex cs' hr)
        exact postAll_fieldsOk fenv dest ns fs r hp
          (fun f hf => field_raw_cases fenv cfg dest fs tbl htbl hnd ns hns f hf)
    | exit c k => rw [hr] at h; cases h
    | raise e => rw [hr] at h; cases h
    | unmodelled w => rw [hr] at h; cases h

/-! #### never a traceback, for the WHOLE pipeline (review item 2) -/

/-- the declared defaults are well-typed (`= None` is always allowed, issue #132) -/
def DefaultsConform (fs : List FieldSpec) : Prop :=
  ∀ f ∈ fs, ∀ v, f.default = .value v → Conforms f.ty v ∨ v = .sc .none

theorem postprocess_raise_inv (f : FieldSpec) (raw : Val) (x : Str) (h : postprocess f raw = .raise x) :
    f.ty.optional = false ∧ ∃ s, raw = .sc (.str s) ∧
      ((∃ cls ms, f.ty.inner = .sc (.base (.enum cls ms)) ∧ ms.contains s = false) ∨
       (∃ vals, f.ty.inner = .literal vals ∧
          vals.reverse.find? (fun v => literalName v = some s) = none)) := by
  obtain ⟨name, ⟨inner, opt⟩, d, als⟩ := f
  cases opt with
  | true => cases inner <;> simp [postprocess] at h
  | false =>
    cases inner with
    | sc t =>
      cases t with
      | union alts => simp [postprocess] at h
      | base b =>
        cases b with
        | «enum» cls ms =>
          simp only [postprocess] at h
          split at h
          · split at h
            · cases h
            · rename_i s hs
              exact ⟨rfl, s, rfl, Or.inl ⟨cls, ms, rfl, by simpa using hs⟩⟩
          · cases h
        | path => simp only [postprocess] at h; split at h <;> cases h
        | int => simp [postprocess] at h
        | float => simp [postprocess] at h
        | str => simp [postprocess] at h
        | bool => simp [postprocess] at h
        | any => simp [postprocess] at h
    | literal vals =>
      simp only [postprocess] at h
      split at h
      · rename_i s
        cases hfind : vals.reverse.find? (fun v => literalName v = some s) with
        | some w => rw [hfind] at h; cases h
        | none => exact ⟨rfl, s, rfl, Or.inr ⟨vals, rfl, hfind⟩⟩
      · cases h
    | list item => simp [postprocess] at h
    | tuple items => simp [postprocess] at h
    | vtuple item => simp [postprocess] at h

theorem defaultVal_str (d : DefaultV) (s : Str) (h : defaultVal d = .sc (.str s)) :
    d = .value (.sc (.str s)) := by
  cases d with
  | missing => cases h
  | value v => simp only [defaultVal] at h; rw [h]

theorem enumDefault_str (v : Val) (s : Str) (h : enumDefault v = .sc (.str s)) :
    v = .sc (.str s) ∨ ∃ c, v = .sc (.enum c s) := by
  unfold enumDefault at h
  split at h
  · simp only [Val.sc.injEq, Scalar.str.injEq] at h; subst h; exact Or.inr ⟨_, rfl⟩
  · exact Or.inl h

/-- a string in the namespace of an Enum field is a member name (given a well-typed default) -/
theorem raw_str_valid_enum (fenv : FEnv) (f : FieldSpec) (cls : Str) (ms : List Str)
    (hopt : f.ty.optional = false) (hin : f.ty.inner = .sc (.base (.enum cls ms)))
    (hdc : ∀ v, f.default = .value v → Conforms f.ty v ∨ v = .sc .none)
    (raw : Val) (s : Str) (hr : RawCases fenv f raw) (hs : raw = .sc (.str s)) :
    ms.contains s = true := by
  -- a declared default `.str s` is ill-typed for an Enum field
  have hbad : f.default ≠ .value (.sc (.str s)) := by
    intro hd
    rcases hdc _ hd with h | h
    · simp [Conforms, hopt, hin, NConforms, IConforms, BConforms] at h
    · cases h
  have hdecl : ∀ c, f.default = .value (.sc (.enum c s)) → ms.contains s = true := by
    intro c hd
    rcases hdc _ hd with h | h
    · simp only [Conforms, hopt, hin, NConforms, IConforms, BConforms] at h
      rcases h with ⟨h, _⟩ | ⟨_, h⟩
      · cases h
      · simpa using h
    · cases h
  subst hs
  rcases hr with h0 | ⟨ao, a, negs, hao, hk, hn, hc, hch, hcase⟩
  · exact absurd (defaultVal_str _ _ h0.symm) hbad
  · have hsh := argOptions_shape f ao hao
    cases hsh with
    | literal vals names _ hin' _ _ => rw [hin] at hin'; cases hin'
    | tuple items c hin' _ _ => rw [hin] at hin'; cases hin'
    | vtuple item hin' _ => rw [hin] at hin'; cases hin'
    | list item c hin' _ _ => rw [hin] at hin'; cases hin'
    | union alts _ hin' _ => rw [hin] at hin'; cases hin'
    | bool _ hin' _ => rw [hin] at hin'; cases hin'
    | plain b _ hin' hne _ =>
      rw [hin] at hin'
      simp only [NTy.sc.injEq, ITy.base.injEq] at hin'
      exact absurd hin'.symm (hne cls ms)
    | optScalar t hor hin' hao' =>
      rw [hin] at hin'
      simp only [NTy.sc.injEq] at hin'
      subst hin'
      have hkk : a.kind = .store := by rw [hk, hao'.isBool]; rfl
      rcases hcase with h1 | ⟨hv, _⟩ | ⟨s0, k, w, h1, h2, h3⟩
      · rw [hao'.default] at h1
        exact absurd (defaultVal_str _ _ h1.symm) hbad
      · rw [hao'.nargs] at hn
        rw [hao'.conv] at hc
        rcases valOk_store_scalar fenv a _ hkk (Or.inr hn) hv with ⟨h, _⟩ | ⟨s', h, k, t, hap, _⟩
        · cases h
        · simp only [Val.sc.injEq] at h
          subst h
          rw [hc] at hap
          have := convOfItem_conforms fenv _ k t _ hap
          simp [IConforms, BConforms] at this
      · rw [hao'.conv] at h2
        simp only [Val.sc.injEq] at h3
        subst h3
        have := convOfItem_conforms fenv _ k s0 _ h2
        simp [IConforms, BConforms] at this
    | «enum» cls' ms' _ hin' hao' =>
      rw [hin] at hin'
      simp only [NTy.sc.injEq, ITy.base.injEq, BTy.enum.injEq] at hin'
      obtain ⟨rfl, rfl⟩ := hin'
      have hkk : a.kind = .store := by rw [hk, hao'.isBool]; rfl
      have hfromdefault : ao.default = .sc (.str s) → ms.contains s = true := by
        intro h1
        rw [hao'.default] at h1
        rcases enumDefault_str _ _ h1 with h | ⟨c, h⟩
        · exact absurd (defaultVal_str _ _ h) hbad
        · cases hd : f.default with
          | missing => rw [hd] at h; cases h
          | value v =>
            rw [hd] at h
            simp only [defaultVal] at h
            subst h
            exact hdecl c hd
      rcases hcase with h1 | ⟨hv, _⟩ | ⟨s0, k, w, h1, h2, h3⟩
      · exact hfromdefault h1.symm
      · rw [hao'.nargs] at hn
        rw [hao'.choices] at hch
        rcases valOk_store_scalar fenv a _ hkk (Or.inl hn) hv with ⟨h, _⟩ | ⟨s', h, k, t, _, hcho⟩
        · cases h
        · simp only [Val.sc.injEq] at h
          subst h
          obtain ⟨u, hu, hmem⟩ := hcho ms hch
          simp only [Scalar.str.injEq] at hu
          subst hu
          exact hmem
      · rw [hao'.conv] at h2
        simp only [Conv.apply, BConv.apply, ConvOut.ok.injEq] at h2
        subst h2
        simp only [Val.sc.injEq, Scalar.str.injEq] at h3
        subst h3
        exact hfromdefault h1

/-- a string in the namespace of a Literal field is the name of one of the values -/
theorem raw_str_valid_literal (fenv : FEnv) (f : FieldSpec) (vals : List Scalar)
    (hopt : f.ty.optional = false) (hin : f.ty.inner = .literal vals)
    (hdc : ∀ v, f.default = .value v → Conforms f.ty v ∨ v = .sc .none)
    (raw : Val) (s : Str) (hr : RawCases fenv f raw) (hs : raw = .sc (.str s)) :
    ∃ v ∈ vals, literalName v = some s := by
  have hdecl : f.default = .value (.sc (.str s)) → ∃ v ∈ vals, literalName v = some s := by
    intro hd
    rcases hdc _ hd with h | h
    · simp only [Conforms, hopt, hin, NConforms] at h
      rcases h with ⟨h, _⟩ | h
      · cases h
      · exact ⟨_, h, rfl⟩
    · cases h
  subst hs
  rcases hr with h0 | ⟨ao, a, negs, hao, hk, hn, hc, hch, hcase⟩
  · exact hdecl (defaultVal_str _ _ h0.symm)
  · have hsh := argOptions_shape f ao hao
    cases hsh with
    | tuple items c hin' _ _ => rw [hin] at hin'; cases hin'
    | vtuple item hin' _ => rw [hin] at hin'; cases hin'
    | list item c hin' _ _ => rw [hin] at hin'; cases hin'
    | union alts _ hin' _ => rw [hin] at hin'; cases hin'
    | bool _ hin' _ => rw [hin] at hin'; cases hin'
    | plain b _ hin' _ _ => rw [hin] at hin'; cases hin'
    | optScalar t _ hin' _ => rw [hin] at hin'; cases hin'
    | «enum» cls' ms' _ hin' _ => rw [hin] at hin'; cases hin'
    | literal vals' names _ hin' hm hao' =>
      rw [hin] at hin'
      simp only [NTy.literal.injEq] at hin'
      subst hin'
      have hkk : a.kind = .store := by rw [hk, hao'.isBool]; rfl
      rcases hcase with h1 | ⟨hv, _⟩ | ⟨s0, k, w, h1, h2, h3⟩
      · rw [hao'.default] at h1
        exact hdecl (defaultVal_str _ _ h1.symm)
      · rw [hao'.nargs] at hn
        rw [hao'.choices] at hch
        rcases valOk_store_scalar fenv a _ hkk (Or.inl hn) hv with ⟨h, _⟩ | ⟨s', h, k, t, _, hcho⟩
        · cases h
        · simp only [Val.sc.injEq] at h
          subst h
          obtain ⟨u, hu, hmem⟩ := hcho names hch
          simp only [Scalar.str.injEq] at hu
          subst hu
          obtain ⟨x, hx, hg⟩ := mapM_mem _ vals names hm s (by simpa using hmem)
          exact ⟨x, hx, hg⟩
      · rw [hao'.conv] at h2
        simp only [Conv.apply, BConv.apply, ConvOut.ok.injEq] at h2
        subst h2
        simp only [Val.sc.injEq, Scalar.str.injEq] at h3
        subst h3
        rw [hao'.default] at h1
        exact hdecl (defaultVal_str _ _ h1)

theorem postAll_noraise (fenv : FEnv) (dest : Str) (ns : List (Str × Val)) :
    ∀ (fs : List FieldSpec) (x : Str),
      (∀ f ∈ fs, RawCases fenv f ((ns.lookup (dest ++ '.' :: f.name)).getD (defaultVal f.default))) →
      DefaultsConform fs → postAll dest ns fs ≠ .error x := by
  intro fs
  induction fs with
  | nil => intro x _ _ h; simp [postAll] at h
  | cons f rest ih =>
    intro x hall hdc h
    simp only [postAll] at h
    cases hp : postprocess f ((ns.lookup (dest ++ '.' :: f.name)).getD (defaultVal f.default)) with
    | raise e =>
      obtain ⟨hopt, s, hs, hcase⟩ := postprocess_raise_inv f _ e hp
      have hr := hall f (by simp)
      have hdf := hdc f (by simp)
      rcases hcase with ⟨cls, ms, hin, hno⟩ | ⟨vals, hin, hno⟩
      · have := raw_str_valid_enum fenv f cls ms hopt hin hdf _ s hr hs
        rw [hno] at this; cases this
      · obtain ⟨v, hv, hname⟩ := raw_str_valid_literal fenv f vals hopt hin hdf _ s hr hs
        rw [List.find?_eq_none] at hno
        exact hno v (List.mem_reverse.mpr hv) (by simp [hname])
    | ok v =>
      rw [hp] at h
      simp only at h
      cases hr : postAll dest ns rest with
      | error e =>
        exact ih e (fun g hg => hall g (by simp [hg])) (fun g hg => hdc g (by simp [hg])) hr
      | ok more => rw [hr] at h; cases h

/-- **C04 (never a traceback), the WHOLE flat pipeline including `postprocess`.** For every
    dataclass of the modelled grammar with distinct field names whose declared defaults are
    well-typed, every naming configuration and EVERY command line: `parse_args` returns an instance
    or exits — no exception escapes, neither from the engine nor from the post-processing of
    Enum / Literal fields (`self.type[raw]`, `choice_dict[raw]`). -/
theorem c04_no_traceback_pipeline (fenv : FEnv) (cfg : Cfg) (dest : Str) (fs : List FieldSpec)
    (argv : List Str) (hnd : (fs.map (·.name)).Nodup) (hdc : DefaultsConform fs) (x : Str) :
    parseFlat fenv cfg dest fs argv ≠ .raise x := by
  intro h
  unfold parseFlat at h
  cases htbl : tableOf cfg dest fs with
  | none => rw [htbl] at h; cases h
  | some tbl =>
    rw [htbl] at h
    simp only at h
    cases hr : runStrict fenv tbl (tbl.map (fun _ => 0)) argv with
    | ok ns ex cs' =>
      rw [hr] at h
      simp only at h
      cases hp : postAll dest ns fs with
      | ok r => rw [hp] at h; cases h
      | error e =>
        have hns := c04_sound_positions fenv tbl _ argv ns ex cs' (aligned_zeros tbl)
          (runStrict_ok_run fenv tbl _ argv ns ex cs' hr)
        exact postAll_noraise fenv dest ns fs e
          (fun f hf => field_raw_cases fenv cfg dest fs tbl htbl hnd ns hns f hf) hdc hp
    | exit c k => rw [hr] at h; cases h
    | raise e =>
      exact c04_no_traceback_flat fenv cfg dest fs tbl htbl _ argv e hr
    | unmodelled w => rw [hr] at h; cases h

/-- the unrestricted statement (no hypothesis on the declared defaults) … -/
def NoTracebackPipeline : Prop :=
  ∀ (fenv : FEnv) (cfg : Cfg) (dest : Str) (fs : List FieldSpec) (argv : List Str) (x : Str),
    (fs.map (·.name)).Nodup → parseFlat fenv cfg dest fs argv ≠ .raise x

def colorField (d : DefaultV) : FieldSpec :=
  { name := "color".toList,
    ty := { inner := .sc (.base (.enum "Color".toList ["RED".toList, "GREEN".toList])), optional := false },
    default := d }

theorem parseFlat_color_purple :
    parseFlat [] { dash := .underscore, gen := .flat, nest := .default } "c".toList
      [colorField (.value (.sc (.str "PURPLE".toList)))] [] = .raise "KeyError".toList := by
  rfl

/-- … is FALSE for the code as it is: `color: Color = "PURPLE"` (a string default that is no member
    name) makes the EMPTY command line raise `KeyError` from `postprocess` (`self.type[raw]`,
    field_wrapper.py) instead of exiting with status 2 — finding C04-str-default-keyerror. The
    exclusion `DefaultsConform` of `c04_no_traceback_pipeline` is exactly what rules this out. -/
theorem c04_default_keyerror_witness : ¬ NoTracebackPipeline := by
  intro h
  exact h [] { dash := .underscore, gen := .flat, nest := .default } "c".toList
    [colorField (.value (.sc (.str "PURPLE".toList)))] [] "KeyError".toList (by simp [colorField])
    parseFlat_color_purple

/-- non-vacuity of `DefaultsConform` / `c04_no_traceback_pipeline` / `c04_conforms_flat`: the same
    field with the member default `Color.RED` -/
example : DefaultsConform [colorField (.value (.sc (.enum "Color".toList "RED".toList)))] := by
  intro f hf v hv
  simp only [List.mem_singleton] at hf
  subst hf
  simp only [colorField, DefaultV.value.injEq] at hv
  subst hv
  left; right
  simp [colorField, NConforms, IConforms, BConforms]

/-! ### 11. non-vacuity: every new theorem instantiated on concrete command lines -/

theorem demoTbl_noRaise : NoRaiseTbl demoTbl :=
  ⟨by intro a ha cs; simp [demoTbl, helpAct] at ha; rcases ha with h | h | h <;> subst h <;> simp,
   by intro a ha negs hk; simp [demoTbl, helpAct] at ha; rcases ha with h | h | h <;> subst h <;> simp at hk⟩

/-- a table as simple-parsing builds it for `flag: bool = False; t: Tuple[int, str] = None` -/
def flagTbl : List Act :=
  [ helpAct,
    { opts := ["--flag".toList, "--noflag".toList], dest := "c.flag".toList,
      kind := .boolOpt ["--noflag".toList], nargs := .opt, conv := .base .bool, choices := none,
      required := false, default := some (.sc (.bool false)) },
    { opts := ["--t".toList], dest := "c.t".toList, kind := .store, nargs := .num 2,
      conv := .tupleCounter [.int, .str], choices := none, required := false,
      default := some (.sc .none) } ]

theorem flagTbl_noRaise : NoRaiseTbl flagTbl :=
  ⟨by intro a ha cs; simp [flagTbl, helpAct] at ha; rcases ha with h | h | h <;> subst h <;> simp
      <;> (intro h; subst h; simp),
   by intro a ha negs hk; simp [flagTbl, helpAct] at ha; rcases ha with h | h | h <;> subst h <;> simp at hk ⊢⟩

theorem flagTbl_aligned : Aligned flagTbl [0, 0, 0] := ⟨rfl, by
  intro i act bs h hc hn
  match i, h with
  | 0, h => simp
  | 1, h => simp
  | 2, h => simp
  | _ + 3, h => simp [flagTbl] at h⟩

/-- the dead branches: a help request exits 0 and has its token; a non-ASCII digit is the only kind
    of "unmodelled" -/
example : runStrict [] demoTbl [0, 0, 0] ["--he".toList] = .exit 0 .help := by decide
example : runStrict [] demoTbl [0, 0, 0] ["--n".toList, "١".toList] =
    .unmodelled "type conversion outside the modelled fragment" := by decide
example : ConversionWhy "type conversion outside the modelled fragment" :=
  c04_unmodelled_reasons [] demoTbl [0, 0, 0] ["--n".toList, "١".toList] _ (by decide)

theorem noHelp_of_lex (tbl : List Act) (argv : List Str) (toks : List Tok)
    (hlex : lexAll tbl argv = .ok toks)
    (h : ∀ t ∈ toks, ∀ i o ex, t = Tok.O (some i) o ex → ∀ act, tbl[i]? = some act → act.kind ≠ .help) :
    NoHelpToken tbl argv := by
  intro toks' i o ex act hlex' hm hact
  rw [hlex] at hlex'
  cases hlex'
  exact h _ hm i o ex rfl act hact

/-- `--l a b` (required `--n` missing) IS exit status 2 — `c04_missing_required_any` composed with
    `c04_rejection_is_status2` -/
example : ∃ k, runStrict [] demoTbl [0, 0, 0] ["--l".toList, "a".toList, "b".toList] = .exit 2 k := by
  have hrej : ∀ ns ex cs',
      runStrict [] demoTbl [0, 0, 0] ["--l".toList, "a".toList, "b".toList] ≠ .ok ns ex cs' :=
    c04_missing_required_any [] demoTbl [0, 0, 0] _ (demoTbl[1]'(by decide)) 1 (by decide) rfl
      (by intro toks o e hlex
          have h2 : lexAll demoTbl ["--l".toList, "a".toList, "b".toList] =
            .ok [.O (some 2) "--l".toList none, .A, .A] := by rfl
          rw [h2] at hlex; cases hlex; simp)
  have hnh : NoHelpToken demoTbl ["--l".toList, "a".toList, "b".toList] :=
    noHelp_of_lex demoTbl _ [.O (some 2) "--l".toList none, .A, .A] rfl (by
      intro t ht i o ex he act hact
      simp only [List.mem_cons, List.not_mem_nil, or_false] at ht
      rcases ht with rfl | rfl | rfl
      · simp only [Tok.O.injEq, Option.some.injEq] at he
        obtain ⟨rfl, _, _⟩ := he
        simp only [demoTbl, List.getElem?_cons_succ, List.getElem?_cons_zero, Option.some.injEq] at hact
        subst hact
        simp
      · cases he
      · cases he)
  rcases c04_rejection_is_status2 [] demoTbl demoTbl_noRaise [0, 0, 0] _ hnh hrej with h | ⟨w, h, _⟩
  · exact h
  · have : runStrict [] demoTbl [0, 0, 0] ["--l".toList, "a".toList, "b".toList] = .exit 2 .required := by
      decide
    rw [this] at h; cases h

/-- `--t 1 a --noflag=true`: a value on the negative flag, behind a valid tuple -/
example : ∀ ns ex cs', runStrict [] flagTbl [0, 0, 0]
    (["--t".toList, "1".toList, "a".toList] ++ ("--noflag".toList ++ '=' :: "true".toList) :: []) ≠
      .ok ns ex cs' :=
  c04_negflag_eq_argv [] flagTbl flagTbl_noRaise [0, 0, 0] _ [] "--noflag".toList "true".toList 1
    "-noflag".toList (by decide) rfl (by decide) (by decide) (by decide) _ ["--noflag".toList] rfl rfl
    (by decide)

/-- `--noflag false --t 1 a`: the other spelling, in front of a valid tuple -/
example : ∀ ns ex cs', runStrict [] flagTbl [0, 0, 0]
    ["--noflag".toList, "false".toList, "--t".toList, "1".toList, "a".toList] ≠ .ok ns ex cs' :=
  c04_negflag_space_argv [] flagTbl flagTbl_noRaise [0, 0, 0] _ [] "--noflag".toList 1 "false".toList []
    ["--t".toList, "1".toList, "a".toList]
    ⟨rfl, by simp, by decide, ⟨_, rfl⟩, by decide, by intro v hv; simp at hv; subst hv; simp [NoDash]⟩
    _ ["--noflag".toList] rfl rfl (by decide)

/-- `--flag --t 1` (one value for `Tuple[int, str]`), `--t 1 a b --flag` (three), `--t=1` -/
example : ∀ ns ex cs', runStrict [] flagTbl [0, 0, 0]
    ["--flag".toList, "--t".toList, "1".toList] ≠ .ok ns ex cs' :=
  c04_arity_short_argv [] flagTbl [0, 0, 0] _ ["--flag".toList] "--t".toList 2 ["1".toList] []
    ⟨rfl, by decide, by decide, ⟨_, rfl⟩, by decide, by intro v hv; simp at hv; subst hv; simp [NoDash]⟩
    (by intro p ps h; cases h) _ 2 rfl rfl (by decide)

example : ∀ ns ex cs', runStrict [] flagTbl [0, 0, 0]
    ["--t".toList, "1".toList, "a".toList, "b".toList, "--flag".toList] ≠ .ok ns ex cs' :=
  c04_arity_long_argv [] flagTbl [0, 0, 0] _ [] "--t".toList 2 ["1".toList, "a".toList, "b".toList]
    ["--flag".toList]
    ⟨rfl, by simp, by decide, ⟨_, rfl⟩, by decide,
      by intro v hv; simp at hv; rcases hv with rfl | rfl | rfl <;> simp [NoDash]⟩
    _ 2 rfl rfl (by decide)

example : ∀ ns ex cs', runStrict [] flagTbl [0, 0, 0] ["--t=1".toList] ≠ .ok ns ex cs' :=
  c04_arity_eq_rejected [] flagTbl [0, 0, 0] _ [.O (some 2) "--t".toList (some "1".toList)] rfl
    "--t=1".toList 2 "--t".toList "1".toList _ 2 (by simp) rfl rfl (by decide)

/-- `--l a b --n abc`: an ill-typed token for `int`, behind a valid option -/
example : ∀ ns ex cs', runStrict [] demoTbl [0, 0, 0]
    ["--l".toList, "a".toList, "b".toList, "--n".toList, "abc".toList] ≠ .ok ns ex cs' :=
  c04_bad_value_argv [] demoTbl [0, 0, 0] _ ["--l".toList, "a".toList, "b".toList] "--n".toList 1
    ["abc".toList] []
    ⟨rfl, by decide, by decide, ⟨_, rfl⟩, by decide, by intro v hv; simp at hv; subst hv; simp [NoDash]⟩
    _ rfl 0 "abc".toList rfl rfl (never_int [] _ 1 _ rfl (by decide))

example : ∀ ns ex cs', runStrict [] demoTbl [0, 0, 0] ["--n=1.5".toList] ≠ .ok ns ex cs' :=
  c04_bad_value_eq_rejected [] demoTbl [0, 0, 0] _ [.O (some 1) "--n".toList (some "1.5".toList)] rfl
    "--n=1.5".toList 1 "--n".toList "1.5".toList _ (by simp) rfl (never_int [] _ 1 _ rfl (by decide))

/-- `--t 1 a --t b 2`: the SECOND occurrence has a string where `Tuple[int, str]` wants its int —
    `b` would be fine at position 1, and the closure counter stands at 2 when it is converted; the
    alignment invariant is what selects `int` for it -/
example : ∀ ns ex cs', runStrict [] flagTbl [0, 0, 0]
    ["--t".toList, "1".toList, "a".toList, "--t".toList, "b".toList, "2".toList] ≠ .ok ns ex cs' :=
  c04_hetero_bad_argv [] flagTbl [0, 0, 0] flagTbl_aligned _ ["--t".toList, "1".toList, "a".toList]
    "--t".toList 2 ["b".toList, "2".toList] []
    ⟨rfl, by decide, by decide, ⟨_, rfl⟩, by decide,
      by intro v hv; simp at hv; rcases hv with rfl | rfl <;> simp [NoDash]⟩
    _ [.int, .str] rfl rfl rfl 0 "b".toList .int rfl rfl
    (by intro v h; have : BConv.apply [] .int "b".toList = .typeErr := by decide
        rw [this] at h; cases h)

/-- `--n 1 --zzz`: an unknown long option, the lexer's verdict derived from the spelling -/
example : ∀ ns ex cs', runStrict [] demoTbl [0, 0, 0]
    (["--n".toList, "1".toList] ++ "--zzz".toList :: []) ≠ .ok ns ex cs' :=
  c04_unknown_long_rejected [] demoTbl [0, 0, 0] ["--n".toList, "1".toList] [] "zzz".toList (by decide)
    (by decide) (by decide) (by decide) (by decide)

/-- the stored-value invariant now refuses a 3-item list for `Tuple[int, str]` (nargs = 2) … -/
example : ¬ ValOk [] (tupTbl[0]'(by decide)) (.list [.str "a".toList, .str "b".toList, .str "c".toList]) := by
  simp [ValOk, tupTbl, ListArity]

/-- … and `None` for a `nargs=None` action -/
example : ¬ ValOk [] (demoTbl[1]'(by decide)) (.sc .none) := by
  simp [ValOk, demoTbl, ListArity, InRange, Conv.apply]
  intro t h
  have := conv_int_range [] t _ h
  simp at this

/-- `c04_conforms_flat` on a concrete dataclass `t: Tuple[int, str] = (0, "z"); color: Color = RED`:
    the accepted command line `--t 5 x --color GREEN` -/
def demoFields : List FieldSpec :=
  [ { name := "t".toList, ty := { inner := .tuple [.base .int, .base .str], optional := false },
      default := .value (.tuple [.int 0, .str "z".toList]) },
    colorField (.value (.sc (.enum "Color".toList "RED".toList))) ]

example : parseFlat [] { dash := .underscore, gen := .flat, nest := .default } "c".toList demoFields
    ["-t".toList, "5".toList, "x".toList, "--color".toList, "GREEN".toList] =
    .ok [("t".toList, .tuple [.int 5, .str "x".toList]),
         ("color".toList, .sc (.enum "Color".toList "GREEN".toList))] := by rfl

example : FieldsOk [] demoFields
    [("t".toList, .tuple [.int 5, .str "x".toList]),
     ("color".toList, .sc (.enum "Color".toList "GREEN".toList))] :=
  c04_conforms_flat [] { dash := .underscore, gen := .flat, nest := .default } "c".toList demoFields
    ["-t".toList, "5".toList, "x".toList, "--color".toList, "GREEN".toList] _
    (by simp [demoFields, colorField]) (by rfl)

/-! #### with well-typed declared defaults, EVERY field conforms to its annotation -/

theorem postprocess_none (f : FieldSpec) (v : Val) (h : postprocess f (.sc .none) = .ok v) :
    v = .sc .none := by
  obtain ⟨name, ⟨inner, opt⟩, d, als⟩ := f
  cases opt with
  | true =>
    cases inner <;> simp [postprocess, listToTuple] at h <;> exact h.symm
  | false =>
    cases inner with
    | sc t =>
      cases t with
      | union alts => simp [postprocess] at h; exact h.symm
      | base b => cases b <;> simp [postprocess] at h <;> exact h.symm
    | literal vals => simp [postprocess] at h; exact h.symm
    | list item => simp [postprocess, tupleToList] at h; exact h.symm
    | tuple items => simp [postprocess, listToTuple] at h; exact h.symm
    | vtuple item => simp [postprocess, listToTuple] at h; exact h.symm

/-- `postprocess` maps a conforming raw value to a conforming field value -/
theorem postprocess_conforms (f : FieldSpec) (d v : Val) (hc : Conforms f.ty d)
    (h : postprocess f d = .ok v) : Conforms f.ty v := by
  rcases hc with ⟨hopt, rfl⟩ | hn
  · exact Or.inl ⟨hopt, postprocess_none f v h⟩
  · right
    cases hin : f.ty.inner with
    | sc t =>
      rw [hin] at hn
      cases d with
      | sc s =>
        simp only [NConforms] at hn
        cases hopt : f.ty.optional with
        | false =>
          rw [postprocess_sc_id f t s hopt hin hn] at h
          simp only [PostOut.ok.injEq] at h; subst h
          exact hn
        | true =>
          unfold postprocess at h
          rw [hopt, hin] at h
          simp only [PostOut.ok.injEq] at h; subst h
          exact hn
      | list l => simp [NConforms] at hn
      | tuple l => simp [NConforms] at hn
    | literal vals =>
      rw [hin] at hn
      cases d with
      | sc s =>
        simp only [NConforms] at hn
        cases hopt : f.ty.optional with
        | true =>
          unfold postprocess at h
          rw [hopt, hin] at h
          simp only [PostOut.ok.injEq] at h; subst h
          exact hn
        | false =>
          unfold postprocess at h
          rw [hopt, hin] at h
          simp only at h
          split at h
          · rename_i u
            split at h
            · rename_i w hw
              simp only [PostOut.ok.injEq] at h; subst h
              exact List.mem_reverse.mp (List.mem_of_find?_eq_some hw)
            · cases h
          · simp only [PostOut.ok.injEq] at h; subst h
            exact hn
      | list l => simp [NConforms] at hn
      | tuple l => simp [NConforms] at hn
    | list item =>
      rw [hin] at hn
      cases d with
      | sc s => simp [NConforms] at hn
      | tuple l => simp [NConforms] at hn
      | list l =>
        have : v = .list l := by
          unfold postprocess at h
          rw [hin] at h
          cases hopt : f.ty.optional <;> rw [hopt] at h <;>
            simp only [tupleToList_list, PostOut.ok.injEq] at h <;> exact h.symm
        subst this
        exact hn
    | tuple items =>
      rw [hin] at hn
      cases d with
      | sc s => simp [NConforms] at hn
      | list l => simp [NConforms] at hn
      | tuple l =>
        have : v = .tuple l := by
          unfold postprocess at h
          rw [hin] at h
          cases hopt : f.ty.optional <;> rw [hopt] at h <;>
            simp only [listToTuple, PostOut.ok.injEq] at h <;> exact h.symm
        subst this
        exact hn
    | vtuple item =>
      rw [hin] at hn
      cases d with
      | sc s => simp [NConforms] at hn
      | list l => simp [NConforms] at hn
      | tuple l =>
        have : v = .tuple l := by
          unfold postprocess at h
          rw [hin] at h
          cases hopt : f.ty.optional <;> rw [hopt] at h <;>
            simp only [listToTuple, PostOut.ok.injEq] at h <;> exact h.symm
        subst this
        exact hn

theorem defaultVal_conforms (f : FieldSpec)
    (hdc : ∀ d, f.default = .value d → Conforms f.ty d ∨ d = .sc .none) :
    Conforms f.ty (defaultVal f.default) ∨ defaultVal f.default = .sc .none := by
  cases hd : f.default with
  | missing => exact Or.inr rfl
  | value d => exact hdc d hd

/-- what a field receives from its (well-typed) declared default conforms to the annotation, or is
    the `None` of a field declared `= None` / without default -/
theorem fromDefault_conforms (fenv : FEnv) (f : FieldSpec) (v : Val)
    (hdc : ∀ d, f.default = .value d → Conforms f.ty d ∨ d = .sc .none)
    (h : FromDefault fenv f v) : Conforms f.ty v ∨ v = .sc .none := by
  obtain ⟨raw, hpost, hraw⟩ := h
  -- the declared default itself
  have hdecl : raw = defaultVal f.default → Conforms f.ty v ∨ v = .sc .none := by
    intro h0
    subst h0
    rcases defaultVal_conforms f hdc with hc | hn
    · exact Or.inl (postprocess_conforms f _ v hc hpost)
    · rw [hn] at hpost; exact Or.inr (postprocess_none f v hpost)
  -- a conforming scalar of a scalar field
  have hscalar : ∀ t w, f.ty.inner = .sc t → IConforms t w → raw = .sc w → Conforms f.ty v := by
    intro t w hin hcw hr
    subst hr
    exact postprocess_conforms f _ v (Or.inr (by rw [hin]; exact hcw)) hpost
  rcases hraw with h0 | ⟨ao, hao, h1 | ⟨s, k, w, h1, h2, h3⟩⟩
  · exact hdecl h0
  · -- the default as handed to argparse
    have hsh := argOptions_shape f ao hao
    cases hsh with
    | literal _ _ _ _ _ hao' => exact hdecl (h1.trans hao'.default)
    | tuple _ _ _ _ hao' => exact hdecl (h1.trans hao'.default)
    | vtuple _ _ hao' => exact hdecl (h1.trans hao'.default)
    | list _ _ _ _ hao' => exact hdecl (h1.trans hao'.default)
    | optScalar _ _ _ hao' => exact hdecl (h1.trans hao'.default)
    | union _ _ _ hao' => exact hdecl (h1.trans hao'.default)
    | bool _ _ hao' => exact hdecl (h1.trans hao'.default)
    | plain _ _ _ _ hao' => exact hdecl (h1.trans hao'.default)
    | «enum» cls ms hopt hin hao' =>
      rw [hao'.default] at h1
      cases hdv : defaultVal f.default with
      | list l => rw [hdv] at h1; exact hdecl (h1.trans hdv.symm)
      | tuple l => rw [hdv] at h1; exact hdecl (h1.trans hdv.symm)
      | sc sc0 =>
        cases sc0 with
        | «enum» c n =>
          rw [hdv] at h1
          simp only [enumDefault] at h1
          -- the declared default is the member `c.n`: it conforms, so `n` is a member name
          have hd : f.default = .value (.sc (.enum c n)) := by
            cases hd : f.default with
            | missing => rw [hd] at hdv; cases hdv
            | value d => rw [hd] at hdv; simp only [defaultVal] at hdv; rw [hdv]
          rcases hdc _ hd with hc | hc
          · simp only [Conforms, hopt, hin, NConforms, IConforms, BConforms] at hc
            rcases hc with ⟨hc, _⟩ | ⟨hcc, hm⟩
            · cases hc
            · subst hcc
              left; right
              subst h1
              unfold postprocess at hpost
              rw [hopt, hin] at hpost
              have hm' : ms.contains n = true := by simpa using hm
              simp only [hm', ↓reduceIte, PostOut.ok.injEq] at hpost
              subst hpost
              rw [hin]
              simp only [NConforms, IConforms, BConforms, true_and]
              exact hm
          · cases hc
        | int i => rw [hdv] at h1; exact hdecl (h1.trans hdv.symm)
        | float r => rw [hdv] at h1; exact hdecl (h1.trans hdv.symm)
        | str u => rw [hdv] at h1; exact hdecl (h1.trans hdv.symm)
        | bool b => rw [hdv] at h1; exact hdecl (h1.trans hdv.symm)
        | none => rw [hdv] at h1; exact hdecl (h1.trans hdv.symm)
        | path u => rw [hdv] at h1; exact hdecl (h1.trans hdv.symm)
  · -- a string default that argparse ran through `type=`
    have hsh := argOptions_shape f ao hao
    have hstrdecl : ao.default = defaultVal f.default → f.default = .value (.sc (.str s)) := by
      intro he; rw [he] at h1; exact defaultVal_str _ _ h1
    -- a string default never conforms to a container annotation
    have hnocontainer : ao.default = defaultVal f.default →
        (∀ t, f.ty.inner ≠ .sc t) → (∀ vals, f.ty.inner ≠ .literal vals) → False := by
      intro he hns hnl
      rcases hdc _ (hstrdecl he) with hc | hc
      · rcases hc with ⟨_, hc⟩ | hc
        · cases hc
        · cases hin : f.ty.inner with
          | sc t => exact hns t hin
          | literal vals => exact hnl vals hin
          | list item => rw [hin] at hc; simp [NConforms] at hc
          | tuple items => rw [hin] at hc; simp [NConforms] at hc
          | vtuple item => rw [hin] at hc; simp [NConforms] at hc
      · cases hc
    cases hsh with
    | literal vals names hopt hin hm hao' =>
      rw [hao'.conv] at h2
      simp only [Conv.apply, BConv.apply, ConvOut.ok.injEq] at h2
      subst h2
      exact hdecl (by rw [h3, ← h1, hao'.default])
    | tuple items c hin _ hao' =>
      exact absurd (hnocontainer hao'.default (by intro t ht; rw [hin] at ht; cases ht)
        (by intro t ht; rw [hin] at ht; cases ht)) id
    | vtuple item hin hao' =>
      exact absurd (hnocontainer hao'.default (by intro t ht; rw [hin] at ht; cases ht)
        (by intro t ht; rw [hin] at ht; cases ht)) id
    | list item c hin _ hao' =>
      exact absurd (hnocontainer hao'.default (by intro t ht; rw [hin] at ht; cases ht)
        (by intro t ht; rw [hin] at ht; cases ht)) id
    | optScalar t _ hin hao' =>
      rw [hao'.conv] at h2
      exact Or.inl (hscalar t w hin (convOfItem_conforms fenv t k s w h2) h3)
    | union alts _ hin hao' =>
      rw [hao'.conv] at h2
      exact Or.inl (hscalar _ w hin (union_conforms fenv alts s w h2) h3)
    | bool _ hin hao' =>
      rw [hao'.conv] at h2
      exact Or.inl (hscalar _ w hin (bconv_conforms fenv .bool s w h2) h3)
    | plain b _ hin _ hao' =>
      rw [hao'.conv] at h2
      exact Or.inl (hscalar _ w hin (bconv_conforms fenv b s w h2) h3)
    | «enum» cls ms hopt hin hao' =>
      -- `type=str` leaves the name alone: same as the default handed to argparse
      rw [hao'.conv] at h2
      simp only [Conv.apply, BConv.apply, ConvOut.ok.injEq] at h2
      subst h2
      have hraw' : raw = ao.default := by rw [h3, h1]
      -- reuse the previous case through `FromDefault`'s second alternative
      rw [hao'.default] at hraw'
      cases hdv : defaultVal f.default with
      | list l => rw [hdv] at hraw'; exact hdecl (hraw'.trans hdv.symm)
      | tuple l => rw [hdv] at hraw'; exact hdecl (hraw'.trans hdv.symm)
      | sc sc0 =>
        cases sc0 with
        | «enum» c n =>
          rw [hdv] at hraw'
          simp only [enumDefault] at hraw'
          have hd : f.default = .value (.sc (.enum c n)) := by
            cases hd : f.default with
            | missing => rw [hd] at hdv; cases hdv
            | value d => rw [hd] at hdv; simp only [defaultVal] at hdv; rw [hdv]
          rcases hdc _ hd with hc | hc
          · simp only [Conforms, hopt, hin, NConforms, IConforms, BConforms] at hc
            rcases hc with ⟨hc, _⟩ | ⟨hcc, hm⟩
            · cases hc
            · subst hcc
              left; right
              subst hraw'
              unfold postprocess at hpost
              rw [hopt, hin] at hpost
              have hm' : ms.contains n = true := by simpa using hm
              simp only [hm', ↓reduceIte, PostOut.ok.injEq] at hpost
              subst hpost
              rw [hin]
              simp only [NConforms, IConforms, BConforms, true_and]
              exact hm
          · cases hc
        | int i => rw [hdv] at hraw'; exact hdecl (hraw'.trans hdv.symm)
        | float r => rw [hdv] at hraw'; exact hdecl (hraw'.trans hdv.symm)
        | str u => rw [hdv] at hraw'; exact hdecl (hraw'.trans hdv.symm)
        | bool b => rw [hdv] at hraw'; exact hdecl (hraw'.trans hdv.symm)
        | none => rw [hdv] at hraw'; exact hdecl (hraw'.trans hdv.symm)
        | path u => rw [hdv] at hraw'; exact hdecl (hraw'.trans hdv.symm)

/-- field by field: the right name and a value that conforms to the annotation (or `None`) -/
def FieldsConform : List FieldSpec → List (Str × Val) → Prop
  | [], [] => True
  | f :: fs, p :: ps => p.1 = f.name ∧ (Conforms f.ty p.2 ∨ p.2 = .sc .none) ∧ FieldsConform fs ps
  | _, _ => False

theorem fieldsOk_conform (fenv : FEnv) : ∀ (fs : List FieldSpec) (fields : List (Str × Val)),
    DefaultsConform fs → FieldsOk fenv fs fields → FieldsConform fs fields
  | [], [], _, _ => trivial
  | [], _ :: _, _, h => by simp [FieldsOk] at h
  | _ :: _, [], _, h => by simp [FieldsOk] at h
  | f :: fs, p :: ps, hdc, h => by
    obtain ⟨hn, hv, hrest⟩ := h
    refine ⟨hn, ?_, fieldsOk_conform fenv fs ps (fun g hg => hdc g (by simp [hg])) hrest⟩
    rcases hv with hv | hv
    · exact Or.inl hv
    · exact fromDefault_conforms fenv f p.2 (hdc f (by simp)) hv

/-- **C04 (every field conforms), the whole flat pipeline.** If moreover the declared defaults are
    well-typed: whenever `parse_args` returns an instance, EVERY field value conforms to its
    annotation — or is `None` (a field declared `= None`, issue #132; a field without default is
    required and its absence is rejected: `c04_missing_required_any`). -/
theorem c04_conforms_flat_strict (fenv : FEnv) (cfg : Cfg) (dest : Str) (fs : List FieldSpec)
    (argv : List Str) (fields : List (Str × Val)) (hnd : (fs.map (·.name)).Nodup)
    (hdc : DefaultsConform fs) (h : parseFlat fenv cfg dest fs argv = .ok fields) :
    FieldsConform fs fields :=
  fieldsOk_conform fenv fs fields hdc (c04_conforms_flat fenv cfg dest fs argv fields hnd h)

/-- non-vacuity of `c04_conforms_flat_strict`: `demoFields` has well-typed defaults -/
theorem demoFields_defaultsConform : DefaultsConform demoFields := by
  intro f hf v hv
  simp only [demoFields, List.mem_cons, List.not_mem_nil, or_false] at hf
  rcases hf with rfl | rfl
  · simp only [DefaultV.value.injEq] at hv
    subst hv
    left; right
    simp [NConforms, TupleConforms, IConforms, BConforms]
  · simp only [colorField, DefaultV.value.injEq] at hv
    subst hv
    left; right
    simp [colorField, NConforms, IConforms, BConforms]

example : FieldsConform demoFields
    [("t".toList, .tuple [.int 5, .str "x".toList]),
     ("color".toList, .sc (.enum "Color".toList "GREEN".toList))] :=
  c04_conforms_flat_strict [] { dash := .underscore, gen := .flat, nest := .default } "c".toList
    demoFields ["-t".toList, "5".toList, "x".toList, "--color".toList, "GREEN".toList] _
    (by simp [demoFields, colorField]) demoFields_defaultsConform (by rfl)

/-- (`consume_fuel`) the loop never runs out of fuel: `run` hands it `argv.length + 1` -/
theorem consume_fuel (fenv : FEnv) (tbl : List Act) (fuel : Nat) (st : St) (l : List (Str × Tok))
    (hl : l.length ≤ fuel) : consume fenv tbl fuel st l ≠ .error (.unmodelled "fuel") := by
  intro h
  obtain ⟨a, i, o, ex, _, herr⟩ := consume_err_trace fenv tbl fuel st l _ hl h
  rcases herr with ⟨_, h1⟩ | ⟨act, hact, ⟨_, h1 | h1 | h1⟩ | ⟨hk, h1 | ⟨st1, args, ht⟩⟩⟩
  · exact absurd h1 (by decide)
  · cases h1
  · cases h1
  · exact absurd h1 (by decide)
  · cases h1
  · rcases takeAction_err_cases fenv tbl st1 i o args _ act hact hk ht with hc | hc
    · rcases hc with hc | hc | ⟨x, hc⟩ | hc
      · cases hc
      · cases hc
      · cases hc
      · exact absurd hc (by decide)
    · cases hc

/-- non-vacuity of the round-1 theorems on rendered command lines (`LexOk` / `ConsumeOk`
    instantiated): `--l a b` without the required `--n`; `--n abc` -/
example : ∀ ns ex cs', runStrict [] demoTbl [0, 0, 0]
    (render [{ idx := 2, opt := "--l".toList, toks := ["a".toList, "b".toList] }]) ≠ .ok ns ex cs' :=
  c04_missing_required [] demoTbl [0, 0, 0] _
    (by intro s hs; simp only [List.mem_singleton] at hs; subst hs
        exact ⟨by decide, ⟨_, rfl⟩, by decide, by intro t ht; simp at ht; rcases ht with rfl | rfl <;> simp [NoDash]⟩)
    (by intro s hs; simp only [List.mem_singleton] at hs; subst hs
        exact ⟨⟨_, rfl, by decide, rfl⟩⟩)
    (demoTbl[1]'(by decide)) 1 (by decide) rfl (by decide)

example : ∀ ns ex cs', runStrict [] demoTbl [0, 0, 0]
    (render [{ idx := 1, opt := "--n".toList, toks := ["abc".toList] }]) ≠ .ok ns ex cs' :=
  c04_bad_token_rejected [] demoTbl [0, 0, 0] _
    (by intro s hs; simp only [List.mem_singleton] at hs; subst hs
        exact ⟨by decide, ⟨_, rfl⟩, by decide, by intro t ht; simp at ht; subst ht; simp [NoDash]⟩)
    (by intro s hs; simp only [List.mem_singleton] at hs; subst hs
        exact ⟨⟨_, rfl, by decide, rfl⟩⟩)
    { idx := 1, opt := "--n".toList, toks := ["abc".toList] } (by simp) (demoTbl[1]'(by decide)) rfl
    "abc".toList (by simp) (never_int [] _ 1 "abc".toList rfl (by decide))

end SpVerif.C04
