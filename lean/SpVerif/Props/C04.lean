/-
  C04 — Invalid command lines are rejected with a non-zero exit; results are well-typed.

  Theorems about `Model/Engine` (argparse's optional-argument engine as simple-parsing uses it),
  quantified over EVERY argv and every action table, plus the rejection lemmas for each mutation
  class of the property's quantifier.
-/
import SpVerif.Lemmas.Engine
import SpVerif.Model.Fields
namespace SpVerif.C04
open SpVerif

/-! ### 1. the only exit statuses are 2 (error path) and 0 (an explicit help request) -/

/-- an outcome that is not a rejection with a wrong status -/
def GoodErr (tbl : List Act) : EOut → Prop
  | .exit c k => c = 2 ∨ (c = 0 ∧ k = .help ∧ ∃ a ∈ tbl, a.kind = .help)
  | .ok _ _ _ => False
  | _ => True

theorem getValue_err (tbl : List Act) (fenv : FEnv) (act : Act) (i : Nat) (cs : List Nat) (s : Str) (e : EOut)
    (h : getValue fenv act i cs s = .error e) : GoodErr tbl e := by
  unfold getValue at h
  simp only at h
  split at h
  · cases h; simp [GoodErr]
  · cases h; simp [GoodErr]
  · cases h; simp [GoodErr]
  · split at h
    · split at h
      · split at h
        · cases h
        · cases h; simp [GoodErr]
      · cases h; simp [GoodErr]
    · cases h

theorem getValuesList_err (tbl : List Act) (fenv : FEnv) (act : Act) (i : Nat) (cs : List Nat) (toks : List Str)
    (e : EOut) (h : getValuesList fenv act i cs toks = .error e) : GoodErr tbl e := by
  induction toks generalizing cs with
  | nil => simp [getValuesList] at h
  | cons t ts ih =>
    simp only [getValuesList] at h
    cases h1 : getValue fenv act i cs t with
    | error e1 => rw [h1] at h; cases h; exact getValue_err tbl fenv act i cs t e h1
    | ok p =>
      obtain ⟨v, c1⟩ := p
      rw [h1] at h
      simp only at h
      cases h2 : getValuesList fenv act i c1 ts with
      | error e2 => rw [h2] at h; cases h; exact ih c1 h2
      | ok q => rw [h2] at h; cases h

theorem map_error {α β ε : Type} (f : α → β) (x : Except ε α) (e : ε)
    (h : Except.map f x = .error e) : x = .error e := by
  cases x with
  | error e' => simpa [Except.map] using h
  | ok v => simp [Except.map] at h

theorem getValues_err (tbl : List Act) (fenv : FEnv) (act : Act) (i : Nat) (cs : List Nat) (toks : List Str)
    (e : EOut) (h : getValues fenv act i cs toks = .error e) : GoodErr tbl e := by
  unfold getValues at h
  split at h
  · cases h
  · exact getValue_err tbl _ _ _ _ _ _ (map_error _ _ _ h)
  · exact getValue_err tbl _ _ _ _ _ _ (map_error _ _ _ h)
  · exact getValuesList_err tbl _ _ _ _ _ _ (map_error _ _ _ h)

/-- a failed `take_action` is an argparse error (status 2), a help request (status 0, and then the
    table really has a help action), or an exception/unmodelled outcome — never another status -/
theorem takeAction_err (fenv : FEnv) (tbl : List Act) (st : St) (i : Nat) (o : Str)
    (args : List Str) (e : EOut) (h : takeAction fenv tbl st i o args = .error e) : GoodErr tbl e := by
  unfold takeAction at h
  cases hact : tbl[i]? with
  | none => rw [hact] at h; cases h; simp [GoodErr]
  | some act =>
    rw [hact] at h
    simp only at h
    cases hk : act.kind with
    | help =>
      rw [hk] at h; cases h
      exact Or.inr ⟨rfl, rfl, act, List.mem_of_getElem? hact, hk⟩
    | store =>
      rw [hk] at h
      simp only at h
      cases h1 : getValues fenv act i st.counters args with
      | error e1 => rw [h1] at h; cases h; exact getValues_err tbl _ _ _ _ _ _ h1
      | ok p => rw [h1] at h; cases h
    | boolOpt negs =>
      rw [hk] at h
      simp only at h
      cases h1 : getValues fenv act i st.counters args with
      | error e1 => rw [h1] at h; cases h; exact getValues_err tbl _ _ _ _ _ _ h1
      | ok p =>
        obtain ⟨v, cs⟩ := p
        rw [h1] at h
        simp only at h
        split at h
        · cases h
        · split at h
          · cases h; simp [GoodErr]
          · cases h
        · cases h; simp [GoodErr]

theorem consume_err (fenv : FEnv) (tbl : List Act) (fuel : Nat) (st : St) (l : List (Str × Tok))
    (e : EOut) (h : consume fenv tbl fuel st l = .error e) : GoodErr tbl e := by
  induction fuel generalizing st l with
  | zero =>
    cases l with
    | nil => simp [consume] at h
    | cons p ps => simp only [consume] at h; cases h; simp [GoodErr]
  | succ n ih =>
    cases l with
    | nil => simp [consume] at h
    | cons p ps =>
      obtain ⟨a, t⟩ := p
      cases t with
      | A => simp only [consume] at h; exact ih _ _ h
      | dd => simp only [consume] at h; exact ih _ _ h
      | O act o ex =>
        cases act with
        | none => simp only [consume] at h; exact ih _ _ h
        | some i =>
          cases ex with
          | some x =>
            simp only [consume] at h
            split at h
            · cases h; simp [GoodErr]
            · split at h
              · split at h
                · cases h; simp [GoodErr]
                · cases h; simp [GoodErr]
              · split at h
                · split at h
                  · cases ht : takeAction fenv tbl st i o [x] with
                    | error e1 => rw [ht] at h; cases h; exact takeAction_err _ _ _ _ _ _ _ ht
                    | ok st' => rw [ht] at h; exact ih _ _ h
                  · cases h; simp [GoodErr]
                · cases ht : takeAction fenv tbl st i o [x] with
                  | error e1 => rw [ht] at h; cases h; exact takeAction_err _ _ _ _ _ _ _ ht
                  | ok st' => rw [ht] at h; exact ih _ _ h
          | none =>
            simp only [consume] at h
            cases hact : tbl[i]? with
            | none => rw [hact] at h; cases h; simp [GoodErr]
            | some act =>
              rw [hact] at h
              simp only at h
              by_cases hk : act.kind = .help
              · simp only [hk, ↓reduceIte] at h
                cases h
                exact Or.inr ⟨rfl, rfl, act, List.mem_of_getElem? hact, hk⟩
              · simp only [hk, ↓reduceIte] at h
                split at h
                · cases h; simp [GoodErr]
                · rename_i k _
                  cases ht : takeAction fenv tbl st i o ((ps.take k).map (·.1)) with
                  | error e1 => rw [ht] at h; cases h; exact takeAction_err _ _ _ _ _ _ _ ht
                  | ok st' => rw [ht] at h; exact ih _ _ h

theorem finish_err (fenv : FEnv) (tbl : List Act) (st : St) (l : List (Act × Nat)) (e : EOut)
    (h : finish fenv tbl st l = .error e) : GoodErr tbl e := by
  induction l generalizing st with
  | nil => simp [finish] at h
  | cons p ps ih =>
    obtain ⟨a, i⟩ := p
    rw [finish] at h
    split at h
    · exact ih _ h
    · split at h
      · cases h; simp [GoodErr]
      · split at h
        · split at h
          · split at h
            · exact ih _ h
            · cases h; simp [GoodErr]
            · cases h; simp [GoodErr]
            · cases h; simp [GoodErr]
          · exact ih _ h
        · exact ih _ h

/-- **C04 (status).** For EVERY action table and EVERY argv, the engine either returns a
    namespace, or exits with status 2, or exits with status 0 for a help request — there is no
    other exit status and no "message but status 0" path. (True after the repair of the negative
    flag defect; before it `--noflag=true` exited 0.) -/
theorem c04_status (fenv : FEnv) (tbl : List Act) (cs : List Nat) (argv : List Str) (c : Nat)
    (k : ExitKind) (h : runStrict fenv tbl cs argv = .exit c k) :
    c = 2 ∨ (c = 0 ∧ k = .help ∧ ∃ a ∈ tbl, a.kind = .help) := by
  have hrun : ∀ e, run fenv tbl cs argv = e → GoodErr tbl e ∨ ∃ ns ex cs', e = .ok ns ex cs' := by
    intro e he
    unfold run at he
    dsimp only at he
    split at he
    · subst he; left; simp [GoodErr]
    · split at he
      · rename_i e1 hc; subst he; left; exact consume_err _ _ _ _ _ _ hc
      · split at he
        · rename_i e1 hf; subst he; left; exact finish_err _ _ _ _ _ hf
        · subst he; right; exact ⟨_, _, _, rfl⟩
  unfold runStrict at h
  split at h
  · cases h
  · cases h; left; rfl
  · rename_i e hne1 hne2
    rcases hrun _ rfl with hg | ⟨ns, ex, cs', hok⟩
    · rw [h] at hg; exact hg
    · rw [h] at hok; cases hok

def demoTbl : List Act :=
  [ helpAct,
    { opts := ["--n".toList], dest := "c.n".toList, kind := .store, nargs := .one, conv := .base .int,
      choices := none, required := true, default := some (.sc .none) },
    { opts := ["--l".toList], dest := "c.l".toList, kind := .store, nargs := .num 2, conv := .base .str,
      choices := some ["a".toList, "b".toList], required := false, default := some (.list []) } ]

/-! ### 2. mutation classes of the quantifier: each one is rejected, wherever it occurs -/

/-- `take_action` never touches the leftovers -/
theorem takeAction_extras (fenv : FEnv) (tbl : List Act) (st st' : St) (i : Nat) (o : Str)
    (args : List Str) (h : takeAction fenv tbl st i o args = .ok st') : st'.extras = st.extras := by
  unfold takeAction at h
  cases hact : tbl[i]? with
  | none => rw [hact] at h; cases h
  | some act =>
    rw [hact] at h
    simp only at h
    cases hk : act.kind with
    | help => rw [hk] at h; cases h
    | store =>
      rw [hk] at h
      simp only at h
      cases h1 : getValues fenv act i st.counters args with
      | error e1 => rw [h1] at h; cases h
      | ok p => rw [h1] at h; cases h; rfl
    | boolOpt negs =>
      rw [hk] at h
      simp only at h
      cases h1 : getValues fenv act i st.counters args with
      | error e1 => rw [h1] at h; cases h
      | ok p =>
        obtain ⟨v, cs⟩ := p
        rw [h1] at h
        dsimp only at h
        split at h
        · cases h; rfl
        · split at h
          · cases h
          · cases h; rfl
        · cases h

theorem matchCount_le (n : NArgs) (l : List Tok) (k : Nat) (h : matchCount n l = some k) :
    k ≤ countA l := by
  unfold matchCount at h
  cases n <;> simp at h <;> omega

theorem drop_keeps_unknown (ps : List (Str × Tok)) (k : Nat) (hk : k ≤ countA (ps.map (·.2)))
    (p : Str × Tok) (hp : p ∈ ps) (o : Str) (e : Option Str) (hpe : p.2 = Tok.O none o e) :
    p ∈ ps.drop k := by
  induction ps generalizing k with
  | nil => cases hp
  | cons q qs ih =>
    cases k with
    | zero => simpa using hp
    | succ k' =>
      obtain ⟨qa, qt⟩ := q
      cases qt with
      | A =>
        simp only [List.map_cons, countA] at hk
        rcases List.mem_cons.mp hp with hp | hp
        · subst hp; cases hpe
        · simp only [List.drop_succ_cons]
          exact ih k' (by omega) hp
      | dd => simp [countA] at hk
      | O _ _ _ => simp [countA] at hk

/-- tokens that are not consumed by an option end up among the leftovers, and leftovers never
    disappear: if the remaining input still holds a token the lexer could not attach to any action
    (`O none …`), a successful run of the loop ends with a non-empty leftover list. -/
theorem consume_unknown (fenv : FEnv) (tbl : List Act) (fuel : Nat) (st st' : St)
    (l : List (Str × Tok))
    (hu : (∃ p ∈ l, ∃ o e, p.2 = Tok.O none o e) ∨ st.extras ≠ [])
    (h : consume fenv tbl fuel st l = .ok st') : st'.extras ≠ [] := by
  induction fuel generalizing st l with
  | zero =>
    cases l with
    | nil =>
      simp only [consume, Except.ok.injEq] at h; subst h
      rcases hu with ⟨p, hp, _⟩ | hu
      · cases hp
      · exact hu
    | cons p ps => simp [consume] at h
  | succ n ih =>
    cases l with
    | nil =>
      simp only [consume, Except.ok.injEq] at h; subst h
      rcases hu with ⟨p, hp, _⟩ | hu
      · cases hp
      · exact hu
    | cons p ps =>
      obtain ⟨a, t⟩ := p
      have hrest : ∀ st2 : St, st2.extras ≠ [] → (∃ p ∈ ps, ∃ o e, p.2 = Tok.O none o e) ∨ st2.extras ≠ [] :=
        fun _ h2 => Or.inr h2
      cases t with
      | A => simp only [consume] at h; exact ih _ _ (Or.inr (by simp)) h
      | dd => simp only [consume] at h; exact ih _ _ (Or.inr (by simp)) h
      | O act o ex =>
        cases act with
        | none => simp only [consume] at h; exact ih _ _ (Or.inr (by simp)) h
        | some i =>
          -- an attached option: the unknown token is further right (or leftovers already exist)
          have hu' : (∃ p ∈ ps, ∃ o e, p.2 = Tok.O none o e) ∨ st.extras ≠ [] := by
            rcases hu with ⟨p, hp, o', e', hpe⟩ | hu
            · rcases List.mem_cons.mp hp with hp | hp
              · subst hp; cases hpe
              · exact Or.inl ⟨p, hp, o', e', hpe⟩
            · exact Or.inr hu
          cases ex with
          | some x =>
            simp only [consume] at h
            split at h
            · cases h
            · split at h
              · split at h <;> cases h
              · have step : ∀ st2, takeAction fenv tbl st i o [x] = .ok st2 →
                    consume fenv tbl n st2 ps = .ok st' → st'.extras ≠ [] := by
                  intro st2 ht hc
                  refine ih st2 ps ?_ hc
                  rcases hu' with hl | hr
                  · exact Or.inl hl
                  · exact Or.inr (by rw [takeAction_extras _ _ _ _ _ _ _ ht]; exact hr)
                split at h
                · split at h
                  · cases ht : takeAction fenv tbl st i o [x] with
                    | error e1 => rw [ht] at h; cases h
                    | ok st2 => rw [ht] at h; exact step st2 ht h
                  · cases h
                · cases ht : takeAction fenv tbl st i o [x] with
                  | error e1 => rw [ht] at h; cases h
                  | ok st2 => rw [ht] at h; exact step st2 ht h
          | none =>
            simp only [consume] at h
            cases hact : tbl[i]? with
            | none => rw [hact] at h; cases h
            | some act =>
              rw [hact] at h
              simp only at h
              by_cases hkind : act.kind = .help
              · simp only [hkind, ↓reduceIte] at h; cases h
              · simp only [hkind, ↓reduceIte] at h
                cases hm : matchCount act.nargs (ps.map (·.2)) with
                | none => rw [hm] at h; cases h
                | some k =>
                  rw [hm] at h
                  simp only at h
                  cases ht : takeAction fenv tbl st i o ((ps.take k).map (·.1)) with
                  | error e1 => rw [ht] at h; cases h
                  | ok st2 =>
                    rw [ht] at h
                    refine ih st2 (ps.drop k) ?_ h
                    rcases hu' with ⟨p, hp, o', e', hpe⟩ | hr
                    · exact Or.inl ⟨p, drop_keeps_unknown ps k (matchCount_le _ _ _ hm) p hp o' e' hpe, o', e', hpe⟩
                    · exact Or.inr (by rw [takeAction_extras _ _ _ _ _ _ _ ht]; exact hr)

theorem finish_extras (fenv : FEnv) (tbl : List Act) (st st' : St) (l : List (Act × Nat))
    (h : finish fenv tbl st l = .ok st') : st'.extras = st.extras ∧ st'.seen = st.seen := by
  induction l generalizing st with
  | nil => simp only [finish, Except.ok.injEq] at h; subst h; exact ⟨rfl, rfl⟩
  | cons p ps ih =>
    obtain ⟨a, i⟩ := p
    rw [finish] at h
    split at h
    · exact ih _ h
    · split at h
      · cases h
      · split at h
        · split at h
          · split at h
            · have := ih _ h; exact this
            · cases h
            · cases h
            · cases h
          · exact ih _ h
        · exact ih _ h

/-- **C04 (unknown option).** If anywhere on the command line there is a token the lexer can attach
    to no action (a dash-led token that is neither an option string, nor `opt=value`, nor an
    abbreviation of one, nor a negative number), `parse_args` does not succeed. -/
theorem c04_unknown_rejected (fenv : FEnv) (tbl : List Act) (cs : List Nat) (argv : List Str)
    (toks : List Tok) (hlex : lexAll tbl argv = .ok toks)
    (hu : ∃ p ∈ argv.zip toks, ∃ o e, p.2 = Tok.O none o e)
    (ns : List (Str × Val)) (ex : List Str) (cs' : List Nat) :
    runStrict fenv tbl cs argv ≠ .ok ns ex cs' := by
  intro h
  unfold runStrict at h
  cases hr : run fenv tbl cs argv with
  | ok ns2 ex2 cs2 =>
    rw [hr] at h
    cases ex2 with
    | cons x xs => simp at h
    | nil =>
      unfold run at hr
      rw [hlex] at hr
      dsimp only at hr
      cases hc : consume fenv tbl (argv.length + 1)
          { ns := initNs tbl, extras := [], seen := [], counters := cs } (argv.zip toks) with
      | error e =>
        rw [hc] at hr; dsimp only at hr; subst hr
        exact consume_err _ _ _ _ _ _ hc
      | ok st =>
        rw [hc] at hr
        dsimp only at hr
        have hne := consume_unknown fenv tbl _ _ st _ (Or.inl hu) hc
        cases hf : finish fenv tbl st tbl.zipIdx with
        | error e =>
          rw [hf] at hr; dsimp only at hr; subst hr
          exact finish_err _ _ _ _ _ hf
        | ok st2 =>
          rw [hf] at hr
          dsimp only at hr
          have := (finish_extras fenv tbl st st2 _ hf).1
          simp only [EOut.ok.injEq] at hr
          rw [← hr.2.1, this] at hne
          exact hne rfl
  | exit c k => rw [hr] at h; simp at h
  | raise e => rw [hr] at h; simp at h
  | unmodelled w => rw [hr] at h; simp at h

/-! #### missing required option -/

theorem finish_required (fenv : FEnv) (tbl : List Act) (st : St) (l : List (Act × Nat))
    (a : Act) (i : Nat) (hmem : (a, i) ∈ l) (hreq : a.required = true)
    (hns : st.seen.contains i = false) : ∃ e, finish fenv tbl st l = .error e := by
  induction l generalizing st with
  | nil => cases hmem
  | cons p ps ih =>
    obtain ⟨b, j⟩ := p
    rw [finish]
    rcases List.mem_cons.mp hmem with hp | hp
    · cases hp
      simp only [hns, Bool.false_eq_true, ↓reduceIte, hreq]
      exact ⟨_, rfl⟩
    · split
      · exact ih st hp hns
      · split
        · exact ⟨_, rfl⟩
        · split
          · split
            · split
              · exact ih _ hp hns
              · exact ⟨_, rfl⟩
              · exact ⟨_, rfl⟩
              · exact ⟨_, rfl⟩
            · exact ih st hp hns
          · exact ih st hp hns

theorem takeAction_seen (fenv : FEnv) (tbl : List Act) (st st' : St) (i : Nat) (o : Str)
    (args : List Str) (h : takeAction fenv tbl st i o args = .ok st') : st'.seen = i :: st.seen := by
  unfold takeAction at h
  cases hact : tbl[i]? with
  | none => rw [hact] at h; cases h
  | some act =>
    rw [hact] at h
    simp only at h
    cases hk : act.kind with
    | help => rw [hk] at h; cases h
    | store =>
      rw [hk] at h
      simp only at h
      cases h1 : getValues fenv act i st.counters args with
      | error e1 => rw [h1] at h; cases h
      | ok p => rw [h1] at h; cases h; rfl
    | boolOpt negs =>
      rw [hk] at h
      simp only at h
      cases h1 : getValues fenv act i st.counters args with
      | error e1 => rw [h1] at h; cases h
      | ok p =>
        obtain ⟨v, cs⟩ := p
        rw [h1] at h
        dsimp only at h
        split at h
        · cases h; rfl
        · split at h
          · cases h
          · cases h; rfl
        · cases h

theorem applySegs_seen (fenv : FEnv) (tbl : List Act) (st st' : St) (segs : List Seg)
    (h : applySegs fenv tbl st segs = .ok st') (j : Nat) (hj : st'.seen.contains j = true) :
    st.seen.contains j = true ∨ j ∈ segs.map (·.idx) := by
  induction segs generalizing st with
  | nil => simp only [applySegs, Except.ok.injEq] at h; subst h; exact Or.inl hj
  | cons s ss ih =>
    simp only [applySegs] at h
    cases ht : takeAction fenv tbl st s.idx s.opt s.toks with
    | error e => rw [ht] at h; cases h
    | ok st2 =>
      rw [ht] at h
      rcases ih st2 h with h1 | h1
      · rw [takeAction_seen _ _ _ _ _ _ _ ht] at h1
        simp only [List.contains_cons, Bool.or_eq_true, beq_iff_eq] at h1
        rcases h1 with h1 | h1
        · right; simp [h1]
        · left; exact h1
      · right; simp only [List.map_cons, List.mem_cons]; exact Or.inr h1

theorem render_len (segs : List Seg) : segs.length ≤ (render segs).length := by
  induction segs with
  | nil => simp
  | cons s ss ih =>
    simp only [render, List.flatMap_cons, renderSeg, List.length_append, List.length_cons] at ih ⊢
    omega

/-- **C04 (missing required option).** A command line of option segments that never mentions a
    required action is not accepted — whatever else is on it. -/
theorem c04_missing_required (fenv : FEnv) (tbl : List Act) (cs : List Nat) (segs : List Seg)
    (hlex : ∀ s ∈ segs, LexOk tbl s) (hcons : ∀ s ∈ segs, ConsumeOk tbl s)
    (a : Act) (i : Nat) (hmem : (a, i) ∈ tbl.zipIdx) (hreq : a.required = true)
    (hno : i ∉ segs.map (·.idx))
    (ns : List (Str × Val)) (ex : List Str) (cs' : List Nat) :
    runStrict fenv tbl cs (render segs) ≠ .ok ns ex cs' := by
  intro h
  unfold runStrict at h
  cases hr : run fenv tbl cs (render segs) with
  | ok ns2 ex2 cs2 =>
    unfold run at hr
    rw [lexAll_render tbl segs hlex] at hr
    dsimp only at hr
    have hcr := consume_render fenv tbl segs ((render segs).length + 1)
      { ns := initNs tbl, extras := [], seen := [], counters := cs }
      (by have := render_len segs; omega) hcons
    rw [hcr] at hr
    cases ha : applySegs fenv tbl { ns := initNs tbl, extras := [], seen := [], counters := cs } segs with
    | error e =>
      rw [ha] at hr; dsimp only at hr
      have := consume_err fenv tbl ((render segs).length + 1)
        { ns := initNs tbl, extras := [], seen := [], counters := cs }
        ((render segs).zip (renderToks segs)) e
      rw [hcr] at this
      have hg := this ha
      rw [hr] at hg
      exact hg
    | ok st =>
      rw [ha] at hr; dsimp only at hr
      have hseen : st.seen.contains i = false := by
        cases hb : st.seen.contains i with
        | false => rfl
        | true =>
          rcases applySegs_seen fenv tbl _ st segs ha i hb with h1 | h1
          · simp at h1
          · exact absurd h1 hno
      obtain ⟨e, he⟩ := finish_required fenv tbl st tbl.zipIdx a i hmem hreq hseen
      rw [he] at hr
      dsimp only at hr
      have hg := finish_err fenv tbl st tbl.zipIdx e he
      rw [hr] at hg
      exact hg
  | exit c k => rw [hr] at h; simp at h
  | raise e => rw [hr] at h; simp at h
  | unmodelled w => rw [hr] at h; simp at h

/-! #### ill-typed token / value outside the choices -/

/-- a token that the action's `type=`/`choices=` never lets through, whatever the closure state -/
def NeverConverts (fenv : FEnv) (act : Act) (i : Nat) (t : Str) : Prop :=
  ∀ cs, ∃ e, getValue fenv act i cs t = .error e

theorem getValuesList_bad (fenv : FEnv) (act : Act) (i : Nat) (cs : List Nat) (toks : List Str)
    (t : Str) (ht : t ∈ toks) (hbad : NeverConverts fenv act i t) :
    ∃ e, getValuesList fenv act i cs toks = .error e := by
  induction toks generalizing cs with
  | nil => cases ht
  | cons x xs ih =>
    simp only [getValuesList]
    cases hx : getValue fenv act i cs x with
    | error e => exact ⟨e, rfl⟩
    | ok p =>
      obtain ⟨v, c1⟩ := p
      simp only
      rcases List.mem_cons.mp ht with h | h
      · subst h
        obtain ⟨e, he⟩ := hbad cs
        rw [he] at hx; cases hx
      · obtain ⟨e, he⟩ := ih c1 h
        rw [he]; exact ⟨e, rfl⟩

theorem getValues_bad (fenv : FEnv) (act : Act) (i : Nat) (cs : List Nat) (toks : List Str)
    (t : Str) (ht : t ∈ toks) (hbad : NeverConverts fenv act i t) :
    ∃ e, getValues fenv act i cs toks = .error e := by
  obtain ⟨e, he⟩ := getValuesList_bad fenv act i cs toks t ht hbad
  rw [getValues_ok_iff, he]
  exact ⟨e, rfl⟩

theorem takeAction_bad (fenv : FEnv) (tbl : List Act) (st : St) (i : Nat) (o : Str)
    (args : List Str) (act : Act) (hact : tbl[i]? = some act) (t : Str) (ht : t ∈ args)
    (hbad : NeverConverts fenv act i t) : ∃ e, takeAction fenv tbl st i o args = .error e := by
  unfold takeAction
  rw [hact]
  simp only
  cases hk : act.kind with
  | help => exact ⟨_, rfl⟩
  | store =>
    simp only
    obtain ⟨e, he⟩ := getValues_bad fenv act i st.counters args t ht hbad
    rw [he]; exact ⟨e, rfl⟩
  | boolOpt negs =>
    simp only
    obtain ⟨e, he⟩ := getValues_bad fenv act i st.counters args t ht hbad
    rw [he]; exact ⟨e, rfl⟩

theorem applySegs_bad (fenv : FEnv) (tbl : List Act) (st : St) (segs : List Seg) (s : Seg)
    (hs : s ∈ segs) (act : Act) (hact : tbl[s.idx]? = some act) (t : Str) (ht : t ∈ s.toks)
    (hbad : NeverConverts fenv act s.idx t) : ∃ e, applySegs fenv tbl st segs = .error e := by
  induction segs generalizing st with
  | nil => cases hs
  | cons x xs ih =>
    simp only [applySegs]
    cases hx : takeAction fenv tbl st x.idx x.opt x.toks with
    | error e => exact ⟨e, rfl⟩
    | ok st2 =>
      simp only
      rcases List.mem_cons.mp hs with h | h
      · subst h
        obtain ⟨e, he⟩ := takeAction_bad fenv tbl st s.idx s.opt s.toks act hact t ht hbad
        rw [he] at hx; cases hx
      · exact ih st2 h

/-- **C04 (ill-typed token / out-of-set value).** If some value token of some segment can never
    pass its action's `type=` conversion and `choices=` check, the command line is not accepted —
    not coerced, not truncated, not defaulted — wherever that token stands. -/
theorem c04_bad_token_rejected (fenv : FEnv) (tbl : List Act) (cs : List Nat) (segs : List Seg)
    (hlex : ∀ s ∈ segs, LexOk tbl s) (hcons : ∀ s ∈ segs, ConsumeOk tbl s)
    (s : Seg) (hs : s ∈ segs) (act : Act) (hact : tbl[s.idx]? = some act) (t : Str)
    (ht : t ∈ s.toks) (hbad : NeverConverts fenv act s.idx t)
    (ns : List (Str × Val)) (ex : List Str) (cs' : List Nat) :
    runStrict fenv tbl cs (render segs) ≠ .ok ns ex cs' := by
  intro h
  unfold runStrict at h
  cases hr : run fenv tbl cs (render segs) with
  | ok ns2 ex2 cs2 =>
    unfold run at hr
    rw [lexAll_render tbl segs hlex] at hr
    dsimp only at hr
    have hcr := consume_render fenv tbl segs ((render segs).length + 1)
      { ns := initNs tbl, extras := [], seen := [], counters := cs }
      (by have := render_len segs; omega) hcons
    obtain ⟨e, he⟩ := applySegs_bad fenv tbl
      { ns := initNs tbl, extras := [], seen := [], counters := cs } segs s hs act hact t ht hbad
    have hg := consume_err fenv tbl ((render segs).length + 1) _ _ e (by rw [hcr]; exact he)
    rw [hcr, he] at hr
    dsimp only at hr
    rw [hr] at hg
    exact hg
  | exit c k => rw [hr] at h; simp at h
  | raise e => rw [hr] at h; simp at h
  | unmodelled w => rw [hr] at h; simp at h

/-- instances of `NeverConverts`: a token `int()` rejects; a value outside `choices` -/
theorem never_int (fenv : FEnv) (act : Act) (i : Nat) (t : Str) (hconv : act.conv = .base .int)
    (hbad : parseInt t = .typeErr) : NeverConverts fenv act i t := by
  intro cs
  unfold getValue
  simp only [hconv, Conv.apply, BConv.apply, hbad]
  exact ⟨_, rfl⟩

theorem never_choice (fenv : FEnv) (act : Act) (i : Nat) (t : Str) (hconv : act.conv = .base .str)
    (ch : List Str) (hch : act.choices = some ch) (hnot : ch.contains t = false) :
    NeverConverts fenv act i t := by
  intro cs
  unfold getValue
  simp only [hconv, Conv.apply, BConv.apply, hch, hnot]
  exact ⟨_, rfl⟩

/-! #### wrong arity for a fixed-length tuple -/

/-- too few tokens before the next option (or the end): `expected N arguments`, status 2 -/
theorem c04_arity_short (fenv : FEnv) (tbl : List Act) (fuel : Nat) (st : St) (a o : Str)
    (i m : Nat) (act : Act) (rest : List (Str × Tok)) (hact : tbl[i]? = some act)
    (hk : act.kind ≠ .help) (hn : act.nargs = .num m) (hshort : countA (rest.map (·.2)) < m) :
    consume fenv tbl (fuel + 1) st ((a, Tok.O (some i) o none) :: rest) = .error (.exit 2 .nargs) := by
  simp only [consume, hact, hk, ↓reduceIte, hn, matchCount]
  have : ¬ (countA (rest.map (·.2)) ≥ m) := by omega
  simp [this]

/-- too many tokens: exactly N are taken, the next one is a leftover, and leftovers are rejected -/
theorem c04_arity_long_take (m : Nat) (following : List Tok) (h : countA following ≥ m) :
    matchCount (.num m) following = some m := by
  simp [matchCount, h]

theorem c04_leftover_rejected (fenv : FEnv) (tbl : List Act) (fuel : Nat) (st st' : St) (a : Str)
    (rest : List (Str × Tok)) (h : consume fenv tbl (fuel + 1) st ((a, Tok.A) :: rest) = .ok st') :
    st'.extras ≠ [] := by
  simp only [consume] at h
  exact consume_unknown fenv tbl fuel _ st' rest (Or.inr (by simp)) h

/-! ### 3. type soundness: whatever is stored came out of the action's own `type=` callable -/

/-- `s` is something the action's conversion can produce (and its `choices` accept) -/
def InRange (fenv : FEnv) (act : Act) (s : Scalar) : Prop :=
  ∃ k t, act.conv.apply fenv k t = .ok s ∧
    (∀ ch, act.choices = some ch → ∃ u, s = .str u ∧ ch.contains u = true)

/-- admissible stored values of an action -/
def ValOk (fenv : FEnv) (act : Act) (v : Val) : Prop :=
  match act.kind with
  | .boolOpt _ => ∃ b, v = .sc (.bool b)
  | _ => v = .sc .none ∨ (∃ s, v = .sc s ∧ InRange fenv act s) ∨
         (∃ l, v = .list l ∧ ∀ s ∈ l, InRange fenv act s)

/-- every namespace entry is either an action's declared default or an admissible stored value -/
def NsOk (fenv : FEnv) (tbl : List Act) (ns : List (Str × Val)) : Prop :=
  ∀ p ∈ ns, ∃ a ∈ tbl, a.dest = p.1 ∧
    (a.default = some p.2 ∨ ValOk fenv a p.2 ∨
      -- a string default that argparse ran through `type=` at the end of the parse
      ∃ s k v, a.default = some (.sc (.str s)) ∧ a.conv.apply fenv k s = .ok v ∧ p.2 = .sc v)

theorem mem_setKey (ns : List (Str × Val)) (k : Str) (v : Val) (p : Str × Val)
    (h : p ∈ setKey ns k v) : p = (k, v) ∨ p ∈ ns := by
  unfold setKey at h
  split at h
  · simp only [List.mem_map] at h
    obtain ⟨q, hq, rfl⟩ := h
    split
    · left; rfl
    · right; exact hq
  · simp only [List.mem_append, List.mem_singleton] at h
    rcases h with h | h
    · right; exact h
    · left; exact h

theorem getValue_range (fenv : FEnv) (act : Act) (i : Nat) (cs cs' : List Nat) (t : Str)
    (s : Scalar) (h : getValue fenv act i cs t = .ok (s, cs')) : InRange fenv act s := by
  unfold getValue at h
  simp only at h
  split at h
  · cases h
  · cases h
  · cases h
  · rename_i v hv
    split at h
    · rename_i ch hch
      split at h
      · rename_i u
        split at h
        · rename_i hin
          simp only [Except.ok.injEq, Prod.mk.injEq] at h
          obtain ⟨rfl, _⟩ := h
          refine ⟨_, t, hv, ?_⟩
          intro ch' hch'
          rw [hch] at hch'
          cases hch'
          exact ⟨u, rfl, hin⟩
        · cases h
      · cases h
    · rename_i hnone
      simp only [Except.ok.injEq, Prod.mk.injEq] at h
      obtain ⟨rfl, _⟩ := h
      exact ⟨_, t, hv, by intro ch hch; rw [hnone] at hch; cases hch⟩

theorem getValuesList_range (fenv : FEnv) (act : Act) (i : Nat) (cs cs' : List Nat)
    (toks : List Str) (vs : List Scalar) (h : getValuesList fenv act i cs toks = .ok (vs, cs')) :
    ∀ s ∈ vs, InRange fenv act s := by
  induction toks generalizing cs cs' vs with
  | nil => simp only [getValuesList, Except.ok.injEq, Prod.mk.injEq] at h; rw [← h.1]; simp
  | cons t ts ih =>
    simp only [getValuesList] at h
    cases h1 : getValue fenv act i cs t with
    | error e => rw [h1] at h; cases h
    | ok p =>
      obtain ⟨v, c1⟩ := p
      rw [h1] at h
      simp only at h
      cases h2 : getValuesList fenv act i c1 ts with
      | error e => rw [h2] at h; cases h
      | ok q =>
        obtain ⟨vs2, c2⟩ := q
        rw [h2] at h
        simp only [Except.ok.injEq, Prod.mk.injEq] at h
        rw [← h.1]
        intro s hs
        rcases List.mem_cons.mp hs with hs | hs
        · subst hs; exact getValue_range fenv act i cs c1 t _ h1
        · exact ih c1 c2 vs2 h2 s hs

theorem segVal_cases (n : NArgs) (vs : List Scalar) :
    segVal n vs = .sc .none ∨ (∃ v ∈ vs, segVal n vs = .sc v) ∨ segVal n vs = .list vs := by
  unfold segVal
  split
  · left; rfl
  · right; left; exact ⟨_, by simp, rfl⟩
  · right; left; exact ⟨_, by simp, rfl⟩
  · right; right; rfl

theorem getValues_ok (fenv : FEnv) (act : Act) (i : Nat) (cs cs' : List Nat) (toks : List Str)
    (v : Val) (h : getValues fenv act i cs toks = .ok (v, cs')) :
    v = .sc .none ∨ (∃ s, v = .sc s ∧ InRange fenv act s) ∨
      (∃ l, v = .list l ∧ ∀ s ∈ l, InRange fenv act s) := by
  rw [getValues_ok_iff] at h
  cases h1 : getValuesList fenv act i cs toks with
  | error e => rw [h1] at h; cases h
  | ok p =>
    obtain ⟨vs, c1⟩ := p
    rw [h1] at h
    simp only [Except.ok.injEq, Prod.mk.injEq] at h
    have hr := getValuesList_range fenv act i cs c1 toks vs h1
    rw [← h.1]
    rcases segVal_cases act.nargs vs with h0 | ⟨v', hv', h0⟩ | h0
    · left; exact h0
    · right; left; exact ⟨v', h0, hr v' hv'⟩
    · right; right; exact ⟨vs, h0, hr⟩

theorem nsOk_setKey (fenv : FEnv) (tbl : List Act) (ns : List (Str × Val)) (act : Act)
    (hmem : act ∈ tbl) (v : Val) (hv : ValOk fenv act v) (h : NsOk fenv tbl ns) :
    NsOk fenv tbl (setKey ns act.dest v) := by
  intro p hp
  rcases mem_setKey ns act.dest v p hp with rfl | hp
  · exact ⟨act, hmem, rfl, Or.inr (Or.inl hv)⟩
  · exact h p hp

theorem takeAction_nsOk (fenv : FEnv) (tbl : List Act) (st st' : St) (i : Nat) (o : Str)
    (args : List Str) (h : takeAction fenv tbl st i o args = .ok st') (hns : NsOk fenv tbl st.ns) :
    NsOk fenv tbl st'.ns := by
  unfold takeAction at h
  cases hact : tbl[i]? with
  | none => rw [hact] at h; cases h
  | some act =>
    have hmem : act ∈ tbl := List.mem_of_getElem? hact
    rw [hact] at h
    simp only at h
    cases hk : act.kind with
    | help => rw [hk] at h; cases h
    | store =>
      rw [hk] at h
      simp only at h
      cases h1 : getValues fenv act i st.counters args with
      | error e1 => rw [h1] at h; cases h
      | ok p =>
        obtain ⟨v, cs⟩ := p
        rw [h1] at h
        simp only [Except.ok.injEq] at h
        subst h
        refine nsOk_setKey fenv tbl st.ns act hmem v ?_ hns
        simp only [ValOk, hk]
        exact getValues_ok fenv act i st.counters cs args v h1
    | boolOpt negs =>
      rw [hk] at h
      simp only at h
      cases h1 : getValues fenv act i st.counters args with
      | error e1 => rw [h1] at h; cases h
      | ok p =>
        obtain ⟨v, cs⟩ := p
        rw [h1] at h
        dsimp only at h
        split at h
        · simp only [Except.ok.injEq] at h; subst h
          exact nsOk_setKey fenv tbl st.ns act hmem _ (by simp only [ValOk, hk]; exact ⟨_, rfl⟩) hns
        · split at h
          · cases h
          · simp only [Except.ok.injEq] at h; subst h
            exact nsOk_setKey fenv tbl st.ns act hmem _ (by simp only [ValOk, hk]; exact ⟨_, rfl⟩) hns
        · cases h

theorem consume_nsOk (fenv : FEnv) (tbl : List Act) (fuel : Nat) (st st' : St)
    (l : List (Str × Tok)) (h : consume fenv tbl fuel st l = .ok st') (hns : NsOk fenv tbl st.ns) :
    NsOk fenv tbl st'.ns := by
  induction fuel generalizing st l with
  | zero =>
    cases l with
    | nil => simp only [consume, Except.ok.injEq] at h; subst h; exact hns
    | cons p ps => simp [consume] at h
  | succ n ih =>
    cases l with
    | nil => simp only [consume, Except.ok.injEq] at h; subst h; exact hns
    | cons p ps =>
      obtain ⟨a, t⟩ := p
      cases t with
      | A => simp only [consume] at h; exact ih _ _ h hns
      | dd => simp only [consume] at h; exact ih _ _ h hns
      | O act o ex =>
        cases act with
        | none => simp only [consume] at h; exact ih _ _ h hns
        | some i =>
          cases ex with
          | some x =>
            simp only [consume] at h
            split at h
            · cases h
            · split at h
              · split at h <;> cases h
              · split at h
                · split at h
                  · cases ht : takeAction fenv tbl st i o [x] with
                    | error e1 => rw [ht] at h; cases h
                    | ok st2 => rw [ht] at h; exact ih _ _ h (takeAction_nsOk _ _ _ _ _ _ _ ht hns)
                  · cases h
                · cases ht : takeAction fenv tbl st i o [x] with
                  | error e1 => rw [ht] at h; cases h
                  | ok st2 => rw [ht] at h; exact ih _ _ h (takeAction_nsOk _ _ _ _ _ _ _ ht hns)
          | none =>
            simp only [consume] at h
            cases hact : tbl[i]? with
            | none => rw [hact] at h; cases h
            | some act =>
              rw [hact] at h
              simp only at h
              by_cases hkind : act.kind = .help
              · simp only [hkind, ↓reduceIte] at h; cases h
              · simp only [hkind, ↓reduceIte] at h
                cases hm : matchCount act.nargs (ps.map (·.2)) with
                | none => rw [hm] at h; cases h
                | some k =>
                  rw [hm] at h
                  simp only at h
                  cases ht : takeAction fenv tbl st i o ((ps.take k).map (·.1)) with
                  | error e1 => rw [ht] at h; cases h
                  | ok st2 => rw [ht] at h; exact ih _ _ h (takeAction_nsOk _ _ _ _ _ _ _ ht hns)

theorem initNs_nsOk (fenv : FEnv) (tbl : List Act) : NsOk fenv tbl (initNs tbl) := by
  unfold initNs
  have : ∀ (l : List Act) (ns : List (Str × Val)), (∀ a ∈ l, a ∈ tbl) → NsOk fenv tbl ns →
      NsOk fenv tbl (l.foldl (fun ns a => match a.default with
        | some d => if ns.any (fun p => p.1 = a.dest) then ns else ns ++ [(a.dest, d)]
        | none => ns) ns) := by
    intro l
    induction l with
    | nil => intro ns _ h; exact h
    | cons a as ih =>
      intro ns hsub h
      simp only [List.foldl_cons]
      apply ih _ (fun x hx => hsub x (by simp [hx]))
      cases hd : a.default with
      | none => exact h
      | some d =>
        simp only
        split
        · exact h
        · intro p hp
          simp only [List.mem_append, List.mem_singleton] at hp
          rcases hp with hp | rfl
          · exact h p hp
          · exact ⟨a, hsub a (by simp), rfl, Or.inl hd⟩
  exact this tbl [] (fun _ h => h) (by intro p hp; cases hp)

theorem finish_nsOk (fenv : FEnv) (tbl : List Act) (st st' : St) (l : List (Act × Nat))
    (hl : ∀ p ∈ l, p.1 ∈ tbl) (h : finish fenv tbl st l = .ok st') (hns : NsOk fenv tbl st.ns) :
    NsOk fenv tbl st'.ns := by
  induction l generalizing st with
  | nil => simp only [finish, Except.ok.injEq] at h; subst h; exact hns
  | cons p ps ih =>
    obtain ⟨a, i⟩ := p
    have hl' : ∀ q ∈ ps, q.1 ∈ tbl := fun q hq => hl q (by simp [hq])
    have ha : a ∈ tbl := hl (a, i) (by simp)
    rw [finish] at h
    split at h
    · exact ih _ hl' h hns
    · split at h
      · cases h
      · split at h
        · rename_i s hdef
          split at h
          · split at h
            · rename_i v hv
              refine ih _ hl' h ?_
              intro p hp
              rcases mem_setKey st.ns a.dest (.sc v) p hp with rfl | hp
              · exact ⟨a, ha, rfl, Or.inr (Or.inr ⟨s, _, v, hdef, hv, rfl⟩)⟩
              · exact hns p hp
            · cases h
            · cases h
            · cases h
          · exact ih _ hl' h hns
        · exact ih _ hl' h hns

/-- **C04 (well-typed results).** For EVERY argv: whenever the engine returns a namespace, each
    entry is (i) the declared default of an action with that destination, or (ii) a value produced
    by that action's own `type=` callable and accepted by its `choices` (a scalar, `None` for a bare
    `nargs='?'` option, or a list of such scalars; a bool for a boolean flag), or (iii) a string
    default run through `type=`. No raw, unconverted or partially converted token is ever stored. -/
theorem c04_sound (fenv : FEnv) (tbl : List Act) (cs : List Nat) (argv : List Str)
    (ns : List (Str × Val)) (ex : List Str) (cs' : List Nat)
    (h : run fenv tbl cs argv = .ok ns ex cs') : NsOk fenv tbl ns := by
  unfold run at h
  cases hlex : lexAll tbl argv with
  | error e => rw [hlex] at h; cases h
  | ok toks =>
    rw [hlex] at h
    dsimp only at h
    cases hc : consume fenv tbl (argv.length + 1)
        { ns := initNs tbl, extras := [], seen := [], counters := cs } (argv.zip toks) with
    | error e =>
      rw [hc] at h; dsimp only at h
      have := consume_err _ _ _ _ _ _ hc
      rw [h] at this; exact absurd this (by simp [GoodErr])
    | ok st =>
      rw [hc] at h; dsimp only at h
      have h1 := consume_nsOk fenv tbl _ _ st _ hc (initNs_nsOk fenv tbl)
      cases hf : finish fenv tbl st tbl.zipIdx with
      | error e =>
        rw [hf] at h; dsimp only at h
        have := finish_err _ _ _ _ _ hf
        rw [h] at this; exact absurd this (by simp [GoodErr])
      | ok st2 =>
        rw [hf] at h; dsimp only at h
        simp only [EOut.ok.injEq] at h
        rw [← h.1]
        exact finish_nsOk fenv tbl st st2 tbl.zipIdx
          (fun p hp => List.fst_mem_of_mem_zipIdx hp) hf h1

/-- what the converters can produce, per base type: an `int` option only ever yields ints, … -/
theorem conv_int_range (fenv : FEnv) (s : Str) (v : Scalar) (h : BConv.apply fenv .int s = .ok v) :
    ∃ i, v = .int i := by
  simp only [BConv.apply, parseInt] at h
  split at h
  · cases h
  · split at h <;> (split at h <;> first | (cases h; exact ⟨_, rfl⟩) | cases h)

theorem conv_bool_range (fenv : FEnv) (s : Str) (v : Scalar) (h : BConv.apply fenv .bool s = .ok v) :
    ∃ b, v = .bool b := by
  simp only [BConv.apply] at h
  split at h
  · cases h; exact ⟨_, rfl⟩
  · cases h

theorem conv_float_range (fenv : FEnv) (s : Str) (v : Scalar) (h : BConv.apply fenv .float s = .ok v) :
    ∃ r, v = .float r := by
  simp only [BConv.apply] at h
  split at h
  · cases h; exact ⟨_, rfl⟩
  · cases h
  · cases h

theorem conv_enum_range (fenv : FEnv) (cls : Str) (ms : List Str) (s : Str) (v : Scalar)
    (h : BConv.apply fenv (.enumName cls ms) s = .ok v) : ∃ m, v = .enum cls m ∧ m ∈ ms := by
  simp only [BConv.apply] at h
  split at h
  · rename_i hm; cases h; exact ⟨s, rfl, by simpa using hm⟩
  · cases h

/-! ### 4. never a traceback (full since the repair of the `parse_tuple` counter, fix b1a5942) -/

/-- the unrestricted statement over arbitrary tables … -/
def NoTraceback : Prop :=
  ∀ (fenv : FEnv) (tbl : List Act) (argv : List Str) (e : Str),
    runStrict fenv tbl (tbl.map (fun _ => 0)) argv ≠ .raise e

def tupTbl : List Act :=
  [ { opts := ["--t".toList], dest := "c.t".toList, kind := .store, nargs := .num 2,
      conv := .tupleCounter [.int, .str], choices := none, required := false,
      default := some (.sc .none) } ]

/-- regression (finding C04-hetero-tuple-option-twice, repaired by b1a5942): `--t 1 a --t 2 b` on
    a `Tuple[int, str]` field raised IndexError from the closure counter; now the last occurrence
    wins and the counter is back at a multiple of the arity -/
example : runStrict [] tupTbl (tupTbl.map (fun _ => 0))
      ["--t".toList, "1".toList, "a".toList, "--t".toList, "2".toList, "b".toList]
    = .ok [("c.t".toList, .list [.int 2, .str "b".toList])] [] [4] := by decide

/-- the well-formedness every table built by simple-parsing has: a `parse_tuple` closure is over
    at least one item type (`parse_tuple(())` substitutes `(Any, ...)`), and boolean actions are the
    ones simple-parsing builds (`nargs='?'`, `type=str2bool`) -/
structure NoRaiseTbl (tbl : List Act) : Prop where
  stateless : ∀ a ∈ tbl, ∀ cs, a.conv = .tupleCounter cs → cs ≠ []
  boolwf : ∀ a ∈ tbl, ∀ negs, a.kind = .boolOpt negs → a.nargs = .opt ∧ a.conv = .base .bool

/-- the only way the model can raise from a converter: a closure over no item type at all — which
    the unrestricted statement does not exclude -/
theorem c04_no_traceback_illformed_witness : ¬ NoTraceback := by
  intro h
  exact h [] [ { opts := ["--t".toList], dest := "c.t".toList, kind := .store, nargs := .num 1,
                 conv := .tupleCounter [], choices := none, required := false,
                 default := some (.sc .none) } ] ["--t".toList, "1".toList]
    "IndexError".toList (by decide)

def NoRaise : EOut → Prop
  | .raise _ => False
  | _ => True

theorem bconv_noraise (fenv : FEnv) (b : BConv) (s : Str) (x : Str) : b.apply fenv s ≠ .raise x := by
  cases b <;> simp only [BConv.apply, parseInt, parsePath]
  · split
    · simp
    · split <;> (split <;> simp)
  · split <;> simp
  · simp
  · split <;> simp
  · split
    · simp
    · split <;> simp
  · simp
  · split <;> simp

theorem union_noraise (fenv : FEnv) (cs : List BConv) (s : Str) (x : Str) :
    unionApply fenv cs s ≠ .raise x := by
  induction cs with
  | nil => simp [unionApply]
  | cons c cs ih =>
    simp only [unionApply]
    split
    · simp
    · simp
    · exact ih

theorem conv_noraise (fenv : FEnv) (c : Conv) (k : Nat) (s : Str) (x : Str)
    (h : ∀ cs, c = .tupleCounter cs → cs ≠ []) : c.apply fenv k s ≠ .raise x := by
  cases c with
  | base b => exact bconv_noraise fenv b s x
  | union cs => exact union_noraise fenv cs s x
  | tupleCounter cs =>
    have hne := h cs rfl
    have hlt : k % cs.length < cs.length := Nat.mod_lt _ (List.length_pos_iff.mpr hne)
    simp only [Conv.apply, List.getElem?_eq_getElem hlt]
    exact bconv_noraise fenv _ s x

theorem getValue_noraise (fenv : FEnv) (act : Act) (i : Nat) (cs : List Nat) (s : Str) (e : EOut)
    (hs : ∀ c, act.conv = .tupleCounter c → c ≠ []) (h : getValue fenv act i cs s = .error e) : NoRaise e := by
  unfold getValue at h
  simp only at h
  split at h
  · cases h; simp [NoRaise]
  · rename_i x hx; exact absurd hx (conv_noraise fenv act.conv _ s x hs)
  · cases h; simp [NoRaise]
  · split at h
    · split at h
      · split at h
        · cases h
        · cases h; simp [NoRaise]
      · cases h; simp [NoRaise]
    · cases h

theorem getValuesList_noraise (fenv : FEnv) (act : Act) (i : Nat) (cs : List Nat) (toks : List Str)
    (e : EOut) (hs : ∀ c, act.conv = .tupleCounter c → c ≠ [])
    (h : getValuesList fenv act i cs toks = .error e) : NoRaise e := by
  induction toks generalizing cs with
  | nil => simp [getValuesList] at h
  | cons t ts ih =>
    simp only [getValuesList] at h
    cases h1 : getValue fenv act i cs t with
    | error e1 => rw [h1] at h; cases h; exact getValue_noraise fenv act i cs t e hs h1
    | ok p =>
      obtain ⟨v, c1⟩ := p
      rw [h1] at h
      simp only at h
      cases h2 : getValuesList fenv act i c1 ts with
      | error e2 => rw [h2] at h; cases h; exact ih c1 h2
      | ok q => rw [h2] at h; cases h

theorem getValues_noraise (fenv : FEnv) (act : Act) (i : Nat) (cs : List Nat) (toks : List Str)
    (e : EOut) (hs : ∀ c, act.conv = .tupleCounter c → c ≠ [])
    (h : getValues fenv act i cs toks = .error e) : NoRaise e := by
  rw [getValues_ok_iff] at h
  cases h1 : getValuesList fenv act i cs toks with
  | error e1 => rw [h1] at h; cases h; exact getValuesList_noraise fenv act i cs toks e hs h1
  | ok p => rw [h1] at h; cases h

theorem str2bool_conv_range (fenv : FEnv) (k : Nat) (t : Str) (s : Scalar)
    (h : (Conv.base BConv.bool).apply fenv k t = .ok s) : ∃ b, s = .bool b := by
  simp only [Conv.apply, BConv.apply] at h
  split at h
  · cases h; exact ⟨_, rfl⟩
  · cases h

theorem takeAction_noraise (fenv : FEnv) (tbl : List Act) (hw : NoRaiseTbl tbl) (st : St) (i : Nat)
    (o : Str) (args : List Str) (e : EOut)
    (hlen : ∀ act, tbl[i]? = some act → act.nargs = .opt → args.length ≤ 1)
    (h : takeAction fenv tbl st i o args = .error e) : NoRaise e := by
  unfold takeAction at h
  cases hact : tbl[i]? with
  | none => rw [hact] at h; cases h; simp [NoRaise]
  | some act =>
    have hmem : act ∈ tbl := List.mem_of_getElem? hact
    have hs := hw.stateless act hmem
    rw [hact] at h
    simp only at h
    cases hk : act.kind with
    | help => rw [hk] at h; cases h; simp [NoRaise]
    | store =>
      rw [hk] at h
      simp only at h
      cases h1 : getValues fenv act i st.counters args with
      | error e1 => rw [h1] at h; cases h; exact getValues_noraise fenv act i _ args e hs h1
      | ok p => rw [h1] at h; cases h
    | boolOpt negs =>
      obtain ⟨hn, hc⟩ := hw.boolwf act hmem negs hk
      rw [hk] at h
      simp only at h
      cases h1 : getValues fenv act i st.counters args with
      | error e1 => rw [h1] at h; cases h; exact getValues_noraise fenv act i _ args e hs h1
      | ok p =>
        obtain ⟨v, cs⟩ := p
        rw [h1] at h
        dsimp only at h
        -- with nargs='?' and type=str2bool the value is None or a bool: the ValueError branch is dead
        rw [getValues_ok_iff] at h1
        cases h2 : getValuesList fenv act i st.counters args with
        | error e2 => rw [h2] at h1; cases h1
        | ok q =>
          obtain ⟨vs, c2⟩ := q
          rw [h2] at h1
          simp only [Except.ok.injEq, Prod.mk.injEq] at h1
          have hr := getValuesList_range fenv act i _ c2 args vs h2
          obtain ⟨hv, _⟩ := h1
          rw [hn] at hv
          match vs, hv, hr with
          | [], hv, _ =>
            simp only [segVal] at hv; subst hv
            simp only at h; cases h
          | [x], hv, hr =>
            simp only [segVal] at hv; subst hv
            obtain ⟨k, t, hkt, _⟩ := hr x (by simp)
            rw [hc] at hkt
            obtain ⟨b, rfl⟩ := str2bool_conv_range fenv k t x hkt
            simp only at h
            split at h
            · cases h; simp [NoRaise]
            · cases h
          | x :: y :: zs, _, _ =>
            have h3 := getValuesList_length fenv act i _ c2 args (x :: y :: zs) h2
            have h4 := hlen act hact hn
            simp only [List.length_cons] at h3
            omega

theorem consume_noraise (fenv : FEnv) (tbl : List Act) (hw : NoRaiseTbl tbl) (fuel : Nat) (st : St)
    (l : List (Str × Tok)) (e : EOut) (h : consume fenv tbl fuel st l = .error e) : NoRaise e := by
  induction fuel generalizing st l with
  | zero =>
    cases l with
    | nil => simp [consume] at h
    | cons p ps => simp only [consume] at h; cases h; simp [NoRaise]
  | succ n ih =>
    cases l with
    | nil => simp [consume] at h
    | cons p ps =>
      obtain ⟨a, t⟩ := p
      cases t with
      | A => simp only [consume] at h; exact ih _ _ h
      | dd => simp only [consume] at h; exact ih _ _ h
      | O act o ex =>
        cases act with
        | none => simp only [consume] at h; exact ih _ _ h
        | some i =>
          cases ex with
          | some x =>
            simp only [consume] at h
            split at h
            · cases h; simp [NoRaise]
            · split at h
              · split at h <;> (cases h; simp [NoRaise])
              · have one : ∀ act, tbl[i]? = some act → act.nargs = .opt → [x].length ≤ 1 := by
                  intros; simp
                split at h
                · split at h
                  · cases ht : takeAction fenv tbl st i o [x] with
                    | error e1 => rw [ht] at h; cases h; exact takeAction_noraise _ _ hw _ _ _ _ _ one ht
                    | ok st' => rw [ht] at h; exact ih _ _ h
                  · cases h; simp [NoRaise]
                · cases ht : takeAction fenv tbl st i o [x] with
                  | error e1 => rw [ht] at h; cases h; exact takeAction_noraise _ _ hw _ _ _ _ _ one ht
                  | ok st' => rw [ht] at h; exact ih _ _ h
          | none =>
            simp only [consume] at h
            cases hact : tbl[i]? with
            | none => rw [hact] at h; cases h; simp [NoRaise]
            | some act =>
              rw [hact] at h
              simp only at h
              by_cases hkind : act.kind = .help
              · simp only [hkind, ↓reduceIte] at h; cases h; simp [NoRaise]
              · simp only [hkind, ↓reduceIte] at h
                cases hm : matchCount act.nargs (ps.map (·.2)) with
                | none => rw [hm] at h; cases h; simp [NoRaise]
                | some k =>
                  rw [hm] at h
                  simp only at h
                  cases ht : takeAction fenv tbl st i o ((ps.take k).map (·.1)) with
                  | error e1 =>
                    rw [ht] at h; cases h
                    refine takeAction_noraise _ _ hw _ _ _ _ _ ?_ ht
                    intro act' hact' hn
                    rw [hact] at hact'; cases hact'
                    rw [hn] at hm
                    simp only [matchCount, Option.some.injEq] at hm
                    simp only [List.length_map, List.length_take]
                    omega
                  | ok st' => rw [ht] at h; exact ih _ _ h

theorem finish_noraise (fenv : FEnv) (tbl : List Act) (hw : NoRaiseTbl tbl) (st : St)
    (l : List (Act × Nat)) (hl : ∀ p ∈ l, p.1 ∈ tbl) (e : EOut)
    (h : finish fenv tbl st l = .error e) : NoRaise e := by
  induction l generalizing st with
  | nil => simp [finish] at h
  | cons p ps ih =>
    obtain ⟨a, i⟩ := p
    have hl' : ∀ q ∈ ps, q.1 ∈ tbl := fun q hq => hl q (by simp [hq])
    have ha : a ∈ tbl := hl (a, i) (by simp)
    rw [finish] at h
    split at h
    · exact ih _ hl' h
    · split at h
      · cases h; simp [NoRaise]
      · split at h
        · split at h
          · split at h
            · exact ih _ hl' h
            · cases h; simp [NoRaise]
            · rename_i x hx
              exact absurd hx (conv_noraise fenv a.conv _ _ x (hw.stateless a ha))
            · cases h; simp [NoRaise]
          · exact ih _ hl' h
        · exact ih _ hl' h

/-- **C04 (no traceback), partial.** Excluding only tables with a heterogeneous-tuple closure, the
    engine never lets an exception escape: for EVERY argv the outcome is a namespace, an exit, or
    "outside the modelled fragment". -/
theorem c04_no_traceback_partial (fenv : FEnv) (tbl : List Act) (hw : NoRaiseTbl tbl)
    (cs : List Nat) (argv : List Str) (x : Str) : runStrict fenv tbl cs argv ≠ .raise x := by
  intro h
  have hrun : run fenv tbl cs argv ≠ .raise x := by
    intro hr
    unfold run at hr
    cases hlex : lexAll tbl argv with
    | error e => rw [hlex] at hr; cases hr
    | ok toks =>
      rw [hlex] at hr
      dsimp only at hr
      cases hc : consume fenv tbl (argv.length + 1)
          { ns := initNs tbl, extras := [], seen := [], counters := cs } (argv.zip toks) with
      | error e =>
        rw [hc] at hr; dsimp only at hr
        have := consume_noraise fenv tbl hw _ _ _ e hc
        rw [hr] at this; exact this
      | ok st =>
        rw [hc] at hr; dsimp only at hr
        cases hf : finish fenv tbl st tbl.zipIdx with
        | error e =>
          rw [hf] at hr; dsimp only at hr
          have := finish_noraise fenv tbl hw st _ (fun p hp => List.fst_mem_of_mem_zipIdx hp) e hf
          rw [hr] at this; exact this
        | ok st2 => rw [hf] at hr; cases hr
  unfold runStrict at h
  split at h
  · cases h
  · cases h
  · rename_i e _ _
    exact hrun h

/-- non-vacuity: `--zzz` is an unknown token for a table with `--n` and `--l`; the demo table
    satisfies `NoRaiseTbl`; a missing required `--n` is rejected by the model -/
example : lexAll demoTbl ["--n".toList, "1".toList, "--zzz".toList] =
    .ok [.O (some 1) "--n".toList none, .A, .O none "--zzz".toList none] := by rfl

example : NoRaiseTbl demoTbl :=
  ⟨by intro a ha cs; simp [demoTbl, helpAct] at ha; rcases ha with h | h | h <;> subst h <;> simp,
   by intro a ha negs hk; simp [demoTbl, helpAct] at ha; rcases ha with h | h | h <;> subst h <;> simp at hk⟩

example : runStrict [] demoTbl [0, 0, 0] ["--l".toList, "a".toList, "b".toList] = .exit 2 .required := by
  decide

/-! ### 5. the well-formedness hypothesis of "never a traceback" is met by every table
    simple-parsing builds for a flat dataclass (so the theorem is unconditional there) -/

theorem tupleConv_wf (items : List ITy) (c : Conv) (h : tupleConv items = some c) :
    ∀ cs, c = .tupleCounter cs → cs ≠ [] := by
  intro cs hc
  subst hc
  unfold tupleConv at h
  cases items with
  | nil => simp at h
  | cons t rest =>
    simp only at h
    split at h
    · cases t <;> simp [convOfItem] at h
    · split at h
      · rename_i hlen
        simp only [Option.some.injEq, Conv.tupleCounter.injEq] at h
        intro hnil
        rw [h, hnil] at hlen
        simp at hlen
      · cases h

theorem containerConv_wf (item : ITy) (c : Conv) (h : containerConv item = some c) :
    ∀ cs, c ≠ .tupleCounter cs := by
  intro cs hc
  subst hc
  cases item with
  | base b => cases b <;> simp [containerConv] at h
  | union alts => simp [containerConv] at h

theorem convOfItem_wf (t : ITy) : ∀ cs, convOfItem t ≠ .tupleCounter cs := by
  intro cs; cases t <;> simp [convOfItem]

theorem argOptions_wf (f : FieldSpec) (ao : ArgOpts) (h : argOptions f = some ao) :
    (∀ cs, ao.conv = .tupleCounter cs → cs ≠ []) ∧
      (ao.isBool = true → ao.nargs = .opt ∧ ao.conv = .base .bool) := by
  obtain ⟨name, ⟨inner, opt⟩, d, als⟩ := f
  unfold argOptions at h
  simp only at h
  cases inner with
  | literal vals =>
    cases opt
    · simp only at h
      cases hm : vals.mapM literalName with
      | none => simp [hm] at h
      | some names => simp only [hm, Option.map_some, Option.some.injEq] at h; subst h; simp
    · simp at h
  | sc t =>
    have hw := convOfItem_wf t
    cases opt <;> simp only [Bool.true_or, Bool.false_or, ↓reduceIte] at h
    · split at h
      · simp only [Option.some.injEq] at h; subst h; exact ⟨fun cs hcs => absurd hcs (hw cs), by simp⟩
      · cases t with
        | union alts => simp only [Option.some.injEq] at h; subst h; simp
        | base b =>
          cases b <;> simp only [Option.some.injEq] at h <;> subst h <;> simp [bconvOf]
    · simp only [Option.some.injEq] at h; subst h; exact ⟨fun cs hcs => absurd hcs (hw cs), by simp⟩
  | list item =>
    cases hc : containerConv item with
    | none => cases opt <;> simp [hc] at h
    | some c =>
      have hw := containerConv_wf item c hc
      cases opt <;> simp only [hc, Option.map_some, Bool.true_or, Bool.false_or, ↓reduceIte] at h
      · split at h <;> (simp only [Option.some.injEq] at h; subst h; exact ⟨fun cs hcs => absurd hcs (hw cs), by simp⟩)
      · simp only [Option.some.injEq] at h; subst h; exact ⟨fun cs hcs => absurd hcs (hw cs), by simp⟩
  | tuple items =>
    cases hc : tupleConv items with
    | none => cases opt <;> simp [hc] at h
    | some c =>
      have hw := tupleConv_wf items c hc
      cases opt <;> simp only [hc, Option.map_some, Bool.true_or, Bool.false_or, ↓reduceIte] at h
      · split at h <;> (simp only [Option.some.injEq] at h; subst h; exact ⟨hw, by simp⟩)
      · simp only [Option.some.injEq] at h; subst h; exact ⟨hw, by simp⟩
  | vtuple item =>
    have hw := convOfItem_wf item
    cases opt <;> simp only [Bool.true_or, Bool.false_or, ↓reduceIte] at h
    · split at h <;> (simp only [Option.some.injEq] at h; subst h; exact ⟨fun cs hcs => absurd hcs (hw cs), by simp⟩)
    · simp only [Option.some.injEq] at h; subst h; exact ⟨fun cs hcs => absurd hcs (hw cs), by simp⟩

theorem mapM_mem {α β : Type} (g : α → Option β) : ∀ (l : List α) (as : List β), l.mapM g = some as →
    ∀ a ∈ as, ∃ x ∈ l, g x = some a
  | [], as, h, a, ha => by simp at h; subst h; simp at ha
  | x :: xs, as, h, a, ha => by
    rw [List.mapM_cons] at h
    cases hx : g x with
    | none => simp [hx] at h
    | some b =>
      cases hr : xs.mapM g with
      | none => simp [hx, hr] at h
      | some bs =>
        simp only [hx, hr, Option.pure_def, Option.bind_eq_bind, Option.bind_some, Option.some.injEq] at h
        subst h
        rcases List.mem_cons.mp ha with rfl | hm
        · exact ⟨x, by simp, hx⟩
        · obtain ⟨y, hy, hg⟩ := mapM_mem g xs bs hr a hm
          exact ⟨y, by simp [hy], hg⟩

/-- every table simple-parsing builds for a flat dataclass is well-formed in the sense of
    `NoRaiseTbl`: tuple closures are over at least one item type, boolean actions are
    `nargs='?'` with `type=str2bool` -/
theorem tableOf_noRaiseTbl (cfg : Cfg) (dest : Str) (fs : List FieldSpec) (tbl : List Act)
    (h : tableOf cfg dest fs = some tbl) : NoRaiseTbl tbl := by
  unfold tableOf at h
  cases hm : fs.mapM (fieldAct cfg dest) with
  | none => simp [hm] at h
  | some acts =>
    simp only [hm, Option.map_some, Option.some.injEq] at h
    subst h
    have key : ∀ a ∈ helpAct :: acts, (∀ cs, a.conv = .tupleCounter cs → cs ≠ []) ∧
        (∀ negs, a.kind = .boolOpt negs → a.nargs = .opt ∧ a.conv = .base .bool) := by
      intro a ha
      rcases List.mem_cons.mp ha with rfl | hm'
      · exact ⟨by intro cs hc; simp [helpAct] at hc, by intro negs hk; simp [helpAct] at hk⟩
      · obtain ⟨f, _, hf⟩ := mapM_mem _ fs acts hm a hm'
        unfold fieldAct at hf
        cases hao : argOptions f with
        | none => simp [hao] at hf
        | some ao =>
          obtain ⟨h1, h2⟩ := argOptions_wf f ao hao
          simp only [hao, Option.map_some, Option.some.injEq] at hf
          subst hf
          refine ⟨h1, ?_⟩
          intro negs hk
          cases hb : ao.isBool with
          | false => simp [hb] at hk
          | true => exact h2 hb
    exact ⟨fun a ha => (key a ha).1, fun a ha => (key a ha).2⟩

/-- **C04 (never a traceback), for every flat dataclass**: whatever the fields (of the modelled
    annotation grammar), whatever the argv and the closure state, parsing ends in a result or an
    argparse exit — no exception escapes the engine. -/
theorem c04_no_traceback_flat (fenv : FEnv) (cfg : Cfg) (dest : Str) (fs : List FieldSpec)
    (tbl : List Act) (h : tableOf cfg dest fs = some tbl) (cs : List Nat) (argv : List Str) (x : Str) :
    runStrict fenv tbl cs argv ≠ .raise x :=
  c04_no_traceback_partial fenv tbl (tableOf_noRaiseTbl cfg dest fs tbl h) cs argv x
/-! ### 6. the `parse_tuple` closure counters stay aligned across accepted command lines -/

def tc (act : Act) : Nat := match act.conv with | .tupleCounter _ => 1 | _ => 0

theorem getValue_counters (fenv : FEnv) (act : Act) (i : Nat) (cs cs' : List Nat) (t : Str) (v : Scalar)
    (hi : i < cs.length) (h : getValue fenv act i cs t = .ok (v, cs')) :
    cs'.length = cs.length ∧ cs'.getD i 0 = cs.getD i 0 + tc act ∧ ∀ j, j ≠ i → cs'.getD j 0 = cs.getD j 0 := by
  unfold getValue at h
  simp only at h
  have key : ∀ c', c' = (match act.conv, act.conv.apply fenv (cs.getD i 0) t with
      | .tupleCounter _, .ok _ => bump cs i
      | _, _ => cs) → (∃ x, act.conv.apply fenv (cs.getD i 0) t = .ok x) →
      c'.length = cs.length ∧ c'.getD i 0 = cs.getD i 0 + tc act ∧ ∀ j, j ≠ i → c'.getD j 0 = cs.getD j 0 := by
    intro c' hc' ⟨x, hx⟩
    subst hc'
    unfold tc
    cases hconv : act.conv with
    | base b => simp
    | union l => simp
    | tupleCounter bs =>
      rw [hconv] at hx
      simp only [hx]
      exact ⟨bump_length cs i, bump_getD cs i hi, fun j hj => bump_getD_ne cs i j hj⟩
  split at h
  · cases h
  · cases h
  · cases h
  · rename_i x hx
    split at h
    · split at h
      · split at h
        · simp only [Except.ok.injEq, Prod.mk.injEq] at h
          exact key cs' h.2.symm ⟨_, hx⟩
        · cases h
      · cases h
    · simp only [Except.ok.injEq, Prod.mk.injEq] at h
      exact key cs' h.2.symm ⟨_, hx⟩

theorem getValuesList_counters (fenv : FEnv) (act : Act) (i : Nat) :
    ∀ (toks : List Str) (cs cs' : List Nat) (vs : List Scalar), i < cs.length →
      getValuesList fenv act i cs toks = .ok (vs, cs') →
      cs'.length = cs.length ∧ cs'.getD i 0 = cs.getD i 0 + toks.length * tc act ∧
        ∀ j, j ≠ i → cs'.getD j 0 = cs.getD j 0 := by
  intro toks
  induction toks with
  | nil =>
    intro cs cs' vs _ h
    simp only [getValuesList, Except.ok.injEq, Prod.mk.injEq] at h
    rw [← h.2]; simp
  | cons t ts ih =>
    intro cs cs' vs hi h
    simp only [getValuesList] at h
    cases h1 : getValue fenv act i cs t with
    | error e => rw [h1] at h; cases h
    | ok p =>
      obtain ⟨v, c1⟩ := p
      rw [h1] at h
      simp only at h
      cases h2 : getValuesList fenv act i c1 ts with
      | error e => rw [h2] at h; cases h
      | ok q =>
        obtain ⟨vs2, c2⟩ := q
        rw [h2] at h
        simp only [Except.ok.injEq, Prod.mk.injEq] at h
        obtain ⟨_, rfl⟩ := h
        obtain ⟨hl1, hi1, hj1⟩ := getValue_counters fenv act i cs c1 t v hi h1
        obtain ⟨hl2, hi2, hj2⟩ := ih c1 c2 vs2 (by rw [hl1]; exact hi) h2
        refine ⟨by rw [hl2, hl1], ?_, fun j hj => by rw [hj2 j hj, hj1 j hj]⟩
        rw [hi2, hi1, List.length_cons, Nat.add_mul]
        omega

theorem getValues_counters (fenv : FEnv) (act : Act) (i : Nat) (toks : List Str) (cs cs' : List Nat)
    (v : Val) (hi : i < cs.length) (h : getValues fenv act i cs toks = .ok (v, cs')) :
    cs'.length = cs.length ∧ cs'.getD i 0 = cs.getD i 0 + toks.length * tc act ∧
      ∀ j, j ≠ i → cs'.getD j 0 = cs.getD j 0 := by
  rw [getValues_ok_iff] at h
  cases h1 : getValuesList fenv act i cs toks with
  | error e => rw [h1] at h; cases h
  | ok p =>
    obtain ⟨vs, c1⟩ := p
    rw [h1] at h
    simp only [Except.ok.injEq, Prod.mk.injEq] at h
    rw [← h.2]
    exact getValuesList_counters fenv act i toks cs c1 vs hi h1

/-- the counters of all fixed-arity `parse_tuple` closures are multiples of their arity -/
def Aligned (tbl : List Act) (cs : List Nat) : Prop :=
  cs.length = tbl.length ∧
    ∀ i act bs, tbl[i]? = some act → act.conv = .tupleCounter bs → act.nargs = .num bs.length →
      cs.getD i 0 % bs.length = 0

theorem takeAction_counters (fenv : FEnv) (tbl : List Act) (st st' : St) (i : Nat) (o : Str)
    (args : List Str) (act : Act) (hact : tbl[i]? = some act) (hi : i < st.counters.length)
    (h : takeAction fenv tbl st i o args = .ok st') :
    st'.counters.length = st.counters.length ∧
      st'.counters.getD i 0 = st.counters.getD i 0 + args.length * tc act ∧
      ∀ j, j ≠ i → st'.counters.getD j 0 = st.counters.getD j 0 := by
  unfold takeAction at h
  rw [hact] at h
  simp only at h
  cases hk : act.kind with
  | help => rw [hk] at h; cases h
  | store =>
    rw [hk] at h
    simp only at h
    cases h1 : getValues fenv act i st.counters args with
    | error e1 => rw [h1] at h; cases h
    | ok p =>
      obtain ⟨v, cs⟩ := p
      rw [h1] at h
      simp only [Except.ok.injEq] at h
      subst h
      exact getValues_counters fenv act i args st.counters cs v hi h1
  | boolOpt negs =>
    rw [hk] at h
    simp only at h
    cases h1 : getValues fenv act i st.counters args with
    | error e1 => rw [h1] at h; cases h
    | ok p =>
      obtain ⟨v, cs⟩ := p
      rw [h1] at h
      have := getValues_counters fenv act i args st.counters cs v hi h1
      dsimp only at h
      split at h
      · simp only [Except.ok.injEq] at h; subst h; exact this
      · split at h
        · cases h
        · simp only [Except.ok.injEq] at h; subst h; exact this
      · cases h

theorem takeAction_aligned (fenv : FEnv) (tbl : List Act) (st st' : St) (i : Nat) (o : Str)
    (args : List Str) (hal : Aligned tbl st.counters)
    (hargs : ∀ act m, tbl[i]? = some act → act.nargs = .num m → args.length = m)
    (h : takeAction fenv tbl st i o args = .ok st') : Aligned tbl st'.counters := by
  cases hact : tbl[i]? with
  | none => unfold takeAction at h; rw [hact] at h; cases h
  | some act =>
    have hi : i < st.counters.length := by
      rw [hal.1]
      exact (List.getElem?_eq_some_iff.mp hact).1
    obtain ⟨hl, hii, hjj⟩ := takeAction_counters fenv tbl st st' i o args act hact hi h
    refine ⟨by rw [hl, hal.1], ?_⟩
    intro j actj bs hj hconv hn
    by_cases hji : j = i
    · subst hji
      rw [hact] at hj
      cases hj
      rw [hii]
      have htc : tc act = 1 := by unfold tc; rw [hconv]
      rw [htc, Nat.mul_one, hargs act bs.length hact hn, Nat.add_mod_right]
      exact hal.2 j act bs hact hconv hn
    · rw [hjj j hji]
      exact hal.2 j actj bs hj hconv hn

theorem countA_le_length (l : List Tok) : countA l ≤ l.length := by
  induction l with
  | nil => simp [countA]
  | cons t ts ih => cases t <;> simp [countA] <;> omega

theorem matchCount_num (m : Nat) (f : List Tok) (k : Nat) (h : matchCount (.num m) f = some k) :
    k = m ∧ m ≤ f.length := by
  unfold matchCount at h
  simp only at h
  split at h
  · rename_i hge
    simp only [Option.some.injEq] at h
    exact ⟨h.symm, Nat.le_trans hge (countA_le_length f)⟩
  · cases h

theorem consume_aligned (fenv : FEnv) (tbl : List Act) (fuel : Nat) (st st' : St)
    (l : List (Str × Tok)) (h : consume fenv tbl fuel st l = .ok st') (hal : Aligned tbl st.counters) :
    Aligned tbl st'.counters := by
  induction fuel generalizing st l with
  | zero =>
    cases l with
    | nil => simp only [consume, Except.ok.injEq] at h; subst h; exact hal
    | cons p ps => simp [consume] at h
  | succ n ih =>
    cases l with
    | nil => simp only [consume, Except.ok.injEq] at h; subst h; exact hal
    | cons p ps =>
      obtain ⟨a, t⟩ := p
      cases t with
      | A => simp only [consume] at h; exact ih _ _ h hal
      | dd => simp only [consume] at h; exact ih _ _ h hal
      | O act o ex =>
        cases act with
        | none => simp only [consume] at h; exact ih _ _ h hal
        | some i =>
          cases ex with
          | some x =>
            simp only [consume] at h
            cases hact : tbl[i]? with
            | none => rw [hact] at h; cases h
            | some act =>
              rw [hact] at h
              simp only at h
              split at h
              · split at h <;> cases h
              · cases hn : act.nargs with
                | num m =>
                  rw [hn] at h
                  simp only at h
                  split at h
                  · rename_i hm1
                    cases ht : takeAction fenv tbl st i o [x] with
                    | error e1 => rw [ht] at h; cases h
                    | ok st2 =>
                      rw [ht] at h
                      refine ih _ _ h (takeAction_aligned fenv tbl st st2 i o [x] hal ?_ ht)
                      intro act' m' ha' hn'
                      rw [hact] at ha'; cases ha'
                      rw [hn] at hn'; cases hn'
                      simp [hm1]
                  · cases h
                | one =>
                  rw [hn] at h
                  simp only at h
                  cases ht : takeAction fenv tbl st i o [x] with
                  | error e1 => rw [ht] at h; cases h
                  | ok st2 =>
                    rw [ht] at h
                    refine ih _ _ h (takeAction_aligned fenv tbl st st2 i o [x] hal ?_ ht)
                    intro act' m' ha' hn'
                    rw [hact] at ha'; cases ha'
                    rw [hn] at hn'; cases hn'
                | opt =>
                  rw [hn] at h
                  simp only at h
                  cases ht : takeAction fenv tbl st i o [x] with
                  | error e1 => rw [ht] at h; cases h
                  | ok st2 =>
                    rw [ht] at h
                    refine ih _ _ h (takeAction_aligned fenv tbl st st2 i o [x] hal ?_ ht)
                    intro act' m' ha' hn'
                    rw [hact] at ha'; cases ha'
                    rw [hn] at hn'; cases hn'
                | star =>
                  rw [hn] at h
                  simp only at h
                  cases ht : takeAction fenv tbl st i o [x] with
                  | error e1 => rw [ht] at h; cases h
                  | ok st2 =>
                    rw [ht] at h
                    refine ih _ _ h (takeAction_aligned fenv tbl st st2 i o [x] hal ?_ ht)
                    intro act' m' ha' hn'
                    rw [hact] at ha'; cases ha'
                    rw [hn] at hn'; cases hn'
                | plus =>
                  rw [hn] at h
                  simp only at h
                  cases ht : takeAction fenv tbl st i o [x] with
                  | error e1 => rw [ht] at h; cases h
                  | ok st2 =>
                    rw [ht] at h
                    refine ih _ _ h (takeAction_aligned fenv tbl st st2 i o [x] hal ?_ ht)
                    intro act' m' ha' hn'
                    rw [hact] at ha'; cases ha'
                    rw [hn] at hn'; cases hn'
          | none =>
            simp only [consume] at h
            cases hact : tbl[i]? with
            | none => rw [hact] at h; cases h
            | some act =>
              rw [hact] at h
              simp only at h
              by_cases hkind : act.kind = .help
              · simp only [hkind, ↓reduceIte] at h; cases h
              · simp only [hkind, ↓reduceIte] at h
                cases hm : matchCount act.nargs (ps.map (·.2)) with
                | none => rw [hm] at h; cases h
                | some k =>
                  rw [hm] at h
                  simp only at h
                  cases ht : takeAction fenv tbl st i o ((ps.take k).map (·.1)) with
                  | error e1 => rw [ht] at h; cases h
                  | ok st2 =>
                    rw [ht] at h
                    refine ih _ _ h (takeAction_aligned fenv tbl st st2 i o _ hal ?_ ht)
                    intro act' m' ha' hn'
                    rw [hact] at ha'; cases ha'
                    rw [hn'] at hm
                    obtain ⟨hk, hle⟩ := matchCount_num m' _ k hm
                    simp only [List.length_map, List.length_take] at hle ⊢
                    omega

theorem finish_counters (fenv : FEnv) (tbl : List Act) (st st' : St) (l : List (Act × Nat))
    (h : finish fenv tbl st l = .ok st') : st'.counters = st.counters := by
  induction l generalizing st with
  | nil => simp only [finish, Except.ok.injEq] at h; subst h; rfl
  | cons p ps ih =>
    obtain ⟨a, i⟩ := p
    rw [finish] at h
    split at h
    · exact ih _ h
    · split at h
      · cases h
      · split at h
        · split at h
          · split at h
            · have := ih _ h; exact this
            · cases h
            · cases h
            · cases h
          · exact ih _ h
        · exact ih _ h

/-- **the `parse_tuple` closures stay aligned across parses**: if before a parse every fixed-arity
    tuple closure's call counter is a multiple of its arity (true for a new parser: all 0), then it
    is so again after ANY accepted command line — however many times the tuple options occur. So
    the next parse on the same parser starts every tuple at its first item type (with
    `C02.c02_tuple_occurrence`: it converts exactly as a fresh parser would). Rejected command lines
    reset the counter in the real code (fix b1a5942); the model's exits carry no state. -/
theorem c04_counters_aligned (fenv : FEnv) (tbl : List Act) (cs : List Nat) (argv : List Str)
    (ns : List (Str × Val)) (ex : List Str) (cs' : List Nat)
    (hal : Aligned tbl cs) (h : run fenv tbl cs argv = .ok ns ex cs') : Aligned tbl cs' := by
  unfold run at h
  cases hlex : lexAll tbl argv with
  | error e => rw [hlex] at h; cases h
  | ok toks =>
    rw [hlex] at h
    dsimp only at h
    cases hc : consume fenv tbl (argv.length + 1)
        { ns := initNs tbl, extras := [], seen := [], counters := cs } (argv.zip toks) with
    | error e =>
      rw [hc] at h; dsimp only at h
      have := consume_err _ _ _ _ _ _ hc
      rw [h] at this; exact absurd this (by simp [GoodErr])
    | ok st =>
      rw [hc] at h; dsimp only at h
      have h1 := consume_aligned fenv tbl _ _ st _ hc hal
      cases hf : finish fenv tbl st tbl.zipIdx with
      | error e =>
        rw [hf] at h; dsimp only at h
        have := finish_err _ _ _ _ _ hf
        rw [h] at this; exact absurd this (by simp [GoodErr])
      | ok st2 =>
        rw [hf] at h; dsimp only at h
        simp only [EOut.ok.injEq] at h
        rw [← h.2.2, finish_counters fenv tbl st st2 _ hf]
        exact h1

example : Aligned tupTbl [0] := ⟨rfl, by
  intro i act bs h hc hn
  match i, h with
  | 0, h =>
    simp only [tupTbl, List.getElem?_cons_zero, Option.some.injEq] at h
    subst h
    simp only [Conv.tupleCounter.injEq] at hc
    subst hc
    rfl
  | _ + 1, h => simp [tupTbl] at h⟩

end SpVerif.C04
