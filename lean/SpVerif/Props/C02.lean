import SpVerif.Model.Fields
namespace SpVerif.C02
open SpVerif

theorem placeholder : matchCount .one [.A] = some 1 := by decide

end SpVerif.C02
