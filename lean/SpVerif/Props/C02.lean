/-
  C02 — A value written on the command line is the value the field receives.

  Theorems about `Model/Engine` + `Model/Fields`: rendering a typed assignment as canonical tokens
  and parsing it returns exactly that assignment over the defaults, for any number of fields, any
  order of the option segments, and both spellings.
-/
import SpVerif.Lemmas.Engine
import SpVerif.Model.Fields
import Mathlib.Data.Nat.Digits.Defs
namespace SpVerif.C02
open SpVerif

/-! ### 1. per-segment: what `take_action` stores -/

/-- all tokens convert (and pass `choices`) — stated with the model's own converter so that it
    covers stateful `parse_tuple` closures too -/
def ConvAll (fenv : FEnv) (act : Act) (i : Nat) (cs : List Nat) (toks : List Str)
    (vs : List Scalar) (cs' : List Nat) : Prop :=
  getValuesList fenv act i cs toks = .ok (vs, cs')

theorem getValues_eq (fenv : FEnv) (act : Act) (i : Nat) (cs cs' : List Nat) (toks : List Str)
    (vs : List Scalar) (h : ConvAll fenv act i cs toks vs cs') :
    getValues fenv act i cs toks = .ok (segVal act.nargs vs, cs') := by
  unfold ConvAll at h
  rw [getValues_ok_iff, h]

/-- one store occurrence writes exactly `segVal` at the action's destination -/
theorem takeAction_store (fenv : FEnv) (tbl : List Act) (st : St) (i : Nat) (o : Str)
    (toks : List Str) (act : Act) (vs : List Scalar) (cs' : List Nat)
    (hact : tbl[i]? = some act) (hk : act.kind = .store)
    (hconv : ConvAll fenv act i st.counters toks vs cs') :
    takeAction fenv tbl st i o toks =
      .ok { st with ns := setKey st.ns act.dest (segVal act.nargs vs), seen := i :: st.seen,
                    counters := cs' } := by
  unfold takeAction
  simp only [hact, hk, getValues_eq fenv act i st.counters cs' toks vs hconv]

/-! ### 2. whole command line -/

/-- a fully specified segment: which action, the tokens, and the scalars they denote -/
structure VSeg where
  seg : Seg
  vals : List Scalar

/-- namespace after all segments: left-to-right `setattr` -/
def storeAll (tbl : List Act) (ns : List (Str × Val)) : List VSeg → List (Str × Val)
  | [] => ns
  | v :: vs => match tbl[v.seg.idx]? with
    | some a => storeAll tbl (setKey ns a.dest (segVal a.nargs v.vals)) vs
    | none => storeAll tbl ns vs

/-- every segment is a `store` occurrence whose tokens convert; counters are left alone
    (stateless `type=` callables: everything except heterogeneous tuples) -/
structure SegOk (fenv : FEnv) (tbl : List Act) (cs : List Nat) (v : VSeg) : Prop where
  store : ∃ a, tbl[v.seg.idx]? = some a ∧ a.kind = .store ∧ arityOk a.nargs v.seg.toks.length ∧
    ConvAll fenv a v.seg.idx cs v.seg.toks v.vals cs

theorem applySegs_store (fenv : FEnv) (tbl : List Act) (vsegs : List VSeg) (st : St)
    (h : ∀ v ∈ vsegs, SegOk fenv tbl st.counters v) :
    applySegs fenv tbl st (vsegs.map (·.seg)) =
      .ok { ns := storeAll tbl st.ns vsegs, extras := st.extras,
            seen := (vsegs.map (·.seg.idx)).reverse ++ st.seen, counters := st.counters } := by
  induction vsegs generalizing st with
  | nil => simp [applySegs, storeAll]
  | cons v vs ih =>
    obtain ⟨a, ha, hk, _, hconv⟩ := (h v (by simp)).store
    simp only [List.map_cons, applySegs]
    rw [takeAction_store fenv tbl st v.seg.idx v.seg.opt v.seg.toks a v.vals st.counters ha hk hconv]
    have := ih { ns := setKey st.ns a.dest (segVal a.nargs v.vals), extras := st.extras,
                 seen := v.seg.idx :: st.seen, counters := st.counters }
      (fun x hx => h x (by simp [hx]))
    simp only at this ⊢
    rw [this]
    simp [storeAll, ha]

/-- `finish` changes nothing when every required action was seen and no unseen action has a
    string default that `type=` would rewrite -/
def FinishQuiet (fenv : FEnv) (st : St) (a : Act) (i : Nat) : Prop :=
  st.seen.contains i = true ∨
    (a.required = false ∧
      ∀ s, a.default = some (.sc (.str s)) → st.ns.lookup a.dest = some (.sc (.str s)) →
        a.conv.apply fenv (st.counters.getD i 0) s = .ok (.str s) ∧
        setKey st.ns a.dest (.sc (.str s)) = st.ns)

theorem finish_quiet (fenv : FEnv) (tbl : List Act) (st : St) (l : List (Act × Nat))
    (h : ∀ p ∈ l, FinishQuiet fenv st p.1 p.2) : finish fenv tbl st l = .ok st := by
  induction l with
  | nil => rfl
  | cons p ps ih =>
    obtain ⟨a, i⟩ := p
    have ih' := ih (fun q hq => h q (by simp [hq]))
    rw [finish]
    by_cases hs : st.seen.contains i = true
    · simp only [hs, ↓reduceIte, ih']
    · rcases h (a, i) (by simp) with hs' | ⟨hreq, hd⟩
      · exact absurd hs' hs
      · have hs2 : st.seen.contains i = false := by simpa using hs
        have hreq' : a.required = false := hreq
        have hd' : ∀ s, a.default = some (.sc (.str s)) → st.ns.lookup a.dest = some (.sc (.str s)) →
            a.conv.apply fenv (st.counters.getD i 0) s = .ok (.str s) ∧
            setKey st.ns a.dest (.sc (.str s)) = st.ns := hd
        simp only [hs2, hreq', Bool.false_eq_true, ↓reduceIte]
        cases hdef : a.default with
        | none => exact ih'
        | some d =>
          cases d with
          | list l => exact ih'
          | tuple l => exact ih'
          | sc x =>
            cases x with
            | str s =>
              simp only
              by_cases hl : st.ns.lookup a.dest = some (.sc (.str s))
              · obtain ⟨hc, hk⟩ := hd' s hdef hl
                simp only [hl, ↓reduceIte, hc, hk]
                exact ih'
              · simp only [hl, ↓reduceIte]
                exact ih'
            | int _ => exact ih'
            | float _ => exact ih'
            | bool _ => exact ih'
            | none => exact ih'
            | path _ => exact ih'
            | enum _ _ => exact ih'

/-- **C02 (engine round trip).** A command line made of option segments — each an exact option
    string followed by value tokens that do not start with `-`, fitting the action's `nargs`, and
    converting under its `type=` — is accepted, leaves no leftovers, and stores for every segment
    exactly the converted value; everything else keeps its initial (default) entry.
    Any number of segments, any order, any table. -/
theorem c02_engine_roundtrip (fenv : FEnv) (tbl : List Act) (cs : List Nat) (vsegs : List VSeg)
    (hlex : ∀ v ∈ vsegs, LexOk tbl v.seg)
    (hok : ∀ v ∈ vsegs, SegOk fenv tbl cs v)
    (hfin : ∀ p ∈ tbl.zipIdx, FinishQuiet fenv
      { ns := storeAll tbl (initNs tbl) vsegs, extras := [],
        seen := (vsegs.map (·.seg.idx)).reverse ++ [], counters := cs } p.1 p.2) :
    runStrict fenv tbl cs (render (vsegs.map (·.seg))) =
      .ok (storeAll tbl (initNs tbl) vsegs) [] cs := by
  unfold runStrict run
  rw [lexAll_render tbl (vsegs.map (·.seg)) (by
    intro s hs
    obtain ⟨v, hv, rfl⟩ := List.mem_map.mp hs
    exact hlex v hv)]
  simp only
  rw [consume_render fenv tbl (vsegs.map (·.seg)) _ _ (by
        have : (vsegs.map (·.seg)).length ≤ (render (vsegs.map (·.seg))).length := by
          generalize vsegs.map (·.seg) = segs
          induction segs with
          | nil => simp
          | cons s ss ih => simp only [render, List.flatMap_cons, renderSeg, List.length_append,
              List.length_cons] at ih ⊢; omega
        omega) (by
        intro s hs
        obtain ⟨v, hv, rfl⟩ := List.mem_map.mp hs
        obtain ⟨a, ha, hk, har, _⟩ := (hok v hv).store
        exact ⟨a, ha, by rw [hk]; decide, har⟩)]
  rw [applySegs_store fenv tbl vsegs _ (by simpa using hok)]
  simp only
  rw [finish_quiet fenv tbl _ _ hfin]

/-! ### 3. what a later lookup sees: the last segment for that destination, else the default -/

theorem lookup_map_same (ns : List (Str × Val)) (k : Str) (v : Val)
    (h : ns.any (fun p => p.1 = k) = true) :
    (ns.map (fun p => if p.1 = k then (k, v) else p)).lookup k = some v := by
  induction ns with
  | nil => simp at h
  | cons p ps ih =>
    obtain ⟨pk, pv⟩ := p
    by_cases hk : pk = k
    · subst hk; simp [List.lookup]
    · have hk' : (k == pk) = false := by simp; exact fun hh => hk hh.symm
      simp only [List.any_cons, hk, decide_false, Bool.false_or] at h
      simp only [List.map_cons, hk, ↓reduceIte, List.lookup, hk']
      exact ih h

theorem lookup_append_same (ns : List (Str × Val)) (k : Str) (v : Val)
    (h : ns.any (fun p => p.1 = k) = false) : (ns ++ [(k, v)]).lookup k = some v := by
  induction ns with
  | nil => simp [List.lookup]
  | cons p ps ih =>
    obtain ⟨pk, pv⟩ := p
    simp only [List.any_cons, Bool.or_eq_false_iff, decide_eq_false_iff_not] at h
    have hk' : (k == pk) = false := by simp; exact fun hh => h.1 hh.symm
    simp only [List.cons_append, List.lookup, hk']
    exact ih h.2

theorem lookup_setKey_same (ns : List (Str × Val)) (k : Str) (v : Val) :
    (setKey ns k v).lookup k = some v := by
  unfold setKey
  split
  · rename_i h; exact lookup_map_same ns k v h
  · rename_i h
    apply lookup_append_same ns k v
    cases hb : ns.any (fun p => decide (p.1 = k)) with
    | true => exact absurd hb h
    | false => rfl

theorem lookup_map_other (ns : List (Str × Val)) (k k' : Str) (v : Val) (hne : k' ≠ k) :
    (ns.map (fun p => if p.1 = k then (k, v) else p)).lookup k' = ns.lookup k' := by
  induction ns with
  | nil => rfl
  | cons p ps ih =>
    obtain ⟨pk, pv⟩ := p
    by_cases hk : pk = k
    · subst hk
      have : (k' == pk) = false := by simp [hne]
      simp only [List.map_cons, ↓reduceIte, List.lookup, this]
      exact ih
    · simp only [List.map_cons, hk, ↓reduceIte, List.lookup]
      split
      · rfl
      · exact ih

theorem lookup_append_other (ns : List (Str × Val)) (k k' : Str) (v : Val) (hne : k' ≠ k) :
    (ns ++ [(k, v)]).lookup k' = ns.lookup k' := by
  induction ns with
  | nil =>
    have : (k' == k) = false := by simp [hne]
    simp [List.lookup, this]
  | cons p ps ih =>
    obtain ⟨pk, pv⟩ := p
    simp only [List.cons_append, List.lookup]
    split
    · rfl
    · exact ih

theorem lookup_setKey_other (ns : List (Str × Val)) (k k' : Str) (v : Val) (hne : k' ≠ k) :
    (setKey ns k v).lookup k' = ns.lookup k' := by
  unfold setKey
  split
  · exact lookup_map_other ns k k' v hne
  · exact lookup_append_other ns k k' v hne

/-- a destination no segment writes keeps its initial entry -/
theorem storeAll_untouched (tbl : List Act) (ns : List (Str × Val)) (vsegs : List VSeg) (d : Str)
    (h : ∀ v ∈ vsegs, ∀ a, tbl[v.seg.idx]? = some a → a.dest ≠ d) :
    (storeAll tbl ns vsegs).lookup d = ns.lookup d := by
  induction vsegs generalizing ns with
  | nil => rfl
  | cons v vs ih =>
    simp only [storeAll]
    cases ha : tbl[v.seg.idx]? with
    | none => exact ih ns (fun x hx => h x (by simp [hx]))
    | some a =>
      simp only
      rw [ih _ (fun x hx => h x (by simp [hx]))]
      exact lookup_setKey_other ns a.dest d _ (fun hh => h v (by simp) a ha hh.symm)

/-- **the field receives the value written for it** (when written once), wherever its segment
    stands among the others — hence order-independence -/
theorem storeAll_written (tbl : List Act) (ns : List (Str × Val)) (pre post : List VSeg)
    (v : VSeg) (a : Act) (ha : tbl[v.seg.idx]? = some a)
    (hpost : ∀ w ∈ post, ∀ b, tbl[w.seg.idx]? = some b → b.dest ≠ a.dest) :
    (storeAll tbl ns (pre ++ v :: post)).lookup a.dest = some (segVal a.nargs v.vals) := by
  induction pre generalizing ns with
  | nil =>
    simp only [List.nil_append, storeAll, ha]
    rw [storeAll_untouched tbl _ post a.dest hpost]
    exact lookup_setKey_same ns a.dest _
  | cons p ps ih =>
    simp only [List.cons_append, storeAll]
    split <;> exact ih _

/-- two segments never write the same destination -/
def Distinct (tbl : List Act) (v w : VSeg) : Prop :=
  ∀ a b, tbl[v.seg.idx]? = some a → tbl[w.seg.idx]? = some b → a.dest ≠ b.dest

theorem distinct_symm (tbl : List Act) (v w : VSeg) (h : Distinct tbl v w) : Distinct tbl w v :=
  fun a b ha hb hh => h b a hb ha hh.symm

theorem lookup_of_writer (tbl : List Act) (ns : List (Str × Val)) (l : List VSeg)
    (hl : l.Pairwise (Distinct tbl)) (v : VSeg) (hv : v ∈ l) (a : Act)
    (ha : tbl[v.seg.idx]? = some a) :
    (storeAll tbl ns l).lookup a.dest = some (segVal a.nargs v.vals) := by
  obtain ⟨pre, post, rfl⟩ := List.append_of_mem hv
  apply storeAll_written tbl ns pre post v a ha
  intro w hw b hb
  have h1 := (List.pairwise_append.mp hl).2.1
  have h2 := (List.pairwise_cons.mp h1).1 w hw
  exact fun hh => h2 a b ha hb hh.symm

/-- **Order independence**: if every destination is written by at most one segment, any
    permutation of the segments yields the same value at every destination. -/
theorem c02_order_independent (tbl : List Act) (ns : List (Str × Val)) (l1 l2 : List VSeg)
    (hperm : l1.Perm l2) (hdistinct : l1.Pairwise (Distinct tbl)) (d : Str) :
    (storeAll tbl ns l1).lookup d = (storeAll tbl ns l2).lookup d := by
  have hd2 : l2.Pairwise (Distinct tbl) :=
    hperm.pairwise hdistinct (fun {v w} h => distinct_symm tbl v w h)
  by_cases hw : ∃ v ∈ l1, ∃ a, tbl[v.seg.idx]? = some a ∧ a.dest = d
  · obtain ⟨v, hv, a, ha, rfl⟩ := hw
    rw [lookup_of_writer tbl ns l1 hdistinct v hv a ha,
      lookup_of_writer tbl ns l2 hd2 v (hperm.mem_iff.mp hv) a ha]
  · have hno : ∀ l : List VSeg, (∀ v ∈ l, v ∈ l1) →
        ∀ v ∈ l, ∀ a, tbl[v.seg.idx]? = some a → a.dest ≠ d := by
      intro l hsub v hv a ha hd
      exact hw ⟨v, hsub v hv, a, ha, hd⟩
    rw [storeAll_untouched tbl ns l1 d (hno l1 (fun _ h => h)),
      storeAll_untouched tbl ns l2 d (hno l2 (fun v h => hperm.mem_iff.mpr h))]

/-! ### 4. canonical tokens convert back (per type) -/

/-- Python's `str(n)` for a natural number: most-significant digit first -/
def digitChar (d : Nat) : Char := Char.ofNat (48 + d)

def printNat (n : Nat) : Str :=
  if n = 0 then ['0'] else ((Nat.digits 10 n).reverse.map digitChar)

def printInt (i : Int) : Str :=
  match i with
  | .ofNat n => printNat n
  | .negSucc n => '-' :: printNat (n + 1)

theorem isDigit_digitChar (d : Nat) (h : d < 10) : isDigit (digitChar d) = true ∧
    (digitChar d).toNat - 48 = d := by
  have : d = 0 ∨ d = 1 ∨ d = 2 ∨ d = 3 ∨ d = 4 ∨ d = 5 ∨ d = 6 ∨ d = 7 ∨ d = 8 ∨ d = 9 := by omega
  rcases this with h | h | h | h | h | h | h | h | h | h <;> subst h <;> decide

theorem digitChar_ne_underscore (d : Nat) (h : d < 10) : digitChar d ≠ '_' := by
  have : d = 0 ∨ d = 1 ∨ d = 2 ∨ d = 3 ∨ d = 4 ∨ d = 5 ∨ d = 6 ∨ d = 7 ∨ d = 8 ∨ d = 9 := by omega
  rcases this with h | h | h | h | h | h | h | h | h | h <;> subst h <;> decide

/-- reading most-significant-first digits accumulates `ofDigits` of the reversed list -/
theorem parseNatGo_digits (ds : List Nat) (hds : ∀ d ∈ ds, d < 10) (acc : Nat) (prev : Bool)
    (hne : ds ≠ [] ∨ prev = true) :
    parseNatGo (ds.map digitChar) acc prev = some (ds.foldl (fun a d => a * 10 + d) acc) := by
  induction ds generalizing acc prev with
  | nil =>
    rcases hne with h | h
    · exact absurd rfl h
    · simp [parseNatGo, h]
  | cons d rest ih =>
    have hd := hds d (by simp)
    obtain ⟨h1, h2⟩ := isDigit_digitChar d hd
    simp only [List.map_cons, parseNatGo, h1, ↓reduceIte, h2, List.foldl_cons]
    exact ih (fun x hx => hds x (by simp [hx])) _ true (Or.inr rfl)

theorem foldl_ofDigits (ds : List Nat) (acc : Nat) :
    ds.foldl (fun a d => a * 10 + d) acc = acc * 10 ^ ds.length + Nat.ofDigits 10 ds.reverse := by
  induction ds generalizing acc with
  | nil => simp [Nat.ofDigits]
  | cons d rest ih =>
    simp only [List.foldl_cons, ih, List.reverse_cons, Nat.ofDigits_append, Nat.ofDigits_singleton,
      List.length_reverse, List.length_cons]
    ring

theorem parseNat_printNat (n : Nat) : parseNat (printNat n) = some n := by
  unfold printNat parseNat
  by_cases h0 : n = 0
  · subst h0; decide
  · simp only [h0, ↓reduceIte]
    have hne : (Nat.digits 10 n).reverse ≠ [] := by
      simp [Nat.digits_ne_nil_iff_ne_zero, h0]
    rw [parseNatGo_digits _ (by
      intro d hd
      exact Nat.digits_lt_base (by norm_num) (List.mem_reverse.mp hd)) 0 false (Or.inl hne)]
    rw [foldl_ofDigits]
    simp [Nat.ofDigits_digits]

theorem printNat_ascii (n : Nat) : isAscii (printNat n) = true := by
  unfold printNat isAscii
  split
  · decide
  · simp only [List.all_map, List.all_eq_true, List.mem_reverse, Function.comp_apply]
    intro d hd
    have hlt := Nat.digits_lt_base (by norm_num : 1 < 10) hd
    have : d = 0 ∨ d = 1 ∨ d = 2 ∨ d = 3 ∨ d = 4 ∨ d = 5 ∨ d = 6 ∨ d = 7 ∨ d = 8 ∨ d = 9 := by omega
    rcases this with h | h | h | h | h | h | h | h | h | h <;> subst h <;> decide

theorem printNat_head_digit (n : Nat) : ∃ c r, printNat n = c :: r ∧ isDigit c = true := by
  unfold printNat
  split
  · exact ⟨'0', [], rfl, by decide⟩
  · rename_i h0
    cases hd : (Nat.digits 10 n).reverse with
    | nil =>
      exact absurd (List.reverse_eq_nil_iff.mp hd) (Nat.digits_ne_nil_iff_ne_zero.mpr h0)
    | cons d rest =>
      refine ⟨digitChar d, rest.map digitChar, by simp, ?_⟩
      have : d ∈ Nat.digits 10 n := by
        have : d ∈ (Nat.digits 10 n).reverse := by rw [hd]; simp
        exact List.mem_reverse.mp this
      exact (isDigit_digitChar d (Nat.digits_lt_base (by norm_num) this)).1

theorem stripWs_of_digit_ends (s : Str) (h : ∀ c ∈ s, isSpace c = false) : stripWs s = s := by
  have hl : ∀ t : Str, (∀ c ∈ t, isSpace c = false) → lstripWs t = t := by
    intro t ht
    cases t with
    | nil => rfl
    | cons c cs => simp [lstripWs, ht c (by simp)]
  unfold stripWs
  rw [hl s h, hl s.reverse (fun c hc => h c (List.mem_reverse.mp hc))]
  simp

theorem printNat_nospace (n : Nat) : ∀ c ∈ printNat n, isSpace c = false := by
  unfold printNat
  split
  · intro c hc; simp at hc; subst hc; decide
  · intro c hc
    simp only [List.mem_map, List.mem_reverse] at hc
    obtain ⟨d, hd, rfl⟩ := hc
    have hlt := Nat.digits_lt_base (by norm_num : 1 < 10) hd
    have : d = 0 ∨ d = 1 ∨ d = 2 ∨ d = 3 ∨ d = 4 ∨ d = 5 ∨ d = 6 ∨ d = 7 ∨ d = 8 ∨ d = 9 := by omega
    rcases this with h | h | h | h | h | h | h | h | h | h <;> subst h <;> decide

/-- **`int(str(i)) == i` for every integer** (no bound on the number of digits). -/
theorem c02_int_roundtrip (i : Int) : parseInt (printInt i) = .ok (.int i) := by
  cases i with
  | ofNat n =>
    obtain ⟨c, r, hcr, hdig⟩ := printNat_head_digit n
    have hstrip := stripWs_of_digit_ends (printNat n) (printNat_nospace n)
    unfold parseInt printInt
    simp only [printNat_ascii, Bool.not_true, Bool.false_eq_true, ↓reduceIte, hstrip]
    have hc1 : c ≠ '-' := by intro h; subst h; simp [isDigit] at hdig
    have hc2 : c ≠ '+' := by intro h; subst h; simp [isDigit] at hdig
    rw [hcr]
    split
    · rename_i h; simp at h; exact absurd h.1 hc1
    · rename_i h; simp at h; exact absurd h.1 hc2
    · rw [← hcr, parseNat_printNat]; rfl
  | negSucc n =>
    unfold parseInt printInt
    have hasc : isAscii ('-' :: printNat (n + 1)) = true := by
      simp only [isAscii, List.all_cons, Bool.and_eq_true]
      exact ⟨by decide, printNat_ascii (n + 1)⟩
    have hstrip : stripWs ('-' :: printNat (n + 1)) = '-' :: printNat (n + 1) := by
      apply stripWs_of_digit_ends
      intro c hc
      rcases List.mem_cons.mp hc with h | h
      · subst h; decide
      · exact printNat_nospace (n + 1) c h
    simp only [hasc, Bool.not_true, Bool.false_eq_true, ↓reduceIte, hstrip, parseNat_printNat]
    rw [Int.negSucc_eq]
    congr 2

/-- strings come back verbatim -/
theorem c02_str_roundtrip (fenv : FEnv) (s : Str) : BConv.apply fenv .str s = .ok (.str s) := rfl

/-- enum members are written and read back by *name* -/
theorem c02_enum_roundtrip (fenv : FEnv) (cls : Str) (members : List Str) (m : Str)
    (h : m ∈ members) : BConv.apply fenv (.enumName cls members) m = .ok (.enum cls m) := by
  simp [BConv.apply, h]

/-- booleans: `str(True)`/`str(False)` parse back -/
theorem c02_bool_roundtrip (fenv : FEnv) (b : Bool) :
    BConv.apply fenv .bool (if b then "True".toList else "False".toList) = .ok (.bool b) := by
  cases b
  · show (match str2bool "False".toList with | some b => ConvOut.ok (.bool b) | none => .typeErr) = _
    decide
  · show (match str2bool "True".toList with | some b => ConvOut.ok (.bool b) | none => .typeErr) = _
    decide

/-- floats: by hypothesis on the environment (`float(repr(x)) == x` is CPython's business) -/
theorem c02_float_roundtrip (fenv : FEnv) (r : Str) (h : fenv.lookup r = some (some r)) :
    BConv.apply fenv .float r = .ok (.float r) := by
  simp [BConv.apply, h]

/-! ### 4b. per annotation: the field's `type=` reads the canonical tokens back and `postprocess`
      returns the typed value (ties `get_arg_options` / `postprocess` to the value written) -/

/-- canonical token of a scalar: `str(v)`, enum members by name -/
def tokenOf : Scalar → Str
  | .int i => printInt i
  | .float r => r
  | .str s => s
  | .bool b => if b then "True".toList else "False".toList
  | .path p => p
  | .enum _ n => n
  | .none => []

/-- `v` is a value of base type `b` that has a token form in the environment -/
def HasBTy (fenv : FEnv) (v : Scalar) : BTy → Prop
  | .int => ∃ i, v = .int i
  | .float => ∃ r, v = .float r ∧ fenv.lookup r = some (some r)
  | .str => ∃ s, v = .str s
  | .bool => ∃ b, v = .bool b
  | .path => ∃ p, v = .path p ∧ parsePath p = .ok (.path p)
  | .any => ∃ s, v = .str s
  | .enum c ms => ∃ m, v = .enum c m ∧ m ∈ ms

/-- every base converter reads the canonical token of a value of its type back to that value -/
theorem bconv_token (fenv : FEnv) (b : BTy) (v : Scalar) (h : HasBTy fenv v b) :
    (bconvOf b).apply fenv (tokenOf v) = .ok v := by
  cases b with
  | int => obtain ⟨i, rfl⟩ := h; exact c02_int_roundtrip i
  | float => obtain ⟨r, rfl, hr⟩ := h; simp [bconvOf, BConv.apply, tokenOf, hr]
  | str => obtain ⟨s, rfl⟩ := h; rfl
  | bool => obtain ⟨b, rfl⟩ := h; exact c02_bool_roundtrip fenv b
  | path => obtain ⟨p, rfl, hp⟩ := h; simpa [bconvOf, BConv.apply, tokenOf] using hp
  | any => obtain ⟨s, rfl⟩ := h; rfl
  | enum c ms => obtain ⟨m, rfl, hm⟩ := h; simp [bconvOf, BConv.apply, tokenOf, hm]

/-- an action without `choices` whose `type=` is a stateless base converter reads a whole list of
    canonical tokens back, whatever the closure counters are -/
theorem getValuesList_tokens (fenv : FEnv) (act : Act) (i : Nat) (cs : List Nat) (b : BTy)
    (hconv : act.conv = .base (bconvOf b)) (hch : act.choices = none) (vs : List Scalar)
    (hvs : ∀ v ∈ vs, HasBTy fenv v b) :
    getValuesList fenv act i cs (vs.map tokenOf) = .ok (vs, cs) := by
  induction vs with
  | nil => rfl
  | cons v rest ih =>
    have hv := bconv_token fenv b v (hvs v (by simp))
    have hone : getValue fenv act i cs (tokenOf v) = .ok (v, cs) := by
      unfold getValue
      simp only [hconv, Conv.apply, hv, hch]
    simp only [List.map_cons, getValuesList, hone, ih (fun x hx => hvs x (by simp [hx]))]

/-- **`List[T]` field** (T a base type other than Any): `get_arg_options` gives `nargs='*'` with
    T's converter, and `postprocess` returns the list — any length, the empty list included. -/
theorem c02_field_list (name : Str) (b : BTy) (hb : b ≠ .any) (d : DefaultV) (hd : d ≠ .value (.sc .none))
    (vs : List Scalar) :
    let f : FieldSpec := { name := name, ty := { inner := .list (.base b), optional := false }, default := d }
    (∃ ao, argOptions f = some ao ∧ ao.nargs = .star ∧ ao.conv = .base (bconvOf b) ∧ ao.choices = none) ∧
      postprocess f (segVal .star vs) = .ok (.list vs) := by
  intro f
  constructor
  · refine ⟨{ nargs := .star, conv := .base (bconvOf b), choices := none, required := decide (d = .missing),
               default := defaultVal d, isBool := false }, ?_, rfl, rfl, rfl⟩
    simp only [argOptions, f]
    have : (d = DefaultV.value (Val.sc Scalar.none)) = False := by simp [hd]
    simp only [this, decide_false, Bool.false_eq_true, Bool.or_self, ↓reduceIte]
    cases b <;> simp_all [containerConv]
  · have : segVal .star vs = .list vs := by
      unfold segVal; split <;> simp_all
    rw [this]
    simp [postprocess, f, tupleToList]

/-- **`Tuple[T, ...]` field**: `nargs='*'`, T's converter, and `postprocess` turns argparse's list
    into a tuple -/
theorem c02_field_vtuple (name : Str) (b : BTy) (d : DefaultV) (hd : d ≠ .value (.sc .none))
    (vs : List Scalar) :
    let f : FieldSpec := { name := name, ty := { inner := .vtuple (.base b), optional := false }, default := d }
    (∃ ao, argOptions f = some ao ∧ ao.nargs = .star ∧ ao.conv = .base (bconvOf b) ∧ ao.choices = none) ∧
      postprocess f (segVal .star vs) = .ok (.tuple vs) := by
  intro f
  constructor
  · refine ⟨{ nargs := .star, conv := .base (bconvOf b), choices := none, required := decide (d = .missing),
               default := defaultVal d, isBool := false }, ?_, rfl, rfl, rfl⟩
    simp only [argOptions, f]
    have : (d = DefaultV.value (Val.sc Scalar.none)) = False := by simp [hd]
    simp only [this, decide_false, Bool.false_eq_true, Bool.or_self, ↓reduceIte, convOfItem]
  · have : segVal .star vs = .list vs := by
      unfold segVal; split <;> simp_all
    rw [this]
    simp [postprocess, f, listToTuple]

/-- **plain `Enum` field**: argparse reads the member NAME as a string under `choices`, and
    `postprocess` maps the name back to the member -/
theorem c02_field_enum (name cls : Str) (ms : List Str) (m : Str) (hm : m ∈ ms) (d : DefaultV)
    (hd : d ≠ .value (.sc .none)) :
    let f : FieldSpec := { name := name, ty := { inner := .sc (.base (.enum cls ms)), optional := false }, default := d }
    ((argOptions f).map (fun ao => (ao.nargs, ao.conv, ao.choices)) = some (.one, .base .str, some ms)) ∧
      postprocess f (segVal .one [.str m]) = .ok (.sc (.enum cls m)) := by
  intro f
  constructor
  · simp only [argOptions, f]
    have : (d = DefaultV.value (Val.sc Scalar.none)) = False := by simp [hd]
    simp only [this, decide_false, Bool.false_eq_true, Bool.or_self, ↓reduceIte, Option.map_some]
  · simp [postprocess, f, segVal, hm]

/-- **`Optional[T]` scalar field**: `nargs='?'`, never required; one token gives the value, the bare
    option gives `None` -/
theorem c02_field_optional (name : Str) (b : BTy) (d : DefaultV) (v : Scalar) :
    let f : FieldSpec := { name := name, ty := { inner := .sc (.base b), optional := true }, default := d }
    (∃ ao, argOptions f = some ao ∧ ao.nargs = .opt ∧ ao.conv = .base (bconvOf b) ∧ ao.required = false) ∧
      postprocess f (segVal .opt [v]) = .ok (.sc v) ∧ postprocess f (segVal .opt []) = .ok (.sc .none) := by
  intro f
  refine ⟨⟨{ nargs := .opt, conv := .base (bconvOf b), choices := none, required := false,
             default := defaultVal d, isBool := false }, ?_, rfl, rfl, rfl⟩, ?_, ?_⟩
  · simp [argOptions, f, convOfItem]
  · simp [postprocess, f, segVal]
  · simp [postprocess, f, segVal]

/-! ### 4a. heterogeneous tuples: the `parse_tuple` closure (stateful `type=` callable)

  Since fix b1a5942 the closure's call counter wraps (`item k mod n`), so whenever the counter is a
  multiple of the arity — which it is at the start of every occurrence — the `n` tokens of one
  occurrence are converted with the `n` item types in order. -/

/-- `n` successful calls of the closure of action `i` -/
def bumpN (cs : List Nat) (i : Nat) : Nat → List Nat
  | 0 => cs
  | n + 1 => bumpN (bump cs i) i n

theorem bumpN_getD (cs : List Nat) (i : Nat) (hi : i < cs.length) (n : Nat) :
    (bumpN cs i n).getD i 0 = cs.getD i 0 + n := by
  induction n generalizing cs with
  | zero => rfl
  | succ m ih =>
    simp only [bumpN]
    rw [ih (bump cs i) (by rw [bump_length]; exact hi), bump_getD cs i hi]
    omega

theorem succ_mod_of_lt (k n d : Nat) (hk : k % n = d) (hd : d + 1 < n) : (k + 1) % n = d + 1 := by
  have h := Nat.div_add_mod k n
  rw [hk] at h
  rw [← h, Nat.add_assoc, Nat.mul_add_mod]
  exact Nat.mod_eq_of_lt hd

/-- the `parse_tuple` closure reads the remaining items of a tuple, each with its own type -/
theorem getValuesList_tuple_aux (fenv : FEnv) (act : Act) (i : Nat) (all : List BTy)
    (hconv : act.conv = .tupleCounter (all.map bconvOf)) (hch : act.choices = none) :
    ∀ (todo : List (Scalar × BTy)) (done : List BTy) (cs : List Nat),
      all = done ++ todo.map (·.2) → i < cs.length → cs.getD i 0 % all.length = done.length →
      (∀ p ∈ todo, HasBTy fenv p.1 p.2) →
      getValuesList fenv act i cs (todo.map (fun p => tokenOf p.1)) =
        .ok (todo.map (·.1), bumpN cs i todo.length) := by
  intro todo
  induction todo with
  | nil => intro done cs _ _ _ _; rfl
  | cons p rest ih =>
    intro done cs hall hi hk hty
    obtain ⟨v, b⟩ := p
    have hlen : all.length = done.length + (rest.length + 1) := by
      rw [hall]; simp
    have hidx : (all.map bconvOf)[cs.getD i 0 % (all.map bconvOf).length]? = some (bconvOf b) := by
      rw [List.length_map, hk, hall]
      simp
    have hv := bconv_token fenv b v (hty (v, b) (by simp))
    have hone : getValue fenv act i cs (tokenOf v) = .ok (v, bump cs i) := by
      unfold getValue
      simp only [hconv, Conv.apply, hidx, hv, hch]
    simp only [List.map_cons, getValuesList, hone, List.length_cons, bumpN]
    cases rest with
    | nil => rfl
    | cons q rest' =>
      have := ih (done ++ [b]) (bump cs i) (by rw [hall]; simp) (by rw [bump_length]; exact hi)
        (by
          rw [bump_getD cs i hi, List.length_append, List.length_singleton]
          apply succ_mod_of_lt _ _ _ hk
          rw [hlen]; simp)
        (fun p hp => hty p (by simp [hp]))
      simp only [this]

/-- **a heterogeneous `Tuple[T1, …, Tn]` occurrence**: with the closure counter at a multiple of the
    arity, the canonical tokens of values `v1 : T1, …, vn : Tn` convert back to exactly those values
    (each with its own item type), and the counter is again a multiple of the arity afterwards — so
    the same holds for the next occurrence and the next parse (any number of them). -/
theorem c02_tuple_occurrence (fenv : FEnv) (act : Act) (i : Nat) (items : List (Scalar × BTy))
    (hconv : act.conv = .tupleCounter (items.map (fun p => bconvOf p.2))) (hch : act.choices = none)
    (cs : List Nat) (hi : i < cs.length) (hk : cs.getD i 0 % items.length = 0)
    (hty : ∀ p ∈ items, HasBTy fenv p.1 p.2) :
    getValuesList fenv act i cs (items.map (fun p => tokenOf p.1)) =
        .ok (items.map (·.1), bumpN cs i items.length) ∧
      (bumpN cs i items.length).getD i 0 % items.length = 0 := by
  constructor
  · have := getValuesList_tuple_aux fenv act i (items.map (·.2))
      (by rw [hconv, List.map_map]; rfl) hch items [] cs (by simp) hi (by simpa using hk) hty
    exact this
  · rw [bumpN_getD cs i hi, Nat.add_mod, hk]
    simp

theorem tupleConv_hetero (bs : List BTy) (hne : allEq (bs.map ITy.base) = false) :
    tupleConv (bs.map ITy.base) = some (.tupleCounter (bs.map bconvOf)) := by
  cases bs with
  | nil => simp [allEq] at hne
  | cons b rest =>
    simp only [List.map_cons] at hne ⊢
    simp only [tupleConv, hne, Bool.false_eq_true, ↓reduceIte, List.filterMap_cons, List.filterMap_map]
    clear hne
    simp
    induction rest with
    | nil => rfl
    | cons x xs ih => simp [ih]

/-- **`Tuple[T1, …, Tn]` field** (item types not all equal): `get_arg_options` gives `nargs = n` and
    the `parse_tuple` closure over the item types; `postprocess` turns argparse's list into a tuple -/
theorem c02_field_tuple (name : Str) (bs : List BTy) (hne : allEq (bs.map ITy.base) = false)
    (d : DefaultV) (hd : d ≠ .value (.sc .none)) (vs : List Scalar) (hvs : 2 ≤ vs.length) :
    let f : FieldSpec := { name := name, ty := { inner := .tuple (bs.map ITy.base), optional := false }, default := d }
    (argOptions f).map (fun ao => (ao.nargs, ao.conv, ao.choices, ao.isBool))
        = some (.num bs.length, .tupleCounter (bs.map bconvOf), none, false) ∧
      postprocess f (segVal (.num bs.length) vs) = .ok (.tuple vs) := by
  intro f
  constructor
  · simp only [argOptions, f]
    have hdn : (d = DefaultV.value (Val.sc Scalar.none)) = False := by simp [hd]
    simp only [hdn, decide_false, Bool.false_eq_true, Bool.or_self, ↓reduceIte, tupleConv_hetero bs hne]
    simp
  · have : segVal (.num bs.length) vs = .list vs := by
      unfold segVal
      match vs, hvs with
      | _ :: _ :: _, _ => rfl
    rw [this]
    simp [postprocess, f, listToTuple]

/-! ### 4b. the whole flat pipeline: `parseFlat` = `postprocess` over what the engine stored

  `parse(Cls, args=render segs)` for one flat dataclass: `tableOf` (one action per field after the
  built-in help), `runStrict`, then `postprocess` per field — composed, for any number of fields and
  segments. -/

/-- the table of a flat dataclass: action `i+1` is the action of field `i` -/
theorem tableOf_get (cfg : Cfg) (dest : Str) (fs : List FieldSpec) (tbl : List Act)
    (h : tableOf cfg dest fs = some tbl) (i : Nat) (hi : i < fs.length) :
    ∃ a, fieldAct cfg dest fs[i] = some a ∧ tbl[i + 1]? = some a := by
  unfold tableOf at h
  cases hm : fs.mapM (fieldAct cfg dest) with
  | none => simp [hm] at h
  | some acts =>
    simp only [hm, Option.map_some, Option.some.injEq] at h
    subst h
    have key : ∀ (l : List FieldSpec) (as : List Act), l.mapM (fieldAct cfg dest) = some as →
        ∀ j (hj : j < l.length), ∃ a, fieldAct cfg dest l[j] = some a ∧ as[j]? = some a := by
      intro l
      induction l with
      | nil => intro as _ j hj; simp at hj
      | cons f rest ih =>
        intro as has j hj
        rw [List.mapM_cons] at has
        cases hf : fieldAct cfg dest f with
        | none => simp [hf] at has
        | some a0 =>
          cases hr : rest.mapM (fieldAct cfg dest) with
          | none => simp [hf, hr] at has
          | some as' =>
            simp only [hf, hr, Option.pure_def, Option.bind_eq_bind, Option.bind_some,
              Option.some.injEq] at has
            subst has
            cases j with
            | zero => exact ⟨a0, by simpa using hf, rfl⟩
            | succ j' =>
              obtain ⟨a, ha1, ha2⟩ := ih as' hr j' (by simpa using hj)
              exact ⟨a, by simpa using ha1, by simpa using ha2⟩
    obtain ⟨a, ha1, ha2⟩ := key fs acts hm i hi
    exact ⟨a, ha1, by simpa using ha2⟩

/-- a non-boolean field becomes a `store` action carrying exactly what `get_arg_options` says -/
theorem fieldAct_store (cfg : Cfg) (dest : Str) (f : FieldSpec) (ao : ArgOpts)
    (hao : argOptions f = some ao) (hb : ao.isBool = false) :
    ∃ a, fieldAct cfg dest f = some a ∧ a.kind = .store ∧ a.dest = dest ++ '.' :: f.name ∧
      a.nargs = ao.nargs ∧ a.conv = ao.conv ∧ a.choices = ao.choices ∧ a.required = ao.required ∧
      a.default = some ao.default := by
  unfold fieldAct
  simp only [hao, Option.map_some, hb, Bool.false_eq_true, ↓reduceIte]
  exact ⟨_, rfl, rfl, rfl, rfl, rfl, rfl, rfl, rfl⟩

/-- `postprocess` field by field -/
theorem postAll_eq (dest : Str) (ns : List (Str × Val)) (fs : List FieldSpec) (g : FieldSpec → Val)
    (h : ∀ f ∈ fs, postprocess f ((ns.lookup (dest ++ '.' :: f.name)).getD (defaultVal f.default))
      = .ok (g f)) :
    postAll dest ns fs = .ok (fs.map (fun f => (f.name, g f))) := by
  induction fs with
  | nil => rfl
  | cons f rest ih =>
    simp only [postAll, h f (by simp), ih (fun x hx => h x (by simp [hx])), List.map_cons]

theorem argOptions_congr (f g : FieldSpec) (ht : f.ty = g.ty) (hd : f.default = g.default) :
    argOptions f = argOptions g := by
  cases f; cases g; simp only at ht hd; subst ht hd; rfl

theorem postprocess_congr (f g : FieldSpec) (raw : Val) (ht : f.ty = g.ty) :
    postprocess f raw = postprocess g raw := by
  cases f; cases g; simp only at ht; subst ht; rfl

/-- **C02 (flat pipeline).** For one flat dataclass, a command line of well-formed option segments
    (exact option strings, tokens fitting `nargs` and converting) is accepted and every field comes
    out as `postprocess` of what the segments stored over the defaults — any number of fields and
    segments, any order. -/
theorem c02_flat_pipeline (fenv : FEnv) (cfg : Cfg) (dest : Str) (fs : List FieldSpec)
    (tbl : List Act) (htbl : tableOf cfg dest fs = some tbl) (vsegs : List VSeg)
    (hlex : ∀ v ∈ vsegs, LexOk tbl v.seg)
    (hok : ∀ v ∈ vsegs, SegOk fenv tbl (tbl.map (fun _ => 0)) v)
    (hfin : ∀ p ∈ tbl.zipIdx, FinishQuiet fenv
      { ns := storeAll tbl (initNs tbl) vsegs, extras := [],
        seen := (vsegs.map (·.seg.idx)).reverse ++ [], counters := tbl.map (fun _ => 0) } p.1 p.2)
    (g : FieldSpec → Val)
    (hpost : ∀ f ∈ fs, postprocess f (((storeAll tbl (initNs tbl) vsegs).lookup
      (dest ++ '.' :: f.name)).getD (defaultVal f.default)) = .ok (g f)) :
    parseFlat fenv cfg dest fs (render (vsegs.map (·.seg))) =
      .ok (fs.map (fun f => (f.name, g f))) := by
  unfold parseFlat
  simp only [htbl]
  rw [c02_engine_roundtrip fenv tbl _ vsegs hlex hok hfin]
  simp only [postAll_eq dest _ fs g hpost]

/-- **C02 (any non-boolean field, end to end: what reaches `postprocess`).** In a flat dataclass,
    if exactly one segment targets field `i` (action `i+1`), the raw value `postprocess` receives
    for that field is the segment's converted values shaped by the field's `nargs` — wherever the
    segment stands, whatever the other fields are. The per-annotation lemmas (`c02_field_list`,
    `…_vtuple`, `…_tuple`, `…_enum`, `…_optional`) then say what `postprocess` makes of it. -/
theorem c02_flat_field_raw (cfg : Cfg) (dest : Str) (fs : List FieldSpec)
    (tbl : List Act) (htbl : tableOf cfg dest fs = some tbl)
    (i : Nat) (hi : i < fs.length) (ao : ArgOpts) (hao : argOptions fs[i] = some ao)
    (hbool : ao.isBool = false)
    (pre post : List VSeg) (v : VSeg) (hv : v.seg.idx = i + 1)
    (hpostd : ∀ w ∈ post, ∀ a, tbl[w.seg.idx]? = some a → a.dest ≠ dest ++ '.' :: fs[i].name) :
    ((storeAll tbl (initNs tbl) (pre ++ v :: post)).lookup (dest ++ '.' :: fs[i].name)).getD
      (defaultVal fs[i].default) = segVal ao.nargs v.vals := by
  obtain ⟨a, hfa, hta⟩ := tableOf_get cfg dest fs tbl htbl i hi
  obtain ⟨a', hfa', _, hdest, hnargs, _⟩ := fieldAct_store cfg dest fs[i] ao hao hbool
  rw [hfa] at hfa'
  cases hfa'
  have hidx : tbl[v.seg.idx]? = some a := by rw [hv]; exact hta
  have hlook := storeAll_written tbl (initNs tbl) pre post v a hidx
    (fun w hw c hc' => by rw [hdest]; exact hpostd w hw c hc')
  rw [hdest, hnargs] at hlook
  rw [hlook]
  rfl

/-- **C02 (a heterogeneous `Tuple[T1,…,Tn]` field, end to end)**: the field's value in the parse
    result is the tuple of the `n` converted values -/
theorem c02_flat_tuple_field (cfg : Cfg) (dest : Str) (fs : List FieldSpec)
    (tbl : List Act) (htbl : tableOf cfg dest fs = some tbl)
    (i : Nat) (hi : i < fs.length) (bs : List BTy) (hne : allEq (bs.map ITy.base) = false)
    (hty : fs[i].ty = { inner := .tuple (bs.map ITy.base), optional := false })
    (hd : fs[i].default ≠ .value (.sc .none))
    (pre post : List VSeg) (v : VSeg) (hv : v.seg.idx = i + 1) (hlen : 2 ≤ v.vals.length)
    (hpostd : ∀ w ∈ post, ∀ a, tbl[w.seg.idx]? = some a → a.dest ≠ dest ++ '.' :: fs[i].name) :
    postprocess fs[i] (((storeAll tbl (initNs tbl) (pre ++ v :: post)).lookup
      (dest ++ '.' :: fs[i].name)).getD (defaultVal fs[i].default)) = .ok (.tuple v.vals) := by
  obtain ⟨hopt, hpp⟩ := c02_field_tuple fs[i].name bs hne fs[i].default hd v.vals hlen
  have hcongr := argOptions_congr fs[i]
    { name := fs[i].name, ty := { inner := .tuple (bs.map ITy.base), optional := false }, default := fs[i].default }
    hty rfl
  cases hao : argOptions fs[i] with
  | none => rw [← hcongr, hao] at hopt; simp at hopt
  | some ao =>
    rw [← hcongr, hao] at hopt
    simp only [Option.map_some, Option.some.injEq, Prod.mk.injEq] at hopt
    obtain ⟨hn, _, _, hb⟩ := hopt
    rw [c02_flat_field_raw cfg dest fs tbl htbl i hi ao hao hb pre post v hv hpostd, hn, ← hpp]
    exact postprocess_congr _ _ _ hty

/-- **C02 (a `List[T]` field, end to end).** In a flat dataclass whose `i`-th field is
    `name: List[T]` (T a base type other than Any), if exactly one segment targets that field
    (action `i+1`) with the canonical tokens of `vs`, then the field's value in the parse result is
    the list `vs` — composed from the table construction, the engine round trip, the last-writer
    lookup and `postprocess`. -/
theorem c02_flat_list_field (fenv : FEnv) (cfg : Cfg) (dest : Str) (fs : List FieldSpec)
    (tbl : List Act) (htbl : tableOf cfg dest fs = some tbl)
    (i : Nat) (hi : i < fs.length) (b : BTy) (hb : b ≠ .any)
    (hty : fs[i].ty = { inner := .list (.base b), optional := false })
    (hd : fs[i].default ≠ .value (.sc .none))
    (pre post : List VSeg) (v : VSeg) (hv : v.seg.idx = i + 1)
    (hpostd : ∀ w ∈ post, ∀ a, tbl[w.seg.idx]? = some a → a.dest ≠ dest ++ '.' :: fs[i].name) :
    postprocess fs[i] (((storeAll tbl (initNs tbl) (pre ++ v :: post)).lookup
      (dest ++ '.' :: fs[i].name)).getD (defaultVal fs[i].default)) = .ok (.list v.vals) := by
  obtain ⟨a, hfa, hta⟩ := tableOf_get cfg dest fs tbl htbl i hi
  obtain ⟨⟨ao, hao, hn, hc, hch⟩, hpp⟩ := c02_field_list fs[i].name b hb fs[i].default hd v.vals
  -- `argOptions` / `postprocess` look at the annotation and the default only
  have hao' : argOptions fs[i] = some ao := by
    rw [← hao]; exact argOptions_congr _ _ hty rfl
  have hbool : ao.isBool = false := by
    simp only [argOptions] at hao
    have hdn : (fs[i].default = DefaultV.value (Val.sc Scalar.none)) = False := by simp [hd]
    simp only [hdn, decide_false, Bool.false_eq_true, Bool.or_self, ↓reduceIte] at hao
    cases hcc : containerConv (.base b) with
    | none => simp [hcc] at hao
    | some c => simp only [hcc, Option.map_some, Option.some.injEq] at hao; subst hao; rfl
  obtain ⟨a', hfa', _, hdest, hnargs, _⟩ := fieldAct_store cfg dest fs[i] ao hao' hbool
  rw [hfa] at hfa'
  cases hfa'
  have hidx : tbl[v.seg.idx]? = some a := by rw [hv]; exact hta
  have hlook := storeAll_written tbl (initNs tbl) pre post v a hidx
    (fun w hw c hc' => by rw [hdest]; exact hpostd w hw c hc')
  rw [hdest, hnargs, hn] at hlook
  rw [hlook]
  simp only [Option.getD_some]
  rw [← hpp]
  exact postprocess_congr _ _ _ hty

/-! ### 5. non-vacuity: a concrete heterogeneous command line meets every hypothesis -/

def demoTbl : List Act :=
  [ helpAct,
    { opts := ["--n".toList], dest := "c.n".toList, kind := .store, nargs := .one, conv := .base .int,
      choices := none, required := false, default := some (.sc (.int 0)) },
    { opts := ["--l".toList], dest := "c.l".toList, kind := .store, nargs := .star, conv := .base .str,
      choices := none, required := false, default := some (.list []) } ]

example : runStrict [] demoTbl [0, 0, 0] ["--l".toList, "a".toList, "".toList, "--n".toList, "-5".toList] =
    .ok [("c.n".toList, .sc (.int (-5))), ("c.l".toList, .list [.str "a".toList, .str []])] [] [0, 0, 0] := by
  decide

example : LexOk demoTbl ⟨2, "--l".toList, ["a".toList, [] ]⟩ :=
  ⟨by decide, ⟨_, rfl⟩, by decide, by
    intro t ht
    simp only [List.mem_cons, List.not_mem_nil, or_false] at ht
    rcases ht with h | h <;> subst h <;> simp [NoDash]⟩

/-- the flat pipeline on a concrete dataclass `n: int = 0; l: List[str] = []` registered at `c` -/
def demoFs : List FieldSpec :=
  [ { name := "n".toList, ty := { inner := .sc (.base .int), optional := false }, default := .value (.sc (.int 0)) },
    { name := "l".toList, ty := { inner := .list (.base .str), optional := false }, default := .value (.list []) } ]

def demoCfg : Cfg := { dash := .underscore, gen := .flat, nest := .default }

example : (match parseFlat [] demoCfg "c".toList demoFs
      ["--l".toList, "a".toList, "".toList, "--n".toList, "-5".toList] with
    | .ok r => some r | _ => none)
    = some [("n".toList, .sc (.int (-5))), ("l".toList, .list [.str "a".toList, .str []])] := by
  decide +kernel

/-- the hypotheses of `c02_flat_list_field` are met by that dataclass (field 1, action 2) -/
example : ∃ tbl, tableOf demoCfg "c".toList demoFs = some tbl ∧ tbl.length = 3 ∧
    demoFs[1].ty = { inner := .list (.base .str), optional := false } ∧
    demoFs[1].default ≠ .value (.sc .none) := by
  refine ⟨_, rfl, by decide +kernel, rfl, by decide⟩

end SpVerif.C02
