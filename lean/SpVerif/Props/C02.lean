/-
  C02 — A value written on the command line is the value the field receives.

  Theorems about `Model/Engine` + `Model/Fields`: rendering a typed assignment as canonical tokens
  and parsing it returns exactly that assignment over the defaults, for any number of fields, any
  order of the option segments, and both spellings.

  Layout:
    1. one occurrence (`take_action`): store actions and the boolean action, closure counters threaded
    2. the whole command line (`c02_engine_roundtrip`): either spelling, negative numbers, any table
    3. last-writer lookup, order independence, spelling independence
    4. canonical tokens convert back (per base type; plain negative integers are argument tokens)
    5. heterogeneous tuples (the stateful `parse_tuple` closure)
    6. per annotation: `get_arg_options` / `postprocess` (every supported annotation)
    7. defaults: what the namespace holds for an unmentioned field, `finish` is quiet
    8. the headline: `c02_roundtrip` (closed statement for a flat dataclass) and its corollaries
    9. what the code does NOT satisfy: `Optional[Literal]` / `List[Literal]` / non-string `choice`
   10. non-vacuity examples
-/
import SpVerif.Lemmas.EngineMore
import SpVerif.Props.C04
import SpVerif.Model.Fields
import Mathlib.Data.Nat.Digits.Defs
namespace SpVerif.C02
open SpVerif

/-! ### 1. per-segment: what `take_action` stores -/

/-- all tokens convert (and pass `choices`) — stated with the model's own converter so that it
    covers stateful `parse_tuple` closures too -/
def ConvAll (fenv : FEnv) (act : Act) (i : Nat) (cs : List Nat) (toks : List Str)
    (vs : List Scalar) (cs' : List Nat) : Prop :=
  getValuesList fenv act i cs toks = .ok (vs, cs')

theorem getValues_eq (fenv : FEnv) (act : Act) (i : Nat) (cs cs' : List Nat) (toks : List Str)
    (vs : List Scalar) (h : ConvAll fenv act i cs toks vs cs') :
    getValues fenv act i cs toks = .ok (segVal act.nargs vs, cs') := by
  unfold ConvAll at h
  rw [getValues_ok_iff, h]

/-- what an occurrence with converted items `vals` leaves at the action's destination:
    `_get_values`' packaging for a store action; for the boolean action the converted word, or —
    for the bare flag — `True` for a positive and `False` for a negative option string -/
def storedVal (a : Act) (opt : Str) (vals : List Scalar) : Val :=
  match a.kind with
  | .boolOpt negs => (match vals with
    | [.bool b] => .sc (.bool b)
    | _ => .sc (.bool (!negs.contains opt)))
  | _ => segVal a.nargs vals

/-- the occurrence is one `take_action` accepts: a `store` action, or the boolean action used
    through a positive option string, bare or with one boolean word -/
def KindOk (a : Act) (opt : Str) (vals : List Scalar) : Prop :=
  a.kind = .store ∨
    ∃ negs, a.kind = .boolOpt negs ∧ a.nargs = .opt ∧ negs.contains opt = false ∧
      (vals = [] ∨ ∃ b, vals = [.bool b])

/-- one accepted occurrence writes exactly `storedVal` at the action's destination -/
theorem takeAction_ok (fenv : FEnv) (tbl : List Act) (st : St) (i : Nat) (o : Str)
    (toks : List Str) (act : Act) (vs : List Scalar) (cs' : List Nat)
    (hact : tbl[i]? = some act) (hk : KindOk act o vs)
    (hconv : ConvAll fenv act i st.counters toks vs cs') :
    takeAction fenv tbl st i o toks =
      .ok { st with ns := setKey st.ns act.dest (storedVal act o vs), seen := i :: st.seen,
                    counters := cs' } := by
  unfold takeAction
  rcases hk with hk | ⟨negs, hk, hn, hneg, hv⟩
  · simp only [hact, hk, getValues_eq fenv act i st.counters cs' toks vs hconv, storedVal]
  · simp only [hact, hk, getValues_eq fenv act i st.counters cs' toks vs hconv, storedVal, hn, hneg]
    rcases hv with rfl | ⟨b, rfl⟩
    · simp [segVal]
    · simp [segVal]

/-- the old statement (store actions) is the special case -/
theorem takeAction_store (fenv : FEnv) (tbl : List Act) (st : St) (i : Nat) (o : Str)
    (toks : List Str) (act : Act) (vs : List Scalar) (cs' : List Nat)
    (hact : tbl[i]? = some act) (hk : act.kind = .store)
    (hconv : ConvAll fenv act i st.counters toks vs cs') :
    takeAction fenv tbl st i o toks =
      .ok { st with ns := setKey st.ns act.dest (segVal act.nargs vs), seen := i :: st.seen,
                    counters := cs' } := by
  rw [takeAction_ok fenv tbl st i o toks act vs cs' hact (Or.inl hk) hconv]
  simp [storedVal, hk]

/-- **the boolean action, positive option with a word** (`--flag False`): the word's value is stored -/
theorem takeAction_boolOpt (fenv : FEnv) (tbl : List Act) (st : St) (i : Nat) (o t : Str) (act : Act)
    (negs : List Str) (b : Bool) (hact : tbl[i]? = some act) (hk : act.kind = .boolOpt negs)
    (hn : act.nargs = .opt) (hc : act.conv = .base .bool) (hch : act.choices = none)
    (hpos : negs.contains o = false) (ht : str2bool t = some b) :
    takeAction fenv tbl st i o [t] =
      .ok { st with ns := setKey st.ns act.dest (.sc (.bool b)), seen := i :: st.seen } := by
  have hconv : ConvAll fenv act i st.counters [t] [.bool b] st.counters := by
    simp [ConvAll, getValuesList, getValue, hc, Conv.apply, BConv.apply, ht, hch]
  rw [takeAction_ok fenv tbl st i o [t] act [.bool b] st.counters hact
    (Or.inr ⟨negs, hk, hn, hpos, Or.inr ⟨b, rfl⟩⟩) hconv]
  simp [storedVal, hk]

/-! ### 2. whole command line -/

/-- `n` successful calls of the `parse_tuple` closure of action `i` -/
def bumpN (cs : List Nat) (i : Nat) : Nat → List Nat
  | 0 => cs
  | n + 1 => bumpN (bump cs i) i n

/-- the closure counters after one accepted occurrence: a `parse_tuple` closure was called once per
    token, every other `type=` callable is stateless -/
def segCounters (tbl : List Act) (cs : List Nat) (s : Seg) : List Nat :=
  match tbl[s.idx]? with
  | some a => (match a.conv with
    | .tupleCounter _ => bumpN cs s.idx s.toks.length
    | _ => cs)
  | none => cs

/-- a fully specified segment: which action, the tokens, the scalars they denote, the spelling -/
structure VSeg where
  seg : Seg
  vals : List Scalar
  eq : Bool := false

def VSeg.eseg (v : VSeg) : ESeg := ⟨v.seg, v.eq⟩

/-- namespace after all segments: left-to-right `setattr` -/
def storeAll (tbl : List Act) (ns : List (Str × Val)) : List VSeg → List (Str × Val)
  | [] => ns
  | v :: vs => match tbl[v.seg.idx]? with
    | some a => storeAll tbl (setKey ns a.dest (storedVal a v.seg.opt v.vals)) vs
    | none => storeAll tbl ns vs

/-- the closure counters after all segments -/
def countersAll (tbl : List Act) (cs : List Nat) (vsegs : List VSeg) : List Nat :=
  (vsegs.map (·.seg)).foldl (segCounters tbl) cs

/-- every segment is an occurrence `take_action` accepts whose tokens fit `nargs` and convert —
    from ANY aligned state of the `parse_tuple` closure counters (so heterogeneous tuples, whose
    closure is stateful, are included; stateless converters ignore the counters) -/
structure SegOk (fenv : FEnv) (tbl : List Act) (v : VSeg) : Prop where
  ok : ∃ a, tbl[v.seg.idx]? = some a ∧ KindOk a v.seg.opt v.vals ∧ arityOk a.nargs v.seg.toks.length ∧
    ∀ cs, C04.Aligned tbl cs → ConvAll fenv a v.seg.idx cs v.seg.toks v.vals (segCounters tbl cs v.seg)

theorem kindOk_ne_help (a : Act) (o : Str) (vs : List Scalar) (h : KindOk a o vs) : a.kind ≠ .help := by
  rcases h with h | ⟨negs, h, _⟩ <;> rw [h] <;> simp

theorem arityOk_num (n : NArgs) (k : Nat) (h : arityOk n k) : ∀ m, n = .num m → k = m := by
  intro m hm; subst hm; exact h

theorem applySegs_ok (fenv : FEnv) (tbl : List Act) (vsegs : List VSeg) (st : St)
    (hal : C04.Aligned tbl st.counters) (h : ∀ v ∈ vsegs, SegOk fenv tbl v) :
    applySegs fenv tbl st (vsegs.map (·.seg)) =
      .ok { ns := storeAll tbl st.ns vsegs, extras := st.extras,
            seen := (vsegs.map (·.seg.idx)).reverse ++ st.seen,
            counters := countersAll tbl st.counters vsegs } ∧
      C04.Aligned tbl (countersAll tbl st.counters vsegs) := by
  induction vsegs generalizing st with
  | nil => exact ⟨by simp [applySegs, storeAll, countersAll], hal⟩
  | cons v vs ih =>
    obtain ⟨a, ha, hk, har, hconv⟩ := (h v (by simp)).ok
    have hstep := takeAction_ok fenv tbl st v.seg.idx v.seg.opt v.seg.toks a v.vals _ ha hk
      (hconv st.counters hal)
    have hal' : C04.Aligned tbl (segCounters tbl st.counters v.seg) := by
      have := C04.takeAction_aligned fenv tbl st _ v.seg.idx v.seg.opt v.seg.toks hal
        (fun act m hact hm => by
          rw [ha] at hact; cases hact
          exact arityOk_num _ _ har m hm) hstep
      exact this
    obtain ⟨ih1, ih2⟩ := ih
      { ns := setKey st.ns a.dest (storedVal a v.seg.opt v.vals), extras := st.extras,
        seen := v.seg.idx :: st.seen, counters := segCounters tbl st.counters v.seg }
      hal' (fun x hx => h x (by simp [hx]))
    simp only [List.map_cons, applySegs, hstep]
    simp only at ih1 ih2 ⊢
    refine ⟨?_, by simpa [countersAll] using ih2⟩
    rw [ih1]
    simp [storeAll, ha, countersAll]

/-! #### `finish`: required check + conversion of string defaults -/

/-- argparse re-converts a string default of an unseen action with `type=`; the default is *quiet*
    when that returns the same string -/
def QuietDefault (fenv : FEnv) (a : Act) : Prop :=
  ∀ s, a.default = some (.sc (.str s)) → ∀ k, a.conv.apply fenv k s = .ok (.str s)

/-- `finish` has nothing to do for action `i`: it was seen, or it is not required and its default
    is quiet -/
def FinishQuiet (fenv : FEnv) (seen : List Nat) (a : Act) (i : Nat) : Prop :=
  seen.contains i = true ∨ (a.required = false ∧ QuietDefault fenv a)

/-- no two entries of the namespace have the same key (true of every namespace the engine builds) -/
def KeysNodup (ns : List (Str × Val)) : Prop := (ns.map (·.1)).Nodup

theorem setKey_keys (ns : List (Str × Val)) (k : Str) (v : Val) :
    (setKey ns k v).map (·.1) =
      if ns.any (fun p => p.1 = k) then ns.map (·.1) else ns.map (·.1) ++ [k] := by
  unfold setKey
  split
  · simp only [List.map_map]
    apply List.map_congr_left
    intro p _
    simp only [Function.comp_apply]
    split
    · rename_i h; exact h.symm
    · rfl
  · simp

theorem setKey_nodup (ns : List (Str × Val)) (k : Str) (v : Val) (h : KeysNodup ns) :
    KeysNodup (setKey ns k v) := by
  unfold KeysNodup at h ⊢
  rw [setKey_keys]
  split
  · exact h
  · rename_i hany
    rw [List.nodup_append]
    refine ⟨h, by simp, ?_⟩
    intro a ha b hb
    simp only [List.mem_singleton] at hb
    subst hb
    intro hab
    subst hab
    apply hany
    simp only [List.mem_map] at ha
    obtain ⟨p, hp, hpk⟩ := ha
    simp only [List.any_eq_true, decide_eq_true_eq]
    exact ⟨p, hp, hpk⟩

theorem initNs_nodup (tbl : List Act) : KeysNodup (initNs tbl) := by
  unfold initNs
  have key : ∀ (l : List Act) (acc : List (Str × Val)), KeysNodup acc →
      KeysNodup (l.foldl (fun ns a => match a.default with
        | some d => if ns.any (fun p => p.1 = a.dest) then ns else ns ++ [(a.dest, d)]
        | none => ns) acc) := by
    intro l
    induction l with
    | nil => intro acc h; exact h
    | cons a rest ih =>
      intro acc h
      simp only [List.foldl_cons]
      apply ih
      cases a.default with
      | none => exact h
      | some d =>
        simp only
        split
        · exact h
        · rename_i hany
          have := setKey_nodup acc a.dest d h
          unfold setKey at this
          simpa [hany] using this
  exact key tbl [] (by simp [KeysNodup])

/-- rewriting a key with the value it already has changes nothing -/
theorem setKey_self (ns : List (Str × Val)) (k : Str) (v : Val) (hnd : KeysNodup ns)
    (hl : ns.lookup k = some v) : setKey ns k v = ns := by
  have hmem := lookup_some_mem ns k v hl
  have hany : ns.any (fun p => decide (p.1 = k)) = true := by
    simp only [List.any_eq_true, decide_eq_true_eq]
    exact ⟨(k, v), hmem, rfl⟩
  unfold setKey
  simp only [hany, ↓reduceIte]
  have : ∀ p ∈ ns, (if p.1 = k then (k, v) else p) = p := by
    intro p hp
    split
    · rename_i hpk
      -- two entries with key k in a key-nodup list are the same entry
      obtain ⟨pk, pv⟩ := p
      simp only at hpk
      subst hpk
      have hinj : ∀ (l : List (Str × Val)), (l.map (·.1)).Nodup → (pk, v) ∈ l → (pk, pv) ∈ l → v = pv := by
        intro l
        induction l with
        | nil => intro _ h1 _; simp at h1
        | cons q qs ih =>
          intro hn h1 h2
          simp only [List.map_cons, List.nodup_cons, List.mem_map, not_exists, not_and] at hn
          rcases List.mem_cons.mp h1 with e1 | m1 <;> rcases List.mem_cons.mp h2 with e2 | m2
          · rw [← e1] at e2; exact (Prod.mk.inj e2).2.symm
          · subst e1; exact (hn.1 (pk, pv) m2 rfl).elim
          · subst e2; exact (hn.1 (pk, v) m1 rfl).elim
          · exact ih hn.2 m1 m2
      rw [hinj ns hnd hmem hp]
    · rfl
  conv => rhs; rw [← List.map_id ns]
  exact List.map_congr_left (fun p hp => by simpa using this p hp)

theorem finish_quiet (fenv : FEnv) (tbl : List Act) (st : St) (l : List (Act × Nat))
    (hnd : KeysNodup st.ns)
    (h : ∀ p ∈ l, FinishQuiet fenv st.seen p.1 p.2) : finish fenv tbl st l = .ok st := by
  induction l with
  | nil => rfl
  | cons p ps ih =>
    obtain ⟨a, i⟩ := p
    have ih' := ih (fun q hq => h q (by simp [hq]))
    rw [finish]
    by_cases hs : st.seen.contains i = true
    · simp only [hs, ↓reduceIte, ih']
    · rcases h (a, i) (by simp) with hs' | ⟨hreq, hd⟩
      · exact absurd hs' hs
      · have hs2 : st.seen.contains i = false := by simpa using hs
        have hreq' : a.required = false := hreq
        simp only [hs2, hreq', Bool.false_eq_true, ↓reduceIte]
        cases hdef : a.default with
        | none => exact ih'
        | some d =>
          cases d with
          | list l => exact ih'
          | tuple l => exact ih'
          | sc x =>
            cases x with
            | str s =>
              simp only
              by_cases hl : st.ns.lookup a.dest = some (.sc (.str s))
              · have hc := hd s hdef (st.counters.getD i 0)
                have hk := setKey_self st.ns a.dest _ hnd hl
                simp only [hl, ↓reduceIte, hc, hk]
                exact ih'
              · simp only [hl, ↓reduceIte]
                exact ih'
            | int _ => exact ih'
            | float _ => exact ih'
            | bool _ => exact ih'
            | none => exact ih'
            | path _ => exact ih'
            | enum _ _ => exact ih'

theorem storeAll_nodup (tbl : List Act) (ns : List (Str × Val)) (vsegs : List VSeg)
    (h : KeysNodup ns) : KeysNodup (storeAll tbl ns vsegs) := by
  induction vsegs generalizing ns with
  | nil => exact h
  | cons v vs ih =>
    simp only [storeAll]
    split
    · exact ih _ (setKey_nodup ns _ _ h)
    · exact ih _ h

/-- **C02 (engine round trip).** A command line made of option segments — each an exact option
    string with its value tokens, written `--opt tok₁ … tokₖ` (every token one argparse lexes as an
    argument: no leading `-`, or a plain negative number) or `--opt=tok` (any token), fitting the
    action's `nargs` and converting under its `type=` (stateless, or the stateful `parse_tuple`
    closure from any aligned counter state), on a store action or the boolean action — is accepted,
    leaves no leftovers, and stores for every segment exactly the converted value; everything else
    keeps its initial (default) entry. Any number of segments, any order, any table. -/
theorem c02_engine_roundtrip (fenv : FEnv) (tbl : List Act) (cs : List Nat) (vsegs : List VSeg)
    (hal : C04.Aligned tbl cs)
    (hlex : ∀ v ∈ vsegs, LexOk' tbl v.eseg)
    (hok : ∀ v ∈ vsegs, SegOk fenv tbl v)
    (hfin : ∀ p ∈ tbl.zipIdx, (∃ v ∈ vsegs, v.seg.idx = p.2) ∨
      (p.1.required = false ∧ QuietDefault fenv p.1)) :
    runStrict fenv tbl cs (render' (vsegs.map (·.eseg))) =
      .ok (storeAll tbl (initNs tbl) vsegs) [] (countersAll tbl cs vsegs) := by
  unfold runStrict run
  rw [lexAll_render' tbl (vsegs.map (·.eseg)) (by
    intro s hs
    obtain ⟨v, hv, rfl⟩ := List.mem_map.mp hs
    exact hlex v hv)]
  simp only
  rw [consume_render' fenv tbl (vsegs.map (·.eseg)) _ _ (by
        have := segs_le_render' (vsegs.map (·.eseg))
        omega) (by
        intro s hs
        obtain ⟨v, hv, rfl⟩ := List.mem_map.mp hs
        obtain ⟨a, ha, hk, har, _⟩ := (hok v hv).ok
        exact ⟨a, ha, kindOk_ne_help a _ _ hk, har⟩)]
  have hmap : (vsegs.map (·.eseg)).map (·.seg) = vsegs.map (·.seg) := by
    simp [List.map_map, Function.comp_def, VSeg.eseg]
  rw [hmap]
  obtain ⟨happ, _⟩ := applySegs_ok fenv tbl vsegs
    { ns := initNs tbl, extras := [], seen := [], counters := cs } hal hok
  rw [happ]
  simp only
  rw [finish_quiet fenv tbl _ _ (storeAll_nodup tbl _ vsegs (initNs_nodup tbl)) (by
    intro p hp
    rcases hfin p hp with ⟨v, hv, hvi⟩ | hq
    · left
      simp only [List.append_nil, List.contains_eq_mem, List.mem_reverse, List.mem_map,
        decide_eq_true_eq]
      exact ⟨v, hv, hvi⟩
    · exact Or.inr hq)]

/-! ### 3. what a later lookup sees: the last segment for that destination, else the default -/

theorem lookup_map_same (ns : List (Str × Val)) (k : Str) (v : Val)
    (h : ns.any (fun p => p.1 = k) = true) :
    (ns.map (fun p => if p.1 = k then (k, v) else p)).lookup k = some v := by
  induction ns with
  | nil => simp at h
  | cons p ps ih =>
    obtain ⟨pk, pv⟩ := p
    by_cases hk : pk = k
    · subst hk; simp [List.lookup]
    · have hk' : (k == pk) = false := by simp; exact fun hh => hk hh.symm
      simp only [List.any_cons, hk, decide_false, Bool.false_or] at h
      simp only [List.map_cons, hk, ↓reduceIte, List.lookup, hk']
      exact ih h

theorem lookup_append_same (ns : List (Str × Val)) (k : Str) (v : Val)
    (h : ns.any (fun p => p.1 = k) = false) : (ns ++ [(k, v)]).lookup k = some v := by
  induction ns with
  | nil => simp [List.lookup]
  | cons p ps ih =>
    obtain ⟨pk, pv⟩ := p
    simp only [List.any_cons, Bool.or_eq_false_iff, decide_eq_false_iff_not] at h
    have hk' : (k == pk) = false := by simp; exact fun hh => h.1 hh.symm
    simp only [List.cons_append, List.lookup, hk']
    exact ih h.2

theorem lookup_setKey_same (ns : List (Str × Val)) (k : Str) (v : Val) :
    (setKey ns k v).lookup k = some v := by
  unfold setKey
  split
  · rename_i h; exact lookup_map_same ns k v h
  · rename_i h
    apply lookup_append_same ns k v
    cases hb : ns.any (fun p => decide (p.1 = k)) with
    | true => exact absurd hb h
    | false => rfl

theorem lookup_map_other (ns : List (Str × Val)) (k k' : Str) (v : Val) (hne : k' ≠ k) :
    (ns.map (fun p => if p.1 = k then (k, v) else p)).lookup k' = ns.lookup k' := by
  induction ns with
  | nil => rfl
  | cons p ps ih =>
    obtain ⟨pk, pv⟩ := p
    by_cases hk : pk = k
    · subst hk
      have : (k' == pk) = false := by simp [hne]
      simp only [List.map_cons, ↓reduceIte, List.lookup, this]
      exact ih
    · simp only [List.map_cons, hk, ↓reduceIte, List.lookup]
      split
      · rfl
      · exact ih

theorem lookup_append_other (ns : List (Str × Val)) (k k' : Str) (v : Val) (hne : k' ≠ k) :
    (ns ++ [(k, v)]).lookup k' = ns.lookup k' := by
  induction ns with
  | nil =>
    have : (k' == k) = false := by simp [hne]
    simp [List.lookup, this]
  | cons p ps ih =>
    obtain ⟨pk, pv⟩ := p
    simp only [List.cons_append, List.lookup]
    split
    · rfl
    · exact ih

theorem lookup_setKey_other (ns : List (Str × Val)) (k k' : Str) (v : Val) (hne : k' ≠ k) :
    (setKey ns k v).lookup k' = ns.lookup k' := by
  unfold setKey
  split
  · exact lookup_map_other ns k k' v hne
  · exact lookup_append_other ns k k' v hne

/-- a destination no segment writes keeps its initial entry -/
theorem storeAll_untouched (tbl : List Act) (ns : List (Str × Val)) (vsegs : List VSeg) (d : Str)
    (h : ∀ v ∈ vsegs, ∀ a, tbl[v.seg.idx]? = some a → a.dest ≠ d) :
    (storeAll tbl ns vsegs).lookup d = ns.lookup d := by
  induction vsegs generalizing ns with
  | nil => rfl
  | cons v vs ih =>
    simp only [storeAll]
    cases ha : tbl[v.seg.idx]? with
    | none => exact ih ns (fun x hx => h x (by simp [hx]))
    | some a =>
      simp only
      rw [ih _ (fun x hx => h x (by simp [hx]))]
      exact lookup_setKey_other ns a.dest d _ (fun hh => h v (by simp) a ha hh.symm)

/-- **the field receives the value written for it** (when written once), wherever its segment
    stands among the others — hence order-independence -/
theorem storeAll_written (tbl : List Act) (ns : List (Str × Val)) (pre post : List VSeg)
    (v : VSeg) (a : Act) (ha : tbl[v.seg.idx]? = some a)
    (hpost : ∀ w ∈ post, ∀ b, tbl[w.seg.idx]? = some b → b.dest ≠ a.dest) :
    (storeAll tbl ns (pre ++ v :: post)).lookup a.dest = some (storedVal a v.seg.opt v.vals) := by
  induction pre generalizing ns with
  | nil =>
    simp only [List.nil_append, storeAll, ha]
    rw [storeAll_untouched tbl _ post a.dest hpost]
    exact lookup_setKey_same ns a.dest _
  | cons p ps ih =>
    simp only [List.cons_append, storeAll]
    split <;> exact ih _

/-- two segments never write the same destination -/
def Distinct (tbl : List Act) (v w : VSeg) : Prop :=
  ∀ a b, tbl[v.seg.idx]? = some a → tbl[w.seg.idx]? = some b → a.dest ≠ b.dest

theorem distinct_symm (tbl : List Act) (v w : VSeg) (h : Distinct tbl v w) : Distinct tbl w v :=
  fun a b ha hb hh => h b a hb ha hh.symm

theorem lookup_of_writer (tbl : List Act) (ns : List (Str × Val)) (l : List VSeg)
    (hl : l.Pairwise (Distinct tbl)) (v : VSeg) (hv : v ∈ l) (a : Act)
    (ha : tbl[v.seg.idx]? = some a) :
    (storeAll tbl ns l).lookup a.dest = some (storedVal a v.seg.opt v.vals) := by
  obtain ⟨pre, post, rfl⟩ := List.append_of_mem hv
  apply storeAll_written tbl ns pre post v a ha
  intro w hw b hb
  have h1 := (List.pairwise_append.mp hl).2.1
  have h2 := (List.pairwise_cons.mp h1).1 w hw
  exact fun hh => h2 a b ha hb hh.symm

/-- **Order independence**: if every destination is written by at most one segment, any
    permutation of the segments yields the same value at every destination. -/
theorem c02_order_independent (tbl : List Act) (ns : List (Str × Val)) (l1 l2 : List VSeg)
    (hperm : l1.Perm l2) (hdistinct : l1.Pairwise (Distinct tbl)) (d : Str) :
    (storeAll tbl ns l1).lookup d = (storeAll tbl ns l2).lookup d := by
  have hd2 : l2.Pairwise (Distinct tbl) :=
    hperm.pairwise hdistinct (fun {v w} h => distinct_symm tbl v w h)
  by_cases hw : ∃ v ∈ l1, ∃ a, tbl[v.seg.idx]? = some a ∧ a.dest = d
  · obtain ⟨v, hv, a, ha, rfl⟩ := hw
    rw [lookup_of_writer tbl ns l1 hdistinct v hv a ha,
      lookup_of_writer tbl ns l2 hd2 v (hperm.mem_iff.mp hv) a ha]
  · have hno : ∀ l : List VSeg, (∀ v ∈ l, v ∈ l1) →
        ∀ v ∈ l, ∀ a, tbl[v.seg.idx]? = some a → a.dest ≠ d := by
      intro l hsub v hv a ha hd
      exact hw ⟨v, hsub v hv, a, ha, hd⟩
    rw [storeAll_untouched tbl ns l1 d (hno l1 (fun _ h => h)),
      storeAll_untouched tbl ns l2 d (hno l2 (fun v h => hperm.mem_iff.mpr h))]

/-! ### 4. canonical tokens convert back (per type) -/

/-- Python's `str(n)` for a natural number: most-significant digit first -/
def digitChar (d : Nat) : Char := Char.ofNat (48 + d)

def printNat (n : Nat) : Str :=
  if n = 0 then ['0'] else ((Nat.digits 10 n).reverse.map digitChar)

def printInt (i : Int) : Str :=
  match i with
  | .ofNat n => printNat n
  | .negSucc n => '-' :: printNat (n + 1)

theorem isDigit_digitChar (d : Nat) (h : d < 10) : isDigit (digitChar d) = true ∧
    (digitChar d).toNat - 48 = d := by
  have : d = 0 ∨ d = 1 ∨ d = 2 ∨ d = 3 ∨ d = 4 ∨ d = 5 ∨ d = 6 ∨ d = 7 ∨ d = 8 ∨ d = 9 := by omega
  rcases this with h | h | h | h | h | h | h | h | h | h <;> subst h <;> decide

theorem digitChar_ne_underscore (d : Nat) (h : d < 10) : digitChar d ≠ '_' := by
  have : d = 0 ∨ d = 1 ∨ d = 2 ∨ d = 3 ∨ d = 4 ∨ d = 5 ∨ d = 6 ∨ d = 7 ∨ d = 8 ∨ d = 9 := by omega
  rcases this with h | h | h | h | h | h | h | h | h | h <;> subst h <;> decide

/-- reading most-significant-first digits accumulates `ofDigits` of the reversed list -/
theorem parseNatGo_digits (ds : List Nat) (hds : ∀ d ∈ ds, d < 10) (acc : Nat) (prev : Bool)
    (hne : ds ≠ [] ∨ prev = true) :
    parseNatGo (ds.map digitChar) acc prev = some (ds.foldl (fun a d => a * 10 + d) acc) := by
  induction ds generalizing acc prev with
  | nil =>
    rcases hne with h | h
    · exact absurd rfl h
    · simp [parseNatGo, h]
  | cons d rest ih =>
    have hd := hds d (by simp)
    obtain ⟨h1, h2⟩ := isDigit_digitChar d hd
    simp only [List.map_cons, parseNatGo, h1, ↓reduceIte, h2, List.foldl_cons]
    exact ih (fun x hx => hds x (by simp [hx])) _ true (Or.inr rfl)

theorem foldl_ofDigits (ds : List Nat) (acc : Nat) :
    ds.foldl (fun a d => a * 10 + d) acc = acc * 10 ^ ds.length + Nat.ofDigits 10 ds.reverse := by
  induction ds generalizing acc with
  | nil => simp [Nat.ofDigits]
  | cons d rest ih =>
    simp only [List.foldl_cons, ih, List.reverse_cons, Nat.ofDigits_append, Nat.ofDigits_singleton,
      List.length_reverse, List.length_cons]
    ring

theorem parseNat_printNat (n : Nat) : parseNat (printNat n) = some n := by
  unfold printNat parseNat
  by_cases h0 : n = 0
  · subst h0; decide
  · simp only [h0, ↓reduceIte]
    have hne : (Nat.digits 10 n).reverse ≠ [] := by
      simp [Nat.digits_ne_nil_iff_ne_zero, h0]
    rw [parseNatGo_digits _ (by
      intro d hd
      exact Nat.digits_lt_base (by norm_num) (List.mem_reverse.mp hd)) 0 false (Or.inl hne)]
    rw [foldl_ofDigits]
    simp [Nat.ofDigits_digits]

theorem printNat_ascii (n : Nat) : isAscii (printNat n) = true := by
  unfold printNat isAscii
  split
  · decide
  · simp only [List.all_map, List.all_eq_true, List.mem_reverse, Function.comp_apply]
    intro d hd
    have hlt := Nat.digits_lt_base (by norm_num : 1 < 10) hd
    have : d = 0 ∨ d = 1 ∨ d = 2 ∨ d = 3 ∨ d = 4 ∨ d = 5 ∨ d = 6 ∨ d = 7 ∨ d = 8 ∨ d = 9 := by omega
    rcases this with h | h | h | h | h | h | h | h | h | h <;> subst h <;> decide

theorem printNat_head_digit (n : Nat) : ∃ c r, printNat n = c :: r ∧ isDigit c = true := by
  unfold printNat
  split
  · exact ⟨'0', [], rfl, by decide⟩
  · rename_i h0
    cases hd : (Nat.digits 10 n).reverse with
    | nil =>
      exact absurd (List.reverse_eq_nil_iff.mp hd) (Nat.digits_ne_nil_iff_ne_zero.mpr h0)
    | cons d rest =>
      refine ⟨digitChar d, rest.map digitChar, by simp, ?_⟩
      have : d ∈ Nat.digits 10 n := by
        have : d ∈ (Nat.digits 10 n).reverse := by rw [hd]; simp
        exact List.mem_reverse.mp this
      exact (isDigit_digitChar d (Nat.digits_lt_base (by norm_num) this)).1

theorem stripWs_of_digit_ends (s : Str) (h : ∀ c ∈ s, isSpace c = false) : stripWs s = s := by
  have hl : ∀ t : Str, (∀ c ∈ t, isSpace c = false) → lstripWs t = t := by
    intro t ht
    cases t with
    | nil => rfl
    | cons c cs => simp [lstripWs, ht c (by simp)]
  unfold stripWs
  rw [hl s h, hl s.reverse (fun c hc => h c (List.mem_reverse.mp hc))]
  simp

theorem printNat_nospace (n : Nat) : ∀ c ∈ printNat n, isSpace c = false := by
  unfold printNat
  split
  · intro c hc; simp at hc; subst hc; decide
  · intro c hc
    simp only [List.mem_map, List.mem_reverse] at hc
    obtain ⟨d, hd, rfl⟩ := hc
    have hlt := Nat.digits_lt_base (by norm_num : 1 < 10) hd
    have : d = 0 ∨ d = 1 ∨ d = 2 ∨ d = 3 ∨ d = 4 ∨ d = 5 ∨ d = 6 ∨ d = 7 ∨ d = 8 ∨ d = 9 := by omega
    rcases this with h | h | h | h | h | h | h | h | h | h <;> subst h <;> decide

/-- **`int(str(i)) == i` for every integer** (no bound on the number of digits). -/
theorem c02_int_roundtrip (i : Int) : parseInt (printInt i) = .ok (.int i) := by
  cases i with
  | ofNat n =>
    obtain ⟨c, r, hcr, hdig⟩ := printNat_head_digit n
    have hstrip := stripWs_of_digit_ends (printNat n) (printNat_nospace n)
    unfold parseInt printInt
    simp only [printNat_ascii, Bool.not_true, Bool.false_eq_true, ↓reduceIte, hstrip]
    have hc1 : c ≠ '-' := by intro h; subst h; simp [isDigit] at hdig
    have hc2 : c ≠ '+' := by intro h; subst h; simp [isDigit] at hdig
    rw [hcr]
    split
    · rename_i h; simp at h; exact absurd h.1 hc1
    · rename_i h; simp at h; exact absurd h.1 hc2
    · rw [← hcr, parseNat_printNat]; rfl
  | negSucc n =>
    unfold parseInt printInt
    have hasc : isAscii ('-' :: printNat (n + 1)) = true := by
      simp only [isAscii, List.all_cons, Bool.and_eq_true]
      exact ⟨by decide, printNat_ascii (n + 1)⟩
    have hstrip : stripWs ('-' :: printNat (n + 1)) = '-' :: printNat (n + 1) := by
      apply stripWs_of_digit_ends
      intro c hc
      rcases List.mem_cons.mp hc with h | h
      · subst h; decide
      · exact printNat_nospace (n + 1) c h
    simp only [hasc, Bool.not_true, Bool.false_eq_true, ↓reduceIte, hstrip, parseNat_printNat]
    rw [Int.negSucc_eq]
    congr 2


/-! #### plain negative integers are argument tokens (the property keeps them) -/

theorem printNat_digits (n : Nat) : ∀ c ∈ printNat n, isDigit c = true := by
  unfold printNat
  split
  · intro c hc; simp at hc; subst hc; decide
  · intro c hc
    simp only [List.mem_map, List.mem_reverse] at hc
    obtain ⟨d, hd, rfl⟩ := hc
    exact (isDigit_digitChar d (Nat.digits_lt_base (by norm_num) hd)).1

theorem digit_ne_eq (c : Char) (h : isDigit c = true) : c ≠ '=' := by
  intro hh; subst hh; simp [isDigit] at h

/-- `str(i)` of a negative integer matches argparse's negative-number pattern and has no `=` -/
theorem printInt_neg (n : Nat) : looksNegNumber (printInt (.negSucc n)) = true ∧
    splitEq (printInt (.negSucc n)) = none := by
  obtain ⟨c, r, hcr, hdig⟩ := printNat_head_digit (n + 1)
  have hall := printNat_digits (n + 1)
  constructor
  · unfold printInt looksNegNumber
    simp only [Bool.or_eq_true, Bool.and_eq_true]
    left
    refine ⟨by rw [hcr]; rfl, ?_⟩
    simp only [allDigits, List.all_eq_true]
    exact hall
  · apply splitEq_none_of_not_mem
    unfold printInt
    simp only [List.mem_cons, not_or]
    refine ⟨by decide, fun hm => digit_ne_eq _ (hall _ hm) rfl⟩

/-- **every integer's canonical token is one argparse lexes as an argument** — the non-negative
    ones start with a digit, the negative ones are plain negative numbers (no table simple-parsing
    builds has an option string that looks like a number) -/
theorem int_argTok (tbl : List Act) (htbl : OptsNonNumeric tbl) (i : Int) : ArgTok tbl (printInt i) := by
  cases i with
  | ofNat n =>
    apply argTok_of_nodash
    obtain ⟨c, r, hcr, hdig⟩ := printNat_head_digit n
    show (printNat n).head? ≠ some '-'
    rw [hcr]
    simp only [List.head?_cons, ne_eq, Option.some.injEq]
    intro hh; subst hh; simp [isDigit] at hdig
  | negSucc n =>
    obtain ⟨h1, h2⟩ := printInt_neg n
    exact argTok_of_neg tbl _ h1 h2 htbl

/-- strings come back verbatim -/
theorem c02_str_roundtrip (fenv : FEnv) (s : Str) : BConv.apply fenv .str s = .ok (.str s) := rfl

/-- enum members are written and read back by *name* -/
theorem c02_enum_roundtrip (fenv : FEnv) (cls : Str) (members : List Str) (m : Str)
    (h : m ∈ members) : BConv.apply fenv (.enumName cls members) m = .ok (.enum cls m) := by
  simp [BConv.apply, h]

/-- booleans: `str(True)`/`str(False)` parse back -/
theorem c02_bool_roundtrip (fenv : FEnv) (b : Bool) :
    BConv.apply fenv .bool (if b then "True".toList else "False".toList) = .ok (.bool b) := by
  cases b
  · show (match str2bool "False".toList with | some b => ConvOut.ok (.bool b) | none => .typeErr) = _
    decide
  · show (match str2bool "True".toList with | some b => ConvOut.ok (.bool b) | none => .typeErr) = _
    decide

/-- floats: by hypothesis on the environment (`float(repr(x)) == x` is CPython's business) -/
theorem c02_float_roundtrip (fenv : FEnv) (r : Str) (h : fenv.lookup r = some (some r)) :
    BConv.apply fenv .float r = .ok (.float r) := by
  simp [BConv.apply, h]

/-! ### 4b. typed values, their tokens; per annotation (first lemmas): the field's `type=` reads the canonical tokens back and `postprocess`
      returns the typed value (ties `get_arg_options` / `postprocess` to the value written) -/

/-- canonical token of a scalar: `str(v)`, enum members by name -/
def tokenOf : Scalar → Str
  | .int i => printInt i
  | .float r => r
  | .str s => s
  | .bool b => if b then "True".toList else "False".toList
  | .path p => p
  | .enum _ n => n
  | .none => []

/-- `v` is a value of base type `b` that has a token form in the environment -/
def HasBTy (fenv : FEnv) (v : Scalar) : BTy → Prop
  | .int => ∃ i, v = .int i
  | .float => ∃ r, v = .float r ∧ fenv.lookup r = some (some r)
  | .str => ∃ s, v = .str s
  | .bool => ∃ b, v = .bool b
  | .path => ∃ p, v = .path p ∧ parsePath p = .ok (.path p)
  | .any => ∃ s, v = .str s
  | .enum c ms => ∃ m, v = .enum c m ∧ m ∈ ms

/-- every base converter reads the canonical token of a value of its type back to that value -/
theorem bconv_token (fenv : FEnv) (b : BTy) (v : Scalar) (h : HasBTy fenv v b) :
    (bconvOf b).apply fenv (tokenOf v) = .ok v := by
  cases b with
  | int => obtain ⟨i, rfl⟩ := h; exact c02_int_roundtrip i
  | float => obtain ⟨r, rfl, hr⟩ := h; simp [bconvOf, BConv.apply, tokenOf, hr]
  | str => obtain ⟨s, rfl⟩ := h; rfl
  | bool => obtain ⟨b, rfl⟩ := h; exact c02_bool_roundtrip fenv b
  | path => obtain ⟨p, rfl, hp⟩ := h; simpa [bconvOf, BConv.apply, tokenOf] using hp
  | any => obtain ⟨s, rfl⟩ := h; rfl
  | enum c ms => obtain ⟨m, rfl, hm⟩ := h; simp [bconvOf, BConv.apply, tokenOf, hm]

/-- an action without `choices` whose `type=` is a stateless base converter reads a whole list of
    canonical tokens back, whatever the closure counters are -/
theorem getValuesList_tokens (fenv : FEnv) (act : Act) (i : Nat) (cs : List Nat) (b : BTy)
    (hconv : act.conv = .base (bconvOf b)) (hch : act.choices = none) (vs : List Scalar)
    (hvs : ∀ v ∈ vs, HasBTy fenv v b) :
    getValuesList fenv act i cs (vs.map tokenOf) = .ok (vs, cs) := by
  induction vs with
  | nil => rfl
  | cons v rest ih =>
    have hv := bconv_token fenv b v (hvs v (by simp))
    have hone : getValue fenv act i cs (tokenOf v) = .ok (v, cs) := by
      unfold getValue
      simp only [hconv, Conv.apply, hv, hch]
    simp only [List.map_cons, getValuesList, hone, ih (fun x hx => hvs x (by simp [hx]))]

/-- **`List[T]` field** (T a base type other than Any): `get_arg_options` gives `nargs='*'` with
    T's converter, and `postprocess` returns the list — any length, the empty list included. -/
theorem c02_field_list (name : Str) (b : BTy) (hb : b ≠ .any) (d : DefaultV) (hd : d ≠ .value (.sc .none))
    (vs : List Scalar) :
    let f : FieldSpec := { name := name, ty := { inner := .list (.base b), optional := false }, default := d }
    (∃ ao, argOptions f = some ao ∧ ao.nargs = .star ∧ ao.conv = .base (bconvOf b) ∧ ao.choices = none) ∧
      postprocess f (segVal .star vs) = .ok (.list vs) := by
  intro f
  constructor
  · refine ⟨{ nargs := .star, conv := .base (bconvOf b), choices := none, required := decide (d = .missing),
               default := defaultVal d, isBool := false }, ?_, rfl, rfl, rfl⟩
    simp only [argOptions, f]
    have : (d = DefaultV.value (Val.sc Scalar.none)) = False := by simp [hd]
    simp only [this, decide_false, Bool.false_eq_true, Bool.or_self, ↓reduceIte]
    cases b <;> simp_all [containerConv]
  · have : segVal .star vs = .list vs := by
      unfold segVal; split <;> simp_all
    rw [this]
    simp [postprocess, f, tupleToList]

/-- **`Tuple[T, ...]` field**: `nargs='*'`, T's converter, and `postprocess` turns argparse's list
    into a tuple -/
theorem c02_field_vtuple (name : Str) (b : BTy) (d : DefaultV) (hd : d ≠ .value (.sc .none))
    (vs : List Scalar) :
    let f : FieldSpec := { name := name, ty := { inner := .vtuple (.base b), optional := false }, default := d }
    (∃ ao, argOptions f = some ao ∧ ao.nargs = .star ∧ ao.conv = .base (bconvOf b) ∧ ao.choices = none) ∧
      postprocess f (segVal .star vs) = .ok (.tuple vs) := by
  intro f
  constructor
  · refine ⟨{ nargs := .star, conv := .base (bconvOf b), choices := none, required := decide (d = .missing),
               default := defaultVal d, isBool := false }, ?_, rfl, rfl, rfl⟩
    simp only [argOptions, f]
    have : (d = DefaultV.value (Val.sc Scalar.none)) = False := by simp [hd]
    simp only [this, decide_false, Bool.false_eq_true, Bool.or_self, ↓reduceIte, convOfItem]
  · have : segVal .star vs = .list vs := by
      unfold segVal; split <;> simp_all
    rw [this]
    simp [postprocess, f, listToTuple]

/-- **plain `Enum` field**: argparse reads the member NAME as a string under `choices`, and
    `postprocess` maps the name back to the member -/
theorem c02_field_enum (name cls : Str) (ms : List Str) (m : Str) (hm : m ∈ ms) (d : DefaultV)
    (hd : d ≠ .value (.sc .none)) :
    let f : FieldSpec := { name := name, ty := { inner := .sc (.base (.enum cls ms)), optional := false }, default := d }
    ((argOptions f).map (fun ao => (ao.nargs, ao.conv, ao.choices)) = some (.one, .base .str, some ms)) ∧
      postprocess f (segVal .one [.str m]) = .ok (.sc (.enum cls m)) := by
  intro f
  constructor
  · simp only [argOptions, f]
    have : (d = DefaultV.value (Val.sc Scalar.none)) = False := by simp [hd]
    simp only [this, decide_false, Bool.false_eq_true, Bool.or_self, ↓reduceIte, Option.map_some]
  · simp [postprocess, f, segVal, hm]

/-- **`Optional[T]` scalar field**: `nargs='?'`, never required; one token gives the value, the bare
    option gives `None` -/
theorem c02_field_optional (name : Str) (b : BTy) (d : DefaultV) (v : Scalar) :
    let f : FieldSpec := { name := name, ty := { inner := .sc (.base b), optional := true }, default := d }
    (∃ ao, argOptions f = some ao ∧ ao.nargs = .opt ∧ ao.conv = .base (bconvOf b) ∧ ao.required = false) ∧
      postprocess f (segVal .opt [v]) = .ok (.sc v) ∧ postprocess f (segVal .opt []) = .ok (.sc .none) := by
  intro f
  refine ⟨⟨{ nargs := .opt, conv := .base (bconvOf b), choices := none, required := false,
             default := defaultVal d, isBool := false }, ?_, rfl, rfl, rfl⟩, ?_, ?_⟩
  · simp [argOptions, f, convOfItem]
  · simp [postprocess, f, segVal]
  · simp [postprocess, f, segVal]

/-! ### 5. heterogeneous tuples: the `parse_tuple` closure (stateful `type=` callable)

  Since fix b1a5942 the closure's call counter wraps (`item k mod n`), so whenever the counter is a
  multiple of the arity — which it is at the start of every occurrence — the `n` tokens of one
  occurrence are converted with the `n` item types in order. -/

theorem bumpN_getD (cs : List Nat) (i : Nat) (hi : i < cs.length) (n : Nat) :
    (bumpN cs i n).getD i 0 = cs.getD i 0 + n := by
  induction n generalizing cs with
  | zero => rfl
  | succ m ih =>
    simp only [bumpN]
    rw [ih (bump cs i) (by rw [bump_length]; exact hi), bump_getD cs i hi]
    omega

theorem succ_mod_of_lt (k n d : Nat) (hk : k % n = d) (hd : d + 1 < n) : (k + 1) % n = d + 1 := by
  have h := Nat.div_add_mod k n
  rw [hk] at h
  rw [← h, Nat.add_assoc, Nat.mul_add_mod]
  exact Nat.mod_eq_of_lt hd

/-- the `parse_tuple` closure reads the remaining items of a tuple, each with its own type -/
theorem getValuesList_tuple_aux (fenv : FEnv) (act : Act) (i : Nat) (all : List BTy)
    (hconv : act.conv = .tupleCounter (all.map bconvOf)) (hch : act.choices = none) :
    ∀ (todo : List (Scalar × BTy)) (done : List BTy) (cs : List Nat),
      all = done ++ todo.map (·.2) → i < cs.length → cs.getD i 0 % all.length = done.length →
      (∀ p ∈ todo, HasBTy fenv p.1 p.2) →
      getValuesList fenv act i cs (todo.map (fun p => tokenOf p.1)) =
        .ok (todo.map (·.1), bumpN cs i todo.length) := by
  intro todo
  induction todo with
  | nil => intro done cs _ _ _ _; rfl
  | cons p rest ih =>
    intro done cs hall hi hk hty
    obtain ⟨v, b⟩ := p
    have hlen : all.length = done.length + (rest.length + 1) := by
      rw [hall]; simp
    have hidx : (all.map bconvOf)[cs.getD i 0 % (all.map bconvOf).length]? = some (bconvOf b) := by
      rw [List.length_map, hk, hall]
      simp
    have hv := bconv_token fenv b v (hty (v, b) (by simp))
    have hone : getValue fenv act i cs (tokenOf v) = .ok (v, bump cs i) := by
      unfold getValue
      simp only [hconv, Conv.apply, hidx, hv, hch]
    simp only [List.map_cons, getValuesList, hone, List.length_cons, bumpN]
    cases rest with
    | nil => rfl
    | cons q rest' =>
      have := ih (done ++ [b]) (bump cs i) (by rw [hall]; simp) (by rw [bump_length]; exact hi)
        (by
          rw [bump_getD cs i hi, List.length_append, List.length_singleton]
          apply succ_mod_of_lt _ _ _ hk
          rw [hlen]; simp)
        (fun p hp => hty p (by simp [hp]))
      simp only [this]

/-- **a heterogeneous `Tuple[T1, …, Tn]` occurrence**: with the closure counter at a multiple of the
    arity, the canonical tokens of values `v1 : T1, …, vn : Tn` convert back to exactly those values
    (each with its own item type), and the counter is again a multiple of the arity afterwards — so
    the same holds for the next occurrence and the next parse (any number of them). -/
theorem c02_tuple_occurrence (fenv : FEnv) (act : Act) (i : Nat) (items : List (Scalar × BTy))
    (hconv : act.conv = .tupleCounter (items.map (fun p => bconvOf p.2))) (hch : act.choices = none)
    (cs : List Nat) (hi : i < cs.length) (hk : cs.getD i 0 % items.length = 0)
    (hty : ∀ p ∈ items, HasBTy fenv p.1 p.2) :
    getValuesList fenv act i cs (items.map (fun p => tokenOf p.1)) =
        .ok (items.map (·.1), bumpN cs i items.length) ∧
      (bumpN cs i items.length).getD i 0 % items.length = 0 := by
  constructor
  · have := getValuesList_tuple_aux fenv act i (items.map (·.2))
      (by rw [hconv, List.map_map]; rfl) hch items [] cs (by simp) hi (by simpa using hk) hty
    exact this
  · rw [bumpN_getD cs i hi, Nat.add_mod, hk]
    simp

theorem tupleConv_hetero (bs : List BTy) (hne : allEq (bs.map ITy.base) = false) :
    tupleConv (bs.map ITy.base) = some (.tupleCounter (bs.map bconvOf)) := by
  cases bs with
  | nil => simp [allEq] at hne
  | cons b rest =>
    simp only [List.map_cons] at hne ⊢
    simp only [tupleConv, hne, Bool.false_eq_true, ↓reduceIte, List.filterMap_cons, List.filterMap_map]
    clear hne
    simp
    induction rest with
    | nil => rfl
    | cons x xs ih => simp [ih]

/-- **`Tuple[T1, …, Tn]` field** (item types not all equal): `get_arg_options` gives `nargs = n` and
    the `parse_tuple` closure over the item types; `postprocess` turns argparse's list into a tuple -/
theorem c02_field_tuple (name : Str) (bs : List BTy) (hne : allEq (bs.map ITy.base) = false)
    (d : DefaultV) (hd : d ≠ .value (.sc .none)) (vs : List Scalar) (hvs : 2 ≤ vs.length) :
    let f : FieldSpec := { name := name, ty := { inner := .tuple (bs.map ITy.base), optional := false }, default := d }
    (argOptions f).map (fun ao => (ao.nargs, ao.conv, ao.choices, ao.isBool))
        = some (.num bs.length, .tupleCounter (bs.map bconvOf), none, false) ∧
      postprocess f (segVal (.num bs.length) vs) = .ok (.tuple vs) := by
  intro f
  constructor
  · simp only [argOptions, f]
    have hdn : (d = DefaultV.value (Val.sc Scalar.none)) = False := by simp [hd]
    simp only [hdn, decide_false, Bool.false_eq_true, Bool.or_self, ↓reduceIte, tupleConv_hetero bs hne]
    simp
  · have : segVal (.num bs.length) vs = .list vs := by
      unfold segVal
      match vs, hvs with
      | _ :: _ :: _, _ => rfl
    rw [this]
    simp [postprocess, f, listToTuple]


/-! ### 6. per annotation: the occurrence is accepted (`SegOk`) and `postprocess` returns the value

  One lemma per shape of `get_arg_options`' answer; `field_segOk` dispatches over every supported
  annotation. -/

theorem segCounters_stateless (tbl : List Act) (cs : List Nat) (s : Seg) (a : Act)
    (ha : tbl[s.idx]? = some a) (hc : ∀ bs, a.conv ≠ .tupleCounter bs) : segCounters tbl cs s = cs := by
  have key : ∀ (c : Conv), (∀ bs, c ≠ .tupleCounter bs) →
      (match c with
       | .tupleCounter _ => bumpN cs s.idx s.toks.length
       | _ => cs) = cs := by
    intro c hc'
    cases c with
    | base b => rfl
    | union l => rfl
    | tupleCounter bs => exact absurd rfl (hc' bs)
  unfold segCounters
  rw [ha]
  exact key a.conv hc

/-- **stateless base converter, no `choices`** (plain T, `Optional[T]`, `List[T]`, `Tuple[T, ...]`,
    homogeneous `Tuple[T, T]`, and the boolean action): the canonical tokens of values of type `b`
    are accepted and converted back -/
theorem segOk_base (fenv : FEnv) (tbl : List Act) (idx : Nat) (opt : Str) (a : Act) (b : BTy)
    (raw : List Scalar) (eq : Bool) (ha : tbl[idx]? = some a) (hk : KindOk a opt raw)
    (hconv : a.conv = .base (bconvOf b)) (hch : a.choices = none)
    (har : arityOk a.nargs raw.length) (hty : ∀ s ∈ raw, HasBTy fenv s b) :
    SegOk fenv tbl ⟨⟨idx, opt, raw.map tokenOf⟩, raw, eq⟩ := by
  refine ⟨a, ha, hk, by simpa using har, fun cs _ => ?_⟩
  rw [segCounters_stateless tbl cs _ a ha (by rw [hconv]; simp)]
  exact getValuesList_tokens fenv a idx cs b hconv hch raw hty

/-- **`type=str` under `choices`** (plain Enum, Literal): a listed name is accepted as that string -/
theorem segOk_choice (fenv : FEnv) (tbl : List Act) (idx : Nat) (opt : Str) (a : Act)
    (names : List Str) (name : Str) (eq : Bool) (ha : tbl[idx]? = some a) (hk : a.kind = .store)
    (hn : a.nargs = .one) (hconv : a.conv = .base .str) (hch : a.choices = some names)
    (hmem : name ∈ names) :
    SegOk fenv tbl ⟨⟨idx, opt, [name]⟩, [.str name], eq⟩ := by
  refine ⟨a, ha, Or.inl hk, by rw [hn]; rfl, fun cs _ => ?_⟩
  rw [segCounters_stateless tbl cs _ a ha (by rw [hconv]; simp)]
  simp [ConvAll, getValuesList, getValue, hconv, Conv.apply, BConv.apply, hch, hmem]

/-- **the `parse_tuple` closure** (heterogeneous `Tuple[T1, …, Tn]`): from any aligned counter state
    the `n` canonical tokens convert with the `n` item types in order -/
theorem segOk_tuple (fenv : FEnv) (tbl : List Act) (idx : Nat) (opt : Str) (a : Act)
    (items : List (Scalar × BTy)) (eq : Bool) (ha : tbl[idx]? = some a) (hk : a.kind = .store)
    (hn : a.nargs = .num items.length)
    (hconv : a.conv = .tupleCounter (items.map (fun p => bconvOf p.2))) (hch : a.choices = none)
    (hty : ∀ p ∈ items, HasBTy fenv p.1 p.2) :
    SegOk fenv tbl ⟨⟨idx, opt, items.map (fun p => tokenOf p.1)⟩, items.map (·.1), eq⟩ := by
  refine ⟨a, ha, Or.inl hk, by rw [hn]; simp [arityOk], fun cs hal => ?_⟩
  have hi : idx < cs.length := by
    rw [hal.1]; exact (List.getElem?_eq_some_iff.mp ha).1
  have hk0 := hal.2 idx a _ ha hconv (by rw [hn]; simp)
  simp only [List.length_map] at hk0
  have hseg : segCounters tbl cs ⟨idx, opt, items.map (fun p => tokenOf p.1)⟩ = bumpN cs idx items.length := by
    unfold segCounters
    simp only [ha, hconv, List.length_map]
  rw [hseg]
  exact (c02_tuple_occurrence fenv a idx items hconv hch cs hi hk0 hty).1

/-- `a` is the action `fieldAct` builds from `ao` (as far as parsing goes), and `opt` is one of its
    positive option strings -/
structure ActOf (ao : ArgOpts) (a : Act) (opt : Str) : Prop where
  nargs : a.nargs = ao.nargs
  conv : a.conv = ao.conv
  choices : a.choices = ao.choices
  kind : (ao.isBool = false ∧ a.kind = .store) ∨
    (ao.isBool = true ∧ ∃ negs, a.kind = .boolOpt negs ∧ negs.contains opt = false)

theorem segVal_many (n : NArgs) (l : List Scalar) (h : n = .star ∨ ∃ m, n = .num m) :
    segVal n l = .list l := by
  unfold segVal
  rcases h with rfl | ⟨m, rfl⟩ <;> split <;> simp_all

theorem storedVal_store (a : Act) (opt : Str) (l : List Scalar) (h : a.kind = .store) :
    storedVal a opt l = segVal a.nargs l := by
  simp [storedVal, h]

/-- **plain `T` field** (int, float, str, Path, Any): `nargs=None`, `type=T`; `postprocess` keeps it -/
theorem fld_plain (fenv : FEnv) (tbl : List Act) (f : FieldSpec) (b : BTy)
    (hty : f.ty = ⟨.sc (.base b), false⟩) (hb1 : ∀ c ms, b ≠ .enum c ms) (hb2 : b ≠ .bool)
    (hd : f.default ≠ .value (.sc .none)) (ao : ArgOpts) (hao : argOptions f = some ao)
    (a : Act) (idx : Nat) (opt : Str) (eq : Bool) (ha : tbl[idx]? = some a) (hact : ActOf ao a opt)
    (s : Scalar) (hs : HasBTy fenv s b) :
    SegOk fenv tbl ⟨⟨idx, opt, [tokenOf s]⟩, [s], eq⟩ ∧
      postprocess f (storedVal a opt [s]) = .ok (.sc s) := by
  obtain ⟨name, ty, d, al⟩ := f
  simp only at hty hd
  subst hty
  have hdn : (d = DefaultV.value (Val.sc Scalar.none)) = False := by simp [hd]
  have hao' : ao = ⟨.one, .base (bconvOf b), none, decide (d = .missing), defaultVal d, false⟩ := by
    cases b <;> simp_all [argOptions, bconvOf]
  subst hao'
  obtain ⟨hn, hc, hch, hk⟩ := hact
  simp only [Bool.false_eq_true, false_and, or_false, true_and] at hk
  refine ⟨segOk_base fenv tbl idx opt a b [s] eq ha (Or.inl hk) hc hch (by rw [hn]; rfl)
    (by simpa using hs), ?_⟩
  rw [storedVal_store a opt _ hk, hn]
  cases b <;> simp_all [postprocess, segVal, HasBTy]
  · obtain ⟨p, rfl, _⟩ := hs; rfl

/-- **plain `Enum` field**: read as a string under `choices = member names`; `postprocess` maps the
    name to the member -/
theorem fld_enum (fenv : FEnv) (tbl : List Act) (f : FieldSpec) (cls : Str) (ms : List Str)
    (hty : f.ty = ⟨.sc (.base (.enum cls ms)), false⟩)
    (hd : f.default ≠ .value (.sc .none)) (ao : ArgOpts) (hao : argOptions f = some ao)
    (a : Act) (idx : Nat) (opt : Str) (eq : Bool) (ha : tbl[idx]? = some a) (hact : ActOf ao a opt)
    (m : Str) (hm : m ∈ ms) :
    SegOk fenv tbl ⟨⟨idx, opt, [m]⟩, [.str m], eq⟩ ∧
      postprocess f (storedVal a opt [.str m]) = .ok (.sc (.enum cls m)) := by
  obtain ⟨name, ty, d, al⟩ := f
  simp only at hty hd
  subst hty
  have hdn : (d = DefaultV.value (Val.sc Scalar.none)) = False := by simp [hd]
  simp only [argOptions, hdn, decide_false, Bool.false_eq_true, Bool.or_self, ↓reduceIte,
    Option.some.injEq] at hao
  subst hao
  obtain ⟨hn, hc, hch, hk⟩ := hact
  simp only [Bool.false_eq_true, false_and, or_false, true_and] at hk
  refine ⟨segOk_choice fenv tbl idx opt a ms m eq ha hk hn hc hch hm, ?_⟩
  rw [storedVal_store a opt _ hk, hn]
  simp [postprocess, segVal, hm]

/-- **`bool` field** (the boolean action): `--flag True` / `--flag False` through a positive option
    string stores the word's value -/
theorem fld_bool (fenv : FEnv) (tbl : List Act) (f : FieldSpec)
    (hty : f.ty = ⟨.sc (.base .bool), false⟩)
    (hd : f.default ≠ .value (.sc .none)) (ao : ArgOpts) (hao : argOptions f = some ao)
    (a : Act) (idx : Nat) (opt : Str) (eq : Bool) (ha : tbl[idx]? = some a) (hact : ActOf ao a opt)
    (b : Bool) :
    SegOk fenv tbl ⟨⟨idx, opt, [tokenOf (.bool b)]⟩, [.bool b], eq⟩ ∧
      postprocess f (storedVal a opt [.bool b]) = .ok (.sc (.bool b)) := by
  obtain ⟨name, ty, d, al⟩ := f
  simp only at hty hd
  subst hty
  have hdn : (d = DefaultV.value (Val.sc Scalar.none)) = False := by simp [hd]
  simp only [argOptions, hdn, decide_false, Bool.false_eq_true, Bool.or_self, ↓reduceIte,
    Option.some.injEq] at hao
  subst hao
  obtain ⟨hn, hc, hch, hk⟩ := hact
  simp only [Bool.true_eq_false, false_and, false_or, true_and] at hk
  obtain ⟨negs, hk, hpos⟩ := hk
  refine ⟨segOk_base fenv tbl idx opt a .bool [.bool b] eq ha
    (Or.inr ⟨negs, hk, hn, hpos, Or.inr ⟨b, rfl⟩⟩) hc hch (by rw [hn]; simp [arityOk])
    (by simp [HasBTy]), ?_⟩
  simp [storedVal, hk, postprocess]

/-- the value a Literal name denotes: the LAST value with that `str()` (`choice_dict`) -/
def LastNamed (vals : List Scalar) (s : Scalar) : Prop :=
  ∃ n, literalName s = some n ∧ vals.reverse.find? (fun v => literalName v = some n) = some s

theorem mapM_literalName_mem (vals : List Scalar) (names : List Str)
    (h : vals.mapM literalName = some names) (s : Scalar) (n : Str) (hs : s ∈ vals)
    (hn : literalName s = some n) : n ∈ names := by
  induction vals generalizing names with
  | nil => simp at hs
  | cons v rest ih =>
    rw [List.mapM_cons] at h
    cases hv : literalName v with
    | none => simp [hv] at h
    | some nv =>
      cases hr : rest.mapM literalName with
      | none => simp [hv, hr] at h
      | some ns =>
        simp only [hv, hr, Option.pure_def, Option.bind_eq_bind, Option.bind_some,
          Option.some.injEq] at h
        subst h
        rcases List.mem_cons.mp hs with rfl | hmem
        · rw [hv] at hn; cases hn; simp
        · exact List.mem_cons_of_mem _ (ih ns hr hmem)

/-- **`Literal[…]` field**: read as a string under `choices = [str(v)…]`; `postprocess` maps the
    name back through `choice_dict` (last value with that name) -/
theorem fld_literal (fenv : FEnv) (tbl : List Act) (f : FieldSpec) (vals : List Scalar)
    (hty : f.ty = ⟨.literal vals, false⟩) (ao : ArgOpts) (hao : argOptions f = some ao)
    (a : Act) (idx : Nat) (opt : Str) (eq : Bool) (ha : tbl[idx]? = some a) (hact : ActOf ao a opt)
    (s : Scalar) (n : Str) (hn : literalName s = some n)
    (hlast : vals.reverse.find? (fun v => literalName v = some n) = some s) :
    SegOk fenv tbl ⟨⟨idx, opt, [n]⟩, [.str n], eq⟩ ∧
      postprocess f (storedVal a opt [.str n]) = .ok (.sc s) := by
  obtain ⟨name, ty, d, al⟩ := f
  simp only at hty
  subst hty
  simp only [argOptions] at hao
  cases hnames : vals.mapM literalName with
  | none => simp [hnames] at hao
  | some names =>
    simp only [hnames, Option.map_some, Option.some.injEq] at hao
    subst hao
    obtain ⟨hna, hc, hch, hk⟩ := hact
    simp only [Bool.false_eq_true, false_and, or_false, true_and] at hk
    have hsmem : s ∈ vals := by
      have := List.mem_of_find?_eq_some hlast
      exact List.mem_reverse.mp this
    refine ⟨segOk_choice fenv tbl idx opt a names n eq ha hk hna hc hch
      (mapM_literalName_mem vals names hnames s n hsmem hn), ?_⟩
    rw [storedVal_store a opt _ hk, hna]
    simp [postprocess, segVal, hlast]

/-- **`Optional[T]` scalar field**: `nargs='?'`; one token gives the value, the bare option `None` -/
theorem fld_optional (fenv : FEnv) (tbl : List Act) (f : FieldSpec) (b : BTy)
    (hty : f.ty = ⟨.sc (.base b), true⟩) (ao : ArgOpts) (hao : argOptions f = some ao)
    (a : Act) (idx : Nat) (opt : Str) (eq : Bool) (ha : tbl[idx]? = some a) (hact : ActOf ao a opt) :
    (∀ s, HasBTy fenv s b → SegOk fenv tbl ⟨⟨idx, opt, [tokenOf s]⟩, [s], eq⟩ ∧
      postprocess f (storedVal a opt [s]) = .ok (.sc s)) ∧
    (SegOk fenv tbl ⟨⟨idx, opt, []⟩, [], eq⟩ ∧ postprocess f (storedVal a opt []) = .ok (.sc .none)) := by
  obtain ⟨name, ty, d, al⟩ := f
  simp only at hty
  subst hty
  simp only [argOptions, Bool.true_or, ↓reduceIte, convOfItem, Option.some.injEq] at hao
  subst hao
  obtain ⟨hn, hc, hch, hk⟩ := hact
  simp only [Bool.false_eq_true, false_and, or_false, true_and] at hk
  constructor
  · intro s hs
    refine ⟨segOk_base fenv tbl idx opt a b [s] eq ha (Or.inl hk) hc hch (by rw [hn]; simp [arityOk])
      (by simpa using hs), ?_⟩
    rw [storedVal_store a opt _ hk, hn]
    simp [postprocess, segVal]
  · refine ⟨segOk_base fenv tbl idx opt a b [] eq ha (Or.inl hk) hc hch (by rw [hn]; simp [arityOk])
      (by simp), ?_⟩
    rw [storedVal_store a opt _ hk, hn]
    simp [postprocess, segVal]

/-- **`List[T]` / `Optional[List[T]]` field**: `nargs='*'`, T's converter; any length, the empty
    list included -/
theorem fld_list (fenv : FEnv) (tbl : List Act) (f : FieldSpec) (b : BTy) (o : Bool)
    (hty : f.ty = ⟨.list (.base b), o⟩) (hb : b ≠ .any)
    (ao : ArgOpts) (hao : argOptions f = some ao)
    (a : Act) (idx : Nat) (opt : Str) (eq : Bool) (ha : tbl[idx]? = some a) (hact : ActOf ao a opt)
    (l : List Scalar) (hl : ∀ s ∈ l, HasBTy fenv s b) :
    SegOk fenv tbl ⟨⟨idx, opt, l.map tokenOf⟩, l, eq⟩ ∧
      postprocess f (storedVal a opt l) = .ok (.list l) := by
  obtain ⟨name, ty, d, al⟩ := f
  simp only at hty
  subst hty
  have hcc : containerConv (.base b) = some (.base (bconvOf b)) := by
    cases b <;> simp_all [containerConv, bconvOf]
  have hfacts : ao.nargs = .star ∧ ao.conv = .base (bconvOf b) ∧ ao.choices = none ∧ ao.isBool = false := by
    simp only [argOptions, hcc, Option.map_some] at hao
    cases o <;> (try split at hao) <;> simp only [Option.some.injEq] at hao <;> subst hao <;> simp
  obtain ⟨h1, h2, h3, h4⟩ := hfacts
  obtain ⟨hn, hc, hch, hk⟩ := hact
  simp only [h4, Bool.false_eq_true, false_and, or_false, true_and] at hk
  rw [h1] at hn; rw [h2] at hc; rw [h3] at hch
  refine ⟨segOk_base fenv tbl idx opt a b l eq ha (Or.inl hk) hc hch (by rw [hn]; trivial) hl, ?_⟩
  rw [storedVal_store a opt _ hk, hn, segVal_many _ _ (Or.inl rfl)]
  cases o <;> simp [postprocess, tupleToList]

/-- **`Tuple[T, ...]` / `Optional[Tuple[T, ...]]` field**: `nargs='*'`, T's converter; `postprocess`
    turns argparse's list into a tuple (the empty one included) -/
theorem fld_vtuple (fenv : FEnv) (tbl : List Act) (f : FieldSpec) (b : BTy) (o : Bool)
    (hty : f.ty = ⟨.vtuple (.base b), o⟩)
    (ao : ArgOpts) (hao : argOptions f = some ao)
    (a : Act) (idx : Nat) (opt : Str) (eq : Bool) (ha : tbl[idx]? = some a) (hact : ActOf ao a opt)
    (l : List Scalar) (hl : ∀ s ∈ l, HasBTy fenv s b) :
    SegOk fenv tbl ⟨⟨idx, opt, l.map tokenOf⟩, l, eq⟩ ∧
      postprocess f (storedVal a opt l) = .ok (.tuple l) := by
  obtain ⟨name, ty, d, al⟩ := f
  simp only at hty
  subst hty
  have hfacts : ao.nargs = .star ∧ ao.conv = .base (bconvOf b) ∧ ao.choices = none ∧ ao.isBool = false := by
    simp only [argOptions, convOfItem] at hao
    cases o <;> (try split at hao) <;> simp only [Option.some.injEq] at hao <;> subst hao <;> simp
  obtain ⟨h1, h2, h3, h4⟩ := hfacts
  obtain ⟨hn, hc, hch, hk⟩ := hact
  simp only [h4, Bool.false_eq_true, false_and, or_false, true_and] at hk
  rw [h1] at hn; rw [h2] at hc; rw [h3] at hch
  refine ⟨segOk_base fenv tbl idx opt a b l eq ha (Or.inl hk) hc hch (by rw [hn]; trivial) hl, ?_⟩
  rw [storedVal_store a opt _ hk, hn, segVal_many _ _ (Or.inl rfl)]
  cases o <;> simp [postprocess, listToTuple]

theorem allEq_base_true (b : BTy) (bs : List BTy) (h : allEq ((b :: bs).map ITy.base) = true) :
    ∀ x ∈ b :: bs, x = b := by
  intro x hx
  rcases List.mem_cons.mp hx with rfl | hm
  · rfl
  · simp only [List.map_cons, allEq, List.all_map, List.all_eq_true, Function.comp_apply,
      decide_eq_true_eq, ITy.base.injEq] at h
    exact h x hm

/-- **`Tuple[T1, …, Tn]` / `Optional[Tuple[…]]` field** (n ≥ 1; equal item types: T's converter,
    different ones: the `parse_tuple` closure): `nargs = n`; `postprocess` makes the tuple -/
theorem fld_tuple (fenv : FEnv) (tbl : List Act) (f : FieldSpec) (bs : List BTy) (o : Bool)
    (hty : f.ty = ⟨.tuple (bs.map ITy.base), o⟩) (hne : bs ≠ [])
    (ao : ArgOpts) (hao : argOptions f = some ao)
    (a : Act) (idx : Nat) (opt : Str) (eq : Bool) (ha : tbl[idx]? = some a) (hact : ActOf ao a opt)
    (l : List Scalar) (hlen : l.length = bs.length) (hl : ∀ p ∈ l.zip bs, HasBTy fenv p.1 p.2) :
    SegOk fenv tbl ⟨⟨idx, opt, l.map tokenOf⟩, l, eq⟩ ∧
      postprocess f (storedVal a opt l) = .ok (.tuple l) := by
  obtain ⟨name, ty, d, al⟩ := f
  simp only at hty
  subst hty
  have hpost : ∀ (k : Act), k.kind = .store → k.nargs = .num bs.length →
      postprocess { name := name, ty := ⟨.tuple (bs.map ITy.base), o⟩, default := d, aliases := al }
        (storedVal k opt l) = .ok (.tuple l) := by
    intro k hk hn
    rw [storedVal_store k opt _ hk, hn, segVal_many _ _ (Or.inr ⟨_, rfl⟩)]
    cases o <;> simp [postprocess, listToTuple]
  by_cases hall : allEq (bs.map ITy.base) = true
  · -- homogeneous: stateless converter of the (single) item type
    obtain ⟨b, rest, rfl⟩ := List.exists_cons_of_ne_nil hne
    have hsame := allEq_base_true b rest hall
    have htc : tupleConv ((b :: rest).map ITy.base) = some (.base (bconvOf b)) := by
      simp only [List.map_cons, tupleConv] at hall ⊢
      simp [hall, convOfItem]
    have hfacts : ao.nargs = .num (b :: rest).length ∧ ao.conv = .base (bconvOf b) ∧ ao.choices = none ∧
        ao.isBool = false := by
      simp only [argOptions, htc, Option.map_some, List.length_map] at hao
      cases o <;> (try split at hao) <;> simp only [Option.some.injEq] at hao <;> subst hao <;> simp
    obtain ⟨h1, h2, h3, h4⟩ := hfacts
    obtain ⟨hn, hc, hch, hk⟩ := hact
    simp only [h4, Bool.false_eq_true, false_and, or_false, true_and] at hk
    rw [h1] at hn; rw [h2] at hc; rw [h3] at hch
    refine ⟨segOk_base fenv tbl idx opt a b l eq ha (Or.inl hk) hc hch (by rw [hn]; exact hlen) ?_,
      hpost a hk hn⟩
    intro s hs
    obtain ⟨i, hi, rfl⟩ := List.mem_iff_getElem.mp hs
    have hi' : i < (b :: rest).length := by rw [← hlen]; exact hi
    have hi'' : i < rest.length + 1 := by simpa using hi'
    have hmem : (l[i], (b :: rest)[i]) ∈ l.zip (b :: rest) := by
      rw [List.mem_iff_getElem]
      exact ⟨i, by simp [hi, hi''], by simp⟩
    have := hl _ hmem
    rw [hsame _ (List.getElem_mem hi')] at this
    exact this
  · -- heterogeneous: the closure
    have hall' : allEq (bs.map ITy.base) = false := by simpa using hall
    have htc := tupleConv_hetero bs hall'
    have hfacts : ao.nargs = .num bs.length ∧ ao.conv = .tupleCounter (bs.map bconvOf) ∧
        ao.choices = none ∧ ao.isBool = false := by
      simp only [argOptions, htc, Option.map_some, List.length_map] at hao
      cases o <;> (try split at hao) <;> simp only [Option.some.injEq] at hao <;> subst hao <;> simp
    obtain ⟨h1, h2, h3, h4⟩ := hfacts
    obtain ⟨hn, hc, hch, hk⟩ := hact
    simp only [h4, Bool.false_eq_true, false_and, or_false, true_and] at hk
    rw [h1] at hn; rw [h2] at hc; rw [h3] at hch
    have hz1 : (l.zip bs).map (·.1) = l := List.map_fst_zip (by omega)
    have hz2 : (l.zip bs).map (·.2) = bs := List.map_snd_zip (by omega)
    have hzl : (l.zip bs).length = bs.length := by simp [List.length_zip, hlen]
    have hz3 : (l.zip bs).map (fun p => bconvOf p.2) = bs.map bconvOf := by
      have := congrArg (List.map bconvOf) hz2
      simpa [List.map_map, Function.comp_def] using this
    have hz4 : (l.zip bs).map (fun p => tokenOf p.1) = l.map tokenOf := by
      have := congrArg (List.map tokenOf) hz1
      simpa [List.map_map, Function.comp_def] using this
    have := segOk_tuple fenv tbl idx opt a (l.zip bs) eq ha hk (by rw [hn, hzl])
      (by rw [hc, hz3]) hch hl
    rw [hz4, hz1] at this
    exact ⟨this, hpost a hk hn⟩

/-! #### the dispatcher -/

/-- the scalars a written value consists of (`None` is written as the bare option) -/
def valItems : Val → List Scalar
  | .sc .none => []
  | .sc s => [s]
  | .list l => l
  | .tuple l => l

/-- canonical token of one item of a field of type `ty`: `str(v)`; enum members by name -/
def itemTok (ty : FTy) (s : Scalar) : Str :=
  match ty.optional, ty.inner with
  | false, .literal _ => (literalName s).getD []
  | _, _ => tokenOf s

/-- what argparse's converter yields for that item (Enum / Literal fields are read as strings
    under `choices`; `postprocess` maps the name back) -/
def rawItem (ty : FTy) (s : Scalar) : Scalar :=
  match ty.optional, ty.inner with
  | false, .sc (.base (.enum _ _)) => .str (tokenOf s)
  | false, .literal _ => .str ((literalName s).getD [])
  | _, _ => s

/-- **the canonical token form** of value `v` for a field of type `ty` -/
def fieldToks (ty : FTy) (v : Val) : List Str := (valItems v).map (itemTok ty)
def fieldRaw (ty : FTy) (v : Val) : List Scalar := (valItems v).map (rawItem ty)

/-- `v` is an expressible value of the (non-Optional) annotation -/
def ValOkN (fenv : FEnv) : NTy → Val → Prop
  | .sc (.base b), .sc s => HasBTy fenv s b
  | .literal vals, .sc s => LastNamed vals s
  | .list (.base b), .list l => b ≠ .any ∧ ∀ s ∈ l, HasBTy fenv s b
  | .vtuple (.base b), .tuple l => ∀ s ∈ l, HasBTy fenv s b
  | .tuple items, .tuple l => ∃ bs, items = bs.map ITy.base ∧ l.length = bs.length ∧ bs ≠ [] ∧
      ∀ p ∈ l.zip bs, HasBTy fenv p.1 p.2
  | _, _ => False

/-- **`v` is a value of the supported annotation `ty` that has a canonical token form**: a typed
    scalar / list / tuple (floats and paths: with a token in the environment), a Literal value that
    its name denotes, `None` for an `Optional` scalar (written as the bare option).
    Not supported (see section 9): `Optional[Literal]`, `List[Literal]`, `Union`s. -/
def ValOk (fenv : FEnv) (ty : FTy) (v : Val) : Prop :=
  match ty.optional with
  | false => ValOkN fenv ty.inner v
  | true => (∃ b, ty.inner = .sc (.base b) ∧ v = .sc .none) ∨
      ((∀ vals, ty.inner ≠ .literal vals) ∧ ValOkN fenv ty.inner v)

theorem hasBTy_ne_none (fenv : FEnv) (b : BTy) (s : Scalar) (h : HasBTy fenv s b) : s ≠ .none := by
  intro hh; subst hh
  cases b <;> simp [HasBTy] at h

/-- **every supported annotation**: the canonical tokens of an expressible value are accepted by
    the field's action (from any aligned closure state) and `postprocess` returns exactly the value -/
theorem field_segOk (fenv : FEnv) (tbl : List Act) (f : FieldSpec) (ao : ArgOpts)
    (hao : argOptions f = some ao) (a : Act) (idx : Nat) (opt : Str) (eq : Bool)
    (ha : tbl[idx]? = some a) (hact : ActOf ao a opt)
    (hd : f.ty.optional = true ∨ f.default ≠ .value (.sc .none))
    (v : Val) (hv : ValOk fenv f.ty v) :
    SegOk fenv tbl ⟨⟨idx, opt, fieldToks f.ty v⟩, fieldRaw f.ty v, eq⟩ ∧
      postprocess f (storedVal a opt (fieldRaw f.ty v)) = .ok v := by
  rcases hft : f.ty with ⟨inner, o⟩
  cases o with
  | false =>
    have hd' : f.default ≠ .value (.sc .none) := by
      rcases hd with hd | hd
      · rw [hft] at hd; cases hd
      · exact hd
    simp only [ValOk, hft] at hv
    cases inner with
    | sc t =>
      cases t with
      | union alts => cases v <;> simp [ValOkN] at hv
      | base b =>
        cases v with
        | list l => simp [ValOkN] at hv
        | tuple l => simp [ValOkN] at hv
        | sc s =>
          simp only [ValOkN] at hv
          have hsn := hasBTy_ne_none fenv b s hv
          have hitems : valItems (.sc s) = [s] := by cases s <;> simp_all [valItems]
          by_cases hbool : b = .bool
          · subst hbool
            obtain ⟨bb, rfl⟩ := hv
            simpa [fieldToks, fieldRaw, valItems, itemTok, rawItem] using
              fld_bool fenv tbl f hft hd' ao hao a idx opt eq ha hact bb
          · cases b with
            | enum cls ms =>
              obtain ⟨m, rfl, hm⟩ := hv
              simpa [fieldToks, fieldRaw, valItems, itemTok, rawItem, tokenOf] using
                fld_enum fenv tbl f cls ms hft hd' ao hao a idx opt eq ha hact m hm
            | bool => exact absurd rfl hbool
            | int =>
              simpa [fieldToks, fieldRaw, hitems, itemTok, rawItem] using
                fld_plain fenv tbl f .int hft (by simp) (by simp) hd' ao hao a idx opt eq ha hact s hv
            | float =>
              simpa [fieldToks, fieldRaw, hitems, itemTok, rawItem] using
                fld_plain fenv tbl f .float hft (by simp) (by simp) hd' ao hao a idx opt eq ha hact s hv
            | str =>
              simpa [fieldToks, fieldRaw, hitems, itemTok, rawItem] using
                fld_plain fenv tbl f .str hft (by simp) (by simp) hd' ao hao a idx opt eq ha hact s hv
            | path =>
              simpa [fieldToks, fieldRaw, hitems, itemTok, rawItem] using
                fld_plain fenv tbl f .path hft (by simp) (by simp) hd' ao hao a idx opt eq ha hact s hv
            | any =>
              simpa [fieldToks, fieldRaw, hitems, itemTok, rawItem] using
                fld_plain fenv tbl f .any hft (by simp) (by simp) hd' ao hao a idx opt eq ha hact s hv
    | literal vals =>
      cases v with
      | list l => simp [ValOkN] at hv
      | tuple l => simp [ValOkN] at hv
      | sc s =>
        simp only [ValOkN] at hv
        obtain ⟨n, hn, hlast⟩ := hv
        have hsn : s ≠ .none := by intro hh; subst hh; simp [literalName] at hn
        have hitems : valItems (.sc s) = [s] := by cases s <;> simp_all [valItems]
        simpa [fieldToks, fieldRaw, hitems, itemTok, rawItem, hn] using
          fld_literal fenv tbl f vals hft ao hao a idx opt eq ha hact s n hn hlast
    | list item =>
      cases item with
      | union alts => cases v <;> simp [ValOkN] at hv
      | base b =>
        cases v with
        | sc s => simp [ValOkN] at hv
        | tuple l => simp [ValOkN] at hv
        | list l =>
          simp only [ValOkN] at hv
          have hmapt : l.map (itemTok ⟨.list (.base b), false⟩) = l.map tokenOf := by
            apply List.map_congr_left; intro s _; rfl
          have hmapr : l.map (rawItem ⟨.list (.base b), false⟩) = l := by
            conv => rhs; rw [← List.map_id l]
            apply List.map_congr_left; intro s _; rfl
          simpa [fieldToks, fieldRaw, valItems, hmapt, hmapr] using
            fld_list fenv tbl f b false hft hv.1 ao hao a idx opt eq ha hact l hv.2
    | vtuple item =>
      cases item with
      | union alts => cases v <;> simp [ValOkN] at hv
      | base b =>
        cases v with
        | sc s => simp [ValOkN] at hv
        | list l => simp [ValOkN] at hv
        | tuple l =>
          simp only [ValOkN] at hv
          have hmapt : l.map (itemTok ⟨.vtuple (.base b), false⟩) = l.map tokenOf := by
            apply List.map_congr_left; intro s _; rfl
          have hmapr : l.map (rawItem ⟨.vtuple (.base b), false⟩) = l := by
            conv => rhs; rw [← List.map_id l]
            apply List.map_congr_left; intro s _; rfl
          simpa [fieldToks, fieldRaw, valItems, hmapt, hmapr] using
            fld_vtuple fenv tbl f b false hft ao hao a idx opt eq ha hact l hv
    | tuple items =>
      cases v with
      | sc s => simp [ValOkN] at hv
      | list l => simp [ValOkN] at hv
      | tuple l =>
        simp only [ValOkN] at hv
        obtain ⟨bs, rfl, hlen, hne, hl⟩ := hv
        have hmapt : l.map (itemTok ⟨.tuple (bs.map ITy.base), false⟩) = l.map tokenOf := by
          apply List.map_congr_left; intro s _; rfl
        have hmapr : l.map (rawItem ⟨.tuple (bs.map ITy.base), false⟩) = l := by
          conv => rhs; rw [← List.map_id l]
          apply List.map_congr_left; intro s _; rfl
        simpa [fieldToks, fieldRaw, valItems, hmapt, hmapr] using
          fld_tuple fenv tbl f bs false hft hne ao hao a idx opt eq ha hact l hlen hl
  | true =>
    simp only [ValOk, hft] at hv
    rcases hv with ⟨b, hb, rfl⟩ | ⟨hnl, hv⟩
    · subst hb
      simpa [fieldToks, fieldRaw, valItems] using
        (fld_optional fenv tbl f b hft ao hao a idx opt eq ha hact).2
    · cases inner with
      | sc t =>
        cases t with
        | union alts => cases v <;> simp [ValOkN] at hv
        | base b =>
          cases v with
          | list l => simp [ValOkN] at hv
          | tuple l => simp [ValOkN] at hv
          | sc s =>
            simp only [ValOkN] at hv
            have hsn := hasBTy_ne_none fenv b s hv
            have hitems : valItems (.sc s) = [s] := by cases s <;> simp_all [valItems]
            simpa [fieldToks, fieldRaw, hitems, itemTok, rawItem] using
              (fld_optional fenv tbl f b hft ao hao a idx opt eq ha hact).1 s hv
      | literal vals => exact absurd rfl (hnl vals)
      | list item =>
        cases item with
        | union alts => cases v <;> simp [ValOkN] at hv
        | base b =>
          cases v with
          | sc s => simp [ValOkN] at hv
          | tuple l => simp [ValOkN] at hv
          | list l =>
            simp only [ValOkN] at hv
            have hmapt : l.map (itemTok ⟨.list (.base b), true⟩) = l.map tokenOf := by
              apply List.map_congr_left; intro s _; rfl
            have hmapr : l.map (rawItem ⟨.list (.base b), true⟩) = l := by
              conv => rhs; rw [← List.map_id l]
              apply List.map_congr_left; intro s _; rfl
            simpa [fieldToks, fieldRaw, valItems, hmapt, hmapr] using
              fld_list fenv tbl f b true hft hv.1 ao hao a idx opt eq ha hact l hv.2
      | vtuple item =>
        cases item with
        | union alts => cases v <;> simp [ValOkN] at hv
        | base b =>
          cases v with
          | sc s => simp [ValOkN] at hv
          | list l => simp [ValOkN] at hv
          | tuple l =>
            simp only [ValOkN] at hv
            have hmapt : l.map (itemTok ⟨.vtuple (.base b), true⟩) = l.map tokenOf := by
              apply List.map_congr_left; intro s _; rfl
            have hmapr : l.map (rawItem ⟨.vtuple (.base b), true⟩) = l := by
              conv => rhs; rw [← List.map_id l]
              apply List.map_congr_left; intro s _; rfl
            simpa [fieldToks, fieldRaw, valItems, hmapt, hmapr] using
              fld_vtuple fenv tbl f b true hft ao hao a idx opt eq ha hact l hv
      | tuple items =>
        cases v with
        | sc s => simp [ValOkN] at hv
        | list l => simp [ValOkN] at hv
        | tuple l =>
          simp only [ValOkN] at hv
          obtain ⟨bs, rfl, hlen, hne, hl⟩ := hv
          have hmapt : l.map (itemTok ⟨.tuple (bs.map ITy.base), true⟩) = l.map tokenOf := by
            apply List.map_congr_left; intro s _; rfl
          have hmapr : l.map (rawItem ⟨.tuple (bs.map ITy.base), true⟩) = l := by
            conv => rhs; rw [← List.map_id l]
            apply List.map_congr_left; intro s _; rfl
          simpa [fieldToks, fieldRaw, valItems, hmapt, hmapr] using
            fld_tuple fenv tbl f bs true hft hne ao hao a idx opt eq ha hact l hlen hl


/-! ### 7. defaults: what an unmentioned field holds -/

/-- the annotations of the property's list that the code supports (item types are base types; a
    Literal only un-wrapped: see section 9) -/
def SupTy (ty : FTy) : Prop :=
  match ty.optional, ty.inner with
  | _, .sc (.base _) => True
  | false, .literal _ => True
  | _, .list (.base _) => True
  | _, .vtuple (.base _) => True
  | _, .tuple items => ∃ bs, items = bs.map ITy.base ∧ bs ≠ []
  | _, _ => False

/-- **the default is one the field can keep**: `None` only on an `Optional` annotation; a string
    only where the type reads strings back unchanged (`str`, `Any`, a Literal name denoting itself)
    — argparse runs string defaults through `type=`; an Enum member of the field's own Enum; a list
    (tuple) default not on a tuple (list) annotation — `postprocess` converts those -/
def DefaultOk (f : FieldSpec) : Prop :=
  match f.default with
  | .missing => True
  | .value (.sc .none) => f.ty.optional = true
  | .value (.sc (.str x)) => (match f.ty.inner with
      | .sc (.base .str) => True
      | .sc (.base .any) => True
      | .literal vals => vals.reverse.find? (fun v => literalName v = some x) = some (.str x)
      | _ => False)
  | .value (.sc (.enum c n)) => (match f.ty.optional, f.ty.inner with
      | false, .sc (.base (.enum cls ms)) => c = cls ∧ n ∈ ms
      | _, _ => True)
  | .value (.sc _) => True
  | .value (.list _) => (match f.ty.inner with
      | .tuple _ => False
      | .vtuple _ => False
      | _ => True)
  | .value (.tuple _) => (match f.ty.inner with
      | .list _ => False
      | _ => True)

/-- the `default=` handed to argparse: the field default, an Enum member by its name -/
def argDefault (f : FieldSpec) : Val :=
  match f.ty.optional, f.ty.inner, defaultVal f.default with
  | false, .sc (.base (.enum _ _)), .sc (.enum _ n) => .sc (.str n)
  | _, _, d => d

set_option hygiene false in
/-- (local) finish one leaf of the case analysis of `argOptions f = some ao` -/
macro "ao_leaf" : tactic => `(tactic| (
  first
  | (obtain ⟨c, hc, rfl⟩ := hao)
  | (subst hao)
  | (cases hao)))

theorem ao_default (f : FieldSpec) (ao : ArgOpts) (hao : argOptions f = some ao) :
    ao.default = argDefault f := by
  obtain ⟨name, ⟨inner, o⟩, d, al⟩ := f
  by_cases hdn : d = DefaultV.value (Val.sc Scalar.none)
  · subst hdn
    cases o <;> cases inner <;> simp [argOptions] at hao <;> ao_leaf <;>
      simp [argDefault, defaultVal]
  · cases o
    · cases inner with
      | sc t =>
        cases t with
        | union alts => simp [argOptions, hdn] at hao; subst hao; simp [argDefault]
        | base b =>
          cases b <;> simp [argOptions, hdn, bconvOf] at hao <;> subst hao <;> simp [argDefault]
          split <;> simp_all
      | literal vals => simp [argOptions] at hao; ao_leaf; simp [argDefault]
      | list item => simp [argOptions, hdn] at hao; ao_leaf; simp [argDefault]
      | tuple items => simp [argOptions, hdn] at hao; ao_leaf; simp [argDefault]
      | vtuple item => simp [argOptions, hdn] at hao; ao_leaf; simp [argDefault]
    · cases inner <;> simp [argOptions] at hao <;> ao_leaf <;> simp [argDefault]

/-- `required=True` only for a field without default on a non-Optional annotation -/
theorem ao_required (f : FieldSpec) (ao : ArgOpts) (hao : argOptions f = some ao)
    (h : ao.required = true) : f.default = .missing ∧ f.ty.optional = false := by
  obtain ⟨name, ⟨inner, o⟩, d, al⟩ := f
  by_cases hdn : d = DefaultV.value (Val.sc Scalar.none)
  · subst hdn
    cases o <;> cases inner <;> simp [argOptions] at hao <;> ao_leaf <;> simp at h
  · cases o
    · cases inner with
      | sc t =>
        cases t with
        | union alts => simp [argOptions, hdn] at hao; subst hao; simpa using h
        | base b => cases b <;> simp [argOptions, hdn, bconvOf] at hao <;> subst hao <;> simpa using h
      | literal vals => simp [argOptions] at hao; ao_leaf; simp at h; simp [h.1]
      | list item => simp [argOptions, hdn] at hao; ao_leaf; simpa using h
      | tuple items => simp [argOptions, hdn] at hao; ao_leaf; simpa using h
      | vtuple item => simp [argOptions, hdn] at hao; ao_leaf; simpa using h
    · cases inner <;> simp [argOptions] at hao <;> ao_leaf <;> simp at h

/-- **`postprocess` gives an unmentioned field its default back** (Enum: name → member; everything
    else unchanged) -/
theorem post_default (f : FieldSpec) (hdef : DefaultOk f) :
    postprocess f (argDefault f) = .ok (defaultVal f.default) := by
  obtain ⟨name, ⟨inner, o⟩, d, al⟩ := f
  cases o <;> rcases inner with (b | alts) | vals | item | items | item <;> (try cases b) <;>
    rcases d with _ | (s | l | l) <;> (try cases s) <;>
    simp_all [postprocess, argDefault, defaultVal, DefaultOk, listToTuple, tupleToList]

/-- **`finish` leaves a kept default alone**: where the `default=` handed to argparse is a string,
    the field's `type=` reads it back unchanged (so the namespace entry stays what it was) -/
theorem quiet_default (fenv : FEnv) (f : FieldSpec) (ao : ArgOpts) (hao : argOptions f = some ao)
    (hsup : SupTy f.ty) (hdef : DefaultOk f) :
    ∀ s, ao.default = .sc (.str s) → ∀ k, ao.conv.apply fenv k s = .ok (.str s) := by
  intro s hs k
  rw [ao_default f ao hao] at hs
  obtain ⟨name, ⟨inner, o⟩, d, al⟩ := f
  cases o <;> rcases inner with (b | alts) | vals | item | items | item <;> (try cases b) <;>
    rcases d with _ | (s0 | l | l) <;> (try cases s0) <;>
    simp_all [argDefault, defaultVal, DefaultOk, SupTy] <;>
    (simp [argOptions] at hao) <;> ao_leaf <;> simp [Conv.apply, BConv.apply, bconvOf, convOfItem]

/-! ### 8. the whole flat pipeline: `parseFlat` on the canonical command line

  `parse(Cls, args=…)` for one flat dataclass: `tableOf` (one action per field after the built-in
  help), `runStrict`, then `postprocess` per field — composed, for any number of fields and
  segments. -/

theorem mapM_some_get {α β : Type} (g : α → Option β) : ∀ (l : List α) (as : List β),
    l.mapM g = some as →
    as.length = l.length ∧ ∀ j (hj : j < l.length), ∃ a, g l[j] = some a ∧ as[j]? = some a := by
  intro l
  induction l with
  | nil =>
    intro as has
    simp only [List.mapM_nil, Option.pure_def, Option.some.injEq] at has
    subst has
    exact ⟨rfl, fun j hj => by simp at hj⟩
  | cons f rest ih =>
    intro as has
    rw [List.mapM_cons] at has
    cases hf : g f with
    | none => simp [hf] at has
    | some a0 =>
      cases hr : rest.mapM g with
      | none => simp [hf, hr] at has
      | some as' =>
        simp only [hf, hr, Option.pure_def, Option.bind_eq_bind, Option.bind_some,
          Option.some.injEq] at has
        subst has
        obtain ⟨hl, hget⟩ := ih as' hr
        refine ⟨by simp [hl], ?_⟩
        intro j hj
        cases j with
        | zero => exact ⟨a0, by simpa using hf, rfl⟩
        | succ j' =>
          obtain ⟨a, ha1, ha2⟩ := hget j' (by simpa using hj)
          exact ⟨a, by simpa using ha1, by simpa using ha2⟩

/-- the table of a flat dataclass: the built-in help, then action `i+1` for field `i` -/
theorem tableOf_facts (cfg : Cfg) (dest : Str) (fs : List FieldSpec) (tbl : List Act)
    (h : tableOf cfg dest fs = some tbl) :
    tbl.length = fs.length + 1 ∧ tbl[0]? = some helpAct ∧
      ∀ i (hi : i < fs.length), ∃ a, fieldAct cfg dest fs[i] = some a ∧ tbl[i + 1]? = some a := by
  unfold tableOf at h
  cases hm : fs.mapM (fieldAct cfg dest) with
  | none => simp [hm] at h
  | some acts =>
    simp only [hm, Option.map_some, Option.some.injEq] at h
    subst h
    obtain ⟨hl, hget⟩ := mapM_some_get (fieldAct cfg dest) fs acts hm
    refine ⟨by simp [hl], rfl, ?_⟩
    intro i hi
    obtain ⟨a, ha1, ha2⟩ := hget i hi
    exact ⟨a, ha1, by simpa using ha2⟩

theorem tableOf_get (cfg : Cfg) (dest : Str) (fs : List FieldSpec) (tbl : List Act)
    (h : tableOf cfg dest fs = some tbl) (i : Nat) (hi : i < fs.length) :
    ∃ a, fieldAct cfg dest fs[i] = some a ∧ tbl[i + 1]? = some a :=
  (tableOf_facts cfg dest fs tbl h).2.2 i hi

/-- what `fieldAct` copies from `get_arg_options`' answer -/
structure FieldFacts (dest : Str) (f : FieldSpec) (a : Act) (ao : ArgOpts) : Prop where
  hao : argOptions f = some ao
  dest : a.dest = dest ++ '.' :: f.name
  nargs : a.nargs = ao.nargs
  conv : a.conv = ao.conv
  choices : a.choices = ao.choices
  required : a.required = ao.required
  default : a.default = some ao.default
  kind : (ao.isBool = false ∧ a.kind = .store) ∨ (ao.isBool = true ∧ ∃ negs, a.kind = .boolOpt negs)

theorem fieldAct_facts (cfg : Cfg) (dest : Str) (f : FieldSpec) (a : Act)
    (h : fieldAct cfg dest f = some a) : ∃ ao, FieldFacts dest f a ao := by
  unfold fieldAct at h
  cases hao : argOptions f with
  | none => simp [hao] at h
  | some ao =>
    simp only [hao, Option.map_some, Option.some.injEq] at h
    subst h
    refine ⟨ao, hao, rfl, rfl, rfl, rfl, rfl, rfl, ?_⟩
    cases hb : ao.isBool
    · left; simp
    · right; simp

/-- a non-boolean field becomes a `store` action carrying exactly what `get_arg_options` says -/
theorem fieldAct_store (cfg : Cfg) (dest : Str) (f : FieldSpec) (ao : ArgOpts)
    (hao : argOptions f = some ao) (hb : ao.isBool = false) :
    ∃ a, fieldAct cfg dest f = some a ∧ a.kind = .store ∧ a.dest = dest ++ '.' :: f.name ∧
      a.nargs = ao.nargs ∧ a.conv = ao.conv ∧ a.choices = ao.choices ∧ a.required = ao.required ∧
      a.default = some ao.default := by
  unfold fieldAct
  simp only [hao, Option.map_some, hb, Bool.false_eq_true, ↓reduceIte]
  exact ⟨_, rfl, rfl, rfl, rfl, rfl, rfl, rfl, rfl⟩

theorem table_field (cfg : Cfg) (dest : Str) (fs : List FieldSpec) (tbl : List Act)
    (h : tableOf cfg dest fs = some tbl) (i : Nat) (hi : i < fs.length) :
    ∃ a ao, tbl[i + 1]? = some a ∧ FieldFacts dest fs[i] a ao := by
  obtain ⟨a, hfa, hta⟩ := tableOf_get cfg dest fs tbl h i hi
  obtain ⟨ao, hff⟩ := fieldAct_facts cfg dest fs[i] a hfa
  exact ⟨a, ao, hta, hff⟩

/-- `postprocess` field by field -/
theorem postAll_idx (dest : Str) (ns : List (Str × Val)) (fs : List FieldSpec)
    (g : FieldSpec → Nat → Val) (k : Nat)
    (h : ∀ i (hi : i < fs.length), postprocess fs[i]
      ((ns.lookup (dest ++ '.' :: fs[i].name)).getD (defaultVal fs[i].default)) = .ok (g fs[i] (k + i))) :
    postAll dest ns fs = .ok ((fs.zipIdx k).map (fun p => (p.1.name, g p.1 p.2))) := by
  induction fs generalizing k with
  | nil => rfl
  | cons f rest ih =>
    have h0 := h 0 (by simp)
    simp only [List.getElem_cons_zero, Nat.add_zero] at h0
    have ih' := ih (k + 1) (fun i hi => by
      have := h (i + 1) (by simpa using hi)
      simp only [List.getElem_cons_succ] at this
      rw [this]
      congr 2
      omega)
    simp only [postAll, h0, ih', List.zipIdx_cons, List.map_cons]

theorem postAll_eq (dest : Str) (ns : List (Str × Val)) (fs : List FieldSpec) (g : FieldSpec → Val)
    (h : ∀ f ∈ fs, postprocess f ((ns.lookup (dest ++ '.' :: f.name)).getD (defaultVal f.default))
      = .ok (g f)) :
    postAll dest ns fs = .ok (fs.map (fun f => (f.name, g f))) := by
  induction fs with
  | nil => rfl
  | cons f rest ih =>
    simp only [postAll, h f (by simp), ih (fun x hx => h x (by simp [hx])), List.map_cons]

/-- **C02 (flat pipeline, generic form).** For one flat dataclass, a command line of well-formed
    option segments is accepted and every field comes out as `postprocess` of what the segments
    stored over the defaults — any number of fields and segments, any order, either spelling.
    (`c02_roundtrip` below discharges every hypothesis for the canonical command line.) -/
theorem c02_flat_pipeline (fenv : FEnv) (cfg : Cfg) (dest : Str) (fs : List FieldSpec)
    (tbl : List Act) (htbl : tableOf cfg dest fs = some tbl) (vsegs : List VSeg)
    (hlex : ∀ v ∈ vsegs, LexOk' tbl v.eseg)
    (hok : ∀ v ∈ vsegs, SegOk fenv tbl v)
    (hfin : ∀ p ∈ tbl.zipIdx, (∃ v ∈ vsegs, v.seg.idx = p.2) ∨
      (p.1.required = false ∧ QuietDefault fenv p.1))
    (g : FieldSpec → Nat → Val)
    (hpost : ∀ i (hi : i < fs.length), postprocess fs[i] (((storeAll tbl (initNs tbl) vsegs).lookup
      (dest ++ '.' :: fs[i].name)).getD (defaultVal fs[i].default)) = .ok (g fs[i] i)) :
    parseFlat fenv cfg dest fs (render' (vsegs.map (·.eseg))) =
      .ok (fs.zipIdx.map (fun p => (p.1.name, g p.1 p.2))) := by
  unfold parseFlat
  simp only [htbl]
  have hal : C04.Aligned tbl (tbl.map (fun _ => 0)) := by
    refine ⟨by simp, ?_⟩
    intro i act bs hact _ _
    have : (tbl.map (fun _ => 0)).getD i 0 = 0 := by
      simp only [List.getD_eq_getElem?_getD, List.getElem?_map]
      cases tbl[i]? <;> rfl
    rw [this]; simp
  rw [c02_engine_roundtrip fenv tbl _ vsegs hal hlex hok hfin]
  simp only [postAll_idx dest _ fs g 0 (by simpa using hpost)]

/-! #### the namespace before the loop: every action's default -/

def initStep (ns : List (Str × Val)) (a : Act) : List (Str × Val) :=
  match a.default with
  | some d => if ns.any (fun p => p.1 = a.dest) then ns else ns ++ [(a.dest, d)]
  | none => ns

theorem initNs_eq (tbl : List Act) : initNs tbl = tbl.foldl initStep [] := rfl

theorem initFold_keep (l : List Act) (acc : List (Str × Val)) (k : Str) (v : Val)
    (h : acc.lookup k = some v) : (l.foldl initStep acc).lookup k = some v := by
  induction l generalizing acc with
  | nil => exact h
  | cons a rest ih =>
    simp only [List.foldl_cons]
    apply ih
    unfold initStep
    cases a.default with
    | none => exact h
    | some d =>
      simp only
      split
      · exact h
      · rename_i hany
        have hk : k ≠ a.dest := by
          intro hh
          apply hany
          simp only [List.any_eq_true, decide_eq_true_eq]
          exact ⟨(k, v), lookup_some_mem acc k v h, hh⟩
        rw [lookup_append_other acc a.dest k d hk]
        exact h

theorem initFold_skip (l : List Act) (acc : List (Str × Val)) (k : Str)
    (hl : ∀ b ∈ l, b.default ≠ none → b.dest ≠ k)
    (h : acc.any (fun p => p.1 = k) = false) :
    (l.foldl initStep acc).any (fun p => p.1 = k) = false := by
  induction l generalizing acc with
  | nil => exact h
  | cons a rest ih =>
    simp only [List.foldl_cons]
    apply ih _ (fun b hb => hl b (List.mem_cons_of_mem _ hb))
    unfold initStep
    cases hd : a.default with
    | none => exact h
    | some d =>
      simp only
      split
      · exact h
      · have hne := hl a (by simp) (by rw [hd]; simp)
        simp only [List.any_append, h, List.any_cons, List.any_nil, Bool.or_false, Bool.false_or,
          decide_eq_false_iff_not]
        exact hne

/-- **what the namespace holds for an action before the loop**: its `default=`, provided no other
    action with a default shares its destination -/
theorem initNs_lookup (tbl : List Act) (i : Nat) (a : Act) (d : Val) (ha : tbl[i]? = some a)
    (hd : a.default = some d)
    (hother : ∀ j b, tbl[j]? = some b → j ≠ i → b.default ≠ none → b.dest ≠ a.dest) :
    (initNs tbl).lookup a.dest = some d := by
  have hi : i < tbl.length := (List.getElem?_eq_some_iff.mp ha).1
  have hai : tbl[i] = a := (List.getElem?_eq_some_iff.mp ha).2
  have hsplit : tbl = tbl.take i ++ a :: tbl.drop (i + 1) := by
    conv => lhs; rw [← List.take_append_drop i tbl, List.drop_eq_getElem_cons hi, hai]
  rw [initNs_eq, hsplit, List.foldl_append, List.foldl_cons]
  apply initFold_keep
  have hskip := initFold_skip (tbl.take i) [] a.dest (by
    intro b hb
    obtain ⟨j, hj⟩ := List.mem_iff_getElem?.mp hb
    rw [List.getElem?_take] at hj
    split at hj
    · rename_i hji
      exact hother j b hj (by omega)
    · cases hj) rfl
  generalize List.foldl initStep [] (List.take i tbl) = X at hskip ⊢
  unfold initStep
  simp only [hd, hskip, Bool.false_eq_true, ↓reduceIte]
  exact lookup_append_same _ a.dest d hskip

/-! #### the headline -/

/-- one field assignment on the command line: which field, through which of its option strings,
    the typed value written, and the spelling -/
structure Asg where
  field : Nat
  opt : Str
  val : Val
  eq : Bool := false

/-- the canonical segment of an assignment: the option string followed by the value's canonical
    tokens (`fieldToks`); `fieldRaw` is what the engine's converter makes of them -/
def Asg.vseg (fs : List FieldSpec) (x : Asg) : VSeg :=
  let ty : FTy := match fs[x.field]? with
    | some f => f.ty
    | none => ⟨.sc (.base .str), false⟩
  ⟨⟨x.field + 1, x.opt, fieldToks ty x.val⟩, fieldRaw ty x.val, x.eq⟩

/-- **the canonical command line** of an assignment list, in the order and spellings given -/
def canonicalArgv (fs : List FieldSpec) (asg : List Asg) : List Str :=
  render' (asg.map (fun x => (x.vseg fs).eseg))

/-- **the dataclass the property promises**: every assigned field holds the value written, every
    other field its default -/
def expected (fs : List FieldSpec) (asg : List Asg) : List (Str × Val) :=
  fs.zipIdx.map (fun p => (p.1.name,
    match asg.find? (fun x => x.field = p.2) with
    | some x => x.val
    | none => defaultVal p.1.default))

/-- one assignment is well-formed: an existing field, an expressible value of its annotation, the
    option string is one the table maps to that field (a positive one for a `bool` field), and —
    the property's only exclusion — in the spaced spelling every token is one argparse itself lexes
    as an argument -/
structure AsgOk (fenv : FEnv) (fs : List FieldSpec) (tbl : List Act) (x : Asg) : Prop where
  inb : x.field < fs.length
  val : ∀ f, fs[x.field]? = some f → ValOk fenv f.ty x.val
  lex : LexOk' tbl (x.vseg fs).eseg
  pos : ∀ act negs, tbl[x.field + 1]? = some act → act.kind = .boolOpt negs → negs.contains x.opt = false

theorem nodup_getElem_ne {α : Type} (l : List α) (h : l.Nodup) (i j : Nat) (hi : i < l.length)
    (hj : j < l.length) (hne : i ≠ j) : l[i] ≠ l[j] := by
  have hp := List.pairwise_iff_getElem.mp h
  rcases Nat.lt_or_gt_of_ne hne with hlt | hgt
  · exact hp i j hi hj hlt
  · exact fun hh => hp j i hj hi hgt hh.symm

theorem dest_inj (dest n1 n2 : Str) (h : dest ++ '.' :: n1 = dest ++ '.' :: n2) : n1 = n2 := by
  have := List.append_cancel_left h
  exact (List.cons.inj this).2

/-- per assignment: the segment is accepted and `postprocess` of what it stores is the value -/
theorem asg_facts (fenv : FEnv) (cfg : Cfg) (dest : Str) (fs : List FieldSpec) (tbl : List Act)
    (htbl : tableOf cfg dest fs = some tbl) (hdef : ∀ f ∈ fs, DefaultOk f)
    (x : Asg) (hx : AsgOk fenv fs tbl x) :
    ∃ a, tbl[x.field + 1]? = some a ∧ a.dest = dest ++ '.' :: (fs[x.field]'hx.inb).name ∧
      SegOk fenv tbl (x.vseg fs) ∧
      postprocess (fs[x.field]'hx.inb) (storedVal a (x.vseg fs).seg.opt (x.vseg fs).vals) = .ok x.val := by
  have hi := hx.inb
  obtain ⟨a, ao, hta, hff⟩ := table_field cfg dest fs tbl htbl x.field hi
  have hget : fs[x.field]? = some fs[x.field] := List.getElem?_eq_getElem hi
  have hact : ActOf ao a x.opt := by
    refine ⟨hff.nargs, hff.conv, hff.choices, ?_⟩
    rcases hff.kind with hk | ⟨hb, negs, hk⟩
    · exact Or.inl hk
    · exact Or.inr ⟨hb, negs, hk, hx.pos a negs hta hk⟩
  have hd : fs[x.field].ty.optional = true ∨ fs[x.field].default ≠ .value (.sc .none) := by
    have := hdef fs[x.field] (List.getElem_mem hi)
    by_cases hn : fs[x.field].default = .value (.sc .none)
    · left; unfold DefaultOk at this; rw [hn] at this; exact this
    · exact Or.inr hn
  obtain ⟨h1, h2⟩ := field_segOk fenv tbl fs[x.field] ao hff.hao a (x.field + 1) x.opt x.eq hta hact hd
    x.val (hx.val _ hget)
  refine ⟨a, hta, hff.dest, ?_, ?_⟩
  · simpa [Asg.vseg, hget] using h1
  · simpa [Asg.vseg, hget] using h2

/-- **C02 (headline).** For ONE flat dataclass whose fields have supported annotations (plain
    int / float / str / bool / Path / Enum, `Literal[…]`, `List[T]`, `Tuple[T, ...]`,
    `Tuple[T1, …, Tn]`, `Optional` of the non-Literal ones) and keepable defaults, the canonical
    command line of ANY assignment — any subset of the fields (containing the required ones), in any
    order, each option written `--opt v…` or `--opt=v` — is accepted by the whole pipeline
    (`get_arg_options` → argparse → `postprocess`) and yields exactly: the written value (same type
    tag) in every assigned field, the default in every other field. -/
theorem c02_roundtrip (fenv : FEnv) (cfg : Cfg) (dest : Str) (fs : List FieldSpec) (tbl : List Act)
    (htbl : tableOf cfg dest fs = some tbl)
    (hnames : (fs.map (·.name)).Nodup)
    (hsup : ∀ f ∈ fs, SupTy f.ty) (hdef : ∀ f ∈ fs, DefaultOk f)
    (asg : List Asg) (hasg : ∀ x ∈ asg, AsgOk fenv fs tbl x)
    (hdist : (asg.map (·.field)).Nodup)
    (hreq : ∀ i (hi : i < fs.length), fs[i].default = .missing → fs[i].ty.optional = false →
      ∃ x ∈ asg, x.field = i) :
    parseFlat fenv cfg dest fs (canonicalArgv fs asg) = .ok (expected fs asg) := by
  obtain ⟨hlen, hhelp, _⟩ := tableOf_facts cfg dest fs tbl htbl
  have hcanon : canonicalArgv fs asg = render' ((asg.map (Asg.vseg fs)).map (·.eseg)) := by
    simp [canonicalArgv, List.map_map, Function.comp_def]
  rw [hcanon]
  -- distinct fields have distinct destinations
  have hdestne : ∀ i j (hi : i < fs.length) (hj : j < fs.length), i ≠ j →
      dest ++ '.' :: fs[i].name ≠ dest ++ '.' :: fs[j].name := by
    intro i j hi hj hne hh
    have h1 := nodup_getElem_ne (fs.map (·.name)) hnames i j (by simpa using hi) (by simpa using hj) hne
    simp only [List.getElem_map] at h1
    exact h1 (dest_inj dest _ _ hh)
  -- which action a segment of the list targets
  have hseg_act : ∀ x ∈ asg, ∀ b, tbl[(x.vseg fs).seg.idx]? = some b →
      ∃ hi : x.field < fs.length, b.dest = dest ++ '.' :: (fs[x.field]'hi).name := by
    intro x hx b hb
    obtain ⟨a, hta, hdst, _, _⟩ := asg_facts fenv cfg dest fs tbl htbl hdef x (hasg x hx)
    have : (x.vseg fs).seg.idx = x.field + 1 := rfl
    rw [this, hta] at hb
    cases hb
    exact ⟨(hasg x hx).inb, hdst⟩
  have hexp : expected fs asg = fs.zipIdx.map (fun p => (p.1.name,
      (fun (f : FieldSpec) (i : Nat) => match asg.find? (fun x => decide (x.field = i)) with
        | some x => x.val
        | none => defaultVal f.default) p.1 p.2)) := rfl
  rw [hexp]
  refine c02_flat_pipeline fenv cfg dest fs tbl htbl (asg.map (Asg.vseg fs)) ?_ ?_ ?_
    (fun (f : FieldSpec) (i : Nat) => match asg.find? (fun x => decide (x.field = i)) with
        | some x => x.val
        | none => defaultVal f.default) ?_
  · intro v hv
    obtain ⟨x, hx, rfl⟩ := List.mem_map.mp hv
    exact (hasg x hx).lex
  · intro v hv
    obtain ⟨x, hx, rfl⟩ := List.mem_map.mp hv
    obtain ⟨a, _, _, hok, _⟩ := asg_facts fenv cfg dest fs tbl htbl hdef x (hasg x hx)
    exact hok
  · -- `finish`: required actions were seen, unseen defaults are quiet
    intro p hp
    have hp' : tbl[p.2]? = some p.1 := List.mem_zipIdx_iff_getElem?.mp hp
    obtain ⟨pa, pi⟩ := p
    simp only at hp' ⊢
    by_cases hseen : ∃ x ∈ asg, x.field + 1 = pi
    · obtain ⟨x, hx, hxi⟩ := hseen
      exact Or.inl ⟨x.vseg fs, List.mem_map.mpr ⟨x, hx, rfl⟩, hxi⟩
    · right
      cases pi with
      | zero =>
        rw [hhelp] at hp'
        have hpa : pa = helpAct := by simpa using hp'.symm
        subst hpa
        exact ⟨rfl, fun s hs => by simp [helpAct] at hs⟩
      | succ i =>
        have hi : i < fs.length := by
          have := (List.getElem?_eq_some_iff.mp hp').1
          omega
        obtain ⟨a, ao, hta, hff⟩ := table_field cfg dest fs tbl htbl i hi
        rw [hta] at hp'
        have hpa : pa = a := by simpa using hp'.symm
        subst hpa
        have hfi := List.getElem_mem hi
        constructor
        · rw [hff.required]
          cases hr : ao.required with
          | false => rfl
          | true =>
            obtain ⟨h1, h2⟩ := ao_required fs[i] ao hff.hao hr
            obtain ⟨x, hx, hxi⟩ := hreq i hi h1 h2
            exact absurd ⟨x, hx, by rw [hxi]⟩ hseen
        · intro s hs k
          rw [hff.default] at hs
          rw [hff.conv]
          exact quiet_default fenv fs[i] ao hff.hao (hsup _ hfi) (hdef _ hfi) s (by simpa using hs) k
  · -- `postprocess` per field
    intro i hi
    obtain ⟨a, ao, hta, hff⟩ := table_field cfg dest fs tbl htbl i hi
    beta_reduce
    cases hfind : asg.find? (fun x => decide (x.field = i)) with
    | some x =>
      have hxm : x ∈ asg := List.mem_of_find?_eq_some hfind
      have hxi : x.field = i := by simpa using List.find?_some hfind
      obtain ⟨a', hta', hdst', _, hpp⟩ := asg_facts fenv cfg dest fs tbl htbl hdef x (hasg x hxm)
      subst hxi
      rw [hta] at hta'
      cases hta'
      -- the segment of `x` is the only writer of this destination
      have hpair : (asg.map (Asg.vseg fs)).Pairwise (Distinct tbl) := by
        rw [List.pairwise_map]
        have hp0 : asg.Pairwise (fun x y => x.field ≠ y.field) := by
          have := hdist
          rw [List.Nodup, List.pairwise_map] at this
          exact this
        refine List.Pairwise.imp_of_mem ?_ hp0
        intro y z hy hz hne b c hb hc
        obtain ⟨hyi, hyd⟩ := hseg_act y hy b hb
        obtain ⟨hzi, hzd⟩ := hseg_act z hz c hc
        rw [hyd, hzd]
        exact hdestne _ _ hyi hzi hne
      have hlook := lookup_of_writer tbl (initNs tbl) (asg.map (Asg.vseg fs)) hpair (x.vseg fs)
        (List.mem_map.mpr ⟨x, hxm, rfl⟩) a hta
      rw [hff.dest] at hlook
      rw [hlook]
      simpa using hpp
    | none =>
      have hnone : ∀ x ∈ asg, x.field ≠ i := by
        intro x hx
        have := List.find?_eq_none.mp hfind x hx
        simpa using this
      have hunt := storeAll_untouched tbl (initNs tbl) (asg.map (Asg.vseg fs))
        (dest ++ '.' :: fs[i].name) (by
          intro v hv b hb
          obtain ⟨x, hx, rfl⟩ := List.mem_map.mp hv
          obtain ⟨hxi, hxd⟩ := hseg_act x hx b hb
          rw [hxd]
          exact hdestne _ _ hxi hi (hnone x hx))
      have hinit := initNs_lookup tbl (i + 1) a ao.default hta hff.default (by
        intro j b hb hji hbd
        cases j with
        | zero =>
          rw [hhelp] at hb
          cases hb
          exact absurd rfl hbd
        | succ j' =>
          have hj' : j' < fs.length := by
            have := (List.getElem?_eq_some_iff.mp hb).1
            omega
          obtain ⟨b', bo, htb, hfb⟩ := table_field cfg dest fs tbl htbl j' hj'
          rw [htb] at hb
          cases hb
          rw [hfb.dest, hff.dest]
          exact hdestne _ _ hj' hi (by omega))
      rw [hff.dest] at hinit
      rw [hunt, hinit]
      simp only [Option.getD_some]
      rw [ao_default fs[i] ao hff.hao]
      exact post_default fs[i] (hdef _ (List.getElem_mem hi))


/-! #### corollaries of the headline: order, spelling, "written" and "unmentioned" clauses -/

/-- the content of an assignment, without the option string / spelling used to write it -/
def Asg.core (x : Asg) : Nat × Val := (x.field, x.val)

theorem nodup_map_inj {α β : Type} (f : α → β) : ∀ (l : List α), (l.map f).Nodup →
    ∀ x ∈ l, ∀ y ∈ l, f x = f y → x = y := by
  intro l
  induction l with
  | nil => intro _ x hx; simp at hx
  | cons a rest ih =>
    intro hn x hx y hy hxy
    simp only [List.map_cons, List.nodup_cons, List.mem_map, not_exists, not_and] at hn
    rcases List.mem_cons.mp hx with rfl | hx' <;> rcases List.mem_cons.mp hy with rfl | hy'
    · rfl
    · exact absurd hxy.symm (hn.1 y hy')
    · exact absurd hxy (hn.1 x hx')
    · exact ih hn.2 x hx' y hy' hxy

theorem find_val_iff (asg : List Asg) (hd : (asg.map (·.field)).Nodup) (i : Nat) (v : Val) :
    (asg.find? (fun x => decide (x.field = i))).map (·.val) = some v ↔ (i, v) ∈ asg.map Asg.core := by
  constructor
  · intro h
    cases hf : asg.find? (fun x => decide (x.field = i)) with
    | none => simp [hf] at h
    | some x =>
      simp only [hf, Option.map_some, Option.some.injEq] at h
      have hx := List.mem_of_find?_eq_some hf
      have hxi : x.field = i := by simpa using List.find?_some hf
      exact List.mem_map.mpr ⟨x, hx, by simp [Asg.core, hxi, h]⟩
  · intro h
    obtain ⟨x, hx, hxc⟩ := List.mem_map.mp h
    simp only [Asg.core, Prod.mk.injEq] at hxc
    cases hf : asg.find? (fun x => decide (x.field = i)) with
    | none =>
      have := List.find?_eq_none.mp hf x hx
      simp [hxc.1] at this
    | some y =>
      have hy := List.mem_of_find?_eq_some hf
      have hyi : y.field = i := by simpa using List.find?_some hf
      have hxy : x = y := nodup_map_inj (·.field) asg hd x hx y hy (by rw [hxc.1, hyi])
      simp [← hxy, hxc.2]

/-- the promised dataclass depends only on WHAT is assigned — not on the order of the options, the
    option strings chosen, or the spelling -/
theorem expected_perm (fs : List FieldSpec) (asg1 asg2 : List Asg)
    (h1 : (asg1.map (·.field)).Nodup) (h2 : (asg2.map (·.field)).Nodup)
    (hperm : (asg1.map Asg.core).Perm (asg2.map Asg.core)) : expected fs asg1 = expected fs asg2 := by
  unfold expected
  apply List.map_congr_left
  intro p _
  have key : (asg1.find? (fun x => decide (x.field = p.2))).map (·.val) =
      (asg2.find? (fun x => decide (x.field = p.2))).map (·.val) := by
    apply Option.ext
    intro v
    rw [find_val_iff asg1 h1, find_val_iff asg2 h2]
    exact hperm.mem_iff
  cases hf1 : asg1.find? (fun x => decide (x.field = p.2)) <;>
    cases hf2 : asg2.find? (fun x => decide (x.field = p.2)) <;> simp_all

/-- **C02 (order and spelling independence, end to end).** Two canonical command lines that assign
    the same values to the same fields — the option segments in ANY order, each in EITHER spelling
    (`--opt v` / `--opt=v`), through any of the field's option strings — parse to the same
    dataclass. -/
theorem c02_order_spelling_independent (fenv : FEnv) (cfg : Cfg) (dest : Str) (fs : List FieldSpec)
    (tbl : List Act) (htbl : tableOf cfg dest fs = some tbl)
    (hnames : (fs.map (·.name)).Nodup)
    (hsup : ∀ f ∈ fs, SupTy f.ty) (hdef : ∀ f ∈ fs, DefaultOk f)
    (asg1 asg2 : List Asg)
    (hasg1 : ∀ x ∈ asg1, AsgOk fenv fs tbl x) (hasg2 : ∀ x ∈ asg2, AsgOk fenv fs tbl x)
    (hdist1 : (asg1.map (·.field)).Nodup)
    (hperm : (asg1.map Asg.core).Perm (asg2.map Asg.core))
    (hreq : ∀ i (hi : i < fs.length), fs[i].default = .missing → fs[i].ty.optional = false →
      ∃ x ∈ asg1, x.field = i) :
    parseFlat fenv cfg dest fs (canonicalArgv fs asg1) =
      parseFlat fenv cfg dest fs (canonicalArgv fs asg2) := by
  have hfields : (asg1.map (·.field)).Perm (asg2.map (·.field)) := by
    have := hperm.map Prod.fst
    simpa [List.map_map, Function.comp_def, Asg.core] using this
  have hdist2 : (asg2.map (·.field)).Nodup := (hfields.nodup_iff).mp hdist1
  have hreq2 : ∀ i (hi : i < fs.length), fs[i].default = .missing → fs[i].ty.optional = false →
      ∃ x ∈ asg2, x.field = i := by
    intro i hi hm ho
    obtain ⟨x, hx, hxi⟩ := hreq i hi hm ho
    have : i ∈ asg2.map (·.field) := hfields.mem_iff.mp (List.mem_map.mpr ⟨x, hx, hxi⟩)
    obtain ⟨y, hy, hyi⟩ := List.mem_map.mp this
    exact ⟨y, hy, hyi⟩
  rw [c02_roundtrip fenv cfg dest fs tbl htbl hnames hsup hdef asg1 hasg1 hdist1 hreq,
    c02_roundtrip fenv cfg dest fs tbl htbl hnames hsup hdef asg2 hasg2 hdist2 hreq2,
    expected_perm fs asg1 asg2 hdist1 hdist2 hperm]

/-- **"every field not mentioned keeps its default"** and **"the field receives the value written"**,
    read off the promised dataclass -/
theorem expected_get (fs : List FieldSpec) (asg : List Asg) (i : Nat) (hi : i < fs.length) :
    (expected fs asg)[i]? = some (fs[i].name,
      match asg.find? (fun x => decide (x.field = i)) with
      | some x => x.val
      | none => defaultVal fs[i].default) := by
  simp [expected, List.getElem?_map, List.getElem?_zipIdx, List.getElem?_eq_getElem hi] <;> rfl

theorem c02_unmentioned_default (fs : List FieldSpec) (asg : List Asg) (i : Nat) (hi : i < fs.length)
    (hno : ∀ x ∈ asg, x.field ≠ i) :
    (expected fs asg)[i]? = some (fs[i].name, defaultVal fs[i].default) := by
  rw [expected_get fs asg i hi]
  have : asg.find? (fun x => decide (x.field = i)) = none := by
    rw [List.find?_eq_none]
    intro x hx
    simpa using hno x hx
  simp [this]

theorem c02_written_value (fs : List FieldSpec) (asg : List Asg) (hd : (asg.map (·.field)).Nodup)
    (x : Asg) (hx : x ∈ asg) (hi : x.field < fs.length) :
    (expected fs asg)[x.field]? = some (fs[x.field].name, x.val) := by
  rw [expected_get fs asg x.field hi]
  have h := (find_val_iff asg hd x.field x.val).mpr (List.mem_map.mpr ⟨x, hx, rfl⟩)
  cases hf : asg.find? (fun y => decide (y.field = x.field)) with
  | none => simp [hf] at h
  | some y => simp only [hf, Option.map_some, Option.some.injEq] at h; simp [h]

/-! ### 9. what the code does NOT satisfy (open findings; the headline excludes exactly these)

  The property lists "Literal/choice … Optional of these … list". Three supported-looking
  declarations are rejected by the code for EVERY value written:

  * `x: Optional[Literal[1, 2]]` / `x: List[Literal["a", "b"]]` — `is_choice` only sees a top-level
    Literal, so the field falls into the Optional / List branch, whose `type=` is
    `get_parsing_fn(Literal[…])` = the typing object itself ("use the type directly",
    field_parsing.py:146-149); calling it raises TypeError for every token → exit 2
    "invalid Literal value".  (`Model/Fields.lean` answers "outside the modelled fragment" for
    these; the action the code builds is written out here and compared with the real parser by the
    correspondence op `engine.run`.)
  * `x: int = choice(1, 2, 3, default=1)` — `type=str` with `choices=[1, 2, 3]` (the VALUES,
    field_wrapper.py:262-268): a token is a `str`, never equal to an `int` → exit 2 "invalid choice".
-/

/-- `get_parsing_fn(Literal[…])`: the typing object, which cannot be called — every token is a
    TypeError (argparse: "invalid Literal value") -/
def literalTypeConv : Conv := .base (.enumName "Literal".toList [])

theorem literalTypeConv_rejects (fenv : FEnv) (k : Nat) (s : Str) :
    literalTypeConv.apply fenv k s = .typeErr := by
  simp [literalTypeConv, Conv.apply, BConv.apply]

/-- the action the code builds for `x: Optional[Literal[…]]` (`star = false`, `nargs='?'`) and for
    `x: List[Literal[…]]` (`star = true`, `nargs='*'`) -/
def wrappedLiteralAct (star : Bool) (dflt : Val) : Act :=
  { opts := ["--x".toList], dest := "c.x".toList, kind := .store, nargs := if star then .star else .opt,
    conv := literalTypeConv, choices := none, required := false, default := some dflt }

/-- **every value written to a wrapped Literal field is rejected** (any token, either wrapper) -/
theorem wrappedLiteral_rejects (fenv : FEnv) (tbl : List Act) (st : St) (i : Nat) (o t : Str)
    (ts : List Str) (a : Act) (ha : tbl[i]? = some a) (hk : a.kind = .store)
    (hc : a.conv = literalTypeConv) :
    takeAction fenv tbl st i o (t :: ts) = .error (.exit 2 .type) := by
  have hv : getValue fenv a i st.counters t = .error (.exit 2 .type) := by
    simp [getValue, hc, literalTypeConv_rejects]
  have hl : getValuesList fenv a i st.counters (t :: ts) = .error (.exit 2 .type) := by
    simp [getValuesList, hv]
  unfold takeAction
  simp only [ha, hk]
  rw [getValues_ok_iff, hl]

/-- **the whole run exits with status 2 ("invalid Literal value") whatever value token is written** -/
theorem wrappedLiteral_run (star : Bool) (t : Str) (hA : classify [helpAct, wrappedLiteralAct star (.sc .none)] t = .ok .A)
    (hdd : t ≠ ['-', '-']) :
    runStrict [] [helpAct, wrappedLiteralAct star (.sc .none)] [0, 0] ["--x".toList, t] = .exit 2 .type := by
  have hopt : classify [helpAct, wrappedLiteralAct star (.sc .none)] "--x".toList =
      .ok (.O (some 1) "--x".toList none) := by
    cases star <;> decide
  have hlex : lexAll [helpAct, wrappedLiteralAct star (.sc .none)] ["--x".toList, t] =
      .ok [.O (some 1) "--x".toList none, .A] := by
    have hne : ("--x".toList = ['-', '-']) = False := by decide
    simp only [lexAll, hne, ↓reduceIte, hopt, hdd, hA]
  have hget : [helpAct, wrappedLiteralAct star (.sc .none)][1]? = some (wrappedLiteralAct star (.sc .none)) := rfl
  have hmc : matchCount (wrappedLiteralAct star (.sc .none)).nargs [Tok.A] = some 1 := by
    cases star <;> rfl
  have hta := wrappedLiteral_rejects [] [helpAct, wrappedLiteralAct star (.sc .none)]
    { ns := initNs [helpAct, wrappedLiteralAct star (.sc .none)], extras := [], seen := [], counters := [0, 0] }
    1 "--x".toList t [] (wrappedLiteralAct star (.sc .none)) hget rfl rfl
  unfold runStrict run
  rw [hlex]
  simp only [List.length_cons, List.length_nil, List.zip_cons_cons, List.zip_nil_right, consume, hget,
    List.map_cons, List.map_nil, hmc, List.take_succ_cons, List.take_zero, hta]
  have hkind : ((wrappedLiteralAct star (.sc .none)).kind = ActKind.help) = False := by
    simp [wrappedLiteralAct]
  simp [hkind]

/-- the full statement for wrapped Literals: the name of a value of the Literal can be written -/
def WrappedLiteralRoundTrips : Prop :=
  ∀ (star : Bool) (vals : List Scalar) (v : Scalar) (n : Str), v ∈ vals → literalName v = some n →
    NoDash n → ∃ (ns : List (Str × Val)) (cs : List Nat),
      runStrict [] [helpAct, wrappedLiteralAct star (.sc .none)] [0, 0] ["--x".toList, n] = .ok ns [] cs

/-- **open finding C02-wrapped-literal**: `x: Optional[Literal["a", "b"]]` with `--x a` is rejected -/
theorem c02_wrapped_literal_witness : ¬ WrappedLiteralRoundTrips := by
  intro h
  obtain ⟨ns, cs, hrun⟩ := h false [.str "a".toList, .str "b".toList] (.str "a".toList) "a".toList
    (by simp) rfl (by simp [NoDash])
  rw [wrappedLiteral_run false "a".toList (classify_nodash _ _ (by simp [NoDash])) (by decide)] at hrun
  cases hrun

/-- **Literal, the partial statement** (named exclusion: the Literal is NOT wrapped — `f.ty` is
    `⟨.literal vals, false⟩`; `ValOk` excludes `Optional[Literal]` by its clause
    `∀ vals, ty.inner ≠ .literal vals`, and `ValOkN` has no `List[Literal]` case): the name of a value
    is accepted and `postprocess` returns the value that name denotes. `c02_roundtrip` carries it
    through the whole pipeline. -/
theorem c02_literal_partial (fenv : FEnv) (tbl : List Act) (f : FieldSpec) (vals : List Scalar)
    (hty : f.ty = ⟨.literal vals, false⟩) (ao : ArgOpts) (hao : argOptions f = some ao)
    (a : Act) (idx : Nat) (opt : Str) (eq : Bool) (ha : tbl[idx]? = some a) (hact : ActOf ao a opt)
    (s : Scalar) (hs : LastNamed vals s) :
    ∃ n, literalName s = some n ∧ SegOk fenv tbl ⟨⟨idx, opt, [n]⟩, [.str n], eq⟩ ∧
      postprocess f (storedVal a opt [.str n]) = .ok (.sc s) := by
  obtain ⟨n, hn, hlast⟩ := hs
  exact ⟨n, hn, fld_literal fenv tbl f vals hty ao hao a idx opt eq ha hact s n hn hlast⟩

/-- what `choice(*options)` hands to argparse: `type=str`, `choices=options` — the VALUES. A
    command-line token is a `str`, so only the `str` options can ever match it. -/
def choiceAct (options : List Scalar) (dflt : Val) : Act :=
  { opts := ["--x".toList], dest := "c.x".toList, kind := .store, nargs := .one, conv := .base .str,
    choices := some (options.filterMap (fun o => match o with
      | .str s => some s
      | _ => none)),
    required := false, default := some dflt }

/-- the full statement for `choice`: the `str()` of any option can be written -/
def ChoiceRoundTrips : Prop :=
  ∀ (options : List Scalar) (v : Scalar) (n : Str), v ∈ options → literalName v = some n → NoDash n →
    ∃ (ns : List (Str × Val)) (cs : List Nat),
      runStrict [] [helpAct, choiceAct options (.sc v)] [0, 0] ["--x".toList, n] = .ok ns [] cs

/-- **open finding C02-choice-nonstr**: `x: bool = choice(True, False, default=True)` with
    `--x False` is rejected ("invalid choice") -/
theorem c02_choice_nonstr_witness : ¬ ChoiceRoundTrips := by
  intro h
  obtain ⟨ns, cs, hrun⟩ := h [.bool true, .bool false] (.bool false) "False".toList (by simp) rfl
    (by simp [NoDash])
  have hex : runStrict [] [helpAct, choiceAct [.bool true, .bool false] (.sc (.bool false))] [0, 0]
      ["--x".toList, "False".toList] = .exit 2 .choice := by decide
  rw [hex] at hrun
  cases hrun

/-- **`choice` with string options** (the partial statement; named exclusion: the written option is a
    `str`): the option is accepted and stored as that string -/
theorem c02_choice_str_partial (fenv : FEnv) (tbl : List Act) (idx : Nat) (options : List Scalar)
    (dflt : Val) (s : Str) (hs : Scalar.str s ∈ options) (ha : tbl[idx]? = some (choiceAct options dflt))
    (eq : Bool) :
    SegOk fenv tbl ⟨⟨idx, "--x".toList, [s]⟩, [.str s], eq⟩ := by
  apply segOk_choice fenv tbl idx "--x".toList (choiceAct options dflt) _ s eq ha rfl rfl rfl rfl
  rw [List.mem_filterMap]
  exact ⟨.str s, hs, rfl⟩

/-! ### 10. non-vacuity: concrete inputs meet every hypothesis -/

def demoTbl : List Act :=
  [ helpAct,
    { opts := ["--n".toList], dest := "c.n".toList, kind := .store, nargs := .one, conv := .base .int,
      choices := none, required := false, default := some (.sc (.int 0)) },
    { opts := ["--l".toList], dest := "c.l".toList, kind := .store, nargs := .star, conv := .base .str,
      choices := none, required := false, default := some (.list []) } ]

example : runStrict [] demoTbl [0, 0, 0] ["--l".toList, "a".toList, "".toList, "--n".toList, "-5".toList] =
    .ok [("c.n".toList, .sc (.int (-5))), ("c.l".toList, .list [.str "a".toList, .str []])] [] [0, 0, 0] := by
  decide

/-- `LexOk'` in the spaced spelling with a NEGATIVE NUMBER token, and in the `=` spelling -/
example : LexOk' demoTbl ⟨⟨1, "--n".toList, ["-5".toList]⟩, false⟩ :=
  ⟨by decide, ⟨_, rfl⟩, by decide, by
    intro _ t ht
    simp only [List.mem_cons, List.not_mem_nil, or_false] at ht
    subst ht
    exact argTok_of_neg demoTbl _ (by decide) (by decide) (by
      intro p hp c r hpr
      simp only [demoTbl, optTable, helpAct] at hp
      simp at hp
      rcases hp with h | h | h | h <;> subst h <;> simp at hpr <;> obtain ⟨rfl, _⟩ := hpr <;> decide),
   fun t ht => by simp [ESeg.eqTok] at ht⟩

example : LexOk' demoTbl ⟨⟨1, "--n".toList, ["-5".toList]⟩, true⟩ :=
  ⟨by decide, ⟨_, rfl⟩, by decide, fun h => by simp [ESeg.eqTok] at h,
   fun t ht => by
    simp only [ESeg.eqTok, Option.some.injEq] at ht
    subst ht
    exact ⟨by decide, by decide⟩⟩

/-- `SegOk` for the boolean action and for a store action -/
example : SegOk []
    [helpAct, { opts := ["--f".toList, "--nof".toList], dest := "c.f".toList, kind := .boolOpt ["--nof".toList],
                nargs := .opt, conv := .base .bool, choices := none, required := false,
                default := some (.sc (.bool true)) }]
    ⟨⟨1, "--f".toList, ["False".toList]⟩, [.bool false], true⟩ :=
  segOk_base [] _ 1 "--f".toList _ .bool [.bool false] true rfl
    (Or.inr ⟨_, rfl, rfl, by decide, Or.inr ⟨false, rfl⟩⟩) rfl rfl (by simp [arityOk]) (by simp [HasBTy])

/-- a flat dataclass exercising the headline:
    `num: int = 0; lst: List[str] = []; tup: Tuple[int, str]` (required, heterogeneous);
    `flag: bool = False; name: str = "dflt"` (a STRING default); `opt: Optional[int] = None` -/
def demoFs : List FieldSpec :=
  [ { name := "num".toList, ty := ⟨.sc (.base .int), false⟩, default := .value (.sc (.int 0)) },
    { name := "lst".toList, ty := ⟨.list (.base .str), false⟩, default := .value (.list []) },
    { name := "tup".toList, ty := ⟨.tuple [.base .int, .base .str], false⟩, default := .missing },
    { name := "flag".toList, ty := ⟨.sc (.base .bool), false⟩, default := .value (.sc (.bool false)) },
    { name := "name".toList, ty := ⟨.sc (.base .str), false⟩, default := .value (.sc (.str "dflt".toList)) },
    { name := "opt".toList, ty := ⟨.sc (.base .int), true⟩, default := .value (.sc .none) } ]

def demoCfg : Cfg := { dash := .underscore, gen := .flat, nest := .default }

/-- `--tup 7 x --num -5 --flag=False --lst a ""` : a heterogeneous tuple, a negative number in the
    spaced spelling, the boolean action in the `=` spelling, a list with an empty string; `name` and
    `opt` are not mentioned -/
def demoAsg : List Asg :=
  [ ⟨2, "--tup".toList, .tuple [.int 7, .str "x".toList], false⟩,
    ⟨0, "--num".toList, .sc (.int (-5)), false⟩,
    ⟨3, "--flag".toList, .sc (.bool false), true⟩,
    ⟨1, "--lst".toList, .list [.str "a".toList, .str []], false⟩ ]

def demoTable : List Act := (tableOf demoCfg "c".toList demoFs).getD []

theorem demoTable_eq : tableOf demoCfg "c".toList demoFs = some demoTable := by
  decide +kernel

theorem demoTable_nonNumeric : OptsNonNumeric demoTable := by
  intro p hp c r hpr
  have hall : (optTable demoTable).all (fun q => match q.1 with
      | '-' :: c :: _ => !isDigit c && c != '.'
      | _ => true) = true := by decide +kernel
  have := List.all_eq_true.mp hall p hp
  rw [hpr] at this
  simpa using this

theorem demoAsg_ok : ∀ x ∈ demoAsg, AsgOk [] demoFs demoTable x := by
  intro x hx
  simp only [demoAsg, List.mem_cons, List.not_mem_nil, or_false] at hx
  rcases hx with rfl | rfl | rfl | rfl
  · refine ⟨by decide, ?_, ⟨by decide +kernel, ⟨_, rfl⟩, by decide, ?_, ?_⟩, ?_⟩
    · intro f hf
      have : f = demoFs[2] := by simpa [demoFs] using hf.symm
      subst this
      exact ⟨[.int, .str], rfl, rfl, by simp, by
        intro p hp
        simp only [List.zip_cons_cons, List.zip_nil_right, List.mem_cons, List.not_mem_nil, or_false] at hp
        rcases hp with rfl | rfl
        · exact ⟨7, rfl⟩
        · exact ⟨_, rfl⟩⟩
    · intro _ t ht
      simp [Asg.vseg, VSeg.eseg, demoFs, fieldToks, valItems, itemTok, tokenOf] at ht
      rcases ht with rfl | rfl
      · exact int_argTok demoTable demoTable_nonNumeric 7
      · exact argTok_of_nodash _ _ (by simp [NoDash])
    · intro t ht
      simp [ESeg.eqTok, Asg.vseg, VSeg.eseg] at ht
    · intro act negs hact hk
      have : act.kind = .store := by
        have h2 : demoTable[3]? = some act := hact
        have : (demoTable[3]?.map (·.kind)) = some .store := by decide +kernel
        rw [h2] at this
        simpa using this
      rw [this] at hk
      cases hk
  · refine ⟨by decide, ?_, ⟨by decide +kernel, ⟨_, rfl⟩, by decide, ?_, ?_⟩, ?_⟩
    · intro f hf
      have : f = demoFs[0] := by simpa [demoFs] using hf.symm
      subst this
      exact ⟨-5, rfl⟩
    · intro _ t ht
      simp [Asg.vseg, VSeg.eseg, demoFs, fieldToks, valItems, itemTok, tokenOf] at ht
      subst ht
      exact int_argTok demoTable demoTable_nonNumeric (-5)
    · intro t ht
      simp [ESeg.eqTok, Asg.vseg, VSeg.eseg] at ht
    · intro act negs hact hk
      have : act.kind = .store := by
        have h2 : demoTable[1]? = some act := hact
        have : (demoTable[1]?.map (·.kind)) = some .store := by decide +kernel
        rw [h2] at this
        simpa using this
      rw [this] at hk
      cases hk
  · refine ⟨by decide, ?_, ⟨by decide +kernel, ⟨_, rfl⟩, by decide, ?_, ?_⟩, ?_⟩
    · intro f hf
      have : f = demoFs[3] := by simpa [demoFs] using hf.symm
      subst this
      exact ⟨false, rfl⟩
    · intro h
      simp [ESeg.eqTok, Asg.vseg, VSeg.eseg, demoFs, fieldToks, valItems, itemTok] at h
    · intro t _
      exact eqok_of_optsNoEq demoTable _ (by
        intro p hp
        have hall : (optTable demoTable).all (fun q => !q.1.contains '=') = true := by decide +kernel
        have := List.all_eq_true.mp hall p hp
        simpa using this) (by decide +kernel) t
    · intro act negs hact hk
      have h2 : demoTable[4]? = some act := hact
      have : (demoTable[4]?.map (·.kind)) = some (.boolOpt ["--noflag".toList]) := by decide +kernel
      rw [h2] at this
      simp only [Option.map_some, Option.some.injEq] at this
      rw [this] at hk
      cases hk
      decide
  · refine ⟨by decide, ?_, ⟨by decide +kernel, ⟨_, rfl⟩, by decide, ?_, ?_⟩, ?_⟩
    · intro f hf
      have : f = demoFs[1] := by simpa [demoFs] using hf.symm
      subst this
      exact ⟨by decide, by
        intro s hs
        simp only [List.mem_cons, List.not_mem_nil, or_false] at hs
        rcases hs with rfl | rfl <;> exact ⟨_, rfl⟩⟩
    · intro _ t ht
      simp [Asg.vseg, VSeg.eseg, demoFs, fieldToks, valItems, itemTok, tokenOf] at ht
      rcases ht with rfl | rfl <;> exact argTok_of_nodash _ _ (by simp [NoDash])
    · intro t ht
      simp [ESeg.eqTok, Asg.vseg, VSeg.eseg] at ht
    · intro act negs hact hk
      have : act.kind = .store := by
        have h2 : demoTable[2]? = some act := hact
        have : (demoTable[2]?.map (·.kind)) = some .store := by decide +kernel
        rw [h2] at this
        simpa using this
      rw [this] at hk
      cases hk

/-- **the hypotheses of `c02_roundtrip` are satisfiable by a non-trivial input** — and its conclusion
    on it: every field written holds its value, `name` keeps its string default, `opt` stays None -/
theorem demo_roundtrip :
    parseFlat [] demoCfg "c".toList demoFs (canonicalArgv demoFs demoAsg) = .ok
      [ ("num".toList, .sc (.int (-5))), ("lst".toList, .list [.str "a".toList, .str []]),
        ("tup".toList, .tuple [.int 7, .str "x".toList]), ("flag".toList, .sc (.bool false)),
        ("name".toList, .sc (.str "dflt".toList)), ("opt".toList, .sc .none) ] := by
  rw [c02_roundtrip [] demoCfg "c".toList demoFs demoTable demoTable_eq (by decide)
    (by intro f hf; simp only [demoFs, List.mem_cons, List.not_mem_nil, or_false] at hf
        rcases hf with rfl | rfl | rfl | rfl | rfl | rfl <;> simp [SupTy]
        exact ⟨[.int, .str], rfl, by simp⟩)
    (by intro f hf; simp only [demoFs, List.mem_cons, List.not_mem_nil, or_false] at hf
        rcases hf with rfl | rfl | rfl | rfl | rfl | rfl <;> simp [DefaultOk])
    demoAsg demoAsg_ok (by decide)
    (by intro i hi hm ho
        have : i = 2 := by
          simp only [demoFs, List.length_cons, List.length_nil] at hi
          have h6 : i = 0 ∨ i = 1 ∨ i = 2 ∨ i = 3 ∨ i = 4 ∨ i = 5 := by omega
          rcases h6 with rfl | rfl | rfl | rfl | rfl | rfl <;> simp [demoFs] at hm ⊢
        subst this
        unfold demoAsg
        exact ⟨_, List.mem_cons_self, rfl⟩)]
  rfl

/-- the same dataclass from the same assignment in another order and with the other spellings -/
example : parseFlat [] demoCfg "c".toList demoFs (canonicalArgv demoFs demoAsg) =
    parseFlat [] demoCfg "c".toList demoFs (canonicalArgv demoFs demoAsg.reverse) := by
  have hperm : (demoAsg.map Asg.core).Perm (demoAsg.reverse.map Asg.core) := by
    rw [List.map_reverse]; exact (List.reverse_perm _).symm
  exact c02_order_spelling_independent [] demoCfg "c".toList demoFs demoTable demoTable_eq (by decide)
    (by intro f hf; simp only [demoFs, List.mem_cons, List.not_mem_nil, or_false] at hf
        rcases hf with rfl | rfl | rfl | rfl | rfl | rfl <;> simp [SupTy]
        exact ⟨[.int, .str], rfl, by simp⟩)
    (by intro f hf; simp only [demoFs, List.mem_cons, List.not_mem_nil, or_false] at hf
        rcases hf with rfl | rfl | rfl | rfl | rfl | rfl <;> simp [DefaultOk])
    demoAsg demoAsg.reverse demoAsg_ok (fun x hx => demoAsg_ok x (List.mem_reverse.mp hx)) (by decide) hperm
    (by intro i hi hm ho
        have : i = 2 := by
          simp only [demoFs, List.length_cons, List.length_nil] at hi
          have h6 : i = 0 ∨ i = 1 ∨ i = 2 ∨ i = 3 ∨ i = 4 ∨ i = 5 := by omega
          rcases h6 with rfl | rfl | rfl | rfl | rfl | rfl <;> simp [demoFs] at hm ⊢
        subst this
        unfold demoAsg
        exact ⟨_, List.mem_cons_self, rfl⟩)

/-- `c02_tuple_occurrence`: a `Tuple[int, str]` occurrence from an aligned counter -/
example : getValuesList []
    { opts := [], dest := [], kind := .store, nargs := .num 2, conv := .tupleCounter [.int, .str],
      choices := none, required := false, default := none } 1 [0, 4] ["7".toList, "x".toList] =
    .ok ([.int 7, .str "x".toList], [0, 6]) := by
  decide

/-- `QuietDefault` for a string default under `type=str`, and its failure under `type=int` (why
    `DefaultOk` asks for str-typed string defaults) -/
example : QuietDefault []
    { opts := [], dest := [], kind := .store, nargs := .one, conv := .base .str,
      choices := none, required := false, default := some (.sc (.str "7".toList)) } :=
  fun s _ k => rfl

example : ¬ QuietDefault []
    { opts := [], dest := [], kind := .store, nargs := .one, conv := .base .int,
      choices := none, required := false, default := some (.sc (.str "7".toList)) } := by
  intro h
  have := h "7".toList rfl 0
  revert this
  decide

end SpVerif.C02
