/-
  C10 — Option spelling follows the generation mode, nested mode and dash variant.
  Theorems about `SpVerif.Model.Naming` (mirrors FieldWrapper.option_strings).
-/
import SpVerif.Model.Naming
import SpVerif.Props.C04
namespace SpVerif.C10
open SpVerif

/-! ### The documented rule, written as a predicate organised *by source* (generated flat name,
    generated nested name, each alias) rather than by the code's list-building order. -/

inductive Src
  | flatName
  | nestedName
  | alias (a : Str)
  deriving DecidableEq, Repr

/-- which sources exist in a generation mode -/
def sources (cfg : Cfg) (fw : FW) : List Src :=
  (if cfg.gen = .nested then [] else [Src.flatName]) ++
  (if cfg.gen = .flat then [] else [Src.nestedName]) ++
  fw.aliases.map Src.alias

/-- the nested path: the destination, minus its first component under WITHOUT_ROOT -/
def nestedPath (cfg : Cfg) (fw : FW) : Str :=
  match cfg.nest with
  | .default => fw.dest
  | .withoutRoot => dropRoot fw.dest

/-- DASH rewrites generated names only (not aliases) -/
def genSpell (cfg : Cfg) (x : Str) : Str := if cfg.dash = .dashOnly then dashify x else x

/-- the name part (after the leading dashes) contributed by a source -/
def body (cfg : Cfg) (fw : FW) : Src → Str
  | .flatName => genSpell cfg (fw.pref ++ fw.name)
  | .nestedName => genSpell cfg (nestedPath cfg fw)
  | .alias a => (aliasPair fw.pref a).2

/-- the leading dashes a source is offered with -/
def dashesOf (fw : FW) : Src → List Str
  | .alias a => [(aliasPair fw.pref a).1]
  | _ => if fw.name.length = 1 then [['-'], ['-', '-']] else [['-', '-']]

/-- **The rule.** `s` is an option string of the field iff it is some source's body behind one of
    that source's dashes, or — under UNDERSCORE_AND_DASH only — the dashed spelling of a body that
    contains an underscore (with the dash count decided by the dashed spelling's length). -/
def Spec (cfg : Cfg) (fw : FW) (s : Str) : Prop :=
  ∃ src ∈ sources cfg fw,
    (∃ d ∈ dashesOf fw src, s = d ++ body cfg fw src) ∨
    (cfg.dash = .both ∧ hasUnderscore (body cfg fw src) = true ∧
      s = dashFor (dashify (body cfg fw src)) ++ dashify (body cfg fw src))

theorem body_flat (cfg : Cfg) (fw : FW) : body cfg fw .flatName = flatCand cfg fw := by
  simp [body, genSpell, flatCand]

theorem body_nested (cfg : Cfg) (fw : FW) : body cfg fw .nestedName = nestedCand cfg fw := by
  simp only [body, genSpell, nestedCand, nestedPath]
  cases cfg.nest <;> rfl

theorem mem_candidates (cfg : Cfg) (fw : FW) (c : Str) :
    c ∈ candidates cfg fw ↔
      (cfg.gen ≠ .nested ∧ c = flatCand cfg fw) ∨ (cfg.gen ≠ .flat ∧ c = nestedCand cfg fw) := by
  unfold candidates
  cases cfg.gen <;> simp

theorem mem_sources (cfg : Cfg) (fw : FW) (src : Src) :
    src ∈ sources cfg fw ↔
      (src = .flatName ∧ cfg.gen ≠ .nested) ∨ (src = .nestedName ∧ cfg.gen ≠ .flat) ∨
      (∃ a ∈ fw.aliases, src = .alias a) := by
  unfold sources
  cases cfg.gen <;> simp <;> grind

theorem mem_genDashes (fw : FW) (d : Str) :
    d ∈ (if fw.name.length = 1 then [['-'], ['-', '-']] else [['-', '-']]) ↔
      d = dashFor fw.name ∨ (fw.name.length = 1 ∧ d = ['-', '-']) := by
  unfold dashFor
  by_cases h : fw.name.length = 1 <;> simp [h]

theorem mem_basePairs (cfg : Cfg) (fw : FW) (p : Str × Str) :
    p ∈ basePairs cfg fw ↔ ∃ src ∈ sources cfg fw, p.2 = body cfg fw src ∧ p.1 ∈ dashesOf fw src := by
  obtain ⟨d, b⟩ := p
  have hbase : (d, b) ∈ basePairs cfg fw ↔
      (b ∈ candidates cfg fw ∧ (d = dashFor fw.name ∨ (fw.name.length = 1 ∧ d = ['-', '-']))) ∨
      (∃ a ∈ fw.aliases, (d, b) = aliasPair fw.pref a) := by
    unfold basePairs
    by_cases h1 : fw.name.length = 1
    · simp only [h1, ↓reduceIte, List.mem_append, List.mem_map, Prod.mk.injEq]
      constructor
      · rintro ((⟨c, hc, rfl, rfl⟩ | ⟨c, hc, rfl, rfl⟩) | ⟨a, ha, h⟩)
        · exact Or.inl ⟨hc, Or.inl rfl⟩
        · exact Or.inl ⟨hc, Or.inr ⟨trivial, rfl⟩⟩
        · exact Or.inr ⟨a, ha, h.symm⟩
      · rintro (⟨hc, (rfl | ⟨_, rfl⟩)⟩ | ⟨a, ha, h⟩)
        · exact Or.inl (Or.inl ⟨b, hc, rfl, rfl⟩)
        · exact Or.inl (Or.inr ⟨b, hc, rfl, rfl⟩)
        · exact Or.inr ⟨a, ha, h.symm⟩
    · simp only [h1, ↓reduceIte, List.append_nil, List.mem_append, List.mem_map, Prod.mk.injEq,
        false_and, or_false]
      constructor
      · rintro (⟨c, hc, rfl, rfl⟩ | ⟨a, ha, h⟩)
        · exact Or.inl ⟨hc, rfl⟩
        · exact Or.inr ⟨a, ha, h.symm⟩
      · rintro (⟨hc, rfl⟩ | ⟨a, ha, h⟩)
        · exact Or.inl ⟨b, hc, rfl, rfl⟩
        · exact Or.inr ⟨a, ha, h.symm⟩
  rw [hbase]
  simp only
  constructor
  · rintro (⟨hc, hd⟩ | ⟨a, ha, h⟩)
    · rcases (mem_candidates cfg fw b).mp hc with ⟨hg, rfl⟩ | ⟨hg, rfl⟩
      · exact ⟨.flatName, (mem_sources _ _ _).mpr (Or.inl ⟨rfl, hg⟩), (body_flat _ _).symm,
          (mem_genDashes fw d).mpr hd⟩
      · exact ⟨.nestedName, (mem_sources _ _ _).mpr (Or.inr (Or.inl ⟨rfl, hg⟩)), (body_nested _ _).symm,
          (mem_genDashes fw d).mpr hd⟩
    · refine ⟨.alias a, (mem_sources _ _ _).mpr (Or.inr (Or.inr ⟨a, ha, rfl⟩)), ?_, ?_⟩
      · simp [body, ← h]
      · simp [dashesOf, ← h]
  · rintro ⟨src, hsrc, hb, hd⟩
    rcases (mem_sources _ _ _).mp hsrc with ⟨rfl, hg⟩ | ⟨rfl, hg⟩ | ⟨a, ha, rfl⟩
    · left
      rw [body_flat] at hb
      exact ⟨(mem_candidates _ _ _).mpr (Or.inl ⟨hg, hb⟩), (mem_genDashes fw d).mp hd⟩
    · left
      rw [body_nested] at hb
      exact ⟨(mem_candidates _ _ _).mpr (Or.inr ⟨hg, hb⟩), (mem_genDashes fw d).mp hd⟩
    · right
      refine ⟨a, ha, ?_⟩
      simp only [body] at hb
      simp only [dashesOf, List.mem_cons, List.not_mem_nil, or_false] at hd
      rw [hb, hd]

/-- **C10, exact characterisation**: the option strings the code generates for a (non-positional)
    field are exactly those the documented rule allows — nothing missing, nothing extra — for every
    one of the 3 × 3 × 2 mode combinations, every name, prefix, destination and alias list. -/
theorem c10_exact (cfg : Cfg) (fw : FW) (hpos : fw.positional = false) (s : Str) :
    s ∈ optionList cfg fw ↔ Spec cfg fw s := by
  unfold optionList Spec
  simp only [hpos, Bool.false_eq_true, ↓reduceIte, List.map_append, List.mem_append, List.mem_map]
  constructor
  · rintro (⟨p, hp, rfl⟩ | ⟨p, hp, rfl⟩)
    · obtain ⟨src, hsrc, hb, hd⟩ := (mem_basePairs cfg fw p).mp hp
      exact ⟨src, hsrc, Or.inl ⟨p.1, hd, by rw [hb]⟩⟩
    · unfold extraPairs at hp
      split at hp
      · rename_i hboth
        simp only [List.mem_map, List.mem_filter] at hp
        obtain ⟨q, ⟨hq, hu⟩, rfl⟩ := hp
        obtain ⟨src, hsrc, hb, _⟩ := (mem_basePairs cfg fw q).mp hq
        refine ⟨src, hsrc, Or.inr ⟨hboth, ?_, ?_⟩⟩
        · rw [← hb]; exact hu
        · simp only; rw [hb]
      · simp at hp
  · rintro ⟨src, hsrc, (⟨d, hd, rfl⟩ | ⟨hboth, hu, rfl⟩)⟩
    · left
      exact ⟨(d, body cfg fw src), (mem_basePairs cfg fw _).mpr ⟨src, hsrc, rfl, hd⟩, rfl⟩
    · right
      have hne : (dashesOf fw src) ≠ [] := by
        cases src <;> simp only [dashesOf] <;> (try split) <;> simp
      obtain ⟨d, hd⟩ := List.exists_mem_of_ne_nil _ hne
      refine ⟨(dashFor (dashify (body cfg fw src)), dashify (body cfg fw src)), ?_, rfl⟩
      unfold extraPairs
      simp only [hboth, ↓reduceIte, List.mem_map, List.mem_filter]
      exact ⟨(d, body cfg fw src), ⟨(mem_basePairs cfg fw _).mpr ⟨src, hsrc, rfl, hd⟩, hu⟩, rfl⟩

/-! ### Consequences in the property's own words -/

theorem dashify_no_underscore (s : Str) : hasUnderscore (dashify s) = false := by
  induction s with
  | nil => rfl
  | cons c cs ih =>
    have ih' : (dashify cs).contains '_' = false := ih
    show (dashify (c :: cs)).contains '_' = false
    simp only [dashify, List.map_cons, List.contains_cons, Bool.or_eq_false_iff] at ih' ⊢
    refine ⟨?_, ih'⟩
    by_cases h : c = '_'
    · subst h; decide
    · simp only [h, ↓reduceIte]
      exact beq_false_of_ne (fun hh => h hh.symm)

theorem dashify_idem (s : Str) : dashify (dashify s) = dashify s := by
  simp only [dashify, List.map_map]
  apply List.map_congr_left
  intro c _
  by_cases h : c = '_' <;> simp [h]

theorem dashify_of_no_underscore (s : Str) (h : hasUnderscore s = false) : dashify s = s := by
  induction s with
  | nil => rfl
  | cons c cs ih =>
    simp only [hasUnderscore, List.contains_cons, Bool.or_eq_false_iff] at h
    simp only [dashify, List.map_cons]
    have hc : c ≠ '_' := by
      intro hh; subst hh; simp at h
    simp only [hc, ↓reduceIte, List.cons.injEq, true_and]
    exact ih (by simpa [hasUnderscore] using h.2)

/-- UNDERSCORE keeps the name: the flat option of a field is exactly `--<prefix><name>`. -/
theorem c10_underscore_flat (fw : FW) (nest : Nest) (hpos : fw.positional = false)
    (hlen : fw.name.length ≠ 1) (hal : fw.aliases = []) :
    optionList ⟨.underscore, .flat, nest⟩ fw = [['-', '-'] ++ (fw.pref ++ fw.name)] := by
  simp [optionList, hpos, basePairs, extraPairs, candidates, flatCand, dashFor, hlen, hal]

/-- NESTED: the only generated option is the destination path (root dropped under WITHOUT_ROOT). -/
theorem c10_underscore_nested (fw : FW) (nest : Nest) (hpos : fw.positional = false)
    (hlen : fw.name.length ≠ 1) (hal : fw.aliases = []) :
    optionList ⟨.underscore, .nested, nest⟩ fw =
      [['-', '-'] ++ nestedPath ⟨.underscore, .nested, nest⟩ fw] := by
  cases nest <;> simp [optionList, hpos, basePairs, extraPairs, candidates, nestedCand, dashFor, hlen, hal, nestedPath]

/-- BOTH: exactly the flat and the nested spelling. -/
theorem c10_underscore_both (fw : FW) (nest : Nest) (hpos : fw.positional = false)
    (hlen : fw.name.length ≠ 1) (hal : fw.aliases = []) :
    optionList ⟨.underscore, .both, nest⟩ fw =
      [['-', '-'] ++ (fw.pref ++ fw.name), ['-', '-'] ++ nestedPath ⟨.underscore, .both, nest⟩ fw] := by
  cases nest <;> simp [optionList, hpos, basePairs, extraPairs, candidates, flatCand, nestedCand, dashFor, hlen, hal, nestedPath]

/-- DASH: no *generated* option keeps an underscore (aliases are left as declared). -/
theorem c10_dash_generated_no_underscore (gen : Gen) (nest : Nest) (fw : FW) (c : Str)
    (h : c ∈ candidates ⟨.dashOnly, gen, nest⟩ fw) : hasUnderscore c = false := by
  unfold candidates flatCand nestedCand at h
  cases gen <;> cases nest <;> simp at h <;>
    first
    | (subst h; exact dashify_no_underscore _)
    | (rcases h with h | h <;> subst h <;> exact dashify_no_underscore _)

/-- UNDERSCORE_AND_DASH accepts both spellings of every name and alias: whenever `d ++ b` is
    offered and `b` contains an underscore, the dashed spelling of `b` is offered too. -/
theorem c10_both_closed (gen : Gen) (nest : Nest) (fw : FW) (hpos : fw.positional = false)
    (p : Str × Str) (hp : p ∈ basePairs ⟨.both, gen, nest⟩ fw) (hu : hasUnderscore p.2 = true) :
    (dashFor (dashify p.2) ++ dashify p.2) ∈ optionList ⟨.both, gen, nest⟩ fw := by
  unfold optionList
  simp only [hpos, Bool.false_eq_true, ↓reduceIte, List.map_append, List.mem_append, List.mem_map]
  right
  refine ⟨(dashFor (dashify p.2), dashify p.2), ?_, rfl⟩
  unfold extraPairs
  simp only [↓reduceIte, List.mem_map, List.mem_filter]
  exact ⟨p, ⟨hp, hu⟩, rfl⟩

/-- UNDERSCORE and DASH add no variant spellings at all. -/
theorem c10_no_extra (cfg : Cfg) (fw : FW) (h : cfg.dash ≠ .both) : extraPairs cfg fw = [] := by
  simp [extraPairs, h]

/-! ### WITHOUT_ROOT removes exactly the first path component -/

theorem splitOnChar_ne_nil (sep : Char) (s : Str) : splitOnChar sep s ≠ [] := by
  induction s with
  | nil => simp [splitOnChar]
  | cons c cs ih =>
    simp only [splitOnChar]
    split
    · simp
    · split <;> simp

theorem splitOnChar_of_not_mem (sep : Char) (s : Str) (h : sep ∉ s) : splitOnChar sep s = [s] := by
  induction s with
  | nil => rfl
  | cons c cs ih =>
    simp only [List.mem_cons, not_or] at h
    simp only [splitOnChar]
    have : c ≠ sep := fun hh => h.1 hh.symm
    simp [this, ih h.2]

theorem splitOnChar_append (sep : Char) (root rest : Str) (h : sep ∉ root) :
    splitOnChar sep (root ++ sep :: rest) = root :: splitOnChar sep rest := by
  induction root with
  | nil => simp [splitOnChar]
  | cons c cs ih =>
    simp only [List.mem_cons, not_or] at h
    have hc : c ≠ sep := fun hh => h.1 hh.symm
    simp only [List.cons_append, splitOnChar, hc, ↓reduceIte, ih h.2]

theorem joinWith_splitOnChar (sep : Char) (s : Str) : joinWith sep (splitOnChar sep s) = s := by
  induction s with
  | nil => rfl
  | cons c cs ih =>
    simp only [splitOnChar]
    split
    · rename_i h; subst h
      cases hs : splitOnChar c cs with
      | nil => exact absurd hs (splitOnChar_ne_nil _ _)
      | cons p ps => rw [hs] at ih; simp [joinWith, ih]
    · cases hs : splitOnChar sep cs with
      | nil => exact absurd hs (splitOnChar_ne_nil _ _)
      | cons p ps =>
        rw [hs] at ih
        cases ps with
        | nil => simp only [joinWith] at ih ⊢; rw [ih]
        | cons q qs => simp only [joinWith, List.cons_append] at ih ⊢; rw [ih]

/-- `dest = root.rest` with a dot-free root ⇒ the WITHOUT_ROOT path is exactly `rest`, at any depth. -/
theorem c10_without_root (root rest : Str) (h : '.' ∉ root) :
    dropRoot (root ++ '.' :: rest) = rest := by
  unfold dropRoot
  rw [splitOnChar_append _ _ _ h]
  exact joinWith_splitOnChar '.' rest


/-! ### "no other spelling is accepted": the engine rejects every long spelling that is neither an
    option string of the table nor an abbreviation of one (argparse's lookup, modelled in
    `Model/Engine.classify`); `c10_exact` says which strings the table holds. -/

theorem splitOnChar_head_cons (sep c : Char) (cs : Str) (h : c ≠ sep) :
    ∃ p ps, splitOnChar sep (c :: cs) = (c :: p) :: ps := by
  simp only [splitOnChar, h, ↓reduceIte]
  cases hs : splitOnChar sep cs with
  | nil => exact ⟨[], [], rfl⟩
  | cons p ps => exact ⟨p, ps, rfl⟩

/-- a token starting with `--` is never read as a negative number -/
theorem looksNegNumber_dd (r : Str) : looksNegNumber ('-' :: '-' :: r) = false := by
  obtain ⟨p, ps, hp⟩ := splitOnChar_head_cons '.' '-' r (by decide)
  simp only [looksNegNumber, hp]
  have h1 : allDigits ('-' :: r) = false := by
    simp [allDigits, isDigit]
  rw [h1]
  cases ps with
  | nil => simp
  | cons b rest =>
    cases rest with
    | nil => simp [allDigits, isDigit]
    | cons _ _ => simp

theorem startsWith_self (s : Str) : startsWith s s = true := by
  induction s with
  | nil => rfl
  | cons c cs ih => simp [startsWith, ih]

theorem lookup_none_of_forall {β : Type} (l : List (Str × β)) (k : Str) (h : ∀ p ∈ l, p.1 ≠ k) :
    l.lookup k = none := by
  induction l with
  | nil => rfl
  | cons p ps ih =>
    obtain ⟨a, b⟩ := p
    have hne : a ≠ k := h (a, b) (by simp)
    have : (k == a) = false := by simpa using fun hh => hne hh.symm
    simp only [List.lookup, this]
    exact ih (fun q hq => h q (by simp [hq]))

/-- a spelling that is no option string, no abbreviation of one, carries no `=` and no blank is
    lexed as an unknown option -/
theorem classify_unknown_long (tbl : List Act) (r : Str)
    (heq : splitEq ('-' :: '-' :: r) = none)
    (hsp : (('-' :: '-' :: r).contains ' ') = false)
    (hpre : ∀ p ∈ optTable tbl, startsWith p.1 ('-' :: '-' :: r) = false) :
    classify tbl ('-' :: '-' :: r) = .ok (.O none ('-' :: '-' :: r) none) := by
  have hl : (optTable tbl).lookup ('-' :: '-' :: r) = none := by
    apply lookup_none_of_forall
    intro p hp hh
    have := hpre p hp
    rw [hh, startsWith_self] at this
    cases this
  have hot : optionTuples (optTable tbl) ('-' :: '-' :: r) = [] := by
    simp only [optionTuples, heq]
    rw [List.map_eq_nil_iff, List.filter_eq_nil_iff]
    intro p hp
    simp [hpre p hp]
  unfold classify
  simp only [hl, heq, hot, looksNegNumber_dd, hsp]
  simp

theorem lexAll_mem (tbl : List Act) (pre post : List Str) (a : Str) (t : Tok)
    (hdd : ∀ x ∈ pre, x ≠ ['-', '-']) (ha : a ≠ ['-', '-']) (hc : classify tbl a = .ok t) :
    ∀ toks, lexAll tbl (pre ++ a :: post) = .ok toks → (a, t) ∈ (pre ++ a :: post).zip toks := by
  induction pre with
  | nil =>
    intro toks hlex
    simp only [List.nil_append, lexAll, ha, ↓reduceIte, hc] at hlex
    cases hr : lexAll tbl post with
    | error e => simp [hr] at hlex
    | ok ts => simp only [hr, Except.ok.injEq] at hlex; subst hlex; simp
  | cons x xs ih =>
    intro toks hlex
    have hx : x ≠ ['-', '-'] := hdd x (by simp)
    simp only [List.cons_append, lexAll, hx, ↓reduceIte] at hlex
    cases hcx : classify tbl x with
    | error e => simp [hcx] at hlex
    | ok tx =>
      simp only [hcx] at hlex
      cases hr : lexAll tbl (xs ++ a :: post) with
      | error e => simp [hr] at hlex
      | ok ts =>
        simp only [hr, Except.ok.injEq] at hlex
        subst hlex
        have := ih (fun y hy => hdd y (by simp [hy])) ts hr
        simp [this]

theorem mem_optTable (tbl : List Act) (p : Str × Nat) (h : p ∈ optTable tbl) :
    ∃ a ∈ tbl, p.1 ∈ a.opts := by
  unfold optTable at h
  rw [List.mem_flatMap] at h
  obtain ⟨⟨a, i⟩, hai, hp⟩ := h
  rw [List.mem_map] at hp
  obtain ⟨o, ho, rfl⟩ := hp
  exact ⟨a, (List.mem_zipIdx hai).2.2 ▸ List.getElem_mem _, ho⟩

/-- **C10 (no other spelling is accepted).** Whatever the table (any number of fields, any modes):
    a command line that carries, before any literal `--`, a long spelling `--r` (no `=`, no blank)
    that is not a prefix of — in particular not equal to — any option string of any action is never
    accepted by `parse_args`: not with any other tokens around it, not with any closure state.
    Together with `c10_exact` (which strings the actions carry) this is the "and no other spelling"
    half of the property, up to argparse's prefix abbreviations. -/
theorem c10_no_other_spelling (fenv : FEnv) (tbl : List Act) (cs : List Nat)
    (pre post : List Str) (r : Str) (hr : r ≠ [])
    (hdd : ∀ x ∈ pre, x ≠ ['-', '-'])
    (heq : splitEq ('-' :: '-' :: r) = none)
    (hsp : (('-' :: '-' :: r).contains ' ') = false)
    (hpre : ∀ a ∈ tbl, ∀ o ∈ a.opts, startsWith o ('-' :: '-' :: r) = false)
    (ns : List (Str × Val)) (ex : List Str) (cs' : List Nat) :
    runStrict fenv tbl cs (pre ++ ('-' :: '-' :: r) :: post) ≠ .ok ns ex cs' := by
  have hc := classify_unknown_long tbl r heq hsp (by
    intro p hp
    obtain ⟨a, ha, ho⟩ := mem_optTable tbl p hp
    exact hpre a ha p.1 ho)
  have hne : ('-' :: '-' :: r) ≠ ['-', '-'] := by
    intro h; apply hr; simpa using h
  cases hlex : lexAll tbl (pre ++ ('-' :: '-' :: r) :: post) with
  | error e =>
    unfold runStrict run
    rw [hlex]
    simp
  | ok toks =>
    have hm := lexAll_mem tbl pre post _ _ hdd hne hc toks hlex
    exact C04.c04_unknown_rejected fenv tbl cs _ toks hlex ⟨_, hm, _, _, rfl⟩ ns ex cs'

/-- non-vacuity: `--a-b` is rejected by a parser that only knows `--a_b` (and help) … -/
example : ∀ ns ex cs', runStrict []
    [ helpAct,
      { opts := ["--a_b".toList], dest := "c.a_b".toList, kind := .store, nargs := .one, conv := .base .int,
        choices := none, required := false, default := some (.sc (.int 0)) } ] [0, 0]
    (["--a-b".toList, "3".toList]) ≠ .ok ns ex cs' := by
  intro ns ex cs'
  exact c10_no_other_spelling [] _ [0, 0] [] ["3".toList] "a-b".toList (by decide) (by simp) (by decide)
    (by decide) (by decide) ns ex cs'

/-- … while `--a` is an abbreviation and is accepted (why the hypothesis speaks of prefixes) -/
example : runStrict []
    [ helpAct,
      { opts := ["--a_b".toList], dest := "c.a_b".toList, kind := .store, nargs := .one, conv := .base .int,
        choices := none, required := false, default := some (.sc (.int 0)) } ] [0, 0]
    (["--a".toList, "3".toList]) = .ok [("c.a_b".toList, .sc (.int 3))] [] [0, 0] := by decide

/-! ### non-vacuity / concrete instances -/

example : optionList ⟨.both, .both, .withoutRoot⟩
    { name := "a_b".toList, pref := [], dest := "config.x.a_b".toList, aliases := ["-q".toList] } =
    ["--a_b".toList, "--x.a_b".toList, "-q".toList, "--a-b".toList, "--x.a-b".toList] := by decide

example : Spec ⟨.both, .flat, .default⟩
    { name := "a_b".toList, pref := [], dest := "c.a_b".toList, aliases := [] } "--a-b".toList :=
  ⟨.flatName, by decide, Or.inr ⟨rfl, by decide, by decide⟩⟩

end SpVerif.C10
