/-
  C10 — Option spelling follows the generation mode, nested mode and dash variant.
  Theorems about `SpVerif.Model.Naming` (mirrors FieldWrapper.option_strings), composed with
  `Model.Fields.tableOf` (the table of actions of a dataclass) and `Model.Engine` (argparse's lookup).

  Map (property clause → theorem):
  * "the accepted options are exactly …"      c10_exact, c10_optionStrings_iff (after dedup + sort);
      explicit lists: c10_underscore_{flat,nested,both}, c10_dash_{flat,nested}, c10_both_flat(_plain),
      c10_one_letter_flat; WITHOUT_ROOT: c10_without_root
  * "plus every declared alias"               c10_alias_{2dash,1dash}_kept, c10_alias_0dash (all 18 modes)
  * DASH rewrites generated names only         c10_dash_alias_kept, c10_dash_option_no_underscore
  * UNDERSCORE_AND_DASH: both spellings        c10_both_spellings, c10_both_{name,path}_spellings,
      c10_alias_both_variant_{2dash,0dash}; open finding: AliasVariantKeepsDashes is FALSE
      (c10_alias_variant_witness, c10_alias_variant_partial, c10_alias_1dash_variant_actual)
  * "no other spelling is accepted"            c10_no_other_spelling(_eq) (any table),
      c10_flat_no_other_spelling(_eq) (table of a dataclass, in terms of the rule),
      c10_int_dataclass_no_other_spelling (no hypothesis left but the rule)
  * "every accepted spelling sets the same field"  c10_spelling_sets_field, c10_same_field (any table;
      both forms `o tok` / `o=tok`, built on C02.c02_engine_roundtrip),
      c10_flat_spelling_sets_field, c10_int_dataclass_same_field; open finding: a field named `_`
      registers the bare separator `--` (SeparatorFree is FALSE: c10_separator_witness,
      c10_separator_partial, c10_same_field_separator_witness)
-/
import SpVerif.Model.Naming
import SpVerif.Props.C04
import SpVerif.Props.C02
namespace SpVerif.C10
open SpVerif

/-! ### The documented rule, written as a predicate organised *by source* (generated flat name,
    generated nested name, each alias) rather than by the code's list-building order. -/

inductive Src
  | flatName
  | nestedName
  | alias (a : Str)
  deriving DecidableEq, Repr

/-- which sources exist in a generation mode -/
def sources (cfg : Cfg) (fw : FW) : List Src :=
  (if cfg.gen = .nested then [] else [Src.flatName]) ++
  (if cfg.gen = .flat then [] else [Src.nestedName]) ++
  fw.aliases.map Src.alias

/-- the nested path: the destination, minus its first component under WITHOUT_ROOT -/
def nestedPath (cfg : Cfg) (fw : FW) : Str :=
  match cfg.nest with
  | .default => fw.dest
  | .withoutRoot => dropRoot fw.dest

/-- DASH rewrites generated names only (not aliases) -/
def genSpell (cfg : Cfg) (x : Str) : Str := if cfg.dash = .dashOnly then dashify x else x

/-- the name part (after the leading dashes) contributed by a source -/
def body (cfg : Cfg) (fw : FW) : Src → Str
  | .flatName => genSpell cfg (fw.pref ++ fw.name)
  | .nestedName => genSpell cfg (nestedPath cfg fw)
  | .alias a => (aliasPair fw.pref a).2

/-- the leading dashes a source is offered with -/
def dashesOf (fw : FW) : Src → List Str
  | .alias a => [(aliasPair fw.pref a).1]
  | _ => if fw.name.length = 1 then [['-'], ['-', '-']] else [['-', '-']]

/-- **The rule.** `s` is an option string of the field iff it is some source's body behind one of
    that source's dashes, or — under UNDERSCORE_AND_DASH only — the dashed spelling of a body that
    contains an underscore (with the dash count decided by the dashed spelling's length). -/
def Spec (cfg : Cfg) (fw : FW) (s : Str) : Prop :=
  ∃ src ∈ sources cfg fw,
    (∃ d ∈ dashesOf fw src, s = d ++ body cfg fw src) ∨
    (cfg.dash = .both ∧ hasUnderscore (body cfg fw src) = true ∧
      s = dashFor (dashify (body cfg fw src)) ++ dashify (body cfg fw src))

theorem body_flat (cfg : Cfg) (fw : FW) : body cfg fw .flatName = flatCand cfg fw := by
  simp [body, genSpell, flatCand]

theorem body_nested (cfg : Cfg) (fw : FW) : body cfg fw .nestedName = nestedCand cfg fw := by
  simp only [body, genSpell, nestedCand, nestedPath]
  cases cfg.nest <;> rfl

theorem mem_candidates (cfg : Cfg) (fw : FW) (c : Str) :
    c ∈ candidates cfg fw ↔
      (cfg.gen ≠ .nested ∧ c = flatCand cfg fw) ∨ (cfg.gen ≠ .flat ∧ c = nestedCand cfg fw) := by
  unfold candidates
  cases cfg.gen <;> simp

theorem mem_sources (cfg : Cfg) (fw : FW) (src : Src) :
    src ∈ sources cfg fw ↔
      (src = .flatName ∧ cfg.gen ≠ .nested) ∨ (src = .nestedName ∧ cfg.gen ≠ .flat) ∨
      (∃ a ∈ fw.aliases, src = .alias a) := by
  unfold sources
  cases cfg.gen <;> simp <;> grind

theorem mem_genDashes (fw : FW) (d : Str) :
    d ∈ (if fw.name.length = 1 then [['-'], ['-', '-']] else [['-', '-']]) ↔
      d = dashFor fw.name ∨ (fw.name.length = 1 ∧ d = ['-', '-']) := by
  unfold dashFor
  by_cases h : fw.name.length = 1 <;> simp [h]

theorem mem_basePairs (cfg : Cfg) (fw : FW) (p : Str × Str) :
    p ∈ basePairs cfg fw ↔ ∃ src ∈ sources cfg fw, p.2 = body cfg fw src ∧ p.1 ∈ dashesOf fw src := by
  obtain ⟨d, b⟩ := p
  have hbase : (d, b) ∈ basePairs cfg fw ↔
      (b ∈ candidates cfg fw ∧ (d = dashFor fw.name ∨ (fw.name.length = 1 ∧ d = ['-', '-']))) ∨
      (∃ a ∈ fw.aliases, (d, b) = aliasPair fw.pref a) := by
    unfold basePairs
    by_cases h1 : fw.name.length = 1
    · simp only [h1, ↓reduceIte, List.mem_append, List.mem_map, Prod.mk.injEq]
      constructor
      · rintro ((⟨c, hc, rfl, rfl⟩ | ⟨c, hc, rfl, rfl⟩) | ⟨a, ha, h⟩)
        · exact Or.inl ⟨hc, Or.inl rfl⟩
        · exact Or.inl ⟨hc, Or.inr ⟨trivial, rfl⟩⟩
        · exact Or.inr ⟨a, ha, h.symm⟩
      · rintro (⟨hc, (rfl | ⟨_, rfl⟩)⟩ | ⟨a, ha, h⟩)
        · exact Or.inl (Or.inl ⟨b, hc, rfl, rfl⟩)
        · exact Or.inl (Or.inr ⟨b, hc, rfl, rfl⟩)
        · exact Or.inr ⟨a, ha, h.symm⟩
    · simp only [h1, ↓reduceIte, List.append_nil, List.mem_append, List.mem_map, Prod.mk.injEq,
        false_and, or_false]
      constructor
      · rintro (⟨c, hc, rfl, rfl⟩ | ⟨a, ha, h⟩)
        · exact Or.inl ⟨hc, rfl⟩
        · exact Or.inr ⟨a, ha, h.symm⟩
      · rintro (⟨hc, rfl⟩ | ⟨a, ha, h⟩)
        · exact Or.inl ⟨b, hc, rfl, rfl⟩
        · exact Or.inr ⟨a, ha, h.symm⟩
  rw [hbase]
  simp only
  constructor
  · rintro (⟨hc, hd⟩ | ⟨a, ha, h⟩)
    · rcases (mem_candidates cfg fw b).mp hc with ⟨hg, rfl⟩ | ⟨hg, rfl⟩
      · exact ⟨.flatName, (mem_sources _ _ _).mpr (Or.inl ⟨rfl, hg⟩), (body_flat _ _).symm,
          (mem_genDashes fw d).mpr hd⟩
      · exact ⟨.nestedName, (mem_sources _ _ _).mpr (Or.inr (Or.inl ⟨rfl, hg⟩)), (body_nested _ _).symm,
          (mem_genDashes fw d).mpr hd⟩
    · refine ⟨.alias a, (mem_sources _ _ _).mpr (Or.inr (Or.inr ⟨a, ha, rfl⟩)), ?_, ?_⟩
      · simp [body, ← h]
      · simp [dashesOf, ← h]
  · rintro ⟨src, hsrc, hb, hd⟩
    rcases (mem_sources _ _ _).mp hsrc with ⟨rfl, hg⟩ | ⟨rfl, hg⟩ | ⟨a, ha, rfl⟩
    · left
      rw [body_flat] at hb
      exact ⟨(mem_candidates _ _ _).mpr (Or.inl ⟨hg, hb⟩), (mem_genDashes fw d).mp hd⟩
    · left
      rw [body_nested] at hb
      exact ⟨(mem_candidates _ _ _).mpr (Or.inr ⟨hg, hb⟩), (mem_genDashes fw d).mp hd⟩
    · right
      refine ⟨a, ha, ?_⟩
      simp only [body] at hb
      simp only [dashesOf, List.mem_cons, List.not_mem_nil, or_false] at hd
      rw [hb, hd]

/-- **C10, exact characterisation**: the option strings the code generates for a (non-positional)
    field are exactly those the documented rule allows — nothing missing, nothing extra — for every
    one of the 3 × 3 × 2 mode combinations, every name, prefix, destination and alias list. -/
theorem c10_exact (cfg : Cfg) (fw : FW) (hpos : fw.positional = false) (s : Str) :
    s ∈ optionList cfg fw ↔ Spec cfg fw s := by
  unfold optionList Spec
  simp only [hpos, Bool.false_eq_true, ↓reduceIte, List.map_append, List.mem_append, List.mem_map]
  constructor
  · rintro (⟨p, hp, rfl⟩ | ⟨p, hp, rfl⟩)
    · obtain ⟨src, hsrc, hb, hd⟩ := (mem_basePairs cfg fw p).mp hp
      exact ⟨src, hsrc, Or.inl ⟨p.1, hd, by rw [hb]⟩⟩
    · unfold extraPairs at hp
      split at hp
      · rename_i hboth
        simp only [List.mem_map, List.mem_filter] at hp
        obtain ⟨q, ⟨hq, hu⟩, rfl⟩ := hp
        obtain ⟨src, hsrc, hb, _⟩ := (mem_basePairs cfg fw q).mp hq
        refine ⟨src, hsrc, Or.inr ⟨hboth, ?_, ?_⟩⟩
        · rw [← hb]; exact hu
        · simp only; rw [hb]
      · simp at hp
  · rintro ⟨src, hsrc, (⟨d, hd, rfl⟩ | ⟨hboth, hu, rfl⟩)⟩
    · left
      exact ⟨(d, body cfg fw src), (mem_basePairs cfg fw _).mpr ⟨src, hsrc, rfl, hd⟩, rfl⟩
    · right
      have hne : (dashesOf fw src) ≠ [] := by
        cases src <;> simp only [dashesOf] <;> (try split) <;> simp
      obtain ⟨d, hd⟩ := List.exists_mem_of_ne_nil _ hne
      refine ⟨(dashFor (dashify (body cfg fw src)), dashify (body cfg fw src)), ?_, rfl⟩
      unfold extraPairs
      simp only [hboth, ↓reduceIte, List.mem_map, List.mem_filter]
      exact ⟨(d, body cfg fw src), ⟨(mem_basePairs cfg fw _).mpr ⟨src, hsrc, rfl, hd⟩, hu⟩, rfl⟩

/-! ### Consequences in the property's own words -/

theorem dashify_no_underscore (s : Str) : hasUnderscore (dashify s) = false := by
  induction s with
  | nil => rfl
  | cons c cs ih =>
    have ih' : (dashify cs).contains '_' = false := ih
    show (dashify (c :: cs)).contains '_' = false
    simp only [dashify, List.map_cons, List.contains_cons, Bool.or_eq_false_iff] at ih' ⊢
    refine ⟨?_, ih'⟩
    by_cases h : c = '_'
    · subst h; decide
    · simp only [h, ↓reduceIte]
      exact beq_false_of_ne (fun hh => h hh.symm)

theorem dashify_idem (s : Str) : dashify (dashify s) = dashify s := by
  simp only [dashify, List.map_map]
  apply List.map_congr_left
  intro c _
  by_cases h : c = '_' <;> simp [h]

theorem dashify_of_no_underscore (s : Str) (h : hasUnderscore s = false) : dashify s = s := by
  induction s with
  | nil => rfl
  | cons c cs ih =>
    simp only [hasUnderscore, List.contains_cons, Bool.or_eq_false_iff] at h
    simp only [dashify, List.map_cons]
    have hc : c ≠ '_' := by
      intro hh; subst hh; simp at h
    simp only [hc, ↓reduceIte, List.cons.injEq, true_and]
    exact ih (by simpa [hasUnderscore] using h.2)

/-- UNDERSCORE keeps the name: the flat option of a field is exactly `--<prefix><name>`. -/
theorem c10_underscore_flat (fw : FW) (nest : Nest) (hpos : fw.positional = false)
    (hlen : fw.name.length ≠ 1) (hal : fw.aliases = []) :
    optionList ⟨.underscore, .flat, nest⟩ fw = [['-', '-'] ++ (fw.pref ++ fw.name)] := by
  simp [optionList, hpos, basePairs, extraPairs, candidates, flatCand, dashFor, hlen, hal]

/-- NESTED: the only generated option is the destination path (root dropped under WITHOUT_ROOT). -/
theorem c10_underscore_nested (fw : FW) (nest : Nest) (hpos : fw.positional = false)
    (hlen : fw.name.length ≠ 1) (hal : fw.aliases = []) :
    optionList ⟨.underscore, .nested, nest⟩ fw =
      [['-', '-'] ++ nestedPath ⟨.underscore, .nested, nest⟩ fw] := by
  cases nest <;> simp [optionList, hpos, basePairs, extraPairs, candidates, nestedCand, dashFor, hlen, hal, nestedPath]

/-- BOTH: exactly the flat and the nested spelling. -/
theorem c10_underscore_both (fw : FW) (nest : Nest) (hpos : fw.positional = false)
    (hlen : fw.name.length ≠ 1) (hal : fw.aliases = []) :
    optionList ⟨.underscore, .both, nest⟩ fw =
      [['-', '-'] ++ (fw.pref ++ fw.name), ['-', '-'] ++ nestedPath ⟨.underscore, .both, nest⟩ fw] := by
  cases nest <;> simp [optionList, hpos, basePairs, extraPairs, candidates, flatCand, nestedCand, dashFor, hlen, hal, nestedPath]

/-- DASH: no *generated* option keeps an underscore (aliases are left as declared). -/
theorem c10_dash_generated_no_underscore (gen : Gen) (nest : Nest) (fw : FW) (c : Str)
    (h : c ∈ candidates ⟨.dashOnly, gen, nest⟩ fw) : hasUnderscore c = false := by
  unfold candidates flatCand nestedCand at h
  cases gen <;> cases nest <;> simp at h <;>
    first
    | (subst h; exact dashify_no_underscore _)
    | (rcases h with h | h <;> subst h <;> exact dashify_no_underscore _)

/-- UNDERSCORE_AND_DASH accepts both spellings of every name and alias: whenever `d ++ b` is
    offered and `b` contains an underscore, the dashed spelling of `b` is offered too. -/
theorem c10_both_closed (gen : Gen) (nest : Nest) (fw : FW) (hpos : fw.positional = false)
    (p : Str × Str) (hp : p ∈ basePairs ⟨.both, gen, nest⟩ fw) (hu : hasUnderscore p.2 = true) :
    (dashFor (dashify p.2) ++ dashify p.2) ∈ optionList ⟨.both, gen, nest⟩ fw := by
  unfold optionList
  simp only [hpos, Bool.false_eq_true, ↓reduceIte, List.map_append, List.mem_append, List.mem_map]
  right
  refine ⟨(dashFor (dashify p.2), dashify p.2), ?_, rfl⟩
  unfold extraPairs
  simp only [↓reduceIte, List.mem_map, List.mem_filter]
  exact ⟨p, ⟨hp, hu⟩, rfl⟩

/-- UNDERSCORE and DASH add no variant spellings at all. -/
theorem c10_no_extra (cfg : Cfg) (fw : FW) (h : cfg.dash ≠ .both) : extraPairs cfg fw = [] := by
  simp [extraPairs, h]

/-! ### WITHOUT_ROOT removes exactly the first path component -/

theorem splitOnChar_ne_nil (sep : Char) (s : Str) : splitOnChar sep s ≠ [] := by
  induction s with
  | nil => simp [splitOnChar]
  | cons c cs ih =>
    simp only [splitOnChar]
    split
    · simp
    · split <;> simp

theorem splitOnChar_of_not_mem (sep : Char) (s : Str) (h : sep ∉ s) : splitOnChar sep s = [s] := by
  induction s with
  | nil => rfl
  | cons c cs ih =>
    simp only [List.mem_cons, not_or] at h
    simp only [splitOnChar]
    have : c ≠ sep := fun hh => h.1 hh.symm
    simp [this, ih h.2]

theorem splitOnChar_append (sep : Char) (root rest : Str) (h : sep ∉ root) :
    splitOnChar sep (root ++ sep :: rest) = root :: splitOnChar sep rest := by
  induction root with
  | nil => simp [splitOnChar]
  | cons c cs ih =>
    simp only [List.mem_cons, not_or] at h
    have hc : c ≠ sep := fun hh => h.1 hh.symm
    simp only [List.cons_append, splitOnChar, hc, ↓reduceIte, ih h.2]

theorem joinWith_splitOnChar (sep : Char) (s : Str) : joinWith sep (splitOnChar sep s) = s := by
  induction s with
  | nil => rfl
  | cons c cs ih =>
    simp only [splitOnChar]
    split
    · rename_i h; subst h
      cases hs : splitOnChar c cs with
      | nil => exact absurd hs (splitOnChar_ne_nil _ _)
      | cons p ps => rw [hs] at ih; simp [joinWith, ih]
    · cases hs : splitOnChar sep cs with
      | nil => exact absurd hs (splitOnChar_ne_nil _ _)
      | cons p ps =>
        rw [hs] at ih
        cases ps with
        | nil => simp only [joinWith] at ih ⊢; rw [ih]
        | cons q qs => simp only [joinWith, List.cons_append] at ih ⊢; rw [ih]

/-- `dest = root.rest` with a dot-free root ⇒ the WITHOUT_ROOT path is exactly `rest`, at any depth. -/
theorem c10_without_root (root rest : Str) (h : '.' ∉ root) :
    dropRoot (root ++ '.' :: rest) = rest := by
  unfold dropRoot
  rw [splitOnChar_append _ _ _ h]
  exact joinWith_splitOnChar '.' rest


/-! ### "no other spelling is accepted": the engine rejects every long spelling that is neither an
    option string of the table nor an abbreviation of one (argparse's lookup, modelled in
    `Model/Engine.classify`); `c10_exact` says which strings the table holds. -/

theorem splitOnChar_head_cons (sep c : Char) (cs : Str) (h : c ≠ sep) :
    ∃ p ps, splitOnChar sep (c :: cs) = (c :: p) :: ps := by
  simp only [splitOnChar, h, ↓reduceIte]
  cases hs : splitOnChar sep cs with
  | nil => exact ⟨[], [], rfl⟩
  | cons p ps => exact ⟨p, ps, rfl⟩

/-- a token starting with `--` is never read as a negative number -/
theorem looksNegNumber_dd (r : Str) : looksNegNumber ('-' :: '-' :: r) = false := by
  obtain ⟨p, ps, hp⟩ := splitOnChar_head_cons '.' '-' r (by decide)
  simp only [looksNegNumber, hp]
  have h1 : allDigits ('-' :: r) = false := by
    simp [allDigits, isDigit]
  rw [h1]
  cases ps with
  | nil => simp
  | cons b rest =>
    cases rest with
    | nil => simp [allDigits, isDigit]
    | cons _ _ => simp

theorem startsWith_self (s : Str) : startsWith s s = true := by
  induction s with
  | nil => rfl
  | cons c cs ih => simp [startsWith, ih]

theorem lookup_none_of_forall {β : Type} (l : List (Str × β)) (k : Str) (h : ∀ p ∈ l, p.1 ≠ k) :
    l.lookup k = none := by
  induction l with
  | nil => rfl
  | cons p ps ih =>
    obtain ⟨a, b⟩ := p
    have hne : a ≠ k := h (a, b) (by simp)
    have : (k == a) = false := by simpa using fun hh => hne hh.symm
    simp only [List.lookup, this]
    exact ih (fun q hq => h q (by simp [hq]))

/-- a spelling that is no option string, no abbreviation of one, carries no `=` and no blank is
    lexed as an unknown option -/
theorem classify_unknown_long (tbl : List Act) (r : Str)
    (heq : splitEq ('-' :: '-' :: r) = none)
    (hsp : (('-' :: '-' :: r).contains ' ') = false)
    (hpre : ∀ p ∈ optTable tbl, startsWith p.1 ('-' :: '-' :: r) = false) :
    classify tbl ('-' :: '-' :: r) = .ok (.O none ('-' :: '-' :: r) none) := by
  have hl : (optTable tbl).lookup ('-' :: '-' :: r) = none := by
    apply lookup_none_of_forall
    intro p hp hh
    have := hpre p hp
    rw [hh, startsWith_self] at this
    cases this
  have hot : optionTuples (optTable tbl) ('-' :: '-' :: r) = [] := by
    simp only [optionTuples, heq]
    rw [List.map_eq_nil_iff, List.filter_eq_nil_iff]
    intro p hp
    simp [hpre p hp]
  unfold classify
  simp only [hl, heq, hot, looksNegNumber_dd, hsp]
  simp

theorem lexAll_mem (tbl : List Act) (pre post : List Str) (a : Str) (t : Tok)
    (hdd : ∀ x ∈ pre, x ≠ ['-', '-']) (ha : a ≠ ['-', '-']) (hc : classify tbl a = .ok t) :
    ∀ toks, lexAll tbl (pre ++ a :: post) = .ok toks → (a, t) ∈ (pre ++ a :: post).zip toks := by
  induction pre with
  | nil =>
    intro toks hlex
    simp only [List.nil_append, lexAll, ha, ↓reduceIte, hc] at hlex
    cases hr : lexAll tbl post with
    | error e => simp [hr] at hlex
    | ok ts => simp only [hr, Except.ok.injEq] at hlex; subst hlex; simp
  | cons x xs ih =>
    intro toks hlex
    have hx : x ≠ ['-', '-'] := hdd x (by simp)
    simp only [List.cons_append, lexAll, hx, ↓reduceIte] at hlex
    cases hcx : classify tbl x with
    | error e => simp [hcx] at hlex
    | ok tx =>
      simp only [hcx] at hlex
      cases hr : lexAll tbl (xs ++ a :: post) with
      | error e => simp [hr] at hlex
      | ok ts =>
        simp only [hr, Except.ok.injEq] at hlex
        subst hlex
        have := ih (fun y hy => hdd y (by simp [hy])) ts hr
        simp [this]

theorem mem_optTable (tbl : List Act) (p : Str × Nat) (h : p ∈ optTable tbl) :
    ∃ a ∈ tbl, p.1 ∈ a.opts := by
  unfold optTable at h
  rw [List.mem_flatMap] at h
  obtain ⟨⟨a, i⟩, hai, hp⟩ := h
  rw [List.mem_map] at hp
  obtain ⟨o, ho, rfl⟩ := hp
  exact ⟨a, (List.mem_zipIdx hai).2.2 ▸ List.getElem_mem _, ho⟩

/-- **C10 (no other spelling is accepted).** Whatever the table (any number of fields, any modes):
    a command line that carries, before any literal `--`, a long spelling `--r` (no `=`, no blank)
    that is not a prefix of — in particular not equal to — any option string of any action is never
    accepted by `parse_args`: not with any other tokens around it, not with any closure state.
    Together with `c10_exact` (which strings the actions carry) this is the "and no other spelling"
    half of the property, up to argparse's prefix abbreviations. -/
theorem c10_no_other_spelling (fenv : FEnv) (tbl : List Act) (cs : List Nat)
    (pre post : List Str) (r : Str) (hr : r ≠ [])
    (hdd : ∀ x ∈ pre, x ≠ ['-', '-'])
    (heq : splitEq ('-' :: '-' :: r) = none)
    (hsp : (('-' :: '-' :: r).contains ' ') = false)
    (hpre : ∀ a ∈ tbl, ∀ o ∈ a.opts, startsWith o ('-' :: '-' :: r) = false)
    (ns : List (Str × Val)) (ex : List Str) (cs' : List Nat) :
    runStrict fenv tbl cs (pre ++ ('-' :: '-' :: r) :: post) ≠ .ok ns ex cs' := by
  have hc := classify_unknown_long tbl r heq hsp (by
    intro p hp
    obtain ⟨a, ha, ho⟩ := mem_optTable tbl p hp
    exact hpre a ha p.1 ho)
  have hne : ('-' :: '-' :: r) ≠ ['-', '-'] := by
    intro h; apply hr; simpa using h
  cases hlex : lexAll tbl (pre ++ ('-' :: '-' :: r) :: post) with
  | error e =>
    unfold runStrict run
    rw [hlex]
    simp
  | ok toks =>
    have hm := lexAll_mem tbl pre post _ _ hdd hne hc toks hlex
    exact C04.c04_unknown_rejected fenv tbl cs _ toks hlex ⟨_, hm, _, _, rfl⟩ ns ex cs'

/-- non-vacuity: `--a-b` is rejected by a parser that only knows `--a_b` (and help) … -/
example : ∀ ns ex cs', runStrict []
    [ helpAct,
      { opts := ["--a_b".toList], dest := "c.a_b".toList, kind := .store, nargs := .one, conv := .base .int,
        choices := none, required := false, default := some (.sc (.int 0)) } ] [0, 0]
    (["--a-b".toList, "3".toList]) ≠ .ok ns ex cs' := by
  intro ns ex cs'
  exact c10_no_other_spelling [] _ [0, 0] [] ["3".toList] "a-b".toList (by decide) (by simp) (by decide)
    (by decide) (by decide) ns ex cs'

/-- … while `--a` is an abbreviation and is accepted (why the hypothesis speaks of prefixes) -/
example : runStrict []
    [ helpAct,
      { opts := ["--a_b".toList], dest := "c.a_b".toList, kind := .store, nargs := .one, conv := .base .int,
        choices := none, required := false, default := some (.sc (.int 0)) } ] [0, 0]
    (["--a".toList, "3".toList]) = .ok [("c.a_b".toList, .sc (.int 3))] [] [0, 0] := by decide


/-! ### Bridge: the strings handed to `add_argument` are exactly the rule's (review item 2) -/

theorem mem_dedup' (l : List Str) (x : Str) : x ∈ dedup l ↔ x ∈ l := by
  induction l with
  | nil => simp [dedup]
  | cons a r ih =>
    simp only [dedup, List.mem_cons, List.mem_filter, ih]
    constructor
    · rintro (h | ⟨h, _⟩)
      · exact Or.inl h
      · exact Or.inr h
    · rintro (h | h)
      · exact Or.inl h
      · by_cases hx : x = a
        · exact Or.inl hx
        · exact Or.inr ⟨h, by simpa using hx⟩

theorem mem_insertByLen (x y : Str) (l : List Str) : y ∈ insertByLen x l ↔ y = x ∨ y ∈ l := by
  induction l with
  | nil => simp [insertByLen]
  | cons z zs ih =>
    simp only [insertByLen]
    split
    · simp
    · simp only [List.mem_cons, ih]
      constructor
      · rintro (h | h | h)
        · exact Or.inr (Or.inl h)
        · exact Or.inl h
        · exact Or.inr (Or.inr h)
      · rintro (h | h | h)
        · exact Or.inr (Or.inl h)
        · exact Or.inl h
        · exact Or.inr (Or.inr h)

theorem mem_foldl_insertByLen (l acc : List Str) (y : Str) :
    y ∈ l.foldl (fun acc x => insertByLen x acc) acc ↔ y ∈ acc ∨ y ∈ l := by
  induction l generalizing acc with
  | nil => simp
  | cons x xs ih =>
    simp only [List.foldl_cons, ih, mem_insertByLen, List.mem_cons]
    constructor
    · rintro ((h | h) | h)
      · exact Or.inr (Or.inl h)
      · exact Or.inl h
      · exact Or.inr (Or.inr h)
    · rintro (h | h | h)
      · exact Or.inl (Or.inr h)
      · exact Or.inl (Or.inl h)
      · exact Or.inr h

theorem mem_sortByLen (l : List Str) (y : Str) : y ∈ sortByLen l ↔ y ∈ l := by
  unfold sortByLen
  rw [mem_foldl_insertByLen]
  simp

/-- **bridge model → rule**: the option strings handed to `add_argument` (after the de-duplication
    and the sort by length) are exactly the spellings the rule allows. -/
theorem c10_optionStrings_iff (cfg : Cfg) (fw : FW) (hpos : fw.positional = false) (o : Str) :
    o ∈ optionStrings cfg fw ↔ Spec cfg fw o := by
  unfold optionStrings
  simp only [hpos, Bool.false_eq_true, ↓reduceIte]
  rw [mem_sortByLen, mem_dedup', c10_exact cfg fw hpos]


/-! ### `--r=value` with an unknown `--r` is rejected too (review item 12) -/

theorem splitEq_append (a b : Str) (h : '=' ∉ a) : splitEq (a ++ '=' :: b) = some (a, b) := by
  induction a with
  | nil => simp [splitEq]
  | cons c cs ih =>
    simp only [List.mem_cons, not_or] at h
    have hc : c ≠ '=' := fun hh => h.1 hh.symm
    simp only [List.cons_append, splitEq, hc, ↓reduceIte, ih h.2]

theorem startsWith_append_self (a b : Str) : startsWith (a ++ b) a = true := by
  induction a with
  | nil => cases b <;> rfl
  | cons c cs ih => simp [startsWith, ih]

theorem startsWith_of_append (o a b : Str) (h : startsWith o (a ++ b) = true) :
    startsWith o a = true := by
  induction a generalizing o with
  | nil => cases o <;> rfl
  | cons c cs ih =>
    cases o with
    | nil => simp [startsWith] at h
    | cons d ds =>
      simp only [List.cons_append, startsWith, Bool.and_eq_true] at h ⊢
      exact ⟨h.1, ih ds h.2⟩

/-- `--r=v` where no option string has `--r` as a prefix is lexed as an unknown option -/
theorem classify_unknown_long_eq (tbl : List Act) (r v : Str) (hr : '=' ∉ r)
    (hsp : (('-' :: '-' :: (r ++ '=' :: v)).contains ' ') = false)
    (hpre : ∀ p ∈ optTable tbl, startsWith p.1 ('-' :: '-' :: r) = false) :
    classify tbl ('-' :: '-' :: (r ++ '=' :: v)) =
      .ok (.O none ('-' :: '-' :: (r ++ '=' :: v)) none) := by
  have hsplit : splitEq ('-' :: '-' :: (r ++ '=' :: v)) = some ('-' :: '-' :: r, v) := by
    have := splitEq_append ('-' :: '-' :: r) v (by
      simp only [List.mem_cons, not_or]
      exact ⟨by decide, by decide, hr⟩)
    simpa using this
  have hl : (optTable tbl).lookup ('-' :: '-' :: (r ++ '=' :: v)) = none := by
    apply lookup_none_of_forall
    intro p hp hh
    have h1 := hpre p hp
    have h2 := startsWith_append_self ('-' :: '-' :: r) ('=' :: v)
    rw [hh] at h1
    simp only [List.cons_append] at h2
    rw [h2] at h1
    cases h1
  have hl2 : (optTable tbl).lookup ('-' :: '-' :: r) = none := by
    apply lookup_none_of_forall
    intro p hp hh
    have := hpre p hp
    rw [hh, startsWith_self] at this
    cases this
  have hot : optionTuples (optTable tbl) ('-' :: '-' :: (r ++ '=' :: v)) = [] := by
    simp only [optionTuples, hsplit]
    rw [List.map_eq_nil_iff, List.filter_eq_nil_iff]
    intro p hp
    simp [hpre p hp]
  unfold classify
  simp only [hl, hsplit, hl2, hot, looksNegNumber_dd, hsp]
  simp

/-- **C10 (no other spelling, `=` form).** `--r=v` is never accepted either when `--r` is a prefix
    of no option string of any action. -/
theorem c10_no_other_spelling_eq (fenv : FEnv) (tbl : List Act) (cs : List Nat)
    (pre post : List Str) (r v : Str) (hr : '=' ∉ r)
    (hdd : ∀ x ∈ pre, x ≠ ['-', '-'])
    (hsp : (('-' :: '-' :: (r ++ '=' :: v)).contains ' ') = false)
    (hpre : ∀ a ∈ tbl, ∀ o ∈ a.opts, startsWith o ('-' :: '-' :: r) = false)
    (ns : List (Str × Val)) (ex : List Str) (cs' : List Nat) :
    runStrict fenv tbl cs (pre ++ ('-' :: '-' :: (r ++ '=' :: v)) :: post) ≠ .ok ns ex cs' := by
  have hc := classify_unknown_long_eq tbl r v hr hsp (by
    intro p hp
    obtain ⟨a, ha, ho⟩ := mem_optTable tbl p hp
    exact hpre a ha p.1 ho)
  have hne : ('-' :: '-' :: (r ++ '=' :: v)) ≠ ['-', '-'] := by
    intro h
    simp at h
  cases hlex : lexAll tbl (pre ++ ('-' :: '-' :: (r ++ '=' :: v)) :: post) with
  | error e =>
    unfold runStrict run
    rw [hlex]
    simp
  | ok toks =>
    have hm := lexAll_mem tbl pre post _ _ hdd hne hc toks hlex
    exact C04.c04_unknown_rejected fenv tbl cs _ toks hlex ⟨_, hm, _, _, rfl⟩ ns ex cs'

/-- non-vacuity: `--a-b=3` is rejected by a parser that only knows `--a_b` -/
example : ∀ ns ex cs', runStrict []
    [ helpAct,
      { opts := ["--a_b".toList], dest := "c.a_b".toList, kind := .store, nargs := .one, conv := .base .int,
        choices := none, required := false, default := some (.sc (.int 0)) } ] [0, 0]
    (["--a-b=3".toList]) ≠ .ok ns ex cs' := by
  intro ns ex cs'
  exact c10_no_other_spelling_eq [] _ [0, 0] [] [] "a-b".toList "3".toList (by decide) (by simp)
    (by decide) (by decide) ns ex cs'

/-! ### The composite over the table simple-parsing builds for a flat dataclass -/

/-- the `FieldWrapper` data of field `f` of a dataclass registered at `dest` (as in `Fields.fieldAct`) -/
def fwOf (dest : Str) (f : FieldSpec) : FW :=
  { name := f.name, pref := [], dest := dest ++ '.' :: f.name, aliases := f.aliases }

/-- the negative option strings of a boolean field (none for every other field) -/
def negsOf (cfg : Cfg) (dest : Str) (f : FieldSpec) : List Str :=
  match argOptions f with
  | some ao =>
    if ao.isBool then (negStrings (optionStrings cfg (fwOf dest f)) "--no".toList none []).getD [] else []
  | none => []

theorem fieldAct_opts (cfg : Cfg) (dest : Str) (f : FieldSpec) (a : Act)
    (h : fieldAct cfg dest f = some a) (o : Str) :
    o ∈ a.opts ↔ (Spec cfg (fwOf dest f) o ∨ o ∈ negsOf cfg dest f) := by
  unfold fieldAct at h
  cases hao : argOptions f with
  | none => simp [hao] at h
  | some ao =>
    simp only [hao, Option.map_some, Option.some.injEq] at h
    subst h
    simp only [List.mem_append, negsOf, hao]
    rw [← c10_optionStrings_iff cfg (fwOf dest f) rfl]
    rfl

theorem tableOf_mem (cfg : Cfg) (dest : Str) (fs : List FieldSpec) (tbl : List Act)
    (h : tableOf cfg dest fs = some tbl) (a : Act) (ha : a ∈ tbl) :
    a = helpAct ∨ ∃ f ∈ fs, fieldAct cfg dest f = some a := by
  unfold tableOf at h
  cases hm : fs.mapM (fieldAct cfg dest) with
  | none => simp [hm] at h
  | some acts =>
    simp only [hm, Option.map_some, Option.some.injEq] at h
    subst h
    rcases List.mem_cons.mp ha with rfl | hmem
    · exact Or.inl rfl
    · exact Or.inr (C04.mapM_mem _ fs acts hm a hmem)

/-- **C10 (no other spelling, for the table of a dataclass).** For the parser simple-parsing builds
    for a flat dataclass (`tableOf`: built-in help + one action per field whose option strings are
    `optionStrings cfg …`), in every one of the 18 mode combinations: a long spelling `--r` that is
    a prefix of `--help`, of no spelling the rule `Spec` allows for any field, and of no negative
    flag string, is never accepted — wherever it stands on the command line. -/
theorem c10_flat_no_other_spelling (fenv : FEnv) (cfg : Cfg) (dest : Str) (fs : List FieldSpec)
    (tbl : List Act) (htbl : tableOf cfg dest fs = some tbl) (cs : List Nat)
    (pre post : List Str) (r : Str) (hr : r ≠ [])
    (hdd : ∀ x ∈ pre, x ≠ ['-', '-'])
    (heq : splitEq ('-' :: '-' :: r) = none)
    (hsp : (('-' :: '-' :: r).contains ' ') = false)
    (hhelp : startsWith "--help".toList ('-' :: '-' :: r) = false)
    (hspec : ∀ f ∈ fs, ∀ o, (Spec cfg (fwOf dest f) o ∨ o ∈ negsOf cfg dest f) →
      startsWith o ('-' :: '-' :: r) = false)
    (ns : List (Str × Val)) (ex : List Str) (cs' : List Nat) :
    runStrict fenv tbl cs (pre ++ ('-' :: '-' :: r) :: post) ≠ .ok ns ex cs' := by
  apply c10_no_other_spelling fenv tbl cs pre post r hr hdd heq hsp
  intro a ha o ho
  rcases tableOf_mem cfg dest fs tbl htbl a ha with rfl | ⟨f, hf, hfa⟩
  · simp only [helpAct, List.mem_cons, List.not_mem_nil, or_false] at ho
    rcases ho with rfl | rfl
    · simp [startsWith]
    · exact hhelp
  · exact hspec f hf o ((fieldAct_opts cfg dest f a hfa o).mp ho)

/-- the same for the `--r=v` form -/
theorem c10_flat_no_other_spelling_eq (fenv : FEnv) (cfg : Cfg) (dest : Str) (fs : List FieldSpec)
    (tbl : List Act) (htbl : tableOf cfg dest fs = some tbl) (cs : List Nat)
    (pre post : List Str) (r v : Str) (hr : '=' ∉ r)
    (hdd : ∀ x ∈ pre, x ≠ ['-', '-'])
    (hsp : (('-' :: '-' :: (r ++ '=' :: v)).contains ' ') = false)
    (hhelp : startsWith "--help".toList ('-' :: '-' :: r) = false)
    (hspec : ∀ f ∈ fs, ∀ o, (Spec cfg (fwOf dest f) o ∨ o ∈ negsOf cfg dest f) →
      startsWith o ('-' :: '-' :: r) = false)
    (ns : List (Str × Val)) (ex : List Str) (cs' : List Nat) :
    runStrict fenv tbl cs (pre ++ ('-' :: '-' :: (r ++ '=' :: v)) :: post) ≠ .ok ns ex cs' := by
  apply c10_no_other_spelling_eq fenv tbl cs pre post r v hr hdd hsp
  intro a ha o ho
  rcases tableOf_mem cfg dest fs tbl htbl a ha with rfl | ⟨f, hf, hfa⟩
  · simp only [helpAct, List.mem_cons, List.not_mem_nil, or_false] at ho
    rcases ho with rfl | rfl
    · simp [startsWith]
    · exact hhelp
  · exact hspec f hf o ((fieldAct_opts cfg dest f a hfa o).mp ho)


/-! ### "every accepted spelling sets the same field" (review item 1) -/

theorem lookup_map_opts (opts : List Str) (i : Nat) (o : Str) :
    (opts.map (fun x => (x, i))).lookup o = if o ∈ opts then some i else none := by
  induction opts with
  | nil => simp
  | cons x xs ih =>
    by_cases h : o = x
    · subst h; simp
    · have : (o == x) = false := by simpa using h
      simp only [List.map_cons, List.lookup, this, ih, List.mem_cons, h, false_or]

theorem optTable_lookup_aux (tbl : List Act) : ∀ (k i : Nat) (a : Act) (o : Str),
    tbl[i]? = some a → o ∈ a.opts → (∀ j < i, ∀ b, tbl[j]? = some b → o ∉ b.opts) →
    ((tbl.zipIdx k).flatMap (fun (p : Act × Nat) => p.1.opts.map (fun o => (o, p.2)))).lookup o
      = some (k + i) := by
  induction tbl with
  | nil => intro k i a o ha; simp at ha
  | cons b bs ih =>
    intro k i a o ha ho hfirst
    simp only [List.zipIdx_cons, List.flatMap_cons, List.lookup_append, lookup_map_opts]
    cases i with
    | zero =>
      simp only [List.getElem?_cons_zero, Option.some.injEq] at ha
      subst ha
      simp [ho]
    | succ i' =>
      have hb : o ∉ b.opts := hfirst 0 (by omega) b (by simp)
      simp only [hb, ↓reduceIte, Option.none_or]
      rw [ih (k + 1) i' a o (by simpa using ha) ho (fun j hj c hc =>
        hfirst (j + 1) (by omega) c (by simpa using hc))]
      congr 1
      omega

/-- argparse's `_option_string_actions[o]` is the FIRST action carrying `o` -/
theorem optTable_lookup_first (tbl : List Act) (i : Nat) (a : Act) (o : Str)
    (ha : tbl[i]? = some a) (ho : o ∈ a.opts)
    (hfirst : ∀ j < i, ∀ b, tbl[j]? = some b → o ∉ b.opts) :
    (optTable tbl).lookup o = some i := by
  have := optTable_lookup_aux tbl 0 i a o ha ho hfirst
  simpa [optTable] using this

/-- no action other than (possibly) number `i` is required or has a string default that `type=`
    would rewrite after the parse — true of every table whose fields have non-string defaults -/
def QuietExcept (tbl : List Act) (i : Nat) : Prop :=
  ∀ p ∈ tbl.zipIdx, p.2 = i ∨ (p.1.required = false ∧ ∀ s, p.1.default ≠ some (.sc (.str s)))

/-- the command line of ONE occurrence: `o tok` (`eq = false`) or `o=tok` (`eq = true`) -/
def occ (o tok : Str) (eq : Bool) : List Str := if eq then [o ++ '=' :: tok] else [o, tok]

/-- what the value token must satisfy in each spelling: spaced — argparse lexes it as an argument
    (e.g. it does not start with `-`); `=` form — ANY token, the option string has no `=` and
    `o=tok` is not itself an option string -/
def TokOk (tbl : List Act) (o tok : Str) : Bool → Prop
  | false => ArgTok tbl tok
  | true => '=' ∉ o ∧ (optTable tbl).lookup (o ++ '=' :: tok) = none

/-- one decimal token through an `int` action: the closure counters are untouched -/
theorem getValuesList_int (fenv : FEnv) (a : Act) (ha : a.conv = .base .int) (hc : a.choices = none)
    (i : Nat) (cs' : List Nat) (tok : Str) (v : Int) (hp : parseInt tok = .ok (.int v)) :
    getValuesList fenv a i cs' [tok] = .ok ([.int v], cs') := by
  simp [getValuesList, getValue, ha, hc, Conv.apply, BConv.apply, hp]

theorem tokOk_of_nodash (tbl : List Act) (o tok : Str) (h : NoDash tok) : TokOk tbl o tok false :=
  argTok_of_nodash tbl tok h

/-- **C10 (an accepted spelling sets its field).** Any table, any position `i` of a one-value
    `store` action with a stateless `type=`: the command line `o tok` or `o=tok`, where `o` is ANY
    of the action's option strings (not shadowed by an earlier action — "no name clash" —, and not
    the bare separator `--`) and `tok` converts to `v`, is accepted and the namespace is the
    initial one with exactly `act.dest := v`. -/
theorem c10_spelling_sets_field (fenv : FEnv) (tbl : List Act) (cs : List Nat) (i : Nat) (act : Act)
    (o tok : Str) (v : Scalar) (eq : Bool)
    (hal : C04.Aligned tbl cs)
    (hact : tbl[i]? = some act) (hk : act.kind = .store) (hn : act.nargs = .one)
    (hstateless : ∀ bs, act.conv ≠ .tupleCounter bs)
    (ho : o ∈ act.opts) (hfirst : ∀ j < i, ∀ b, tbl[j]? = some b → o ∉ b.opts)
    (hdash : ∃ r, o = '-' :: r) (hsep : o ≠ ['-', '-'])
    (htok : TokOk tbl o tok eq)
    (hconv : ∀ cs', getValuesList fenv act i cs' [tok] = .ok ([v], cs'))
    (hquiet : QuietExcept tbl i) :
    runStrict fenv tbl cs (occ o tok eq) = .ok (setKey (initNs tbl) act.dest (.sc v)) [] cs := by
  have hsc : ∀ cs', C02.segCounters tbl cs' ⟨i, o, [tok]⟩ = cs' := by
    intro cs'
    simp only [C02.segCounters, hact]
  have key := C02.c02_engine_roundtrip fenv tbl cs [⟨⟨i, o, [tok]⟩, [v], eq⟩] hal
    (by
      intro w hw
      simp only [List.mem_cons, List.not_mem_nil, or_false] at hw
      subst hw
      refine ⟨optTable_lookup_first tbl i act o hact ho hfirst, hdash, hsep, ?_, ?_⟩
      · intro he t ht
        simp only [C02.VSeg.eseg, List.mem_cons, List.not_mem_nil, or_false] at ht
        subst ht
        cases eq with
        | false => exact htok
        | true => simp [C02.VSeg.eseg, ESeg.eqTok] at he
      · intro t ht
        cases eq with
        | false => simp [C02.VSeg.eseg, ESeg.eqTok] at ht
        | true =>
          simp only [C02.VSeg.eseg, ESeg.eqTok, Option.some.injEq] at ht
          subst ht
          exact htok)
    (by
      intro w hw
      simp only [List.mem_cons, List.not_mem_nil, or_false] at hw
      subst hw
      refine ⟨act, hact, Or.inl hk, by rw [hn]; rfl, ?_⟩
      intro cs' _
      show getValuesList fenv act i cs' [tok] = .ok ([v], C02.segCounters tbl cs' ⟨i, o, [tok]⟩)
      rw [hsc cs']
      exact hconv cs')
    (by
      intro p hp
      rcases hquiet p hp with h | ⟨hreq, hdef⟩
      · left; exact ⟨⟨⟨i, o, [tok]⟩, [v], eq⟩, by simp, h.symm⟩
      · right
        exact ⟨hreq, fun s hs => absurd hs (hdef s)⟩)
  have hrender : render' ([(⟨⟨i, o, [tok]⟩, [v], eq⟩ : C02.VSeg)].map (·.eseg)) = occ o tok eq := by
    cases eq <;> simp [render', renderESeg, ESeg.eqTok, C02.VSeg.eseg, renderSeg, occ]
  rw [hrender] at key
  rw [key]
  simp [C02.storeAll, hact, C02.storedVal, hk, hn, segVal, C02.countersAll, hsc]

/-- **C10 (every accepted spelling sets the SAME field).** Two spellings `o₁`, `o₂` of one action,
    each in either form (`o tok` / `o=tok`), give the same result, and that result differs from the
    defaults at the action's destination and nowhere else. -/
theorem c10_same_field (fenv : FEnv) (tbl : List Act) (cs : List Nat) (i : Nat) (act : Act)
    (o₁ o₂ tok : Str) (v : Scalar) (eq₁ eq₂ : Bool)
    (hal : C04.Aligned tbl cs)
    (hact : tbl[i]? = some act) (hk : act.kind = .store) (hn : act.nargs = .one)
    (hstateless : ∀ bs, act.conv ≠ .tupleCounter bs)
    (ho₁ : o₁ ∈ act.opts) (hfirst₁ : ∀ j < i, ∀ b, tbl[j]? = some b → o₁ ∉ b.opts)
    (hdash₁ : ∃ r, o₁ = '-' :: r) (hsep₁ : o₁ ≠ ['-', '-'])
    (ho₂ : o₂ ∈ act.opts) (hfirst₂ : ∀ j < i, ∀ b, tbl[j]? = some b → o₂ ∉ b.opts)
    (hdash₂ : ∃ r, o₂ = '-' :: r) (hsep₂ : o₂ ≠ ['-', '-'])
    (htok₁ : TokOk tbl o₁ tok eq₁) (htok₂ : TokOk tbl o₂ tok eq₂)
    (hconv : ∀ cs', getValuesList fenv act i cs' [tok] = .ok ([v], cs'))
    (hquiet : QuietExcept tbl i) :
    runStrict fenv tbl cs (occ o₁ tok eq₁) = runStrict fenv tbl cs (occ o₂ tok eq₂) ∧
    ∃ ns, runStrict fenv tbl cs (occ o₁ tok eq₁) = .ok ns [] cs ∧
      ns.lookup act.dest = some (.sc v) ∧
      ∀ d, d ≠ act.dest → ns.lookup d = (initNs tbl).lookup d := by
  have h₁ := c10_spelling_sets_field fenv tbl cs i act o₁ tok v eq₁ hal hact hk hn hstateless ho₁ hfirst₁
    hdash₁ hsep₁ htok₁ hconv hquiet
  have h₂ := c10_spelling_sets_field fenv tbl cs i act o₂ tok v eq₂ hal hact hk hn hstateless ho₂ hfirst₂
    hdash₂ hsep₂ htok₂ hconv hquiet
  refine ⟨by rw [h₁, h₂], _, h₁, C02.lookup_setKey_same _ _ _, ?_⟩
  intro d hd
  exact C02.lookup_setKey_other _ _ _ _ hd

theorem dashFor_cases (x : Str) : dashFor x = ['-'] ∨ dashFor x = ['-', '-'] := by
  unfold dashFor
  split
  · exact Or.inl rfl
  · exact Or.inr rfl

theorem aliasPair_fst (pref a : Str) :
    (aliasPair pref a).1 = ['-'] ∨ (aliasPair pref a).1 = ['-', '-'] := by
  unfold aliasPair
  split
  · exact Or.inr rfl
  · exact Or.inl rfl
  · exact dashFor_cases _

/-- every spelling the rule allows starts with a dash -/
theorem spec_dash (cfg : Cfg) (fw : FW) (o : Str) (h : Spec cfg fw o) : ∃ r, o = '-' :: r := by
  obtain ⟨src, _, (⟨d, hd, rfl⟩ | ⟨_, _, rfl⟩)⟩ := h
  · have hd' : d = ['-'] ∨ d = ['-', '-'] := by
      rcases src with _ | _ | a
      · simp only [dashesOf] at hd
        split at hd <;> simp at hd <;> tauto
      · simp only [dashesOf] at hd
        split at hd <;> simp at hd <;> tauto
      · simp only [dashesOf, List.mem_cons, List.not_mem_nil, or_false] at hd
        rw [hd]; exact aliasPair_fst _ _
    rcases hd' with rfl | rfl <;> exact ⟨_, rfl⟩
  · rcases dashFor_cases (dashify (body cfg fw src)) with h | h <;> rw [h] <;> exact ⟨_, rfl⟩

theorem tableOf_head (cfg : Cfg) (dest : Str) (fs : List FieldSpec) (tbl : List Act)
    (h : tableOf cfg dest fs = some tbl) : tbl[0]? = some helpAct := by
  unfold tableOf at h
  cases hm : fs.mapM (fieldAct cfg dest) with
  | none => simp [hm] at h
  | some acts =>
    simp only [hm, Option.map_some, Option.some.injEq] at h
    subst h
    rfl

/-- **C10 (an accepted spelling sets its field — for the parser of a flat dataclass).**
    `tableOf cfg dest fs` in any of the 18 mode combinations; field `i` a one-value non-boolean
    field with a stateless `type=`.  EVERY spelling `o` the rule `Spec` allows for that field — flat
    name, nested path, alias, dashed variant — that clashes with no earlier field's spellings (nor
    `-h`, `--help`) and is not the bare separator `--`, written `o tok` or `o=tok` with a token
    converting to `v`, is accepted and stores `v` at `dest.name` and nowhere else. -/
theorem c10_flat_spelling_sets_field (fenv : FEnv) (cfg : Cfg) (dest : Str) (fs : List FieldSpec)
    (tbl : List Act) (htbl : tableOf cfg dest fs = some tbl) (cs : List Nat) (hal : C04.Aligned tbl cs)
    (i : Nat) (hi : i < fs.length) (ao : ArgOpts) (hao : argOptions fs[i] = some ao)
    (hbool : ao.isBool = false) (hn : ao.nargs = .one) (hstateless : ∀ bs, ao.conv ≠ .tupleCounter bs)
    (o tok : Str) (v : Scalar) (eq : Bool)
    (hspec : Spec cfg (fwOf dest fs[i]) o)
    (hhelp : o ∉ helpAct.opts)
    (hclash : ∀ j (hj : j < i), ¬ (Spec cfg (fwOf dest fs[j]) o ∨ o ∈ negsOf cfg dest fs[j]))
    (hsep : o ≠ ['-', '-'])
    (htok : TokOk tbl o tok eq)
    (hconv : ∀ a, tbl[i + 1]? = some a → ∀ cs', getValuesList fenv a (i + 1) cs' [tok] = .ok ([v], cs'))
    (hquiet : QuietExcept tbl (i + 1)) :
    runStrict fenv tbl cs (occ o tok eq) =
      .ok (setKey (initNs tbl) (dest ++ '.' :: fs[i].name) (.sc v)) [] cs := by
  obtain ⟨a, hfa, hta⟩ := C02.tableOf_get cfg dest fs tbl htbl i hi
  obtain ⟨a', hfa', hkind, hdest, hnargs, hcv, _⟩ := C02.fieldAct_store cfg dest fs[i] ao hao hbool
  rw [hfa] at hfa'
  cases hfa'
  have ho : o ∈ a.opts := (fieldAct_opts cfg dest fs[i] a hfa o).mpr (Or.inl hspec)
  have hfirst : ∀ j < i + 1, ∀ b, tbl[j]? = some b → o ∉ b.opts := by
    intro j hj b hb
    cases j with
    | zero =>
      rw [tableOf_head cfg dest fs tbl htbl] at hb
      cases hb
      exact hhelp
    | succ j' =>
      have hj' : j' < i := by omega
      obtain ⟨b', hfb, htb⟩ := C02.tableOf_get cfg dest fs tbl htbl j' (by omega)
      rw [htb] at hb
      cases hb
      intro hob
      exact hclash j' hj' ((fieldAct_opts cfg dest fs[j'] b hfb o).mp hob)
  have := c10_spelling_sets_field fenv tbl cs (i + 1) a o tok v eq hal hta hkind (by rw [hnargs, hn])
    (by rw [hcv]; exact hstateless) ho hfirst (spec_dash cfg _ o hspec) hsep htok (hconv a hta) hquiet
  rw [this, hdest]

/-! ### Aliases, in the property's words (review item 3): declared aliases are accepted as declared
    in EVERY mode (DASH does not touch them), with their own number of dashes -/

theorem aliasPair_2dash (pref n : Str) : aliasPair pref ('-' :: '-' :: n) = (['-', '-'], pref ++ n) := by
  simp [aliasPair]

theorem aliasPair_1dash (pref n : Str) (h : n.head? ≠ some '-') :
    aliasPair pref ('-' :: n) = (['-'], pref ++ n) := by
  cases n with
  | nil => simp [aliasPair]
  | cons c cs =>
    have hc : c ≠ '-' := by simpa using h
    unfold aliasPair
    split
    · rename_i heq
      simp only [List.cons.injEq, true_and] at heq
      exact absurd heq.1 hc
    · rename_i heq
      simp only [List.cons.injEq, true_and] at heq
      rw [heq]
    · rename_i h1 h2
      exact absurd rfl (h2 _)

theorem aliasPair_0dash (pref a : Str) (h : a.head? ≠ some '-') :
    aliasPair pref a = (dashFor a, pref ++ a) := by
  cases a with
  | nil => simp [aliasPair]
  | cons c cs =>
    have hc : c ≠ '-' := by simpa using h
    unfold aliasPair
    split
    · rename_i heq
      simp only [List.cons.injEq] at heq
      exact absurd heq.1 hc
    · rename_i heq
      simp only [List.cons.injEq] at heq
      exact absurd heq.1 hc
    · rfl

/-- whatever the modes, the (dash, name) pair of every declared alias is offered -/
theorem alias_mem_optionList (cfg : Cfg) (fw : FW) (hpos : fw.positional = false) (a : Str)
    (ha : a ∈ fw.aliases) :
    (aliasPair fw.pref a).1 ++ (aliasPair fw.pref a).2 ∈ optionList cfg fw := by
  rw [c10_exact cfg fw hpos]
  refine ⟨.alias a, (mem_sources _ _ _).mpr (Or.inr (Or.inr ⟨a, ha, rfl⟩)), Or.inl ⟨_, ?_, rfl⟩⟩
  simp [dashesOf]

/-- an alias declared with two dashes is accepted exactly as declared — in all 18 mode
    combinations, DASH included (aliases are never rewritten) -/
theorem c10_alias_2dash_kept (cfg : Cfg) (fw : FW) (hpos : fw.positional = false)
    (hp : fw.pref = []) (n : Str) (ha : ('-' :: '-' :: n) ∈ fw.aliases) :
    ('-' :: '-' :: n) ∈ optionList cfg fw := by
  have := alias_mem_optionList cfg fw hpos _ ha
  simpa [aliasPair_2dash, hp] using this

/-- an alias declared with one dash is accepted exactly as declared, in every mode -/
theorem c10_alias_1dash_kept (cfg : Cfg) (fw : FW) (hpos : fw.positional = false)
    (hp : fw.pref = []) (n : Str) (hn : n.head? ≠ some '-') (ha : ('-' :: n) ∈ fw.aliases) :
    ('-' :: n) ∈ optionList cfg fw := by
  have := alias_mem_optionList cfg fw hpos _ ha
  simpa [aliasPair_1dash _ _ hn, hp] using this

/-- an alias declared without dashes gets `-` if it is one letter, `--` otherwise, in every mode -/
theorem c10_alias_0dash (cfg : Cfg) (fw : FW) (hpos : fw.positional = false)
    (hp : fw.pref = []) (a : Str) (hn : a.head? ≠ some '-') (ha : a ∈ fw.aliases) :
    (dashFor a ++ a) ∈ optionList cfg fw := by
  have := alias_mem_optionList cfg fw hpos _ ha
  simpa [aliasPair_0dash _ _ hn, hp] using this

theorem dashify_length (s : Str) : (dashify s).length = s.length := by simp [dashify]

theorem dashFor_dashify (s : Str) : dashFor (dashify s) = dashFor s := by
  simp [dashFor, dashify_length]

/-- under UNDERSCORE_AND_DASH the dashed variant of every alias pair is offered -/
theorem alias_variant_mem_optionList (gen : Gen) (nest : Nest) (fw : FW) (hpos : fw.positional = false)
    (a : Str) (ha : a ∈ fw.aliases) (hu : hasUnderscore (aliasPair fw.pref a).2 = true) :
    dashFor (aliasPair fw.pref a).2 ++ dashify (aliasPair fw.pref a).2 ∈
      optionList ⟨.both, gen, nest⟩ fw := by
  rw [c10_exact _ fw hpos]
  refine ⟨.alias a, (mem_sources _ _ _).mpr (Or.inr (Or.inr ⟨a, ha, rfl⟩)), Or.inr ⟨rfl, hu, ?_⟩⟩
  simp [body, dashFor_dashify]

/-- UNDERSCORE_AND_DASH: a two-dash alias `--x_y` is also accepted as `--x-y` -/
theorem c10_alias_both_variant_2dash (gen : Gen) (nest : Nest) (fw : FW) (hpos : fw.positional = false)
    (hp : fw.pref = []) (n : Str) (ha : ('-' :: '-' :: n) ∈ fw.aliases)
    (hu : hasUnderscore n = true) (hl : n.length ≠ 1) :
    ('-' :: '-' :: dashify n) ∈ optionList ⟨.both, gen, nest⟩ fw := by
  have := alias_variant_mem_optionList gen nest fw hpos _ ha (by simpa [aliasPair_2dash, hp] using hu)
  simpa [aliasPair_2dash, hp, dashFor, hl] using this

/-- UNDERSCORE_AND_DASH: a dash-less alias `x_y` (accepted as `--x_y`) is also accepted as `--x-y` -/
theorem c10_alias_both_variant_0dash (gen : Gen) (nest : Nest) (fw : FW) (hpos : fw.positional = false)
    (hp : fw.pref = []) (a : Str) (hn : a.head? ≠ some '-') (ha : a ∈ fw.aliases)
    (hu : hasUnderscore a = true) (hl : a.length ≠ 1) :
    ('-' :: '-' :: dashify a) ∈ optionList ⟨.both, gen, nest⟩ fw := by
  have := alias_variant_mem_optionList gen nest fw hpos _ ha (by simpa [aliasPair_0dash _ _ hn, hp] using hu)
  simpa [aliasPair_0dash _ _ hn, hp, dashFor, hl] using this

/-- What the code does with a ONE-dash multi-letter alias `-x_y` under UNDERSCORE_AND_DASH: the
    variant is given TWO dashes (`--x-y`), because the dash count of a variant is recomputed from
    its length (field_wrapper.py:641-645) — see the open finding `C10-short-alias-variant`. -/
theorem c10_alias_1dash_variant_actual (gen : Gen) (nest : Nest) (fw : FW) (hpos : fw.positional = false)
    (hp : fw.pref = []) (n : Str) (hn : n.head? ≠ some '-') (ha : ('-' :: n) ∈ fw.aliases)
    (hu : hasUnderscore n = true) (hl : n.length ≠ 1) :
    ('-' :: '-' :: dashify n) ∈ optionList ⟨.both, gen, nest⟩ fw := by
  have := alias_variant_mem_optionList gen nest fw hpos _ ha (by simpa [aliasPair_1dash _ _ hn, hp] using hu)
  simpa [aliasPair_1dash _ _ hn, hp, dashFor, hl] using this

/-- the documented expectation ("the same number of dashes will be used", option_strings docstring;
    "UNDERSCORE_AND_DASH accepts both spellings for names and aliases"): the dashed variant of a
    one-dash alias keeps its single dash -/
def AliasVariantKeepsDashes : Prop :=
  ∀ (gen : Gen) (nest : Nest) (fw : FW) (n : Str), fw.positional = false → fw.pref = [] →
    n.head? ≠ some '-' → ('-' :: n) ∈ fw.aliases → hasUnderscore n = true →
    ('-' :: dashify n) ∈ optionList ⟨.both, gen, nest⟩ fw

/-- the code does not satisfy it: alias `-v_w` yields `-v_w` and `--v-w`, never `-v-w` -/
theorem c10_alias_variant_witness : ¬ AliasVariantKeepsDashes := by
  intro h
  have := h .flat .default
    { name := "alpha".toList, pref := [], dest := "c.alpha".toList, aliases := ["-v_w".toList] }
    "v_w".toList rfl rfl (by decide) (by decide) (by decide)
  revert this
  decide

/-- `_partial`: for aliases that are NOT one-dash (named exclusion: two leading dashes, or none and
    more than one letter) the variant keeps the dashes of the declared spelling — this is
    `c10_alias_both_variant_2dash` / `c10_alias_both_variant_0dash`, restated on the declared
    spelling `decl` and its dashed twin `dashify decl` -/
theorem c10_alias_variant_partial (gen : Gen) (nest : Nest) (fw : FW) (hpos : fw.positional = false)
    (hp : fw.pref = []) (a : Str) (ha : a ∈ fw.aliases) (hu : hasUnderscore a = true)
    (hnot1 : (∃ n, a = '-' :: '-' :: n ∧ n.length ≠ 1) ∨ (a.head? ≠ some '-' ∧ a.length ≠ 1)) :
    ∃ decl, decl ∈ optionList ⟨.both, gen, nest⟩ fw ∧ dashify decl ∈ optionList ⟨.both, gen, nest⟩ fw ∧
      (decl = a ∨ decl = '-' :: '-' :: a) := by
  rcases hnot1 with ⟨n, rfl, hl⟩ | ⟨hn, hl⟩
  · have hu' : hasUnderscore n = true := by
      simpa [hasUnderscore] using hu
    refine ⟨'-' :: '-' :: n, c10_alias_2dash_kept _ fw hpos hp n ha, ?_, Or.inl rfl⟩
    have := c10_alias_both_variant_2dash gen nest fw hpos hp n ha hu' hl
    simpa [dashify] using this
  · refine ⟨'-' :: '-' :: a, ?_, ?_, Or.inr rfl⟩
    · have := c10_alias_0dash ⟨.both, gen, nest⟩ fw hpos hp a hn ha
      simpa [dashFor, hl] using this
    · have := c10_alias_both_variant_0dash gen nest fw hpos hp a hn ha hu hl
      simpa [dashify] using this

theorem hasUnderscore_append (a b : Str) :
    hasUnderscore (a ++ b) = (hasUnderscore a || hasUnderscore b) := by
  simp [hasUnderscore]

/-- DASH: an accepted option string that still contains an underscore is a declared alias, offered
    as declared (`c10_dash_alias_kept`); every generated spelling is underscore-free. -/
theorem c10_dash_alias_kept (gen : Gen) (nest : Nest) (fw : FW) (hpos : fw.positional = false)
    (s : Str) (hs : s ∈ optionList ⟨.dashOnly, gen, nest⟩ fw) (hu : hasUnderscore s = true) :
    ∃ a ∈ fw.aliases, s = (aliasPair fw.pref a).1 ++ (aliasPair fw.pref a).2 := by
  rw [c10_exact _ fw hpos] at hs
  obtain ⟨src, hsrc, (⟨d, hd, rfl⟩ | ⟨hb, _, _⟩)⟩ := hs
  · rcases src with _ | _ | a
    · exfalso
      have hd' : hasUnderscore d = false := by
        simp only [dashesOf] at hd
        split at hd <;> simp at hd <;> rcases hd with rfl | rfl <;> decide
      rw [hasUnderscore_append, hd'] at hu
      simp only [body, genSpell, ↓reduceIte, Bool.false_or] at hu
      rw [dashify_no_underscore] at hu
      cases hu
    · exfalso
      have hd' : hasUnderscore d = false := by
        simp only [dashesOf] at hd
        split at hd <;> simp at hd <;> rcases hd with rfl | rfl <;> decide
      rw [hasUnderscore_append, hd'] at hu
      simp only [body, genSpell, ↓reduceIte, Bool.false_or] at hu
      rw [dashify_no_underscore] at hu
      cases hu
    · obtain ⟨a', ha', heq⟩ := ((mem_sources _ _ _).mp hsrc).resolve_left (by simp) |>.resolve_left (by simp)
      cases heq
      simp only [dashesOf, List.mem_cons, List.not_mem_nil, or_false] at hd
      exact ⟨a, ha', by rw [hd]; rfl⟩
  · cases hb

/-- DASH (restating `c10_dash_generated_no_underscore` on the option strings themselves): without
    aliases NO accepted option string contains an underscore -/
theorem c10_dash_option_no_underscore (gen : Gen) (nest : Nest) (fw : FW) (hpos : fw.positional = false)
    (hal : fw.aliases = []) (s : Str) (hs : s ∈ optionList ⟨.dashOnly, gen, nest⟩ fw) :
    hasUnderscore s = false := by
  cases hu : hasUnderscore s with
  | false => rfl
  | true =>
    obtain ⟨a, ha, _⟩ := c10_dash_alias_kept gen nest fw hpos s hs hu
    rw [hal] at ha
    cases ha


/-! ### Explicit option lists for DASH and UNDERSCORE_AND_DASH (review item 4) -/

/-- DASH + FLAT: the only option is `--<name with dashes>` -/
theorem c10_dash_flat (fw : FW) (nest : Nest) (hpos : fw.positional = false)
    (hlen : fw.name.length ≠ 1) (hal : fw.aliases = []) :
    optionList ⟨.dashOnly, .flat, nest⟩ fw = [['-', '-'] ++ dashify (fw.pref ++ fw.name)] := by
  simp [optionList, hpos, basePairs, extraPairs, candidates, flatCand, dashFor, hlen, hal]

/-- DASH + NESTED: the only option is `--<path with dashes>` -/
theorem c10_dash_nested (fw : FW) (nest : Nest) (hpos : fw.positional = false)
    (hlen : fw.name.length ≠ 1) (hal : fw.aliases = []) :
    optionList ⟨.dashOnly, .nested, nest⟩ fw =
      [['-', '-'] ++ dashify (nestedPath ⟨.dashOnly, .nested, nest⟩ fw)] := by
  cases nest <;>
    simp [optionList, hpos, basePairs, extraPairs, candidates, nestedCand, dashFor, hlen, hal, nestedPath]

/-- UNDERSCORE_AND_DASH + FLAT, a name with an underscore: exactly the two spellings -/
theorem c10_both_flat (fw : FW) (nest : Nest) (hpos : fw.positional = false) (hp : fw.pref = [])
    (hlen : fw.name.length ≠ 1) (hal : fw.aliases = []) (hu : hasUnderscore fw.name = true) :
    optionList ⟨.both, .flat, nest⟩ fw =
      [['-', '-'] ++ fw.name, ['-', '-'] ++ dashify fw.name] := by
  simp [optionList, hpos, basePairs, extraPairs, candidates, flatCand, dashFor, hlen, hal, hp, hu,
    dashify_length]

/-- UNDERSCORE_AND_DASH + FLAT, a name without underscore: just `--name` -/
theorem c10_both_flat_plain (fw : FW) (nest : Nest) (hpos : fw.positional = false) (hp : fw.pref = [])
    (hlen : fw.name.length ≠ 1) (hal : fw.aliases = []) (hu : hasUnderscore fw.name = false) :
    optionList ⟨.both, .flat, nest⟩ fw = [['-', '-'] ++ fw.name] := by
  simp [optionList, hpos, basePairs, extraPairs, candidates, flatCand, dashFor, hlen, hal, hp, hu]

/-- a one-letter name `c` (not `_`) in FLAT mode: `-c` and `--c`, whatever the dash variant -/
theorem c10_one_letter_flat (dash : Dash) (nest : Nest) (fw : FW) (c : Char) (hpos : fw.positional = false)
    (hp : fw.pref = []) (hname : fw.name = [c]) (hc : c ≠ '_') (hal : fw.aliases = []) :
    optionList ⟨dash, .flat, nest⟩ fw = [['-', c], ['-', '-', c]] := by
  have hc' : ¬ '_' = c := fun h => hc h.symm
  cases dash <;>
    simp [optionList, hpos, basePairs, extraPairs, candidates, flatCand, dashFor, hal, hp, hname,
      hasUnderscore, dashify, hc, hc']

/-- UNDERSCORE_AND_DASH, in the rule's vocabulary (restating `c10_both_closed` on `optionList`):
    every source offered with two dashes whose body is not one letter is accepted in BOTH
    spellings, `--body` and `--<body with dashes>` -/
theorem c10_both_spellings (gen : Gen) (nest : Nest) (fw : FW) (hpos : fw.positional = false)
    (src : Src) (hsrc : src ∈ sources ⟨.both, gen, nest⟩ fw) (hd : ['-', '-'] ∈ dashesOf fw src)
    (hl : (body ⟨.both, gen, nest⟩ fw src).length ≠ 1) :
    (['-', '-'] ++ body ⟨.both, gen, nest⟩ fw src) ∈ optionList ⟨.both, gen, nest⟩ fw ∧
    (['-', '-'] ++ dashify (body ⟨.both, gen, nest⟩ fw src)) ∈ optionList ⟨.both, gen, nest⟩ fw := by
  have h1 : (['-', '-'] ++ body ⟨.both, gen, nest⟩ fw src) ∈ optionList ⟨.both, gen, nest⟩ fw := by
    rw [c10_exact _ fw hpos]
    exact ⟨src, hsrc, Or.inl ⟨_, hd, rfl⟩⟩
  refine ⟨h1, ?_⟩
  cases hu : hasUnderscore (body ⟨.both, gen, nest⟩ fw src) with
  | false => rw [dashify_of_no_underscore _ hu]; exact h1
  | true =>
    rw [c10_exact _ fw hpos]
    refine ⟨src, hsrc, Or.inr ⟨rfl, hu, ?_⟩⟩
    simp [dashFor, dashify_length, hl]

/-- … for the field's own name: `--n` and `--<n with dashes>` are both accepted (FLAT or BOTH) -/
theorem c10_both_name_spellings (gen : Gen) (nest : Nest) (fw : FW) (hpos : fw.positional = false)
    (hp : fw.pref = []) (hg : gen ≠ .nested) (hlen : fw.name.length ≠ 1) :
    (['-', '-'] ++ fw.name) ∈ optionList ⟨.both, gen, nest⟩ fw ∧
    (['-', '-'] ++ dashify fw.name) ∈ optionList ⟨.both, gen, nest⟩ fw := by
  have := c10_both_spellings gen nest fw hpos .flatName
    ((mem_sources _ _ _).mpr (Or.inl ⟨rfl, hg⟩)) (by simp [dashesOf, hlen])
    (by simpa [body, genSpell, hp] using hlen)
  simpa [body, genSpell, hp] using this

/-- … and for the nested path `d` (NESTED or BOTH): `--d` and `--<d with dashes>` -/
theorem c10_both_path_spellings (gen : Gen) (nest : Nest) (fw : FW) (hpos : fw.positional = false)
    (hg : gen ≠ .flat) (hlen : fw.name.length ≠ 1)
    (hl : (nestedPath ⟨.both, gen, nest⟩ fw).length ≠ 1) :
    (['-', '-'] ++ nestedPath ⟨.both, gen, nest⟩ fw) ∈ optionList ⟨.both, gen, nest⟩ fw ∧
    (['-', '-'] ++ dashify (nestedPath ⟨.both, gen, nest⟩ fw)) ∈ optionList ⟨.both, gen, nest⟩ fw := by
  have := c10_both_spellings gen nest fw hpos .nestedName
    ((mem_sources _ _ _).mpr (Or.inr (Or.inl ⟨rfl, hg⟩))) (by simp [dashesOf, hlen])
    (by simpa [body, genSpell] using hl)
  simpa [body, genSpell] using this

/-! ### Open finding `C10-separator-option`: a field (or alias) spelled `_` registers the bare `--` -/

/-- what one expects: a field with a non-empty name that does not start with a dash never registers
    argparse's separator `--` as one of its option strings -/
def SeparatorFree : Prop :=
  ∀ (cfg : Cfg) (fw : FW), fw.positional = false → fw.pref = [] → fw.aliases = [] → cfg.gen = .flat →
    fw.name ≠ [] → fw.name.head? ≠ some '-' → ['-', '-'] ∉ optionList cfg fw

/-- the code does not satisfy it: the field `_` under UNDERSCORE_AND_DASH gets `-_`, `--_` and `--` -/
theorem c10_separator_witness : ¬ SeparatorFree := by
  intro h
  have := h ⟨.both, .flat, .default⟩
    { name := "_".toList, pref := [], dest := "c._".toList, aliases := [] } rfl rfl rfl rfl
    (by decide) (by decide)
  revert this
  decide

theorem dashify_eq_nil (s : Str) (h : dashify s = []) : s = [] := by
  cases s with
  | nil => rfl
  | cons c cs => simp [dashify] at h

theorem dashify_eq_dash (s : Str) (h : dashify s = ['-']) : s = ['_'] ∨ s = ['-'] := by
  cases s with
  | nil => simp [dashify] at h
  | cons c cs =>
    cases cs with
    | cons _ _ => simp [dashify] at h
    | nil =>
      by_cases hc : c = '_'
      · left; rw [hc]
      · right
        simp only [dashify, List.map_cons, hc, ↓reduceIte, List.map_nil, List.cons.injEq, and_true] at h
        rw [h]

/-- `_partial`, named exclusion `fw.name ≠ "_"`: every other name is separator-free, in all modes -/
theorem c10_separator_partial (cfg : Cfg) (fw : FW) (hpos : fw.positional = false) (hp : fw.pref = [])
    (hal : fw.aliases = []) (hg : cfg.gen = .flat) (hne : fw.name ≠ [])
    (hhead : fw.name.head? ≠ some '-') (hexcl : fw.name ≠ ['_']) :
    ['-', '-'] ∉ optionList cfg fw := by
  intro hmem
  rw [c10_exact cfg fw hpos] at hmem
  obtain ⟨src, hsrc, hrest⟩ := hmem
  have hsrc' : src = .flatName := by
    rcases (mem_sources _ _ _).mp hsrc with ⟨h, _⟩ | ⟨_, h⟩ | ⟨a, ha, _⟩
    · exact h
    · exact absurd hg h
    · rw [hal] at ha; cases ha
  subst hsrc'
  have hnd : fw.name ≠ ['-'] := by
    intro h; rw [h] at hhead; exact hhead rfl
  -- the body is the name, or its dashed spelling
  have hbody : body cfg fw .flatName = fw.name ∨ body cfg fw .flatName = dashify fw.name := by
    simp only [body, genSpell, hp, List.nil_append]
    split
    · exact Or.inr rfl
    · exact Or.inl rfl
  -- neither the body nor its dashed spelling is empty or a lone dash
  have hb0 : ∀ b : Str, (b = fw.name ∨ b = dashify fw.name) → b ≠ [] ∧ b ≠ ['-'] := by
    rintro b (rfl | rfl)
    · exact ⟨hne, hnd⟩
    · refine ⟨fun h => hne (dashify_eq_nil _ h), fun h => ?_⟩
      rcases dashify_eq_dash _ h with h' | h'
      · exact hexcl h'
      · exact hnd h'
  have key : ∀ (d b : Str), (d = ['-'] ∨ d = ['-', '-']) → b ≠ [] → b ≠ ['-'] → ['-', '-'] ≠ d ++ b := by
    rintro d b (rfl | rfl) h0 h1 h
    · simp only [List.cons_append, List.nil_append, List.cons.injEq, true_and] at h
      exact h1 h.symm
    · simp only [List.cons_append, List.nil_append, List.cons.injEq, true_and] at h
      exact h0 h.symm
  rcases hrest with ⟨d, hd, heq⟩ | ⟨_, _, heq⟩
  · have hd' : d = ['-'] ∨ d = ['-', '-'] := by
      simp only [dashesOf] at hd
      split at hd <;> simp at hd <;> tauto
    obtain ⟨h0, h1⟩ := hb0 _ hbody
    exact key d _ hd' h0 h1 heq
  · have hb2 : dashify (body cfg fw .flatName) = fw.name ∨
        dashify (body cfg fw .flatName) = dashify fw.name := by
      rcases hbody with h | h
      · rw [h]; exact Or.inr rfl
      · rw [h, dashify_idem]; exact Or.inr rfl
    obtain ⟨h0, h1⟩ := hb0 _ hb2
    exact key _ _ (dashFor_cases _) h0 h1 heq

/-- …and `--` is a DEAD spelling: the table of the one-field dataclass `_: int = 1` under
    UNDERSCORE_AND_DASH carries `--` among the field's option strings, yet `-- 7` does not set the
    field (argparse reads `--` as the separator; `7` is left over).  So the exclusion `o ≠ "--"` of
    `c10_spelling_sets_field` / `c10_flat_spelling_sets_field` cannot be dropped. -/
theorem c10_same_field_separator_witness :
    ∃ tbl, tableOf ⟨.both, .flat, .default⟩ "c".toList
        [{ name := "_".toList, ty := { inner := .sc (.base .int), optional := false },
           default := .value (.sc (.int 1)) }] = some tbl ∧
      (∃ a, tbl[1]? = some a ∧ ['-', '-'] ∈ a.opts) ∧
      runStrict [] tbl [0, 0] ["--".toList, "7".toList] = .exit 2 .unrecognized := by
  refine ⟨_, rfl, ⟨_, rfl, by decide +kernel⟩, by decide +kernel⟩


/-! ### non-vacuity of the new theorems: a concrete dataclass `a_b: int = 0 (alias -q); k: int = 5`
    registered at `c`, under UNDERSCORE_AND_DASH / FLAT -/

def demoCfg : Cfg := ⟨.both, .flat, .default⟩

def demoFs : List FieldSpec :=
  [ { name := "a_b".toList, ty := { inner := .sc (.base .int), optional := false },
      default := .value (.sc (.int 0)), aliases := ["-q".toList] },
    { name := "k".toList, ty := { inner := .sc (.base .int), optional := false },
      default := .value (.sc (.int 5)) } ]

def demoTbl : List Act :=
  [ helpAct,
    { opts := ["-q".toList, "--a_b".toList, "--a-b".toList], dest := "c.a_b".toList, kind := .store,
      nargs := .one, conv := .base .int, choices := none, required := false, default := some (.sc (.int 0)) },
    { opts := ["-k".toList, "--k".toList], dest := "c.k".toList, kind := .store,
      nargs := .one, conv := .base .int, choices := none, required := false, default := some (.sc (.int 5)) } ]

theorem demo_table : tableOf demoCfg "c".toList demoFs = some demoTbl := by decide +kernel

theorem demo_quiet (i : Nat) : QuietExcept demoTbl i := by
  intro p hp
  right
  simp only [demoTbl, List.zipIdx_cons, List.zipIdx_nil, List.mem_cons, List.not_mem_nil, or_false] at hp
  rcases hp with rfl | rfl | rfl <;> exact ⟨rfl, fun s h => by cases h⟩

theorem demo_spec (o : Str) :
    (Spec demoCfg (fwOf "c".toList demoFs[0]) o ∨ o ∈ negsOf demoCfg "c".toList demoFs[0]) ↔
      o ∈ ["--a_b".toList, "-q".toList, "--a-b".toList] := by
  have h1 : optionList demoCfg (fwOf "c".toList demoFs[0]) =
      ["--a_b".toList, "-q".toList, "--a-b".toList] := by decide
  have h2 : negsOf demoCfg "c".toList demoFs[0] = [] := by decide +kernel
  rw [← c10_exact demoCfg _ rfl, h1, h2]
  simp

theorem demo_spec1 (o : Str) :
    (Spec demoCfg (fwOf "c".toList demoFs[1]) o ∨ o ∈ negsOf demoCfg "c".toList demoFs[1]) ↔
      o ∈ ["-k".toList, "--k".toList] := by
  have h1 : optionList demoCfg (fwOf "c".toList demoFs[1]) = ["-k".toList, "--k".toList] := by decide
  have h2 : negsOf demoCfg "c".toList demoFs[1] = [] := by decide +kernel
  rw [← c10_exact demoCfg _ rfl, h1, h2]
  simp

/-- `c10_flat_no_other_spelling`: `--a.b 3 …` is rejected by that parser -/
example : ∀ ns ex cs', runStrict [] demoTbl [0, 0, 0] ["--k".toList, "1".toList, "--a.b".toList, "3".toList]
    ≠ .ok ns ex cs' := by
  intro ns ex cs'
  refine c10_flat_no_other_spelling [] demoCfg "c".toList demoFs demoTbl demo_table [0, 0, 0]
    ["--k".toList, "1".toList] ["3".toList] "a.b".toList (by decide) (by decide) (by decide) (by decide)
    (by decide) ?_ ns ex cs'
  intro f hf o ho
  simp only [demoFs, List.mem_cons, List.not_mem_nil, or_false] at hf
  rcases hf with rfl | rfl
  · have := (demo_spec o).mp ho
    simp only [List.mem_cons, List.not_mem_nil, or_false] at this
    rcases this with rfl | rfl | rfl <;> decide
  · have := (demo_spec1 o).mp ho
    simp only [List.mem_cons, List.not_mem_nil, or_false] at this
    rcases this with rfl | rfl <;> decide

/-- `c10_flat_no_other_spelling_eq`: so is `--A_B=3` -/
example : ∀ ns ex cs', runStrict [] demoTbl [0, 0, 0] ["--A_B=3".toList] ≠ .ok ns ex cs' := by
  intro ns ex cs'
  refine c10_flat_no_other_spelling_eq [] demoCfg "c".toList demoFs demoTbl demo_table [0, 0, 0]
    [] [] "A_B".toList "3".toList (by decide) (by decide) (by decide) (by decide) ?_ ns ex cs'
  intro f hf o ho
  simp only [demoFs, List.mem_cons, List.not_mem_nil, or_false] at hf
  rcases hf with rfl | rfl
  · have := (demo_spec o).mp ho
    simp only [List.mem_cons, List.not_mem_nil, or_false] at this
    rcases this with rfl | rfl | rfl <;> decide
  · have := (demo_spec1 o).mp ho
    simp only [List.mem_cons, List.not_mem_nil, or_false] at this
    rcases this with rfl | rfl <;> decide

theorem demo_aligned : C04.Aligned demoTbl [0, 0, 0] := C04.aligned_zeros demoTbl

/-- `c10_same_field`: `--a_b 3` and `--a-b=3` set `c.a_b`, and only it -/
example : runStrict [] demoTbl [0, 0, 0] ["--a_b".toList, "3".toList] =
      runStrict [] demoTbl [0, 0, 0] ["--a-b=3".toList] ∧
    ∃ ns, runStrict [] demoTbl [0, 0, 0] ["--a_b".toList, "3".toList] = .ok ns [] [0, 0, 0] ∧
      ns.lookup "c.a_b".toList = some (.sc (.int 3)) ∧
      ∀ d, d ≠ "c.a_b".toList → ns.lookup d = (initNs demoTbl).lookup d :=
  c10_same_field [] demoTbl [0, 0, 0] 1 demoTbl[1] "--a_b".toList "--a-b".toList "3".toList (.int 3)
    false true demo_aligned rfl rfl rfl (by intro bs h; cases h)
    (by decide) (by decide) ⟨_, rfl⟩ (by decide) (by decide) (by decide) ⟨_, rfl⟩ (by decide)
    (tokOk_of_nodash _ _ _ (by simp [NoDash])) ⟨by decide, by decide⟩
    (fun cs' => getValuesList_int _ _ rfl rfl _ _ _ 3 (by decide +kernel)) (demo_quiet 1)

/-- `c10_flat_spelling_sets_field`: every spelling of field 0 allowed by `Spec` — here the dashed
    variant `--a-b`, in the `=` form with a NEGATIVE value — stores at `c.a_b` -/
example : runStrict [] demoTbl [0, 0, 0] ["--a-b=-3".toList] =
    .ok (setKey (initNs demoTbl) "c.a_b".toList (.sc (.int (-3)))) [] [0, 0, 0] :=
  c10_flat_spelling_sets_field [] demoCfg "c".toList demoFs demoTbl demo_table [0, 0, 0] demo_aligned
    0 (by decide) _ rfl rfl rfl (by intro bs h; cases h) "--a-b".toList "-3".toList (.int (-3)) true
    ((demo_spec _).mpr (by decide) |>.resolve_right (by decide +kernel))
    (by decide) (fun j hj => (Nat.not_lt_zero j hj).elim) (by decide) ⟨by decide, by decide⟩
    (fun a ha cs' => by cases ha; exact getValuesList_int _ _ rfl rfl _ _ _ (-3) (by decide +kernel))
    (demo_quiet 1)

/-- `c10_optionStrings_iff` at work: the sorted, de-duplicated list of field 0 -/
example : optionStrings demoCfg (fwOf "c".toList demoFs[0]) =
    ["-q".toList, "--a_b".toList, "--a-b".toList] := by decide


/-! ### …discharged for the universe the check enumerates: dataclasses of `int` fields with defaults -/

/-- `name: int = d` -/
def IntField (f : FieldSpec) : Prop :=
  f.ty = { inner := .sc (.base .int), optional := false } ∧ ∃ d, f.default = .value (.sc (.int d))

theorem argOptions_int (f : FieldSpec) (h : IntField f) :
    ∃ d, argOptions f = some { nargs := .one, conv := .base .int, choices := none, required := false,
                               default := .sc (.int d), isBool := false } := by
  obtain ⟨hty, d, hd⟩ := h
  refine ⟨d, ?_⟩
  simp [argOptions, hty, hd, defaultVal, bconvOf]

theorem negsOf_int (cfg : Cfg) (dest : Str) (f : FieldSpec) (h : IntField f) : negsOf cfg dest f = [] := by
  obtain ⟨d, hao⟩ := argOptions_int f h
  simp [negsOf, hao]

theorem tableOf_int_quiet (cfg : Cfg) (dest : Str) (fs : List FieldSpec) (tbl : List Act)
    (htbl : tableOf cfg dest fs = some tbl) (hint : ∀ f ∈ fs, IntField f) (i : Nat) :
    QuietExcept tbl i := by
  rintro ⟨a, j⟩ hp
  right
  have ha : a ∈ tbl := by
    have := (List.mem_zipIdx hp).2.2
    rw [this]
    exact List.getElem_mem _
  rcases tableOf_mem cfg dest fs tbl htbl a ha with rfl | ⟨f, hf, hfa⟩
  · exact ⟨rfl, fun s h => by cases h⟩
  · obtain ⟨d, hao⟩ := argOptions_int f (hint f hf)
    obtain ⟨a', hfa', _, _, _, _, _, hreq, hdef⟩ := C02.fieldAct_store cfg dest f _ hao rfl
    rw [hfa] at hfa'
    cases hfa'
    exact ⟨hreq, fun s h => by rw [hdef] at h; cases h⟩

/-- **C10 (every accepted spelling sets the same field — dataclasses of int fields).** For ANY flat
    dataclass whose fields are `int`s with defaults (any number of fields, names, aliases), in any
    of the 18 mode combinations: every spelling `o` the rule allows for field `i` that the rule
    allows for no earlier field, is not `-h` / `--help` and is not the bare `--`, written `o tok`
    or `o=tok` with a decimal token, is accepted; the result is the default namespace with
    `dest.name := v` and nothing else changed.  (No hypothesis about the engine is left.) -/
theorem c10_int_dataclass_same_field (fenv : FEnv) (cfg : Cfg) (dest : Str) (fs : List FieldSpec)
    (tbl : List Act) (htbl : tableOf cfg dest fs = some tbl) (hint : ∀ f ∈ fs, IntField f)
    (cs : List Nat) (hal : C04.Aligned tbl cs) (i : Nat) (hi : i < fs.length) (o tok : Str) (v : Int)
    (eq : Bool)
    (hspec : Spec cfg (fwOf dest fs[i]) o)
    (hhelp : o ∉ helpAct.opts)
    (hclash : ∀ j (hj : j < i), ¬ Spec cfg (fwOf dest fs[j]) o)
    (hsep : o ≠ ['-', '-'])
    (htok : TokOk tbl o tok eq) (hparse : parseInt tok = .ok (.int v)) :
    runStrict fenv tbl cs (occ o tok eq) =
      .ok (setKey (initNs tbl) (dest ++ '.' :: fs[i].name) (.sc (.int v))) [] cs := by
  obtain ⟨d, hao⟩ := argOptions_int fs[i] (hint _ (List.getElem_mem _))
  refine c10_flat_spelling_sets_field fenv cfg dest fs tbl htbl cs hal i hi _ hao rfl rfl
    (by intro bs h; cases h) o tok (.int v) eq hspec hhelp ?_ hsep htok ?_
    (tableOf_int_quiet cfg dest fs tbl htbl hint (i + 1))
  · intro j hj hor
    have hjl : j < fs.length := by omega
    rw [negsOf_int cfg dest fs[j] (hint _ (List.getElem_mem _))] at hor
    simp only [List.not_mem_nil, or_false] at hor
    exact hclash j hj hor
  · intro a ha cs'
    obtain ⟨a0, hfa, hta⟩ := C02.tableOf_get cfg dest fs tbl htbl i hi
    rw [hta] at ha
    cases ha
    obtain ⟨a', hfa', _, _, _, hconv, hch, _, _⟩ := C02.fieldAct_store cfg dest fs[i] _ hao rfl
    rw [hfa] at hfa'
    cases hfa'
    exact getValuesList_int fenv _ hconv hch _ _ _ _ hparse

/-- **C10 (no other spelling — dataclasses of int fields)**: a long spelling that is a prefix of
    `--help` and of no spelling the rule allows for any field is never accepted (both forms) -/
theorem c10_int_dataclass_no_other_spelling (fenv : FEnv) (cfg : Cfg) (dest : Str) (fs : List FieldSpec)
    (tbl : List Act) (htbl : tableOf cfg dest fs = some tbl) (hint : ∀ f ∈ fs, IntField f) (cs : List Nat)
    (pre post : List Str) (r : Str) (hr : r ≠ [])
    (hdd : ∀ x ∈ pre, x ≠ ['-', '-'])
    (heq : splitEq ('-' :: '-' :: r) = none)
    (hsp : (('-' :: '-' :: r).contains ' ') = false)
    (hhelp : startsWith "--help".toList ('-' :: '-' :: r) = false)
    (hspec : ∀ f ∈ fs, ∀ o, Spec cfg (fwOf dest f) o → startsWith o ('-' :: '-' :: r) = false)
    (ns : List (Str × Val)) (ex : List Str) (cs' : List Nat) :
    runStrict fenv tbl cs (pre ++ ('-' :: '-' :: r) :: post) ≠ .ok ns ex cs' ∧
    ∀ v, (('-' :: '-' :: (r ++ '=' :: v)).contains ' ') = false →
      runStrict fenv tbl cs (pre ++ ('-' :: '-' :: (r ++ '=' :: v)) :: post) ≠ .ok ns ex cs' := by
  have hspec' : ∀ f ∈ fs, ∀ o, (Spec cfg (fwOf dest f) o ∨ o ∈ negsOf cfg dest f) →
      startsWith o ('-' :: '-' :: r) = false := by
    intro f hf o ho
    rw [negsOf_int cfg dest f (hint f hf)] at ho
    simp only [List.not_mem_nil, or_false] at ho
    exact hspec f hf o ho
  have hr' : '=' ∉ r := by
    intro hmem
    have : ∀ (a : Str), '=' ∈ a → splitEq a ≠ none := by
      intro a
      induction a with
      | nil => intro h; cases h
      | cons c cs ih =>
        intro h
        simp only [splitEq]
        split
        · simp
        · rename_i hc
          have : '=' ∈ cs := by
            rcases List.mem_cons.mp h with h | h
            · exact absurd h.symm hc
            · exact h
          cases hs : splitEq cs with
          | none => exact absurd hs (ih this)
          | some p => simp
    exact this _ (by simp [hmem]) heq
  exact ⟨c10_flat_no_other_spelling fenv cfg dest fs tbl htbl cs pre post r hr hdd heq hsp hhelp hspec' ns ex cs',
    fun v hv => c10_flat_no_other_spelling_eq fenv cfg dest fs tbl htbl cs pre post r v hr' hdd hv hhelp hspec'
      ns ex cs'⟩


theorem demo_int : ∀ f ∈ demoFs, IntField f := by
  intro f hf
  simp only [demoFs, List.mem_cons, List.not_mem_nil, or_false] at hf
  rcases hf with rfl | rfl <;> exact ⟨rfl, _, rfl⟩

/-- `c10_int_dataclass_no_other_spelling`: `--a.b 3` and `--a.b=3` are rejected by the demo parser -/
example : ∀ ns ex cs', runStrict [] demoTbl [0, 0, 0] ["--a.b".toList, "3".toList] ≠ .ok ns ex cs' ∧
    runStrict [] demoTbl [0, 0, 0] ["--a.b=3".toList, "3".toList] ≠ .ok ns ex cs' := by
  intro ns ex cs'
  have h := c10_int_dataclass_no_other_spelling [] demoCfg "c".toList demoFs demoTbl demo_table demo_int
    [0, 0, 0] [] ["3".toList] "a.b".toList (by decide) (by decide) (by decide) (by decide) (by decide)
    (by
      intro f hf o ho
      simp only [demoFs, List.mem_cons, List.not_mem_nil, or_false] at hf
      rcases hf with rfl | rfl
      · have := (demo_spec o).mp (Or.inl ho)
        simp only [List.mem_cons, List.not_mem_nil, or_false] at this
        rcases this with rfl | rfl | rfl <;> decide
      · have := (demo_spec1 o).mp (Or.inl ho)
        simp only [List.mem_cons, List.not_mem_nil, or_false] at this
        rcases this with rfl | rfl <;> decide) ns ex cs'
  exact ⟨h.1, h.2 "3".toList (by decide)⟩

/-- both spellings of `a_b` in the demo dataclass, via the discharged theorem, spaced and `=` form -/
example : runStrict [] demoTbl [0, 0, 0] ["--a-b".toList, "12".toList] =
      .ok (setKey (initNs demoTbl) "c.a_b".toList (.sc (.int 12))) [] [0, 0, 0] ∧
    runStrict [] demoTbl [0, 0, 0] ["--a_b=-12".toList] =
      .ok (setKey (initNs demoTbl) "c.a_b".toList (.sc (.int (-12)))) [] [0, 0, 0] :=
  ⟨c10_int_dataclass_same_field [] demoCfg "c".toList demoFs demoTbl demo_table demo_int
      [0, 0, 0] demo_aligned 0 (by decide) "--a-b".toList "12".toList 12 false
      ((demo_spec _).mpr (by decide) |>.resolve_right (by decide +kernel))
      (by decide) (fun j hj => (Nat.not_lt_zero j hj).elim) (by decide)
      (tokOk_of_nodash _ _ _ (by simp [NoDash])) (by decide +kernel),
   c10_int_dataclass_same_field [] demoCfg "c".toList demoFs demoTbl demo_table demo_int
      [0, 0, 0] demo_aligned 0 (by decide) "--a_b".toList "-12".toList (-12) true
      ((demo_spec _).mpr (by decide) |>.resolve_right (by decide +kernel))
      (by decide) (fun j hj => (Nat.not_lt_zero j hj).elim) (by decide)
      ⟨by decide, by decide⟩ (by decide +kernel)⟩

-- aliases, in every mode
example : "--al_pha".toList ∈ optionList ⟨.dashOnly, .nested, .withoutRoot⟩
    { name := "x".toList, pref := [], dest := "c.m.x".toList, aliases := ["--al_pha".toList, "-z".toList, "zz".toList] } :=
  c10_alias_2dash_kept _ _ rfl rfl "al_pha".toList (by decide)
example : "-z".toList ∈ optionList ⟨.dashOnly, .nested, .withoutRoot⟩
    { name := "x".toList, pref := [], dest := "c.m.x".toList, aliases := ["--al_pha".toList, "-z".toList, "zz".toList] } :=
  c10_alias_1dash_kept _ _ rfl rfl "z".toList (by decide) (by decide)
example : "--zz".toList ∈ optionList ⟨.dashOnly, .nested, .withoutRoot⟩
    { name := "x".toList, pref := [], dest := "c.m.x".toList, aliases := ["--al_pha".toList, "-z".toList, "zz".toList] } :=
  c10_alias_0dash _ _ rfl rfl "zz".toList (by decide) (by decide)
example : "--al-pha".toList ∈ optionList ⟨.both, .flat, .default⟩
    { name := "x".toList, pref := [], dest := "c.x".toList, aliases := ["--al_pha".toList] } :=
  c10_alias_both_variant_2dash _ _ _ rfl rfl "al_pha".toList (by decide) (by decide) (by decide)
example : "--y-y".toList ∈ optionList ⟨.both, .flat, .default⟩
    { name := "x".toList, pref := [], dest := "c.x".toList, aliases := ["y_y".toList] } :=
  c10_alias_both_variant_0dash _ _ _ rfl rfl "y_y".toList (by decide) (by decide) (by decide) (by decide)
example : "--v-w".toList ∈ optionList ⟨.both, .flat, .default⟩
    { name := "x".toList, pref := [], dest := "c.x".toList, aliases := ["-v_w".toList] } :=
  c10_alias_1dash_variant_actual _ _ _ rfl rfl "v_w".toList (by decide) (by decide) (by decide) (by decide)
example : ∃ decl, decl ∈ optionList ⟨.both, .flat, .default⟩
      { name := "x".toList, pref := [], dest := "c.x".toList, aliases := ["y_y".toList] } ∧
    dashify decl ∈ optionList ⟨.both, .flat, .default⟩
      { name := "x".toList, pref := [], dest := "c.x".toList, aliases := ["y_y".toList] } ∧
    (decl = "y_y".toList ∨ decl = '-' :: '-' :: "y_y".toList) :=
  c10_alias_variant_partial _ _ _ rfl rfl "y_y".toList (by decide) (by decide) (Or.inr ⟨by decide, by decide⟩)
example : ∃ a ∈ ["--al_pha".toList], "--al_pha".toList = (aliasPair [] a).1 ++ (aliasPair [] a).2 :=
  c10_dash_alias_kept .flat .default
    { name := "x_y".toList, pref := [], dest := "c.x_y".toList, aliases := ["--al_pha".toList] } rfl _
    (by decide) (by decide)

-- explicit lists
example : optionList ⟨.dashOnly, .flat, .default⟩
    { name := "a_b".toList, pref := [], dest := "c.a_b".toList, aliases := [] } = ["--a-b".toList] :=
  c10_dash_flat _ _ rfl (by decide) rfl
example : optionList ⟨.dashOnly, .nested, .withoutRoot⟩
    { name := "a_b".toList, pref := [], dest := "c.sub_cfg.a_b".toList, aliases := [] } = ["--sub-cfg.a-b".toList] := by
  rw [c10_dash_nested _ _ rfl (by decide) rfl]; decide
example : optionList ⟨.both, .flat, .default⟩
    { name := "a_b".toList, pref := [], dest := "c.a_b".toList, aliases := [] } = ["--a_b".toList, "--a-b".toList] :=
  c10_both_flat _ _ rfl rfl (by decide) rfl (by decide)
example : optionList ⟨.both, .flat, .default⟩
    { name := "alpha".toList, pref := [], dest := "c.alpha".toList, aliases := [] } = ["--alpha".toList] :=
  c10_both_flat_plain _ _ rfl rfl (by decide) rfl (by decide)
example : optionList ⟨.dashOnly, .flat, .default⟩
    { name := "n".toList, pref := [], dest := "c.n".toList, aliases := [] } = ["-n".toList, "--n".toList] :=
  c10_one_letter_flat _ _ _ 'n' rfl rfl rfl (by decide) rfl
example : "--sub_cfg.a_b".toList ∈ optionList ⟨.both, .both, .withoutRoot⟩
      { name := "a_b".toList, pref := [], dest := "c.sub_cfg.a_b".toList, aliases := [] } ∧
    "--sub-cfg.a-b".toList ∈ optionList ⟨.both, .both, .withoutRoot⟩
      { name := "a_b".toList, pref := [], dest := "c.sub_cfg.a_b".toList, aliases := [] } := by
  have := c10_both_path_spellings .both .withoutRoot
    { name := "a_b".toList, pref := [], dest := "c.sub_cfg.a_b".toList, aliases := [] } rfl (by decide)
    (by decide) (by decide)
  exact ⟨by decide, by decide⟩
example : "--a_b".toList ∈ optionList ⟨.both, .both, .default⟩
      { name := "a_b".toList, pref := [], dest := "c.a_b".toList, aliases := [] } ∧
    "--a-b".toList ∈ optionList ⟨.both, .both, .default⟩
      { name := "a_b".toList, pref := [], dest := "c.a_b".toList, aliases := [] } :=
  c10_both_name_spellings .both .default _ rfl rfl (by decide) (by decide)
example : ['-', '-'] ∉ optionList ⟨.both, .flat, .default⟩
    { name := "a_".toList, pref := [], dest := "c.a_".toList, aliases := [] } :=
  c10_separator_partial _ _ rfl rfl rfl rfl (by decide) (by decide) (by decide)
example : hasUnderscore "--a-b".toList = false :=
  c10_dash_option_no_underscore .flat .default
    { name := "a_b".toList, pref := [], dest := "c.a_b".toList, aliases := [] } rfl rfl _ (by decide)

/-! ### non-vacuity / concrete instances -/

example : optionList ⟨.both, .both, .withoutRoot⟩
    { name := "a_b".toList, pref := [], dest := "config.x.a_b".toList, aliases := ["-q".toList] } =
    ["--a_b".toList, "--x.a_b".toList, "-q".toList, "--a-b".toList, "--x.a-b".toList] := by decide

example : Spec ⟨.both, .flat, .default⟩
    { name := "a_b".toList, pref := [], dest := "c.a_b".toList, aliases := [] } "--a-b".toList :=
  ⟨.flatName, by decide, Or.inr ⟨rfl, by decide, by decide⟩⟩

end SpVerif.C10
