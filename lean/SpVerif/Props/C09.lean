/-
  C09 — plain argparse arguments behave as in argparse; the namespace stays clean.

  The argparse engine `E`, the exit behaviour `pre` of the subgroup pre-parser and the algebra of Python values `A`
  are PARAMETERS: every theorem below holds for every engine, every `pre` and every value algebra.  What the engine
  does on `userActs ++ spActs` versus on the user's actions plus stand-ins is argparse's own business and is settled
  differentially (harness/props/c09.py).

  Statements (about `SpVerif.Post.spParse` = `parse_known_args`, `spParseArgs` = `parse_args`, `postprocess` =
  `_postprocessing`):
    * decision             : full statement `DecisionFull`, refuted by `c09_decision_witness` (open finding
                             C09-help-after-bad-subgroup: the subgroup pre-parser exits first); `c09_exit_iff_partial`
                             under the named exclusion `pre argv = none`; `c09_pre_exit`; `c09_parse_args_exit_iff`
    * ACCEPT               : `c09_accept` — engine accepts + `WellFormed` + total constructors ⇒ a namespace is
                             returned with the engine's leftovers (no AttributeError / AssertionError / KeyError /
                             RuntimeError, nothing outside the modelled fragment); `c09_postprocess_total`
    * leftovers            : `c09_ok_inv`, `c09_parse_args_ok`
    * frame                : `c09_postprocess_frame`, `c09_frame`, `c09_frame_total`
    * key set              : `c09_keys_sub`, `c09_user_keys_kept`, `c09_roots_present`, `c09_keys_exact`
    * no dotted key        : `c09_no_dotted`
    * added errors         : `c09_no_runtimeError`, `c09_collision_witness`, `c09_defaults_overwritten_witness`
    * the `init=False` branch of the code (parsing.py:964) would leak a dotted key: `c09_init_false_leaks_witness`
      (no real wrapper has such a field: dataclass_wrapper.py:77), hence the named hypothesis `AllInit`.
    * other open finding   : `c09_second_postprocess_witness` (parse_intermixed_args runs the post-processing twice)
    * set_defaults routing : `c09_set_defaults`, `c09_set_defaults_full` (full since fix a66f307)
    * `default=argparse.SUPPRESS` registrations are the named exclusion `NoSuppress` of the "one attribute per
      destination" clause: `c09_suppress_witness`.
-/
import SpVerif.Lemmas.PostTotal
namespace SpVerif.C09
open SpVerif SpVerif.Post

variable {V : Type}

/-! ### decision -/

/-- the full accept/reject statement: simple-parsing exits with a status exactly when argparse does -/
def DecisionFull : Prop :=
  ∀ (pre : Pre) (E : Engine PVal) (ps : PState PVal) (ua sa : Table) (argv : Argv) (c : Nat),
    spParse palg pre E ps ua sa argv = .exit c ↔ E (ua ++ sa) argv = .exit c

/-- open finding C09-help-after-bad-subgroup (`-h --model zz`): the subgroup pre-parser of `_resolve_subgroups` exits
    with status 2 where argparse (the engine) prints the help and exits 0 -/
theorem c09_decision_witness : ¬ DecisionFull := by
  intro h
  have := (h (fun _ => some 2) (fun _ _ => .exit 0) ⟨[], [], [], false⟩ [] [] [] 0).mpr rfl
  simp [spParse] at this

/-- the pre-parser's exit is simple-parsing's exit -/
theorem c09_pre_exit (A : Alg V) (pre : Pre) (E : Engine V) (ps : PState V) (ua sa : Table) (argv : Argv) (c : Nat)
    (h : pre argv = some c) : spParse A pre E ps ua sa argv = .exit c := by
  simp [spParse, h]

/-- `_partial`: when the subgroup pre-parser does not exit (named exclusion `pre argv = none`; always the case
    without subgroup fields), simple-parsing exits with a status exactly when argparse does, with that status -/
theorem c09_exit_iff_partial (A : Alg V) (pre : Pre) (E : Engine V) (ps : PState V) (ua sa : Table) (argv : Argv)
    (c : Nat) (hpre : pre argv = none) :
    spParse A pre E ps ua sa argv = .exit c ↔ E (ua ++ sa) argv = .exit c := by
  simp only [spParse, hpre]
  constructor
  · intro h
    split at h
    · rename_i c' he; simp only [POut.exit.injEq] at h; rw [he, h]
    · exact absurd h (by simp)
    · split at h <;> exact absurd h (by simp)
  · intro h; rw [h]

example : ∃ (pre : Pre) (argv : Argv), pre argv = none := ⟨fun _ => none, [['-', 'h']], rfl⟩

theorem c09_ok_inv (A : Alg V) (pre : Pre) (E : Engine V) (ps : PState V) (ua sa : Table) (argv rest : Argv)
    (n : Nsp V) (h : spParse A pre E ps ua sa argv = .ok n rest) :
    pre argv = none ∧ ∃ raw, E (ua ++ sa) argv = .ok raw rest ∧ postprocess A ps raw = .ok n := by
  simp only [spParse] at h
  split at h
  · exact absurd h (by simp)
  · rename_i hpre
    refine ⟨hpre, ?_⟩
    split at h
    · exact absurd h (by simp)
    · exact absurd h (by simp)
    · rename_i raw rest' he
      split at h
      · rename_i n' hp
        simp only [POut.ok.injEq] at h
        obtain ⟨rfl, rfl⟩ := h
        exact ⟨raw, he, hp⟩
      · exact absurd h (by simp)
      · exact absurd h (by simp)

/-- `_postprocessing` returns a namespace on every well-formed input -/
theorem c09_postprocess_total (A : Alg V) (hA : ConstructTotal A) (ps : PState V) (raw : Dict V)
    (h : WellFormed ps raw) : ∃ n, postprocess A ps raw = .ok n :=
  postprocess_total A hA ps raw h

/-- ACCEPT: when the pre-parser does not exit and argparse accepts with `(raw, rest)` on a well-formed input,
    simple-parsing returns a namespace with the same leftovers -/
theorem c09_accept (A : Alg V) (hA : ConstructTotal A) (pre : Pre) (E : Engine V) (ps : PState V) (ua sa : Table)
    (argv rest : Argv) (raw : Dict V) (hpre : pre argv = none) (hE : E (ua ++ sa) argv = .ok raw rest)
    (hwf : WellFormed ps raw) : ∃ n, spParse A pre E ps ua sa argv = .ok n rest := by
  obtain ⟨n, hn⟩ := postprocess_total A hA ps raw hwf
  exact ⟨n, by simp [spParse, hpre, hE, hn]⟩

/-- the general form: an accepted command line is never turned into an argparse-style exit -/
theorem c09_accept_no_exit (A : Alg V) (pre : Pre) (E : Engine V) (ps : PState V) (ua sa : Table) (argv rest : Argv)
    (raw : Dict V) (hpre : pre argv = none) (hE : E (ua ++ sa) argv = .ok raw rest) :
    (∃ n, spParse A pre E ps ua sa argv = .ok n rest) ∨ (∃ e, spParse A pre E ps ua sa argv = .raise e) ∨
    (∃ y, spParse A pre E ps ua sa argv = .unmodelled y) := by
  simp only [spParse, hpre, hE]
  split
  · exact Or.inl ⟨_, rfl⟩
  · exact Or.inr (Or.inl ⟨_, rfl⟩)
  · exact Or.inr (Or.inr ⟨_, rfl⟩)

/-- `parse_args` accepts exactly when `parse_known_args` accepts with no leftovers -/
theorem c09_parse_args_ok (A : Alg V) (pre : Pre) (E : Engine V) (ps : PState V) (ua sa : Table) (argv rest : Argv)
    (n : Nsp V) :
    spParseArgs A pre E ps ua sa argv = .ok n rest ↔ (rest = [] ∧ spParse A pre E ps ua sa argv = .ok n []) := by
  simp only [spParseArgs]
  constructor
  · intro h
    split at h
    · rename_i n' rest' hp
      split at h
      · rename_i he
        simp only [POut.ok.injEq] at h
        obtain ⟨rfl, rfl⟩ := h
        have : rest' = [] := by simpa using he
        subst this
        exact ⟨rfl, hp⟩
      · exact absurd h (by simp)
    · rename_i hne
      exact absurd h (by intro e; exact hne n rest e)
  · rintro ⟨rfl, h⟩
    rw [h]; simp

/-- the decision of the `parse_args` API: it exits exactly when `parse_known_args` exits (same status) or returns
    leftovers (status 2) -/
theorem c09_parse_args_exit_iff (A : Alg V) (pre : Pre) (E : Engine V) (ps : PState V) (ua sa : Table) (argv : Argv)
    (c : Nat) :
    spParseArgs A pre E ps ua sa argv = .exit c ↔
      (spParse A pre E ps ua sa argv = .exit c ∨
       (c = 2 ∧ ∃ n r, spParse A pre E ps ua sa argv = .ok n r ∧ r ≠ [])) := by
  simp only [spParseArgs]
  constructor
  · intro h
    split at h
    · rename_i n r hp
      split at h
      · exact absurd h (by simp)
      · rename_i hr
        simp only [POut.exit.injEq] at h
        exact Or.inr ⟨h.symm, n, r, hp, by simpa using hr⟩
    · exact Or.inl h
  · rintro (h | ⟨rfl, n, r, h, hr⟩)
    · rw [h]
    · rw [h]
      have : r.isEmpty = false := by cases r with | nil => exact absurd rfl hr | cons _ _ => rfl
      simp [this]

/-! ### frame: entries simple-parsing does not own are returned untouched -/

theorem mem_rootDests_sortDesc (ws : List (DcW V)) (k : Str) : k ∈ rootDests (sortDesc ws) ↔ k ∈ rootDests ws :=
  (rootDests_sortDesc_perm ws).mem_iff

/-- the three phases of `_postprocessing`, exposed -/
theorem postprocess_phases (A : Alg V) (ps : PState V) (raw : Dict V) (n : Nsp V)
    (h : postprocess A ps raw = .ok n) :
    ∃ ns1 ns2 c c', removeSubgroups ps.wrappers raw = .ok (ns1, n.subgroups) ∧
      fillWrappers A ps.wrappers (ns1, initCArgs ps) = .ok (ns2, c) ∧
      instWrappers A ps.defaultsKeys (sortDesc ps.wrappers) (ns2, c) = .ok (n.attrs, c') := by
  simp only [postprocess] at h
  split at h
  · exact absurd h (by simp)
  · exact absurd h (by simp)
  · rename_i ns1 sub h1
    split at h
    · exact absurd h (by simp)
    · exact absurd h (by simp)
    · rename_i ns2 c h2
      split at h
      · exact absurd h (by simp)
      · exact absurd h (by simp)
      · rename_i ns3 h3
        simp only [Out.ok.injEq] at h; subst h
        simp only [fill] at h2
        split at h2
        · exact absurd h2 (by simp)
        · simp only [instantiate] at h3
          split at h3
          · exact absurd h3 (by simp)
          · split at h3
            · rename_i ns' c' h4
              split at h3
              · simp only [Out.ok.injEq] at h3; subst h3
                exact ⟨ns1, ns2, c, c', h1, h2, h4⟩
              · exact absurd h3 (by simp)
            · exact absurd h3 (by simp)
            · exact absurd h3 (by simp)

theorem c09_postprocess_frame (A : Alg V) (ps : PState V) (raw : Dict V) (n : Nsp V)
    (h : postprocess A ps raw = .ok n) (k : Str)
    (hf : k ∉ fieldDests ps.wrappers) (hr : k ∉ rootDests ps.wrappers) :
    dget n.attrs k = dget raw k := by
  obtain ⟨ns1, ns2, c, c', h1, h2, h3⟩ := postprocess_phases A ps raw n h
  have a := (removeSubgroups_spec _ _ _ _ h1).1 k (fun e => hf (subgroupDests_sub _ e))
  have b := (fillWrappers_spec A _ _ _ h2).1 k hf
  have d := (instWrappers_spec A _ _ _ _ h3).1 k (fun e => hr ((mem_rootDests_sortDesc _ _).mp e))
  simp only at a b d
  rw [d, b, a]

/-! ### the key set of the returned namespace -/

theorem c09_keys_sub (A : Alg V) (ps : PState V) (raw : Dict V) (n : Nsp V)
    (h : postprocess A ps raw = .ok n) (hi : AllInit ps) (k : Str) (hk : k ∈ dkeys n.attrs) :
    (k ∈ dkeys raw ∧ k ∉ fieldDests ps.wrappers) ∨ k ∈ rootDests ps.wrappers := by
  obtain ⟨ns1, ns2, c, c', h1, h2, h3⟩ := postprocess_phases A ps raw n h
  rcases (instWrappers_spec A _ _ _ _ h3).2.1 k hk with e | e
  · left
    obtain ⟨_, b2, b3⟩ := fillWrappers_spec A _ _ _ h2
    have k1 := b2 k e
    obtain ⟨kr, ks⟩ := ((removeSubgroups_spec _ _ _ _ h1).2 k).mp k1
    refine ⟨kr, fun hfd => ?_⟩
    obtain ⟨f, hf, rfl⟩ := List.mem_map.mp hfd
    by_cases hs : f.isSubgroup = true
    · exact ks (mem_subgroupDests _ hf hs)
    · exact b3 f hf (by simpa using hs) (hi f hf) e
  · exact Or.inr ((mem_rootDests_sortDesc _ _).mp e)

/-- an entry that is not a dataclass-field destination is never removed -/
theorem c09_user_keys_kept (A : Alg V) (ps : PState V) (raw : Dict V) (n : Nsp V)
    (h : postprocess A ps raw = .ok n) (k : Str) (hk : k ∈ dkeys raw) (hf : k ∉ fieldDests ps.wrappers) :
    k ∈ dkeys n.attrs := by
  obtain ⟨ns1, ns2, c, c', h1, h2, h3⟩ := postprocess_phases A ps raw n h
  have k1 : k ∈ dkeys ns1 := ((removeSubgroups_spec _ _ _ _ h1).2 k).mpr ⟨hk, fun e => hf (subgroupDests_sub _ e)⟩
  -- `fill` keeps it: its value is unchanged, hence it is still bound
  have b := (fillWrappers_spec A _ _ _ h2).1 k hf
  have k2 : k ∈ dkeys ns2 := by
    have : ∀ (d : Dict V), k ∈ dkeys d ↔ dget d k ≠ none := by
      intro d
      induction d with
      | nil => simp [dkeys, dget]
      | cons kv r ih =>
        obtain ⟨a, v⟩ := kv
        simp only [dkeys, List.map_cons, List.mem_cons, dget]
        by_cases ha : a = k
        · simp [ha]
        · simp only [ha, ↓reduceIte]
          have ih' : k ∈ dkeys r ↔ dget r k ≠ none := ih
          simp only [dkeys] at ih'
          rw [← ih']
          constructor
          · rintro (e | e)
            · exact absurd e.symm ha
            · exact e
          · exact Or.inr
    simp only at b
    rw [this, b, ← this]; exact k1
  exact (instWrappers_spec A _ _ _ _ h3).2.2.1 k k2

/-- one attribute per `add_arguments` destination -/
theorem c09_roots_present (A : Alg V) (ps : PState V) (raw : Dict V) (n : Nsp V)
    (h : postprocess A ps raw = .ok n) (hs : NoSuppress ps) (d : Str) (hd : d ∈ rootDests ps.wrappers) :
    d ∈ dkeys n.attrs := by
  obtain ⟨ns1, ns2, c, c', h1, h2, h3⟩ := postprocess_phases A ps raw n h
  obtain ⟨w, hw, hp, hdw⟩ := mem_rootDests.mp hd
  exact (instWrappers_spec A _ _ _ _ h3).2.2.2 w ((sortDesc_perm _).mem_iff.mpr hw) hp (hs w hw) d hdw

/-- exactly: the entries argparse produced outside the dataclass options, plus the `add_arguments` destinations -/
theorem c09_keys_exact (A : Alg V) (ps : PState V) (raw : Dict V) (n : Nsp V)
    (h : postprocess A ps raw = .ok n) (hi : AllInit ps) (hs : NoSuppress ps) (k : Str) :
    k ∈ dkeys n.attrs ↔ (k ∈ dkeys raw ∧ k ∉ fieldDests ps.wrappers) ∨ k ∈ rootDests ps.wrappers :=
  ⟨c09_keys_sub A ps raw n h hi k, fun hk => hk.elim (fun e => c09_user_keys_kept A ps raw n h k e.1 e.2)
    (c09_roots_present A ps raw n h hs k)⟩

/-- `subgroups` appears exactly when the forest has a subgroup field -/
theorem c09_subgroups_iff (A : Alg V) (ps : PState V) (raw : Dict V) (n : Nsp V)
    (h : postprocess A ps raw = .ok n) : n.subgroups.isSome ↔ subgroupDests ps.wrappers ≠ [] := by
  obtain ⟨ns1, ns2, c, c', h1, _, _⟩ := postprocess_phases A ps raw n h
  simp only [removeSubgroups] at h1
  split at h1
  · rename_i he
    simp only [Out.ok.injEq, Prod.mk.injEq] at h1
    rw [← h1.2, he]; simp
  · rename_i d ds he
    split at h1
    · exact absurd h1 (by simp)
    · split at h1
      · exact absurd h1 (by simp)
      · split at h1
        · simp only [Out.ok.injEq, Prod.mk.injEq] at h1
          rw [← h1.2, he]; simp
        · exact absurd h1 (by simp)
        · exact absurd h1 (by simp)

/-! ### no dotted intermediate destination leaks -/

theorem c09_no_dotted (A : Alg V) (ps : PState V) (raw : Dict V) (n : Nsp V)
    (h : postprocess A ps raw = .ok n) (hi : AllInit ps)
    (huser : ∀ k ∈ dkeys raw, k ∉ fieldDests ps.wrappers → dotted k = false)
    (hroot : ∀ d ∈ rootDests ps.wrappers, dotted d = false) :
    ∀ k ∈ n.keys, dotted k = false := by
  intro k hk
  simp only [Nsp.keys, List.mem_append] at hk
  rcases hk with hk | hk
  · rcases c09_keys_sub A ps raw n h hi k hk with ⟨a, b⟩ | a
    · exact huser k a b
    · exact hroot k a
  · split at hk
    · simp only [List.mem_singleton] at hk
      subst hk; decide
    · exact absurd hk (by simp)

/-! ### the errors simple-parsing adds after an accepted parse -/

/-- without a collision (no `add_arguments` destination is already an attribute, destinations pairwise
    distinct) the post-processing never raises the namespace-collision `RuntimeError` -/
theorem c09_no_runtimeError (A : Alg V) (ps : PState V) (raw : Dict V)
    (hraw : ∀ d ∈ rootDests ps.wrappers, d ∉ dkeys raw) (hnd : (rootDests ps.wrappers).Nodup) :
    postprocess A ps raw ≠ .raise .runtimeError := by
  intro h
  simp only [postprocess] at h
  split at h
  · rename_i e h1
    simp only [Out.raise.injEq] at h; subst h
    simp only [removeSubgroups] at h1
    split at h1
    · exact absurd h1 (by simp)
    · split at h1
      · exact absurd h1 (by simp)
      · split at h1
        · exact absurd h1 (by simp)
        · split at h1
          · exact absurd h1 (by simp)
          · rename_i e hm
            simp only [Out.raise.injEq] at h1; subst h1
            -- `moveSubgroups` only raises AttributeError
            have : ∀ (ds : List Str) (ns sub : Dict V), moveSubgroups ds ns sub ≠ .raise .runtimeError := by
              intro ds
              induction ds with
              | nil => intro ns sub; simp [moveSubgroups]
              | cons d ds ih =>
                intro ns sub
                simp only [moveSubgroups]
                split
                · simp
                · exact ih _ _
            exact this _ _ _ hm
          · exact absurd h1 (by simp)
  · exact absurd h (by simp)
  · rename_i ns1 sub h1
    split at h
    · rename_i e h2
      simp only [Out.raise.injEq] at h; subst h
      simp only [fill] at h2
      split at h2
      · exact absurd h2 (by simp)
      · -- `fillWrappers` never raises
        have hfc : ∀ (f : FieldW V) (v : V) (c : CArgs V) (e : Exc), fieldCall A f v c ≠ .raise e := by
          intro f v c e
          simp only [fieldCall]
          split
          · simp
          · split <;> simp
          · simp
        have hf : ∀ (s : Bool) (f : FieldW V) (st : Dict V × CArgs V) (e : Exc), fillField A s f st ≠ .raise e := by
          intro s f st e
          simp only [fillField]
          split
          · simp
          · split
            · simp
            · split
              · simp
              · split
                · simp
                · rename_i e' hh; exact absurd hh (hfc _ _ _ _)
                · simp
        have hfs : ∀ (s : Bool) (fs : List (FieldW V)) (st : Dict V × CArgs V) (e : Exc),
            fillFields A s fs st ≠ .raise e := by
          intro s fs
          induction fs with
          | nil => intro st e; simp [fillFields]
          | cons f fs ih =>
            intro st e
            simp only [fillFields]
            split
            · exact ih _ _
            · rename_i e' hh; exact absurd hh (hf _ _ _ _)
            · simp
        have hws : ∀ (ws : List (DcW V)) (st : Dict V × CArgs V) (e : Exc), fillWrappers A ws st ≠ .raise e := by
          intro ws
          induction ws with
          | nil => intro st e; simp [fillWrappers]
          | cons w ws ih =>
            intro st e
            simp only [fillWrappers]
            split
            · exact ih _ _
            · rename_i e' hh; exact absurd hh (hfs _ _ _ _)
            · simp
        exact hws _ _ _ h2
    · exact absurd h (by simp)
    · rename_i ns2 c h2
      split at h
      · rename_i e h3
        simp only [Out.raise.injEq] at h; subst h
        simp only [fill] at h2
        split at h2
        · exact absurd h2 (by simp)
        · simp only [instantiate] at h3
          split at h3
          · exact absurd h3 (by simp)
          · split at h3
            · split at h3 <;> exact absurd h3 (by simp)
            · rename_i e h4
              simp only [Out.raise.injEq] at h3; subst h3
              refine instWrappers_noRuntimeError A ps.defaultsKeys (sortDesc ps.wrappers) (ns2, c) ?_ ?_ h4
              · intro d hd hm
                have hd' := (mem_rootDests_sortDesc _ _).mp hd
                have k1 := (fillWrappers_spec A _ _ _ h2).2.1 d hm
                exact hraw d hd' (((removeSubgroups_spec _ _ _ _ h1).2 d).mp k1).1
              · exact (rootDests_sortDesc_perm _).nodup_iff.mpr hnd
            · exact absurd h3 (by simp)
      · exact absurd h (by simp)
      · exact absurd h (by simp)

/-! ### the central statement -/

/-- For EVERY engine that only writes the destinations of its table (and the parser-level defaults), with the
    user's destinations disjoint from simple-parsing's (`FrameHyps`, decidable — the driver evaluates it on every
    accepted real run): if argparse accepts with `(raw, rest)`, the collision error cannot occur, and whenever
    simple-parsing returns a namespace
      (1) it returns the same leftovers,
      (2) every user entry and every parser-level default is exactly argparse's (present or absent),
      (3) every attribute is a user destination, a parser-level default or an `add_arguments` destination,
      (4) every attribute argparse produced outside the dataclass options is still there,
      (5) without `default=SUPPRESS` registrations every `add_arguments` destination is an attribute,
      (6) no attribute name — `subgroups` included — contains a dot, provided the user's own destinations, the
          parser-level defaults and the `add_arguments` destinations contain none. -/
theorem c09_frame (A : Alg V) (pre : Pre) (E : Engine V) (ps : PState V) (ua sa : Table) (argv rest : Argv)
    (raw : Dict V) (hE : E (ua ++ sa) argv = .ok raw rest) (hyp : FrameHyps ps ua sa raw) :
    spParse A pre E ps ua sa argv ≠ .raise .runtimeError ∧
    ∀ n rest', spParse A pre E ps ua sa argv = .ok n rest' →
      rest' = rest ∧
      (∀ a ∈ ua, dget n.attrs a.dest = dget raw a.dest) ∧
      (∀ k ∈ ps.defaultsKeys, dget n.attrs k = dget raw k) ∧
      (∀ k ∈ dkeys n.attrs, k ∈ ua.map (·.dest) ∨ k ∈ ps.defaultsKeys ∨ k ∈ rootDests ps.wrappers) ∧
      (∀ k ∈ dkeys raw, k ∉ fieldDests ps.wrappers → k ∈ dkeys n.attrs) ∧
      (NoSuppress ps → ∀ d ∈ rootDests ps.wrappers, d ∈ dkeys n.attrs) ∧
      ((∀ a ∈ ua, dotted a.dest = false) → (∀ k ∈ ps.defaultsKeys, dotted k = false) →
        (∀ d ∈ rootDests ps.wrappers, dotted d = false) → ∀ k ∈ n.keys, dotted k = false) := by
  obtain ⟨hW, hsp, hU, hD, hRF, hi, hnd⟩ := hyp
  have hrootraw : ∀ d ∈ rootDests ps.wrappers, d ∉ dkeys raw := by
    intro d hd hm
    rcases hW d hm with e | e
    · simp only [List.map_append, List.mem_append, List.mem_map] at e
      rcases e with ⟨a, ha, rfl⟩ | ⟨a, ha, rfl⟩
      · exact (hU a ha).2 hd
      · exact hRF _ hd (hsp a ha)
    · exact (hD d e).2 hd
  constructor
  · intro h
    simp only [spParse] at h
    split at h
    · exact absurd h (by simp)
    · simp only [hE] at h
      split at h
      · exact absurd h (by simp)
      · rename_i e hp
        simp only [POut.raise.injEq] at h; subst h
        exact c09_no_runtimeError A ps raw hrootraw hnd hp
      · exact absurd h (by simp)
  · intro n rest' h
    obtain ⟨_, raw', he, hp⟩ := c09_ok_inv A pre E ps ua sa argv rest' n h
    rw [hE] at he
    simp only [EOut.ok.injEq] at he
    obtain ⟨rfl, rfl⟩ := he
    have hkeys : ∀ k ∈ dkeys n.attrs, k ∈ ua.map (·.dest) ∨ k ∈ ps.defaultsKeys ∨ k ∈ rootDests ps.wrappers := by
      intro k hk
      rcases c09_keys_sub A ps _ n hp hi k hk with ⟨a, b⟩ | a
      · rcases hW k a with e | e
        · simp only [List.map_append, List.mem_append] at e
          rcases e with e | e
          · exact Or.inl e
          · obtain ⟨x, hx, rfl⟩ := List.mem_map.mp e
            exact absurd (hsp x hx) b
        · exact Or.inr (Or.inl e)
      · exact Or.inr (Or.inr a)
    refine ⟨rfl, fun a ha => c09_postprocess_frame A ps _ n hp _ (hU a ha).1 (hU a ha).2,
      fun k hk => c09_postprocess_frame A ps _ n hp _ (hD k hk).1 (hD k hk).2, hkeys,
      fun k hk hf => c09_user_keys_kept A ps _ n hp k hk hf,
      fun hs d hd => c09_roots_present A ps _ n hp hs d hd, fun du dd dr k hk => ?_⟩
    simp only [Nsp.keys, List.mem_append] at hk
    rcases hk with hk | hk
    · rcases hkeys k hk with e | e | e
      · obtain ⟨a, ha, rfl⟩ := List.mem_map.mp e
        exact du a ha
      · exact dd k e
      · exact dr k e
    · split at hk
      · simp only [List.mem_singleton] at hk
        subst hk; decide
      · exact absurd hk (by simp)

/-- frame + ACCEPT: on a well-formed input the namespace of `c09_frame` exists -/
theorem c09_frame_total (A : Alg V) (hA : ConstructTotal A) (pre : Pre) (E : Engine V) (ps : PState V)
    (ua sa : Table) (argv rest : Argv) (raw : Dict V) (hpre : pre argv = none)
    (hE : E (ua ++ sa) argv = .ok raw rest) (hyp : FrameHyps ps ua sa raw) (hwf : WellFormed ps raw) :
    ∃ n, spParse A pre E ps ua sa argv = .ok n rest ∧
      (∀ a ∈ ua, dget n.attrs a.dest = dget raw a.dest) ∧
      (∀ k ∈ dkeys n.attrs, k ∈ ua.map (·.dest) ∨ k ∈ ps.defaultsKeys ∨ k ∈ rootDests ps.wrappers) ∧
      (NoSuppress ps → ∀ d ∈ rootDests ps.wrappers, d ∈ dkeys n.attrs) := by
  obtain ⟨n, hn⟩ := c09_accept A hA pre E ps ua sa argv rest raw hpre hE hwf
  obtain ⟨_, h2, _, h4, _, h6, _⟩ := (c09_frame A pre E ps ua sa argv rest raw hE hyp).2 n rest hn
  exact ⟨n, hn, h2, h4, h6⟩


/-! ### concrete inputs: the hypotheses are satisfiable, the exclusions are necessary -/

section Examples

private def sCfg : Str := ['c', 'f', 'g']
private def sCfgX : Str := ['c', 'f', 'g', '.', 'x']
private def sCfgInY : Str := ['c', 'f', 'g', '.', 'i', 'n', '.', 'y']
private def sCfgIn : Str := ['c', 'f', 'g', '.', 'i', 'n']
private def sFoo : Str := ['f', 'o', 'o']
private def one : PVal := .atom ['1']
private def two : PVal := .atom ['2']

/-- `add_arguments(Top, "cfg")` with `Top(x: int, in: Inner)`, `Inner(y: int)` -/
private def wTop (init : Bool) : DcW PVal :=
  { dest := sCfg, dests := [sCfg], level := 0, hasParent := false, suppress := false, optNone := false, ctor := ['T'],
    fields := [{ name := ['x'], dest := sCfgX, dests := [sCfgX], isSubgroup := false, init := init, dflt := one, conv := .id }] }
private def wIn : DcW PVal :=
  { dest := sCfgIn, dests := [sCfgIn], level := 1, hasParent := true, suppress := false, optNone := false, ctor := ['I'],
    fields := [{ name := ['y'], dest := sCfgInY, dests := [sCfgInY], isSubgroup := false, init := true, dflt := two, conv := .id }] }
private def psEx (init : Bool) (dk : List Str) : PState PVal :=
  { wrappers := [wTop init, wIn], cargs0 := [], defaultsKeys := dk, alwaysMerge := false }

/-- what argparse hands over for `--foo 1 --x 2`: the user's `foo`, and the two dotted field destinations -/
private def rawEx : Dict PVal := [(sFoo, one), (sCfgX, two), (sCfgInY, two)]

private def nsEx : Nsp PVal :=
  { attrs := [(sFoo, one), (sCfg, .inst ['T'] [(['x'], two), (['i', 'n'], .inst ['I'] [(['y'], two)])])], subgroups := none }

/-- the model on a nested forest: `foo` kept, both dotted keys consumed, the instance built bottom-up -/
example : postprocess palg (psEx true []) rawEx = .ok nsEx := by rfl

/-! a forest with a subgroup field, a nested class, the chosen subgroup's wrapper and a parser-level default `ex` -/

private def sEx : Str := ['e', 'x']
private def sCfgM : Str := ['c', 'f', 'g', '.', 'm']
private def sCfgMP : Str := ['c', 'f', 'g', '.', 'm', '.', 'p']
private def keyA : PVal := .atom ['a']

private def wTopS : DcW PVal :=
  { dest := sCfg, dests := [sCfg], level := 0, hasParent := false, suppress := false, optNone := false, ctor := ['T'],
    fields := [{ name := ['x'], dest := sCfgX, dests := [sCfgX], isSubgroup := false, init := true, dflt := one, conv := .id },
               { name := ['m'], dest := sCfgM, dests := [sCfgM], isSubgroup := true, init := true, dflt := keyA, conv := .id }] }
private def wSub : DcW PVal :=
  { dest := sCfgM, dests := [sCfgM], level := 1, hasParent := true, suppress := false, optNone := false, ctor := ['S'],
    fields := [{ name := ['p'], dest := sCfgMP, dests := [sCfgMP], isSubgroup := false, init := true, dflt := one, conv := .id }] }
private def psSub : PState PVal :=
  { wrappers := [wTopS, wIn, wSub], cargs0 := [], defaultsKeys := [sEx], alwaysMerge := false }

/-- raw namespace of `--foo 1 --x 2` with `set_defaults(ex=1)`: the subgroup choice first (written by the pre-parser) -/
private def rawSub : Dict PVal :=
  [(sCfgM, keyA), (sFoo, one), (sEx, one), (sCfgX, two), (sCfgInY, two), (sCfgMP, one)]

private def nsSub : Nsp PVal :=
  { attrs := [(sFoo, one), (sEx, one),
              (sCfg, .inst ['T'] [(['x'], two), (['i', 'n'], .inst ['I'] [(['y'], two)]), (['m'], .inst ['S'] [(['p'], one)])])],
    subgroups := some [(sCfgM, keyA)] }

private def uaSub : Table := [{ dest := sFoo }]
private def saSub : Table := [{ dest := sCfgM }, { dest := sCfgX }, { dest := sCfgInY }, { dest := sCfgMP }]

example : postprocess palg psSub rawSub = .ok nsSub := by rfl

theorem constructTotal_palg : ConstructTotal palg := fun _ _ => by simp [palg]

/-- the hypotheses of `c09_accept`, `c09_frame` and `c09_frame_total` hold for this input: subgroup field, nested
    class, non-empty parser-level defaults disjoint from simple-parsing's destinations -/
example : WellFormed psSub rawSub := by decide
example : FrameHyps psSub uaSub saSub rawSub := by decide
example : NoSuppress psSub := by decide
example : ParentsAbove psSub.wrappers := by
  intro w hw hp
  simp only [psSub, List.mem_cons, List.not_mem_nil, or_false] at hw
  rcases hw with rfl | rfl | rfl
  · exact absurd hp (by decide)
  · exact ⟨wTopS, by simp [psSub], by decide, by decide⟩
  · exact ⟨wTopS, by simp [psSub], by decide, by decide⟩
example : spParse palg (fun _ => none) (fun _ _ => .ok rawSub [['z']]) psSub uaSub saSub [] = .ok nsSub [['z']] := by rfl
example : (nsSub.subgroups.isSome ↔ subgroupDests psSub.wrappers ≠ []) := by decide

/-- a user attribute already sitting at the `add_arguments` destination is refused (parsing.py:898) … -/
theorem c09_collision_witness :
    postprocess palg (psEx true []) ((sCfg, one) :: rawEx) = .raise .runtimeError := by rfl

/-- … unless that attribute came from `set_defaults` (parsing.py:891-896): then it is overwritten -/
theorem c09_defaults_overwritten_witness :
    postprocess palg (psEx true [sCfg]) ((sCfg, one) :: rawEx) =
      .ok { attrs := [(sCfg, .inst ['T'] [(['x'], two), (['i', 'n'], .inst ['I'] [(['y'], two)])]), (sFoo, one)],
            subgroups := none } := by rfl

/-- the full no-dotted statement, without the exclusion `AllInit` -/
def NoDottedFull : Prop :=
  ∀ (ps : PState PVal) (raw : Dict PVal) (n : Nsp PVal), postprocess palg ps raw = .ok n →
    (∀ k ∈ dkeys raw, k ∉ fieldDests ps.wrappers → dotted k = false) →
    (∀ d ∈ rootDests ps.wrappers, dotted d = false) → ∀ k ∈ n.keys, dotted k = false

/-- the code's `if not field.field.init: continue` (parsing.py:964) leaves the dotted key of such a field in the
    namespace; no real `FieldWrapper` is ever created for an `init=False` field (dataclass_wrapper.py:77): the generated
    forests contain `field(init=False)` leaves and the harness checks on every real parser that no wrapper exists
    for them — so the exclusion `AllInit` of `c09_no_dotted` (the `_partial` form of this
    statement) is about the model's input space only -/
theorem c09_init_false_leaks_witness : ¬ NoDottedFull := by
  intro h
  have hp : postprocess palg (psEx false []) rawEx =
      .ok { attrs := [(sFoo, one), (sCfgX, two), (sCfg, .inst ['T'] [(['i', 'n'], .inst ['I'] [(['y'], two)])])],
            subgroups := none } := by rfl
  have := h _ _ _ hp (by decide) (by decide) sCfgX (by decide)
  exact absurd this (by decide)

/-- open finding C09-intermixed (`parse_intermixed_args` calls the overridden `parse_known_args` twice, parsing.py:362
    runs both times): the post-processing is not idempotent — applied to its own result it finds the dataclass
    destination already set and raises.  The theorems of this file are about the two APIs `parse_known_args` /
    `parse_args` (one post-processing per parse). -/
theorem c09_second_postprocess_witness :
    postprocess palg (psEx true []) rawEx = .ok nsEx ∧
    postprocess palg (psEx true []) nsEx.attrs = .raise .runtimeError := ⟨by rfl, by rfl⟩

/-- "one attribute per add_arguments destination", without the exclusion `NoSuppress` -/
def RootsFull : Prop :=
  ∀ (ps : PState PVal) (raw : Dict PVal) (n : Nsp PVal), postprocess palg ps raw = .ok n →
    ∀ d ∈ rootDests ps.wrappers, d ∈ dkeys n.attrs

private def psSup : PState PVal :=
  { wrappers := [{ wTop true with suppress := true }], cargs0 := [], defaultsKeys := [], alwaysMerge := false }

/-- `add_arguments(T, "cfg", default=argparse.SUPPRESS)` and nothing given: the namespace has NO `cfg` attribute
    (parsing.py:867-871); with `--x 2` it is the plain dict `{'x': 2}` (:861).  `c09_roots_present` is the `_partial`
    form under the named exclusion `NoSuppress`. -/
theorem c09_suppress_witness : ¬ RootsFull := by
  intro h
  have hp : postprocess palg psSup [(sFoo, one)] = .ok { attrs := [(sFoo, one)], subgroups := none } := by rfl
  exact absurd (h _ _ _ hp sCfg (by decide)) (by decide)

example : postprocess palg psSup [(sFoo, one), (sCfgX, two)] =
    .ok { attrs := [(sFoo, one), (sCfg, .dict [(['x'], two)])], subgroups := none } := by rfl

/-- `parser.set_defaults(**kw)` behaves like argparse's: every keyword that does not name a registered dataclass
    destination reaches `_defaults`, and no file is read (FULL since the fix a66f307 made the method's own
    `config_path` parameter positional-only; before, a keyword of that name was swallowed) -/
theorem c09_set_defaults (wd kw : List Str) (h : ∀ k ∈ kw, k ∉ wd) :
    setDefaultsPassed wd kw = kw ∧ setDefaultsReadsFile kw = false := by
  refine ⟨?_, rfl⟩
  unfold setDefaultsPassed
  apply List.filter_eq_self.mpr
  intro k hk
  cases hc : wd.contains k with
  | false => rfl
  | true => exact absurd (List.contains_iff_mem.mp hc) (h k hk)

/-- without registered dataclasses it is exactly argparse's `set_defaults` -/
theorem c09_set_defaults_full (kw : List Str) : setDefaultsPassed [] kw = kw ∧ setDefaultsReadsFile kw = false :=
  c09_set_defaults [] kw (fun _ _ => by simp)

/-- regression example of the fixed finding C09-set-defaults-config-path: the keyword `config_path` is passed on -/
example : setDefaultsPassed [sCfg] ["config_path".toList, sFoo, sCfg] = ["config_path".toList, sFoo] := by decide

example : ∀ k ∈ ["config_path".toList, sFoo, sEx], k ∉ [sCfg] := by decide

end Examples

end SpVerif.C09
