/-
  C09 — plain argparse arguments behave as in argparse; the namespace stays clean.

  The argparse engine `E` and the algebra of Python values `A` are PARAMETERS: every theorem below holds for
  every engine and every value algebra.  What the engine does on `userActs ++ spActs` versus on the user's
  actions plus stand-ins is argparse's own business and is settled differentially (harness/props/c09.py).

  Statements (all about `SpVerif.Post.spParse` = `parse_known_args` and `postprocess` = `_postprocessing`):
    * decision / leftovers : `c09_exit_iff`, `c09_ok_inv`, `c09_parse_args_ok`
    * frame                : `c09_postprocess_frame`, `c09_frame`
    * key set              : `c09_keys_sub`, `c09_user_keys_kept`, `c09_roots_present`, `c09_keys_exact`
    * no dotted key        : `c09_no_dotted`
    * added errors         : `c09_no_runtimeError`, `c09_collision_witness`, `c09_defaults_overwritten_witness`
    * the `init=False` branch of the code (parsing.py:964) would leak a dotted key: `c09_init_false_leaks_witness`
      (no real wrapper has such a field: dataclass_wrapper.py:77), hence the named hypothesis `AllInit`.
-/
import SpVerif.Lemmas.Post
namespace SpVerif.C09
open SpVerif SpVerif.Post

variable {V : Type}

/-- every `FieldWrapper` belongs to an `init=True` field (dataclass_wrapper.py:77 creates no other) -/
def AllInit (ps : PState V) : Prop := ∀ f ∈ allFields ps.wrappers, f.init = true

/-- no wrapper was registered with `default=argparse.SUPPRESS` -/
def NoSuppress (ps : PState V) : Prop := ∀ w ∈ ps.wrappers, w.suppress = false

/-! ### decision and leftovers are the engine's -/

theorem c09_exit_iff (A : Alg V) (E : Engine V) (ps : PState V) (ua sa : Table) (argv : Argv) (c : Nat) :
    spParse A E ps ua sa argv = .exit c ↔ E (ua ++ sa) argv = .exit c := by
  simp only [spParse]
  constructor
  · intro h
    split at h
    · rename_i c' he; simp only [POut.exit.injEq] at h; rw [he, h]
    · exact absurd h (by simp)
    · split at h <;> exact absurd h (by simp)
  · intro h; rw [h]

theorem c09_ok_inv (A : Alg V) (E : Engine V) (ps : PState V) (ua sa : Table) (argv rest : Argv) (n : Nsp V)
    (h : spParse A E ps ua sa argv = .ok n rest) :
    ∃ raw, E (ua ++ sa) argv = .ok raw rest ∧ postprocess A ps raw = .ok n := by
  simp only [spParse] at h
  split at h
  · exact absurd h (by simp)
  · exact absurd h (by simp)
  · rename_i raw rest' he
    split at h
    · rename_i n' hp
      simp only [POut.ok.injEq] at h
      obtain ⟨rfl, rfl⟩ := h
      exact ⟨raw, he, hp⟩
    · exact absurd h (by simp)
    · exact absurd h (by simp)

/-- whenever the engine accepts, simple-parsing returns the engine's leftovers or raises — it never turns an
    accepted command line into an argparse-style exit -/
theorem c09_accept_no_exit (A : Alg V) (E : Engine V) (ps : PState V) (ua sa : Table) (argv rest : Argv)
    (raw : Dict V) (hE : E (ua ++ sa) argv = .ok raw rest) :
    (∃ n, spParse A E ps ua sa argv = .ok n rest) ∨ (∃ e, spParse A E ps ua sa argv = .raise e) ∨
    (∃ y, spParse A E ps ua sa argv = .unmodelled y) := by
  simp only [spParse, hE]
  split
  · exact Or.inl ⟨_, rfl⟩
  · exact Or.inr (Or.inl ⟨_, rfl⟩)
  · exact Or.inr (Or.inr ⟨_, rfl⟩)

/-- `parse_args` accepts exactly when `parse_known_args` accepts with no leftovers -/
theorem c09_parse_args_ok (A : Alg V) (E : Engine V) (ps : PState V) (ua sa : Table) (argv rest : Argv) (n : Nsp V) :
    spParseArgs A E ps ua sa argv = .ok n rest ↔ (rest = [] ∧ spParse A E ps ua sa argv = .ok n []) := by
  simp only [spParseArgs]
  constructor
  · intro h
    split at h
    · rename_i n' rest' hp
      split at h
      · rename_i he
        simp only [POut.ok.injEq] at h
        obtain ⟨rfl, rfl⟩ := h
        have : rest' = [] := by simpa using he
        subst this
        exact ⟨rfl, hp⟩
      · exact absurd h (by simp)
    · rename_i hne
      exact absurd h (by intro e; exact hne n rest e)
  · rintro ⟨rfl, h⟩
    rw [h]; simp

/-! ### frame: entries simple-parsing does not own are returned untouched -/

theorem mem_rootDests_sortDesc (ws : List (DcW V)) (k : Str) : k ∈ rootDests (sortDesc ws) ↔ k ∈ rootDests ws :=
  (rootDests_sortDesc_perm ws).mem_iff

/-- the three phases of `_postprocessing`, exposed -/
theorem postprocess_phases (A : Alg V) (ps : PState V) (raw : Dict V) (n : Nsp V)
    (h : postprocess A ps raw = .ok n) :
    ∃ ns1 ns2 c c', removeSubgroups ps.wrappers raw = .ok (ns1, n.subgroups) ∧
      fillWrappers A ps.wrappers (ns1, initCArgs ps) = .ok (ns2, c) ∧
      instWrappers A ps.defaultsKeys (sortDesc ps.wrappers) (ns2, c) = .ok (n.attrs, c') := by
  simp only [postprocess] at h
  split at h
  · exact absurd h (by simp)
  · exact absurd h (by simp)
  · rename_i ns1 sub h1
    split at h
    · exact absurd h (by simp)
    · exact absurd h (by simp)
    · rename_i ns2 c h2
      split at h
      · exact absurd h (by simp)
      · exact absurd h (by simp)
      · rename_i ns3 h3
        simp only [Out.ok.injEq] at h; subst h
        simp only [fill] at h2
        split at h2
        · exact absurd h2 (by simp)
        · simp only [instantiate] at h3
          split at h3
          · exact absurd h3 (by simp)
          · split at h3
            · rename_i ns' c' h4
              split at h3
              · simp only [Out.ok.injEq] at h3; subst h3
                exact ⟨ns1, ns2, c, c', h1, h2, h4⟩
              · exact absurd h3 (by simp)
            · exact absurd h3 (by simp)
            · exact absurd h3 (by simp)

theorem c09_postprocess_frame (A : Alg V) (ps : PState V) (raw : Dict V) (n : Nsp V)
    (h : postprocess A ps raw = .ok n) (k : Str)
    (hf : k ∉ fieldDests ps.wrappers) (hr : k ∉ rootDests ps.wrappers) :
    dget n.attrs k = dget raw k := by
  obtain ⟨ns1, ns2, c, c', h1, h2, h3⟩ := postprocess_phases A ps raw n h
  have a := (removeSubgroups_spec _ _ _ _ h1).1 k (fun e => hf (subgroupDests_sub _ e))
  have b := (fillWrappers_spec A _ _ _ h2).1 k hf
  have d := (instWrappers_spec A _ _ _ _ h3).1 k (fun e => hr ((mem_rootDests_sortDesc _ _).mp e))
  simp only at a b d
  rw [d, b, a]

/-! ### the key set of the returned namespace -/

theorem c09_keys_sub (A : Alg V) (ps : PState V) (raw : Dict V) (n : Nsp V)
    (h : postprocess A ps raw = .ok n) (hi : AllInit ps) (k : Str) (hk : k ∈ dkeys n.attrs) :
    (k ∈ dkeys raw ∧ k ∉ fieldDests ps.wrappers) ∨ k ∈ rootDests ps.wrappers := by
  obtain ⟨ns1, ns2, c, c', h1, h2, h3⟩ := postprocess_phases A ps raw n h
  rcases (instWrappers_spec A _ _ _ _ h3).2.1 k hk with e | e
  · left
    obtain ⟨_, b2, b3⟩ := fillWrappers_spec A _ _ _ h2
    have k1 := b2 k e
    obtain ⟨kr, ks⟩ := ((removeSubgroups_spec _ _ _ _ h1).2 k).mp k1
    refine ⟨kr, fun hfd => ?_⟩
    obtain ⟨f, hf, rfl⟩ := List.mem_map.mp hfd
    by_cases hs : f.isSubgroup = true
    · exact ks (mem_subgroupDests _ hf hs)
    · exact b3 f hf (by simpa using hs) (hi f hf) e
  · exact Or.inr ((mem_rootDests_sortDesc _ _).mp e)

/-- an entry that is not a dataclass-field destination is never removed -/
theorem c09_user_keys_kept (A : Alg V) (ps : PState V) (raw : Dict V) (n : Nsp V)
    (h : postprocess A ps raw = .ok n) (k : Str) (hk : k ∈ dkeys raw) (hf : k ∉ fieldDests ps.wrappers) :
    k ∈ dkeys n.attrs := by
  obtain ⟨ns1, ns2, c, c', h1, h2, h3⟩ := postprocess_phases A ps raw n h
  have k1 : k ∈ dkeys ns1 := ((removeSubgroups_spec _ _ _ _ h1).2 k).mpr ⟨hk, fun e => hf (subgroupDests_sub _ e)⟩
  -- `fill` keeps it: its value is unchanged, hence it is still bound
  have b := (fillWrappers_spec A _ _ _ h2).1 k hf
  have k2 : k ∈ dkeys ns2 := by
    have : ∀ (d : Dict V), k ∈ dkeys d ↔ dget d k ≠ none := by
      intro d
      induction d with
      | nil => simp [dkeys, dget]
      | cons kv r ih =>
        obtain ⟨a, v⟩ := kv
        simp only [dkeys, List.map_cons, List.mem_cons, dget]
        by_cases ha : a = k
        · simp [ha]
        · simp only [ha, ↓reduceIte]
          have ih' : k ∈ dkeys r ↔ dget r k ≠ none := ih
          simp only [dkeys] at ih'
          rw [← ih']
          constructor
          · rintro (e | e)
            · exact absurd e.symm ha
            · exact e
          · exact Or.inr
    simp only at b
    rw [this, b, ← this]; exact k1
  exact (instWrappers_spec A _ _ _ _ h3).2.2.1 k k2

/-- one attribute per `add_arguments` destination -/
theorem c09_roots_present (A : Alg V) (ps : PState V) (raw : Dict V) (n : Nsp V)
    (h : postprocess A ps raw = .ok n) (hs : NoSuppress ps) (d : Str) (hd : d ∈ rootDests ps.wrappers) :
    d ∈ dkeys n.attrs := by
  obtain ⟨ns1, ns2, c, c', h1, h2, h3⟩ := postprocess_phases A ps raw n h
  obtain ⟨w, hw, hp, hdw⟩ := mem_rootDests.mp hd
  exact (instWrappers_spec A _ _ _ _ h3).2.2.2 w ((sortDesc_perm _).mem_iff.mpr hw) hp (hs w hw) d hdw

/-- exactly: the entries argparse produced outside the dataclass options, plus the `add_arguments` destinations -/
theorem c09_keys_exact (A : Alg V) (ps : PState V) (raw : Dict V) (n : Nsp V)
    (h : postprocess A ps raw = .ok n) (hi : AllInit ps) (hs : NoSuppress ps) (k : Str) :
    k ∈ dkeys n.attrs ↔ (k ∈ dkeys raw ∧ k ∉ fieldDests ps.wrappers) ∨ k ∈ rootDests ps.wrappers :=
  ⟨c09_keys_sub A ps raw n h hi k, fun hk => hk.elim (fun e => c09_user_keys_kept A ps raw n h k e.1 e.2)
    (c09_roots_present A ps raw n h hs k)⟩

/-- `subgroups` appears exactly when the forest has a subgroup field -/
theorem c09_subgroups_iff (A : Alg V) (ps : PState V) (raw : Dict V) (n : Nsp V)
    (h : postprocess A ps raw = .ok n) : n.subgroups.isSome ↔ subgroupDests ps.wrappers ≠ [] := by
  obtain ⟨ns1, ns2, c, c', h1, _, _⟩ := postprocess_phases A ps raw n h
  simp only [removeSubgroups] at h1
  split at h1
  · rename_i he
    simp only [Out.ok.injEq, Prod.mk.injEq] at h1
    rw [← h1.2, he]; simp
  · rename_i d ds he
    split at h1
    · exact absurd h1 (by simp)
    · split at h1
      · simp only [Out.ok.injEq, Prod.mk.injEq] at h1
        rw [← h1.2, he]; simp
      · exact absurd h1 (by simp)
      · exact absurd h1 (by simp)

/-! ### no dotted intermediate destination leaks -/

theorem c09_no_dotted (A : Alg V) (ps : PState V) (raw : Dict V) (n : Nsp V)
    (h : postprocess A ps raw = .ok n) (hi : AllInit ps)
    (huser : ∀ k ∈ dkeys raw, k ∉ fieldDests ps.wrappers → dotted k = false)
    (hroot : ∀ d ∈ rootDests ps.wrappers, dotted d = false) :
    ∀ k ∈ n.keys, dotted k = false := by
  intro k hk
  simp only [Nsp.keys, List.mem_append] at hk
  rcases hk with hk | hk
  · rcases c09_keys_sub A ps raw n h hi k hk with ⟨a, b⟩ | a
    · exact huser k a b
    · exact hroot k a
  · split at hk
    · simp only [List.mem_singleton] at hk
      subst hk; decide
    · exact absurd hk (by simp)

/-! ### the errors simple-parsing adds after an accepted parse -/

/-- without a collision (no `add_arguments` destination is already an attribute, destinations pairwise
    distinct) the post-processing never raises the namespace-collision `RuntimeError` -/
theorem c09_no_runtimeError (A : Alg V) (ps : PState V) (raw : Dict V)
    (hraw : ∀ d ∈ rootDests ps.wrappers, d ∉ dkeys raw) (hnd : (rootDests ps.wrappers).Nodup) :
    postprocess A ps raw ≠ .raise .runtimeError := by
  intro h
  simp only [postprocess] at h
  split at h
  · rename_i e h1
    simp only [Out.raise.injEq] at h; subst h
    simp only [removeSubgroups] at h1
    split at h1
    · exact absurd h1 (by simp)
    · split at h1
      · exact absurd h1 (by simp)
      · split at h1
        · exact absurd h1 (by simp)
        · rename_i e hm
          simp only [Out.raise.injEq] at h1; subst h1
          -- `moveSubgroups` only raises AttributeError
          have : ∀ (ds : List Str) (ns sub : Dict V), moveSubgroups ds ns sub ≠ .raise .runtimeError := by
            intro ds
            induction ds with
            | nil => intro ns sub; simp [moveSubgroups]
            | cons d ds ih =>
              intro ns sub
              simp only [moveSubgroups]
              split
              · simp
              · exact ih _ _
          exact this _ _ _ hm
        · exact absurd h1 (by simp)
  · exact absurd h (by simp)
  · rename_i ns1 sub h1
    split at h
    · rename_i e h2
      simp only [Out.raise.injEq] at h; subst h
      simp only [fill] at h2
      split at h2
      · exact absurd h2 (by simp)
      · -- `fillWrappers` never raises
        have hfc : ∀ (f : FieldW V) (v : V) (c : CArgs V) (e : Exc), fieldCall A f v c ≠ .raise e := by
          intro f v c e
          simp only [fieldCall]
          split
          · simp
          · split <;> simp
          · simp
        have hf : ∀ (s : Bool) (f : FieldW V) (st : Dict V × CArgs V) (e : Exc), fillField A s f st ≠ .raise e := by
          intro s f st e
          simp only [fillField]
          split
          · simp
          · split
            · simp
            · split
              · simp
              · split
                · simp
                · rename_i e' hh; exact absurd hh (hfc _ _ _ _)
                · simp
        have hfs : ∀ (s : Bool) (fs : List (FieldW V)) (st : Dict V × CArgs V) (e : Exc),
            fillFields A s fs st ≠ .raise e := by
          intro s fs
          induction fs with
          | nil => intro st e; simp [fillFields]
          | cons f fs ih =>
            intro st e
            simp only [fillFields]
            split
            · exact ih _ _
            · rename_i e' hh; exact absurd hh (hf _ _ _ _)
            · simp
        have hws : ∀ (ws : List (DcW V)) (st : Dict V × CArgs V) (e : Exc), fillWrappers A ws st ≠ .raise e := by
          intro ws
          induction ws with
          | nil => intro st e; simp [fillWrappers]
          | cons w ws ih =>
            intro st e
            simp only [fillWrappers]
            split
            · exact ih _ _
            · rename_i e' hh; exact absurd hh (hfs _ _ _ _)
            · simp
        exact hws _ _ _ h2
    · exact absurd h (by simp)
    · rename_i ns2 c h2
      split at h
      · rename_i e h3
        simp only [Out.raise.injEq] at h; subst h
        simp only [fill] at h2
        split at h2
        · exact absurd h2 (by simp)
        · simp only [instantiate] at h3
          split at h3
          · exact absurd h3 (by simp)
          · split at h3
            · split at h3 <;> exact absurd h3 (by simp)
            · rename_i e h4
              simp only [Out.raise.injEq] at h3; subst h3
              refine instWrappers_noRuntimeError A ps.defaultsKeys (sortDesc ps.wrappers) (ns2, c) ?_ ?_ h4
              · intro d hd hm
                have hd' := (mem_rootDests_sortDesc _ _).mp hd
                have k1 := (fillWrappers_spec A _ _ _ h2).2.1 d hm
                exact hraw d hd' (((removeSubgroups_spec _ _ _ _ h1).2 d).mp k1).1
              · exact (rootDests_sortDesc_perm _).nodup_iff.mpr hnd
            · exact absurd h3 (by simp)
      · exact absurd h (by simp)
      · exact absurd h (by simp)

/-! ### the central statement -/

/-- For EVERY engine that only writes the destinations of its table (and the parser-level defaults), with the
    user's destinations disjoint from simple-parsing's: if argparse accepts with `(raw, rest)`, then whenever
    simple-parsing returns a namespace it returns it with the same leftovers, every user entry is exactly
    argparse's, every key is a user destination, a parser-level default, or an `add_arguments` destination —
    in particular no dotted key —, and the only error class simple-parsing could add for a collision cannot
    occur. -/
theorem c09_frame (A : Alg V) (E : Engine V) (ps : PState V) (ua sa : Table) (argv rest : Argv) (raw : Dict V)
    (hE : E (ua ++ sa) argv = .ok raw rest)
    (hW : ∀ k ∈ dkeys raw, k ∈ (ua ++ sa).map (·.dest) ∨ k ∈ ps.defaultsKeys)
    (hsp : ∀ a ∈ sa, a.dest ∈ fieldDests ps.wrappers)
    (hU : ∀ a ∈ ua, a.dest ∉ fieldDests ps.wrappers ∧ a.dest ∉ rootDests ps.wrappers)
    (hD : ∀ k ∈ ps.defaultsKeys, k ∉ fieldDests ps.wrappers ∧ k ∉ rootDests ps.wrappers)
    (hRF : ∀ d ∈ rootDests ps.wrappers, d ∉ fieldDests ps.wrappers)
    (hi : AllInit ps) (hnd : (rootDests ps.wrappers).Nodup) :
    spParse A E ps ua sa argv ≠ .raise .runtimeError ∧
    ∀ n rest', spParse A E ps ua sa argv = .ok n rest' →
      rest' = rest ∧
      (∀ a ∈ ua, dget n.attrs a.dest = dget raw a.dest) ∧
      (∀ k ∈ ps.defaultsKeys, dget n.attrs k = dget raw k) ∧
      (∀ k ∈ dkeys n.attrs, k ∈ ua.map (·.dest) ∨ k ∈ ps.defaultsKeys ∨ k ∈ rootDests ps.wrappers) := by
  have hrootraw : ∀ d ∈ rootDests ps.wrappers, d ∉ dkeys raw := by
    intro d hd hm
    rcases hW d hm with e | e
    · simp only [List.map_append, List.mem_append, List.mem_map] at e
      rcases e with ⟨a, ha, rfl⟩ | ⟨a, ha, rfl⟩
      · exact (hU a ha).2 hd
      · exact hRF _ hd (hsp a ha)
    · exact (hD d e).2 hd
  constructor
  · intro h
    simp only [spParse, hE] at h
    split at h
    · exact absurd h (by simp)
    · rename_i e hp
      simp only [POut.raise.injEq] at h; subst h
      exact c09_no_runtimeError A ps raw hrootraw hnd hp
    · exact absurd h (by simp)
  · intro n rest' h
    obtain ⟨raw', he, hp⟩ := c09_ok_inv A E ps ua sa argv rest' n h
    rw [hE] at he
    simp only [EOut.ok.injEq] at he
    obtain ⟨rfl, rfl⟩ := he
    refine ⟨rfl, fun a ha => c09_postprocess_frame A ps _ n hp _ (hU a ha).1 (hU a ha).2,
      fun k hk => c09_postprocess_frame A ps _ n hp _ (hD k hk).1 (hD k hk).2, fun k hk => ?_⟩
    rcases c09_keys_sub A ps _ n hp hi k hk with ⟨a, b⟩ | a
    · rcases hW k a with e | e
      · simp only [List.map_append, List.mem_append] at e
        rcases e with e | e
        · exact Or.inl e
        · obtain ⟨x, hx, rfl⟩ := List.mem_map.mp e
          exact absurd (hsp x hx) b
      · exact Or.inr (Or.inl e)
    · exact Or.inr (Or.inr a)


/-! ### concrete inputs: the hypotheses are satisfiable, the exclusions are necessary -/

section Examples

private def sCfg : Str := ['c', 'f', 'g']
private def sCfgX : Str := ['c', 'f', 'g', '.', 'x']
private def sCfgInY : Str := ['c', 'f', 'g', '.', 'i', 'n', '.', 'y']
private def sCfgIn : Str := ['c', 'f', 'g', '.', 'i', 'n']
private def sFoo : Str := ['f', 'o', 'o']
private def one : PVal := .atom ['1']
private def two : PVal := .atom ['2']

/-- `add_arguments(Top, "cfg")` with `Top(x: int, in: Inner)`, `Inner(y: int)` -/
private def wTop (init : Bool) : DcW PVal :=
  { dest := sCfg, dests := [sCfg], level := 0, hasParent := false, suppress := false, optNone := false, ctor := ['T'],
    fields := [{ name := ['x'], dest := sCfgX, dests := [sCfgX], isSubgroup := false, init := init, dflt := one, conv := .id }] }
private def wIn : DcW PVal :=
  { dest := sCfgIn, dests := [sCfgIn], level := 1, hasParent := true, suppress := false, optNone := false, ctor := ['I'],
    fields := [{ name := ['y'], dest := sCfgInY, dests := [sCfgInY], isSubgroup := false, init := true, dflt := two, conv := .id }] }
private def psEx (init : Bool) (dk : List Str) : PState PVal :=
  { wrappers := [wTop init, wIn], cargs0 := [], defaultsKeys := dk, alwaysMerge := false }

/-- what argparse hands over for `--foo 1 --x 2`: the user's `foo`, and the two dotted field destinations -/
private def rawEx : Dict PVal := [(sFoo, one), (sCfgX, two), (sCfgInY, two)]

private def nsEx : Nsp PVal :=
  { attrs := [(sFoo, one), (sCfg, .inst ['T'] [(['x'], two), (['i', 'n'], .inst ['I'] [(['y'], two)])])], subgroups := none }

/-- the model on a nested forest: `foo` kept, both dotted keys consumed, the instance built bottom-up -/
example : postprocess palg (psEx true []) rawEx = .ok nsEx := by rfl

/-- the hypotheses of `c09_frame` hold for this input (engine = the constant engine returning `rawEx`) -/
example :
    let E : Engine PVal := fun _ _ => .ok rawEx [['z']]
    let ua : Table := [{ dest := sFoo }]
    let sa : Table := [{ dest := sCfgX }, { dest := sCfgInY }]
    E (ua ++ sa) [] = .ok rawEx [['z']] ∧
    (∀ k ∈ dkeys rawEx, k ∈ (ua ++ sa).map (·.dest) ∨ k ∈ (psEx true []).defaultsKeys) ∧
    (∀ a ∈ sa, a.dest ∈ fieldDests (psEx true []).wrappers) ∧
    (∀ a ∈ ua, a.dest ∉ fieldDests (psEx true []).wrappers ∧ a.dest ∉ rootDests (psEx true []).wrappers) ∧
    (∀ d ∈ rootDests (psEx true []).wrappers, d ∉ fieldDests (psEx true []).wrappers) ∧
    AllInit (psEx true []) ∧ NoSuppress (psEx true []) ∧ (rootDests (psEx true []).wrappers).Nodup ∧
    spParse palg E (psEx true []) ua sa [] = .ok nsEx [['z']] := by
  refine ⟨rfl, by decide, by decide, by decide, by decide, ?_, ?_, by decide, by rfl⟩
  · intro f hf
    simp only [allFields, psEx, wTop, wIn, List.flatMap_cons, List.flatMap_nil, List.append_nil, List.cons_append,
      List.nil_append, List.mem_cons, List.not_mem_nil, or_false] at hf
    rcases hf with rfl | rfl <;> rfl
  · intro w hw
    simp only [psEx, List.mem_cons, List.not_mem_nil, or_false] at hw
    rcases hw with rfl | rfl <;> rfl

/-- a user attribute already sitting at the `add_arguments` destination is refused (parsing.py:898) … -/
theorem c09_collision_witness :
    postprocess palg (psEx true []) ((sCfg, one) :: rawEx) = .raise .runtimeError := by rfl

/-- … unless that attribute came from `set_defaults` (parsing.py:891-896): then it is overwritten -/
theorem c09_defaults_overwritten_witness :
    postprocess palg (psEx true [sCfg]) ((sCfg, one) :: rawEx) =
      .ok { attrs := [(sCfg, .inst ['T'] [(['x'], two), (['i', 'n'], .inst ['I'] [(['y'], two)])]), (sFoo, one)],
            subgroups := none } := by rfl

/-- the full no-dotted statement, without the exclusion `AllInit` -/
def NoDottedFull : Prop :=
  ∀ (ps : PState PVal) (raw : Dict PVal) (n : Nsp PVal), postprocess palg ps raw = .ok n →
    (∀ k ∈ dkeys raw, k ∉ fieldDests ps.wrappers → dotted k = false) →
    (∀ d ∈ rootDests ps.wrappers, dotted d = false) → ∀ k ∈ n.keys, dotted k = false

/-- the code's `if not field.field.init: continue` (parsing.py:964) leaves the dotted key of such a field in the
    namespace; no real `FieldWrapper` is ever created for an `init=False` field (dataclass_wrapper.py:77), which the
    harness checks on every real parser — so the exclusion `AllInit` of `c09_no_dotted` (the `_partial` form of this
    statement) is about the model's input space only -/
theorem c09_init_false_leaks_witness : ¬ NoDottedFull := by
  intro h
  have hp : postprocess palg (psEx false []) rawEx =
      .ok { attrs := [(sFoo, one), (sCfgX, two), (sCfg, .inst ['T'] [(['i', 'n'], .inst ['I'] [(['y'], two)])])],
            subgroups := none } := by rfl
  have := h _ _ _ hp (by decide) (by decide) sCfgX (by decide)
  exact absurd this (by decide)

end Examples

end SpVerif.C09
