/-
  C06 — value sources are layered: definition < default instance / set_defaults < constructor config files (in
  order) < `--config_path` files (in order) < explicit command-line options; sources are merged leaf by leaf; a
  key that names no field of its dataclass section is an error.

  Statements are about the executable model `SpVerif.Model.Layers`.  A *source* is a dict (a file's content, the
  keywords of a `set_defaults` call); it "contains" a leaf path when following the path through nested dicts
  succeeds, and "mentions" it when the value found is not `null`.  The code cannot distinguish an explicit `null`
  from "set to None": the slot of a field is simply overwritten by every source that contains the path
  (`slotAt_setFields`), so a later `null` *erases* what earlier sources set.  The full statement (null = not
  mentioned) is therefore refuted by `c06_priority_full_witness`; `c06_priority_partial` proves it under the named
  exclusion `NoNullAt` (no source holds an explicit null at that leaf).
-/
import SpVerif.Model.Layers
import SpVerif.Lemmas.Layers
namespace SpVerif.C06
open SpVerif SpVerif.Layers

/-! ### `dict_union` algebra (utils.py:841-885) -/

/-- right-biased at leaves: a non-dict value of the later dict wins -/
theorem c06_union_right_biased (xs ys : Dict) (k : Str) (y : J)
    (hy : dget ys k = some y) (hnd : y.isDict = false) : dget (unionD xs ys) k = some y := by
  rw [dget_unionD, hy]
  cases hx : dget xs k with
  | none => cases y <;> simp_all [norm, J.isDict]
  | some x => cases x <;> cases y <;> simp_all [mergeVal, J.isDict]

example : dget (unionD [(['a'], .int 1), (['b'], .int 2)] [(['a'], .int 5)]) ['a'] = some (.int 5) := by
  apply c06_union_right_biased <;> rfl

/-- a key only the earlier dict has keeps its (re-sorted) value -/
theorem c06_union_keeps_left (xs ys : Dict) (k : Str) (hy : dget ys k = none) :
    dget (unionD xs ys) k = (dget xs k).map norm := by
  rw [dget_unionD, hy]; cases dget xs k <;> rfl

/-- recursive on dicts: two dict values at one key are united -/
theorem c06_union_recursive (xs ys : Dict) (k : Str) (a b : Dict)
    (hx : dget xs k = some (.dict a)) (hy : dget ys k = some (.dict b)) :
    dget (unionD xs ys) k = some (.dict (unionD a b)) := by
  rw [dget_unionD, hx, hy]; simp [mergeVal, unionD]

/-- the code's quirk, kept visible: an earlier scalar is *not* replaced by a later dict -/
theorem c06_union_scalar_survives_dict (xs ys : Dict) (k : Str) (x : J) (b : Dict)
    (hx : dget xs k = some x) (hnd : x.isDict = false) (hy : dget ys k = some (.dict b)) :
    dget (unionD xs ys) k = some x := by
  rw [dget_unionD, hx, hy]; cases x <;> simp_all [mergeVal, J.isDict]

theorem mergeL_nil (xs : Dict) : mergeL xs [] = normL xs := by
  induction xs with
  | nil => rfl
  | cons e r ih => obtain ⟨k, v⟩ := e; simp [mergeL, normL, dget, ih]

/-- a file that goes through `dict_union(file, {})` keeps every path (values are re-sorted copies) -/
theorem c06_union_empty_paths (xs : Dict) (p : List Str) :
    getPath p (.dict (unionD xs [])) = (getPath p (.dict xs)).map norm := by
  have h : J.dict (unionD xs []) = norm (.dict xs) := by
    simp [unionD, mergeL_nil, normL, norm]
  rw [h, getPath_norm]

/-! ### one wrapper, a list of sources applied in order -/

/-- running example: `class A: a: int = 1; s: S` with `class S: b: int = 2`, registered at dest `c`;
    sources `srcA1 = {a: 5, s: {b: 6}}`, `srcA2 = {a: 7}` -/
def clsA : WT := .leaf ['a'] (some (.int 1)) .null (.nested ['s'] none (.leaf ['b'] (some (.int 2)) .null .nil) .nil)
def regA : RegIn := { dest := ['c'], cls := clsA, instKw := none }
def srcA1 : Dict := [(['a'], .int 5), (['s'], .dict [(['b'], .int 6)])]
def srcA2 : Dict := [(['a'], .int 7)]
/-- `clsA` after `srcA1`, `srcA2` -/
def clsA12 : WT := .leaf ['a'] (some (.int 1)) (.int 7) (.nested ['s'] none (.leaf ['b'] (some (.int 2)) (.int 6) .nil) .nil)

/-- successive `wrapper.set_default(d)` calls -/
def applySrcs : WT → List Dict → Out WT
  | wt, [] => .ok wt
  | wt, d :: ds =>
    match setDefault wt d with
    | .error e => .error e
    | .ok wt' => applySrcs wt' ds

/-- the slot of the leaf at `p` after the sources `ds`, starting from `m`: every source that contains the path
    overwrites it -/
def foldAssign (p : List Str) : List Dict → J → J
  | [], m => m
  | d :: ds, m => foldAssign p ds (assign (getPath p (.dict d)) m)

theorem setDefault_ok {wt wt' : WT} {d : Dict} (h : setDefault wt d = .ok wt') :
    setFields wt d = .ok wt' ∧ unknownKeys wt d = false := by
  unfold setDefault at h
  cases hs : setFields wt d with
  | error e => simp [hs] at h
  | ok w =>
    by_cases hu : unknownKeys wt d = true
    · simp [hs, hu] at h
    · simp [hs, hu] at h; subst h; simpa using hu

theorem applySrcs_upd : ∀ (ds : List Dict) (wt wt' : WT), applySrcs wt ds = .ok wt' → Upd wt wt'
  | [], wt, wt', h => by simp [applySrcs] at h; subst h; exact Upd.refl _
  | d :: ds, wt, wt', h => by
    simp only [applySrcs] at h
    cases hs : setDefault wt d with
    | error e => simp [hs] at h
    | ok w =>
      simp [hs] at h
      exact (setFields_upd _ _ _ (setDefault_ok hs).1).trans (applySrcs_upd ds w wt' h)

/-- **leafwise merging, any number of sources**: the slot of a leaf after a list of sources -/
theorem c06_slot_after_sources : ∀ (ds : List Dict) (wt wt' : WT) (p : List Str) (m : J),
    applySrcs wt ds = .ok wt' → slotAt wt p = some m → slotAt wt' p = some (foldAssign p ds m)
  | [], wt, wt', p, m, h, hp => by simp [applySrcs] at h; subst h; simpa [foldAssign] using hp
  | d :: ds, wt, wt', p, m, h, hp => by
    simp only [applySrcs] at h
    cases hs : setDefault wt d with
    | error e => simp [hs] at h
    | ok w =>
      simp [hs] at h
      have h1 := slotAt_setFields wt d w p m (setDefault_ok hs).1 hp
      simpa [foldAssign] using c06_slot_after_sources ds w wt' p _ h h1

/-- non-vacuous: the nested leaf `s.b` after `srcA1`, `srcA2` holds 6 (the second source does not contain it) -/
example : slotAt clsA12 [['s'], ['b']] = some (.int 6) :=
  c06_slot_after_sources [srcA1, srcA2] clsA clsA12 [['s'], ['b']] .null rfl rfl

/-- a source that does not contain the path can be dropped: it leaves the leaf to the other sources -/
theorem foldAssign_skip (p : List Str) (pre post : List Dict) (s : Dict) (m : J)
    (hs : getPath p (.dict s) = none) :
    foldAssign p (pre ++ s :: post) m = foldAssign p (pre ++ post) m := by
  induction pre generalizing m with
  | nil => simp [foldAssign, hs, assign]
  | cons d ds ih => simp [foldAssign, ih]

theorem foldAssign_none (p : List Str) (ds : List Dict) (m : J)
    (h : ∀ t ∈ ds, getPath p (.dict t) = none) : foldAssign p ds m = m := by
  induction ds generalizing m with
  | nil => rfl
  | cons d ds ih =>
    have hd := h d (by simp)
    simp only [foldAssign, hd, assign]
    exact ih m (fun t ht => h t (by simp [ht]))

/-- the last source that contains the path decides -/
theorem foldAssign_last (p : List Str) (pre post : List Dict) (s : Dict) (m v : J)
    (hs : getPath p (.dict s) = some v) (hpost : ∀ t ∈ post, getPath p (.dict t) = none) :
    foldAssign p (pre ++ s :: post) m = v := by
  induction pre generalizing m with
  | nil => simp only [List.nil_append, foldAssign, hs, assign]; exact foldAssign_none p post v hpost
  | cons d ds ih => simp [foldAssign, ih]

/-- **central theorem (one registration)**: after any list of sources and the final resolution, every leaf holds
    the command-line value if one was given, else the value of the last source containing its path if that is not
    None, else the attribute of the default instance its wrapper sees, else its definition default. -/
theorem c06_priority_general (wt wt' : WT) (ds : List Dict) (ctx : Option Dict) (cmd out : Dict)
    (p : List Str) (m : J)
    (hsrc : applySrcs wt ds = .ok wt') (hres : resolve wt' ctx cmd = .ok out) (hp : slotAt wt p = some m) :
    ∃ b, baseAt wt ctx p = some b ∧
      getPath p (.dict out) = some (pick (getPath p (.dict cmd)) (foldAssign p ds m) b) ∧
      (pick (getPath p (.dict cmd)) (foldAssign p ds m) b).isNull = false := by
  have h1 := c06_slot_after_sources ds wt wt' p m hsrc hp
  obtain ⟨b, hb, hg, hn⟩ := getPath_resolve wt' ctx cmd out p _ hres h1
  exact ⟨b, by rw [← baseAt_upd (applySrcs_upd ds wt wt' hsrc)]; exact hb, hg, hn⟩

/-- non-vacuous: sources `srcA1`, `srcA2`, command line `--s.b 9`: `a = 7` (last source), `s.b = 9` (command line) -/
example : ∃ b, baseAt clsA none [['a']] = some b ∧
    getPath [['a']] (.dict [(['a'], .int 7), (['s'], .dict [(['b'], .int 9)])]) =
      some (pick (getPath [['a']] (.dict [(['s'], .dict [(['b'], .int 9)])])) (foldAssign [['a']] [srcA1, srcA2] .null) b) ∧
    (pick (getPath [['a']] (.dict [(['s'], .dict [(['b'], .int 9)])])) (foldAssign [['a']] [srcA1, srcA2] .null) b).isNull = false :=
  c06_priority_general clsA clsA12 [srcA1, srcA2] none [(['s'], .dict [(['b'], .int 9)])] _ [['a']] .null rfl rfl rfl

/-- a source *mentions* a leaf: it assigns a non-None value -/
def Mentions (p : List Str) (s : Dict) (v : J) : Prop := getPath p (.dict s) = some v ∧ v.isNull = false

/-- the named (decidable) exclusion: no source holds an explicit `null` at the leaf -/
def NoNullAt (p : List Str) (ds : List Dict) : Prop :=
  ds.all (fun t => match getPath p (.dict t) with
    | some v => !v.isNull
    | none => true) = true

instance (p : List Str) (ds : List Dict) : Decidable (NoNullAt p ds) := by unfold NoNullAt; infer_instance

theorem NoNullAt.elim {p : List Str} {ds : List Dict} (h : NoNullAt p ds) :
    ∀ t ∈ ds, ∀ v, getPath p (.dict t) = some v → v.isNull = false := by
  intro t ht v hv
  unfold NoNullAt at h
  rw [List.all_eq_true] at h
  have := h t ht
  simpa [hv] using this

/-- the full statement: the leaf ends up with the value of the highest-priority source that mentions it, where an
    explicit `null` counts as *not* mentioning -/
def PriorityFull : Prop :=
  ∀ (wt wt' : WT) (pre post : List Dict) (s : Dict) (ctx : Option Dict) (out : Dict) (p : List Str) (m v : J),
    applySrcs wt (pre ++ s :: post) = .ok wt' → resolve wt' ctx [] = .ok out → slotAt wt p = some m →
    Mentions p s v → (∀ t ∈ post, ¬ ∃ w, Mentions p t w) →
    getPath p (.dict out) = some v

/-- **witness (open finding C06-null-erases)**: class `a: int = 1`, sources `{a: 5}` then `{a: null}`: the later
    null does not mention `a`, yet the result is the definition default 1, not 5. -/
theorem c06_priority_full_witness : ¬ PriorityFull := by
  intro h
  have := h (.leaf ['a'] (some (.int 1)) .null .nil) (.leaf ['a'] (some (.int 1)) .null .nil)
    [] [[(['a'], .null)]] [(['a'], .int 5)] none [(['a'], .int 1)] [['a']] .null (.int 5)
    rfl rfl rfl ⟨rfl, rfl⟩ (by
      intro t ht
      simp at ht; subst ht
      rintro ⟨w, hw1, hw2⟩
      simp [getPath, dget] at hw1; subst hw1; simp [J.isNull] at hw2)
  simp [getPath, dget] at this

/-- **per-leaf priority, config files / set_defaults** (partial: `NoNullAt`): the last source that mentions the
    leaf wins over every earlier source, the default instance and the definition, when no command-line value is
    given -/
theorem c06_priority_partial (wt wt' : WT) (pre post : List Dict) (s : Dict) (ctx : Option Dict) (cmd out : Dict)
    (p : List Str) (m v : J)
    (hsrc : applySrcs wt (pre ++ s :: post) = .ok wt') (hres : resolve wt' ctx cmd = .ok out)
    (hp : slotAt wt p = some m) (hcmd : getPath p (.dict cmd) = none)
    (hs : Mentions p s v) (hpost : ∀ t ∈ post, ¬ ∃ w, Mentions p t w) (hnn : NoNullAt p post) :
    getPath p (.dict out) = some v := by
  obtain ⟨b, _, hg, _⟩ := c06_priority_general wt wt' _ ctx cmd out p m hsrc hres hp
  have hpost' : ∀ t ∈ post, getPath p (.dict t) = none := by
    intro t ht
    cases hv : getPath p (.dict t) with
    | none => rfl
    | some w => exact absurd ⟨w, hv, hnn.elim t ht w hv⟩ (hpost t ht)
  rw [hg, hcmd, foldAssign_last p pre post s m v hs.1 hpost']
  simp [pick, hs.2]

/-- the hypotheses are satisfiable: class `a: int = 1`, sources `{a: 5}`, `{a: 7}`, `{}` -/
example : getPath [['a']] (.dict [(['a'], .int 7)]) = some (.int 7) :=
  c06_priority_partial (.leaf ['a'] (some (.int 1)) .null .nil) (.leaf ['a'] (some (.int 1)) (.int 7) .nil)
    [[(['a'], .int 5)]] [[]] [(['a'], .int 7)] none [] _ [['a']] .null (.int 7) rfl rfl rfl rfl ⟨rfl, rfl⟩
    (by intro t ht; simp at ht; subst ht; rintro ⟨w, h1, _⟩; simp [getPath, dget] at h1) (by decide)

example : NoNullAt [['s', 'u', 'b'], ['b']] [[(['s', 'u', 'b'], .dict [(['b'], .int 7)])], [(['a'], .int 3)]] := by decide

/-- **the command line wins** over every file, default and definition -/
theorem c06_cmdline_wins (wt wt' : WT) (ds : List Dict) (ctx : Option Dict) (cmd out : Dict) (p : List Str) (m v : J)
    (hsrc : applySrcs wt ds = .ok wt') (hres : resolve wt' ctx cmd = .ok out)
    (hp : slotAt wt p = some m) (hcmd : getPath p (.dict cmd) = some v) :
    getPath p (.dict out) = some v := by
  obtain ⟨b, _, hg, _⟩ := c06_priority_general wt wt' ds ctx cmd out p m hsrc hres hp
  rw [hg, hcmd]; rfl

example : getPath [['s'], ['b']] (.dict [(['a'], .int 7), (['s'], .dict [(['b'], .int 9)])]) = some (.int 9) :=
  c06_cmdline_wins clsA clsA12 [srcA1, srcA2] none [(['s'], .dict [(['b'], .int 9)])] _ [['s'], ['b']] .null (.int 9)
    rfl rfl rfl rfl

/-- **leafwise merging**: a source that does not contain a leaf (it may set any of its siblings) has no influence
    on that leaf — the result there is what the remaining sources, the default instance and the definition give -/
theorem c06_leafwise (wt w1 w2 : WT) (pre post : List Dict) (s : Dict) (ctx : Option Dict) (cmd o1 o2 : Dict)
    (p : List Str) (m : J)
    (h1 : applySrcs wt (pre ++ s :: post) = .ok w1) (r1 : resolve w1 ctx cmd = .ok o1)
    (h2 : applySrcs wt (pre ++ post) = .ok w2) (r2 : resolve w2 ctx cmd = .ok o2)
    (hp : slotAt wt p = some m) (hs : getPath p (.dict s) = none) :
    getPath p (.dict o1) = getPath p (.dict o2) := by
  obtain ⟨b1, hb1, hg1, _⟩ := c06_priority_general wt w1 _ ctx cmd o1 p m h1 r1 hp
  obtain ⟨b2, hb2, hg2, _⟩ := c06_priority_general wt w2 _ ctx cmd o2 p m h2 r2 hp
  have : b1 = b2 := by rw [hb1] at hb2; exact Option.some.inj hb2
  rw [hg1, hg2, foldAssign_skip p pre post s m hs, this]

/-- non-vacuous: `srcA2 = {a: 7}` does not contain `s.b`; with or without it `s.b = 6` -/
example : getPath [['s'], ['b']] (.dict [(['a'], .int 7), (['s'], .dict [(['b'], .int 6)])]) =
    getPath [['s'], ['b']] (.dict [(['a'], .int 5), (['s'], .dict [(['b'], .int 6)])]) :=
  c06_leafwise clsA clsA12 (.leaf ['a'] (some (.int 1)) (.int 5) (.nested ['s'] none (.leaf ['b'] (some (.int 2)) (.int 6) .nil) .nil))
    [srcA1] [] srcA2 none [] _ _ [['s'], ['b']] .null rfl rfl rfl rfl rfl rfl

/-- **lowest layers**: a leaf no source contains and the command line does not give keeps what it had before the
    sources were applied: its slot if that is not None — after `add_arguments(default=inst)` the slot already holds the
    instance's attribute (`slotAt_initInst`), after `set_defaults(**kw)` the keyword value — and otherwise the attribute
    of the default instance its wrapper sees, else the definition default -/
theorem c06_falls_to_default (wt wt' : WT) (ds : List Dict) (ctx : Option Dict) (cmd out : Dict) (p : List Str) (m : J)
    (hsrc : applySrcs wt ds = .ok wt') (hres : resolve wt' ctx cmd = .ok out)
    (hp : slotAt wt p = some m) (hcmd : getPath p (.dict cmd) = none)
    (hds : ∀ t ∈ ds, getPath p (.dict t) = none) :
    ∃ b, baseAt wt ctx p = some b ∧ getPath p (.dict out) = some (if m.isNull then b else m) := by
  obtain ⟨b, hb, hg, _⟩ := c06_priority_general wt wt' ds ctx cmd out p m hsrc hres hp
  refine ⟨b, hb, ?_⟩
  rw [hg, hcmd, foldAssign_none p ds m hds]
  cases hm : m.isNull <;> simp [pick, hm]

/-- non-vacuous: no source mentions `s.b`, the slot is empty: the definition default 2 -/
example : ∃ b, baseAt clsA none [['s'], ['b']] = some b ∧
    getPath [['s'], ['b']] (.dict [(['a'], .int 7), (['s'], .dict [(['b'], .int 2)])]) = some (if J.null.isNull then b else .null) :=
  c06_falls_to_default clsA (.leaf ['a'] (some (.int 1)) (.int 7) (.nested ['s'] none (.leaf ['b'] (some (.int 2)) .null .nil) .nil))
    [srcA2] none [] _ [['s'], ['b']] .null rfl rfl rfl rfl
    (by intro t ht; simp at ht; subst ht; rfl)

/-- `DataclassWrapper.__init__` with a default instance: the slot of every leaf the instance has becomes the
    instance's attribute — the default-instance layer enters the theorems above as this initial slot -/
theorem slotAt_initInst : ∀ (cls : WT) (i : Dict) (p : List Str) (m v : J),
    slotAt cls p = some m → getPath p (.dict i) = some v → slotAt (initInst cls i) p = some v
  | .nil, i, p, m, v, hp, _ => by simp [slotAt] at hp
  | .leaf n df m0 rest, i, p, m, v, hp, hv => by
    cases p with
    | nil => simp [slotAt] at hp
    | cons k q =>
      by_cases hk : k = n
      · subst hk
        by_cases hq : q = []
        · subst hq
          cases hd : dget i k <;> simp [getPath, hd] at hv
          subst hv
          simp [initInst, slotAt, hd]
        · simp [slotAt, hq] at hp
      · simp only [slotAt, hk, if_false] at hp
        simpa [initInst, slotAt, hk] using slotAt_initInst rest i (k :: q) m v hp hv
  | .nested n fac sub rest, i, p, m, v, hp, hv => by
    cases p with
    | nil => simp [slotAt] at hp
    | cons k q =>
      by_cases hk : k = n
      · subst hk
        simp only [slotAt, if_true] at hp
        cases q with
        | nil => simp [slotAt_nil_path] at hp
        | cons k2 q2 =>
          cases hd : dget i k with
          | none => simp [getPath, hd] at hv
          | some x =>
            cases x <;> simp [getPath, hd] at hv
            rename_i d
            simpa [initInst, slotAt, hd] using slotAt_initInst sub d (k2 :: q2) m v hp (by simpa [getPath] using hv)
      · simp only [slotAt, hk, if_false] at hp
        simpa [initInst, slotAt, hk] using slotAt_initInst rest i (k :: q) m v hp hv

example : slotAt (initInst clsA [(['a'], .int 10), (['s'], .dict [(['b'], .int 11)])]) [['s'], ['b']] = some (.int 11) :=
  slotAt_initInst clsA _ [['s'], ['b']] .null (.int 11) rfl rfl

/-! ### unknown keys -/

/-- a key of the section that names no field (and is not `_type_`) makes `set_default` raise `RuntimeError`
    (unless a nested section already raised) -/
theorem c06_unknown_key_raises (wt : WT) (d : Dict) (hu : unknownKeys wt d = true) :
    (∃ e, setDefault wt d = .error e) ∧
    (∀ w, setFields wt d = .ok w → setDefault wt d = .error (.raise .runtimeError)) := by
  unfold setDefault
  cases hs : setFields wt d with
  | error e => exact ⟨⟨e, rfl⟩, fun w hw => by cases hw⟩
  | ok w => simp [hu]

example : unknownKeys (.leaf ['a'] none .null .nil) [(['a'], .int 1), (['z', 'z'], .int 2)] = true := by decide

/-- an unknown key at any depth below the section -/
def nestedUnknown : WT → Dict → Bool
  | .nil, _ => false
  | .leaf _ _ _ rest, d => nestedUnknown rest d
  | .nested n _ sub rest, d =>
    (match dget d n with
     | some (.dict d') => unknownKeys sub d' || nestedUnknown sub d'
     | _ => false) || nestedUnknown rest d

theorem setFields_nestedUnknown : ∀ (wt : WT) (d : Dict), nestedUnknown wt d = true → ∀ w, setFields wt d ≠ .ok w
  | .nil, d, h, w => by simp [nestedUnknown] at h
  | .leaf n df m rest, d, h, w => by
    simp only [nestedUnknown] at h
    intro hw
    simp only [setFields] at hw
    cases hr : setFields rest d with
    | error e => simp [hr] at hw
    | ok r => exact setFields_nestedUnknown rest d h r hr
  | .nested n fac sub rest, d, h, w => by
    intro hw
    simp only [setFields] at hw
    simp only [nestedUnknown, Bool.or_eq_true] at h
    cases hd : dget d n with
    | none =>
      simp [hd] at h
      cases hr : setFields rest d with
      | error e => simp [hd, hr] at hw
      | ok r => exact setFields_nestedUnknown rest d h r hr
    | some v =>
      cases v with
      | null =>
        simp [hd] at h
        cases hr : setFields rest d with
        | error e => simp [hd, hr] at hw
        | ok r => exact setFields_nestedUnknown rest d h r hr
      | int i => simp [hd] at hw
      | str s => simp [hd] at hw
      | atom s => simp [hd] at hw
      | dict d' =>
        cases hs : setFields sub d' with
        | error e => simp [hd, hs] at hw
        | ok sub' =>
          by_cases hu : unknownKeys sub d' = true
          · simp [hd, hs, hu] at hw
          · cases hr : setFields rest d with
            | error e => simp [hd, hs, hu, hr] at hw
            | ok r =>
              simp [hd, hu] at h
              rcases h with h | h
              · exact setFields_nestedUnknown sub d' h sub' hs
              · exact setFields_nestedUnknown rest d h r hr

/-- **unknown key at any depth ⇒ error, never silently dropped** -/
theorem c06_unknown_key_any_depth (wt : WT) (d : Dict)
    (h : unknownKeys wt d = true ∨ nestedUnknown wt d = true) : ∀ w, setDefault wt d ≠ .ok w := by
  intro w hw
  have ⟨hf, hu⟩ := setDefault_ok hw
  rcases h with h | h
  · simp [h] at hu
  · exact setFields_nestedUnknown wt d h w hf

example : nestedUnknown (.nested ['s'] none (.leaf ['b'] none .null .nil) .nil)
    [(['s'], .dict [(['b'], .int 1), (['q'], .int 2)])] = true := by decide

/-- non-vacuous, nested arm: `{s: {b: 1, q: 2}}` on `clsA` — `q` names no field of `S` — cannot succeed -/
example : ∀ w, setDefault clsA [(['s'], .dict [(['b'], .int 1), (['q'], .int 2)])] ≠ .ok w :=
  c06_unknown_key_any_depth clsA _ (Or.inr (by decide))

/-! ### the parser with one registration (`parse()`, or one `add_arguments`): which sources, in which order -/

/-- the files `parse_known_args` hands to `set_defaults`, in order: the constructor's, then — when the
    `--config_path` option exists — those named on the command line, or the constructor's again when it is absent -/
def fileSeq (p : ParseIn) : List Dict :=
  p.ctorFiles ++
    (match p.addArg with
     | some true => (match p.cliFiles with | some fs => fs | none => p.ctorFiles)
     | some false => []
     | none => if p.ctorFiles.isEmpty then [] else (match p.cliFiles with | some fs => fs | none => p.ctorFiles))

/-- what `set_defaults(file)` looks up per destination: root-less layout re-rooted under `dest`, else as is -/
def kwOf (withoutRoot : Bool) (dest : Str) (f : Dict) : Dict :=
  if withoutRoot then unionD [(dest, .dict f)] [(dest, .dict [])] else unionD f []

/-- the sections the wrapper at `dest` receives from a list of files (files without a section are skipped) -/
def fileSrcs (withoutRoot : Bool) (dest : Str) : List Dict → List Dict
  | [] => []
  | f :: fs =>
    match dget (kwOf withoutRoot dest f) dest with
    | some (.dict d) => d :: fileSrcs withoutRoot dest fs
    | _ => fileSrcs withoutRoot dest fs

/-- root-less layout: the section is the whole file (through `dict_union`) -/
theorem kwOf_rootless (dest : Str) (f : Dict) : dget (kwOf true dest f) dest = some (.dict (unionD f [])) := by
  simp only [kwOf, if_true]
  rw [dget_unionD]
  simp [dget, mergeVal, unionD]

/-- dest-keyed layout: the section is what the file holds under `dest` -/
theorem kwOf_dest (dest : Str) (f : Dict) : dget (kwOf false dest f) dest = (dget f dest).map norm := by
  simp only [kwOf, Bool.false_eq_true, if_false]
  exact c06_union_keeps_left f [] dest rfl

theorem fileSrcs_append (wr : Bool) (dest : Str) (a b : List Dict) :
    fileSrcs wr dest (a ++ b) = fileSrcs wr dest a ++ fileSrcs wr dest b := by
  induction a with
  | nil => rfl
  | cons f fs ih =>
    simp only [List.cons_append, fileSrcs]
    split <;> simp [ih]

theorem applySrcs_append : ∀ (a b : List Dict) (wt w1 w2 : WT),
    applySrcs wt a = .ok w1 → applySrcs w1 b = .ok w2 → applySrcs wt (a ++ b) = .ok w2
  | [], b, wt, w1, w2, h1, h2 => by simp [applySrcs] at h1; subst h1; simpa using h2
  | d :: ds, b, wt, w1, w2, h1, h2 => by
    simp only [applySrcs] at h1
    cases hs : setDefault wt d with
    | error e => simp [hs] at h1
    | ok w =>
      simp [hs] at h1
      simp only [List.cons_append, applySrcs, hs]
      exact applySrcs_append ds b w w1 w2 h1 h2

theorem effectiveKw_single (wr : Bool) (r : Reg) (f : Dict) :
    effectiveKw wr [r] (some f) [] = kwOf wr r.dest f := by
  cases wr <;> simp [effectiveKw, kwOf]

/-- one `set_defaults(file)` with a single wrapper = at most one `wrapper.set_default(section)` -/
theorem parserSetDefaults_single (wr : Bool) (st st' : PState) (r : Reg) (f : Dict)
    (hst : st.regs = [r]) (h : parserSetDefaults wr st (some f) [] = .ok st') :
    ∃ wt', st'.regs = [{ r with wt := wt' }] ∧ applySrcs r.wt (fileSrcs wr r.dest [f]) = .ok wt' := by
  unfold parserSetDefaults at h
  simp only [hst, effectiveKw_single] at h
  simp only [applyRegs] at h
  cases hd : dget (kwOf wr r.dest f) r.dest with
  | none =>
    simp [hd] at h; subst h
    exact ⟨r.wt, by simp, by simp [fileSrcs, hd, applySrcs]⟩
  | some v =>
    cases v with
    | null => simp [hd] at h
    | int i => simp [hd] at h
    | str s => simp [hd] at h
    | atom s => simp [hd] at h
    | dict d =>
      cases hs : setDefault r.wt d with
      | error e => simp [hd, hs] at h
      | ok w =>
        simp [hd, hs] at h; subst h
        exact ⟨w, by simp, by simp [fileSrcs, hd, applySrcs, hs]⟩

theorem applyFiles_single (wr : Bool) : ∀ (fs : List Dict) (st st' : PState) (r : Reg),
    st.regs = [r] → applyFiles wr st fs = .ok st' →
    ∃ wt', st'.regs = [{ r with wt := wt' }] ∧ applySrcs r.wt (fileSrcs wr r.dest fs) = .ok wt'
  | [], st, st', r, hst, h => by
    simp [applyFiles] at h; subst h
    exact ⟨r.wt, by simpa using hst, by simp [fileSrcs, applySrcs]⟩
  | f :: fs, st, st', r, hst, h => by
    simp only [applyFiles] at h
    cases hp : parserSetDefaults wr st (some f) [] with
    | error e => simp [hp] at h
    | ok st1 =>
      simp [hp] at h
      obtain ⟨w1, hr1, ha1⟩ := parserSetDefaults_single wr st st1 r f hst hp
      obtain ⟨w2, hr2, ha2⟩ := applyFiles_single wr fs st1 st' { r with wt := w1 } hr1 h
      refine ⟨w2, by simpa using hr2, ?_⟩
      have : fileSrcs wr r.dest (f :: fs) = fileSrcs wr r.dest [f] ++ fileSrcs wr r.dest fs := by
        rw [← fileSrcs_append]; rfl
      rw [this]
      exact applySrcs_append _ _ _ _ _ ha1 (by simpa using ha2)

/-- **order of the file layers**: a successful parse with one registration is: the wrapper's `set_default` on the
    sections of the constructor files in order, then of the `--config_path` files in order (the constructor files
    again when the option exists but is absent), then the resolution against the command line -/
theorem c06_parse_single (wr : Bool) (st : PState) (r : Reg) (pin : ParseIn) (out : Dict)
    (hst : st.regs = [r]) (h : parsePhase wr st pin = .ok out) :
    ∃ wt' i, applySrcs r.wt (fileSrcs wr r.dest (fileSeq pin)) = .ok wt' ∧
      resolve wt' r.inst (sectionOf (dget pin.cmd r.dest)) = .ok i ∧ out = [(r.dest, .dict i)] := by
  unfold parsePhase at h
  cases h1 : applyFiles wr st pin.ctorFiles with
  | error e => simp [h1] at h
  | ok st1 =>
    obtain ⟨w1, hr1, ha1⟩ := applyFiles_single wr _ st st1 r hst h1
    simp only [h1] at h
    -- the second batch of files
    have key : ∀ (second : Out PState) (extra : List Dict),
        (∀ st2, second = .ok st2 → ∃ w2, st2.regs = [{ r with wt := w2 }] ∧ applySrcs w1 (fileSrcs wr r.dest extra) = .ok w2) →
        ∀ (guard : Bool), ((match second with
          | .error e => .error e
          | .ok st2 => if guard then .error .exit2 else
            match resolveAll st2.regs pin.cmd with
            | .error e => .error e
            | .ok out => if typeKeyLeft st2.regs st2.cons then .error (.raise .typeError) else .ok out) : Out Dict) = .ok out →
        ∃ wt' i, applySrcs r.wt (fileSrcs wr r.dest (pin.ctorFiles ++ extra)) = .ok wt' ∧
          resolve wt' r.inst (sectionOf (dget pin.cmd r.dest)) = .ok i ∧ out = [(r.dest, .dict i)] := by
      intro second extra hsec guard hh
      cases hs : second with
      | error e => simp [hs] at hh
      | ok st2 =>
        obtain ⟨w2, hr2, ha2⟩ := hsec st2 hs
        simp only [hs] at hh
        cases guard with
        | true => simp at hh
        | false =>
          simp only [Bool.false_eq_true, if_false, hr2, resolveAll] at hh
          cases hres : resolve w2 r.inst (sectionOf (dget pin.cmd r.dest)) with
          | error e => simp [hres] at hh
          | ok i =>
            simp only [hres] at hh
            by_cases ht : typeKeyLeft [{ r with wt := w2 }] st2.cons = true
            · simp [ht] at hh
            · simp [ht] at hh
              refine ⟨w2, i, ?_, hres, hh.symm⟩
              rw [fileSrcs_append]
              exact applySrcs_append _ _ _ _ _ ha1 ha2
    have noop : ∀ st2, (Except.ok st1 : Out PState) = .ok st2 →
        ∃ w2, st2.regs = [{ r with wt := w2 }] ∧ applySrcs w1 (fileSrcs wr r.dest []) = .ok w2 := by
      intro st2 e; cases e; exact ⟨w1, hr1, by simp [fileSrcs, applySrcs]⟩
    have files : ∀ fs st2, applyFiles wr st1 fs = .ok st2 →
        ∃ w2, st2.regs = [{ r with wt := w2 }] ∧ applySrcs w1 (fileSrcs wr r.dest fs) = .ok w2 := by
      intro fs st2 e
      obtain ⟨w2, hr2, ha2⟩ := applyFiles_single wr fs st1 st2 { r with wt := w1 } hr1 e
      exact ⟨w2, by simpa using hr2, by simpa using ha2⟩
    unfold fileSeq
    cases haa : pin.addArg with
    | none =>
      simp only [haa] at h
      by_cases he : pin.ctorFiles.isEmpty = true
      · simp only [he, Bool.not_true, Bool.false_eq_true, if_false, if_true] at h ⊢
        exact key (.ok st1) [] noop _ h
      · simp only [he, Bool.not_false, if_true] at h ⊢
        cases hc : pin.cliFiles with
        | some fs =>
          simp only [hc] at h
          exact key _ fs (files fs) _ h
        | none =>
          simp only [hc] at h
          exact key _ pin.ctorFiles (files pin.ctorFiles) _ h
    | some b =>
      cases b with
      | false =>
        simp only [haa, Bool.false_eq_true, if_false] at h
        exact key (.ok st1) [] noop _ h
      | true =>
        simp only [haa, if_true] at h
        cases hc : pin.cliFiles with
        | some fs =>
          simp only [hc] at h
          exact key _ fs (files fs) _ h
        | none =>
          simp only [hc] at h
          exact key _ pin.ctorFiles (files pin.ctorFiles) _ h

/-- **per-leaf priority through the parser** (one registration): the leaf at `dest.p` ends up with the command-line
    value if given, else the value of the *last* file in `fileSeq` whose section contains the path (when not None),
    else the slot it had before the parse (default instance / `set_defaults` keywords), else the instance attribute
    or definition default -/
theorem c06_parse_priority (wr : Bool) (st : PState) (r : Reg) (pin : ParseIn) (out : Dict)
    (hst : st.regs = [r]) (h : parsePhase wr st pin = .ok out) (k : Str) (q : List Str) (m : J)
    (hp : slotAt r.wt (k :: q) = some m) :
    ∃ b, baseAt r.wt r.inst (k :: q) = some b ∧
      getPath (r.dest :: k :: q) (.dict out) =
        some (pick (getPath (r.dest :: k :: q) (.dict pin.cmd))
                   (foldAssign (k :: q) (fileSrcs wr r.dest (fileSeq pin)) m) b) := by
  obtain ⟨wt', i, hsrc, hres, hout⟩ := c06_parse_single wr st r pin out hst h
  obtain ⟨b, hb, hg, _⟩ := c06_priority_general r.wt wt' _ r.inst _ i (k :: q) m hsrc hres hp
  refine ⟨b, hb, ?_⟩
  have hcmd : getPath (r.dest :: k :: q) (.dict pin.cmd) = getPath (k :: q) (.dict (sectionOf (dget pin.cmd r.dest))) := by
    cases hc : dget pin.cmd r.dest with
    | none => simp [getPath, hc, dget, sectionOf]
    | some v => cases v <;> simp [getPath, hc, dget, sectionOf]
  rw [hcmd, hout]
  simpa [getPath, dget] using hg

/-! ### totality: a well-formed scenario *does* return a result -/

/-- every leaf gets a value: its `pick` (command line, else slot, else instance attribute / definition) is not None -/
def allPicked : WT → Option Dict → Dict → Bool
  | .nil, _, _ => true
  | .leaf n df m rest, ctx, cmd =>
    !(pick (dget cmd n) m (leafBase n df ctx)).isNull && allPicked rest ctx cmd
  | .nested n fac sub rest, ctx, cmd =>
    allPicked sub (childCtx n fac sub ctx) (sectionOf (dget cmd n)) && allPicked rest ctx cmd

theorem resolve_ok_of_allPicked : ∀ (wt : WT) (ctx : Option Dict) (cmd : Dict),
    allPicked wt ctx cmd = true → ∃ out, resolve wt ctx cmd = .ok out
  | .nil, _, _, _ => ⟨[], rfl⟩
  | .leaf n df m rest, ctx, cmd, h => by
    simp only [allPicked, Bool.and_eq_true, Bool.not_eq_true'] at h
    obtain ⟨r, hr⟩ := resolve_ok_of_allPicked rest ctx cmd h.2
    exact ⟨(n, pick (dget cmd n) m (leafBase n df ctx)) :: r, by rw [resolve_leaf]; simp [h.1, hr]⟩
  | .nested n fac sub rest, ctx, cmd, h => by
    simp only [allPicked, Bool.and_eq_true] at h
    obtain ⟨i, hi⟩ := resolve_ok_of_allPicked sub _ _ h.1
    obtain ⟨r, hr⟩ := resolve_ok_of_allPicked rest ctx cmd h.2
    exact ⟨(n, .dict i) :: r, by simp [resolve, hi, hr]⟩

/-- a nested section given a scalar (not a dict, not None) at any depth: `dataclasses.asdict` → `TypeError` -/
def scalarNested : WT → Dict → Bool
  | .nil, _ => false
  | .leaf _ _ _ rest, d => scalarNested rest d
  | .nested n _ sub rest, d =>
    (match dget d n with
     | none => false
     | some .null => false
     | some (.dict d') => scalarNested sub d'
     | some _ => true) || scalarNested rest d

theorem setFields_ok : ∀ (wt : WT) (d : Dict), nestedUnknown wt d = false → scalarNested wt d = false →
    ∃ w, setFields wt d = .ok w
  | .nil, d, _, _ => ⟨.nil, rfl⟩
  | .leaf n df m rest, d, hu, hs => by
    simp only [nestedUnknown] at hu
    simp only [scalarNested] at hs
    obtain ⟨r, hr⟩ := setFields_ok rest d hu hs
    cases hd : dget d n <;> simp [setFields, hr, hd]
  | .nested n fac sub rest, d, hu, hs => by
    simp only [nestedUnknown, Bool.or_eq_false_iff] at hu
    simp only [scalarNested, Bool.or_eq_false_iff] at hs
    obtain ⟨r, hr⟩ := setFields_ok rest d hu.2 hs.2
    cases hd : dget d n with
    | none => simp [setFields, hd, hr]
    | some v =>
      cases v with
      | null => simp [setFields, hd, hr]
      | int i => simp [hd] at hs
      | str x => simp [hd] at hs
      | atom x => simp [hd] at hs
      | dict d' =>
        simp only [hd, Bool.or_eq_false_iff] at hu hs
        obtain ⟨w, hw⟩ := setFields_ok sub d' hu.1.2 hs.1
        simp [setFields, hd, hw, hu.1.1, hr]

/-- a source the wrapper accepts: no key that names no field (at any depth), no scalar where a section is expected -/
def goodSrc (wt : WT) (d : Dict) : Bool := !unknownKeys wt d && !nestedUnknown wt d && !scalarNested wt d

/-- **`set_default` succeeds** on every well-formed source -/
theorem setDefault_ok_of_good (wt : WT) (d : Dict) (h : goodSrc wt d = true) : ∃ w, setDefault wt d = .ok w := by
  simp only [goodSrc, Bool.and_eq_true, Bool.not_eq_true'] at h
  obtain ⟨w, hw⟩ := setFields_ok wt d h.1.2 h.2
  exact ⟨w, by simp [setDefault, hw, h.1.1]⟩

theorem unknownKeys_upd {wt w : WT} (h : Upd wt w) (d : Dict) : unknownKeys w d = unknownKeys wt d := by
  simp [unknownKeys, names_upd h]

theorem nestedUnknown_upd {wt w : WT} (h : Upd wt w) : ∀ d, nestedUnknown w d = nestedUnknown wt d := by
  induction h with
  | nil => intro d; rfl
  | leaf _ ih => intro d; simp [nestedUnknown, ih]
  | nested hs _ ih1 ih2 =>
    intro d
    simp only [nestedUnknown, ih2]
    cases hd : dget d _ with
    | none => rfl
    | some v => cases v <;> simp [unknownKeys_upd hs, ih1]

theorem scalarNested_upd {wt w : WT} (h : Upd wt w) : ∀ d, scalarNested w d = scalarNested wt d := by
  induction h with
  | nil => intro d; rfl
  | leaf _ ih => intro d; simp [scalarNested, ih]
  | nested _ _ ih1 ih2 =>
    intro d
    simp only [scalarNested, ih2]
    cases hd : dget d _ with
    | none => rfl
    | some v => cases v <;> simp [ih1]

theorem goodSrc_upd {wt w : WT} (h : Upd wt w) (d : Dict) : goodSrc w d = goodSrc wt d := by
  simp [goodSrc, unknownKeys_upd h, nestedUnknown_upd h, scalarNested_upd h]

theorem applySrcs_ok : ∀ (ds : List Dict) (wt : WT), (∀ d ∈ ds, goodSrc wt d = true) → ∃ w, applySrcs wt ds = .ok w
  | [], wt, _ => ⟨wt, rfl⟩
  | d :: ds, wt, h => by
    obtain ⟨w1, h1⟩ := setDefault_ok_of_good wt d (h d (by simp))
    have hu := setFields_upd _ _ _ (setDefault_ok h1).1
    obtain ⟨w, hw⟩ := applySrcs_ok ds w1 (fun d' hd' => by rw [goodSrc_upd hu]; exact h d' (by simp [hd']))
    exact ⟨w, by simp [applySrcs, h1, hw]⟩

/-- **totality + priority**: when every source is well-formed and every leaf ends up with some value, the wrapper
    pipeline returns a result, and that result holds the priority value at every leaf -/
theorem c06_total (wt : WT) (ds : List Dict) (ctx : Option Dict) (cmd : Dict)
    (hgood : ∀ d ∈ ds, goodSrc wt d = true)
    (hpick : ∀ w, applySrcs wt ds = .ok w → allPicked w ctx cmd = true) :
    ∃ w out, applySrcs wt ds = .ok w ∧ resolve w ctx cmd = .ok out ∧
      ∀ p m, slotAt wt p = some m → ∃ b, baseAt wt ctx p = some b ∧
        getPath p (.dict out) = some (pick (getPath p (.dict cmd)) (foldAssign p ds m) b) := by
  obtain ⟨w, hw⟩ := applySrcs_ok ds wt hgood
  obtain ⟨out, ho⟩ := resolve_ok_of_allPicked w ctx cmd (hpick w hw)
  refine ⟨w, out, hw, ho, fun p m hp => ?_⟩
  obtain ⟨b, hb, hg, _⟩ := c06_priority_general wt w ds ctx cmd out p m hw ho hp
  exact ⟨b, hb, hg⟩

/-- a condition on the *class and command line alone* that makes every leaf end up with a value whatever the sources
    do: each leaf has a definition default / instance attribute, and no command-line value is None -/
def allBased : WT → Option Dict → Dict → Bool
  | .nil, _, _ => true
  | .leaf n df _ rest, ctx, cmd =>
    (match dget cmd n with
     | some v => !v.isNull
     | none => !(leafBase n df ctx).isNull) && allBased rest ctx cmd
  | .nested n fac sub rest, ctx, cmd =>
    allBased sub (childCtx n fac sub ctx) (sectionOf (dget cmd n)) && allBased rest ctx cmd

theorem allPicked_of_allBased {wt w : WT} (h : Upd wt w) : ∀ ctx cmd, allBased wt ctx cmd = true → allPicked w ctx cmd = true := by
  induction h with
  | nil => intro ctx cmd _; rfl
  | @leaf n df m m' rest rest' _ ih =>
    intro ctx cmd hb
    simp only [allBased, Bool.and_eq_true] at hb
    simp only [allPicked, Bool.and_eq_true, ih ctx cmd hb.2, and_true]
    cases hc : dget cmd n with
    | some v => simpa [hc, pick] using hb.1
    | none =>
      have := hb.1; simp only [hc] at this
      cases hm : m'.isNull <;> simp_all [pick]
  | nested hs _ ih1 ih2 =>
    intro ctx cmd hb
    simp only [allBased, Bool.and_eq_true] at hb
    simp only [allPicked, Bool.and_eq_true, childCtx, construct_upd hs]
    exact ⟨ih1 _ _ (by simpa [childCtx] using hb.1), ih2 _ _ hb.2⟩

/-- **corollary**: a class whose every leaf has a definition default (or a default instance), well-formed sources, a
    command line without None ⇒ the pipeline returns `.ok` with the priority value at every leaf -/
theorem c06_total_of_defaults (wt : WT) (ds : List Dict) (ctx : Option Dict) (cmd : Dict)
    (hgood : ∀ d ∈ ds, goodSrc wt d = true) (hbase : allBased wt ctx cmd = true) :
    ∃ w out, applySrcs wt ds = .ok w ∧ resolve w ctx cmd = .ok out ∧
      ∀ p m, slotAt wt p = some m → ∃ b, baseAt wt ctx p = some b ∧
        getPath p (.dict out) = some (pick (getPath p (.dict cmd)) (foldAssign p ds m) b) :=
  c06_total wt ds ctx cmd hgood (fun w hw => allPicked_of_allBased (applySrcs_upd ds wt w hw) ctx cmd hbase)

/-- non-vacuous: `clsA` (every leaf has a definition default) with `srcA1`, `srcA2` and an empty command line -/
example : ∃ w out, applySrcs clsA [srcA1, srcA2] = .ok w ∧ resolve w none [] = .ok out := by
  obtain ⟨w, out, h1, h2, _⟩ := c06_total_of_defaults clsA [srcA1, srcA2] none []
    (by intro d hd; simp at hd; rcases hd with rfl | rfl <;> decide) (by decide)
  exact ⟨w, out, h1, h2⟩

/-! ### unknown keys, at the level of the parser -/

theorem applySrcs_mem : ∀ (ds : List Dict) (wt w : WT) (d : Dict), applySrcs wt ds = .ok w → d ∈ ds →
    ∃ w1 w2, Upd wt w1 ∧ setDefault w1 d = .ok w2
  | [], _, _, _, _, hd => by cases hd
  | d0 :: ds, wt, w, d, h, hd => by
    simp only [applySrcs] at h
    cases hs : setDefault wt d0 with
    | error e => simp [hs] at h
    | ok w0 =>
      simp [hs] at h
      rcases List.mem_cons.mp hd with rfl | hd'
      · exact ⟨wt, w0, Upd.refl _, hs⟩
      · obtain ⟨w1, w2, hu, h2⟩ := applySrcs_mem ds w0 w d h hd'
        exact ⟨w1, w2, (setFields_upd _ _ _ (setDefault_ok hs).1).trans hu, h2⟩

/-- **an unknown key in any file section makes the whole parse fail** (it cannot return a result): the section `d` of
    any of the files `parse_known_args` applies, holding a key that names no field of the registered class — at the top
    of the section or at any depth below it -/
theorem c06_parse_unknown_key (wr : Bool) (st : PState) (r : Reg) (pin : ParseIn) (hst : st.regs = [r])
    (d : Dict) (hd : d ∈ fileSrcs wr r.dest (fileSeq pin))
    (hu : unknownKeys r.wt d = true ∨ nestedUnknown r.wt d = true) : ∀ out, parsePhase wr st pin ≠ .ok out := by
  intro out h
  obtain ⟨wt', _, hsrc, _, _⟩ := c06_parse_single wr st r pin out hst h
  obtain ⟨w1, w2, hupd, h2⟩ := applySrcs_mem _ _ _ d hsrc hd
  exact c06_unknown_key_any_depth w1 d (by rw [unknownKeys_upd hupd, nestedUnknown_upd hupd]; exact hu) w2 h2

def stA : PState := { regs := [{ dest := ['c'], wt := clsA, inst := none }], cons := [], stray := [] }

/-- non-vacuous: a constructor file `{s: {z: 5}}` (root-less layout) — `z` names no field of `S` -/
example : ∀ out, parsePhase true stA { ctorFiles := [[(['s'], .dict [(['z'], .int 5)])]], addArg := none,
                                       cliFiles := none, cmd := [] } ≠ .ok out :=
  c06_parse_unknown_key true stA { dest := ['c'], wt := clsA, inst := none } _ rfl
    (unionD [(['s'], .dict [(['z'], .int 5)])] []) (List.Mem.head _) (Or.inr (by decide))

/-! ### the two file layers, in order -/

/-- what file `f` says about the leaf at `dest.p` (after re-rooting for the root-less layout) -/
def fileHas (wr : Bool) (dest : Str) (f : Dict) (p : List Str) : Option J :=
  match dget (kwOf wr dest f) dest with
  | some (.dict d) => getPath p (.dict d)
  | _ => none

def foldFiles (wr : Bool) (dest : Str) (p : List Str) : List Dict → J → J
  | [], m => m
  | f :: fs, m => foldFiles wr dest p fs (assign (fileHas wr dest f p) m)

theorem foldAssign_fileSrcs (wr : Bool) (dest : Str) (p : List Str) : ∀ (fs : List Dict) (m : J),
    foldAssign p (fileSrcs wr dest fs) m = foldFiles wr dest p fs m
  | [], m => rfl
  | f :: fs, m => by
    cases h : dget (kwOf wr dest f) dest with
    | none => simp [fileSrcs, foldFiles, fileHas, h, assign, foldAssign_fileSrcs wr dest p fs]
    | some v =>
      cases v <;> simp [fileSrcs, foldFiles, fileHas, h, assign, foldAssign, foldAssign_fileSrcs wr dest p fs]

theorem foldFiles_append (wr : Bool) (dest : Str) (p : List Str) (a b : List Dict) (m : J) :
    foldFiles wr dest p (a ++ b) m = foldFiles wr dest p b (foldFiles wr dest p a m) := by
  induction a generalizing m with
  | nil => rfl
  | cons f fs ih => simp [foldFiles, ih]

theorem foldFiles_none (wr : Bool) (dest : Str) (p : List Str) (fs : List Dict) (m : J)
    (h : ∀ t ∈ fs, fileHas wr dest t p = none) : foldFiles wr dest p fs m = m := by
  induction fs generalizing m with
  | nil => rfl
  | cons f fs ih =>
    simp only [foldFiles, h f (by simp), assign]
    exact ih m (fun t ht => h t (by simp [ht]))

/-- within one list of files the last one that has the leaf decides, whatever came before -/
theorem foldFiles_last (wr : Bool) (dest : Str) (p : List Str) (pre post : List Dict) (f : Dict) (v : J)
    (hf : fileHas wr dest f p = some v) (hpost : ∀ t ∈ post, fileHas wr dest t p = none) (m : J) :
    foldFiles wr dest p (pre ++ f :: post) m = v := by
  rw [foldFiles_append]
  simp only [foldFiles, hf, assign]
  exact foldFiles_none wr dest p post v hpost

/-- `add_config_path_arg` as the constructor resolves it (parsing.py:167-170) -/
def addArgOn (p : ParseIn) : Bool :=
  match p.addArg with
  | some b => b
  | none => !p.ctorFiles.isEmpty

theorem fileSeq_eq (p : ParseIn) :
    fileSeq p = p.ctorFiles ++ (if addArgOn p then (match p.cliFiles with | some fs => fs | none => p.ctorFiles) else []) := by
  unfold fileSeq addArgOn
  cases p.addArg with
  | none => cases p.ctorFiles.isEmpty <;> simp
  | some b => cases b <;> simp

/-- **`--config_path` files beat constructor files, and among themselves the later one wins**: the last command-line
    file that gives the leaf a non-None value decides, whatever the constructor files and the earlier command-line
    files say, when no explicit option is given for the leaf -/
theorem c06_cli_layer_wins (wr : Bool) (st : PState) (r : Reg) (pin : ParseIn) (out : Dict)
    (hst : st.regs = [r]) (h : parsePhase wr st pin = .ok out) (k : Str) (q : List Str) (m : J)
    (hp : slotAt r.wt (k :: q) = some m)
    (pre post : List Dict) (f : Dict) (v : J)
    (hcli : pin.cliFiles = some (pre ++ f :: post)) (hon : addArgOn pin = true)
    (hf : fileHas wr r.dest f (k :: q) = some v) (hv : v.isNull = false)
    (hpost : ∀ t ∈ post, fileHas wr r.dest t (k :: q) = none)
    (hcmd : getPath (r.dest :: k :: q) (.dict pin.cmd) = none) :
    getPath (r.dest :: k :: q) (.dict out) = some v := by
  obtain ⟨b, _, hg⟩ := c06_parse_priority wr st r pin out hst h k q m hp
  rw [hg, hcmd, foldAssign_fileSrcs, fileSeq_eq, hon, hcli]
  simp only [if_true]
  rw [← List.append_assoc, foldFiles_last wr r.dest (k :: q) _ post f v hf hpost]
  simp [pick, hv]

/-- **constructor files in order, below the `--config_path` files**: the last constructor file that gives the leaf a
    non-None value decides when no command-line file has the leaf and no explicit option is given (also when the
    constructor files are applied a second time because `--config_path` is absent) -/
theorem c06_ctor_layer_wins (wr : Bool) (st : PState) (r : Reg) (pin : ParseIn) (out : Dict)
    (hst : st.regs = [r]) (h : parsePhase wr st pin = .ok out) (k : Str) (q : List Str) (m : J)
    (hp : slotAt r.wt (k :: q) = some m)
    (pre post : List Dict) (f : Dict) (v : J)
    (hctor : pin.ctorFiles = pre ++ f :: post)
    (hf : fileHas wr r.dest f (k :: q) = some v) (hv : v.isNull = false)
    (hpost : ∀ t ∈ post, fileHas wr r.dest t (k :: q) = none)
    (hcli : ∀ fs, pin.cliFiles = some fs → ∀ t ∈ fs, fileHas wr r.dest t (k :: q) = none)
    (hcmd : getPath (r.dest :: k :: q) (.dict pin.cmd) = none) :
    getPath (r.dest :: k :: q) (.dict out) = some v := by
  obtain ⟨b, _, hg⟩ := c06_parse_priority wr st r pin out hst h k q m hp
  have hL : ∀ m', foldFiles wr r.dest (k :: q) pin.ctorFiles m' = v := by
    intro m'; rw [hctor]; exact foldFiles_last wr r.dest (k :: q) pre post f v hf hpost m'
  have : foldFiles wr r.dest (k :: q) (fileSeq pin) m = v := by
    rw [fileSeq_eq, foldFiles_append, hL]
    cases addArgOn pin with
    | false => rfl
    | true =>
      simp only [if_true]
      cases hc : pin.cliFiles with
      | some fs => exact foldFiles_none wr r.dest (k :: q) fs v (hcli fs hc)
      | none => exact hL v
  rw [hg, hcmd, foldAssign_fileSrcs, this]
  simp [pick, hv]

/-! ### from the construction of the parser: default instance < `set_defaults(**kw)` < files < command line -/

theorem setFields_nil : ∀ wt : WT, setFields wt [] = .ok wt
  | .nil => rfl
  | .leaf n df m rest => by simp [setFields, setFields_nil rest, dget]
  | .nested n fac sub rest => by simp [setFields, setFields_nil rest, dget]

theorem setDefault_nil (wt : WT) : setDefault wt [] = .ok wt := by
  simp [setDefault, setFields_nil, unknownKeys]

/-- the sections the wrapper at `dest` receives from `set_defaults(**kw)` calls (dest-keyed keywords) -/
def kwSrcs (dest : Str) : List Dict → List Dict
  | [] => []
  | kw :: kws =>
    match dget kw dest with
    | some (.dict d) => d :: kwSrcs dest kws
    | _ => kwSrcs dest kws

theorem parserSetDefaults_kw_single (wr : Bool) (st st' : PState) (r : Reg) (kw : Dict)
    (hst : st.regs = [r]) (h : parserSetDefaults wr st none kw = .ok st') :
    ∃ w, st'.regs = [{ r with wt := w }] ∧ applySrcs r.wt (kwSrcs r.dest [kw]) = .ok w := by
  unfold parserSetDefaults at h
  simp only [hst, effectiveKw, applyRegs] at h
  cases hd : dget kw r.dest with
  | none =>
    simp [hd] at h; subst h
    exact ⟨r.wt, by simp, by simp [kwSrcs, hd, applySrcs]⟩
  | some v =>
    cases v with
    | null => simp [hd] at h
    | int i => simp [hd] at h
    | str x => simp [hd] at h
    | atom x => simp [hd] at h
    | dict d =>
      cases hs : setDefault r.wt d with
      | error e => simp [hd, hs] at h
      | ok w =>
        simp [hd, hs] at h; subst h
        exact ⟨w, by simp, by simp [kwSrcs, hd, applySrcs, hs]⟩

theorem kwSrcs_cons (dest : Str) (kw : Dict) (kws : List Dict) :
    kwSrcs dest (kw :: kws) = kwSrcs dest [kw] ++ kwSrcs dest kws := by
  simp only [kwSrcs]; split <;> simp

theorem applyKwargs_single (wr : Bool) : ∀ (kws : List Dict) (st st' : PState) (r : Reg),
    st.regs = [r] → applyKwargs wr st kws = .ok st' →
    ∃ w, st'.regs = [{ r with wt := w }] ∧ applySrcs r.wt (kwSrcs r.dest kws) = .ok w
  | [], st, st', r, hst, h => by
    simp [applyKwargs] at h; subst h
    exact ⟨r.wt, by simpa using hst, by simp [kwSrcs, applySrcs]⟩
  | kw :: kws, st, st', r, hst, h => by
    simp only [applyKwargs] at h
    cases hp : parserSetDefaults wr st none kw with
    | error e => simp [hp] at h
    | ok st1 =>
      simp [hp] at h
      obtain ⟨w1, hr1, ha1⟩ := parserSetDefaults_kw_single wr st st1 r kw hst hp
      obtain ⟨w2, hr2, ha2⟩ := applyKwargs_single wr kws st1 st' { r with wt := w1 } hr1 h
      refine ⟨w2, by simpa using hr2, ?_⟩
      rw [kwSrcs_cons]
      exact applySrcs_append _ _ _ _ _ ha1 (by simpa using ha2)

/-- the wrapper `add_arguments(cls, dest, default=inst)` creates on a fresh parser: the class, with the default
    instance's attributes pushed into the slots -/
def wt0Of (cls : WT) (inst : Option Dict) : WT :=
  match inst with
  | some i => initInst cls i
  | none => cls

theorem addArguments_empty (wr : Bool) (dest : Str) (cls : WT) (inst : Option Dict) :
    addArguments wr emptyState dest cls inst =
      .ok { regs := [{ dest := dest, wt := wt0Of cls inst, inst := inst }], cons := [], stray := [] } := by
  cases inst <;> simp [addArguments, emptyState, dget, wt0Of, setDefault_nil]

/-- one registration, no keywords before it: the state `build` reaches -/
theorem c06_build_single (c : Case) (ri : RegIn) (st : PState)
    (hb : c.kwBefore = []) (hr : c.regs = [ri]) (h : build c = .ok st) :
    ∃ inst w, st.regs = [{ dest := ri.dest, wt := w, inst := inst }] ∧
      (∀ kw, ri.instKw = some kw → construct ri.cls kw = inst) ∧ (ri.instKw = none → inst = none) ∧
      applySrcs (wt0Of ri.cls inst) (kwSrcs ri.dest c.kwAfter) = .ok w := by
  unfold build at h
  simp only [hb, hr, applyKwargs, addAll] at h
  by_cases hf : facOk ri.cls = true
  · simp only [hf, Bool.not_true, Bool.false_eq_true, if_false] at h
    cases hk : ri.instKw with
    | none =>
      simp only [hk, addArguments_empty] at h
      obtain ⟨w, hw1, hw2⟩ := applyKwargs_single c.withoutRoot c.kwAfter _ st _ rfl h
      refine ⟨none, w, ?_, ?_, ?_, ?_⟩
      · simpa using hw1
      · intro kw e; cases e
      · intro _; rfl
      · simpa using hw2
    | some kw =>
      cases hc : construct ri.cls kw with
      | none => simp [hk, hc] at h
      | some i =>
        simp only [hk, hc, addArguments_empty] at h
        obtain ⟨w, hw1, hw2⟩ := applyKwargs_single c.withoutRoot c.kwAfter _ st _ rfl h
        refine ⟨some i, w, ?_, ?_, ?_, ?_⟩
        · simpa using hw1
        · intro kw' e; cases e; exact hc
        · intro e; cases e
        · simpa using hw2
  · simp [hf] at h

/-- **all five layers, from `run`** (one registration, no keywords before it): the leaf at `dest.p` of the result is
    the command-line value if given, else the value of the last source — `set_defaults(**kw)` calls in order, then the
    constructor files in order, then the `--config_path` files in order — that contains the leaf (if not None), else
    the slot the default instance left (`slotAt_initInst`: its attribute), else the instance attribute / definition
    default the wrapper sees -/
theorem c06_run_layers (c : Case) (ri : RegIn) (out : Dict)
    (hb : c.kwBefore = []) (hr : c.regs = [ri]) (h : run c = .ok out) :
    ∃ inst, (∀ kw, ri.instKw = some kw → construct ri.cls kw = inst) ∧ (ri.instKw = none → inst = none) ∧
      ∀ (k : Str) (q : List Str) (m : J), slotAt (wt0Of ri.cls inst) (k :: q) = some m →
        ∃ b, baseAt (wt0Of ri.cls inst) inst (k :: q) = some b ∧
          getPath (ri.dest :: k :: q) (.dict out) =
            some (pick (getPath (ri.dest :: k :: q) (.dict c.parse.cmd))
                       (foldAssign (k :: q) (kwSrcs ri.dest c.kwAfter ++
                                             fileSrcs c.withoutRoot ri.dest (fileSeq c.parse)) m) b) := by
  unfold run at h
  cases hbd : build c with
  | error e => simp [hbd] at h
  | ok st =>
    simp only [hbd] at h
    obtain ⟨inst, w, hregs, hi1, hi2, hkw⟩ := c06_build_single c ri st hb hr hbd
    refine ⟨inst, hi1, hi2, fun k q m hp => ?_⟩
    obtain ⟨wt', i, hsrc, hres, hout⟩ := c06_parse_single c.withoutRoot st _ c.parse out hregs h
    have hall := applySrcs_append _ _ _ _ _ hkw hsrc
    obtain ⟨b, hb', hg, _⟩ := c06_priority_general _ wt' _ inst _ i (k :: q) m hall hres hp
    refine ⟨b, hb', ?_⟩
    have hcmd : getPath (ri.dest :: k :: q) (.dict c.parse.cmd) =
        getPath (k :: q) (.dict (sectionOf (dget c.parse.cmd ri.dest))) := by
      cases hc : dget c.parse.cmd ri.dest with
      | none => simp [getPath, hc, dget, sectionOf]
      | some v => cases v <;> simp [getPath, hc, dget, sectionOf]
    rw [hcmd, hout]
    simpa [getPath, dget] using hg

/-- non-vacuous: `add_arguments(A, "c", default=A(a=10, s=S(b=11)))`, `set_defaults(c={"a": 20})`, constructor file
    `{s: {b: 6}}`: `a = 20` (keywords over instance), `s.b = 6` (file over instance) -/
example : run { withoutRoot := true, kwBefore := [],
                regs := [{ dest := ['c'], cls := clsA, instKw := some [(['a'], .int 10), (['s'], .dict [(['b'], .int 11)])] }],
                kwAfter := [[(['c'], .dict [(['a'], .int 20)])]],
                parse := { ctorFiles := [[(['s'], .dict [(['b'], .int 6)])]], addArg := none, cliFiles := none, cmd := [] } }
    = .ok [(['c'], .dict [(['a'], .int 20), (['s'], .dict [(['b'], .int 6)])])] := rfl

def pinA : ParseIn := { ctorFiles := [srcA1], addArg := none, cliFiles := some [srcA2],
                        cmd := [(['c'], .dict [(['s'], .dict [(['b'], .int 9)])])] }
def outA : Dict := [(['c'], .dict [(['a'], .int 7), (['s'], .dict [(['b'], .int 9)])])]

/-- non-vacuous: constructor file says `a = 5`, the `--config_path` file says `a = 7`: 7 -/
example : getPath [['c'], ['a']] (.dict outA) = some (.int 7) :=
  c06_cli_layer_wins true stA { dest := ['c'], wt := clsA, inst := none } pinA outA rfl rfl ['a'] [] .null rfl
    [] [] srcA2 (.int 7) rfl rfl rfl rfl (by intro t ht; cases ht) rfl

/-- non-vacuous: only the constructor file has `s.b` (= 6); `--config_path` absent, so the file is applied twice -/
example : getPath [['c'], ['s'], ['b']] (.dict [(['c'], .dict [(['a'], .int 5), (['s'], .dict [(['b'], .int 6)])])]) = some (.int 6) :=
  c06_ctor_layer_wins true stA { dest := ['c'], wt := clsA, inst := none }
    { ctorFiles := [srcA1], addArg := none, cliFiles := none, cmd := [] } _ rfl rfl ['s'] [['b']] .null rfl
    [] [] srcA1 (.int 6) rfl rfl rfl (by intro t ht; cases ht) (by intro fs h; cases h) rfl

/-! ### the parser: order of the file layers, and the two open findings reproduced end to end -/


/-- constructor files, then `--config_path` files, then the command line, leaf by leaf (`parse()` layout) -/
example : run { withoutRoot := true, kwBefore := [], regs := [regA], kwAfter := [],
                parse := { ctorFiles := [[(['a'], .int 5), (['s'], .dict [(['b'], .int 6)])]],
                           addArg := none, cliFiles := some [[(['a'], .int 7)]],
                           cmd := [(['c'], .dict [(['s'], .dict [(['b'], .int 9)])])] } }
    = .ok [(['c'], .dict [(['a'], .int 7), (['s'], .dict [(['b'], .int 9)])])] := rfl

/-- `c06_parse_priority` applies to it: the nested leaf `c.s.b` (slot empty before the parse) -/
example : ∃ b, baseAt clsA none [['s'], ['b']] = some b ∧
    getPath [['c'], ['s'], ['b']] (.dict [(['c'], .dict [(['a'], .int 7), (['s'], .dict [(['b'], .int 9)])])]) =
      some (pick (some (.int 9)) (foldAssign [['s'], ['b']] [unionD [(['a'], .int 5), (['s'], .dict [(['b'], .int 6)])] [],
                                                             unionD [(['a'], .int 7)] []] .null) b) :=
  c06_parse_priority true { regs := [{ dest := ['c'], wt := clsA, inst := none }], cons := [], stray := [] }
    { dest := ['c'], wt := clsA, inst := none }
    { ctorFiles := [[(['a'], .int 5), (['s'], .dict [(['b'], .int 6)])]],
      addArg := none, cliFiles := some [[(['a'], .int 7)]],
      cmd := [(['c'], .dict [(['s'], .dict [(['b'], .int 9)])])] } _ rfl rfl ['s'] [['b']] .null rfl

/-- **witness (open finding C06-null-erases), end to end**: files `[{a: 5, s: {b: 6}}, {a: null}]` give `a = 1` -/
theorem c06_null_erases_witness :
    run { withoutRoot := true, kwBefore := [], regs := [regA], kwAfter := [],
          parse := { ctorFiles := [[(['a'], .int 5), (['s'], .dict [(['b'], .int 6)])], [(['a'], .null)]],
                     addArg := none, cliFiles := none, cmd := [] } }
    = .ok [(['c'], .dict [(['a'], .int 1), (['s'], .dict [(['b'], .int 6)])])] := rfl

/-- an unknown key in a file is a `RuntimeError` of the whole parse -/
theorem c06_unknown_key_e2e_witness :
    run { withoutRoot := true, kwBefore := [], regs := [regA], kwAfter := [],
          parse := { ctorFiles := [[(['s'], .dict [(['z'], .int 5)])]], addArg := none,
                     cliFiles := none, cmd := [] } }
    = .error (.raise .runtimeError) := rfl

/-! ### Optional members: instance or `None` (the collapse decision of `_create_dataclass_instance`) -/

/-- some leaf below receives an explicit command-line value different from its default -/
def hasNonDefaultArg : OT → Bool
  | .nil => false
  | .leaf _ d a rest => (match a with
                         | some v => !J.eqScalar v d
                         | none => false) || hasNonDefaultArg rest
  | .member _ _ sub rest => hasNonDefaultArg sub || hasNonDefaultArg rest

theorem atDefault_eq_not_hasNonDefaultArg : ∀ t : OT, atDefault t = !hasNonDefaultArg t
  | .nil => rfl
  | .leaf n d a rest => by
    cases a with
    | none => simp [atDefault, hasNonDefaultArg, atDefault_eq_not_hasNonDefaultArg rest]
    | some v => cases h : J.eqScalar v d <;> simp [atDefault, hasNonDefaultArg, h, atDefault_eq_not_hasNonDefaultArg rest]
  | .member n o sub rest => by
    simp [atDefault, hasNonDefaultArg, atDefault_eq_not_hasNonDefaultArg sub, atDefault_eq_not_hasNonDefaultArg rest]

/-- **a command-line value different from its default, anywhere below an Optional member, makes the member an
    instance** (true since 3f531df + d1d203e) -/
theorem c06_member_instance_of_nondefault_arg (n : Str) (opt : Bool) (sub rest : OT)
    (h : hasNonDefaultArg sub = true) :
    collapse opt sub = false ∧ dget (built (.member n opt sub rest)) n = some (.dict (built sub)) := by
  have hc : collapse opt sub = false := by simp [collapse, atDefault_eq_not_hasNonDefaultArg, h]
  exact ⟨hc, by simp [built, dget, hc]⟩

/-- the leaf at a path of names (first field with each name): its default and its explicit value -/
def leafAt : OT → List Str → Option (J × Option J)
  | .nil, _ => none
  | .leaf _ _ _ _, [] => none
  | .member _ _ _ _, [] => none
  | .leaf n d a rest, k :: q => if k = n then (if q = [] then some (d, a) else none) else leafAt rest (k :: q)
  | .member n _ sub rest, k :: q => if k = n then leafAt sub q else leafAt rest (k :: q)

theorem hasNonDefaultArg_of_leafAt : ∀ (t : OT) (p : List Str) (d v : J),
    leafAt t p = some (d, some v) → J.eqScalar v d = false → hasNonDefaultArg t = true
  | .nil, p, d, v, h, _ => by simp [leafAt] at h
  | .leaf n d0 a rest, p, d, v, h, hne => by
    cases p with
    | nil => simp [leafAt] at h
    | cons k q =>
      by_cases hk : k = n
      · by_cases hq : q = []
        · simp [leafAt, hk, hq] at h
          obtain ⟨rfl, rfl⟩ := h
          simp [hasNonDefaultArg, hne]
        · simp [leafAt, hk, hq] at h
      · simp only [leafAt, hk, if_false] at h
        simp [hasNonDefaultArg, hasNonDefaultArg_of_leafAt rest (k :: q) d v h hne]
  | .member n o sub rest, p, d, v, h, hne => by
    cases p with
    | nil => simp [leafAt] at h
    | cons k q =>
      by_cases hk : k = n
      · simp only [leafAt, hk, if_true] at h
        simp [hasNonDefaultArg, hasNonDefaultArg_of_leafAt sub q d v h hne]
      · simp only [leafAt, hk, if_false] at h
        simp [hasNonDefaultArg, hasNonDefaultArg_of_leafAt rest (k :: q) d v h hne]

/-- **the value is not lost**: an explicit command-line value different from the leaf's default is found at the leaf's
    path in the result, however many Optional (or plain) members lie above it -/
theorem c06_cmd_value_reaches_result : ∀ (t : OT) (p : List Str) (d v : J),
    leafAt t p = some (d, some v) → J.eqScalar v d = false → getPath p (.dict (built t)) = some v
  | .nil, p, d, v, h, _ => by simp [leafAt] at h
  | .leaf n d0 a rest, p, d, v, h, hne => by
    cases p with
    | nil => simp [leafAt] at h
    | cons k q =>
      by_cases hk : k = n
      · by_cases hq : q = []
        · simp [leafAt, hk, hq] at h
          obtain ⟨rfl, rfl⟩ := h
          simp [built, getPath, dget, hk, hq]
        · simp [leafAt, hk, hq] at h
      · simp only [leafAt, hk, if_false] at h
        have ih := c06_cmd_value_reaches_result rest (k :: q) d v h hne
        have hk' : ¬ n = k := fun e => hk e.symm
        simpa [built, getPath, dget, hk'] using ih
  | .member n o sub rest, p, d, v, h, hne => by
    cases p with
    | nil => simp [leafAt] at h
    | cons k q =>
      by_cases hk : k = n
      · subst hk
        simp only [leafAt, if_true] at h
        have hc := (c06_member_instance_of_nondefault_arg k o sub rest
          (hasNonDefaultArg_of_leafAt sub q d v h hne)).1
        have ih := c06_cmd_value_reaches_result sub q d v h hne
        simpa [built, getPath, dget, hc] using ih
      · simp only [leafAt, hk, if_false] at h
        have ih := c06_cmd_value_reaches_result rest (k :: q) d v h hne
        have hk' : ¬ n = k := fun e => hk e.symm
        simpa [built, getPath, dget, hk'] using ih

/-- `R.inner: Optional[Inner] = None`, `Inner.x = 2`, `Inner.deep: Optional[Deep] = None`, `Deep.y = 1`, argv `--y 15` -/
def otDeep : OT :=
  .leaf ['a'] (.int 4) none
    (.member ['i', 'n', 'n', 'e', 'r'] true
      (.leaf ['x'] (.int 2) none (.member ['d', 'e', 'e', 'p'] true (.leaf ['y'] (.int 1) (some (.int 15)) .nil) .nil)) .nil)

example : getPath [['i', 'n', 'n', 'e', 'r'], ['d', 'e', 'e', 'p'], ['y']] (.dict (built otDeep)) = some (.int 15) :=
  c06_cmd_value_reaches_result otDeep _ (.int 1) (.int 15) rfl rfl

/-- the statement for the rule the code had before 3f531df / d1d203e (only the member's own direct fields compared) -/
def CollapseOldSound : Prop := ∀ (opt : Bool) (sub : OT), hasNonDefaultArg sub = true → collapseOld opt sub = false

/-- **witness**: under the old rule `--y 15` for `inner.deep.y` left `inner = None` (the command-line value was lost) -/
theorem c06_collapse_old_witness : ¬ CollapseOldSound := by
  intro h
  have := h true (.leaf ['x'] (.int 2) none (.member ['d', 'e', 'e', 'p'] true (.leaf ['y'] (.int 1) (some (.int 15)) .nil) .nil)) rfl
  simp [collapseOld, directAtDefault] at this

example : dget (builtOld otDeep) ['i', 'n', 'n', 'e', 'r'] = some .null := rfl

/-- **the open finding C06-optional-cmd-repeats-default, in the model**: explicit values that all repeat their
    defaults are indistinguishable from no argument — the Optional member stays `None` and they are lost -/
theorem c06_repeats_default_collapses (n : Str) (sub rest : OT) (h : hasNonDefaultArg sub = false) :
    dget (built (.member n true sub rest)) n = some .null := by
  simp [built, dget, collapse, atDefault_eq_not_hasNonDefaultArg, h]

/-- witness of that finding: `--x 2` with `Inner.x = 2` -/
example : dget (built (.member ['i', 'n', 'n', 'e', 'r'] true (.leaf ['x'] (.int 2) (some (.int 2)) .nil) .nil))
    ['i', 'n', 'n', 'e', 'r'] = some .null :=
  c06_repeats_default_collapses _ _ _ rfl

end SpVerif.C06
