/-
  C19 — a field's help text comes from its own documentation, by fixed precedence.

  Theorems about `SpVerif.Model.DocScan` (mirrors simple_parsing/docstring.py and
  `FieldWrapper.help`).  The central statement is `c19_extract`: on every source made of header
  lines followed by well-formed field blocks (the layout grammar of DESIGN.md §5 C19, rendered by
  `renderBlocks`), the line scanner returns for each field exactly the documentation of that
  field's own block — any number of blocks, any number of comment / blank / docstring lines.
-/
import SpVerif.Lemmas.DocScan
namespace SpVerif.C19
open SpVerif SpVerif.DocScan

/-! ### walking over the lines of other blocks -/

theorem scanFrom_skip (n : Str) (A R : List Str) (rb : List Str)
    (h : ∀ l ∈ A, (containsFieldDef l && lineDefines l n) = false) :
    scanFrom n rb (A ++ R) = scanFrom n (A.reverse ++ rb) R := by
  induction A generalizing rb with
  | nil => rfl
  | cons a as ih =>
    have ha := h a (by simp)
    rw [List.cons_append, scanFrom, ha]
    simp only [Bool.false_eq_true, ↓reduceIte]
    rw [ih _ (fun l hl => h l (List.mem_cons_of_mem _ hl))]
    simp

theorem renderBlocks_append (a b : List Block) :
    renderBlocks (a ++ b) = renderBlocks a ++ renderBlocks b := by
  induction a with
  | nil => rfl
  | cons x xs ih => simp [renderBlocks, ih, List.append_assoc]

theorem mem_blanks {n : Nat} {l : Str} (h : l ∈ blanks n) : l = [] :=
  List.eq_of_mem_replicate h

/-- no line of a well-formed block defines a field with another name — **exact identifier
    comparison**: `a` versus `ab`, `val` versus `value` are different names. -/
theorem block_skip {b : Block} (hb : WF b) {n : Str} (hn : b.name ≠ n) :
    ∀ l ∈ renderBlock b, (containsFieldDef l && lineDefines l n) = false := by
  intro l hl
  simp only [renderBlock, List.mem_append, List.mem_map, List.mem_singleton] at hl
  rcases hl with ((((⟨m, hm, e⟩ | e) | e) | e) | e) | e
  · subst e; simp [(comment_facts (hb.above m hm)).1]
  · rw [mem_blanks e]; simp [blank_facts.1]
  · subst e
    rw [(def_facts hb).2.1 n]
    simp [hn]
  · rw [mem_blanks e]; simp [blank_facts.1]
  · simp [below_no_def hb l e]
  · rw [mem_blanks e]; simp [blank_facts.1]

theorem blocks_skip {bs : List Block} (hb : ∀ x ∈ bs, WF x) {n : Str} (hn : ∀ x ∈ bs, x.name ≠ n) :
    ∀ l ∈ renderBlocks bs, (containsFieldDef l && lineDefines l n) = false := by
  induction bs with
  | nil => intro l hl; simp [renderBlocks] at hl
  | cons x xs ih =>
    intro l hl
    simp only [renderBlocks, List.mem_append] at hl
    rcases hl with e | e
    · exact block_skip (hb x (by simp)) (hn x (by simp)) l e
    · exact ih (fun y hy => hb y (List.mem_cons_of_mem _ hy)) (fun y hy => hn y (List.mem_cons_of_mem _ hy)) l e

/-! ### the upward scan stays inside the block -/

theorem scanUp_nonstop (A B : List Str) (h : ∀ l ∈ A, isStop l = false) :
    scanUp (A ++ B) = A ++ scanUp B := by
  induction A with
  | nil => rfl
  | cons a as ih =>
    simp [scanUp, h a (by simp), ih (fun l hl => h l (List.mem_cons_of_mem _ hl))]

theorem scanUp_stop (A X : List Str) (s : Str) (h : ∀ l ∈ A, isStop l = false) (hs : isStop s = true) :
    scanUp (A ++ s :: X) = A := by
  rw [scanUp_nonstop _ _ h]; simp [scanUp, hs]

theorem mem_scanUp {l : Str} {X : List Str} (h : l ∈ scanUp X) : l ∈ X := by
  induction X with
  | nil => simp [scanUp] at h
  | cons a as ih =>
    simp only [scanUp] at h
    split at h
    · simp at h
    · rcases List.mem_cons.mp h with e | e
      · simp [e]
      · exact List.mem_cons_of_mem _ (ih e)

theorem mem_scanUp_nonstop {l : Str} {X : List Str} (h : l ∈ scanUp X) : isStop l = false := by
  induction X with
  | nil => simp [scanUp] at h
  | cons a as ih =>
    simp only [scanUp] at h
    split at h
    · simp at h
    · rename_i hs
      rcases List.mem_cons.mp h with e | e
      · subst e; simpa using hs
      · exact ih e

theorem hasTriple_tok (q : Quote) (r : Str) : hasTriple (indent ++ q.tok ++ r) = true := by
  cases q
  · have := breakOn_first '"' r (not_mem_indent (c := '"') (by decide))
    have e : indent ++ Quote.dq.tok ++ r = indent ++ '"' :: '"' :: '"' :: r := by
      simp [Quote.tok, tripleDouble]
    simp [hasTriple, e, tripleDouble, this]
  · have := breakOn_first '\'' r (not_mem_indent (c := '\'') (by decide))
    have e : indent ++ Quote.sq.tok ++ r = indent ++ '\'' :: '\'' :: '\'' :: r := by
      simp [Quote.tok, tripleSingle]
    simp [hasTriple, e, tripleSingle, this]

/-- the part of a block after its definition line -/
def tailLines (b : Block) : List Str := blanks b.gap2 ++ belowLines b.below ++ blanks b.gap3

theorem renderBlock_eq (b : Block) :
    renderBlock b = (b.above.map commentLine ++ blanks b.gap1) ++ defLine b :: tailLines b := by
  simp [renderBlock, tailLines, List.append_assoc]

theorem blanks_nonstop {n : Nat} : ∀ l ∈ blanks n, isStop l = false := by
  intro l hl; rw [mem_blanks hl]; exact isStop_blank

theorem blanks_reverse (n : Nat) : (blanks n).reverse = blanks n := by simp [blanks]

/-- scanning upwards from below a block stops inside it — at its closing-quote line or its
    definition line — and has passed only blank lines -/
theorem scanUp_block {b : Block} (hb : WF b) (W : List Str) :
    ∀ l ∈ scanUp ((tailLines b).reverse ++ defLine b :: W), l = [] := by
  have hw := hb.below
  unfold tailLines
  cases hbl : b.below with
  | none =>
    have : (blanks b.gap2 ++ belowLines Below.none ++ blanks b.gap3).reverse ++ defLine b :: W
        = (blanks b.gap3 ++ blanks b.gap2) ++ defLine b :: W := by
      simp [belowLines, blanks_reverse]
    rw [this, scanUp_stop _ _ _ _ (isStop_def hb)]
    · intro l hl
      rcases List.mem_append.mp hl with e | e <;> exact mem_blanks e
    · intro l hl
      rcases List.mem_append.mp hl with e | e <;> exact blanks_nonstop l e
  | one q m =>
    have : (blanks b.gap2 ++ belowLines (Below.one q m) ++ blanks b.gap3).reverse ++ defLine b :: W
        = blanks b.gap3 ++ (indent ++ q.tok ++ (m ++ q.tok)) :: (blanks b.gap2 ++ defLine b :: W) := by
      simp [belowLines, blanks_reverse, List.append_assoc]
    rw [this, scanUp_stop _ _ _ blanks_nonstop (by rw [isStop, hasTriple_tok]; simp)]
    intro l hl; exact mem_blanks hl
  | multi q f r =>
    have : (blanks b.gap2 ++ belowLines (Below.multi q f r) ++ blanks b.gap3).reverse ++ defLine b :: W
        = blanks b.gap3 ++ (indent ++ q.tok ++ []) ::
            ((r.map (indent ++ ·)).reverse ++ (indent ++ q.tok ++ f) :: (blanks b.gap2 ++ defLine b :: W)) := by
      simp [belowLines, blanks_reverse, List.append_assoc]
    rw [this, scanUp_stop _ _ _ blanks_nonstop (by rw [isStop, hasTriple_tok]; simp)]
    intro l hl; exact mem_blanks hl

/-- the context above a block: the header lines after source line 0, then the earlier blocks -/
theorem quiet_context {hs : List Str} {pre : List Block}
    (hh : ∀ l ∈ hs, isHeaderLine l = true ∨ '#' ∉ l)
    (hp : ∀ x ∈ pre, WF x) : ∀ l ∈ scanUp (hs ++ renderBlocks pre).reverse, '#' ∉ l := by
  rcases List.eq_nil_or_concat pre with e | ⟨pre', p, e⟩
  · subst e
    intro l hl
    have hm := mem_scanUp hl
    have hns := mem_scanUp_nonstop hl
    simp [renderBlocks] at hm
    rcases hh l hm with e | e
    · simp [isStop, e] at hns
    · exact e
  · subst e
    simp only [List.concat_eq_append] at hp ⊢
    have hpw : WF p := hp p (by simp)
    intro l hl
    have e : (hs ++ renderBlocks (pre' ++ [p])).reverse
        = (tailLines p).reverse ++ defLine p :: ((p.above.map commentLine ++ blanks p.gap1).reverse
            ++ (hs ++ renderBlocks pre').reverse) := by
      rw [renderBlocks_append]
      simp [renderBlocks, renderBlock_eq, List.append_assoc]
    rw [e] at hl
    rw [scanUp_block hpw _ l hl]
    simp

theorem quiet_entries (Q : List Str) (h : ∀ l ∈ Q, '#' ∉ l) :
    ∃ k, (Q.filter (fun l => !isEmptyLine l)).map commentAt = List.replicate k [] := by
  induction Q with
  | nil => exact ⟨0, rfl⟩
  | cons a as ih =>
    obtain ⟨k, hk⟩ := ih (fun l hl => h l (List.mem_cons_of_mem _ hl))
    have ha : commentAt a = [] := by
      have hna := h a (by simp)
      simp [commentAt, hna]
    by_cases he : isEmptyLine a = true
    · exact ⟨k, by simp [List.filter, he, hk]⟩
    · refine ⟨k + 1, ?_⟩
      simp only [Bool.not_eq_true] at he
      simp [List.filter, he, ha, hk, List.replicate_succ]

theorem comment_entries {ms : List Str} (h : ∀ m ∈ ms, hasTriple (commentLine m) = false) :
    ((ms.map commentLine).filter (fun l => !isEmptyLine l)).map commentAt = ms.map stripWs := by
  induction ms with
  | nil => rfl
  | cons m ms ih =>
    have hm := comment_facts (h m (by simp))
    simp [hm.2.2.1, hm.2.2.2.2, ih (fun x hx => h x (List.mem_cons_of_mem _ hx))]

theorem blanks_filter (n : Nat) : (blanks n).filter (fun l => !isEmptyLine l) = [] := by
  induction n with
  | zero => rfl
  | succ k ih =>
    have : blanks (k + 1) = [] :: blanks k := by simp [blanks, List.replicate_succ]
    rw [this]
    simp [List.filter, blank_facts.2.2, ih]

theorem strip_join_pad (k : Nat) (xs : List Str) :
    stripWs (joinNl (List.replicate k [] ++ xs)) = stripWs (joinNl xs) := by
  induction k with
  | zero => rfl
  | succ k ih =>
    rw [List.replicate_succ, List.cons_append]
    cases hys : List.replicate k [] ++ xs with
    | nil =>
      have hx : xs = [] := (List.append_eq_nil_iff.mp hys).2
      subst hx
      rfl
    | cons y ys =>
      have : joinNl ([] :: y :: ys) = '\n' :: joinNl (y :: ys) := by simp [joinNl, joinWith]
      rw [this]
      have hsp : allSpace ['\n'] := by intro c hc; simp at hc; subst hc; decide
      have := stripWs_space_left (joinNl (y :: ys)) hsp
      simp only [List.singleton_append] at this
      rw [this, ← hys, ih]

/-- **locality of the comment-above scan** -/
theorem above_eq {b : Block} (hb : WF b) (ctx : List Str) (hq : ∀ l ∈ scanUp ctx.reverse, '#' ∉ l) :
    commentAbove ((ctx ++ (b.above.map commentLine ++ blanks b.gap1)).reverse) = b.doc.above := by
  have e1 : (ctx ++ (b.above.map commentLine ++ blanks b.gap1)).reverse
      = (blanks b.gap1 ++ (b.above.map commentLine).reverse) ++ ctx.reverse := by
    simp [blanks_reverse, List.append_assoc]
  have hns : ∀ l ∈ blanks b.gap1 ++ (b.above.map commentLine).reverse, isStop l = false := by
    intro l hl
    rcases List.mem_append.mp hl with e | e
    · exact blanks_nonstop l e
    · obtain ⟨m, hm, e⟩ := List.mem_map.mp (List.mem_reverse.mp e)
      subst e; exact isStop_comment (hb.above m hm)
  obtain ⟨k, hk⟩ := quiet_entries (scanUp ctx.reverse).reverse (fun l hl => hq l (List.mem_reverse.mp hl))
  unfold commentAbove
  simp only [e1, scanUp_nonstop _ _ hns, List.reverse_append, List.reverse_reverse, blanks_reverse,
    List.filter_append, List.map_append, hk, comment_entries hb.above, blanks_filter, List.append_nil]
  rw [strip_join_pad]
  rfl

/-! ### the downward scan stays inside the block -/

theorem docStart_blanks (n : Nat) (L : List Str) : docStart (blanks n ++ L) = docStart L := by
  induction n with
  | zero => rfl
  | succ k ih =>
    have : blanks (k + 1) = [] :: blanks k := by simp [blanks, List.replicate_succ]
    rw [this, List.cons_append, docStart]
    simp [blank_facts.2.2, ih]

/-- below an undocumented field the scan meets the next block's comment or definition (or the end
    of the class) and returns nothing -/
theorem docStart_blocks {post : List Block} (hp : ∀ x ∈ post, WF x) :
    docStart (renderBlocks post) = [] := by
  cases post with
  | nil => rfl
  | cons p ps =>
    have hpw := hp p (by simp)
    rw [renderBlocks, renderBlock_eq]
    cases ha : p.above with
    | nil =>
      simp only [List.map_nil, List.nil_append, List.append_assoc]
      rw [docStart_blanks, List.cons_append, docStart]
      have h1 : isEmptyLine (defLine p) = false := by
        rw [defLine_eq, isEmptyLine, List.append_assoc, lstripWs_space _ indent_allSpace]
        cases hn : p.name with
        | nil => have := ident_ne_nil hpw.name; contradiction
        | cons c cs =>
          have hc : isSpace c = false := (ident_chars hpw.name c (by simp [hn])).1
          rw [List.cons_append, lstripWs_cons _ hc]; rfl
      simp [h1, (def_facts hpw).1]
    | cons m ms =>
      have hm := comment_facts (hpw.above m (by simp [ha]))
      simp only [List.map_cons, List.cons_append]
      rw [docStart]
      simp [hm.2.2.1, hm.2.2.2.1]

theorem other_ch_props (q : Quote) : q.other.ch ∉ indent ∧ q.other.ch ≠ q.ch := by
  cases q <;> exact ⟨not_mem_indent (by decide), by decide⟩

/-- the opening line of a docstring, whatever its text `w` (as long as the OTHER triple quote does
    not occur in it): not blank, not a definition, not a comment, and the token is the quote kind
    it starts with -/
theorem open_facts (q : Quote) (w : Str) (ho : breakOn q.other.tok w = none) :
    isEmptyLine (indent ++ q.tok ++ w) = false ∧ containsFieldDef (indent ++ q.tok ++ w) = false ∧
    isComment (indent ++ q.tok ++ w) = false ∧ chooseTok (indent ++ q.tok ++ w) = some q.tok ∧
    breakOn q.tok (indent ++ q.tok ++ w) = some (indent, w) := by
  have hcfd := cfd_tok_line q w
  obtain ⟨hs, _, h1, _, _⟩ := quote_props q
  have e : indent ++ q.tok ++ w = indent ++ q.ch :: q.ch :: q.ch :: w := by
    rw [tok_eq]; simp [List.append_assoc]
  have hb : breakOn q.tok (indent ++ q.tok ++ w) = some (indent, w) := by
    rw [e, tok_eq]
    exact breakOn_first q.ch w (not_mem_indent hs)
  have hno : breakOn q.other.tok (indent ++ q.tok ++ w) = none := by
    have hA : q.other.ch ∉ indent ++ q.tok := by
      intro h
      rcases List.mem_append.mp h with h | h
      · exact (other_ch_props q).1 h
      · rw [tok_eq] at h
        simp only [List.mem_cons, List.not_mem_nil, or_false, or_self] at h
        exact (other_ch_props q).2 h
    rw [tok_eq q.other] at ho ⊢
    exact breakOn_skip_prefix _ w hA ho
  refine ⟨?_, hcfd, ?_, ?_, hb⟩
  · rw [e, isEmptyLine, lstripWs_space _ indent_allSpace, lstripWs_cons _ hs]; rfl
  · rw [e, isComment, lstripWs_space _ indent_allSpace, lstripWs_cons _ hs]
    cases q <;> rfl
  · cases q
    · have hno' : breakOn tripleSingle (indent ++ Quote.dq.tok ++ w) = none := hno
      have hb' : breakOn tripleDouble (indent ++ Quote.dq.tok ++ w) = some (indent, w) := hb
      unfold chooseTok
      rw [hno', hb']
      rfl
    · have hno' : breakOn tripleDouble (indent ++ Quote.sq.tok ++ w) = none := hno
      have hb' : breakOn tripleSingle (indent ++ Quote.sq.tok ++ w) = some (indent, w) := hb
      unfold chooseTok
      rw [hno', hb']
      rfl

theorem breakOn_tok_absent (q : Quote) {s : Str} (h : q.ch ∉ s) : breakOn q.tok s = none := by
  rw [tok_eq]; exact breakOn_absent _ h

theorem breakOn_tok_first (q : Quote) {a : Str} (r : Str) (h : q.ch ∉ a) :
    breakOn q.tok (a ++ q.tok ++ r) = some (a, r) := by
  rw [tok_eq]
  have := breakOn_first q.ch r h
  simpa [List.append_assoc] using this

/-- the intermediate and closing lines of a multi-line docstring -/
theorem docRest_multi (q : Quote) (r : List Str) (rest : List Str) (h : ∀ m ∈ r, q.ch ∉ m) :
    docRest q.tok (r.map (indent ++ ·) ++ (indent ++ q.tok) :: rest) = r.map stripWs ++ [[]] := by
  induction r with
  | nil =>
    have := breakOn_tok_first q [] (not_mem_indent (c := q.ch) (by cases q <;> decide))
    simp only [List.append_nil] at this
    simp [docRest, this, stripWs_allSpace indent_allSpace]
  | cons m ms ih =>
    have hm := h m (by simp)
    have hno : q.ch ∉ indent ++ m := by
      intro hc
      rcases List.mem_append.mp hc with e | e
      · exact not_mem_indent (by cases q <;> decide) e
      · exact hm e
    simp only [List.map_cons, List.cons_append, docRest, breakOn_tok_absent q hno,
      stripWs_space_left _ indent_allSpace, ih (fun x hx => h x (List.mem_cons_of_mem _ hx))]

/-- an opening line whose docstring closes on the same line -/
theorem docStart_one (l0 tok a w mid z : Str) (rest : List Str) (h1 : isEmptyLine l0 = false)
    (h2 : containsFieldDef l0 = false) (h3 : isComment l0 = false) (h4 : chooseTok l0 = some tok)
    (h5 : breakOn tok l0 = some (a, w)) (h6 : breakOn tok w = some (mid, z)) :
    docStart (l0 :: rest) = [stripWs mid] := by
  rw [docStart]
  simp only [h1, h2, h3, h4, h5, h6, Bool.false_eq_true, ↓reduceIte, Bool.or_self]

/-- an opening line whose docstring continues on the following lines -/
theorem docStart_multi (l0 tok a w : Str) (rest : List Str) (h1 : isEmptyLine l0 = false)
    (h2 : containsFieldDef l0 = false) (h3 : isComment l0 = false) (h4 : chooseTok l0 = some tok)
    (h5 : breakOn tok l0 = some (a, w)) (h6 : breakOn tok w = none) :
    docStart (l0 :: rest) = stripWs w :: docRest tok rest := by
  rw [docStart]
  simp only [h1, h2, h3, h4, h5, h6, Bool.false_eq_true, ↓reduceIte, Bool.or_self]

/-- **locality of the docstring-below scan**: whatever follows the block -/
theorem below_eq {b : Block} (hb : WF b) {post : List Block} (hp : ∀ x ∈ post, WF x) :
    docBelow (tailLines b ++ renderBlocks post) = belowText b.below := by
  have hw := hb.below
  unfold docBelow tailLines
  cases hbl : b.below with
  | none =>
    simp only [belowLines, List.append_nil, List.append_assoc]
    rw [docStart_blanks, docStart_blanks, docStart_blocks hp]; rfl
  | one q m =>
    rw [hbl] at hw
    obtain ⟨f1, f2, f3, f4, f5⟩ := open_facts q (m ++ q.tok) hw.2
    have hin : breakOn q.tok (m ++ q.tok) = some (m, []) := by
      have := breakOn_tok_first q [] hw.1
      simpa using this
    have e : blanks b.gap2 ++ belowLines (Below.one q m) ++ blanks b.gap3 ++ renderBlocks post
        = blanks b.gap2 ++ (indent ++ q.tok ++ (m ++ q.tok)) :: (blanks b.gap3 ++ renderBlocks post) := by
      simp [belowLines, List.append_assoc]
    rw [e, docStart_blanks, docStart_one _ _ _ _ _ _ _ f1 f2 f3 f4 f5 hin]
    rfl
  | multi q f r =>
    rw [hbl] at hw
    obtain ⟨f1, f2, f3, f4, f5⟩ := open_facts q f hw.2.1
    have e : blanks b.gap2 ++ belowLines (Below.multi q f r) ++ blanks b.gap3 ++ renderBlocks post
        = blanks b.gap2 ++ (indent ++ q.tok ++ f) ::
            (r.map (indent ++ ·) ++ (indent ++ q.tok) :: (blanks b.gap3 ++ renderBlocks post)) := by
      simp [belowLines, List.append_assoc]
    rw [e, docStart_blanks, docStart_multi _ _ _ _ _ f1 f2 f3 f4 f5 (breakOn_tok_absent q hw.1),
      docRest_multi q r _ (fun m hm => (hw.2.2 m hm).1)]
    rfl

/-! ### C19 central theorem: extraction = the block's own documentation -/

/-- **Extraction = documented text on the layout grammar.**  For every header, every list of
    well-formed blocks before (`pre`) and after (`post`) — with names different from `b.name`
    before it, however similar — the scan of the rendered source for `b.name` returns exactly
    `b.doc`, which is a function of the block `b` alone. -/
theorem c19_extract (hdr : List Str) (pre post : List Block) (b : Block)
    (hh : headerOk hdr = true) (hw : ∀ x ∈ pre ++ b :: post, x.wf = true)
    (hn : ∀ x ∈ pre, x.name ≠ b.name) :
    scanLines (hdr ++ renderBlocks (pre ++ b :: post)) b.name = some b.doc := by
  have hbw : WF b := wf_of (hw b (by simp))
  have hprew : ∀ x ∈ pre, WF x := fun x hx => wf_of (hw x (by simp [hx]))
  have hpostw : ∀ x ∈ post, WF x := fun x hx => wf_of (hw x (by simp [hx]))
  cases hdr with
  | nil => simp [headerOk] at hh
  | cons h0 hs =>
    have hh' : ∀ l ∈ h0 :: hs, containsFieldDef l = false ∧ (isHeaderLine l = true ∨ '#' ∉ l) := by
      intro l hl
      simp only [headerOk, Bool.and_eq_true, List.all_eq_true] at hh
      have h := hh.2 l hl
      simp only [Bool.and_eq_true, Bool.not_eq_eq_eq_not, Bool.not_true, Bool.or_eq_true,
        contains_false_iff] at h
      exact h
    have h0d : containsFieldDef h0 = false := (hh' h0 (by simp)).1
    have hhs : ∀ l ∈ hs, containsFieldDef l = false ∧ (isHeaderLine l = true ∨ '#' ∉ l) :=
      fun l hl => hh' l (List.mem_cons_of_mem _ hl)
    have hskip : ∀ l ∈ hs ++ renderBlocks pre ++ (b.above.map commentLine ++ blanks b.gap1),
        (containsFieldDef l && lineDefines l b.name) = false := by
      intro l hl
      rcases List.mem_append.mp hl with e | e
      · rcases List.mem_append.mp e with e | e
        · simp [(hhs l e).1]
        · exact blocks_skip hprew hn l e
      · rcases List.mem_append.mp e with e | e
        · obtain ⟨m, hm, e⟩ := List.mem_map.mp e
          subst e; simp [(comment_facts (hbw.above m hm)).1]
        · rw [mem_blanks e]; simp [blank_facts.1]
    have elines : (h0 :: hs) ++ renderBlocks (pre ++ b :: post)
        = h0 :: ((hs ++ renderBlocks pre ++ (b.above.map commentLine ++ blanks b.gap1))
            ++ defLine b :: (tailLines b ++ renderBlocks post)) := by
      rw [renderBlocks_append]
      simp [renderBlocks, renderBlock_eq, List.append_assoc]
    rw [elines, scanLines]
    simp only [h0d, Bool.false_and, Bool.false_eq_true, ↓reduceIte]
    rw [scanFrom_skip _ _ _ _ hskip, scanFrom]
    have hd := def_facts hbw
    simp only [hd.1, hd.2.1, beq_self_eq_true, Bool.and_self, ↓reduceIte, List.append_nil]
    have hq := quiet_context (fun l hl => (hhs l hl).2) hprew
    rw [above_eq hbw _ hq, hd.2.2, below_eq hbw hpostw]
    rfl

/-- the same at the level of one class: when the class source (after the removal of `__doc__`)
    splits into the lines of a layout, the class-level extractor returns the block's documentation
    plus the class-docstring entry of that very name. -/
theorem c19_class (c : ClassSrc) (hdr : List Str) (pre post : List Block) (b : Block)
    (hsrc : classLines c = some (hdr ++ renderBlocks (pre ++ b :: post)))
    (hh : headerOk hdr = true) (hw : ∀ x ∈ pre ++ b :: post, x.wf = true)
    (hn : ∀ x ∈ pre, x.name ≠ b.name) :
    scanClass c b.name = some { b.doc with cls := clsDesc c.params b.name } := by
  unfold scanClass
  rw [hsrc]
  simp only
  rw [c19_extract hdr pre post b hh hw hn]

/-- **No leak between fields.**  Replace everything around the block — the header, the blocks
    before and after it, with whatever texts, any names but this one (`a` next to `ab` included) —
    and the field still gets the same documentation. -/
theorem c19_no_leak (hdr hdr' : List Str) (pre post pre' post' : List Block) (b : Block)
    (hh : headerOk hdr = true) (hh' : headerOk hdr' = true)
    (hw : ∀ x ∈ pre ++ b :: post, x.wf = true) (hw' : ∀ x ∈ pre' ++ b :: post', x.wf = true)
    (hn : ∀ x ∈ pre, x.name ≠ b.name) (hn' : ∀ x ∈ pre', x.name ≠ b.name) :
    scanLines (hdr ++ renderBlocks (pre ++ b :: post)) b.name
      = scanLines (hdr' ++ renderBlocks (pre' ++ b :: post')) b.name := by
  rw [c19_extract hdr pre post b hh hw hn, c19_extract hdr' pre' post' b hh' hw' hn']

/-- **No documentation ⇒ no text**: an undocumented block yields four empty texts, whatever
    documentation its neighbours carry. -/
theorem c19_none (hdr : List Str) (pre post : List Block) (b : Block)
    (hh : headerOk hdr = true) (hw : ∀ x ∈ pre ++ b :: post, x.wf = true)
    (hn : ∀ x ∈ pre, x.name ≠ b.name)
    (h1 : b.above = []) (h2 : b.inline = none) (h3 : b.below = Below.none) :
    scanLines (hdr ++ renderBlocks (pre ++ b :: post)) b.name = some Doc.empty := by
  rw [c19_extract hdr pre post b hh hw hn]
  simp [Block.doc, h1, h2, h3, belowText, Doc.empty, joinNl, joinWith, stripWs, lstripWs]

/-- **A class without a block of that name does not define it** (no cross-class / cross-field
    leak into a name that is not there): the scan returns `none`, whatever the blocks say — also
    when further lines follow the blocks, as long as none of them is read as a definition of `n`
    (see finding C19-method-local for what happens otherwise). -/
theorem c19_absent (hdr : List Str) (bs : List Block) (trailer : List Str) (n : Str)
    (hh : headerOk hdr = true) (hw : ∀ x ∈ bs, x.wf = true) (hn : ∀ x ∈ bs, x.name ≠ n)
    (ht : ∀ l ∈ trailer, (containsFieldDef l && lineDefines l n) = false) :
    scanLines (hdr ++ renderBlocks bs ++ trailer) n = none := by
  cases hdr with
  | nil => simp [headerOk] at hh
  | cons h0 hs =>
    simp only [headerOk, Bool.and_eq_true, List.all_eq_true] at hh
    have hh' : ∀ l ∈ h0 :: hs, containsFieldDef l = false := by
      intro l hl
      have h := hh.2 l hl
      simp only [Bool.and_eq_true, Bool.not_eq_eq_eq_not, Bool.not_true] at h
      exact h.1
    have hskip : ∀ l ∈ hs ++ renderBlocks bs ++ trailer,
        (containsFieldDef l && lineDefines l n) = false := by
      intro l hl
      rcases List.mem_append.mp hl with e | e
      · rcases List.mem_append.mp e with e | e
        · simp [hh' l (List.mem_cons_of_mem _ e)]
        · exact blocks_skip (fun x hx => wf_of (hw x hx)) hn l e
      · exact ht l e
    have e : (h0 :: hs) ++ renderBlocks bs ++ trailer = h0 :: ((hs ++ renderBlocks bs ++ trailer) ++ []) := by
      simp [List.append_assoc]
    rw [e, scanLines]
    simp only [hh' h0 (by simp), Bool.false_and, Bool.false_eq_true, ↓reduceIte]
    rw [scanFrom_skip _ _ _ _ hskip]
    rfl

/-! ### composed statements: class level, chain level, help level -/

/-- a class as the layout grammar sees it -/
structure ClassLayout where
  hdr : List Str
  blocks : List Block

def ClassLayout.ok (L : ClassLayout) : Bool := headerOk L.hdr && L.blocks.all Block.wf

/-- what a class contributes for the name `n`: the documentation of its (first) block named `n`
    plus its class-docstring entry for `n`; the entry alone when it has no such block; nothing when
    it has neither.  A function of the block named `n` and of the entries for `n` only. -/
def contribution (L : ClassLayout) (params : List (Str × Str)) (n : Str) : Option Doc :=
  match L.blocks.find? (fun b => b.name == n) with
  | some b => some { b.doc with cls := clsDesc params n }
  | none => if (clsDesc params n).isEmpty then none else some ⟨[], [], [], clsDesc params n⟩

/-- **class level**: for a class whose source splits into a layout, the extractor returns exactly
    the contribution of the block of that name — for every name, present or not. -/
theorem c19_class_layout (c : ClassSrc) (L : ClassLayout) (n : Str)
    (hsrc : classLines c = some (L.hdr ++ renderBlocks L.blocks))
    (hok : L.ok = true) : scanClass c n = contribution L c.params n := by
  simp only [ClassLayout.ok, Bool.and_eq_true, List.all_eq_true] at hok
  unfold scanClass contribution
  rw [hsrc]
  simp only
  cases hf : L.blocks.find? (fun b => b.name == n) with
  | none =>
    have hn : ∀ x ∈ L.blocks, x.name ≠ n := by
      intro x hx
      have := List.find?_eq_none.mp hf x hx
      simpa using this
    have := c19_absent L.hdr L.blocks [] n hok.1 hok.2 hn (by simp)
    simp only [List.append_nil] at this
    rw [this]
  | some b =>
    obtain ⟨hb, pre, post, hsplit, hpre⟩ := List.find?_eq_some_iff_append.mp hf
    have hbn : b.name = n := by simpa using hb
    have hw : ∀ x ∈ pre ++ b :: post, x.wf = true := by
      intro x hx; rw [← hsplit] at hx; exact hok.2 x hx
    have hn : ∀ x ∈ pre, x.name ≠ b.name := by
      intro x hx
      have := hpre x hx
      rw [hbn]
      simpa using this
    have := c19_extract L.hdr pre post b hok.1 hw hn
    rw [hsplit, ← hbn, this]

/-- **chain level**: over an MRO whose classes each split into a layout, the accumulated
    documentation of `n` is the first-non-empty merge (per kind, nearest class first — `c19_mro`)
    of the per-class contributions: only blocks named `n` and entries for `n` matter, in every
    class of the chain. -/
theorem c19_chain (mro : List (ClassSrc × ClassLayout)) (n : Str)
    (h : ∀ p ∈ mro, classLines p.1 = some (p.2.hdr ++ renderBlocks p.2.blocks)
      ∧ p.2.ok = true) :
    attributeDoc (mro.map (·.1)) n
      = getAttributeDocstring (mro.map (fun p => contribution p.2 p.1.params n)) := by
  unfold attributeDoc
  congr 1
  rw [List.map_map]
  apply List.map_congr_left
  intro p hp
  exact c19_class_layout p.1 p.2 n (h p hp).1 (h p hp).2

/-- **help level**: the help text shown for `n` is a function of its explicit `help=`, and — class
    by class along the chain — of the block named `n` and the class-docstring entry for `n`.  Two
    modules that agree on those show the same help for `n`, whatever all other fields, comments
    and docstrings of all the classes say (no leak at the level of the argparse action). -/
theorem c19_help_own (mro mro' : List (ClassSrc × ClassLayout)) (n : Str) (custom metaH : Option Str)
    (h : ∀ p ∈ mro, classLines p.1 = some (p.2.hdr ++ renderBlocks p.2.blocks)
      ∧ p.2.ok = true)
    (h' : ∀ p ∈ mro', classLines p.1 = some (p.2.hdr ++ renderBlocks p.2.blocks)
      ∧ p.2.ok = true)
    (hsame : mro.map (fun p => contribution p.2 p.1.params n)
      = mro'.map (fun p => contribution p.2 p.1.params n)) :
    actionHelp custom metaH (attributeDoc (mro.map (·.1)) n)
      = actionHelp custom metaH (attributeDoc (mro'.map (·.1)) n) := by
  rw [c19_chain mro n h, c19_chain mro' n h', hsame]

/-! ### MRO accumulation: each kind from the nearest class that provides it -/

/-- Python's `a or b or c …` over a list of strings -/
def firstNonEmpty : List Str → Str
  | [] => []
  | x :: xs => orStr x (firstNonEmpty xs)

theorem orStr_nil (a : Str) : orStr a [] = a := by cases a <;> rfl

theorem orStr_assoc (a b c : Str) : orStr (orStr a b) c = orStr a (orStr b c) := by
  cases a <;> simp [orStr]

theorem accumulate_proj (p : Doc → Str) (hp : ∀ c d, p (merge c d) = orStr (p c) (p d))
    (c : Doc) (ds : List (Option Doc)) :
    p ((accumulate (some c) ds).getD Doc.empty)
      = orStr (p c) (firstNonEmpty ((ds.filterMap id).map p)) := by
  induction ds generalizing c with
  | nil => simp [accumulate, firstNonEmpty, orStr_nil]
  | cons d ds ih =>
    cases d with
    | none => simpa [accumulate] using ih c
    | some d =>
      simp only [accumulate, ih, hp, List.filterMap_cons, id, List.map_cons, firstNonEmpty,
        orStr_assoc]

theorem accumulate_none_proj (p : Doc → Str) (hp : ∀ c d, p (merge c d) = orStr (p c) (p d))
    (he : p Doc.empty = []) (ds : List (Option Doc)) :
    p (getAttributeDocstring ds) = firstNonEmpty ((ds.filterMap id).map p) := by
  unfold getAttributeDocstring
  induction ds with
  | nil => simp [accumulate, firstNonEmpty, he]
  | cons d ds ih =>
    cases d with
    | none => simpa [accumulate] using ih
    | some d =>
      simp only [accumulate, accumulate_proj p hp, List.filterMap_cons, id, List.map_cons,
        firstNonEmpty]

/-- **Each kind of documentation is taken from the nearest class that provides it**: for the
    per-class results in MRO order (`none` = the class does not define the field), every one of
    the four texts is the first non-empty one, independently of the other three kinds.  Any
    chain length. -/
theorem c19_mro (ds : List (Option Doc)) :
    (getAttributeDocstring ds).above = firstNonEmpty ((ds.filterMap id).map (·.above)) ∧
    (getAttributeDocstring ds).inline = firstNonEmpty ((ds.filterMap id).map (·.inline)) ∧
    (getAttributeDocstring ds).below = firstNonEmpty ((ds.filterMap id).map (·.below)) ∧
    (getAttributeDocstring ds).cls = firstNonEmpty ((ds.filterMap id).map (·.cls)) :=
  ⟨accumulate_none_proj (·.above) (fun _ _ => rfl) rfl ds,
   accumulate_none_proj (·.inline) (fun _ _ => rfl) rfl ds,
   accumulate_none_proj (·.below) (fun _ _ => rfl) rfl ds,
   accumulate_none_proj (·.cls) (fun _ _ => rfl) rfl ds⟩

/-! ### the caches are invisible on linear chains — and visible on a diamond -/

theorem orStr_absorb (a b : Str) : orStr (orStr a b) b = orStr a b := by
  cases a <;> cases b <;> simp [orStr]

theorem Doc.ext' {a b : Doc} (h1 : a.above = b.above) (h2 : a.inline = b.inline) (h3 : a.below = b.below)
    (h4 : a.cls = b.cls) : a = b := by
  cases a; cases b; simp_all

/-- the invariant: every cached accumulator of a class that has a record holds that class's
    one-shot answer -/
def CacheOk (raw : Nat → Option Doc) (n : Nat) (cache : Cache) : Prop :=
  ∀ k d, (k, d) ∈ cache → (raw k).isSome = true ∧ d = pureAnswer raw (chainMro n) k

theorem entry_cases {raw : Nat → Option Doc} {n : Nat} {cache : Cache} (hc : CacheOk raw n cache) (k : Nat) :
    entry raw cache k = raw k ∨
      ((raw k).isSome = true ∧ entry raw cache k = some (pureAnswer raw (chainMro n) k)) := by
  unfold entry
  cases hl : cache.lookup k with
  | none => exact Or.inl rfl
  | some d =>
    have hm : (k, d) ∈ cache := by
      have := List.lookup_eq_some_iff.mp hl  -- ∃ l₁ l₂, cache = l₁ ++ (k, d) :: l₂ ∧ …
      obtain ⟨l1, l2, he, _⟩ := this
      rw [he]; simp
    obtain ⟨h1, h2⟩ := hc k d hm
    exact Or.inr ⟨h1, by rw [h2]⟩

theorem pure_cons (raw : Nat → Option Doc) (i d : Nat) (p : Doc → Str)
    (hp : ∀ c e, p (merge c e) = orStr (p c) (p e)) (he : p Doc.empty = []) :
    p (getAttributeDocstring ((List.range' i (d + 1)).map raw))
      = orStr (match raw i with | some x => p x | none => []) (p (getAttributeDocstring ((List.range' (i + 1) d).map raw))) := by
  rw [accumulate_none_proj p hp he, accumulate_none_proj p hp he, List.range'_succ, List.map_cons]
  cases hr : raw i with
  | none => simp [List.filterMap_cons, orStr]
  | some x => simp [List.filterMap_cons, firstNonEmpty]

/-- with cached accumulators that hold one-shot answers, merging along the chain gives the one-shot
    answer again: a suffix-merged record merges like the raw records it was made of -/
theorem chain_merge_proj (raw : Nat → Option Doc) (n : Nat) (cache : Cache) (hc : CacheOk raw n cache)
    (p : Doc → Str) (hp : ∀ c e, p (merge c e) = orStr (p c) (p e)) (he : p Doc.empty = []) :
    ∀ d i, i + d = n →
      p (getAttributeDocstring ((List.range' i d).map (entry raw cache)))
        = p (getAttributeDocstring ((List.range' i d).map raw)) := by
  intro d
  induction d with
  | zero => intro i _; rfl
  | succ d ih =>
    intro i hi
    have ih' := ih (i + 1) (by omega)
    have hpure : pureAnswer raw (chainMro n) i = getAttributeDocstring ((List.range' i (d + 1)).map raw) := by
      unfold pureAnswer chainMro
      have : n - i = d + 1 := by omega
      rw [this]
    rw [pure_cons raw i d p hp he]
    rw [accumulate_none_proj p hp he, List.range'_succ]
    rcases entry_cases hc i with e | ⟨hs, e⟩
    · simp only [List.map_cons, e]
      cases hr : raw i with
      | none =>
        simp only [List.filterMap_cons, id, orStr, List.isEmpty_nil, ↓reduceIte]
        rw [← accumulate_none_proj p hp he]; exact ih'
      | some x =>
        simp only [List.filterMap_cons, id, List.map_cons, firstNonEmpty]
        rw [← accumulate_none_proj p hp he, ih']
    · simp only [List.map_cons, e, List.filterMap_cons, id, firstNonEmpty]
      rw [← accumulate_none_proj p hp he, ih', hpure, pure_cons raw i d p hp he]
      cases hr : raw i with
      | none => rw [hr] at hs; cases hs
      | some x => exact orStr_absorb _ _

theorem chain_lookup_answer (raw : Nat → Option Doc) (n : Nat) (cache : Cache) (hc : CacheOk raw n cache)
    (q : Nat) : (lookupMut raw cache (chainMro n q)).1 = pureAnswer raw (chainMro n) q := by
  unfold lookupMut pureAnswer
  have key : getAttributeDocstring ((chainMro n q).map (entry raw cache))
      = getAttributeDocstring ((chainMro n q).map raw) := by
    by_cases hq : q ≤ n
    · unfold chainMro
      have hd : q + (n - q) = n := by omega
      exact Doc.ext' (chain_merge_proj raw n cache hc (·.above) (fun _ _ => rfl) rfl _ q hd)
        (chain_merge_proj raw n cache hc (·.inline) (fun _ _ => rfl) rfl _ q hd)
        (chain_merge_proj raw n cache hc (·.below) (fun _ _ => rfl) rfl _ q hd)
        (chain_merge_proj raw n cache hc (·.cls) (fun _ _ => rfl) rfl _ q hd)
    · have : n - q = 0 := by omega
      simp [chainMro, this]
  cases firstFound raw cache (chainMro n q) <;> exact key

/-- the accumulator's class is the first class of the chain with a record; the classes before it
    have none, so its one-shot answer is the queried class's one-shot answer -/
theorem firstFound_pure (raw : Nat → Option Doc) (n : Nat) (cache : Cache) (hc : CacheOk raw n cache) :
    ∀ d i k0, i + d = n → firstFound raw cache (List.range' i d) = some k0 →
      (raw k0).isSome = true ∧ pureAnswer raw (chainMro n) k0 = pureAnswer raw (chainMro n) i := by
  intro d
  induction d with
  | zero => intro i k0 _ h; simp [firstFound] at h
  | succ d ih =>
    intro i k0 hi h
    rw [List.range'_succ, firstFound] at h
    by_cases he : (entry raw cache i).isSome = true
    · simp only [he, ↓reduceIte, Option.some.injEq] at h
      subst h
      rcases entry_cases hc i with e | ⟨hs, _⟩
      · rw [e] at he; exact ⟨he, rfl⟩
      · exact ⟨hs, rfl⟩
    · simp only [he, Bool.false_eq_true, ↓reduceIte] at h
      obtain ⟨h1, h2⟩ := ih (i + 1) k0 (by omega) h
      refine ⟨h1, h2.trans ?_⟩
      have hraw : raw i = none := by
        rcases entry_cases hc i with e | ⟨_, e⟩
        · rw [e] at he; simpa using he
        · rw [e] at he; simp at he
      unfold pureAnswer chainMro
      have e1 : n - i = (n - (i + 1)) + 1 := by omega
      rw [e1, List.range'_succ, List.map_cons, hraw]
      rfl

theorem chain_lookup_cache (raw : Nat → Option Doc) (n : Nat) (cache : Cache) (hc : CacheOk raw n cache)
    (q : Nat) : CacheOk raw n (lookupMut raw cache (chainMro n q)).2 := by
  have hans := chain_lookup_answer raw n cache hc q
  unfold lookupMut at hans ⊢
  cases hf : firstFound raw cache (chainMro n q) with
  | none => simpa [hf] using hc
  | some k0 =>
    rw [hf] at hans
    simp only at hans ⊢
    intro k d hm
    rcases List.mem_cons.mp hm with e | e
    · have hk : k = k0 := by simpa using congrArg Prod.fst e
      have hd : d = getAttributeDocstring ((chainMro n q).map (entry raw cache)) := by
        simpa using congrArg Prod.snd e
      by_cases hq : q ≤ n
      · obtain ⟨h1, h2⟩ := firstFound_pure raw n cache hc (n - q) q k0 (by omega) hf
        subst hk
        exact ⟨h1, by rw [hd, hans, h2]⟩
      · have : n - q = 0 := by omega
        simp [chainMro, this, firstFound] at hf
    · exact hc k d e

/-- **Linear chains: the caches are invisible.**  Whatever classes of a chain are looked up, in
    whatever order and however often, in one process, every answer is the one-shot answer — the
    in-place merge into the cached record is harmless there, because merging a suffix-merged record
    equals merging the raw records (`orStr_absorb`).  Any chain length, any query sequence. -/
theorem c19_cache_linear (raw : Nat → Option Doc) (n : Nat) (qs : List Nat) :
    runLookups raw (chainMro n) [] qs = qs.map (pureAnswer raw (chainMro n)) := by
  suffices ∀ cache, CacheOk raw n cache →
      runLookups raw (chainMro n) cache qs = qs.map (pureAnswer raw (chainMro n)) from
    this [] (fun _ _ h => by simp at h)
  induction qs with
  | nil => intro _ _; rfl
  | cons q qs ih =>
    intro cache hc
    simp only [runLookups, List.map_cons, chain_lookup_answer raw n cache hc q]
    rw [ih _ (chain_lookup_cache raw n cache hc q)]

/-- FULL STATEMENT: for every hierarchy the answers of a sequence of look-ups are the one-shot answers -/
def FullStatement_cache : Prop :=
  ∀ (raw : Nat → Option Doc) (mroOf : Nat → List Nat) (qs : List Nat),
    runLookups raw mroOf [] qs = qs.map (pureAnswer raw mroOf)

/-- diamond 3 = D(B, C), 1 = B(A), 2 = C(A), 0 = A -/
def diamondMro : Nat → List Nat
  | 3 => [3, 1, 2, 0]
  | 1 => [1, 0]
  | 2 => [2, 0]
  | 0 => [0]
  | _ => []
def diamondRaw : Nat → Option Doc
  | 0 => some ⟨[], "inline A".toList, [], []⟩
  | 1 => some ⟨[], [], "below B".toList, []⟩
  | 2 => some ⟨[], "inline C".toList, [], []⟩
  | _ => none

/-- finding C19-diamond-history: after `B` was looked up (its cached record now carries `A`'s inline
    comment), `D(B, C)` answers with `A`'s inline comment instead of the nearer `C`'s -/
theorem c19_diamond_history_witness : ¬ FullStatement_cache := by
  intro h
  have := h diamondRaw diamondMro [1, 3]
  revert this
  decide

example : runLookups diamondRaw diamondMro [] [3] = [⟨[], "inline C".toList, "below B".toList, []⟩] := by decide
example : runLookups diamondRaw diamondMro [] [1, 3]
    = [⟨[], "inline A".toList, "below B".toList, []⟩, ⟨[], "inline A".toList, "below B".toList, []⟩] := by decide
/-- the hypotheses of `c19_cache_linear` are satisfiable: a chain of 3 classes, looked up back and forth -/
example : runLookups diamondRaw (chainMro 3) [] [0, 2, 1, 0, 2]
    = [0, 2, 1, 0, 2].map (pureAnswer diamondRaw (chainMro 3)) := c19_cache_linear _ _ _

/-! ### precedence -/

/-- an explicit `help=` handed to `simple_parsing.field` wins over everything -/
theorem c19_precedence_custom (h : Str) (m : Option Str) (d : Doc) : actionHelp (some h) m d = some h := rfl

/-- a non-empty `metadata["help"]` wins over every source-level documentation -/
theorem c19_precedence_meta (h : Str) (d : Doc) (hne : h ≠ []) : actionHelp none (some h) d = some h := by
  cases h with
  | nil => contradiction
  | cons c cs => rfl

/-- **Precedence**: without an explicit `help=`, the help is the first non-empty of docstring
    below, comment above, inline comment, class-docstring entry — and there is none when all four
    are empty (no invented text). -/
theorem c19_precedence (d : Doc) :
    actionHelp none none d =
      (if (firstNonEmpty [d.below, d.above, d.inline, d.cls]).isEmpty then none
       else some (firstNonEmpty [d.below, d.above, d.inline, d.cls])) := by
  simp [actionHelp, fieldHelp, helpString, firstNonEmpty, orStr_nil]

theorem c19_none_help : actionHelp none none Doc.empty = none := by decide

/-- no documentation for `n` anywhere in the chain (undocumented block or no block, no entry) and
    no `help=` ⇒ the action gets no help text -/
theorem c19_help_none (mro : List (ClassSrc × ClassLayout)) (n : Str)
    (h : ∀ p ∈ mro, classLines p.1 = some (p.2.hdr ++ renderBlocks p.2.blocks)
      ∧ p.2.ok = true)
    (hnone : ∀ p ∈ mro, contribution p.2 p.1.params n = none ∨ contribution p.2 p.1.params n = some Doc.empty) :
    actionHelp none none (attributeDoc (mro.map (·.1)) n) = none := by
  rw [c19_chain mro n h]
  have hproj : ∀ (p : Doc → Str), p Doc.empty = [] →
      firstNonEmpty (((mro.map (fun q => contribution q.2 q.1.params n)).filterMap id).map p) = [] := by
    intro p hp
    induction mro with
    | nil => rfl
    | cons q qs ih =>
      have ih' := ih (fun x hx => h x (List.mem_cons_of_mem _ hx)) (fun x hx => hnone x (List.mem_cons_of_mem _ hx))
      rcases hnone q (by simp) with e | e
      · simp only [List.map_cons, e, List.filterMap_cons]; exact ih'
      · simp only [List.map_cons, e, List.filterMap_cons, id, firstNonEmpty, hp, orStr,
          List.isEmpty_nil, ↓reduceIte]
        exact ih'
  have hm := c19_mro (mro.map (fun q => contribution q.2 q.1.params n))
  rw [c19_precedence]
  simp only [firstNonEmpty, hm.1, hm.2.1, hm.2.2.1, hm.2.2.2, hproj (·.above) rfl, hproj (·.inline) rfl,
    hproj (·.below) rfl, hproj (·.cls) rfl, orStr, List.isEmpty_nil, ↓reduceIte]

/-- the class-docstring position is matched by exact name too -/
theorem clsDesc_absent (params : List (Str × Str)) (name : Str) (h : ∀ p ∈ params, p.1 ≠ name) :
    clsDesc params name = [] := by
  unfold clsDesc
  suffices ∀ acc, acc = [] → params.foldl (fun acc p => if p.1 == name then p.2 else acc) acc = [] from
    this [] rfl
  induction params with
  | nil => intro acc h; simpa using h
  | cons p ps ih =>
    intro acc hacc
    have hp : (p.1 == name) = false := by simpa using h p (by simp)
    simp only [List.foldl_cons, hp, Bool.false_eq_true, ↓reduceIte]
    exact ih (fun q hq => h q (List.mem_cons_of_mem _ hq)) acc hacc

/-! ### open findings: full statements, refuted by witnesses; named decidable exclusions -/

/-- FULL STATEMENT (texts of docstrings are just texts): extraction = own documentation for every
    block that is well-formed EXCEPT that intermediate docstring lines may say anything. -/
def FullStatement_docText : Prop :=
  ∀ (hdr : List Str) (pre post : List Block) (b : Block), headerOk hdr = true →
    (∀ x ∈ pre ++ b :: post, x.wfLoose = true) → (∀ x ∈ pre, x.name ≠ b.name) →
    scanLines (hdr ++ renderBlocks (pre ++ b :: post)) b.name = some b.doc

def colonA : Block :=
  { above := [], gap1 := 0, name := "a".toList, tail := " int = 0".toList, inline := none, gap2 := 0,
    below := .multi .dq [] ["about a".toList, "b: is related".toList], gap3 := 0 }
def colonB : Block :=
  { above := [], gap1 := 0, name := "b".toList, tail := " int = 1".toList, inline := some "side of b".toList,
    gap2 := 0, below := .none, gap3 := 0 }

/-- finding C19-docstring-colon: the line `b: is related` in the docstring of `a` is taken for the
    definition of `b`; `b` loses its inline comment and shows its own source line -/
theorem c19_docstring_colon_witness : ¬ FullStatement_docText := by
  intro h
  have := h ["class C0:".toList] [colonA] [] colonB (by decide) (by decide) (by decide)
  revert this
  decide

example : scanLines (["class C0:".toList] ++ renderBlocks [colonA, colonB]) "b".toList
    = some ⟨[], [], "\nb: int = 1  # side of b".toList, []⟩ := by decide

/-- the partial theorem is `c19_extract`: `Block.wf` is `wfLoose` minus the named exclusion -/
theorem c19_extract_partial_exclusion (b : Block) : b.wf = (b.wfLoose && !b.docLooksLikeDef) := rfl

/-- FULL STATEMENT (a class docstring that stays in the source is just text): with the lines of a
    docstring between the header and the blocks, every field still gets its own documentation. -/
def FullStatement_classdoc : Prop :=
  ∀ (hdr : List Str) (q : Quote) (first : Str) (rest : List Str) (pre post : List Block) (b : Block),
    headerOk hdr = true → (∀ x ∈ pre ++ b :: post, x.wf = true) → (∀ x ∈ pre, x.name ≠ b.name) →
    scanLines (hdr ++ belowLines (.multi q first rest) ++ renderBlocks (pre ++ b :: post)) b.name = some b.doc

def belowA : Block :=
  { above := [], gap1 := 0, name := "a".toList, tail := " int = 0".toList, inline := none, gap2 := 0,
    below := .one .dq "below a".toList, gap3 := 0 }

/-- finding C19-classdoc-escape: when `cls.__doc__` is not found in the source (escape sequence in
    the docstring) its lines stay, and `a: entry` is read as the definition of `a` -/
theorem c19_classdoc_kept_witness : ¬ FullStatement_classdoc := by
  intro h
  have := h ["class C0:".toList] .dq "Summary\\twith tab.".toList ["Args:".toList, "    a: entry of a".toList]
    [] [] belowA (by decide) (by decide) (by simp)
  revert this
  decide

/-- named exclusion: a line of the kept docstring looks like a definition or carries a `#` -/
def docstringKeptHarmful (q : Quote) (first : Str) (rest : List Str) : Bool :=
  (belowLines (.multi q first rest)).any (fun l => containsFieldDef l || l.contains '#')

/-- partial: a kept class docstring none of whose lines looks like a definition (or has a `#`)
    changes nothing -/
theorem c19_classdoc_kept_partial (hdr : List Str) (q : Quote) (first : Str) (rest : List Str)
    (pre post : List Block) (b : Block) (hh : headerOk hdr = true)
    (hex : docstringKeptHarmful q first rest = false)
    (hw : ∀ x ∈ pre ++ b :: post, x.wf = true) (hn : ∀ x ∈ pre, x.name ≠ b.name) :
    scanLines (hdr ++ belowLines (.multi q first rest) ++ renderBlocks (pre ++ b :: post)) b.name
      = some b.doc := by
  apply c19_extract _ pre post b _ hw hn
  simp only [headerOk, Bool.and_eq_true, List.all_eq_true] at hh ⊢
  simp only [docstringKeptHarmful, List.any_eq_false, Bool.or_eq_true, not_or, Bool.not_eq_true] at hex
  refine ⟨?_, ?_⟩
  · cases hdr with
    | nil => simp at hh
    | cons x xs => simp
  · intro l hl
    rcases List.mem_append.mp hl with e | e
    · exact hh.2 l e
    · have := hex l e
      simp only [this.1, Bool.not_false, true_and, Bool.or_eq_true, Bool.not_eq_eq_eq_not, Bool.not_true]
      exact Or.inr this.2

example : docstringKeptHarmful .dq "Summary".toList (["", "more words about the class"].map String.toList) = false := by
  decide

/-- FULL STATEMENT (comments of the class header are nobody's documentation), for headers of any
    number of lines -/
def FullStatement_header : Prop :=
  ∀ (hdr : List Str) (pre post : List Block) (b : Block),
    (!hdr.isEmpty && hdr.all (fun l => !containsFieldDef l)) = true →
    (∀ x ∈ pre ++ b :: post, x.wf = true) → (∀ x ∈ pre, x.name ≠ b.name) →
    scanLines (hdr ++ renderBlocks (pre ++ b :: post)) b.name = some b.doc

def plainBlock : Block :=
  { above := [], gap1 := 0, name := "a".toList, tail := " int = 0".toList, inline := none,
    gap2 := 0, below := .none, gap3 := 0 }

/-- finding C19-multiline-header: a comment on a continuation line of the class header becomes the
    first field's comment above (the repair 140247d covers the `class` / `@` lines only) -/
theorem c19_multiline_header_witness : ¬ FullStatement_header := by
  intro h
  have := h (["@dataclass", "class C1(", "    C0,  # the base", "):"].map String.toList) [] [] plainBlock
    (by decide) (by decide) (by simp)
  revert this
  decide

/-- named exclusion: a `#` on a header line that is neither the `class` line nor a decorator line -/
def commentInsideHeader (hdr : List Str) : Bool := hdr.any (fun l => l.contains '#' && !isHeaderLine l)

theorem c19_header_partial_exclusion (hdr : List Str) :
    headerOk hdr = (!hdr.isEmpty && hdr.all (fun l => !containsFieldDef l) && !commentInsideHeader hdr) := by
  have key : ∀ ls : List Str, ls.all (fun l => !containsFieldDef l && (isHeaderLine l || !l.contains '#'))
      = (ls.all (fun l => !containsFieldDef l) && !ls.any (fun l => l.contains '#' && !isHeaderLine l)) := by
    intro ls
    induction ls with
    | nil => rfl
    | cons l ls ih =>
      simp only [List.all_cons, List.any_cons, ih]
      cases containsFieldDef l <;> cases l.contains '#' <;> cases isHeaderLine l <;>
        cases ls.all (fun l => !containsFieldDef l) <;>
        cases ls.any (fun l => l.contains '#' && !isHeaderLine l) <;> rfl
  simp only [headerOk, commentInsideHeader, key, Bool.and_assoc]

/-- FULL STATEMENT (what follows the fields — methods — does not define fields): a name without a
    block is not defined, whatever lines follow the blocks. -/
def FullStatement_trailer : Prop :=
  ∀ (hdr : List Str) (bs : List Block) (trailer : List Str) (n : Str), headerOk hdr = true →
    (∀ x ∈ bs, x.wf = true) → (∀ x ∈ bs, x.name ≠ n) →
    scanLines (hdr ++ renderBlocks bs ++ trailer) n = none

/-- finding C19-method-local: the annotated local `total: int = 0  # running sum` of a method is read
    as a definition of the (inherited) field `total` -/
theorem c19_method_local_witness : ¬ FullStatement_trailer := by
  intro h
  have := h ["class C1(C0):".toList] [plainBlock]
    (["", "    def run(self):", "        total: int = 0  # running sum", "        return total"].map String.toList)
    "total".toList (by decide) (by decide) (by decide)
  revert this
  decide

/-- named exclusion; the partial theorem is `c19_absent`, whose hypothesis `ht` is its negation -/
def trailerDefines (trailer : List Str) (n : Str) : Bool :=
  trailer.any (fun l => containsFieldDef l && lineDefines l n)

theorem c19_absent_partial (hdr : List Str) (bs : List Block) (trailer : List Str) (n : Str)
    (hh : headerOk hdr = true) (hw : ∀ x ∈ bs, x.wf = true) (hn : ∀ x ∈ bs, x.name ≠ n)
    (hex : trailerDefines trailer n = false) :
    scanLines (hdr ++ renderBlocks bs ++ trailer) n = none := by
  apply c19_absent hdr bs trailer n hh hw hn
  simpa [trailerDefines, List.any_eq_false] using hex

example : trailerDefines (["", "    def run(self):", "        \"\"\"run it\"\"\"", "        return 0"].map String.toList)
    "total".toList = false := by decide

/-- FULL STATEMENT (the docstring right after a definition is its docstring below — also when
    the definition needs several lines): continuation lines between the opening line of the
    definition and the docstring do not matter. -/
def tailOpenOk (tail : Str) : Bool :=
  match runTok ⟨none, [], .ident⟩ (':' :: tail) with
  | some s => s.inStr.isNone
  | none => false

/-- `Block.wf` where the definition line may leave brackets open (`field(` … closed on a later line) -/
def wfOpen (b : Block) : Bool :=
  isIdentifier b.name && !b.tail.contains ':' && tailOpenOk b.tail
  && b.above.all aboveOk
  && (match b.below with
      | .none => true
      | .one q m => docLineOk q m && openOk q (m ++ q.tok)
      | .multi q f r => docLineOk q f && openOk q f && r.all (docLineOk q))
  && !b.docLooksLikeDef

/-- named exclusion: the opening line of the definition leaves a bracket open -/
def opensBracket (b : Block) : Bool := !tailOk b.tail

def FullStatement_belowMultiline : Prop :=
  ∀ (hdr : List Str) (b : Block) (conts : List Str), headerOk hdr = true → wfOpen b = true → b.gap2 = 0 →
    (∀ l ∈ conts, containsFieldDef l = false ∧ isEmptyLine l = false) →
    scanLines (hdr ++ (b.above.map commentLine ++ blanks b.gap1 ++ [defLine b] ++ conts
      ++ belowLines b.below ++ blanks b.gap3)) b.name = some b.doc

def multiDefBlock : Block :=
  { above := [], gap1 := 0, name := "a".toList, tail := " int = field(default=0,".toList, inline := none,
    gap2 := 0, below := .one .dq "below a".toList, gap3 := 0 }

/-- finding C19-docstring-below-multiline: the search for the docstring starts on the line after
    the OPENING line of the definition; the continuation line `    )` is neither blank, nor a
    definition, nor a quote — the docstring below is not found -/
theorem c19_below_multiline_witness : ¬ FullStatement_belowMultiline := by
  intro h
  have := h ["class C0:".toList] multiDefBlock ["    )".toList] (by decide) (by decide) rfl (by decide)
  revert this
  decide

example : scanLines (["class C0:".toList] ++ [defLine multiDefBlock, "    )".toList, "    \"\"\"below a\"\"\"".toList])
    "a".toList = some Doc.empty := by decide

example : wfOpen multiDefBlock = true ∧ opensBracket multiDefBlock = true := by decide

/-- partial: under the exclusion `opensBracket b = false` (that is what `Block.wf` adds to `wfOpen`)
    there are no continuation lines and the statement is `c19_extract` -/
theorem c19_below_multiline_partial (hdr : List Str) (b : Block) (hh : headerOk hdr = true)
    (hw : b.wf = true) (hg : b.gap2 = 0) :
    scanLines (hdr ++ (b.above.map commentLine ++ blanks b.gap1 ++ [defLine b] ++ ([] : List Str)
      ++ belowLines b.below ++ blanks b.gap3)) b.name = some b.doc := by
  have := c19_extract hdr [] [] b hh (by simpa using hw) (by simp)
  simpa [renderBlocks, renderBlock, hg, blanks, List.append_assoc] using this

/-! ### repaired findings, now full theorems -/

theorem cfd_congr {l l' : Str} (h : before '#' l = before '#' l') :
    containsFieldDef l = containsFieldDef l' := by
  unfold containsFieldDef; rw [h]

/-- `@dataclass  # <any comment>` -/
def decoratorLine (c : Str) : Str := ['@', 'd', 'a', 't', 'a', 'c', 'l', 'a', 's', 's', ' ', ' ', '#', ' '] ++ c
/-- `class C0:  # <any comment>` -/
def classLine (c : Str) : Str := ['c', 'l', 'a', 's', 's', ' ', 'C', '0', ':', ' ', ' ', '#', ' '] ++ c

theorem commented_header_ok (c d : Str) : headerOk [decoratorLine c, classLine d] = true := by
  have h1 : containsFieldDef (decoratorLine c) = false := by
    have e : decoratorLine c = ['@', 'd', 'a', 't', 'a', 'c', 'l', 'a', 's', 's', ' ', ' '] ++ '#' :: ' ' :: c := rfl
    apply cfd_no_colon
    rw [e, before_stop _ (by decide)]
    decide
  have h2 : containsFieldDef (classLine d) = false := by
    have e : classLine d = ['c', 'l', 'a', 's', 's', ' ', 'C', '0', ':', ' ', ' '] ++ '#' :: ' ' :: d := rfl
    have e' : before '#' (classLine d) = before '#' ['c', 'l', 'a', 's', 's', ' ', 'C', '0', ':', ' ', ' '] := by
      rw [e, before_stop _ (by decide)]; decide
    rw [cfd_congr e']
    decide
  have h3 : isHeaderLine (decoratorLine c) = true := by
    simp [isHeaderLine, decoratorLine, lstripWs, isSpace, startsWith]
  have h4 : isHeaderLine (classLine d) = true := by
    simp [isHeaderLine, classLine, lstripWs, isSpace, startsWith]
  simp [headerOk, h1, h2, h3, h4]

/-- **A comment on the `class` line or on a decorator line is nobody's documentation** (was
    finding C19-header-comment, repaired): whatever the two comments say, every field — the
    first one included — gets exactly its own block's documentation. -/
theorem c19_header_comment (c d : Str) (pre post : List Block) (b : Block)
    (hw : ∀ x ∈ pre ++ b :: post, x.wf = true) (hn : ∀ x ∈ pre, x.name ≠ b.name) :
    scanLines ([decoratorLine c, classLine d] ++ renderBlocks (pre ++ b :: post)) b.name = some b.doc :=
  c19_extract _ pre post b (commented_header_ok c d) hw hn

/-- what a class contributes to the class-docstring position: its entry for exactly that name,
    whether or not it declares the field itself -/
theorem scanClass_cls (c : ClassSrc) (name : Str) (hs : c.source.isSome = true) :
    ((scanClass c name).map (·.cls)).getD [] = clsDesc c.params name := by
  unfold scanClass
  cases hcl : classLines c with
  | none =>
    unfold classLines at hcl
    cases hsrc : c.source with
    | none => rw [hsrc] at hs; cases hs
    | some x => rw [hsrc] at hcl; cases hcl
  | some ls =>
  simp only
  cases scanLines ls name with
  | some d => rfl
  | none =>
    cases h : clsDesc c.params name with
    | nil => simp
    | cons x xs => simp

/-- a class that only documents the field in its docstring contributes nothing to the three
    source-level positions (so it never hides a base class's comment or docstring) -/
theorem scanClass_undeclared (c : ClassSrc) (name : Str)
    (ls : List Str) (hl : classLines c = some ls) (h : scanLines ls name = none) :
    scanClass c name = none ∨ scanClass c name = some ⟨[], [], [], clsDesc c.params name⟩ := by
  unfold scanClass
  rw [hl]
  simp only
  rw [h]
  cases (clsDesc c.params name).isEmpty <;> simp

/-- **The class-docstring entry comes from the nearest class whose docstring has one** — for every
    MRO and every name, including subclasses that document an inherited field without
    re-declaring it (was finding C19-clsdoc-inherited, repaired).  Classes whose source cannot be
    retrieved (`make_dataclass`, REPL) contribute nothing at all, hence the hypothesis. -/
theorem c19_clsdoc (mro : List ClassSrc) (name : Str) (hs : ∀ c ∈ mro, c.source.isSome = true) :
    (attributeDoc mro name).cls = firstNonEmpty (mro.map (fun c => clsDesc c.params name)) := by
  unfold attributeDoc
  rw [(c19_mro _).2.2.2]
  induction mro with
  | nil => rfl
  | cons c cs ih =>
    have ih := ih (fun x hx => hs x (List.mem_cons_of_mem _ hx))
    have hc := scanClass_cls c name (hs c (by simp))
    simp only [List.map_cons, List.filterMap_cons, id, firstNonEmpty]
    cases hsc : scanClass c name with
    | none =>
      rw [hsc] at hc
      simp only [Option.map_none, Option.getD_none] at hc
      rw [← hc]
      simp only [orStr, List.isEmpty_nil, ↓reduceIte]
      exact ih
    | some d =>
      rw [hsc] at hc
      simp only [Option.map_some, Option.getD_some] at hc
      simp only [List.map_cons, firstNonEmpty, hc, ih]

def colorBlock : Block :=
  { above := [], gap1 := 0, name := "color".toList, tail := " str = \"#ff0000\"".toList, inline := none,
    gap2 := 0, below := .none, gap3 := 0 }
def colorBlock2 : Block :=
  { colorBlock with tail := " str = field(default='a # b', help=\"x#y\")".toList,
                    inline := some "the # real comment".toList }

/-- **A `#` inside a string literal of the default value is not a comment** (was finding
    C19-hash-in-default, repaired): such blocks are well-formed, so `c19_extract`, `c19_no_leak`
    and `c19_none` cover them; the former witness now yields no text at all. -/
theorem c19_hash_in_default (hdr : List Str) (pre post : List Block) (hh : headerOk hdr = true)
    (hw : ∀ x ∈ pre ++ colorBlock :: post, x.wf = true) (hn : ∀ x ∈ pre, x.name ≠ colorBlock.name) :
    scanLines (hdr ++ renderBlocks (pre ++ colorBlock :: post)) colorBlock.name = some Doc.empty :=
  c19_none hdr pre post colorBlock hh hw hn rfl rfl rfl

example : colorBlock.wf = true ∧ colorBlock2.wf = true := by decide
example : scanLines (["class C0:".toList] ++ renderBlocks [colorBlock]) "color".toList = some Doc.empty := by decide
example : scanLines (["class C0:".toList] ++ renderBlocks [colorBlock2]) "color".toList
    = some ⟨[], "the # real comment".toList, [], []⟩ := by decide

/-- **No comment token ⇒ no inline text** (was excluded as finding C19-multiline-hash; repaired by
    9e297b8): on every modelled definition line on which the tokenizer pass yields no comment —
    because there is none, or because it raises at an open bracket / unterminated string — the
    inline comment is empty.  No exclusion left. -/
theorem c19_inline_full (l : Str) (hm : lineModelled l = true) (hno : ∀ body, inlineTok l ≠ .comment body) :
    inlineComment l = [] := by
  unfold inlineComment
  by_cases hc : l.contains '#' = true
  · simp only [hc, Bool.not_true, Bool.false_eq_true, ↓reduceIte]
    cases ht : inlineTok l with
    | comment body => exact absurd ht (hno body)
    | noComment => rfl
    | error => rfl
    | unmodelled =>
      exfalso
      have hmem : '#' ∈ l := List.contains_iff_mem.mp hc
      simp [lineModelled, ht, hmem] at hm
  · have hmem : '#' ∉ l := fun h => hc (List.contains_iff_mem.mpr h)
    simp [hmem]

/-- regression example: the former witness under the OLD rule and under the repaired one -/
example : inlineCommentOld "    color: str = field(default=\"#fff\",".toList = "fff\",".toList := by decide
example : inlineComment "    color: str = field(default=\"#fff\",".toList = [] := by decide
example : lineModelled "    color: str = field(default=\"#fff\",".toList = true ∧
    inlineTok "    color: str = field(default=\"#fff\",".toList = .error := by decide
/-- with a real comment on the opening line the comment token is found before the error -/
example : inlineComment "    color: str = field(default=\"#fff\",  # title bar".toList = "title bar".toList := by decide

def baseSrc : ClassSrc :=
  { source := some "@dataclass\nclass C0:\n    a: int = 0  # side\n".toList, doc := none, params := [] }
def derivedSrc : ClassSrc :=
  { source := some "@dataclass\nclass C1(C0):\n    x: int = 0\n".toList, doc := none,
    params := [("a".toList, "the a of C1".toList)] }

/-- a class without retrievable source contributes nothing, not even its docstring entry
    (docstring.py:115-124) -/
theorem c19_no_source (c : ClassSrc) (name : Str) (h : c.source = none) : scanClass c name = none := by
  simp [scanClass, classLines, h]

/-- the former witness, now the expected answer: `C1` documents the inherited `a` -/
example : attributeDoc [derivedSrc, baseSrc] "a".toList = ⟨[], "side".toList, [], "the a of C1".toList⟩ := by
  decide

/-- the former witness: the comment of the `class` line no longer reaches the first field -/
example : scanLines (["@dataclass".toList, "class C0:  # about the class".toList] ++ renderBlocks [plainBlock])
    "a".toList = some Doc.empty := by decide

/-! ### the hypotheses are satisfiable by non-trivial inputs -/

def exA : Block :=
  { above := ["first line".toList, "second line".toList], gap1 := 1, name := "a".toList,
    tail := " int = 0".toList, inline := some "side of a".toList, gap2 := 1,
    below := .one .dq "below a".toList, gap3 := 1 }
def exAB : Block :=
  { above := [], gap1 := 0, name := "ab".toList, tail := " str = field(default=\"x\", help=\"h\")".toList,
    inline := none, gap2 := 0, below := .multi .sq "below ab".toList ["more ab".toList], gap3 := 2 }
def exABC : Block :=
  { above := ["about abc".toList], gap1 := 0, name := "abc".toList, tail := " float = 1.5".toList,
    inline := none, gap2 := 0, below := .none, gap3 := 0 }
def exHdr : List Str := ["@dataclass(eq=True)".toList, "class C1(C0):".toList, "    \"\"\"".toList, "\"\"\"".toList]

example : headerOk exHdr = true := by decide
example : ∀ x ∈ [exAB] ++ exA :: [exABC], x.wf = true := by decide
example : ∀ x ∈ [exAB], x.name ≠ exA.name := by decide
/-- prefix-related names: the scan for `a` walks over the block of `ab` and answers with `a`'s texts -/
example : scanLines (exHdr ++ renderBlocks [exAB, exA, exABC]) "a".toList
    = some ⟨"first line\nsecond line".toList, "side of a".toList, "below a".toList, []⟩ := by decide
example : scanLines (exHdr ++ renderBlocks [exAB, exA, exABC]) "ab".toList
    = some ⟨[], [], "below ab\nmore ab\n".toList, []⟩ := by decide
example : (getAttributeDocstring [none, some ⟨[], "i1".toList, [], []⟩, some ⟨"a2".toList, "i2".toList, [], "c2".toList⟩])
    = ⟨"a2".toList, "i1".toList, [], "c2".toList⟩ := by decide
example : headerOk [decoratorLine "frozen or not".toList, classLine "about the class".toList] = true := by decide

/-- everyday texts are inside the grammar now: `:` and quotes in the inline comment, an apostrophe
    in a comment and in a docstring -/
def exText : Block :=
  { above := ["don't touch: tuned by hand".toList], gap1 := 0, name := "lr".toList,
    tail := " float = 0.5".toList, inline := some "learning rate: step = \"x\" # not this".toList, gap2 := 0,
    below := .one .dq "it's the rate: lr = 0.5".toList, gap3 := 0 }
example : exText.wf = true := by decide
example : scanLines (["class C0:".toList] ++ renderBlocks [exText]) "lr".toList = some exText.doc := by decide

/-- the hypothesis `hsrc` of `c19_class_layout` / `c19_chain` is satisfiable: a concrete class
    source WITH a class docstring splits, after the removal of `__doc__`, into header + blocks -/
def exSrc : ClassSrc :=
  { source := some "@dataclass\nclass C0:\n    \"\"\"Summary.\n\n    Args:\n        a: entry of a\n    \"\"\"\n    # first line\n    # second line\n\n    a: int = 0  # side of a\n\n    \"\"\"below a\"\"\"\n\n".toList,
    doc := some "Summary.\n\n    Args:\n        a: entry of a\n    ".toList,
    params := [("a".toList, "entry of a".toList)] }
def exLayout : ClassLayout :=
  { hdr := ["@dataclass", "class C0:", "    \"\"\"", "\"\"\""].map String.toList, blocks := [exA] }

set_option maxRecDepth 8000 in
example : classLines exSrc = some (exLayout.hdr ++ renderBlocks exLayout.blocks) := by decide
example : exLayout.ok = true := by decide
set_option maxRecDepth 8000 in
example : scanClass exSrc "a".toList
    = some ⟨"first line\nsecond line".toList, "side of a".toList, "below a".toList, "entry of a".toList⟩ := by
  rw [c19_class_layout exSrc exLayout _ (by decide) (by decide)]; decide

end SpVerif.C19
