/-
  C19 — a field's help text comes from its own documentation, by fixed precedence.

  Theorems about `SpVerif.Model.DocScan` (mirrors simple_parsing/docstring.py and
  `FieldWrapper.help`).  The central statement is `c19_extract`: on every source made of header
  lines followed by well-formed field blocks (the layout grammar of DESIGN.md §5 C19, rendered by
  `renderBlocks`), the line scanner returns for each field exactly the documentation of that
  field's own block — any number of blocks, any number of comment / blank / docstring lines.
-/
import SpVerif.Lemmas.DocScan
namespace SpVerif.C19
open SpVerif SpVerif.DocScan

/-! ### walking over the lines of other blocks -/

theorem scanFrom_skip (n : Str) (A R : List Str) (rb : List Str)
    (h : ∀ l ∈ A, (containsFieldDef l && lineDefines l n) = false) :
    scanFrom n rb (A ++ R) = scanFrom n (A.reverse ++ rb) R := by
  induction A generalizing rb with
  | nil => rfl
  | cons a as ih =>
    have ha := h a (by simp)
    rw [List.cons_append, scanFrom, ha]
    simp only [Bool.false_eq_true, ↓reduceIte]
    rw [ih _ (fun l hl => h l (List.mem_cons_of_mem _ hl))]
    simp

theorem renderBlocks_append (a b : List Block) :
    renderBlocks (a ++ b) = renderBlocks a ++ renderBlocks b := by
  induction a with
  | nil => rfl
  | cons x xs ih => simp [renderBlocks, ih, List.append_assoc]

theorem mem_blanks {n : Nat} {l : Str} (h : l ∈ blanks n) : l = [] :=
  List.eq_of_mem_replicate h

/-- no line of a well-formed block defines a field with another name — **exact identifier
    comparison**: `a` versus `ab`, `val` versus `value` are different names. -/
theorem block_skip {b : Block} (hb : WF b) {n : Str} (hn : b.name ≠ n) :
    ∀ l ∈ renderBlock b, (containsFieldDef l && lineDefines l n) = false := by
  intro l hl
  simp only [renderBlock, List.mem_append, List.mem_map, List.mem_singleton] at hl
  rcases hl with ((((⟨m, hm, e⟩ | e) | e) | e) | e) | e
  · subst e; simp [(comment_facts (hb.above m hm)).1]
  · rw [mem_blanks e]; simp [blank_facts.1]
  · subst e
    rw [(def_facts hb).2.1 n]
    simp [hn]
  · rw [mem_blanks e]; simp [blank_facts.1]
  · simp [below_no_def hb l e]
  · rw [mem_blanks e]; simp [blank_facts.1]

theorem blocks_skip {bs : List Block} (hb : ∀ x ∈ bs, WF x) {n : Str} (hn : ∀ x ∈ bs, x.name ≠ n) :
    ∀ l ∈ renderBlocks bs, (containsFieldDef l && lineDefines l n) = false := by
  induction bs with
  | nil => intro l hl; simp [renderBlocks] at hl
  | cons x xs ih =>
    intro l hl
    simp only [renderBlocks, List.mem_append] at hl
    rcases hl with e | e
    · exact block_skip (hb x (by simp)) (hn x (by simp)) l e
    · exact ih (fun y hy => hb y (List.mem_cons_of_mem _ hy)) (fun y hy => hn y (List.mem_cons_of_mem _ hy)) l e

/-! ### the upward scan stays inside the block -/

theorem scanUp_nonstop (A B : List Str) (h : ∀ l ∈ A, isStop l = false) :
    scanUp (A ++ B) = A ++ scanUp B := by
  induction A with
  | nil => rfl
  | cons a as ih =>
    simp [scanUp, h a (by simp), ih (fun l hl => h l (List.mem_cons_of_mem _ hl))]

theorem scanUp_stop (A X : List Str) (s : Str) (h : ∀ l ∈ A, isStop l = false) (hs : isStop s = true) :
    scanUp (A ++ s :: X) = A := by
  rw [scanUp_nonstop _ _ h]; simp [scanUp, hs]

theorem mem_scanUp {l : Str} {X : List Str} (h : l ∈ scanUp X) : l ∈ X := by
  induction X with
  | nil => simp [scanUp] at h
  | cons a as ih =>
    simp only [scanUp] at h
    split at h
    · simp at h
    · rcases List.mem_cons.mp h with e | e
      · simp [e]
      · exact List.mem_cons_of_mem _ (ih e)

theorem mem_scanUp_nonstop {l : Str} {X : List Str} (h : l ∈ scanUp X) : isStop l = false := by
  induction X with
  | nil => simp [scanUp] at h
  | cons a as ih =>
    simp only [scanUp] at h
    split at h
    · simp at h
    · rename_i hs
      rcases List.mem_cons.mp h with e | e
      · subst e; simpa using hs
      · exact ih e

theorem hasTriple_tok (q : Quote) (r : Str) : hasTriple (indent ++ q.tok ++ r) = true := by
  cases q
  · have := breakOn_first '"' r (not_mem_indent (c := '"') (by decide))
    have e : indent ++ Quote.dq.tok ++ r = indent ++ '"' :: '"' :: '"' :: r := by
      simp [Quote.tok, tripleDouble]
    simp [hasTriple, e, tripleDouble, this]
  · have := breakOn_first '\'' r (not_mem_indent (c := '\'') (by decide))
    have e : indent ++ Quote.sq.tok ++ r = indent ++ '\'' :: '\'' :: '\'' :: r := by
      simp [Quote.tok, tripleSingle]
    simp [hasTriple, e, tripleSingle, this]

/-- the part of a block after its definition line -/
def tailLines (b : Block) : List Str := blanks b.gap2 ++ belowLines b.below ++ blanks b.gap3

theorem renderBlock_eq (b : Block) :
    renderBlock b = (b.above.map commentLine ++ blanks b.gap1) ++ defLine b :: tailLines b := by
  simp [renderBlock, tailLines, List.append_assoc]

theorem blanks_nonstop {n : Nat} : ∀ l ∈ blanks n, isStop l = false := by
  intro l hl; rw [mem_blanks hl]; exact isStop_blank

theorem blanks_reverse (n : Nat) : (blanks n).reverse = blanks n := by simp [blanks]

/-- scanning upwards from below a block stops inside it — at its closing-quote line or its
    definition line — and has passed only blank lines -/
theorem scanUp_block {b : Block} (hb : WF b) (W : List Str) :
    ∀ l ∈ scanUp ((tailLines b).reverse ++ defLine b :: W), l = [] := by
  have hw := hb.below
  unfold tailLines
  cases hbl : b.below with
  | none =>
    have : (blanks b.gap2 ++ belowLines Below.none ++ blanks b.gap3).reverse ++ defLine b :: W
        = (blanks b.gap3 ++ blanks b.gap2) ++ defLine b :: W := by
      simp [belowLines, blanks_reverse]
    rw [this, scanUp_stop _ _ _ _ (isStop_def hb)]
    · intro l hl
      rcases List.mem_append.mp hl with e | e <;> exact mem_blanks e
    · intro l hl
      rcases List.mem_append.mp hl with e | e <;> exact blanks_nonstop l e
  | one q m =>
    have : (blanks b.gap2 ++ belowLines (Below.one q m) ++ blanks b.gap3).reverse ++ defLine b :: W
        = blanks b.gap3 ++ (indent ++ q.tok ++ (m ++ q.tok)) :: (blanks b.gap2 ++ defLine b :: W) := by
      simp [belowLines, blanks_reverse, List.append_assoc]
    rw [this, scanUp_stop _ _ _ blanks_nonstop (by rw [isStop, hasTriple_tok]; simp)]
    intro l hl; exact mem_blanks hl
  | multi q f r =>
    have : (blanks b.gap2 ++ belowLines (Below.multi q f r) ++ blanks b.gap3).reverse ++ defLine b :: W
        = blanks b.gap3 ++ (indent ++ q.tok ++ []) ::
            ((r.map (indent ++ ·)).reverse ++ (indent ++ q.tok ++ f) :: (blanks b.gap2 ++ defLine b :: W)) := by
      simp [belowLines, blanks_reverse, List.append_assoc]
    rw [this, scanUp_stop _ _ _ blanks_nonstop (by rw [isStop, hasTriple_tok]; simp)]
    intro l hl; exact mem_blanks hl

/-- the context above a block: the header lines after source line 0, then the earlier blocks -/
theorem quiet_context {hs : List Str} {pre : List Block}
    (hh : ∀ l ∈ hs, isHeaderLine l = true ∨ '#' ∉ l)
    (hp : ∀ x ∈ pre, WF x) : ∀ l ∈ scanUp (hs ++ renderBlocks pre).reverse, '#' ∉ l := by
  rcases List.eq_nil_or_concat pre with e | ⟨pre', p, e⟩
  · subst e
    intro l hl
    have hm := mem_scanUp hl
    have hns := mem_scanUp_nonstop hl
    simp [renderBlocks] at hm
    rcases hh l hm with e | e
    · simp [isStop, e] at hns
    · exact e
  · subst e
    simp only [List.concat_eq_append] at hp ⊢
    have hpw : WF p := hp p (by simp)
    intro l hl
    have e : (hs ++ renderBlocks (pre' ++ [p])).reverse
        = (tailLines p).reverse ++ defLine p :: ((p.above.map commentLine ++ blanks p.gap1).reverse
            ++ (hs ++ renderBlocks pre').reverse) := by
      rw [renderBlocks_append]
      simp [renderBlocks, renderBlock_eq, List.append_assoc]
    rw [e] at hl
    rw [scanUp_block hpw _ l hl]
    simp

theorem quiet_entries (Q : List Str) (h : ∀ l ∈ Q, '#' ∉ l) :
    ∃ k, (Q.filter (fun l => !isEmptyLine l)).map commentAt = List.replicate k [] := by
  induction Q with
  | nil => exact ⟨0, rfl⟩
  | cons a as ih =>
    obtain ⟨k, hk⟩ := ih (fun l hl => h l (List.mem_cons_of_mem _ hl))
    have ha : commentAt a = [] := by
      have hna := h a (by simp)
      simp [commentAt, hna]
    by_cases he : isEmptyLine a = true
    · exact ⟨k, by simp [List.filter, he, hk]⟩
    · refine ⟨k + 1, ?_⟩
      simp only [Bool.not_eq_true] at he
      simp [List.filter, he, ha, hk, List.replicate_succ]

theorem comment_entries {ms : List Str} (h : ∀ m ∈ ms, '"' ∉ m ∧ '\'' ∉ m) :
    ((ms.map commentLine).filter (fun l => !isEmptyLine l)).map commentAt = ms.map stripWs := by
  induction ms with
  | nil => rfl
  | cons m ms ih =>
    have hm := comment_facts (h m (by simp))
    simp [hm.2.2.1, hm.2.2.2.2, ih (fun x hx => h x (List.mem_cons_of_mem _ hx))]

theorem blanks_filter (n : Nat) : (blanks n).filter (fun l => !isEmptyLine l) = [] := by
  induction n with
  | zero => rfl
  | succ k ih =>
    have : blanks (k + 1) = [] :: blanks k := by simp [blanks, List.replicate_succ]
    rw [this]
    simp [List.filter, blank_facts.2.2, ih]

theorem strip_join_pad (k : Nat) (xs : List Str) :
    stripWs (joinNl (List.replicate k [] ++ xs)) = stripWs (joinNl xs) := by
  induction k with
  | zero => rfl
  | succ k ih =>
    rw [List.replicate_succ, List.cons_append]
    cases hys : List.replicate k [] ++ xs with
    | nil =>
      have hx : xs = [] := (List.append_eq_nil_iff.mp hys).2
      subst hx
      rfl
    | cons y ys =>
      have : joinNl ([] :: y :: ys) = '\n' :: joinNl (y :: ys) := by simp [joinNl, joinWith]
      rw [this]
      have hsp : allSpace ['\n'] := by intro c hc; simp at hc; subst hc; decide
      have := stripWs_space_left (joinNl (y :: ys)) hsp
      simp only [List.singleton_append] at this
      rw [this, ← hys, ih]

/-- **locality of the comment-above scan** -/
theorem above_eq {b : Block} (hb : WF b) (ctx : List Str) (hq : ∀ l ∈ scanUp ctx.reverse, '#' ∉ l) :
    commentAbove ((ctx ++ (b.above.map commentLine ++ blanks b.gap1)).reverse) = b.doc.above := by
  have e1 : (ctx ++ (b.above.map commentLine ++ blanks b.gap1)).reverse
      = (blanks b.gap1 ++ (b.above.map commentLine).reverse) ++ ctx.reverse := by
    simp [blanks_reverse, List.append_assoc]
  have hns : ∀ l ∈ blanks b.gap1 ++ (b.above.map commentLine).reverse, isStop l = false := by
    intro l hl
    rcases List.mem_append.mp hl with e | e
    · exact blanks_nonstop l e
    · obtain ⟨m, hm, e⟩ := List.mem_map.mp (List.mem_reverse.mp e)
      subst e; exact isStop_comment (hb.above m hm)
  obtain ⟨k, hk⟩ := quiet_entries (scanUp ctx.reverse).reverse (fun l hl => hq l (List.mem_reverse.mp hl))
  unfold commentAbove
  simp only [e1, scanUp_nonstop _ _ hns, List.reverse_append, List.reverse_reverse, blanks_reverse,
    List.filter_append, List.map_append, hk, comment_entries hb.above, blanks_filter, List.append_nil]
  rw [strip_join_pad]
  rfl

/-! ### the downward scan stays inside the block -/

theorem docStart_blanks (n : Nat) (L : List Str) : docStart (blanks n ++ L) = docStart L := by
  induction n with
  | zero => rfl
  | succ k ih =>
    have : blanks (k + 1) = [] :: blanks k := by simp [blanks, List.replicate_succ]
    rw [this, List.cons_append, docStart]
    simp [blank_facts.2.2, ih]

/-- below an undocumented field the scan meets the next block's comment or definition (or the end
    of the class) and returns nothing -/
theorem docStart_blocks {post : List Block} (hp : ∀ x ∈ post, WF x) :
    docStart (renderBlocks post) = [] := by
  cases post with
  | nil => rfl
  | cons p ps =>
    have hpw := hp p (by simp)
    rw [renderBlocks, renderBlock_eq]
    cases ha : p.above with
    | nil =>
      simp only [List.map_nil, List.nil_append, List.append_assoc]
      rw [docStart_blanks, List.cons_append, docStart]
      have h1 : isEmptyLine (defLine p) = false := by
        rw [defLine_eq, isEmptyLine, List.append_assoc, lstripWs_space _ indent_allSpace]
        cases hn : p.name with
        | nil => have := ident_ne_nil hpw.name; contradiction
        | cons c cs =>
          have hc : isSpace c = false := (ident_chars hpw.name c (by simp [hn])).1
          rw [List.cons_append, lstripWs_cons _ hc]; rfl
      simp [h1, (def_facts hpw).1]
    | cons m ms =>
      have hm := comment_facts (hpw.above m (by simp [ha]))
      simp only [List.map_cons, List.cons_append]
      rw [docStart]
      simp [hm.2.2.1, hm.2.2.2.1]

/-- the other quote character -/
def other : Quote → Char
  | .dq => '\''
  | .sq => '"'

theorem open_facts (q : Quote) (w : Str) (hc : ':' ∉ w) (ho : other q ∉ w) :
    isEmptyLine (indent ++ q.tok ++ w) = false ∧ containsFieldDef (indent ++ q.tok ++ w) = false ∧
    isComment (indent ++ q.tok ++ w) = false ∧ chooseTok (indent ++ q.tok ++ w) = some q.tok ∧
    breakOn q.tok (indent ++ q.tok ++ w) = some (indent, w) := by
  have hi : ':' ∉ indent := not_mem_indent (by decide)
  cases q
  · have e : indent ++ Quote.dq.tok ++ w = indent ++ '"' :: '"' :: '"' :: w := by
      simp [Quote.tok, tripleDouble]
    have hb := breakOn_first '"' w (not_mem_indent (c := '"') (by decide))
    have hno : '\'' ∉ indent ++ '"' :: '"' :: '"' :: w := by
      intro h
      rcases List.mem_append.mp h with h | h
      · exact not_mem_indent (by decide) h
      · simp at h; exact ho h
    have hcol : ':' ∉ indent ++ '"' :: '"' :: '"' :: w := by
      intro h
      rcases List.mem_append.mp h with h | h
      · exact hi h
      · simp at h; exact hc h
    rw [e]
    refine ⟨?_, cfd_no_colon' hcol, ?_, ?_, ?_⟩
    · rw [isEmptyLine, lstripWs_space _ indent_allSpace, lstripWs_cons _ (by decide)]; rfl
    · rw [isComment, lstripWs_space _ indent_allSpace, lstripWs_cons _ (by decide)]; rfl
    · simp [chooseTok, tripleSingle, tripleDouble, breakOn_absent _ hno, hb, Quote.tok]
    · simpa [Quote.tok, tripleDouble] using hb
  · have e : indent ++ Quote.sq.tok ++ w = indent ++ '\'' :: '\'' :: '\'' :: w := by
      simp [Quote.tok, tripleSingle]
    have hb := breakOn_first '\'' w (not_mem_indent (c := '\'') (by decide))
    have hno : '"' ∉ indent ++ '\'' :: '\'' :: '\'' :: w := by
      intro h
      rcases List.mem_append.mp h with h | h
      · exact not_mem_indent (by decide) h
      · simp at h; exact ho h
    have hcol : ':' ∉ indent ++ '\'' :: '\'' :: '\'' :: w := by
      intro h
      rcases List.mem_append.mp h with h | h
      · exact hi h
      · simp at h; exact hc h
    rw [e]
    refine ⟨?_, cfd_no_colon' hcol, ?_, ?_, ?_⟩
    · rw [isEmptyLine, lstripWs_space _ indent_allSpace, lstripWs_cons _ (by decide)]; rfl
    · rw [isComment, lstripWs_space _ indent_allSpace, lstripWs_cons _ (by decide)]; rfl
    · simp [chooseTok, tripleSingle, tripleDouble, breakOn_absent _ hno, hb, Quote.tok]
    · simpa [Quote.tok, tripleSingle] using hb

theorem docText_facts {m : Str} (h : DocText m) (q : Quote) : q.ch ∉ m ∧ other q ∉ m ∧ ':' ∉ m := by
  cases q
  · exact ⟨h.1, h.2.1, h.2.2⟩
  · exact ⟨h.2.1, h.1, h.2.2⟩

theorem breakOn_tok_absent (q : Quote) {s : Str} (h : q.ch ∉ s) : breakOn q.tok s = none := by
  rw [tok_eq]; exact breakOn_absent _ h

theorem breakOn_tok_first (q : Quote) {a : Str} (r : Str) (h : q.ch ∉ a) :
    breakOn q.tok (a ++ q.tok ++ r) = some (a, r) := by
  rw [tok_eq]
  have := breakOn_first q.ch r h
  simpa [List.append_assoc] using this

/-- the intermediate and closing lines of a multi-line docstring -/
theorem docRest_multi (q : Quote) (r : List Str) (rest : List Str) (h : ∀ m ∈ r, DocText m) :
    docRest q.tok (r.map (indent ++ ·) ++ (indent ++ q.tok) :: rest) = r.map stripWs ++ [[]] := by
  induction r with
  | nil =>
    have := breakOn_tok_first q [] (not_mem_indent (c := q.ch) (by cases q <;> decide))
    simp only [List.append_nil] at this
    simp [docRest, this, stripWs_allSpace indent_allSpace]
  | cons m ms ih =>
    have hm := docText_facts (h m (by simp)) q
    have hno : q.ch ∉ indent ++ m := by
      intro hc
      rcases List.mem_append.mp hc with e | e
      · exact not_mem_indent (by cases q <;> decide) e
      · exact hm.1 e
    simp only [List.map_cons, List.cons_append, docRest, breakOn_tok_absent q hno,
      stripWs_space_left _ indent_allSpace, ih (fun x hx => h x (List.mem_cons_of_mem _ hx))]

/-- an opening line whose docstring closes on the same line -/
theorem docStart_one (l0 tok a w mid z : Str) (rest : List Str) (h1 : isEmptyLine l0 = false)
    (h2 : containsFieldDef l0 = false) (h3 : isComment l0 = false) (h4 : chooseTok l0 = some tok)
    (h5 : breakOn tok l0 = some (a, w)) (h6 : breakOn tok w = some (mid, z)) :
    docStart (l0 :: rest) = [stripWs mid] := by
  rw [docStart]
  simp only [h1, h2, h3, h4, h5, h6, Bool.false_eq_true, ↓reduceIte, Bool.or_self]

/-- an opening line whose docstring continues on the following lines -/
theorem docStart_multi (l0 tok a w : Str) (rest : List Str) (h1 : isEmptyLine l0 = false)
    (h2 : containsFieldDef l0 = false) (h3 : isComment l0 = false) (h4 : chooseTok l0 = some tok)
    (h5 : breakOn tok l0 = some (a, w)) (h6 : breakOn tok w = none) :
    docStart (l0 :: rest) = stripWs w :: docRest tok rest := by
  rw [docStart]
  simp only [h1, h2, h3, h4, h5, h6, Bool.false_eq_true, ↓reduceIte, Bool.or_self]

/-- **locality of the docstring-below scan**: whatever follows the block -/
theorem below_eq {b : Block} (hb : WF b) {post : List Block} (hp : ∀ x ∈ post, WF x) :
    docBelow (tailLines b ++ renderBlocks post) = belowText b.below := by
  have hw := hb.below
  unfold docBelow tailLines
  cases hbl : b.below with
  | none =>
    simp only [belowLines, List.append_nil, List.append_assoc]
    rw [docStart_blanks, docStart_blanks, docStart_blocks hp]; rfl
  | one q m =>
    rw [hbl] at hw
    have hm := docText_facts hw q
    have hcw : ':' ∉ m ++ q.tok := by
      intro h
      rcases List.mem_append.mp h with h | h
      · exact hm.2.2 h
      · cases q <;> simp [Quote.tok, tripleDouble, tripleSingle] at h
    have how : other q ∉ m ++ q.tok := by
      intro h
      rcases List.mem_append.mp h with h | h
      · exact hm.2.1 h
      · cases q <;> simp [Quote.tok, tripleDouble, tripleSingle, other] at h
    obtain ⟨f1, f2, f3, f4, f5⟩ := open_facts q (m ++ q.tok) hcw how
    have hin : breakOn q.tok (m ++ q.tok) = some (m, []) := by
      have := breakOn_tok_first q [] hm.1
      simpa using this
    have e : blanks b.gap2 ++ belowLines (Below.one q m) ++ blanks b.gap3 ++ renderBlocks post
        = blanks b.gap2 ++ (indent ++ q.tok ++ (m ++ q.tok)) :: (blanks b.gap3 ++ renderBlocks post) := by
      simp [belowLines, List.append_assoc]
    rw [e, docStart_blanks, docStart_one _ _ _ _ _ _ _ f1 f2 f3 f4 f5 hin]
    rfl
  | multi q f r =>
    rw [hbl] at hw
    have hf := docText_facts hw.1 q
    obtain ⟨f1, f2, f3, f4, f5⟩ := open_facts q f hf.2.2 hf.2.1
    have e : blanks b.gap2 ++ belowLines (Below.multi q f r) ++ blanks b.gap3 ++ renderBlocks post
        = blanks b.gap2 ++ (indent ++ q.tok ++ f) ::
            (r.map (indent ++ ·) ++ (indent ++ q.tok) :: (blanks b.gap3 ++ renderBlocks post)) := by
      simp [belowLines, List.append_assoc]
    rw [e, docStart_blanks, docStart_multi _ _ _ _ _ f1 f2 f3 f4 f5 (breakOn_tok_absent q hf.1),
      docRest_multi q r _ hw.2]
    rfl

/-! ### C19 central theorem: extraction = the block's own documentation -/

/-- **Extraction = documented text on the layout grammar.**  For every header, every list of
    well-formed blocks before (`pre`) and after (`post`) — with names different from `b.name`
    before it, however similar — the scan of the rendered source for `b.name` returns exactly
    `b.doc`, which is a function of the block `b` alone. -/
theorem c19_extract (hdr : List Str) (pre post : List Block) (b : Block)
    (hh : headerOk hdr = true) (hw : ∀ x ∈ pre ++ b :: post, x.wf = true)
    (hn : ∀ x ∈ pre, x.name ≠ b.name) :
    scanLines (hdr ++ renderBlocks (pre ++ b :: post)) b.name = some b.doc := by
  have hbw : WF b := wf_of (hw b (by simp))
  have hprew : ∀ x ∈ pre, WF x := fun x hx => wf_of (hw x (by simp [hx]))
  have hpostw : ∀ x ∈ post, WF x := fun x hx => wf_of (hw x (by simp [hx]))
  cases hdr with
  | nil => simp [headerOk] at hh
  | cons h0 hs =>
    have hh' : ∀ l ∈ h0 :: hs, containsFieldDef l = false ∧ (isHeaderLine l = true ∨ '#' ∉ l) := by
      intro l hl
      simp only [headerOk, Bool.and_eq_true, List.all_eq_true] at hh
      have h := hh.2 l hl
      simp only [Bool.and_eq_true, Bool.not_eq_eq_eq_not, Bool.not_true, Bool.or_eq_true,
        contains_false_iff] at h
      exact h
    have h0d : containsFieldDef h0 = false := (hh' h0 (by simp)).1
    have hhs : ∀ l ∈ hs, containsFieldDef l = false ∧ (isHeaderLine l = true ∨ '#' ∉ l) :=
      fun l hl => hh' l (List.mem_cons_of_mem _ hl)
    have hskip : ∀ l ∈ hs ++ renderBlocks pre ++ (b.above.map commentLine ++ blanks b.gap1),
        (containsFieldDef l && lineDefines l b.name) = false := by
      intro l hl
      rcases List.mem_append.mp hl with e | e
      · rcases List.mem_append.mp e with e | e
        · simp [(hhs l e).1]
        · exact blocks_skip hprew hn l e
      · rcases List.mem_append.mp e with e | e
        · obtain ⟨m, hm, e⟩ := List.mem_map.mp e
          subst e; simp [(comment_facts (hbw.above m hm)).1]
        · rw [mem_blanks e]; simp [blank_facts.1]
    have elines : (h0 :: hs) ++ renderBlocks (pre ++ b :: post)
        = h0 :: ((hs ++ renderBlocks pre ++ (b.above.map commentLine ++ blanks b.gap1))
            ++ defLine b :: (tailLines b ++ renderBlocks post)) := by
      rw [renderBlocks_append]
      simp [renderBlocks, renderBlock_eq, List.append_assoc]
    rw [elines, scanLines]
    simp only [h0d, Bool.false_and, Bool.false_eq_true, ↓reduceIte]
    rw [scanFrom_skip _ _ _ _ hskip, scanFrom]
    have hd := def_facts hbw
    simp only [hd.1, hd.2.1, beq_self_eq_true, Bool.and_self, ↓reduceIte, List.append_nil]
    have hq := quiet_context (fun l hl => (hhs l hl).2) hprew
    rw [above_eq hbw _ hq, hd.2.2, below_eq hbw hpostw]
    rfl

/-- the same at the level of one class: when the class source (after the removal of `__doc__`)
    splits into the lines of a layout, the class-level extractor returns the block's documentation
    plus the class-docstring entry of that very name. -/
theorem c19_class (c : ClassSrc) (hdr : List Str) (pre post : List Block) (b : Block)
    (hsrc : splitLines (removeDoc c.doc c.source) = hdr ++ renderBlocks (pre ++ b :: post))
    (hh : headerOk hdr = true) (hw : ∀ x ∈ pre ++ b :: post, x.wf = true)
    (hn : ∀ x ∈ pre, x.name ≠ b.name) :
    scanClass c b.name = some { b.doc with cls := clsDesc c.params b.name } := by
  unfold scanClass
  rw [hsrc, c19_extract hdr pre post b hh hw hn]

/-- **No leak between fields.**  Replace everything around the block — the header, the blocks
    before and after it, with whatever texts, any names but this one (`a` next to `ab` included) —
    and the field still gets the same documentation. -/
theorem c19_no_leak (hdr hdr' : List Str) (pre post pre' post' : List Block) (b : Block)
    (hh : headerOk hdr = true) (hh' : headerOk hdr' = true)
    (hw : ∀ x ∈ pre ++ b :: post, x.wf = true) (hw' : ∀ x ∈ pre' ++ b :: post', x.wf = true)
    (hn : ∀ x ∈ pre, x.name ≠ b.name) (hn' : ∀ x ∈ pre', x.name ≠ b.name) :
    scanLines (hdr ++ renderBlocks (pre ++ b :: post)) b.name
      = scanLines (hdr' ++ renderBlocks (pre' ++ b :: post')) b.name := by
  rw [c19_extract hdr pre post b hh hw hn, c19_extract hdr' pre' post' b hh' hw' hn']

/-- **No documentation ⇒ no text**: an undocumented block yields four empty texts, whatever
    documentation its neighbours carry. -/
theorem c19_none (hdr : List Str) (pre post : List Block) (b : Block)
    (hh : headerOk hdr = true) (hw : ∀ x ∈ pre ++ b :: post, x.wf = true)
    (hn : ∀ x ∈ pre, x.name ≠ b.name)
    (h1 : b.above = []) (h2 : b.inline = none) (h3 : b.below = Below.none) :
    scanLines (hdr ++ renderBlocks (pre ++ b :: post)) b.name = some Doc.empty := by
  rw [c19_extract hdr pre post b hh hw hn]
  simp [Block.doc, h1, h2, h3, belowText, Doc.empty, joinNl, joinWith, stripWs, lstripWs]

/-! ### MRO accumulation: each kind from the nearest class that provides it -/

/-- Python's `a or b or c …` over a list of strings -/
def firstNonEmpty : List Str → Str
  | [] => []
  | x :: xs => orStr x (firstNonEmpty xs)

theorem orStr_nil (a : Str) : orStr a [] = a := by cases a <;> rfl

theorem orStr_assoc (a b c : Str) : orStr (orStr a b) c = orStr a (orStr b c) := by
  cases a <;> simp [orStr]

theorem accumulate_proj (p : Doc → Str) (hp : ∀ c d, p (merge c d) = orStr (p c) (p d))
    (c : Doc) (ds : List (Option Doc)) :
    p ((accumulate (some c) ds).getD Doc.empty)
      = orStr (p c) (firstNonEmpty ((ds.filterMap id).map p)) := by
  induction ds generalizing c with
  | nil => simp [accumulate, firstNonEmpty, orStr_nil]
  | cons d ds ih =>
    cases d with
    | none => simpa [accumulate] using ih c
    | some d =>
      simp only [accumulate, ih, hp, List.filterMap_cons, id, List.map_cons, firstNonEmpty,
        orStr_assoc]

theorem accumulate_none_proj (p : Doc → Str) (hp : ∀ c d, p (merge c d) = orStr (p c) (p d))
    (he : p Doc.empty = []) (ds : List (Option Doc)) :
    p (getAttributeDocstring ds) = firstNonEmpty ((ds.filterMap id).map p) := by
  unfold getAttributeDocstring
  induction ds with
  | nil => simp [accumulate, firstNonEmpty, he]
  | cons d ds ih =>
    cases d with
    | none => simpa [accumulate] using ih
    | some d =>
      simp only [accumulate, accumulate_proj p hp, List.filterMap_cons, id, List.map_cons,
        firstNonEmpty]

/-- **Each kind of documentation is taken from the nearest class that provides it**: for the
    per-class results in MRO order (`none` = the class does not define the field), every one of
    the four texts is the first non-empty one, independently of the other three kinds.  Any
    chain length. -/
theorem c19_mro (ds : List (Option Doc)) :
    (getAttributeDocstring ds).above = firstNonEmpty ((ds.filterMap id).map (·.above)) ∧
    (getAttributeDocstring ds).inline = firstNonEmpty ((ds.filterMap id).map (·.inline)) ∧
    (getAttributeDocstring ds).below = firstNonEmpty ((ds.filterMap id).map (·.below)) ∧
    (getAttributeDocstring ds).cls = firstNonEmpty ((ds.filterMap id).map (·.cls)) :=
  ⟨accumulate_none_proj (·.above) (fun _ _ => rfl) rfl ds,
   accumulate_none_proj (·.inline) (fun _ _ => rfl) rfl ds,
   accumulate_none_proj (·.below) (fun _ _ => rfl) rfl ds,
   accumulate_none_proj (·.cls) (fun _ _ => rfl) rfl ds⟩

/-- **History independence of the specification**: in any sequence of look-ups, the answer to a
    look-up is the one-shot answer for that class and field — whatever was looked up before or
    after (other classes of the chain, the same class again, unrelated classes with the same field
    name).  The correspondence op `doc.history` holds the real, caching extractor to this. -/
theorem c19_history (pre post : List (List ClassSrc × Str)) (q : List ClassSrc × Str) :
    (answerAll (pre ++ q :: post))[pre.length]? = some (attributeDoc q.1 q.2) := by
  simp [answerAll]

/-! ### precedence -/

/-- an explicit `help=` handed to `simple_parsing.field` wins over everything -/
theorem c19_precedence_custom (h : Str) (m : Option Str) (d : Doc) : actionHelp (some h) m d = some h := rfl

/-- a non-empty `metadata["help"]` wins over every source-level documentation -/
theorem c19_precedence_meta (h : Str) (d : Doc) (hne : h ≠ []) : actionHelp none (some h) d = some h := by
  cases h with
  | nil => contradiction
  | cons c cs => rfl

/-- **Precedence**: without an explicit `help=`, the help is the first non-empty of docstring
    below, comment above, inline comment, class-docstring entry — and there is none when all four
    are empty (no invented text). -/
theorem c19_precedence (d : Doc) :
    actionHelp none none d =
      (if (firstNonEmpty [d.below, d.above, d.inline, d.cls]).isEmpty then none
       else some (firstNonEmpty [d.below, d.above, d.inline, d.cls])) := by
  simp [actionHelp, fieldHelp, helpString, firstNonEmpty, orStr_nil]

theorem c19_none_help : actionHelp none none Doc.empty = none := by decide

/-- the class-docstring position is matched by exact name too -/
theorem clsDesc_absent (params : List (Str × Str)) (name : Str) (h : ∀ p ∈ params, p.1 ≠ name) :
    clsDesc params name = [] := by
  unfold clsDesc
  suffices ∀ acc, acc = [] → params.foldl (fun acc p => if p.1 == name then p.2 else acc) acc = [] from
    this [] rfl
  induction params with
  | nil => intro acc h; simpa using h
  | cons p ps ih =>
    intro acc hacc
    have hp : (p.1 == name) = false := by simpa using h p (by simp)
    simp only [List.foldl_cons, hp, Bool.false_eq_true, ↓reduceIte]
    exact ih (fun q hq => h q (List.mem_cons_of_mem _ hq)) acc hacc

/-! ### repaired findings, now full theorems -/

theorem cfd_congr {l l' : Str} (h : before '#' l = before '#' l') :
    containsFieldDef l = containsFieldDef l' := by
  unfold containsFieldDef; rw [h]

/-- `@dataclass  # <any comment>` -/
def decoratorLine (c : Str) : Str := ['@', 'd', 'a', 't', 'a', 'c', 'l', 'a', 's', 's', ' ', ' ', '#', ' '] ++ c
/-- `class C0:  # <any comment>` -/
def classLine (c : Str) : Str := ['c', 'l', 'a', 's', 's', ' ', 'C', '0', ':', ' ', ' ', '#', ' '] ++ c

theorem commented_header_ok (c d : Str) : headerOk [decoratorLine c, classLine d] = true := by
  have h1 : containsFieldDef (decoratorLine c) = false := by
    have e : decoratorLine c = ['@', 'd', 'a', 't', 'a', 'c', 'l', 'a', 's', 's', ' ', ' '] ++ '#' :: ' ' :: c := rfl
    apply cfd_no_colon
    rw [e, before_stop _ (by decide)]
    decide
  have h2 : containsFieldDef (classLine d) = false := by
    have e : classLine d = ['c', 'l', 'a', 's', 's', ' ', 'C', '0', ':', ' ', ' '] ++ '#' :: ' ' :: d := rfl
    have e' : before '#' (classLine d) = before '#' ['c', 'l', 'a', 's', 's', ' ', 'C', '0', ':', ' ', ' '] := by
      rw [e, before_stop _ (by decide)]; decide
    rw [cfd_congr e']
    decide
  have h3 : isHeaderLine (decoratorLine c) = true := by
    simp [isHeaderLine, decoratorLine, lstripWs, isSpace, startsWith]
  have h4 : isHeaderLine (classLine d) = true := by
    simp [isHeaderLine, classLine, lstripWs, isSpace, startsWith]
  simp [headerOk, h1, h2, h3, h4]

/-- **A comment on the `class` line or on a decorator line is nobody's documentation** (was
    finding C19-header-comment, repaired): whatever the two comments say, every field — the
    first one included — gets exactly its own block's documentation. -/
theorem c19_header_comment (c d : Str) (pre post : List Block) (b : Block)
    (hw : ∀ x ∈ pre ++ b :: post, x.wf = true) (hn : ∀ x ∈ pre, x.name ≠ b.name) :
    scanLines ([decoratorLine c, classLine d] ++ renderBlocks (pre ++ b :: post)) b.name = some b.doc :=
  c19_extract _ pre post b (commented_header_ok c d) hw hn

/-- what a class contributes to the class-docstring position: its entry for exactly that name,
    whether or not it declares the field itself -/
theorem scanClass_cls (c : ClassSrc) (name : Str) :
    ((scanClass c name).map (·.cls)).getD [] = clsDesc c.params name := by
  unfold scanClass
  cases scanLines (splitLines (removeDoc c.doc c.source)) name with
  | some d => rfl
  | none =>
    cases h : clsDesc c.params name with
    | nil => simp
    | cons x xs => simp

/-- a class that only documents the field in its docstring contributes nothing to the three
    source-level positions (so it never hides a base class's comment or docstring) -/
theorem scanClass_undeclared (c : ClassSrc) (name : Str)
    (h : scanLines (splitLines (removeDoc c.doc c.source)) name = none) :
    scanClass c name = none ∨ scanClass c name = some ⟨[], [], [], clsDesc c.params name⟩ := by
  unfold scanClass
  rw [h]
  cases (clsDesc c.params name).isEmpty <;> simp

/-- **The class-docstring entry comes from the nearest class whose docstring has one** — for every
    MRO and every name, including subclasses that document an inherited field without
    re-declaring it (was finding C19-clsdoc-inherited, repaired). -/
theorem c19_clsdoc (mro : List ClassSrc) (name : Str) :
    (attributeDoc mro name).cls = firstNonEmpty (mro.map (fun c => clsDesc c.params name)) := by
  unfold attributeDoc
  rw [(c19_mro _).2.2.2]
  induction mro with
  | nil => rfl
  | cons c cs ih =>
    have hc := scanClass_cls c name
    simp only [List.map_cons, List.filterMap_cons, id, firstNonEmpty]
    cases hsc : scanClass c name with
    | none =>
      rw [hsc] at hc
      simp only [Option.map_none, Option.getD_none] at hc
      rw [← hc]
      simp only [orStr, List.isEmpty_nil, ↓reduceIte]
      exact ih
    | some d =>
      rw [hsc] at hc
      simp only [Option.map_some, Option.getD_some] at hc
      simp only [List.map_cons, firstNonEmpty, hc, ih]

def colorBlock : Block :=
  { above := [], gap1 := 0, name := "color".toList, tail := " str = \"#ff0000\"".toList, inline := none,
    gap2 := 0, below := .none, gap3 := 0 }
def colorBlock2 : Block :=
  { colorBlock with tail := " str = field(default='a # b', help=\"x#y\")".toList,
                    inline := some "the # real comment".toList }

/-- **A `#` inside a string literal of the default value is not a comment** (was finding
    C19-hash-in-default, repaired): such blocks are well-formed, so `c19_extract`, `c19_no_leak`
    and `c19_none` cover them; the former witness now yields no text at all. -/
theorem c19_hash_in_default (hdr : List Str) (pre post : List Block) (hh : headerOk hdr = true)
    (hw : ∀ x ∈ pre ++ colorBlock :: post, x.wf = true) (hn : ∀ x ∈ pre, x.name ≠ colorBlock.name) :
    scanLines (hdr ++ renderBlocks (pre ++ colorBlock :: post)) colorBlock.name = some Doc.empty :=
  c19_none hdr pre post colorBlock hh hw hn rfl rfl rfl

example : colorBlock.wf = true ∧ colorBlock2.wf = true := by decide
example : scanLines (["class C0:".toList] ++ renderBlocks [colorBlock]) "color".toList = some Doc.empty := by decide
example : scanLines (["class C0:".toList] ++ renderBlocks [colorBlock2]) "color".toList
    = some ⟨[], "the # real comment".toList, [], []⟩ := by decide

def baseSrc : ClassSrc :=
  { source := "@dataclass\nclass C0:\n    a: int = 0  # side\n".toList, doc := none, params := [] }
def derivedSrc : ClassSrc :=
  { source := "@dataclass\nclass C1(C0):\n    x: int = 0\n".toList, doc := none,
    params := [("a".toList, "the a of C1".toList)] }

/-- the former witness, now the expected answer: `C1` documents the inherited `a` -/
example : attributeDoc [derivedSrc, baseSrc] "a".toList = ⟨[], "side".toList, [], "the a of C1".toList⟩ := by
  decide

def plainBlock : Block :=
  { above := [], gap1 := 0, name := "a".toList, tail := " int = 0".toList, inline := none,
    gap2 := 0, below := .none, gap3 := 0 }

/-- the former witness: the comment of the `class` line no longer reaches the first field -/
example : scanLines (["@dataclass".toList, "class C0:  # about the class".toList] ++ renderBlocks [plainBlock])
    "a".toList = some Doc.empty := by decide

/-! ### the hypotheses are satisfiable by non-trivial inputs -/

def exA : Block :=
  { above := ["first line".toList, "second line".toList], gap1 := 1, name := "a".toList,
    tail := " int = 0".toList, inline := some "side of a".toList, gap2 := 1,
    below := .one .dq "below a".toList, gap3 := 1 }
def exAB : Block :=
  { above := [], gap1 := 0, name := "ab".toList, tail := " str = field(default=\"x\", help=\"h\")".toList,
    inline := none, gap2 := 0, below := .multi .sq "below ab".toList ["more ab".toList], gap3 := 2 }
def exABC : Block :=
  { above := ["about abc".toList], gap1 := 0, name := "abc".toList, tail := " float = 1.5".toList,
    inline := none, gap2 := 0, below := .none, gap3 := 0 }
def exHdr : List Str := ["@dataclass(eq=True)".toList, "class C1(C0):".toList, "    \"\"\"".toList, "\"\"\"".toList]

example : headerOk exHdr = true := by decide
example : ∀ x ∈ [exAB] ++ exA :: [exABC], x.wf = true := by decide
example : ∀ x ∈ [exAB], x.name ≠ exA.name := by decide
/-- prefix-related names: the scan for `a` walks over the block of `ab` and answers with `a`'s texts -/
example : scanLines (exHdr ++ renderBlocks [exAB, exA, exABC]) "a".toList
    = some ⟨"first line\nsecond line".toList, "side of a".toList, "below a".toList, []⟩ := by decide
example : scanLines (exHdr ++ renderBlocks [exAB, exA, exABC]) "ab".toList
    = some ⟨[], [], "below ab\nmore ab\n".toList, []⟩ := by decide
example : (getAttributeDocstring [none, some ⟨[], "i1".toList, [], []⟩, some ⟨"a2".toList, "i2".toList, [], "c2".toList⟩])
    = ⟨"a2".toList, "i1".toList, [], "c2".toList⟩ := by decide
example : headerOk [decoratorLine "frozen or not".toList, classLine "about the class".toList] = true := by decide

end SpVerif.C19
